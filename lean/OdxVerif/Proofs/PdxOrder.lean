import OdxVerif.Model.Pdx
/-! # Load-order independence (C11, part D): the database built from a set of ODX files does not depend on the
    order in which the files are added (strict mode; fragment names distinct) -/
namespace OdxVerif.Pdx

/-! ### closed form of `processAll` -/

theorem Db.add_eq (db : Db) (f : File) :
    db.add f = ⟨db.dlcs ++ [f].filter File.isDlc, db.subsets ++ [f].filter File.isSubset,
                db.specs ++ [f].filter File.isSpec, some f.version⟩ := by
  obtain ⟨frag, kind, old, version, ids⟩ := f
  cases kind <;> cases old <;> simp [Db.add, File.isDlc, File.isSubset, File.isSpec]

theorem foldlM_ok (fs : List File) (db : Db) (v : Nat) (hv : ∀ f ∈ fs, f.version = v)
    (hdb : db.version = none ∨ db.version = some v) :
    fs.foldlM processFile db =
      .ok ⟨db.dlcs ++ fs.filter File.isDlc, db.subsets ++ fs.filter File.isSubset,
           db.specs ++ fs.filter File.isSpec, if fs = [] then db.version else some v⟩ := by
  induction fs generalizing db with
  | nil => simp [pure, Except.pure]
  | cons f fs ih =>
    have hf : f.version = v := hv f (List.mem_cons_self ..)
    have hstep : processFile db f = .ok (db.add f) := by
      unfold processFile
      rcases hdb with h | h <;> simp [h, hf]
    rw [List.foldlM_cons, hstep]
    show List.foldlM processFile (db.add f) fs = _
    rw [ih (db.add f) (fun g hg => hv g (List.mem_cons_of_mem _ hg)) (by simp [Db.add_eq, hf])]
    simp only [Db.add_eq, List.append_assoc, ← List.filter_append, List.singleton_append, hf]
    simp

theorem foldlM_err (fs : List File) (db : Db) (v : Nat) (hdb : db.version = some v)
    (hex : ∃ f ∈ fs, f.version ≠ v) : fs.foldlM processFile db = .error () := by
  induction fs generalizing db with
  | nil => simp at hex
  | cons f fs ih =>
    rw [List.foldlM_cons]
    by_cases hf : f.version = v
    · have hstep : processFile db f = .ok (db.add f) := by simp [processFile, hdb, hf]
      rw [hstep]
      show List.foldlM processFile (db.add f) fs = _
      apply ih
      · simp [Db.add_eq, hf]
      · obtain ⟨g, hg, hgv⟩ := hex
        rcases List.mem_cons.mp hg with rfl | hg
        · exact absurd hf hgv
        · exact ⟨g, hg, hgv⟩
    · have hstep : processFile db f = .error () := by
        have hf' : ¬ v = f.version := fun e => hf e.symm
        simp [processFile, hdb, hf']
      rw [hstep]; rfl

/-- all files carry the same version ⇒ the database holds each file in the list its kind selects -/
theorem processAll_ok (fs : List File) (h : ∀ f ∈ fs, ∀ g ∈ fs, f.version = g.version) :
    processAll fs = .ok ⟨fs.filter File.isDlc, fs.filter File.isSubset, fs.filter File.isSpec,
                         fs.head?.map (·.version)⟩ := by
  cases fs with
  | nil => rfl
  | cons f fs =>
    unfold processAll
    rw [foldlM_ok (f :: fs) Db.empty f.version (fun g hg => h g hg f (List.mem_cons_self ..)) (.inl rfl)]
    simp [Db.empty]

/-- adding the files fails (`odxraise`) exactly when two of them carry different model versions -/
theorem processAll_error_iff (fs : List File) :
    processAll fs = .error () ↔ ∃ f ∈ fs, ∃ g ∈ fs, f.version ≠ g.version := by
  constructor
  · intro herr
    apply Classical.byContradiction
    intro hne
    have : ∀ f ∈ fs, ∀ g ∈ fs, f.version = g.version := by
      intro f hf g hg
      apply Classical.byContradiction
      intro hfg
      exact hne ⟨f, hf, g, hg, hfg⟩
    rw [processAll_ok fs this] at herr
    cases herr
  · rintro ⟨f, hf, g, hg, hfg⟩
    cases fs with
    | nil => cases hf
    | cons f0 fs =>
      unfold processAll
      rw [List.foldlM_cons]
      have hstep : processFile Db.empty f0 = .ok (Db.empty.add f0) := rfl
      rw [hstep]
      show List.foldlM processFile (Db.empty.add f0) fs = _
      apply foldlM_err _ _ f0.version (by simp [Db.add_eq])
      by_cases h0 : f.version = f0.version
      · have hg0 : g.version ≠ f0.version := fun e => hfg (h0.trans e.symm)
        rcases List.mem_cons.mp hg with rfl | hg
        · exact absurd rfl hg0
        · exact ⟨g, hg, hg0⟩
      · rcases List.mem_cons.mp hf with rfl | hf
        · exact absurd rfl h0
        · exact ⟨f, hf, h0⟩

/-- the outcome is `ok` exactly when all versions agree -/
theorem processAll_ok_iff (fs : List File) (db : Db) (h : processAll fs = .ok db) :
    ∀ f ∈ fs, ∀ g ∈ fs, f.version = g.version := by
  intro f hf g hg
  apply Classical.byContradiction
  intro hfg
  rw [(processAll_error_iff fs).mpr ⟨f, hf, g, hg, hfg⟩] at h
  cases h

/-! ### the three container lists partition the input -/

theorem partition_perm (fs : List File) :
    (fs.filter File.isSubset ++ fs.filter File.isSpec ++ fs.filter File.isDlc).Perm fs := by
  induction fs with
  | nil => simp
  | cons f fs ih =>
    rw [List.append_assoc] at ih
    obtain ⟨frag, kind, old, version, ids⟩ := f
    cases kind <;> cases old <;> simp [File.isDlc, File.isSubset, File.isSpec]
    all_goals first
      | exact ih
      | exact List.perm_middle.trans (ih.cons _)
      | (rw [← List.append_assoc]
         refine List.perm_middle.trans ?_
         rw [List.append_assoc]
         exact ih.cons _)

/-! ### ODXLINK dictionary: last update wins, but distinct fragments never collide -/

theorem lookupLast_append {α β : Type} [BEq α] (k : α) (a b : List (α × β)) :
    lookupLast k (a ++ b) = (lookupLast k b).or (lookupLast k a) := by
  simp [lookupLast, List.reverse_append, List.lookup_append]

theorem lookupLast_fileLinks_none {f : File} {k : Key} (h : f.fragment ≠ k.1) :
    lookupLast k (fileLinks f) = none := by
  rw [lookupLast, List.lookup_eq_none_iff]
  intro p hp
  simp only [List.mem_reverse, fileLinks, List.mem_map] at hp
  obtain ⟨q, _, rfl⟩ := hp
  simp only [bne_iff_ne, ne_eq]
  intro e
  exact h (by rw [e])

theorem lookupLast_files_none {L : List File} {k : Key} (h : ∀ f ∈ L, f.fragment ≠ k.1) :
    lookupLast k (L.flatMap fileLinks) = none := by
  induction L with
  | nil => rfl
  | cons f L ih =>
    rw [List.flatMap_cons, lookupLast_append, ih (fun g hg => h g (List.mem_cons_of_mem _ hg)),
      lookupLast_fileLinks_none (h f (List.mem_cons_self ..))]
    rfl

/-- with distinct fragments, a key is answered by the one file of its fragment — wherever that file stands -/
theorem lookupLast_files_iff {L : List File} (hn : (L.map File.fragment).Nodup) (k : Key) (v : Nat) :
    lookupLast k (L.flatMap fileLinks) = some v ↔
      ∃ f ∈ L, f.fragment = k.1 ∧ lookupLast k (fileLinks f) = some v := by
  induction L with
  | nil => simp [lookupLast]
  | cons f L ih =>
    rw [List.map_cons, List.nodup_cons] at hn
    rw [List.flatMap_cons, lookupLast_append]
    by_cases hf : f.fragment = k.1
    · have hL : ∀ g ∈ L, g.fragment ≠ k.1 := by
        intro g hg e
        exact hn.1 (List.mem_map.mpr ⟨g, hg, e.trans hf.symm⟩)
      rw [lookupLast_files_none hL, Option.none_or]
      constructor
      · exact fun h => ⟨f, List.mem_cons_self .., hf, h⟩
      · rintro ⟨g, hg, hgk, hv⟩
        rcases List.mem_cons.mp hg with rfl | hg
        · exact hv
        · exact absurd hgk (hL g hg)
    · rw [lookupLast_fileLinks_none hf, Option.or_none, ih hn.2]
      constructor
      · rintro ⟨g, hg, h⟩
        exact ⟨g, List.mem_cons_of_mem _ hg, h⟩
      · rintro ⟨g, hg, hgk, hv⟩
        rcases List.mem_cons.mp hg with rfl | hg
        · exact absurd hgk hf
        · exact ⟨g, hg, hgk, hv⟩

theorem lookupLast_files_perm {L L' : List File} (hp : L.Perm L') (hn : (L.map File.fragment).Nodup)
    (k : Key) :
    lookupLast k (L.flatMap fileLinks) = lookupLast k (L'.flatMap fileLinks) := by
  have hn' : (L'.map File.fragment).Nodup := (hp.map _).nodup_iff.mp hn
  apply Option.ext
  intro v
  rw [lookupLast_files_iff hn, lookupLast_files_iff hn']
  constructor <;> rintro ⟨f, hf, h⟩
  · exact ⟨f, hp.mem_iff.mp hf, h⟩
  · exact ⟨f, hp.mem_iff.mpr hf, h⟩

/-! ### the theorem -/

/-- **load-order independence.**  For two orders of the same files with pairwise distinct document fragments (short name and document type):
    (1) either both loads fail or both succeed; (2) if they succeed, the three container lists agree up to order,
    the model version agrees, and every ODXLINK id resolves to the same object. -/
theorem load_order (fs fs' : List File) (hp : fs.Perm fs') (hd : distinctFragments fs) :
    (processAll fs = .error () ↔ processAll fs' = .error ()) ∧
    ∀ db db', processAll fs = .ok db → processAll fs' = .ok db' →
      db.dlcs.Perm db'.dlcs ∧ db.subsets.Perm db'.subsets ∧ db.specs.Perm db'.specs ∧
      db.version = db'.version ∧ ∀ k, linkLookup db k = linkLookup db' k := by
  constructor
  · rw [processAll_error_iff, processAll_error_iff]
    constructor <;> rintro ⟨f, hf, g, hg, h⟩
    · exact ⟨f, hp.mem_iff.mp hf, g, hp.mem_iff.mp hg, h⟩
    · exact ⟨f, hp.mem_iff.mpr hf, g, hp.mem_iff.mpr hg, h⟩
  · intro db db' h h'
    have hu := processAll_ok_iff fs db h
    have hu' := processAll_ok_iff fs' db' h'
    rw [processAll_ok fs hu] at h
    rw [processAll_ok fs' hu'] at h'
    cases h; cases h'
    refine ⟨hp.filter _, hp.filter _, hp.filter _, ?_, ?_⟩
    · show fs.head?.map (·.version) = fs'.head?.map (·.version)
      cases fs with
      | nil => rw [List.nil_perm.mp hp]
      | cons f fs =>
        cases fs' with
        | nil => exact absurd (List.perm_nil.mp hp) (List.cons_ne_nil _ _)
        | cons g fs' =>
          simp only [List.head?_cons, Option.map_some]
          rw [hu f (List.mem_cons_self ..) g (hp.mem_iff.mpr (List.mem_cons_self ..))]
    · intro k
      show lookupLast k (List.flatMap fileLinks _) = lookupLast k (List.flatMap fileLinks _)
      have hL := partition_perm fs
      have hL' := partition_perm fs'
      apply lookupLast_files_perm ((hL.trans hp).trans hL'.symm)
      exact (hL.map _).nodup_iff.mpr hd

/-! ### the derived state follows the ODXLINK map -/

/-- **load-order independence of the derived state.**  The communication parameters and the inherited objects
    `refresh()` computes for a layer are functions of the ODXLINK map (and of what the layer elements describe), so
    they are the same for every order of the files -/
theorem effective_order (fs fs' : List File) (hp : fs.Perm fs') (hd : distinctFragments fs) (db db' : Db)
    (h : processAll fs = .ok db) (h' : processAll fs' = .ok db') (raw : Nat → Option RawLayer) (fuel : Nat)
    (k : Key) :
    effectiveComparams db raw fuel k = effectiveComparams db' raw fuel k ∧
    effectiveObjects db raw fuel k = effectiveObjects db' raw fuel k := by
  have hl : linkLookup db = linkLookup db' := funext ((load_order fs fs' hp hd).2 db db' h h').2.2.2.2
  simp only [effectiveComparams, effectiveObjects, hl, and_self]

/-! ### strict mode is needed -/

/-- in non-strict mode (`odxraise` continues) the resulting `model_version` is the LAST file's: order dependent -/
theorem load_order_counterexample_lenient :
    ∃ fs fs' : List File, fs.Perm fs' ∧ distinctFragments fs ∧
      (processAllLenient fs).version ≠ (processAllLenient fs').version := by
  refine ⟨[⟨"A", .dlc, false, 1, []⟩, ⟨"B", .dlc, false, 2, []⟩],
          [⟨"B", .dlc, false, 2, []⟩, ⟨"A", .dlc, false, 1, []⟩], ?_, ?_, ?_⟩
  · exact List.Perm.swap ..
  · unfold distinctFragments; decide
  · decide

/-! ### non-vacuity: three files of the three kinds (one of them ODX 2.0 style), shared local id names -/

def exFiles : List File :=
  [⟨"DLC", .dlc, false, 3, [("x", 1), ("y", 2), ("x", 7)]⟩, ⟨"SUB", .subset, false, 3, [("x", 3)]⟩,
   ⟨"SPEC", .spec, false, 3, [("x", 4), ("p", 5)]⟩]

example : distinctFragments exFiles := by unfold distinctFragments; decide
example : processAll exFiles = .ok ⟨[exFiles[0]], [exFiles[1]], [exFiles[2]], some 3⟩ := by rfl
example : processAll exFiles.reverse = .ok ⟨[exFiles[0]], [exFiles[1]], [exFiles[2]], some 3⟩ := by rfl
example : (processAll exFiles).toOption.map (linkLookup · (("DLC", .container), "x")) = some (some 7) := by decide
example : (processAll exFiles.reverse).toOption.map (linkLookup · (("SPEC", .comparamSpec), "x")) = some (some 4) := by decide
example : processAll (⟨"OLD", .spec, true, 2, []⟩ :: exFiles) = .error () := by rfl

/-! ### namesake documents: a container, a comparam subset and a comparam spec that all carry the short name `N` (and
  the same local id `x`) are three distinct fragments; every one of them survives, in every order, and every id
  resolves into its own document -/

def exNamesakes : List File :=
  [⟨"N", .dlc, false, 3, [("x", 1)]⟩, ⟨"N", .subset, false, 3, [("x", 2)]⟩, ⟨"N", .spec, false, 3, [("x", 3)]⟩]

example : distinctFragments exNamesakes := by unfold distinctFragments; decide
example : ¬ (exNamesakes.map (·.frag)).Nodup := by decide
example : processAll exNamesakes = .ok ⟨[exNamesakes[0]], [exNamesakes[1]], [exNamesakes[2]], some 3⟩ := by rfl
example : processAll exNamesakes.reverse = .ok ⟨[exNamesakes[0]], [exNamesakes[1]], [exNamesakes[2]], some 3⟩ := by rfl
example : (processAll exNamesakes).toOption.map (fun db => [linkLookup db (("N", .container), "x"),
    linkLookup db (("N", .comparamSubset), "x"), linkLookup db (("N", .comparamSpec), "x")]) = some [some 1, some 2, some 3] := by decide
example : (processAll exNamesakes.reverse).toOption.map (fun db => [linkLookup db (("N", .container), "x"),
    linkLookup db (("N", .comparamSubset), "x"), linkLookup db (("N", .comparamSpec), "x")]) = some [some 1, some 2, some 3] := by decide
/-- an ODX 2.0 COMPARAM-SPEC is parsed as a comparam subset: it does collide with a COMPARAM-SUBSET of the same name -/
example : ¬ distinctFragments [⟨"N", .subset, false, 2, []⟩, ⟨"N", .spec, true, 2, []⟩] := by unfold distinctFragments; decide

/-! ### non-vacuity of `effective_order`: a base variant in one document derived from a protocol in another one -/

/-- two containers: `P` holds the protocol `p` (object 1), `V` the base variant `v` (object 2) and the ECU variant `e` (object 3) -/
def exLayerFiles : List File :=
  [⟨"P", .dlc, false, 3, [("p", 1)]⟩, ⟨"V", .dlc, false, 3, [("v", 2), ("e", 3)]⟩]

def exCp (tag : Nat) (id : String) (proto : Option String) : Comparam.Inst := ⟨tag, id, proto, .str "", .simple id ""⟩

/-- the protocol defines two communication parameters and two objects; the base variant (PARENT-REF into document `P`)
    overrides one of each and adds one of each; the ECU variant (PARENT-REF into its own document) excludes object 11 -/
def exRaw : Nat → Option RawLayer
  | 1 => some ⟨.protocol, [exCp 10 "baud" (some "p"), exCp 11 "id" none], [⟨10, 1⟩, ⟨11, 1⟩], []⟩
  | 2 => some ⟨.baseVariant, [exCp 20 "baud" (some "p"), exCp 21 "time" none], [⟨10, 2⟩, ⟨12, 2⟩], [((("P", .container), "p"), [])]⟩
  | 3 => some ⟨.ecuVariant, [], [], [((("V", .container), "v"), [11])]⟩
  | _ => none

def exTags (db : Except Unit Db) (k : Key) : Option (List Nat) :=
  db.toOption.bind fun db => (effectiveComparams db exRaw 4 k).map (·.map (·.tag))

def exObjs (db : Except Unit Db) (k : Key) : Option (Except Inherit.Err (List Inherit.Obj)) :=
  db.toOption.bind fun db => effectiveObjects db exRaw 4 k

example : distinctFragments exLayerFiles := by unfold distinctFragments; decide
-- parent's document first and child's document first: the same communication parameters and objects
example : exTags (processAll exLayerFiles) (("V", .container), "e") = some [20, 11, 21] := by decide
example : exTags (processAll exLayerFiles.reverse) (("V", .container), "e") = some [20, 11, 21] := by decide
example : exObjs (processAll exLayerFiles) (("V", .container), "e") = some (.ok [⟨10, 2⟩, ⟨12, 2⟩]) := by decide
example : exObjs (processAll exLayerFiles.reverse) (("V", .container), "e") = some (.ok [⟨10, 2⟩, ⟨12, 2⟩]) := by decide
example : exObjs (processAll exLayerFiles) (("V", .container), "v") = some (.ok [⟨10, 2⟩, ⟨11, 1⟩, ⟨12, 2⟩]) := by decide
-- the parent's document missing: the PARENT-REF does not resolve
example : exTags (processAll exLayerFiles.tail) (("V", .container), "v") = none := by decide

end OdxVerif.Pdx
