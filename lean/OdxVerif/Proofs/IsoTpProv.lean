import OdxVerif.Proofs.IsoTp
/-! Provenance of reported telegrams (C13): a ghost-instrumented run that records, for every reported
    telegram, *which* frames of the input it was assembled from. Core Lean only. -/
namespace OdxVerif.IsoTp

/-- payload of a single frame as ISO 15765-2 defines it (classic, or CAN-FD escape) -/
def sfPayload (f : Bytes) : Option Bytes :=
  match f with
  | [] => none
  | b0 :: rest =>
    if b0 / 16 = 0 then
      if b0 % 16 = 0 ∧ 8 < f.length then some ((rest.drop 1).take (rest.headD 0))
      else some (rest.take (b0 % 16))
    else none

/-- what `step` can do, exhaustively -/
inductive StepCase (s : Slot) (f : Bytes) : Prop
  | ignore (evs : List Ev)
      (h : step s f = (s, evs))
      (hev : evs = [] ∨ (∃ x, evs = [.flow x]) ∨ (∃ x, evs = [.typeErr x]) ∨ (∃ a b, evs = [.seqErr a b])
              ∨ (∃ a b c, evs = [.consec a, .seqErr b c]))
  | single (p : Bytes) (hp : sfPayload f = some p)
      (h : step s f = (s, [.single p, .complete p, .tele p]))
  | first (hi b1 : Nat) (pl : Bytes) (hhi : hi < 16) (hf : f = (16 + hi) :: b1 :: pl)
      (h : step s f = ({ specLen := hi * 256 + b1, data := some pl, last := 0 }, [.first]))
  | more (sn : Nat) (rest d : Bytes) (hsn : sn < 16) (hf : f = (32 + sn) :: rest) (hd : s.data = some d)
      (hseq : (s.last + 1) % 16 = sn) (hlen : ¬ s.specLen ≤ (d ++ rest).length)
      (h : step s f = ({ s with data := some (d ++ rest), last := sn }, [.consec sn]))
  | done (sn : Nat) (rest d : Bytes) (hsn : sn < 16) (hf : f = (32 + sn) :: rest) (hd : s.data = some d)
      (hseq : (s.last + 1) % 16 = sn) (hlen : s.specLen ≤ (d ++ rest).length)
      (h : step s f = ({ s with data := none, last := sn },
            [.consec sn, .complete ((d ++ rest).take s.specLen), .tele ((d ++ rest).take s.specLen)]))

theorem step_cases (s : Slot) (f : Bytes) : StepCase s f := by
  match f with
  | [] => exact .ignore [] (by simp [step]) (Or.inl rfl)
  | b0 :: rest =>
    by_cases h0 : b0 / 16 = 0
    · by_cases hfd : b0 % 16 = 0 ∧ 8 < (b0 :: rest).length
      · exact .single ((rest.drop 1).take (rest.headD 0)) (by simp only [sfPayload, h0, if_true, hfd, and_self]) (by simp only [step, h0, if_true, hfd, and_self])
      · exact .single (rest.take (b0 % 16)) (by simp only [sfPayload, h0, if_true, hfd, if_false]) (by simp only [step, h0, if_true, hfd, if_false])
    · by_cases h1 : b0 / 16 = 1
      · match rest with
        | [] => exact .ignore [] (by simp [step, h1]) (Or.inl rfl)
        | b1 :: pl =>
          refine .first (b0 % 16) b1 pl (Nat.mod_lt _ (by decide)) ?_ ?_
          · congr 1; omega
          · simp [step, h1]
      · by_cases h2 : b0 / 16 = 2
        · cases hd : s.data with
          | none =>
            exact .ignore [.seqErr ((s.last + 1) % 16) (b0 % 16)] (by simp [step, h2, hd])
              (Or.inr (Or.inr (Or.inr (Or.inl ⟨_, _, rfl⟩))))
          | some d =>
            by_cases hseq : (s.last + 1) % 16 = b0 % 16
            · have hb : b0 = 32 + b0 % 16 := by omega
              by_cases hlen : s.specLen ≤ (d ++ rest).length
              · refine .done (b0 % 16) rest d (Nat.mod_lt _ (by decide)) (by rw [← hb]) hd hseq hlen ?_
                simp only [step, h2, hd, hseq, hlen, if_true]; simp
              · refine .more (b0 % 16) rest d (Nat.mod_lt _ (by decide)) (by rw [← hb]) hd hseq hlen ?_
                simp only [step, h2, hd, hseq, hlen, if_true, if_false]; simp
            · exact .ignore [.consec (b0 % 16), .seqErr ((s.last + 1) % 16) (b0 % 16)]
                (by simp only [step, h2, hd, hseq, if_false]; simp)
                (Or.inr (Or.inr (Or.inr (Or.inr ⟨_, _, _, rfl⟩))))
        · by_cases h3 : b0 / 16 = 3
          · exact .ignore [.flow (b0 % 16)] (by simp [step, h3]) (Or.inr (Or.inl ⟨_, rfl⟩))
          · exact .ignore [.typeErr (b0 / 16)] (by simp [step, h0, h1, h2, h3]) (Or.inr (Or.inr (Or.inl ⟨_, rfl⟩)))

/-! ### ghost instrumentation -/

/-- explanation of one reported telegram -/
inductive Expl where
  | sf (k : Nat) (p : Bytes)                       -- payload of the single frame at index k
  | multi (j : Nat) (cs : List Nat) (p : Bytes)    -- first frame at index j + consecutive frames at cs
deriving Repr, DecidableEq

def Expl.payload : Expl → Bytes
  | .sf _ p => p
  | .multi _ _ p => p

abbrev Ghost := Option (Nat × List Nat)

/-- ghost update, driven only by the events `step` emitted for frame `k` -/
def gupd (k : Nat) (g : Ghost) : List Ev → Ghost × List Expl
  | [.first] => (some (k, []), [])
  | [.consec _] => (g.map fun jc => (jc.1, jc.2 ++ [k]), [])
  | [.consec _, .complete _, .tele p] =>
    (none, [.multi (g.map (·.1) |>.getD 0) ((g.map (·.2) |>.getD []) ++ [k]) p])
  | [.single _, .complete _, .tele p] => (g, [.sf k p])
  | _ => (g, [])

structure GSlot where
  s : Slot
  g : Ghost

def gstep (k : Nat) (gs : GSlot) (f : Bytes) : GSlot × List Expl :=
  let r := step gs.s f
  let u := gupd k gs.g r.2
  (⟨r.1, u.1⟩, u.2)

def grun (k : Nat) (gs : GSlot) : List Bytes → GSlot × List Expl
  | [] => (gs, [])
  | f :: fs => let r := gstep k gs f; let rs := grun (k + 1) r.1 fs; (rs.1, r.2 ++ rs.2)

/-- the instrumentation is an observer: same slot, same telegrams -/
theorem gstep_erase (k : Nat) (gs : GSlot) (f : Bytes) :
    (gstep k gs f).1.s = (step gs.s f).1 ∧ (gstep k gs f).2.map Expl.payload = telegrams (step gs.s f).2 := by
  refine ⟨rfl, ?_⟩
  unfold gstep
  rcases step_cases gs.s f with ⟨evs, h, hev⟩ | ⟨p, _, h⟩ | ⟨hi, b1, pl, _, _, h⟩ | ⟨sn, rest, d, _, _, _, _, _, h⟩ | ⟨sn, rest, d, _, _, _, _, _, h⟩
  · rw [h]
    rcases hev with rfl | ⟨x, rfl⟩ | ⟨x, rfl⟩ | ⟨a, b, rfl⟩ | ⟨a, b, c, rfl⟩ <;> simp [gupd, telegrams]
  all_goals (rw [h]; simp [gupd, telegrams, Expl.payload])

theorem grun_erase (k : Nat) (gs : GSlot) (fs : List Bytes) :
    (grun k gs fs).1.s = (run gs.s fs).1 ∧ (grun k gs fs).2.map Expl.payload = telegrams (run gs.s fs).2 := by
  induction fs generalizing k gs with
  | nil => simp [grun, run, telegrams]
  | cons f fs ih =>
    have h1 := gstep_erase k gs f
    have h2 := ih (k + 1) (gstep k gs f).1
    simp only [grun, run, List.map_append, telegrams_append]
    rw [h1.1] at h2
    exact ⟨h2.1, by rw [h1.2, h2.2]⟩

/-! ### what a valid explanation is, stated on the frame list alone -/

def cfData (hist : List Bytes) (cs : List Nat) : Bytes := cs.flatMap fun c => (hist.getD c []).tail

/-- `cs` are indices of consecutive frames after index `j`, increasing, carrying sequence numbers 1,2,…,15,0,1,… -/
def ChainOk (hist : List Bytes) (j : Nat) (cs : List Nat) : Prop :=
  (∀ c ∈ cs, j < c ∧ c < hist.length) ∧ cs.Pairwise (· < ·) ∧
  ∀ m (h : m < cs.length), (hist.getD cs[m] []).head? = some (32 + (m + 1) % 16)

def ValidExpl (hist : List Bytes) : Expl → Prop
  | .sf k p => ∃ f, hist[k]? = some f ∧ sfPayload f = some p
  | .multi j cs p => ∃ hi b1 pl, hi < 16 ∧ hist[j]? = some ((16 + hi) :: b1 :: pl) ∧ ChainOk hist j cs ∧ cs ≠ [] ∧
      p = (pl ++ cfData hist cs).take (hi * 256 + b1)

def Expl.ffIndex? : Expl → Option Nat
  | .sf _ _ => none
  | .multi j _ _ => some j

theorem getD_append_left (hist more : List Bytes) (c : Nat) (h : c < hist.length) :
    (hist ++ more).getD c [] = hist.getD c [] := by
  simp [List.getD_eq_getElem?_getD, List.getElem?_append_left h]

theorem cfData_append (hist more : List Bytes) (cs : List Nat) (h : ∀ c ∈ cs, c < hist.length) :
    cfData (hist ++ more) cs = cfData hist cs := by
  unfold cfData
  induction cs with
  | nil => rfl
  | cons c cs ih =>
    simp only [List.flatMap_cons]
    rw [getD_append_left hist more c (h c (List.mem_cons_self ..)), ih (fun x hx => h x (List.mem_cons_of_mem _ hx))]

theorem ChainOk.append {hist : List Bytes} {j : Nat} {cs : List Nat} (h : ChainOk hist j cs) (more : List Bytes) :
    ChainOk (hist ++ more) j cs := by
  obtain ⟨h1, h2, h3⟩ := h
  refine ⟨fun c hc => ⟨(h1 c hc).1, by simp; have := (h1 c hc).2; omega⟩, h2, fun m hm => ?_⟩
  rw [getD_append_left hist more _ (h1 _ (List.getElem_mem hm)).2]
  exact h3 m hm

theorem ValidExpl.append {hist : List Bytes} {e : Expl} (h : ValidExpl hist e) (more : List Bytes) :
    ValidExpl (hist ++ more) e := by
  cases e with
  | sf k p =>
    obtain ⟨f, hf, hp⟩ := h
    have hk : k < hist.length := by
      cases hlt : decide (k < hist.length) with
      | true => exact of_decide_eq_true hlt
      | false =>
        have := of_decide_eq_false hlt
        rw [List.getElem?_eq_none (by omega)] at hf; cases hf
    exact ⟨f, by rw [List.getElem?_append_left hk]; exact hf, hp⟩
  | multi j cs p =>
    obtain ⟨hi, b1, pl, hhi, hj, hc, hne, hp⟩ := h
    have hjl : j < hist.length := by
      cases hlt : decide (j < hist.length) with
      | true => exact of_decide_eq_true hlt
      | false =>
        have := of_decide_eq_false hlt
        rw [List.getElem?_eq_none (by omega)] at hj; cases hj
    refine ⟨hi, b1, pl, hhi, by rw [List.getElem?_append_left hjl]; exact hj, hc.append more, hne, ?_⟩
    rw [cfData_append hist more cs (fun c hc' => (hc.1 c hc').2)]
    exact hp

/-- the ghost is consistent with the slot and explained by the history -/
def GInv (hist : List Bytes) (gs : GSlot) : Prop :=
  match gs.g with
  | none => gs.s.data = none
  | some (j, cs) => ∃ hi b1 pl, hi < 16 ∧ hist[j]? = some ((16 + hi) :: b1 :: pl) ∧
      gs.s.specLen = hi * 256 + b1 ∧ gs.s.data = some (pl ++ cfData hist cs) ∧
      gs.s.last = cs.length % 16 ∧ ChainOk hist j cs

/-- lower bound for the first-frame index of anything reported from now on -/
def lb (hist : List Bytes) (gs : GSlot) : Nat :=
  match gs.g with
  | none => hist.length
  | some (j, _) => j

theorem cfData_snoc (hist : List Bytes) (cs : List Nat) (f : Bytes) (h : ∀ c ∈ cs, c < hist.length) :
    cfData (hist ++ [f]) (cs ++ [hist.length]) = cfData hist cs ++ f.tail := by
  unfold cfData
  rw [List.flatMap_append]
  have := cfData_append hist [f] cs h
  unfold cfData at this
  rw [this]
  simp [List.getD_eq_getElem?_getD]

theorem chain_snoc {hist : List Bytes} {j : Nat} {cs : List Nat} (h : ChainOk hist j cs) (hj : j < hist.length)
    (sn : Nat) (rest : Bytes) (hsn : (cs.length + 1) % 16 = sn) :
    ChainOk (hist ++ [(32 + sn) :: rest]) j (cs ++ [hist.length]) := by
  obtain ⟨h1, h2, h3⟩ := h.append [(32 + sn) :: rest]
  refine ⟨?_, ?_, ?_⟩
  · intro c hc
    rcases List.mem_append.mp hc with hc | hc
    · exact h1 c hc
    · simp at hc; subst hc; simp; omega
  · rw [List.pairwise_append]
    refine ⟨h2, by simp, ?_⟩
    intro a ha b hb
    simp at hb; subst hb
    exact (h.1 a ha).2
  · intro m hm
    by_cases hlt : m < cs.length
    · have : (cs ++ [hist.length])[m] = cs[m] := by simp [List.getElem_append_left hlt]
      rw [this]; exact h3 m hlt
    · have hm' : m = cs.length := by simp at hm; omega
      subst hm'
      simp [List.getD_eq_getElem?_getD, hsn]

/-- one step preserves the invariant; whatever it reports is valid, has a first-frame index at or above
    the current lower bound and strictly below the next one -/
theorem gstep_inv (hist : List Bytes) (gs : GSlot) (f : Bytes) (hinv : GInv hist gs) (hlb : lb hist gs ≤ hist.length) :
    GInv (hist ++ [f]) (gstep hist.length gs f).1 ∧
    lb hist gs ≤ lb (hist ++ [f]) (gstep hist.length gs f).1 ∧
    lb (hist ++ [f]) (gstep hist.length gs f).1 ≤ (hist ++ [f]).length ∧
    ∀ e ∈ (gstep hist.length gs f).2, ValidExpl (hist ++ [f]) e ∧
      ∀ j, e.ffIndex? = some j → lb hist gs ≤ j ∧ j < lb (hist ++ [f]) (gstep hist.length gs f).1 := by
  obtain ⟨s, g⟩ := gs
  have hext : GInv (hist ++ [f]) ⟨s, g⟩ := by
    unfold GInv at hinv ⊢
    cases g with
    | none => exact hinv
    | some jc =>
      obtain ⟨j, cs⟩ := jc
      obtain ⟨hi, b1, pl, hhi, hj, hs, hd, hl, hc⟩ := hinv
      have hjl : j < hist.length := by
        cases hlt : decide (j < hist.length) with
        | true => exact of_decide_eq_true hlt
        | false =>
          have := of_decide_eq_false hlt
          rw [List.getElem?_eq_none (by omega)] at hj; cases hj
      exact ⟨hi, b1, pl, hhi, by rw [List.getElem?_append_left hjl]; exact hj, hs,
        by rw [cfData_append hist [f] cs (fun c hc' => (hc.1 c hc').2)]; exact hd, hl, hc.append _⟩
  have hlb' : lb hist ⟨s, g⟩ ≤ lb (hist ++ [f]) ⟨s, g⟩ := by
    unfold lb; cases g with
    | none => simp
    | some jc => simp
  have hlb'' : lb (hist ++ [f]) ⟨s, g⟩ ≤ (hist ++ [f]).length := by
    unfold lb at hlb ⊢; cases g with
    | none => simp
    | some jc => simp at hlb ⊢; omega
  unfold gstep
  rcases step_cases s f with ⟨evs, h, hev⟩ | ⟨p, hp, h⟩ | ⟨hi, b1, pl, hhi, hf, h⟩ | ⟨sn, rest, d, hsn, hf, hd, hseq, hlen, h⟩ | ⟨sn, rest, d, hsn, hf, hd, hseq, hlen, h⟩
  · -- ignored frame
    simp only [h]
    have hg : gupd hist.length g evs = (g, []) := by
      rcases hev with rfl | ⟨x, rfl⟩ | ⟨x, rfl⟩ | ⟨a, b, rfl⟩ | ⟨a, b, c, rfl⟩ <;> rfl
    rw [hg]
    exact ⟨hext, hlb', hlb'', by simp⟩
  · -- single frame
    simp only [h, gupd]
    refine ⟨hext, hlb', hlb'', ?_⟩
    intro e he
    simp at he; subst he
    exact ⟨⟨f, by simp, hp⟩, by simp [Expl.ffIndex?]⟩
  · -- first frame
    simp only [h, gupd]
    refine ⟨?_, ?_, ?_, by simp⟩
    · unfold GInv
      exact ⟨hi, b1, pl, hhi, by simp [hf], rfl, by simp [cfData], by simp,
        ⟨by simp, by simp, by simp⟩⟩
    · simpa [lb] using hlb
    · simp [lb]
  · -- accepted consecutive frame, transfer still incomplete
    simp only [h, gupd]
    cases g with
    | none => unfold GInv at hinv; simp at hinv; rw [hinv] at hd; cases hd
    | some jc =>
      obtain ⟨j, cs⟩ := jc
      unfold GInv at hinv
      obtain ⟨hi, b1, pl, hhi, hj, hs, hd', hl, hc⟩ := hinv
      have hjl : j < hist.length := by
        cases hlt : decide (j < hist.length) with
        | true => exact of_decide_eq_true hlt
        | false =>
          have := of_decide_eq_false hlt
          rw [List.getElem?_eq_none (by omega)] at hj; cases hj
      simp only [hd] at hd'; cases hd'
      refine ⟨?_, by simp [lb], by simp [lb]; omega, by simp⟩
      unfold GInv
      simp only [Option.map_some]
      refine ⟨hi, b1, pl, hhi, by rw [List.getElem?_append_left hjl]; exact hj, hs, ?_, ?_, ?_⟩
      · rw [cfData_snoc hist cs f (fun c hc' => (hc.1 c hc').2), hf]; simp [List.append_assoc]
      · simp; rw [← hseq, hl]; omega
      · rw [hf]; exact chain_snoc hc hjl sn rest (by rw [← hseq, hl]; omega)
  · -- accepted consecutive frame completing the transfer
    simp only [h, gupd]
    cases g with
    | none => unfold GInv at hinv; simp at hinv; rw [hinv] at hd; cases hd
    | some jc =>
      obtain ⟨j, cs⟩ := jc
      unfold GInv at hinv
      obtain ⟨hi, b1, pl, hhi, hj, hs, hd', hl, hc⟩ := hinv
      have hjl : j < hist.length := by
        cases hlt : decide (j < hist.length) with
        | true => exact of_decide_eq_true hlt
        | false =>
          have := of_decide_eq_false hlt
          rw [List.getElem?_eq_none (by omega)] at hj; cases hj
      simp only [hd] at hd'; cases hd'
      refine ⟨by simp [GInv], by simp [lb]; omega, by simp [lb], ?_⟩
      intro e he
      simp at he; subst he
      refine ⟨?_, ?_⟩
      · refine ⟨hi, b1, pl, hhi, by rw [List.getElem?_append_left hjl]; exact hj, ?_, by simp, ?_⟩
        · rw [hf]; exact chain_snoc hc hjl sn rest (by rw [← hseq, hl]; omega)
        · rw [cfData_snoc hist cs f (fun c hc' => (hc.1 c hc').2), hf, hs]; simp
      · intro j' hj'
        simp [Expl.ffIndex?] at hj'; subst hj'
        simp [lb]; omega

/-- the run: invariant, validity of every explanation w.r.t. the *whole* frame list, and strictly
    increasing first-frame indices (so no first frame is used twice) -/
theorem grun_inv (fs : List Bytes) : ∀ (hist : List Bytes) (gs : GSlot), GInv hist gs → lb hist gs ≤ hist.length →
    (∀ e ∈ (grun hist.length gs fs).2, ValidExpl (hist ++ fs) e ∧ ∀ j, e.ffIndex? = some j → lb hist gs ≤ j) ∧
    ((grun hist.length gs fs).2.filterMap Expl.ffIndex?).Pairwise (· < ·) := by
  induction fs with
  | nil => intro hist gs _ _; simp [grun]
  | cons f fs ih =>
    intro hist gs hinv hlb
    obtain ⟨h1, h2, h3, h4⟩ := gstep_inv hist gs f hinv hlb
    have ih' := ih (hist ++ [f]) (gstep hist.length gs f).1 h1 h3
    have hlen : (hist ++ [f]).length = hist.length + 1 := by simp
    rw [hlen] at ih'
    have happ : hist ++ [f] ++ fs = hist ++ f :: fs := by simp
    rw [happ] at ih'
    simp only [grun]
    refine ⟨?_, ?_⟩
    · intro e he
      rcases List.mem_append.mp he with he | he
      · obtain ⟨hv, hb⟩ := h4 e he
        refine ⟨?_, fun j hj => (hb j hj).1⟩
        have := hv.append fs
        rwa [happ] at this
      · obtain ⟨hv, hb⟩ := ih'.1 e he
        exact ⟨hv, fun j hj => Nat.le_trans h2 (hb j hj)⟩
    · rw [List.filterMap_append, List.pairwise_append]
      refine ⟨?_, ih'.2, ?_⟩
      · -- at most one explanation per step
        have : (gstep hist.length gs f).2.length ≤ 1 := by
          unfold gstep
          rcases step_cases gs.s f with ⟨evs, h, hev⟩ | ⟨p, _, h⟩ | ⟨hi, b1, pl, _, _, h⟩ | ⟨sn, rest, d, _, _, _, _, _, h⟩ | ⟨sn, rest, d, _, _, _, _, _, h⟩
          · rw [h]
            rcases hev with rfl | ⟨x, rfl⟩ | ⟨x, rfl⟩ | ⟨a, b, rfl⟩ | ⟨a, b, c, rfl⟩ <;> simp [gupd]
          all_goals (rw [h]; simp [gupd])
        generalize (gstep hist.length gs f).2 = l at this
        match l, this with
        | [], _ => simp
        | [e], _ => cases e <;> simp [List.filterMap_cons, Expl.ffIndex?]
        | _ :: _ :: _, h => simp at h
      · intro a ha b hb
        obtain ⟨ea, hea, hja⟩ := List.mem_filterMap.mp ha
        obtain ⟨eb, heb, hjb⟩ := List.mem_filterMap.mp hb
        have h5 := (h4 ea hea).2 a hja
        have h6 := (ih'.1 eb heb).2 b hjb
        omega

end OdxVerif.IsoTp
