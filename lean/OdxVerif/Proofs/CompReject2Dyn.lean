import OdxVerif.Proofs.CompReject2Mux
import OdxVerif.Proofs.CompExtMid
/-! Compositional tier, rejection side, second part (task W18, C04): rejection lemmas for round-6 parameter kinds that are not
    in the value-free class `DescribedP2` (their components are relative to the encoder state — the triggering request, the
    flag `is_end_of_pdu` — which `PDesc.fill` does not see).
    * MATCHING-REQUEST-PARAM: rejected with `EncodeError` when there is no triggering request or it is too short, whatever is
      supplied (`encodeParam_matchingReq_rej`).
    * LEADING-LENGTH-INFO-TYPE over `A_BYTEFIELD` **is** in the class: `PDesc.ofLeadBytes` (value-free description of
      `Comp.ofLeading`), `PDesc.ofLeadBytes_okW` — accepted: a `bytes` value whose length the length prefix can hold; rejected
      with `EncodeError` / `OdxError`: everything else.  (The string base types need `AllBytes (Text.encode …)` and the
      decode∘encode lemmas for all four codecs on the acceptance side: not done.)
    Core Lean only. -/
namespace OdxVerif.Codec
open OdxVerif.Bits OdxVerif.OdxM

/-- `MatchingRequestParameter._encode_positioned_into_pdu` without a (long enough) triggering request: `EncodeError` -/
theorem encodeParam_matchingReq_rej (n : String) (bp bitp : Option Nat) (reqPos byteLen : Nat) (pv : Option PVal) (fuel : Nat)
    (s : EncState) (h : ∀ t, s.trig = some t → t.length < reqPos + byteLen) :
    ∃ s', encodeParam (fuel + 1) (.mk n bp bitp (.matchingReq reqPos byteLen)) pv s true = .error (.encode, s') := by
  cases ht : s.trig with
  | none =>
    refine ⟨?_, ?_⟩
    rotate_left
    · simp [encodeParam, bind, run_bind, run_modifyS, run_getS, ht, odxraise]
      rfl
  | some t =>
    have hlt := h t ht
    refine ⟨?_, ?_⟩
    rotate_left
    · simp [encodeParam, bind, run_bind, run_modifyS, run_getS, run_ite, ht, hlt, odxraise]
      rfl

/-! ### LEADING-LENGTH-INFO-TYPE over A_BYTEFIELD -/

/-- a LEADING-LENGTH-INFO-TYPE VALUE parameter over `A_BYTEFIELD`, without a value -/
structure LeadShape where
  name : String
  bytePos : Option Nat
  bitPos : Option Nat
  enc : Option Enc
  hl : Bool
  bitLen : Nat

def LeadShape.leaf (sh : LeadShape) (b : Bytes) : LeadLeaf :=
  { name := sh.name, bytePos := sh.bytePos, bitPos := sh.bitPos, bt := .bytefield, enc := sh.enc, hl := sh.hl, bitLen := sh.bitLen,
    v := .bytes b, raw := b }

def LeadShape.ok (sh : LeadShape) : Prop := 1 ≤ sh.bitLen ∧ sh.bitLen ≤ 64

theorem LeadShape.leaf_ok (sh : LeadShape) (h : sh.ok) (b : Bytes) (hall : b.all (fun x => decide (x < 256)) = true)
    (hlen : b.length < 2 ^ sh.bitLen) : (sh.leaf b).ok :=
  ⟨h.1, h.2, hlen, ⟨allBytes_of_all b hall, Or.inl ⟨rfl, rfl, Or.inl rfl⟩⟩, rfl⟩

def PDesc.ofLeadBytes (sh : LeadShape) : PDesc where
  param := (sh.leaf []).toParam
  fill := fun pv => match pv with
    | some (.atom (.bytes b)) =>
      if b.all (fun x => decide (x < 256)) && decide (b.length < 2 ^ sh.bitLen) then some (Comp.ofLeading (sh.leaf b)) else none
    | _ => none
  complete := fun pv => pv.getD .none
  typed := fun _ => true
  need := fun _ => 2
  minAdv := 1

/-- the length prefix cannot hold the length: `EncodeError` -/
theorem encodeParam_leadBytes_too_long (sh : LeadShape) (b : Bytes) (hlen : ¬ b.length < 2 ^ sh.bitLen) (fuel : Nat) (s : EncState) :
    ∃ e s', encodeParam (fuel + 2) (sh.leaf []).toParam (some (.atom (.bytes b))) s true = .error (e, s') ∧ EncErr e := by
  have hr : ¬ (0 ≤ (b.length : Int) ∧ (b.length : Int) < 2 ^ sh.bitLen) := by
    intro ⟨_, h2⟩
    apply hlen
    exact_mod_cast h2
  obtain ⟨e, he, hrej⟩ := emplaceAtomic_uint32_reject none (Or.inl rfl) sh.bitLen (b.length : Int) hr sh.hl
  refine ⟨e, ?_, ?_, he⟩
  rotate_left
  · simp [LeadShape.leaf, LeadLeaf.toParam, LeadLeaf.dct, encodeParam, encodeDop, encodeDct, typeAdmits, bind, pure, run_bind,
      run_modifyS, run_pure, hrej]
    rfl

theorem PDesc.ofLeadBytes_okW (sh : LeadShape) (hsh : sh.ok) : (PDesc.ofLeadBytes sh).OkW where
  notKey := rfl
  acc := by
    intro pv g _ hf
    have key : ∃ b, pv = some (.atom (.bytes b)) ∧ b.all (fun x => decide (x < 256)) = true ∧ b.length < 2 ^ sh.bitLen ∧
        g = Comp.ofLeading (sh.leaf b) := by
      cases pv with
      | none => simp [PDesc.ofLeadBytes] at hf
      | some x =>
        cases x with
        | atom v =>
          cases v with
          | bytes b =>
            simp only [PDesc.ofLeadBytes] at hf
            by_cases hc : (b.all (fun x => decide (x < 256)) && decide (b.length < 2 ^ sh.bitLen)) = true
            · rw [if_pos hc] at hf
              simp only [Bool.and_eq_true, decide_eq_true_eq] at hc
              exact ⟨b, rfl, hc.1, hc.2, (Option.some.inj hf).symm⟩
            · rw [if_neg hc] at hf; cases hf
          | _ => simp [PDesc.ofLeadBytes] at hf
        | _ => simp [PDesc.ofLeadBytes] at hf
    obtain ⟨b, rfl, hall, hlen, rfl⟩ := key
    have hl := sh.leaf_ok hsh b hall hlen
    exact {
      ok := Comp.ofLeading_ok _ hl
      endOk := Comp.ofLeading_endOk _
      param := rfl
      sup := rfl
      need := Nat.le_refl _
      eop := fun h => by cases h
      adv := fun org c => by
        have := (sh.leaf b).lenObj.k_pos ((sh.leaf b).lenObj_ok hl)
        show 1 ≤ (sh.leaf b).lenObj.pos org c + (sh.leaf b).lenObj.k + b.length
        omega
      val := rfl }
  rej := by
    intro pv hne hwf hf fuel hfu s _
    obtain ⟨f, rfl⟩ : ∃ f, fuel = f + 2 := ⟨fuel - 2, by simp only [PDesc.ofLeadBytes] at hfu; omega⟩
    cases pv with
    | none =>
      refine ⟨.encode, ?_, ?_, RejErr.encode _⟩
      rotate_left
      · simp [PDesc.ofLeadBytes, LeadShape.leaf, LeadLeaf.toParam, encodeParam, bind, run_bind, run_modifyS, odxraise]
        rfl
    | some x =>
      cases x with
      | none => exact absurd rfl hne
      | atom v =>
        cases v with
        | bytes b =>
          have hall : b.all (fun x => decide (x < 256)) = true := hwf
          have hlen : ¬ b.length < 2 ^ sh.bitLen := by
            intro hlt
            simp only [PDesc.ofLeadBytes, hall, hlt, decide_true, Bool.and_self, if_true] at hf
            cases hf
          obtain ⟨e, s', hrun, he⟩ := encodeParam_leadBytes_too_long sh b hlen f s
          exact ⟨e, s', hrun, Or.inl he⟩
        | int i =>
          refine ⟨.encode, ?_, ?_, RejErr.encode _⟩
          rotate_left
          · simp [PDesc.ofLeadBytes, LeadShape.leaf, LeadLeaf.toParam, encodeParam, encodeDop, typeAdmits, bind, run_bind, run_modifyS,
              run_raise]
            rfl
        | str cps =>
          refine ⟨.encode, ?_, ?_, RejErr.encode _⟩
          rotate_left
          · simp [PDesc.ofLeadBytes, LeadShape.leaf, LeadLeaf.toParam, encodeParam, encodeDop, typeAdmits, bind, run_bind, run_modifyS,
              run_raise]
            rfl
        | flt x =>
          refine ⟨.encode, ?_, ?_, RejErr.encode _⟩
          rotate_left
          · simp [PDesc.ofLeadBytes, LeadShape.leaf, LeadLeaf.toParam, encodeParam, encodeDop, typeAdmits, bind, run_bind, run_modifyS,
              run_raise]
            rfl
      | list _ | dict _ | pair _ _ | keyed _ _ | nokey _ | dtc _ =>
        refine ⟨.encode, ?_, ?_, RejErr.encode _⟩
        rotate_left
        · simp [PDesc.ofLeadBytes, LeadShape.leaf, LeadLeaf.toParam, encodeParam, encodeDop, bind, run_bind, run_modifyS, run_raise]
          rfl

/-! ### MIN-MAX-LENGTH-TYPE over A_BYTEFIELD, ended by the end of the PDU (last parameter) -/

/-- a MIN-MAX-LENGTH-TYPE VALUE parameter over `A_BYTEFIELD`, without a value -/
structure MMShape where
  name : String
  bytePos : Option Nat
  enc : Option Enc
  hl : Bool
  minLen : Nat
  maxLen : Option Nat
  term : Term

def MMShape.leaf (sh : MMShape) (b : Bytes) : MMLeaf :=
  { name := sh.name, bytePos := sh.bytePos, bt := .bytefield, enc := sh.enc, hl := sh.hl, minLen := sh.minLen, maxLen := sh.maxLen,
    term := sh.term, v := .bytes b, raw := b }

def MMShape.ok (sh : MMShape) : Prop := sh.enc = none ∨ sh.enc = some .none_ ∨ sh.enc = some .bcdp ∨ sh.enc = some .bcdup

/-- the encoder's acceptance condition on a `bytes` value: MIN-LENGTH ≤ length ≤ MAX-LENGTH, no termination sequence inside -/
def MMShape.acceptsB (sh : MMShape) (b : Bytes) : Bool :=
  decide (sh.minLen ≤ b.length) && (match sh.maxLen with | some mx => decide (b.length ≤ mx) | none => true) &&
  (decide ((termSeq .bytefield sh.term).length = 0) || !hasTerm b (termSeq .bytefield sh.term) sh.minLen)

theorem MMShape.leaf_ok (sh : MMShape) (h : sh.ok) (b : Bytes) (hall : b.all (fun x => decide (x < 256)) = true)
    (hacc : sh.acceptsB b = true) : (sh.leaf b).okBase := by
  simp only [MMShape.acceptsB, Bool.and_eq_true, decide_eq_true_eq, Bool.or_eq_true, Bool.not_eq_true'] at hacc
  obtain ⟨⟨h1, h2⟩, h3⟩ := hacc
  refine ⟨⟨allBytes_of_all b hall, Or.inl ⟨rfl, rfl, h⟩⟩, h1, ?_, ?_⟩
  · intro mx hmx
    have hmx' : sh.maxLen = some mx := hmx
    rw [hmx'] at h2
    exact of_decide_eq_true h2
  · intro hpos
    rcases h3 with h3 | h3
    · have : (termSeq .bytefield sh.term).length > 0 := hpos
      omega
    · exact h3

def PDesc.ofMinMaxLastBytes (sh : MMShape) : PDesc where
  param := (sh.leaf []).toParam
  fill := fun pv => match pv with
    | some (.atom (.bytes b)) =>
      if b.all (fun x => decide (x < 256)) && sh.acceptsB b then some (Comp.ofMinMaxLast (sh.leaf b)) else none
    | _ => none
  complete := fun pv => pv.getD .none
  typed := fun _ => true
  need := fun _ => 2
  mayEop := true
  minAdv := sh.minLen

/-- a `bytes` value the MIN-MAX-LENGTH-TYPE does not accept: `EncodeError` (whatever the state) -/
theorem encodeParam_minmaxBytes_rej (sh : MMShape) (b : Bytes) (hacc : sh.acceptsB b = false) (fuel : Nat) (s : EncState) :
    ∃ s', encodeParam (fuel + 2) (sh.leaf []).toParam (some (.atom (.bytes b))) s true = .error (.encode, s') := by
  by_cases h1 : b.length < sh.minLen
  · refine ⟨?_, ?_⟩
    rotate_left
    · simp [MMShape.leaf, MMLeaf.toParam, MMLeaf.dct, encodeParam, encodeDop, encodeDct, typeAdmits, bind, pure, run_bind,
        run_modifyS, run_pure, run_ite, h1, odxraise]
      rfl
  · cases hmx : sh.maxLen with
    | some mx =>
      by_cases h2 : b.length > mx
      · refine ⟨?_, ?_⟩
        rotate_left
        · simp [MMShape.leaf, MMLeaf.toParam, MMLeaf.dct, encodeParam, encodeDop, encodeDct, typeAdmits, bind, pure, run_bind,
            run_modifyS, run_pure, run_ite, h1, hmx, h2, odxraise]
          rfl
      · have h3 : (decide ((termSeq .bytefield sh.term).length = 0) || !hasTerm b (termSeq .bytefield sh.term) sh.minLen) = false := by
          have hmin : sh.minLen ≤ b.length := by omega
          have hle : b.length ≤ mx := by omega
          simpa [MMShape.acceptsB, hmx, hmin, hle] using hacc
        simp only [Bool.or_eq_false_iff, decide_eq_false_iff_not, Bool.not_eq_false'] at h3
        obtain ⟨hpos, hterm⟩ := h3
        unfold hasTerm at hterm
        cases ht : sh.term <;> rw [ht] at hpos hterm <;> simp [termSeq] at hpos hterm
        · refine ⟨?_, ?_⟩
          rotate_left
          · simp [MMShape.leaf, MMLeaf.toParam, MMLeaf.dct, encodeParam, encodeDop, encodeDct, typeAdmits, bind, pure, run_bind,
              run_modifyS, run_pure, run_ite, h1, hmx, h2, ht, hterm, odxraise]
            rfl
        · refine ⟨?_, ?_⟩
          rotate_left
          · simp [MMShape.leaf, MMLeaf.toParam, MMLeaf.dct, encodeParam, encodeDop, encodeDct, typeAdmits, bind, pure, run_bind,
              run_modifyS, run_pure, run_ite, h1, hmx, h2, ht, hterm, odxraise]
            rfl
    | none =>
      have h3 : (decide ((termSeq .bytefield sh.term).length = 0) || !hasTerm b (termSeq .bytefield sh.term) sh.minLen) = false := by
        have hmin : sh.minLen ≤ b.length := by omega
        simpa [MMShape.acceptsB, hmx, hmin] using hacc
      simp only [Bool.or_eq_false_iff, decide_eq_false_iff_not, Bool.not_eq_false'] at h3
      obtain ⟨hpos, hterm⟩ := h3
      unfold hasTerm at hterm
      cases ht : sh.term <;> rw [ht] at hpos hterm <;> simp [termSeq] at hpos hterm
      · refine ⟨?_, ?_⟩
        rotate_left
        · simp [MMShape.leaf, MMLeaf.toParam, MMLeaf.dct, encodeParam, encodeDop, encodeDct, typeAdmits, bind, pure, run_bind,
            run_modifyS, run_pure, run_ite, h1, hmx, ht, hterm, odxraise]
          rfl
      · refine ⟨?_, ?_⟩
        rotate_left
        · simp [MMShape.leaf, MMLeaf.toParam, MMLeaf.dct, encodeParam, encodeDop, encodeDct, typeAdmits, bind, pure, run_bind,
            run_modifyS, run_pure, run_ite, h1, hmx, ht, hterm, odxraise]
          rfl

theorem PDesc.ofMinMaxLastBytes_okW (sh : MMShape) (hsh : sh.ok) : (PDesc.ofMinMaxLastBytes sh).OkW where
  notKey := rfl
  acc := by
    intro pv g _ hf
    have key : ∃ b, pv = some (.atom (.bytes b)) ∧ b.all (fun x => decide (x < 256)) = true ∧ sh.acceptsB b = true ∧
        g = Comp.ofMinMaxLast (sh.leaf b) := by
      cases pv with
      | none => simp [PDesc.ofMinMaxLastBytes] at hf
      | some x =>
        cases x with
        | atom v =>
          cases v with
          | bytes b =>
            simp only [PDesc.ofMinMaxLastBytes] at hf
            by_cases hc : (b.all (fun x => decide (x < 256)) && sh.acceptsB b) = true
            · rw [if_pos hc] at hf
              simp only [Bool.and_eq_true] at hc
              exact ⟨b, rfl, hc.1, hc.2, (Option.some.inj hf).symm⟩
            · rw [if_neg hc] at hf; cases hf
          | _ => simp [PDesc.ofMinMaxLastBytes] at hf
        | _ => simp [PDesc.ofMinMaxLastBytes] at hf
    obtain ⟨b, rfl, hall, hacc, rfl⟩ := key
    have hl := sh.leaf_ok hsh b hall hacc
    exact {
      ok := Comp.ofMinMaxLast_ok _ hl
      endOk := Comp.ofMinMaxLast_endOk _ hl
      param := rfl
      sup := rfl
      need := Nat.le_refl _
      eop := fun _ => rfl
      adv := fun org c => by
        have := hl.2.1
        show sh.minLen ≤ posOf sh.bytePos org c + b.length
        have h2 : (sh.leaf b).minLen ≤ b.length := this
        have h3 : (sh.leaf b).minLen = sh.minLen := rfl
        omega
      val := rfl }
  rej := by
    intro pv hne hwf hf fuel hfu s _
    obtain ⟨f, rfl⟩ : ∃ f, fuel = f + 2 := ⟨fuel - 2, by simp only [PDesc.ofMinMaxLastBytes] at hfu; omega⟩
    cases pv with
    | none =>
      refine ⟨.encode, ?_, ?_, RejErr.encode _⟩
      rotate_left
      · simp [PDesc.ofMinMaxLastBytes, MMShape.leaf, MMLeaf.toParam, encodeParam, bind, run_bind, run_modifyS, odxraise]
        rfl
    | some x =>
      cases x with
      | none => exact absurd rfl hne
      | atom v =>
        cases v with
        | bytes b =>
          have hall : b.all (fun x => decide (x < 256)) = true := hwf
          have hacc : sh.acceptsB b = false := by
            cases h : sh.acceptsB b with
            | false => rfl
            | true =>
              simp only [PDesc.ofMinMaxLastBytes, hall, h, Bool.and_self, if_true] at hf
              cases hf
          obtain ⟨s', hrun⟩ := encodeParam_minmaxBytes_rej sh b hacc f s
          exact ⟨.encode, s', hrun, RejErr.encode _⟩
        | int i =>
          refine ⟨.encode, ?_, ?_, RejErr.encode _⟩
          rotate_left
          · simp [PDesc.ofMinMaxLastBytes, MMShape.leaf, MMLeaf.toParam, encodeParam, encodeDop, typeAdmits, bind, run_bind,
              run_modifyS, run_raise]
            rfl
        | str cps =>
          refine ⟨.encode, ?_, ?_, RejErr.encode _⟩
          rotate_left
          · simp [PDesc.ofMinMaxLastBytes, MMShape.leaf, MMLeaf.toParam, encodeParam, encodeDop, typeAdmits, bind, run_bind,
              run_modifyS, run_raise]
            rfl
        | flt x =>
          refine ⟨.encode, ?_, ?_, RejErr.encode _⟩
          rotate_left
          · simp [PDesc.ofMinMaxLastBytes, MMShape.leaf, MMLeaf.toParam, encodeParam, encodeDop, typeAdmits, bind, run_bind,
              run_modifyS, run_raise]
            rfl
      | list _ | dict _ | pair _ _ | keyed _ _ | nokey _ | dtc _ =>
        refine ⟨.encode, ?_, ?_, RejErr.encode _⟩
        rotate_left
        · simp [PDesc.ofMinMaxLastBytes, MMShape.leaf, MMLeaf.toParam, encodeParam, encodeDop, bind, run_bind, run_modifyS, run_raise]
          rfl

end OdxVerif.Codec
