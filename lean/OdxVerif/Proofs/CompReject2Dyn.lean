import OdxVerif.Proofs.CompReject2Mux
import OdxVerif.Proofs.CompExtMid
/-! Compositional tier, rejection side, second part (task W18, C04): rejection lemmas for round-6 parameter kinds that are not
    in the value-free class `DescribedP2` (their components are relative to the encoder state — the triggering request, the
    flag `is_end_of_pdu` — which `PDesc.fill` does not see).
    * MATCHING-REQUEST-PARAM: rejected with `EncodeError` when there is no triggering request or it is too short, whatever is
      supplied (`encodeParam_matchingReq_rej`).
    * LEADING-LENGTH-INFO-TYPE over `A_BYTEFIELD` **is** in the class: `PDesc.ofLeadBytes` (value-free description of
      `Comp.ofLeading`), `PDesc.ofLeadBytes_okW` — accepted: a `bytes` value whose length the length prefix can hold; rejected
      with `EncodeError` / `OdxError`: everything else.  (The string base types need `AllBytes (Text.encode …)` and the
      decode∘encode lemmas for all four codecs on the acceptance side: not done.)
    Core Lean only. -/
namespace OdxVerif.Codec
open OdxVerif.Bits OdxVerif.OdxM

/-- `MatchingRequestParameter._encode_positioned_into_pdu` without a (long enough) triggering request: `EncodeError` -/
theorem encodeParam_matchingReq_rej (n : String) (bp bitp : Option Nat) (reqPos byteLen : Nat) (pv : Option PVal) (fuel : Nat)
    (s : EncState) (h : ∀ t, s.trig = some t → t.length < reqPos + byteLen) :
    ∃ s', encodeParam (fuel + 1) (.mk n bp bitp (.matchingReq reqPos byteLen)) pv s true = .error (.encode, s') := by
  cases ht : s.trig with
  | none =>
    refine ⟨?_, ?_⟩
    rotate_left
    · simp [encodeParam, bind, run_bind, run_modifyS, run_getS, ht, odxraise]
      rfl
  | some t =>
    have hlt := h t ht
    refine ⟨?_, ?_⟩
    rotate_left
    · simp [encodeParam, bind, run_bind, run_modifyS, run_getS, run_ite, ht, hlt, odxraise]
      rfl

/-! ### LEADING-LENGTH-INFO-TYPE over A_BYTEFIELD -/

/-- a LEADING-LENGTH-INFO-TYPE VALUE parameter over `A_BYTEFIELD`, without a value -/
structure LeadShape where
  name : String
  bytePos : Option Nat
  bitPos : Option Nat
  enc : Option Enc
  hl : Bool
  bitLen : Nat

def LeadShape.leaf (sh : LeadShape) (b : Bytes) : LeadLeaf :=
  { name := sh.name, bytePos := sh.bytePos, bitPos := sh.bitPos, bt := .bytefield, enc := sh.enc, hl := sh.hl, bitLen := sh.bitLen,
    v := .bytes b, raw := b }

def LeadShape.ok (sh : LeadShape) : Prop := 1 ≤ sh.bitLen ∧ sh.bitLen ≤ 64

theorem LeadShape.leaf_ok (sh : LeadShape) (h : sh.ok) (b : Bytes) (hall : b.all (fun x => decide (x < 256)) = true)
    (hlen : b.length < 2 ^ sh.bitLen) : (sh.leaf b).ok :=
  ⟨h.1, h.2, hlen, ⟨allBytes_of_all b hall, Or.inl ⟨rfl, rfl, Or.inl rfl⟩⟩, rfl⟩

def PDesc.ofLeadBytes (sh : LeadShape) : PDesc where
  param := (sh.leaf []).toParam
  fill := fun pv => match pv with
    | some (.atom (.bytes b)) =>
      if b.all (fun x => decide (x < 256)) && decide (b.length < 2 ^ sh.bitLen) then some (Comp.ofLeading (sh.leaf b)) else none
    | _ => none
  complete := fun pv => pv.getD .none
  typed := fun _ => true
  need := fun _ => 2
  minAdv := 1

/-- the length prefix cannot hold the length: `EncodeError` -/
theorem encodeParam_leadBytes_too_long (sh : LeadShape) (b : Bytes) (hlen : ¬ b.length < 2 ^ sh.bitLen) (fuel : Nat) (s : EncState) :
    ∃ e s', encodeParam (fuel + 2) (sh.leaf []).toParam (some (.atom (.bytes b))) s true = .error (e, s') ∧ EncErr e := by
  have hr : ¬ (0 ≤ (b.length : Int) ∧ (b.length : Int) < 2 ^ sh.bitLen) := by
    intro ⟨_, h2⟩
    apply hlen
    exact_mod_cast h2
  obtain ⟨e, he, hrej⟩ := emplaceAtomic_uint32_reject none (Or.inl rfl) sh.bitLen (b.length : Int) hr sh.hl
  refine ⟨e, ?_, ?_, he⟩
  rotate_left
  · simp [LeadShape.leaf, LeadLeaf.toParam, LeadLeaf.dct, encodeParam, encodeDop, encodeDct, typeAdmits, bind, pure, run_bind,
      run_modifyS, run_pure, hrej]
    rfl

theorem PDesc.ofLeadBytes_okW (sh : LeadShape) (hsh : sh.ok) : (PDesc.ofLeadBytes sh).OkW where
  notKey := rfl
  acc := by
    intro pv g _ hf
    have key : ∃ b, pv = some (.atom (.bytes b)) ∧ b.all (fun x => decide (x < 256)) = true ∧ b.length < 2 ^ sh.bitLen ∧
        g = Comp.ofLeading (sh.leaf b) := by
      cases pv with
      | none => simp [PDesc.ofLeadBytes] at hf
      | some x =>
        cases x with
        | atom v =>
          cases v with
          | bytes b =>
            simp only [PDesc.ofLeadBytes] at hf
            by_cases hc : (b.all (fun x => decide (x < 256)) && decide (b.length < 2 ^ sh.bitLen)) = true
            · rw [if_pos hc] at hf
              simp only [Bool.and_eq_true, decide_eq_true_eq] at hc
              exact ⟨b, rfl, hc.1, hc.2, (Option.some.inj hf).symm⟩
            · rw [if_neg hc] at hf; cases hf
          | _ => simp [PDesc.ofLeadBytes] at hf
        | _ => simp [PDesc.ofLeadBytes] at hf
    obtain ⟨b, rfl, hall, hlen, rfl⟩ := key
    have hl := sh.leaf_ok hsh b hall hlen
    exact {
      ok := Comp.ofLeading_ok _ hl
      endOk := Comp.ofLeading_endOk _
      param := rfl
      sup := rfl
      need := Nat.le_refl _
      eop := fun h => by cases h
      adv := fun org c => by
        have := (sh.leaf b).lenObj.k_pos ((sh.leaf b).lenObj_ok hl)
        show 1 ≤ (sh.leaf b).lenObj.pos org c + (sh.leaf b).lenObj.k + b.length
        omega
      val := rfl }
  rej := by
    intro pv hne hwf hf fuel hfu s _
    obtain ⟨f, rfl⟩ : ∃ f, fuel = f + 2 := ⟨fuel - 2, by simp only [PDesc.ofLeadBytes] at hfu; omega⟩
    cases pv with
    | none =>
      refine ⟨.encode, ?_, ?_, RejErr.encode _⟩
      rotate_left
      · simp [PDesc.ofLeadBytes, LeadShape.leaf, LeadLeaf.toParam, encodeParam, bind, run_bind, run_modifyS, odxraise]
        rfl
    | some x =>
      cases x with
      | none => exact absurd rfl hne
      | atom v =>
        cases v with
        | bytes b =>
          have hall : b.all (fun x => decide (x < 256)) = true := hwf
          have hlen : ¬ b.length < 2 ^ sh.bitLen := by
            intro hlt
            simp only [PDesc.ofLeadBytes, hall, hlt, decide_true, Bool.and_self, if_true] at hf
            cases hf
          obtain ⟨e, s', hrun, he⟩ := encodeParam_leadBytes_too_long sh b hlen f s
          exact ⟨e, s', hrun, Or.inl he⟩
        | int i =>
          refine ⟨.encode, ?_, ?_, RejErr.encode _⟩
          rotate_left
          · simp [PDesc.ofLeadBytes, LeadShape.leaf, LeadLeaf.toParam, encodeParam, encodeDop, typeAdmits, bind, run_bind, run_modifyS,
              run_raise]
            rfl
        | str cps =>
          refine ⟨.encode, ?_, ?_, RejErr.encode _⟩
          rotate_left
          · simp [PDesc.ofLeadBytes, LeadShape.leaf, LeadLeaf.toParam, encodeParam, encodeDop, typeAdmits, bind, run_bind, run_modifyS,
              run_raise]
            rfl
        | flt x =>
          refine ⟨.encode, ?_, ?_, RejErr.encode _⟩
          rotate_left
          · simp [PDesc.ofLeadBytes, LeadShape.leaf, LeadLeaf.toParam, encodeParam, encodeDop, typeAdmits, bind, run_bind, run_modifyS,
              run_raise]
            rfl
      | list _ | dict _ | pair _ _ | keyed _ _ | nokey _ | dtc _ =>
        refine ⟨.encode, ?_, ?_, RejErr.encode _⟩
        rotate_left
        · simp [PDesc.ofLeadBytes, LeadShape.leaf, LeadLeaf.toParam, encodeParam, encodeDop, bind, run_bind, run_modifyS, run_raise]
          rfl

end OdxVerif.Codec
