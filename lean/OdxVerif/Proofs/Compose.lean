import OdxVerif.Proofs.FlatBits
/-! Compositional round-trip framework: `Good` encoder/decoder pairs compose sequentially, under re-positioning
    and under a change of origin (structures); leaves are positioned `A_INT32` objects. Yields the pure round
    trip for arbitrarily nested structures (`tree_roundtrip`). Core Lean only. -/
namespace OdxVerif.Codec
open OdxVerif.Bits OdxVerif.OdxM

/-- A pure encoder/decoder pair for one described object with the value `val` baked in. -/
structure Pair (α : Type) where
  enc : EncState → EncState
  dec : DecState → α × DecState
  val : α
  fits : DecState → Prop            -- the message is long enough for every object the decoder reads

/-- what makes a pair compose: monotone warnings, the frame property, and a round trip that only needs the
    final message to agree with the encoder's message on the bits claimed so far -/
structure Good {α : Type} (c : Pair α) : Prop where
  warn_mono : ∀ s, s.warn ≤ (c.enc s).warn
  frame : ∀ s, (c.enc s).warn = s.warn → ∀ a, getBit s.used a = true →
      getBit (c.enc s).msg a = getBit s.msg a ∧ getBit (c.enc s).used a = true
  allBytes : ∀ s, AllBytes s.msg → AllBytes (c.enc s).msg
  len_mono : ∀ s, s.msg.length ≤ (c.enc s).msg.length
  origin : ∀ s, (c.enc s).origin = s.origin
  rt : ∀ (s : EncState) (d : DecState), AllBytes s.msg → (c.enc s).warn = s.warn →
      d.origin = s.origin → d.cursorByte = s.cursorByte → AllBytes d.msg →
      (c.enc s).msg.length ≤ d.msg.length →
      (∀ a, getBit (c.enc s).used a = true → getBit d.msg a = getBit (c.enc s).msg a) →
      (c.dec d).1 = c.val ∧ (c.dec d).2.cursorByte = (c.enc s).cursorByte ∧
      (c.dec d).2.origin = d.origin ∧ (c.dec d).2.msg = d.msg ∧ c.fits d
  core : ∀ s t, SameCore s t → SameCore (c.enc s) (c.enc t)

/-- sequential composition: `a` then `b` -/
def Pair.seq {α β : Type} (a : Pair α) (b : Pair β) : Pair (α × β) where
  enc := fun s => b.enc (a.enc s)
  dec := fun d => let r := a.dec d; let r2 := b.dec r.2; ((r.1, r2.1), r2.2)
  val := (a.val, b.val)
  fits := fun d => a.fits d ∧ b.fits (a.dec d).2

theorem Good.seq {α β : Type} {a : Pair α} {b : Pair β} (ha : Good a) (hb : Good b) : Good (a.seq b) where
  warn_mono := fun s => Nat.le_trans (ha.warn_mono s) (hb.warn_mono _)
  frame := by
    intro s hw x hu
    have h1 := ha.warn_mono s
    have h2 := hb.warn_mono (a.enc s)
    have hwa : (a.enc s).warn = s.warn := by simp only [Pair.seq] at hw; omega
    have hwb : (b.enc (a.enc s)).warn = (a.enc s).warn := by simp only [Pair.seq] at hw; omega
    obtain ⟨m1, u1⟩ := ha.frame s hwa x hu
    obtain ⟨m2, u2⟩ := hb.frame (a.enc s) hwb x u1
    exact ⟨by simp only [Pair.seq]; rw [m2, m1], u2⟩
  allBytes := fun s h => hb.allBytes _ (ha.allBytes s h)
  len_mono := fun s => Nat.le_trans (ha.len_mono s) (hb.len_mono _)
  origin := fun s => by simp only [Pair.seq]; rw [hb.origin, ha.origin]
  rt := by
    intro s d hall hw horig hcur hdall hlen hagree
    have h1 := ha.warn_mono s
    have h2 := hb.warn_mono (a.enc s)
    have hwa : (a.enc s).warn = s.warn := by simp only [Pair.seq] at hw; omega
    have hwb : (b.enc (a.enc s)).warn = (a.enc s).warn := by simp only [Pair.seq] at hw; omega
    -- the final message agrees with a's message on a's claimed bits (b's frame)
    have hagree1 : ∀ x, getBit (a.enc s).used x = true → getBit d.msg x = getBit (a.enc s).msg x := by
      intro x hx
      obtain ⟨m2, u2⟩ := hb.frame (a.enc s) hwb x hx
      rw [hagree x u2, ← m2]; rfl
    obtain ⟨v1, c1, o1, g1, f1⟩ := ha.rt s d hall hwa horig hcur hdall
      (Nat.le_trans (hb.len_mono _) hlen) hagree1
    obtain ⟨v2, c2, o2, g2, f2⟩ := hb.rt (a.enc s) (a.dec d).2 (ha.allBytes s hall) hwb
      (by rw [o1, horig, ha.origin]) c1 (by rw [g1]; exact hdall) (by rw [g1]; exact hlen)
      (by rw [g1]; exact hagree)
    simp only [Pair.seq]
    exact ⟨by rw [v1, v2], c2, by rw [o2, o1], by rw [g2, g1], f1, f2⟩
  core := fun s t h => hb.core _ _ (ha.core s t h)


/-- the leaf of the first tier: a positioned `A_INT32` object with an in-range value -/
def Pair.ofObj (o : Obj) (v : IVal) : Pair IVal :=
  { enc := encStep o v, dec := decStep o, val := v, fits := o.fitsIn }

theorem Good.ofObj (o : Obj) (ho : o.ok) (v : IVal) (hr : o.inRange v) : Good (Pair.ofObj o v) where
  warn_mono := encStep_warn_ge o v
  frame := fun s hw a hu => encStep_frame o v s hw a hu
  allBytes := encStep_allBytes o v
  len_mono := fun s => by simp only [Pair.ofObj]; rw [encStep_length]; omega
  origin := encStep_origin o v
  rt := by
    intro s d hall _ horig hcur hdall hlen hagree
    obtain ⟨hlt, hinv⟩ := o.raw_spec ho v hr
    have hall1 := encStep_allBytes o v s hall
    have hlen1 : o.pos s.origin s.cursorByte + o.k ≤ (encStep o v s).msg.length := by rw [encStep_length]; omega
    have hpos : o.pos d.origin d.cursorByte = o.pos s.origin s.cursorByte := by rw [horig, hcur]
    have hread : readNum d.msg (o.pos d.origin d.cursorByte) o.k o.hl / 2 ^ o.bp % 2 ^ o.bl = o.raw v := by
      rw [hpos]
      have hfr := C01_frame' d.msg (encStep o v s).msg hdall hall1
        (o.pos s.origin s.cursorByte) o.bl o.bp o.hl (Nat.le_trans hlen1 hlen) hlen1
        (fun j hj => hagree _ (encStep_own_used o v s j hj))
      unfold Obj.k at hfr ⊢
      rw [hfr]
      have := read_place_roundtrip s.msg hall (o.pos s.origin s.cursorByte) o.bl o.bp (o.raw v) o.hl hlt
      simp only at this
      rw [encStep_msg]
      exact this
    rw [hpos] at hread
    simp only [Pair.ofObj, Obj.fitsIn, decStep, hpos, hread, hinv, encStep_cursor, true_and]
    exact ⟨Nat.le_trans hlen1 hlen, o.raw_decodes ho v hr⟩
  core := encStep_sameCore o v

/-- a composite object: the content is laid out relative to the composite's own first byte -/
def Pair.inOrigin {α : Type} (c : Pair α) : Pair α where
  enc := fun s => { c.enc { s with origin := s.cursorByte } with origin := s.origin }
  dec := fun d => let r := c.dec { d with origin := d.cursorByte }; (r.1, { r.2 with origin := d.origin })
  val := c.val
  fits := fun d => c.fits { d with origin := d.cursorByte }

theorem Good.inOrigin {α : Type} {c : Pair α} (hc : Good c) : Good c.inOrigin where
  warn_mono := fun s => hc.warn_mono { s with origin := s.cursorByte }
  frame := fun s hw a hu => hc.frame { s with origin := s.cursorByte } hw a hu
  allBytes := fun s h => hc.allBytes { s with origin := s.cursorByte } h
  len_mono := fun s => hc.len_mono { s with origin := s.cursorByte }
  origin := fun _ => rfl
  rt := by
    intro s d hall hw _ hcur hdall hlen hagree
    obtain ⟨v, c1, _, g1, f1⟩ := hc.rt { s with origin := s.cursorByte } { d with origin := d.cursorByte } hall hw
      (by simp [hcur]) hcur hdall hlen hagree
    exact ⟨v, c1, rfl, g1, f1⟩
  core := by
    intro s t h
    obtain ⟨h1, h2, h3, h4, h5⟩ := h
    have := hc.core { s with origin := s.cursorByte } { t with origin := t.cursorByte } ⟨h1, h2, h3, h4, h4⟩
    exact ⟨this.1, this.2.1, this.2.2.1, this.2.2.2.1, h5⟩


def Pair.map {α β : Type} (f : α → β) (c : Pair α) : Pair β :=
  { enc := c.enc, dec := fun d => let r := c.dec d; (f r.1, r.2), val := f c.val, fits := c.fits }

theorem Good.map {α β : Type} (f : α → β) {c : Pair α} (hc : Good c) : Good (c.map f) where
  warn_mono := hc.warn_mono
  frame := hc.frame
  allBytes := hc.allBytes
  len_mono := hc.len_mono
  origin := hc.origin
  rt := by
    intro s d hall hw horig hcur hdall hlen hagree
    obtain ⟨v, c1, o1, g1, f1⟩ := hc.rt s d hall hw horig hcur hdall hlen hagree
    exact ⟨by simp only [Pair.map]; rw [v], c1, o1, g1, f1⟩
  core := hc.core

/-- nothing at all -/
def Pair.nil {α : Type} (a : α) : Pair α := { enc := id, dec := fun d => (a, d), val := a, fits := fun _ => True }

theorem Good.nil {α : Type} (a : α) : Good (Pair.nil a) where
  warn_mono := fun _ => Nat.le_refl _
  frame := fun _ _ _ hu => ⟨rfl, hu⟩
  allBytes := fun _ h => h
  len_mono := fun _ => Nat.le_refl _
  origin := fun _ => rfl
  rt := fun _ _ _ _ _ hcur _ _ _ => ⟨rfl, hcur, rfl, rfl, trivial⟩
  core := fun _ _ h => h

def posOf (bytePos : Option Nat) (origin cursor : Nat) : Nat :=
  match bytePos with
  | some b => origin + b
  | none => cursor

/-- explicit BYTE-POSITION (relative to the origin) or "behind the previous object" -/
def Pair.atPos {α : Type} (bytePos : Option Nat) (c : Pair α) : Pair α where
  enc := fun s => c.enc { s with cursorByte := posOf bytePos s.origin s.cursorByte }
  dec := fun d => c.dec { d with cursorByte := posOf bytePos d.origin d.cursorByte }
  val := c.val
  fits := fun d => c.fits { d with cursorByte := posOf bytePos d.origin d.cursorByte }

theorem Good.atPos {α : Type} (bytePos : Option Nat) {c : Pair α} (hc : Good c) : Good (c.atPos bytePos) where
  warn_mono := fun s => hc.warn_mono { s with cursorByte := posOf bytePos s.origin s.cursorByte }
  frame := fun s hw a hu => hc.frame { s with cursorByte := posOf bytePos s.origin s.cursorByte } hw a hu
  allBytes := fun s h => hc.allBytes { s with cursorByte := posOf bytePos s.origin s.cursorByte } h
  len_mono := fun s => hc.len_mono { s with cursorByte := posOf bytePos s.origin s.cursorByte }
  origin := fun s => hc.origin { s with cursorByte := posOf bytePos s.origin s.cursorByte }
  rt := by
    intro s d hall hw horig hcur hdall hlen hagree
    exact hc.rt { s with cursorByte := posOf bytePos s.origin s.cursorByte }
      { d with cursorByte := posOf bytePos d.origin d.cursorByte } hall hw horig
      (by simp only; rw [horig, hcur]) hdall hlen hagree
  core := by
    intro s t h
    obtain ⟨h1, h2, h3, h4, h5⟩ := h
    exact hc.core _ _ ⟨h1, h2, h3, by simp only; rw [h4, h5], h5⟩

/-- descriptions of the second tier: integer VALUE leaves, integer CODED-CONST leaves and (nested) structures,
    with the values to encode -/
inductive Tree where
  | int (o : Obj) (v : IVal)                 -- VALUE parameter over a simple DOP
  | const (o : Obj) (v : IVal)               -- CODED-CONST parameter with coded value `v`
  | struct (name : String) (bytePos : Option Nat) (kids : List Tree)

def Tree.name : Tree → String
  | .int o _ => o.name
  | .const o _ => o.name
  | .struct n _ _ => n

mutual
def Tree.okAll : Tree → Prop
  | .int o v => o.ok ∧ o.inRange v
  | .const o v => o.ok ∧ o.inRange v
  | .struct _ _ kids => Trees.okAll kids
def Trees.okAll : List Tree → Prop
  | [] => True
  | t :: ts => t.okAll ∧ Trees.okAll ts
end

mutual
/-- pure encoder/decoder of a described object -/
def Tree.pair : Tree → Pair PVal
  | .int o v => (Pair.ofObj o v).map PVal.atom
  | .const o v => (Pair.ofObj o v).map PVal.atom
  | .struct _ bp kids => ((Trees.pair kids).inOrigin.atPos bp).map PVal.dict
def Trees.pair : List Tree → Pair (List (String × PVal))
  | [] => Pair.nil []
  | t :: ts => ((Tree.pair t).seq (Trees.pair ts)).map (fun p => (t.name, p.1) :: p.2)
end

mutual
theorem Tree.good : (t : Tree) → t.okAll → Good t.pair
  | .int o v, h => by
    simp only [Tree.okAll] at h
    simp only [Tree.pair]
    exact (Good.ofObj o h.1 v h.2).map _
  | .const o v, h => by
    simp only [Tree.okAll] at h
    simp only [Tree.pair]
    exact (Good.ofObj o h.1 v h.2).map _
  | .struct _ bp kids, h => by
    simp only [Tree.okAll] at h
    simp only [Tree.pair]
    exact (((Trees.good kids h).inOrigin).atPos bp).map _
theorem Trees.good : (ts : List Tree) → Trees.okAll ts → Good (Trees.pair ts)
  | [], _ => by simp only [Trees.pair]; exact Good.nil _
  | t :: ts, h => by
    simp only [Trees.okAll] at h
    simp only [Trees.pair]
    exact ((Tree.good t h.1).seq (Trees.good ts h.2)).map _
end

/-- **Pure round trip for nested structures**: from a fresh message, with no overlap warning, the decoder run on
    the produced bytes returns the value tree that was encoded. -/
theorem tree_roundtrip (ts : List Tree) (h : Trees.okAll ts) (s : EncState) (hall : AllBytes s.msg)
    (hw : ((Trees.pair ts).enc s).warn = s.warn) :
    ((Trees.pair ts).dec { msg := ((Trees.pair ts).enc s).msg, origin := s.origin, cursorByte := s.cursorByte }).1
      = (Trees.pair ts).val := by
  have hg := Trees.good ts h
  exact (hg.rt s { msg := ((Trees.pair ts).enc s).msg, origin := s.origin, cursorByte := s.cursorByte } hall hw rfl rfl
    (hg.allBytes s hall) (Nat.le_refl _) (fun _ _ => rfl)).1

end OdxVerif.Codec
