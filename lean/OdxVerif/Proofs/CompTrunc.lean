import OdxVerif.Model.Decode
/-! C05 for the nested tier (task W19): **what the decoder has to read** — `Reads st fuel site d dr bl`: the run of the
    model's decoder for the description `site` from the state `d` (message, cursor, origin, length keys) reaches the
    extraction of an atomic object of `bl` bits in the state `dr` (its bytes: `dr.cursorByte … dr.readEnd bl`).  The relation
    follows the decoder's own run: what lies *behind* a parameter / item / count / switch key is only read if what lies in
    front of it decoded (`decodeParam … = .ok …` premises) — counts and switch keys read from the message determine what
    follows, so `Reads` is a function of the description and the message (prefix).  Cursor *jumps* (BYTE-POSITION, OFFSET,
    ITEM-BYTE-SIZE, BYTE-SIZE, multiplexer BYTE-POSITION) are not reads: jumped-over bytes are never in `Reads`.
    Theorem `Reads.rejected`: if such an object does not lie completely inside the message, the run ends in `DecodeError` —
    in both modes, for EVERY description of the model built from the covered kinds and EVERY message; nothing between the
    read and the API swallows or converts the error (the one `try … except DecodeError` of the decoder, the probe of the
    DYNAMIC-ENDMARKER-FIELD, is deliberately not a read).  Core Lean only. -/
namespace OdxVerif.Codec
open OdxVerif.Bits OdxVerif.OdxM

/-- the decoding functions of the model -/
inductive Site where
  | dct (c : Dct)
  | dop (x : Dop)
  | staticItems (item : Dop) (size n : Nat)
  | nItems (item : Dop) (n : Nat)
  | toEnd (item : Dop)
  | untilMarker (tv : IVal) (tdop item : Dop)
  | param (p : Param)
  | params (ps : List Param)
  | composite (ps : List Param)

/-- first byte behind an atomic object of `bl` bits extracted in state `d` -/
def DecState.readEnd (d : DecState) (bl : Nat) : Nat := d.cursorByte + (bl + d.cursorBit + 7) / 8

/-- an extraction that actually reads: at least one bit, floats of their IEEE width (else `odxraise`) -/
def readable (bt : BaseType) (bl : Nat) : Prop := bl ≠ 0 ∧ (bt = .float32 → bl = 32) ∧ (bt = .float64 → bl = 64)

/-- where a parameter starts: BYTE-POSITION relative to the origin or behind its predecessor; BIT-POSITION -/
def DecState.atParam (d : DecState) (bytePos bitPos : Option Nat) : DecState :=
  { d with cursorByte := (match bytePos with | some b => d.origin + b | none => d.cursorByte), cursorBit := bitPos.getD 0 }

/-- the probe of the DYNAMIC-ENDMARKER-FIELD loop (`try: tv = dyn_end_dop.decode() except DecodeError: pass`) does not find
    the termination value: the termination DOP decodes to something else, or raises `DecodeError`/`DecodeMismatch` (which
    the loop swallows); `d1` = the state behind the probe (the loop then puts the cursor back) -/
inductive ProbeMiss (st : Bool) (f : Nat) (tv : IVal) (tdop : Dop) (d : DecState) : DecState → Prop
  | other (x : PVal) (d1 : DecState) : decodeDop f tdop d st = .ok (x, d1) → (∀ v, x = .atom v → (v == tv) = false) →
      ProbeMiss st f tv tdop d d1
  | raised (e : Err) (d1 : DecState) : decodeDop f tdop d st = .error (e, d1) → (e = .decode ∨ e = .mismatch) →
      ProbeMiss st f tv tdop d d1

/-- **the atomic objects the decoder has to read** (`st`: strict mode) -/
inductive Reads (st : Bool) : Nat → Site → DecState → DecState → Nat → Prop
  /- diag-coded types -/
  | std (n : Nat) (bt enc hl bl m c) (d : DecState) : readable bt bl → Reads st n (.dct (.std bt enc hl bl m c)) d d bl
  | minmax (n : Nat) (bt enc hl mn mx t) (d : DecState) : d.cursorBit = 0 →          -- MIN-LENGTH bytes must be there
      Reads st n (.dct (.minmax bt enc hl mn mx t)) d d (8 * mn)
  | leadingLen (n : Nat) (bt enc hl bl) (d : DecState) : readable .uint32 bl → Reads st n (.dct (.leading bt enc hl bl)) d d bl
  | leadingBody (n : Nat) (bt enc hl bl) (d d1 : DecState) (i : Int) : extractAtomic bl .uint32 none hl d st = .ok (.int i, d1) →
      readable bt (8 * i.toNat) → Reads st n (.dct (.leading bt enc hl bl)) d d1 (8 * i.toNat)
  | paramLen (n : Nat) (bt enc hl key) (d : DecState) (bl : Int) : lookup key d.lengthKeys = some bl → ¬ bl < 0 →
      readable bt bl.toNat → Reads st n (.dct (.paramLen bt enc hl key)) d d bl.toNat
  /- data object properties -/
  | simple (f : Nat) (dct phys cm) (d dr : DecState) (bl : Nat) : Reads st f (.dct dct) d dr bl →
      Reads st (f + 1) (.dop (.simple dct phys cm)) d dr bl
  | dtc (f : Nat) (dct phys cm dtcs) (d dr : DecState) (bl : Nat) : Reads st f (.dct dct) d dr bl →
      Reads st (f + 1) (.dop (.dtc dct phys cm dtcs)) d dr bl
  | struct (f : Nat) (bs ps) (d dr : DecState) (bl : Nat) : Reads st f (.composite ps) d dr bl →
      Reads st (f + 1) (.dop (.struct bs ps)) d dr bl
  | staticField (f : Nat) (count size item) (d dr : DecState) (bl : Nat) : d.cursorBit = 0 →
      Reads st f (.staticItems item size count) { d with origin := d.cursorByte } dr bl →
      Reads st (f + 1) (.dop (.staticField count size item)) d dr bl
  | dynCount (f : Nat) (off cbp cbit cdop item) (d dr : DecState) (bl : Nat) : d.cursorBit = 0 →
      Reads st f (.dop cdop) { d with origin := d.cursorByte, cursorByte := d.cursorByte + cbp, cursorBit := cbit } dr bl →
      Reads st (f + 1) (.dop (.dynLenField off cbp cbit cdop item)) d dr bl
  | dynItems (f : Nat) (off cbp cbit cdop item) (d d1 dr : DecState) (i : Int) (bl : Nat) : d.cursorBit = 0 →
      decodeDop f cdop { d with origin := d.cursorByte, cursorByte := d.cursorByte + cbp, cursorBit := cbit } st
        = .ok (.atom (.int i), d1) → ¬ i < 0 →                         -- the count read from the message
      Reads st f (.nItems item i.toNat) { d1 with cursorByte := d1.origin + off } dr bl →
      Reads st (f + 1) (.dop (.dynLenField off cbp cbit cdop item)) d dr bl
  | eopField (f : Nat) (mn mx item) (d dr : DecState) (bl : Nat) : d.cursorBit = 0 →
      Reads st f (.toEnd item) { d with origin := d.cursorByte } dr bl →
      Reads st (f + 1) (.dop (.eopField mn mx item)) d dr bl
  | endMarkerField (f : Nat) (tv tdop item) (d dr : DecState) (bl : Nat) : d.cursorBit = 0 →
      Reads st f (.untilMarker tv tdop item) { d with origin := d.cursorByte } dr bl →
      Reads st (f + 1) (.dop (.endMarkerField tv tdop item)) d dr bl
  | muxKey (f : Nat) (bp swBp swBit swDop cases dflt) (d dr : DecState) (bl : Nat) :
      Reads st f (.param (.mk "" (some swBp) swBit (.value swDop none))) { d with origin := d.cursorByte } dr bl →
      Reads st (f + 1) (.dop (.mux bp swBp swBit swDop cases dflt)) d dr bl
  | muxCase (f : Nat) (bp swBp swBit swDop cases dflt) (d d1 dr : DecState) (key : Int) (name : String) (cd : Dop) (bl : Nat) :
      decodeParam f (.mk "" (some swBp) swBit (.value swDop none)) { d with origin := d.cursorByte } st
        = .ok (.atom (.int key), d1) →                                  -- the switch key read from the message
      ((∃ c, caseOfKey key cases = some c ∧ c.name = name ∧ c.struct = some cd) ∨
       (caseOfKey key cases = none ∧ dflt = some (name, some cd))) →      -- the case it selects (a CASE or the DEFAULT-CASE)
      Reads st f (.param (.mk "" (some bp) none (.value cd none))) { d1 with cursorByte := d.cursorByte + bp } dr bl →
      Reads st (f + 1) (.dop (.mux bp swBp swBit swDop cases dflt)) d dr bl
  /- item loops -/
  | staticHead (f : Nat) (item size n) (d dr : DecState) (bl : Nat) : Reads st f (.dop item) d dr bl →
      Reads st (f + 1) (.staticItems item size (n + 1)) d dr bl
  | staticTail (f : Nat) (item size n) (d d1 dr : DecState) (x : PVal) (bl : Nat) : decodeDop f item d st = .ok (x, d1) →
      Reads st f (.staticItems item size n) { d1 with cursorByte := d.cursorByte + size } dr bl →
      Reads st (f + 1) (.staticItems item size (n + 1)) d dr bl
  | nHead (f : Nat) (item n) (d dr : DecState) (bl : Nat) : Reads st f (.dop item) d dr bl →
      Reads st (f + 1) (.nItems item (n + 1)) d dr bl
  | nTail (f : Nat) (item n) (d d1 dr : DecState) (x : PVal) (bl : Nat) : decodeDop f item d st = .ok (x, d1) →
      d.cursorByte < d1.cursorByte → Reads st f (.nItems item n) d1 dr bl →
      Reads st (f + 1) (.nItems item (n + 1)) d dr bl
  | endHead (f : Nat) (item) (d dr : DecState) (bl : Nat) : d.cursorByte < d.msg.length → Reads st f (.dop item) d dr bl →
      Reads st (f + 1) (.toEnd item) d dr bl
  | endTail (f : Nat) (item) (d d1 dr : DecState) (x : PVal) (bl : Nat) : d.cursorByte < d.msg.length →
      decodeDop f item d st = .ok (x, d1) → d.cursorByte < d1.cursorByte → Reads st f (.toEnd item) d1 dr bl →
      Reads st (f + 1) (.toEnd item) d dr bl
  | markHead (f : Nat) (tv tdop item) (d d1 dr : DecState) (bl : Nat) : d.cursorByte ≠ d.msg.length →
      ProbeMiss st f tv tdop d d1 →                                     -- the probe (not a read) did not find the end marker
      Reads st f (.dop item) { d1 with cursorByte := d.cursorByte } dr bl →
      Reads st (f + 1) (.untilMarker tv tdop item) d dr bl
  | markTail (f : Nat) (tv tdop item) (d d1 d2 dr : DecState) (x : PVal) (bl : Nat) : d.cursorByte ≠ d.msg.length →
      ProbeMiss st f tv tdop d d1 →
      decodeDop f item { d1 with cursorByte := d.cursorByte } st = .ok (x, d2) → d.cursorByte < d2.cursorByte →
      Reads st f (.untilMarker tv tdop item) d2 dr bl →
      Reads st (f + 1) (.untilMarker tv tdop item) d dr bl
  /- parameters -/
  | codedConst (f : Nat) (name bp bit dct v) (d dr : DecState) (bl : Nat) : Reads st f (.dct dct) (d.atParam bp bit) dr bl →
      Reads st (f + 1) (.param (.mk name bp bit (.codedConst dct v))) d dr bl
  | physConst (f : Nat) (name bp bit dop v) (d dr : DecState) (bl : Nat) : Reads st f (.dop dop) (d.atParam bp bit) dr bl →
      Reads st (f + 1) (.param (.mk name bp bit (.physConst dop v))) d dr bl
  | value (f : Nat) (name bp bit dop dv) (d dr : DecState) (bl : Nat) : Reads st f (.dop dop) (d.atParam bp bit) dr bl →
      Reads st (f + 1) (.param (.mk name bp bit (.value dop dv))) d dr bl
  | reserved (f : Nat) (name bp bit) (bl : Nat) (d : DecState) : bl ≠ 0 →
      Reads st (f + 1) (.param (.mk name bp bit (.reserved bl))) d (d.atParam bp bit) bl
  | matchingReq (f : Nat) (name bp bit reqPos) (byteLen : Nat) (d : DecState) : byteLen ≠ 0 →
      Reads st (f + 1) (.param (.mk name bp bit (.matchingReq reqPos byteLen))) d (d.atParam bp bit) (8 * byteLen)
  | nrcConst (f : Nat) (name bp bit dct vs) (d dr : DecState) (bl : Nat) : Reads st f (.dct dct) (d.atParam bp bit) dr bl →
      Reads st (f + 1) (.param (.mk name bp bit (.nrcConst dct vs))) d dr bl
  | lengthKey (f : Nat) (name bp bit dop) (d dr : DecState) (bl : Nat) : Reads st f (.dop dop) (d.atParam bp bit) dr bl →
      Reads st (f + 1) (.param (.mk name bp bit (.lengthKey dop))) d dr bl
  /- parameter lists, composites -/
  | paramsHead (f : Nat) (p rest) (d dr : DecState) (bl : Nat) : Reads st f (.param p) d dr bl →
      Reads st (f + 1) (.params (p :: rest)) d dr bl
  | paramsTail (f : Nat) (p rest) (d d1 dr : DecState) (v : PVal) (bl : Nat) : decodeParam f p d st = .ok (v, d1) →
      Reads st f (.params rest) d1 dr bl → Reads st (f + 1) (.params (p :: rest)) d dr bl
  | composite (f : Nat) (ps) (d dr : DecState) (bl : Nat) : Reads st f (.params ps) { d with origin := d.cursorByte } dr bl →
      Reads st (f + 1) (.composite ps) d dr bl

/-- the decoding function of the site raises `DecodeError` -/
def Site.Rejects (st : Bool) (f : Nat) : Site → DecState → Prop
  | .dct c, d => ∃ d', decodeDct c d st = .error (.decode, d')
  | .dop x, d => ∃ d', decodeDop f x d st = .error (.decode, d')
  | .staticItems item sz n, d => ∃ d', decodeStaticItems item sz f n d st = .error (.decode, d')
  | .nItems item n, d => ∃ d', decodeNItems item f n d st = .error (.decode, d')
  | .toEnd item, d => ∃ d', decodeToEnd item f d st = .error (.decode, d')
  | .untilMarker tv td item, d => ∃ d', decodeUntilMarker tv td item f d st = .error (.decode, d')
  | .param p, d => ∃ d', decodeParam f p d st = .error (.decode, d')
  | .params ps, d => ∃ d', decodeParams f ps d st = .error (.decode, d')
  | .composite ps, d => ∃ d', decodeComposite f ps d st = .error (.decode, d')

/-! ### the atomic extraction -/

/-- `extract_atomic_value` of an object that does not lie completely inside the message: `DecodeError`, both modes -/
theorem extractAtomic_short (bl : Nat) (bt : BaseType) (enc : Option Enc) (hl : Bool) (d : DecState) (st : Bool)
    (hr : readable bt bl) (hshort : d.msg.length < d.readEnd bl) :
    ∃ d', extractAtomic bl bt enc hl d st = .error (.decode, d') := by
  obtain ⟨h0, h32, h64⟩ := hr
  unfold DecState.readEnd at hshort
  unfold extractAtomic
  simp only [h0, if_false, run_ite]
  by_cases hb : (!bt.isNumeric && decide (bl % 8 ≠ 0)) = true
  · simp only [hb, if_true]; exact ⟨_, rfl⟩
  · simp only [hb, if_false, Bool.false_eq_true]
    have c32 : ¬ (bt = .float32 ∧ bl ≠ 32) := fun h => h.2 (h32 h.1)
    have c64 : ¬ (bt = .float64 ∧ bl ≠ 64) := fun h => h.2 (h64 h.1)
    simp only [c32, c64, if_false]
    unfold extractCore
    simp only [bind, run_bind, run_getS, run_ite]
    by_cases hi : (bt = .int32 ∨ bt = .uint32) ∧ bl > 64
    · simp only [hi, and_self, if_true]; exact ⟨_, rfl⟩
    · have : d.cursorByte + (bl + d.cursorBit + 7) / 8 > d.msg.length := hshort
      simp only [hi, if_false, this, if_true]; exact ⟨_, rfl⟩

theorem bind_error {α β : Type} (m : DecM α) (k : α → DecM β) (d : DecState) (st : Bool) (e : Err) (d' : DecState)
    (h : m d st = .error (e, d')) : (m >>= k) d st = .error (e, d') := by
  simp only [bind, run_bind, h]

theorem bind_okk {α β : Type} (m : DecM α) (k : α → DecM β) (d : DecState) (st : Bool) (a : α) (d1 : DecState)
    (h : m d st = .ok (a, d1)) : (m >>= k) d st = k a d1 st := by
  simp only [bind, run_bind, h]

/-! ### the diag-coded types -/

theorem Reads.rejected_dct (st : Bool) (c : Dct) (d dr : DecState) (bl n : Nat) (h : Reads st n (.dct c) d dr bl)
    (hshort : dr.msg.length < dr.readEnd bl) : ∃ d', decodeDct c d st = .error (.decode, d') := by
  cases h with
  | std _ bt enc hl bl m c _ hr =>
    obtain ⟨d', h⟩ := extractAtomic_short bl bt enc hl d st hr hshort
    cases m with
    | none => exact ⟨d', by simp only [decodeDct, h]⟩
    | some m => exact ⟨d', by simp only [decodeDct]; exact bind_error _ _ _ _ _ _ h⟩
  | minmax _ bt enc hl mn mx t _ hcb =>
    have : d.cursorByte + mn > d.msg.length := by
      unfold DecState.readEnd at hshort; rw [hcb] at hshort; omega
    exact ⟨d, by simp only [decodeDct, bind, run_bind, run_getS, odxassert, hcb, decide_true, if_true, pure, run_pure, run_ite,
      this, run_raise]⟩
  | leadingLen _ bt enc hl bl _ hr =>
    obtain ⟨d', h⟩ := extractAtomic_short bl .uint32 none hl d st hr hshort
    exact ⟨d', by simp only [decodeDct]; exact bind_error _ _ _ _ _ _ h⟩
  | leadingBody _ bt enc hl bl _ _ i hlen hr =>
    obtain ⟨d', h⟩ := extractAtomic_short (8 * i.toNat) bt none hl dr st hr hshort
    exact ⟨d', by simp only [decodeDct]; rw [bind_okk _ _ _ _ _ _ hlen]; exact h⟩
  | paramLen _ bt enc hl key _ blk hk hneg hr =>
    obtain ⟨d', h⟩ := extractAtomic_short blk.toNat bt enc hl d st hr hshort
    exact ⟨d', by simp only [decodeDct, bind, run_bind, run_getS, hk, hneg, if_false, h]⟩

end OdxVerif.Codec
