import OdxVerif.Proofs.CompExtDescribed
import OdxVerif.Proofs.CompCompuKinds
/-! Compositional components, extension W21: the inductive predicate **`Described3`** — `Described2` of
    `Proofs/CompExtDescribed.lean` plus the compu-method leaves of `Proofs/CompCompuKinds.lean` (VALUE and PHYS-CONST
    parameters over a standard-length DOP with a LINEAR or TEXTTABLE compu method, or over a DTC-DOP; VALUE also with a PHYSICAL-DEFAULT-VALUE: `convDefault`), which may occur at any
    depth of structures (with or without BYTE-SIZE), fields and multiplexers.  The composite constructors are those of
    `Described2` verbatim (their children are `Described3` now); `old` embeds `Described2`.  Soundness `Described3.ok` is the
    proof of `Described2.ok` with the new leaf cases — every closure lemma is used unchanged. -/
namespace OdxVerif.Codec
open OdxVerif.Bits OdxVerif.OdxM

/-- **the described parameters, third edition** (`mid` as in `Described2`) -/
inductive Described3 : Comp → Bool → Prop
  | old (g : Comp) (mid : Bool) : Described2 g mid → Described3 g mid
  | linear (l : LinLeaf) : l.ok → Described3 l.comp false
  | linearConst (l : LinLeaf) (supplied : Bool) : l.ok → Described3 (l.constComp supplied) false
  | texttable (l : TTLeaf) : l.ok → Described3 l.comp false
  | texttableConst (l : TTLeaf) (supplied : Bool) : l.ok → Described3 (l.constComp supplied) false
  | dtc (l : DtcLeaf) (sup : PVal) : l.ok → l.supOk sup → Described3 (l.comp sup) false
  | dtcConst (l : DtcLeaf) (supplied : Bool) : l.ok → Described3 (l.constComp supplied) false
  | convLeaf (o : Obj) (dop : Dop) (sup val : PVal) (i : IVal) : o.ok → o.inRange i → ConvOk dop o.dct sup val i →
      Described3 (Comp.ofConvLeaf o dop sup val i) false
  | convDefault (o : Obj) (dop : Dop) (dv : PVal) (omitted : Bool) (sup val : PVal) (i : IVal) : o.ok → o.inRange i →
      ConvOk dop o.dct sup val i → (omitted = true → sup = dv) →
      Described3 (Comp.ofConvDefault o dop dv omitted sup val i) false
  | convPhysConst (o : Obj) (dop : Dop) (c val : PVal) (i : IVal) (supplied : Bool) : o.ok → o.inRange i →
      ConvOk dop o.dct c val i → pvalEq c c = true → pvalEq val c = true →
      Described3 (Comp.ofConvPhysConst o dop c val i supplied) false
  | struct (name : String) (bp : Option Nat) (bso : Option Nat) (ms : List MComp) :
      (∀ m ∈ ms, Described3 m.c m.mid) → Comps.namesOk (MComps.cs ms) → Comps.eopLast (MComps.cs ms) →
      sizeSide bso (MComps.cs ms) →
      Described3 (Comp.ofValue name bp (DComp.structO bso (MComps.cs ms))) (MComps.lastMid ms)
  | staticField (name : String) (bp : Option Nat) (itemSize : Nat) (bso : Option Nat) (shape : List Param)
      (items : List (List MComp)) :
      (∀ k ∈ items, ∀ m ∈ k, Described3 m.c m.mid) →
      (∀ k ∈ items, itemSideS bso shape k ∧ (DComp.structO bso (MComps.cs k)).size ≤ itemSize) →
      Described3 (Comp.ofValue name bp (DComp.staticField itemSize (.struct bso shape) (itemsO bso items))) false
  | dynLenField (name : String) (bp : Option Nat) (l : DynLayout) (bso : Option Nat) (shape : List Param)
      (items : List (List MComp)) :
      (∀ k ∈ items, ∀ m ∈ k, Described3 m.c m.mid) →
      (∀ k ∈ items, itemSideS bso shape k ∧ 1 ≤ (DComp.structO bso (MComps.cs k)).size) → l.ok items.length →
      Described3 (Comp.ofValue name bp (DComp.dynLenField l (.struct bso shape) (itemsO bso items))) (itemsLastMid items)
  | eopField (name : String) (bp : Option Nat) (mn mx : Option Nat) (bso : Option Nat) (shape : List Param)
      (items : List (List MComp)) :
      (∀ k ∈ items, ∀ m ∈ k, Described3 m.c m.mid) →
      (∀ k ∈ items, itemSideS bso shape k ∧ 1 ≤ (DComp.structO bso (MComps.cs k)).size) →
      (∀ k, items.getLast? = some k → MComps.midNotLast k) →
      Described3 (Comp.ofValue name bp (DComp.eopField mn mx (.struct bso shape) (itemsO bso items))) false
  | mux (name : String) (bp : Option Nat) (m : MuxLayout) (ms : List MComp) :
      (∀ x ∈ ms, Described3 x.c x.mid) → Comps.namesOk (MComps.cs ms) → Comps.eopLast (MComps.cs ms) →
      m.ok (.struct none (Comps.toParams (MComps.cs ms))) →
      Described3 (Comp.ofValue name bp (DComp.mux m (DComp.struct (MComps.cs ms)))) (MComps.lastMid ms)
  | endMarkerEop (name : String) (bp : Option Nat) (l : EmLayout) (bso : Option Nat) (shape : List Param)
      (items : List (List MComp)) :
      (∀ k ∈ items, ∀ m ∈ k, Described3 m.c m.mid) → l.ok →
      (∀ k ∈ items, itemSideS bso shape k ∧ 1 ≤ (DComp.structO bso (MComps.cs k)).size ∧
        l.miss (DComp.structO bso (MComps.cs k))) →
      (∀ k, items.getLast? = some k → MComps.midNotLast k) →
      Described3 (Comp.ofValue name bp (DComp.endMarkerEop l (.struct bso shape) (itemsO bso items))) false
  | endMarkerMid (name : String) (bp : Option Nat) (l : EmLayout) (bso : Option Nat) (shape : List Param)
      (items : List (List MComp)) :
      (∀ k ∈ items, ∀ m ∈ k, Described3 m.c m.mid) → l.ok →
      (∀ k ∈ items, itemSideS bso shape k ∧ 1 ≤ (DComp.structO bso (MComps.cs k)).size ∧
        l.miss (DComp.structO bso (MComps.cs k))) →
      Described3 (Comp.ofValue name bp (DComp.endMarkerMid l (.struct bso shape) (itemsO bso items))) true

/-- **soundness of `Described3`** -/
theorem Described3.ok {g : Comp} {mid : Bool} (h : Described3 g mid) : (∀ P, g.OkM mid P) ∧ g.EndOk := by
  induction h with
  | old g mid hd => exact hd.ok
  | linear l hl => exact ⟨fun P => (l.comp_ok hl).toM _ P, l.comp_endOk⟩
  | linearConst l b hl => exact ⟨fun P => (l.constComp_ok hl b).toM _ P, l.constComp_endOk b⟩
  | texttable l hl => exact ⟨fun P => (l.comp_ok hl).toM _ P, l.comp_endOk⟩
  | texttableConst l b hl => exact ⟨fun P => (l.constComp_ok hl b).toM _ P, l.constComp_endOk b⟩
  | dtc l sup hl hs => exact ⟨fun P => (l.comp_ok hl sup hs).toM _ P, l.comp_endOk sup⟩
  | dtcConst l b hl => exact ⟨fun P => (l.constComp_ok hl b).toM _ P, l.constComp_endOk b⟩
  | convLeaf o dop sup val i ho hr hc =>
    exact ⟨fun P => (Comp.ofConvLeaf_ok o dop sup val i ho hr hc).toM _ P, Comp.ofConvLeaf_endOk o dop sup val i⟩
  | convDefault o dop dv om sup val i ho hr hc hom =>
    exact ⟨fun P => (Comp.ofConvDefault_ok o dop dv om sup val i ho hr hc hom).toM _ P, Comp.ofConvDefault_endOk o dop dv om sup val i⟩
  | convPhysConst o dop c val i b ho hr hc h1 h2 =>
    exact ⟨fun P => (Comp.ofConvPhysConst_ok o dop c val i b ho hr hc h1 h2).toM _ P, Comp.ofConvPhysConst_endOk o dop c val i b⟩
  | struct name bp bso ms _ hn hlast hsz ih =>
    have hok := MComps.okAll_of_forall (fun _ => True) ms (fun m hm => (ih m hm).1 _)
    have hend : Comps.endOkAll (MComps.cs ms) := Comps.endOkAll_of_forall _ (fun g hg => by
      obtain ⟨m, hm, rfl⟩ := MComps.mem_cs hg
      exact (ih m hm).2)
    exact ⟨fun P => Comp.ofValueM_ok name bp _ _ (DComp.structOM_okM bso ms hok hn hlast hsz) P,
      Comp.ofValue_endOk name bp _ (DComp.structOM_endOk bso ms hok hend hlast hsz)⟩
  | staticField name bp n bso shape items _ hside ih =>
    have hitems := structItemsS_ok bso shape items ih (fun k hk => (hside k hk).1)
    refine ⟨fun P => (Comp.ofValue_ok name bp _ (DComp.staticFieldM_ok n _ _ ?_)).toM _ P,
      Comp.ofValue_endOk name bp _ (DComp.staticField_endOk n _ _)⟩
    intro c hc
    refine ⟨(hitems c hc).1, (hitems c hc).2, ?_⟩
    obtain ⟨k, hk, rfl⟩ := itemsO_mem hc
    exact (hside k hk).2
  | dynLenField name bp l bso shape items _ hside hl ih =>
    have hitems := structItemsS_ok bso shape items ih (fun k hk => (hside k hk).1)
    have hlastM := itemsO_lastM bso shape items ih (fun k hk => (hside k hk).1)
    refine ⟨fun P => Comp.ofValueM_ok name bp _ _ (DComp.dynLenFieldM_okM l _ _ _ (by simpa [itemsO] using hl) ?_ hlastM) P,
      Comp.ofValue_endOk name bp _ (DComp.dynLenField_endOk l _ _)⟩
    intro c hc
    refine ⟨(hitems c hc).1, (hitems c hc).2, ?_⟩
    obtain ⟨k, hk, rfl⟩ := itemsO_mem hc
    exact (hside k hk).2
  | eopField name bp mn mx bso shape items _ hside hlm ih =>
    have hitems := structItemsS_ok bso shape items ih (fun k hk => (hside k hk).1)
    have hlastM := itemsO_lastM bso shape items ih (fun k hk => (hside k hk).1)
    rw [itemsLastMid_false items hlm] at hlastM
    refine ⟨fun P => (Comp.ofValue_ok name bp _ (DComp.eopFieldM_ok mn mx _ _ ?_ hlastM)).toM _ P,
      Comp.ofValue_endOk name bp _ (DComp.eopField_endOk mn mx _ _)⟩
    intro c hc
    refine ⟨(hitems c hc).1, (hitems c hc).2, ?_⟩
    obtain ⟨k, hk, rfl⟩ := itemsO_mem hc
    exact (hside k hk).2
  | mux name bp m ms _ hn hlast hm ih =>
    have hok := MComps.okAll_of_forall (fun _ => True) ms (fun x hx => (ih x hx).1 _)
    have hend : Comps.endOkAll (MComps.cs ms) := Comps.endOkAll_of_forall _ (fun g hg => by
      obtain ⟨x, hx, rfl⟩ := MComps.mem_cs hg
      exact (ih x hx).2)
    exact ⟨fun P => Comp.ofValueM_ok name bp _ _ (DComp.mux_okM m _ _ (DComp.structM_okM ms hok hn hlast) hm) P,
      Comp.ofValue_endOk name bp _ (DComp.mux_endOk m _ (DComp.structM_endOk ms hok hend hlast))⟩
  | endMarkerEop name bp l bso shape items _ hl hside hlm ih =>
    have hitems := structItemsS_ok bso shape items ih (fun k hk => (hside k hk).1)
    have hlastM := itemsO_lastM bso shape items ih (fun k hk => (hside k hk).1)
    rw [itemsLastMid_false items hlm] at hlastM
    refine ⟨fun P => (Comp.ofValue_ok name bp _ (DComp.endMarkerEop_ok l hl _ _ ?_ hlastM)).toM _ P,
      Comp.ofValue_endOk name bp _ (DComp.endMarkerEop_endOk l _ _)⟩
    intro c hc
    refine ⟨(hitems c hc).1, (hitems c hc).2, ?_⟩
    obtain ⟨k, hk, rfl⟩ := itemsO_mem hc
    exact (hside k hk).2
  | endMarkerMid name bp l bso shape items _ hl hside ih =>
    have hitems := structItemsS_ok bso shape items ih (fun k hk => (hside k hk).1)
    refine ⟨fun P => Comp.ofValueM_ok name bp _ true (DComp.endMarkerMid_ok l hl _ _ ?_) P,
      Comp.ofValue_endOk name bp _ (DComp.endMarkerMid_endOk l _ _)⟩
    intro c hc
    refine ⟨(hitems c hc).1, (hitems c hc).2, ?_⟩
    obtain ⟨k, hk, rfl⟩ := itemsO_mem hc
    exact (hside k hk).2

theorem Described2.to3 {g : Comp} {mid : Bool} (h : Described2 g mid) : Described3 g mid := .old g mid h

/-- the parameters a response to the request `trig` (a request: `trig = none`) may list at its top level -/
inductive DescribedTop3 (trig : Option Bytes) : Comp → Bool → Prop
  | nested (g : Comp) (mid : Bool) : Described3 g mid → DescribedTop3 trig g mid
  | matchingReq (n : String) (bp : Option Nat) (reqPos byteLen : Nat) (t : Bytes) :
      trig = some t → AllBytes t → reqPos + byteLen ≤ t.length → 1 ≤ byteLen → byteLen ≤ 8 →
      DescribedTop3 trig (Comp.matchingReq n bp reqPos byteLen t) false

theorem DescribedTop3.ok {trig : Option Bytes} {g : Comp} {mid : Bool} (h : DescribedTop3 trig g mid) :
    g.OkM mid (TopInv trig) ∧ g.EndOk := by
  cases h with
  | nested g mid hd => exact ⟨hd.ok.1 _, hd.ok.2⟩
  | matchingReq n bp reqPos byteLen t ht hall hlen h1 h8 =>
    subst ht
    exact ⟨Comp.matchingReq_ok n bp reqPos byteLen t hall hlen h1 h8, Comp.matchingReq_endOk n bp reqPos byteLen t⟩

theorem DescribedTop.to3 {trig : Option Bytes} {g : Comp} {mid : Bool} (h : DescribedTop trig g mid) : DescribedTop3 trig g mid := by
  cases h with
  | nested g mid hd => exact .nested g mid hd.to3
  | matchingReq n bp reqPos byteLen t ht hall hlen h1 h8 => exact .matchingReq n bp reqPos byteLen t ht hall hlen h1 h8

end OdxVerif.Codec
