import OdxVerif.Gen.NilAddAttr
import OdxVerif.Proofs.PyRt
namespace OdxVerif.Nil
open OdxVerif Py

theorem us_toList : "_".toList = ['_'] := by decide

/-- `item_name.endswith("_")` as rendered (`List.isSuffixOf`) is the model's test on the last character -/
theorem endswith_us (base : Name) : List.isSuffixOf ['_'] base = decide (base.getLast? = some '_') := by
  rw [← List.head?_reverse]
  unfold List.isSuffixOf
  cases base.reverse with
  | nil => simp [List.isPrefixOf]
  | cons c cs =>
    by_cases h : c = '_'
    · subst h; simp [List.isPrefixOf]
    · have h' : ¬ '_' = c := fun e => h e.symm
      simp [List.isPrefixOf, h, h']

theorem cand_succ (base : Name) (i : Nat) (hi : 1 ≤ i) : cand base (i + 1) = suffixed base (i + 1) := by
  unfold cand; rw [if_neg (by omega)]

/-- the fuel-bounded loop, for any step function that behaves like the body of `while True:` -/
theorem loop_eq (taken : Name → Bool) (base : Name)
    (f : Unit → Nat × Name × Bool → Py.M (ForInStep (Nat × Name × Bool)))
    (hf : ∀ u i tmp b, f u (i, tmp, b) =
      if taken tmp = false then .ok (.done (i, tmp, true)) else .ok (.yield (i + 1, suffixed base (i + 1), b)))
    (fuel : Nat) : ∀ i tmp, 1 ≤ i → tmp = cand base i →
    (forIn (List.replicate fuel ()) (i, tmp, false) f >>= fun v =>
      (if v.snd.snd = false then Except.ok none else Except.ok (some v.snd.fst) : Py.M (Option Name))) =
    Except.ok (findFree taken base fuel i) := by
  induction fuel with
  | zero => intro i tmp _ _; simp [findFree, pure, Except.pure, bind, Except.bind]
  | succ n ih =>
    intro i tmp hi htmp
    subst htmp
    rw [List.replicate_succ, List.forIn_cons, hf]
    cases ht : taken (cand base i) with
    | false => simp [findFree, ht, bind, Except.bind, pure, Except.pure]
    | true =>
      have := ih (i + 1) _ (by omega) (cand_succ base i hi).symm
      simpa [findFree, ht, bind, Except.bind] using this

theorem gen_addAttrName_eq (taken : Name → Bool) (key : Item → Py.M Name) (fuel : Nat) (it : Item) :
    Gen.addAttrNameE taken key fuel it =
      match key it with
      | .error e => .error e
      | .ok base => .ok (findFree taken base fuel 1) := by
  unfold Gen.addAttrNameE
  cases hk : key it with
  | error e => rfl
  | ok base =>
    simp only [pure, Except.pure, Bool.not_eq_true]
    refine loop_eq taken base _ ?_ fuel 1 base (Nat.le_refl 1) (by simp [cand])
    · intro u i tmp b
      simp only [us_toList, endswith_us, suffixed]
      cases taken tmp <;> by_cases hl : base.getLast? = some '_' <;> simp [hl]
end OdxVerif.Nil
