import OdxVerif.Proofs.CompExtMid
/-! Compositional components, extension W11 (3b): **STATIC-FIELD items that end with a parameter that needs `is_end_of_pdu`
    cleared** (a terminated MIN-MAX-LENGTH-TYPE object as the last parameter of the item structure).  `StaticField.encode_into_pdu`
    encodes EVERY item with the flag cleared (fix c01-static-field-last-item-end-of-pdu: every item may be followed by padding),
    and an item leaves a cleared flag cleared (`encodeDop_keeps_eop_false`), so the items only have to be components in the
    restricted sense (`DComp.OkM _ true`) and the field is an ordinary component.  The lemmas are those of the STATIC-FIELD
    section of `Proofs/CompFields.lean` with `c.Ok` weakened to `c.OkM true` and the flag threaded through the item loop. -/
namespace OdxVerif.Codec
open OdxVerif.Bits OdxVerif.OdxM

/-- **a data object encoded with `is_end_of_pdu` cleared leaves it cleared** -/
theorem encodeDop_keeps_eop_false (fuel : Nat) (d : Dop) (pv : PVal) (s : EncState) (st : Bool) (s' : EncState)
    (h : encodeDop fuel d pv s st = .ok ((), s')) (hs : s.isEndOfPdu = false) : s'.isEndOfPdu = false := by
  have := (k_encode_all fuel false).1 d pv
  unfold K at this
  rcases this s st () s' (Or.inl hs) h with h | h <;> exact h

/-- every restricted component is one for `mid = true` (the weakest restriction) -/
theorem DComp.OkM.weaken {c : DComp} {mid : Bool} (h : c.OkM mid) : c.OkM true :=
  { good := h.good, sup_ne_none := h.sup_ne_none, originFree := h.originFree, dec_originFree := h.dec_originFree,
    fits_originFree := h.fits_originFree,
    encode_eq := fun fuel hf s hcb he hm => h.encode_eq fuel hf s hcb he (fun _ => hm rfl),
    enc_cursor := h.enc_cursor, dec_cursorBit := h.dec_cursorBit, dec_msg := h.dec_msg, dec_origin := h.dec_origin,
    decode_eq := h.decode_eq }

/-- what a static field demands of an item: a component (possibly only with the flag cleared) over the field's item DOP that
    does not need the end of the PDU -/
def DComp.itemOkM (item : Dop) (c : DComp) : Prop := c.OkM true ∧ c.dop = item ∧ c.eopOnly = false

theorem staticItemM_good (n : Nat) (c : DComp) (hc : c.OkM true) : Good (staticItemC n c) :=
  ((hc.good.seq (Good.padTo n)).map _).inOrigin

/-- the pure encoder of an item = the item's encoder followed by `emplace_bytes` of the missing bytes -/
theorem staticItemM_enc (n : Nat) (c : DComp) (hc : c.OkM true) (s : EncState) (hsz : c.size ≤ n) :
    SameCore ((staticItemC n c).enc s) (if c.size < n then padEnc (n - c.size) (c.pair.enc s) else c.pair.enc s) := by
  have hof := hc.originFree s s.cursorByte
  have hcur := hc.enc_cursor s
  have horg := hc.good.origin s
  show SameCore ({ (Pair.padTo n).enc (c.pair.enc { s with origin := s.cursorByte }) with origin := s.origin } : EncState) _
  rw [hof]
  show SameCore ({ (if (c.pair.enc s).cursorByte < s.cursorByte + n
      then padEnc (s.cursorByte + n - (c.pair.enc s).cursorByte) { c.pair.enc s with origin := s.cursorByte }
      else { c.pair.enc s with origin := s.cursorByte, cursorByte := s.cursorByte + n }) with origin := s.origin } : EncState) _
  by_cases hlt : c.size < n
  · have h1 : (c.pair.enc s).cursorByte < s.cursorByte + n := by omega
    have h2 : s.cursorByte + n - (c.pair.enc s).cursorByte = n - c.size := by omega
    rw [if_pos h1, if_pos hlt, h2]
    exact ⟨rfl, rfl, rfl, rfl, horg.symm⟩
  · have h1 : ¬ ((c.pair.enc s).cursorByte < s.cursorByte + n) := by omega
    rw [if_neg h1, if_neg hlt]
    exact ⟨rfl, rfl, rfl, by show s.cursorByte + n = _; omega, horg.symm⟩

theorem staticItemM_enc_cursor (n : Nat) (c : DComp) (hc : c.OkM true) (s : EncState) (hsz : c.size ≤ n) :
    ((staticItemC n c).enc s).cursorByte = s.cursorByte + n := by
  rw [(staticItemM_enc n c hc s hsz).2.2.2.1]
  split
  · rw [padEnc_cursor, hc.enc_cursor]; omega
  · rw [hc.enc_cursor]; omega

theorem staticItemsM_good (n : Nat) (cs : List DComp) (h : ∀ c ∈ cs, c.OkM true) : Good (Pair.list (cs.map (staticItemC n))) :=
  Good.list _ (by
    intro p hp
    obtain ⟨x, hx, rfl⟩ := List.mem_map.mp hp
    exact staticItemM_good n x (h x hx))

theorem staticItemsM_enc_cursor (n : Nat) : (cs : List DComp) → (∀ c ∈ cs, c.OkM true ∧ c.size ≤ n) → ∀ (s : EncState),
    ((Pair.list (cs.map (staticItemC n))).enc s).cursorByte = s.cursorByte + cs.length * n
  | [], _, s => by simp [Pair.list, Pair.nil]
  | c :: cs, h, s => by
    have h1 := staticItemM_enc_cursor n c (h c (List.mem_cons_self ..)).1 s (h c (List.mem_cons_self ..)).2
    have h2 := staticItemsM_enc_cursor n cs (fun x hx => h x (List.mem_cons_of_mem _ hx)) ((staticItemC n c).enc s)
    simp only [List.map_cons, Pair.list, Pair.map, Pair.seq, List.length_cons]
    rw [h2, h1, Nat.add_mul]
    omega

/-- the static-field item loop of the model = the pure list of padded items -/
theorem encodeStaticItemsM_eq (item : Dop) (n : Nat) (eop : Bool) : ∀ (cs : List DComp) (m : Nat),
    (∀ c ∈ cs, c.itemOkM item ∧ c.size ≤ n ∧ c.need ≤ m) → ∀ (fuel : Nat), cs.length + m + 1 ≤ fuel →
    ∀ (s : EncState), s.cursorBit = 0 → s.isEndOfPdu = false →
    ∃ s', encodeStaticItems item n eop fuel (DComps.sups cs) s true = .ok ((), s') ∧
      SameCore s' ((Pair.list (cs.map (staticItemC n))).enc s) ∧ s'.cursorBit = 0 := by
  intro cs
  induction cs with
  | nil =>
    intro m _ fuel hf s hcb _
    obtain ⟨f, rfl⟩ : ∃ f, fuel = f + 1 := ⟨fuel - 1, by omega⟩
    exact ⟨s, by simp [DComps.sups, encodeStaticItems, pure, run_pure], SameCore.refl _, hcb⟩
  | cons c cs ih =>
    intro m hall fuel hf s hcb hflag
    obtain ⟨f, rfl⟩ : ∃ f, fuel = f + 1 := ⟨fuel - 1, by simp only [List.length_cons] at hf; omega⟩
    simp only [List.length_cons] at hf
    obtain ⟨⟨hok, hdop, hne⟩, hsz, hneed⟩ := hall c (List.mem_cons_self ..)
    obtain ⟨s1, hrun1, hc1, hcb1⟩ := hok.encode_eq f (by omega) s hcb (fun h => by rw [hne] at h; cases h) (fun _ => hflag)
    rw [hdop] at hrun1
    have hflag1 : s1.isEndOfPdu = false := encodeDop_keeps_eop_false f _ _ s true s1 hrun1 hflag
    have hcur1 : s1.cursorByte = s.cursorByte + c.size := by rw [hc1.2.2.2.1, hok.enc_cursor]
    have hused : s1.cursorByte - s.cursorByte = c.size := by omega
    let s2 : EncState := if s1.cursorByte - s.cursorByte < n then padEnc (n - (s1.cursorByte - s.cursorByte)) s1 else s1
    have hs2 : s2 = if s1.cursorByte - s.cursorByte < n then padEnc (n - (s1.cursorByte - s.cursorByte)) s1 else s1 := rfl
    have hcb2 : s2.cursorBit = 0 := by rw [hs2]; split <;> simp [padEnc_cursorBit, hcb1]
    have hflag2 : s2.isEndOfPdu = false := by
      rw [hs2]; split
      · exact hflag1
      · exact hflag1
    have hc2 : SameCore s2 ((staticItemC n c).enc s) := by
      refine SameCore.trans ?_ (staticItemM_enc n c hok s hsz).symm
      rw [hs2, hused]
      split
      · exact padEnc_sameCore _ _ _ hc1
      · exact hc1
    obtain ⟨s3, hrun3, hc3, hcb3⟩ := ih m (fun x hx => hall x (List.mem_cons_of_mem _ hx)) f (by omega) s2 hcb2 hflag2
    refine ⟨s3, ?_, ?_, hcb3⟩
    · show encodeStaticItems _ n eop (f + 1) (c.sup :: DComps.sups cs) s true = _
      rw [encodeStaticItems_cons _ n eop f _ _ s s1 hrun1 (by omega) hcb1]
      exact hrun3
    · have hg : Good (Pair.list (cs.map (staticItemC n))) :=
        staticItemsM_good n cs (fun x hx => (hall x (List.mem_cons_of_mem _ hx)).1.1)
      simp only [List.map_cons, Pair.list, Pair.map, Pair.seq]
      exact hc3.trans (hg.core _ _ hc2)

theorem staticItemM_dec (n : Nat) (c : DComp) (hc : c.OkM true) (d : DecState) :
    (staticItemC n c).dec d = ((c.pair.dec d).1, { (c.pair.dec d).2 with cursorByte := d.cursorByte + n }) := by
  have hof := hc.dec_originFree d d.cursorByte
  have ho := hc.dec_origin d
  show ((c.pair.dec { d with origin := d.cursorByte }).1,
      ({ (c.pair.dec { d with origin := d.cursorByte }).2 with
          cursorByte := (c.pair.dec { d with origin := d.cursorByte }).2.origin + n, origin := d.origin } : DecState)) = _
  rw [hof]
  simp only []
  rw [← ho]

theorem staticItemM_fits (n : Nat) (c : DComp) (hc : c.OkM true) (d : DecState) (h : (staticItemC n c).fits d) : c.pair.fits d := by
  have h1 : c.pair.fits { d with origin := d.cursorByte } := h.1
  rw [hc.fits_originFree] at h1
  exact h1

/-- the static-field item loop of the decoder = the pure list of padded items -/
theorem decodeStaticItemsM_eq (item : Dop) (n : Nat) : ∀ (cs : List DComp) (m : Nat),
    (∀ c ∈ cs, c.itemOkM item ∧ c.EndOk ∧ c.need ≤ m) → ∀ (fuel : Nat), cs.length + m + 1 ≤ fuel →
    ∀ (d : DecState), d.cursorBit = 0 → (Pair.list (cs.map (staticItemC n))).fits d →
    decodeStaticItems item n fuel cs.length d true =
      .ok (((Pair.list (cs.map (staticItemC n))).dec d).1, ((Pair.list (cs.map (staticItemC n))).dec d).2) := by
  intro cs
  induction cs with
  | nil =>
    intro m _ fuel hf d _ _
    obtain ⟨f, rfl⟩ : ∃ f, fuel = f + 1 := ⟨fuel - 1, by omega⟩
    simp [decodeStaticItems, pure, run_pure, Pair.list, Pair.nil]
  | cons c cs ih =>
    intro m hall fuel hf d hcb hfit
    obtain ⟨f, rfl⟩ : ∃ f, fuel = f + 1 := ⟨fuel - 1, by simp only [List.length_cons] at hf; omega⟩
    simp only [List.length_cons] at hf
    obtain ⟨hitem, hend, hneed⟩ := hall c (List.mem_cons_self ..)
    have hok := hitem.1
    have hfit' : (staticItemC n c).fits d ∧ (Pair.list (cs.map (staticItemC n))).fits ((staticItemC n c).dec d).2 := hfit
    have h1 := hok.decode_eq f (by omega) d hcb (staticItemM_fits n c hok d hfit'.1) (hend.trivial hitem.2.2 d)
    rw [hitem.2.1] at h1
    have hcb1 : ((staticItemC n c).dec d).2.cursorBit = 0 := by
      rw [staticItemM_dec n c hok]; exact hok.dec_cursorBit d hcb
    have h2 := ih m (fun x hx => hall x (List.mem_cons_of_mem _ hx)) f (by omega) ((staticItemC n c).dec d).2 hcb1 hfit'.2
    rw [staticItemM_dec n c hok] at h2
    simp only [List.length_cons, decodeStaticItems, bind, pure, run_bind, run_getS, run_modifyS, run_pure, h1, h2]
    simp only [List.map_cons, Pair.list, Pair.map, Pair.seq, staticItemM_dec n c hok]

/-- **closure under STATIC-FIELD**: every item is a component over the item DOP that fits into ITEM-BYTE-SIZE -/
theorem DComp.staticFieldM_ok (n : Nat) (item : Dop) (cs : List DComp)
    (h : ∀ c ∈ cs, c.itemOkM item ∧ c.EndOk ∧ c.size ≤ n) : (DComp.staticField n item cs).Ok where
  good := ((staticItemsM_good n cs (fun c hc => (h c hc).1.1)).map _).inOrigin
  sup_ne_none := by simp [DComp.staticField]
  originFree := OriginFree.inOrigin _
  dec_originFree := fun _ _ => rfl
  fits_originFree := fun _ _ => rfl
  encode_eq := by
    intro fuel hf s hcb _
    obtain ⟨g, rfl⟩ : ∃ g, fuel = g + 1 := ⟨fuel - 1, by simp only [DComp.staticField] at hf; omega⟩
    obtain ⟨s2, hrun, hcore, hcb2⟩ := encodeStaticItemsM_eq item n s.isEndOfPdu cs (DComps.maxNeed cs)
      (fun c hc => ⟨(h c hc).1, (h c hc).2.2, DComps.maxNeed_ge cs c hc⟩) g (by simp only [DComp.staticField] at hf; omega)
      { s with isEndOfPdu := false } hcb rfl
    refine ⟨{ s2 with isEndOfPdu := s.isEndOfPdu }, ?_, ?_, hcb2⟩
    · simp only [DComp.staticField]
      rw [encodeDop_static_step g _ _ _ _ _ (by simp [DComps.sups])]
      rw [hrun]
    · have hg := staticItemsM_good n cs (fun c hc => (h c hc).1.1)
      have hof : OriginFree (Pair.list (cs.map (staticItemC n))) := OriginFree.list _ (by
        intro p hp
        obtain ⟨x, _, rfl⟩ := List.mem_map.mp hp
        exact OriginFree.inOrigin _)
      have h1 : SameCore { s with isEndOfPdu := false } s := ⟨rfl, rfl, rfl, rfl, rfl⟩
      have h2 := hcore.trans (hg.core _ _ h1)
      have h3 := h2.trans (hof.sameCore_inOrigin hg s)
      exact ⟨h3.1, h3.2.1, h3.2.2.1, h3.2.2.2.1, h3.2.2.2.2⟩
  enc_cursor := fun s =>
    staticItemsM_enc_cursor n cs (fun c hc => ⟨(h c hc).1.1, (h c hc).2.2⟩) { s with origin := s.cursorByte }
  dec_cursorBit := fun d hd => Pair.list_dec_cursorBit _ (by
    intro p hp d' hd'
    obtain ⟨x, hx, rfl⟩ := List.mem_map.mp hp
    rw [staticItemM_dec n x (h x hx).1.1]
    exact (h x hx).1.1.dec_cursorBit d' hd') { d with origin := d.cursorByte } hd
  dec_msg := fun d => Pair.list_dec_msg _ (by
    intro p hp d'
    obtain ⟨x, hx, rfl⟩ := List.mem_map.mp hp
    rw [staticItemM_dec n x (h x hx).1.1]
    exact (h x hx).1.1.dec_msg d') { d with origin := d.cursorByte }
  dec_origin := fun _ => rfl
  decode_eq := by
    intro fuel hf d hcb hfit _
    obtain ⟨g, rfl⟩ : ∃ g, fuel = g + 1 := ⟨fuel - 1, by simp only [DComp.staticField] at hf; omega⟩
    have hst : ({ d with origin := d.cursorByte, cursorBit := 0 } : DecState) = { d with origin := d.cursorByte } := by rw [← hcb]
    have hfit' : (Pair.list (cs.map (staticItemC n))).fits { d with origin := d.cursorByte } := hfit
    have hrun := decodeStaticItemsM_eq item n cs (DComps.maxNeed cs)
      (fun c hc => ⟨(h c hc).1, (h c hc).2.1, DComps.maxNeed_ge cs c hc⟩) g (by simp only [DComp.staticField] at hf; omega)
      { d with origin := d.cursorByte } hcb hfit'
    simp only [DComp.staticField, decodeDop, bind, pure, run_bind, run_getS, run_modifyS, run_pure, odxassert, hcb, decide_true,
      if_true]
    rw [hst, hrun]
    rfl


/-! ### MULTIPLEXER over a case structure that needs the flag cleared -/

/-- **closure under MULTIPLEXER, restricted components**: the content of the selected case is encoded with the flag of the
    multiplexer's state, so the multiplexer inherits the restriction of its case structure -/
theorem DComp.mux_okM (m : MuxLayout) (c : DComp) (mid : Bool) (hc : c.OkM mid) (hm : m.ok c.dop) : (DComp.mux m c).OkM mid := by
  obtain ⟨hk, hr, hesel, hdsel⟩ := hm
  have hgk : Good (Pair.ofObj m.keyObj (.int m.lo)) := Good.ofObj m.keyObj hk (.int m.lo) hr
  have hgk' : Good ((Pair.ofObj m.keyObj (.int m.lo)).guard (· = IVal.int m.lo)) := hgk.guard _ rfl
  have hG := Comp.ofValueM_ok "" (some m.muxBp) c mid hc (fun _ => True)
  exact {
    good := ((hgk'.seq (hc.good.atPos (some m.muxBp))).map _).inOrigin
    sup_ne_none := by simp [DComp.mux]
    originFree := OriginFree.inOrigin _
    dec_originFree := fun _ _ => rfl
    fits_originFree := fun _ _ => rfl
    encode_eq := by
      intro fuel hf s hcb heop hmid
      obtain ⟨f, rfl⟩ : ∃ f, fuel = f + 2 + 1 := ⟨fuel - 3, by simp only [DComp.mux] at hf; omega⟩
      let s2 : EncState := { s with origin := s.cursorByte }
      have hkey : encodeParam (f + 2) (.mk "" (some m.swBp) m.key.bitPos (.value m.keyDop none))
          (some (.atom (.int m.lo))) s2 true = .ok ((), encStep m.keyObj (.int m.lo) s2) :=
        encodeParam_obj m.keyObj hk (.int m.lo) hr f s2
      obtain ⟨s3, hrun3, hcore3⟩ := hG.encode_eq (f + 2) (by simp only [Comp.ofValue, DComp.mux] at hf ⊢; omega)
        (encStep m.keyObj (.int m.lo) s2) heop hmid True.intro
      have hrun3' : encodeParam (f + 2) (.mk "" (some m.muxBp) none (.value c.dop none)) (some c.sup)
          (encStep m.keyObj (.int m.lo) s2) true = .ok ((), s3) := hrun3
      have hcb3 : s3.cursorBit = 0 := encodeParam_cursorBit _ _ _ _ _ _ hrun3
      refine ⟨{ s3 with origin := s.origin }, ?_, ?_, hcb3⟩
      · simp only [DComp.mux]
        rw [encodeDop_mux_step (f + 2) _ _ _ _ _ _ _ _ _ hcb m.lo c.dop hesel]
        rw [hkey]
        simp only []
        rw [hrun3']
      · exact ⟨hcore3.1, hcore3.2.1, hcore3.2.2.1, hcore3.2.2.2.1, rfl⟩
    enc_cursor := by
      intro s
      show (c.pair.enc _).cursorByte = _
      rw [hc.enc_cursor]
      show s.cursorByte + m.muxBp + c.size = s.cursorByte + (m.muxBp + c.size)
      omega
    dec_cursorBit := fun d _ => hc.dec_cursorBit _ rfl
    dec_msg := fun d => by
      show (c.pair.dec _).2.msg = d.msg
      rw [hc.dec_msg]
      rfl
    dec_origin := fun _ => rfl
    decode_eq := by
      intro fuel hf d hcb hfit hpre
      obtain ⟨f, rfl⟩ : ∃ f, fuel = f + 2 + 1 := ⟨fuel - 3, by simp only [DComp.mux] at hf; omega⟩
      let d2 : DecState := { d with origin := d.cursorByte }
      have hfit' : (m.keyObj.fitsIn d2 ∧
            (decStep m.keyObj d2).1 = IVal.int m.lo) ∧
          (Comp.ofValue "" (some m.muxBp) c).pair.fits (decStep m.keyObj d2).2 := hfit
      obtain ⟨⟨⟨hkfit, hkdec⟩, hkval⟩, hcfit⟩ := hfit'
      have hkey : decodeParam (f + 2) (.mk "" (some m.swBp) m.key.bitPos (.value m.keyDop none)) d2 true =
          .ok (.atom (.int m.lo), (decStep m.keyObj d2).2) := by
        have := decodeParam_obj m.keyObj hk f d2 hkfit hkdec
        rw [hkval] at this
        exact this
      have hcont := hG.decode_eq (f + 2) (by simp only [Comp.ofValue, DComp.mux] at hf ⊢; omega)
        (decStep m.keyObj d2).2 rfl hcfit hpre
      have hcont' : decodeParam (f + 2) (.mk "" (some m.muxBp) none (.value c.dop none)) (decStep m.keyObj d2).2 true = _ := hcont
      simp only [DComp.mux]
      rw [decodeDop_mux_step (f + 2) _ _ _ _ _ _ _ m.lo _ hkey m.caseName c.dop hdsel]
      rw [decodeParam_explicit_cursor, hcont']
      rfl }


end OdxVerif.Codec
