import OdxVerif.Proofs.CompBitsMsg
/-! Re-encoding for the compositional tier (task W12, part B): a PDU whose bits are exactly the layout of a fully supplied
    description (`Desc.full`: the value tree a decoder returns — an entry for every parameter) is reproduced by the pure
    encoder, without overlap warning (`descs_reencode_pure`); for such a description the dictionary handed to the encoder is
    the dictionary the decoder returns (`Descs.supplied_eq_decoded`). -/
namespace OdxVerif.Codec
open OdxVerif.Bits OdxVerif.OdxM

mutual
/-- every parameter's value is supplied — the shape of a decoded value tree (constants and defaulted values included) -/
def Desc.full : Desc → Prop
  | .value _ _ => True
  | .valueDefault _ _ sup => sup.isSome = true
  | .const _ _ b => b = true
  | .physConst _ _ b => b = true
  | .struct _ _ kids => Descs.full kids
  | .staticField _ _ _ _ items => Descss.full items
  | .dynLenField _ _ _ _ items => Descss.full items
  | .eopField _ _ _ _ _ items => Descss.full items
  | .mux _ _ _ kids => Descs.full kids
def Descs.full : List Desc → Prop
  | [] => True
  | d :: ds => d.full ∧ Descs.full ds
def Descss.full : List (List Desc) → Prop
  | [] => True
  | k :: ks => Descs.full k ∧ Descss.full ks
end

mutual
theorem Desc.sup_eq_val : (d : Desc) → d.full → d.comp.sup = some d.comp.pair.val
  | .value o v, _ => rfl
  | .valueDefault o dv sup, h => by
    simp only [Desc.full] at h
    cases sup with
    | none => cases h
    | some v => rfl
  | .const o v b, h => by
    simp only [Desc.full] at h
    subst h; rfl
  | .physConst o v b, h => by
    simp only [Desc.full] at h
    subst h; rfl
  | .struct name bp kids, h => by
    simp only [Desc.full] at h
    have ih := Descs.values_eq_val kids h
    show some (PVal.dict (Comps.values (Descs.comps kids))) = some (PVal.dict (Comps.pair (Descs.comps kids)).val)
    rw [ih]
  | .staticField name bp n shape items, h => by
    simp only [Desc.full] at h
    have ih := Descss.sups_eq_vals items h
    show some (PVal.list (DComps.sups ((Descss.comps items).map DComp.struct))) =
      some (DComp.staticField n (.struct none shape) ((Descss.comps items).map DComp.struct)).pair.val
    rw [DComp.staticField_val, ih]
  | .dynLenField name bp l shape items, h => by
    simp only [Desc.full] at h
    have ih := Descss.sups_eq_vals items h
    show some (PVal.list (DComps.sups ((Descss.comps items).map DComp.struct))) =
      some (DComp.dynLenField l (.struct none shape) ((Descss.comps items).map DComp.struct)).pair.val
    rw [DComp.dynLenField_val, ih]
  | .eopField name bp mn mx shape items, h => by
    simp only [Desc.full] at h
    have ih := Descss.sups_eq_vals items h
    show some (PVal.list (DComps.sups ((Descss.comps items).map DComp.struct))) =
      some (DComp.eopField mn mx (.struct none shape) ((Descss.comps items).map DComp.struct)).pair.val
    rw [DComp.eopField_val, ih]
  | .mux name bp m kids, h => by
    simp only [Desc.full] at h
    have ih := Descs.values_eq_val kids h
    show some (PVal.pair m.caseName (PVal.dict (Comps.values (Descs.comps kids)))) =
      some (PVal.pair m.caseName (PVal.dict (Comps.pair (Descs.comps kids)).val))
    rw [ih]
theorem Descs.values_eq_val : (ds : List Desc) → Descs.full ds → Comps.values (Descs.comps ds) = (Comps.pair (Descs.comps ds)).val
  | [], _ => rfl
  | d :: ds, h => by
    simp only [Descs.full] at h
    have h1 := Desc.sup_eq_val d h.1
    have h2 := Descs.values_eq_val ds h.2
    simp only [Descs.comps, Comps.values, Comps.pair_val_cons, h1, h2]
theorem Descss.sups_eq_vals : (items : List (List Desc)) → Descss.full items →
    DComps.sups ((Descss.comps items).map DComp.struct) = DComps.vals ((Descss.comps items).map DComp.struct)
  | [], _ => rfl
  | k :: ks, h => by
    simp only [Descss.full] at h
    have h1 := Descs.values_eq_val k h.1
    have h2 := Descss.sups_eq_vals ks h.2
    simp only [DComps.sups, DComps.vals] at h2 ⊢
    simp only [Descss.comps, List.map_cons, h2]
    congr 1
    show PVal.dict (Comps.values (Descs.comps k)) = PVal.dict (Comps.pair (Descs.comps k)).val
    rw [h1]
end

/-- for a fully supplied description, what is handed to `encode` is what `decode` returns -/
theorem Descs.supplied_eq_decoded (ds : List Desc) (h : Descs.full ds) : Descs.supplied ds = Descs.decoded ds :=
  Descs.values_eq_val ds h

/-- **re-encoding, pure level**: if every entry of the layout reads in `pdu` as its prescribed pattern, the entries are
    pairwise disjoint, claim every bit of `pdu`, and nothing the encoder touches lies beyond `pdu`, then the pure encoder
    produces `pdu`, without overlap warning -/
theorem descs_reencode_pure (ds : List Desc) (hwf : Descs.wf ds) (pdu : Bytes) (hall : AllBytes pdu)
    (hbits : ∀ e ∈ Descs.layout ds, ∀ j, j < e.bl → getBit pdu (absBit e.pos e.k e.hl (j + e.bp)) = e.raw.testBit j)
    (hdisj : LDisj (Descs.layout ds)) (hcover : ∀ a, a < 8 * pdu.length → LClaims (Descs.layout ds) a)
    (hext : Descs.extent ds ≤ pdu.length) :
    ((Comps.pair (Descs.comps ds)).enc {}).msg = pdu ∧ ((Comps.pair (Descs.comps ds)).enc {}).warn = 0 := by
  have hw := (descs_pure_nowarn_iff ds hwf).mpr hdisj
  refine ⟨?_, hw⟩
  have hlen := descs_pure_length ds hwf
  have hF := Descs.foot ds hwf
  have hge : pdu.length ≤ Descs.extent ds := by
    cases hlt : decide (pdu.length ≤ Descs.extent ds) with
    | true => exact of_decide_eq_true hlt
    | false =>
      exfalso
      have hlt' := of_decide_eq_false hlt
      obtain ⟨e, he, hc⟩ := hcover (8 * Descs.extent ds) (by omega)
      obtain ⟨hewf, hle⟩ := hF.within 0 0 e he
      have := (Ent.claims_bytes e hewf _ hc).2
      have hle' : e.pos + e.k ≤ Descs.extent ds := hle
      omega
  apply eq_of_getBit _ _ (descs_pure_allBytes ds hwf) hall (by omega)
  intro a
  by_cases hcl : LClaims (Descs.layout ds) a
  · obtain ⟨e, he, j, hj, rfl⟩ := hcl
    rw [descs_pure_inside ds hwf hw e he j hj]
    exact (hbits e he j hj).symm
  · rw [descs_pure_outside ds hwf a hcl]
    have hnot : ¬ a < 8 * pdu.length := fun h => hcl (hcover a h)
    unfold getBit
    rw [List.getD_eq_getElem?_getD, List.getElem?_eq_none (by omega)]
    simp

end OdxVerif.Codec
