import OdxVerif.Model.Atomic
/-! Number representations of `A_INT32`: the encoder accepts exactly the representable range, the raw value
    fits the bit length and the decoder's interpretation inverts it. Core Lean only. -/
namespace OdxVerif.Codec
open OdxVerif.Bits OdxVerif.OdxM

theorem bitLength_le_iff (n bl : Nat) : bitLength n ≤ bl ↔ n < 2 ^ bl := by
  unfold bitLength
  split
  · subst_vars; simp [Nat.two_pow_pos]
  · rename_i hn
    rw [show Nat.log2 n + 1 ≤ bl ↔ Nat.log2 n < bl from Nat.succ_le_iff]
    exact (Nat.log2_lt hn)

theorem pow_pred_double (bl : Nat) (h : 1 ≤ bl) : (2:Int) ^ bl = 2 * 2 ^ (bl - 1) := by
  have : bl = (bl - 1) + 1 := by omega
  conv => lhs; rw [this, Int.pow_succ]
  omega

def int32InRange (enc : Option Enc) (bl : Nat) (v : Int) : Prop :=
  if enc = none ∨ enc = some .twoc then -(2 ^ (bl - 1) : Int) ≤ v ∧ v < 2 ^ (bl - 1)
  else -(2 ^ (bl - 1) : Int) < v ∧ v < 2 ^ (bl - 1)

theorem rangeOk_iff (enc : Option Enc) (bl : Nat) (hbl : 1 ≤ bl) (v : Int) :
    int32RangeOk enc bl v = true ↔ int32InRange enc bl v := by
  have hpos : (0:Int) < 2 ^ (bl - 1) := Int.pow_pos (by decide)
  unfold int32RangeOk int32InRange
  have h1 : bl > 0 := by omega
  simp only [h1, if_true, Bool.and_eq_true, decide_eq_true_eq]
  split <;> omega

/-- the raw value of a value in range, per encoding -/
theorem int32Raw_spec (enc : Option Enc) (hk : int32Known enc = true) (bl : Nat) (hbl : 1 ≤ bl) (v : Int)
    (hr : int32InRange enc bl v) :
    0 ≤ int32Raw enc bl v ∧ int32Raw enc bl v < 2 ^ bl ∧ int32OfRaw enc bl (int32Raw enc bl v).toNat = v := by
  have hp : (2:Int) ^ bl = 2 * 2 ^ (bl - 1) := pow_pred_double bl hbl
  have hpos : (0:Int) < 2 ^ (bl - 1) := Int.pow_pos (by decide)
  have hc1 : ((2 ^ (bl - 1) : Nat) : Int) = (2:Int) ^ (bl - 1) := by simp
  have hc2 : ((2 ^ bl : Nat) : Int) = (2:Int) ^ bl := by simp
  have h1 : bl > 0 := by omega
  unfold int32Known at hk
  unfold int32InRange at hr
  simp only [Bool.or_eq_true, decide_eq_true_eq] at hk
  rcases hk with ((rfl | rfl) | rfl) | rfl
  all_goals
    simp only [int32Raw, int32OfRaw, h1, if_true, Option.some.injEq, reduceCtorEq, or_true, or_false, if_false] at hr ⊢
  all_goals
    by_cases hv : v ≥ 0 <;> simp only [hv, if_true, if_false]
  all_goals
    refine ⟨?_, ?_, ?_⟩ <;> (try trivial) <;> (try split) <;> omega


theorem rawOfInt32_ok (enc : Option Enc) (hk : int32Known enc = true) (bl : Nat) (hbl : 1 ≤ bl) (v : Int)
    (hr : int32InRange enc bl v) (s : EncState) :
    rawOfInt32 enc bl v s true = .ok ((int32Raw enc bl v).toNat, s) := by
  obtain ⟨h0, h1, _⟩ := int32Raw_spec enc hk bl hbl v hr
  have hro := (rangeOk_iff enc bl hbl v).mpr hr
  have hlt : (int32Raw enc bl v).toNat < 2 ^ bl := by
    have : ((2 ^ bl : Nat) : Int) = (2:Int) ^ bl := by simp
    omega
  have hbl2 : ¬ (int32Raw enc bl v < 0 ∨ bitLength (int32Raw enc bl v).toNat > bl) := by
    have := (bitLength_le_iff (int32Raw enc bl v).toNat bl).mpr hlt
    omega
  simp only [rawOfInt32, hk, hro, Bool.not_true, Bool.and_false, Bool.false_eq_true, if_false, hbl2,
    bind, OdxM.bind, pure, OdxM.pure]

theorem rawOfInt32_reject (enc : Option Enc) (hk : int32Known enc = true) (bl : Nat) (hbl : 1 ≤ bl) (v : Int)
    (hr : ¬ int32InRange enc bl v) (s : EncState) :
    rawOfInt32 enc bl v s true = .error (.encode, s) := by
  have hro : int32RangeOk enc bl v = false := by
    cases h : int32RangeOk enc bl v with
    | false => rfl
    | true => exact absurd ((rangeOk_iff enc bl hbl v).mp h) hr
  simp only [rawOfInt32, hk, hro, Bool.not_false, Bool.and_true, if_true, bind, OdxM.bind, odxraise]

/-- raw patterns with a unique reading: all of them for two's complement; not "negative zero" for
    one's complement (all ones) and sign-magnitude (sign bit only) -/
def canonRaw (enc : Option Enc) (bl raw : Nat) : Prop :=
  raw < 2 ^ bl ∧ (enc = some .onec → raw ≠ 2 ^ bl - 1) ∧ (enc = some .sm → raw ≠ 2 ^ (bl - 1))

/-- **C03, atomic.** Interpreting a canonical raw pattern and encoding the result again gives the same raw
    pattern, and the value is in the encoder's accepted range. -/
theorem int32_raw_roundtrip (enc : Option Enc) (hk : int32Known enc = true) (bl : Nat) (hbl : 1 ≤ bl) (raw : Nat)
    (hc : canonRaw enc bl raw) :
    int32InRange enc bl (int32OfRaw enc bl raw) ∧ (int32Raw enc bl (int32OfRaw enc bl raw)).toNat = raw := by
  have hp : (2:Int) ^ bl = 2 * 2 ^ (bl - 1) := pow_pred_double bl hbl
  have hpn : (2:Nat) ^ bl = 2 * 2 ^ (bl - 1) := by
    have : bl = (bl - 1) + 1 := by omega
    conv => lhs; rw [this, Nat.pow_succ]
    omega
  have hpos : (0:Int) < 2 ^ (bl - 1) := Int.pow_pos (by decide)
  have hc1 : ((2 ^ (bl - 1) : Nat) : Int) = (2:Int) ^ (bl - 1) := by simp
  have hc2 : ((2 ^ bl : Nat) : Int) = (2:Int) ^ bl := by simp
  have h1 : bl > 0 := by omega
  obtain ⟨hlt, h1c, hsm⟩ := hc
  unfold int32Known at hk
  simp only [Bool.or_eq_true, decide_eq_true_eq] at hk
  rcases hk with ((rfl | rfl) | rfl) | rfl
  all_goals
    simp only [int32InRange, int32Raw, int32OfRaw, h1, if_true, Option.some.injEq, reduceCtorEq, or_true, or_false,
      if_false, forall_const, false_implies, true_or] at h1c hsm ⊢
  all_goals
    by_cases hs : raw < 2 ^ (bl - 1) <;> simp only [hs, if_true, if_false]
  all_goals
    refine ⟨?_, ?_⟩ <;> (try split) <;> omega


end OdxVerif.Codec
