import OdxVerif.Proofs.CompRes
import OdxVerif.Proofs.CompBits2Re
/-! Compositional components, extension W22 (2): the bit layout of `Desc2R` — `Lay2.skip` (W17: defined, not used) wired in.
    A RESERVED / NRC-CONST parameter has NO entry in the layout: it claims no bit and writes no bit; only the cursor and the
    message length (`ext`) move behind the object.  `Desc2R.foot`: the second footprint law holds for every `Desc2R`; the
    message-level consequences (`descs2R_pure_*`) as in `Proofs/CompBits2Msg.lean`; `field_reads_zero`: a bit field none of whose
    bits is set reads as 0 — with `descs2R_pure_outside`: a RESERVED object none of whose bits is claimed by an entry of the
    layout decodes to 0; and the re-encoding statement (`descs2R_reencode_pure`) with the coverage hypothesis replaced by
    "every bit is claimed by an entry or zero". -/
namespace OdxVerif.Codec
open OdxVerif.Bits OdxVerif.OdxM

/-- a skipped object has the footprint `Lay2.skip`: no entry -/
theorem Foot2.skip (o : Obj) (v : PVal) : Foot2 (skipPair o v).enc (Lay2.skip o) :=
  (foot_skip o v).to2 _ (fun _ _ => rfl) (fun _ _ => rfl) (fun _ _ => rfl)

mutual
/-- **the layout of a `Desc2R`**: `Desc2.lay`; RESERVED / NRC-CONST: `Lay2.skip` (no entry); STRUCTURE: as in `Desc2.lay` -/
def Desc2R.lay : Desc2R → Lay2
  | .base d => d.lay
  | .reserved n bp bitp bl _ => Lay2.skip (reservedObj n bp bitp bl)
  | .nrcConst o _ _ => Lay2.skip o
  | .u16le u _ bs => Lay2.obj .value u.name u.sh (u.sh.specRepr (.bytes bs))
  | .struct _ bp bso kids => (Lay2.sized bso (Descs2R.lay kids)).atPos bp
def Descs2R.lay : List Desc2R → Lay2
  | [] => Lay2.nil
  | d :: ds => d.lay.seq (Descs2R.lay ds)
end

mutual
/-- **the second footprint law holds for every well-formed `Desc2R`** -/
theorem Desc2R.foot : (x : Desc2R) → x.wf → Foot2 x.mc.c.pair.enc x.lay
  | .base d, h => by
    simp only [Desc2R.wf] at h
    exact Desc2.foot d (Or.inl h)
  | .reserved n bp bitp bl r, _ => Foot2.skip (reservedObj n bp bitp bl) (.atom (.int r))
  | .nrcConst o _ r, _ => Foot2.skip o (.atom r)
  | .u16le u cps bs, h => by
    simp only [Desc2R.wf] at h
    exact Comp.ofU16LE_foot u cps bs h.1 h.2
  | .struct name bp bso kids, h => by
    simp only [Desc2R.wf] at h
    exact Foot2.atPos bp (foot2_structO bso _ _ (Descs2R.foot kids h.1))
theorem Descs2R.foot : (ds : List Desc2R) → Descs2R.wf ds → Foot2 (Comps.pair (Descs2R.comps ds)).enc (Descs2R.lay ds)
  | [], _ => Foot2.nil
  | d :: ds, h => by
    simp only [Descs2R.wf] at h
    exact Foot2.seq (ea := d.mc.c.pair.enc) (eb := (Comps.pair (Descs2R.comps ds)).enc) (Desc2R.foot d h.1) (Descs2R.foot ds h.2)
end

theorem Desc2R.footTop (trig : Option Bytes) (x : Desc2R) (h : x.wfTop trig) : Foot2 x.mc.c.pair.enc x.lay := by
  cases x with
  | base d =>
    have hd : d.wf ∨ ∃ n bp rp bl t, d = .matching n bp rp bl t ∧ AllBytes t := by
      rcases Desc2.wfTop_cases trig d h with h' | ⟨n, bp, rp, bl, t, he, _, hall, _⟩
      · exact Or.inl h'
      · exact Or.inr ⟨n, bp, rp, bl, t, he, hall⟩
    exact Desc2.foot d hd
  | reserved n bp bitp bl r => exact Desc2R.foot _ h
  | nrcConst o values r => exact Desc2R.foot _ h
  | u16le u cps bs => exact Desc2R.foot _ h
  | struct name bp bso kids => exact Desc2R.foot _ h

theorem Descs2R.footTop (trig : Option Bytes) : (ds : List Desc2R) → Descs2R.wfTop trig ds →
    Foot2 (Comps.pair (Descs2R.comps ds)).enc (Descs2R.lay ds)
  | [], _ => Foot2.nil
  | d :: ds, h =>
    Foot2.seq (ea := d.mc.c.pair.enc) (eb := (Comps.pair (Descs2R.comps ds)).enc) (Desc2R.footTop trig d h.1)
      (Descs2R.footTop trig ds h.2)

/-! ### the message level -/

def Descs2R.layout (ds : List Desc2R) : List Ent2 := (Descs2R.lay ds).ents 0 0
def Descs2R.extent (ds : List Desc2R) : Nat := (Descs2R.lay ds).ext 0 0
def Descs2R.padOk (ds : List Desc2R) : Prop := PadOk (Descs2R.layout ds) (fun _ => False)

/-- strict `encodeMessage` = the pure encoder from the empty state -/
theorem descs2R_encodeMessage (trig : Option Bytes) (ds : List Desc2R) (hok : Descs2R.ok trig ds) :
    encodeMessage none (Descs2R.params ds) (.dict (Descs2R.supplied ds)) trig true =
      .ok (((Comps.pair (Descs2R.comps ds)).enc {}).msg, ((Comps.pair (Descs2R.comps ds)).enc {}).warn) := by
  obtain ⟨hwf, hn, hlast, hmid, hneed⟩ := hok
  have hokAll := Descs2R.okAllTop trig ds hwf
  let s0 : EncState := { trig := trig, isEndOfPdu := true }
  obtain ⟨s1, hrun, hcore, _⟩ := DComp.structM_encode_eq (ModelInv.top trig) (Descs2R.mcs ds) hokAll hn hlast modelFuel hneed
    s0 rfl (fun _ => rfl) (fun h => by rw [show MComps.lastMid (Descs2R.mcs ds) = false from hmid] at h; cases h)
    ⟨rfl, Nat.le_refl _⟩
  have hrun' : encodeDop modelFuel (.struct none (Comps.toParams (Descs2R.comps ds))) (.dict (Comps.values (Descs2R.comps ds)))
      { trig := trig, isEndOfPdu := true } true = .ok ((), s1) := hrun
  unfold encodeMessage Descs2R.params Descs2R.supplied
  rw [hrun']
  have hs0 : SameCore ({ s0 with origin := s0.cursorByte } : EncState) {} := ⟨rfl, rfl, rfl, rfl, rfl⟩
  have h2 := (MComps.good _ hokAll).core _ _ hs0
  have hm : s1.msg = ((Comps.pair (Descs2R.comps ds)).enc {}).msg := hcore.1.trans h2.1
  have hw : s1.warn = ((Comps.pair (Descs2R.comps ds)).enc {}).warn := hcore.2.2.1.trans h2.2.2.1
  simp only [hm, hw]

theorem padOkR_empty_state (ds : List Desc2R) :
    PadOk (Descs2R.layout ds) (fun a => getBit ({} : EncState).used a = true) ↔ Descs2R.padOk ds :=
  PadOk_congr _ _ _ (fun a => by
    show getBit [] a = true ↔ False
    rw [getBit_nil]; simp)

theorem descs2R_pure_nowarn_of (trig : Option Bytes) (ds : List Desc2R) (hwf : Descs2R.wfTop trig ds)
    (hd : LDisj ((Descs2R.layout ds).map Ent2.geo)) : ((Comps.pair (Descs2R.comps ds)).enc {}).warn = 0 :=
  (Descs2R.footTop trig ds hwf).nowarn_of {} clean_empty hd (LFree_nil_used _)

theorem descs2R_pure_disj_of (trig : Option Bytes) (ds : List Desc2R) (hwf : Descs2R.wfTop trig ds)
    (hw : ((Comps.pair (Descs2R.comps ds)).enc {}).warn = 0) (hp : Descs2R.padOk ds) :
    LDisj ((Descs2R.layout ds).map Ent2.geo) :=
  ((Descs2R.footTop trig ds hwf).disj_of {} clean_empty hw ((padOkR_empty_state ds).mpr hp)).1

theorem descs2R_pure_length (trig : Option Bytes) (ds : List Desc2R) (hwf : Descs2R.wfTop trig ds) :
    ((Comps.pair (Descs2R.comps ds)).enc {}).msg.length = Descs2R.extent ds := by
  have := (Descs2R.footTop trig ds hwf).length {}
  rw [this]
  show max 0 _ = _
  rw [Nat.zero_max]
  rfl

theorem descs2R_pure_inside (trig : Option Bytes) (ds : List Desc2R) (hwf : Descs2R.wfTop trig ds)
    (hd : LDisj ((Descs2R.layout ds).map Ent2.geo)) :
    ∀ e ∈ Descs2R.layout ds, ∀ j, j < e.bl →
      getBit ((Comps.pair (Descs2R.comps ds)).enc {}).msg (absBit e.pos e.k e.hl (j + e.bp)) = e.raw.testBit j := by
  intro e he j hj
  exact (Descs2R.footTop trig ds hwf).inside {} clean_empty hd (LFree_nil_used _) e.geo (List.mem_map.mpr ⟨e, he, rfl⟩) j hj

theorem descs2R_pure_outside (trig : Option Bytes) (ds : List Desc2R) (hwf : Descs2R.wfTop trig ds) (a : Nat)
    (h : ∀ e ∈ Descs2R.layout ds, ¬ e.claims a) : getBit ((Comps.pair (Descs2R.comps ds)).enc {}).msg a = false := by
  rw [(Descs2R.footTop trig ds hwf).outside {} a (by
    rintro ⟨e, he, hc⟩
    obtain ⟨x, hx, rfl⟩ := List.mem_map.mp he
    exact h x hx hc)]
  exact getBit_nil a

theorem descs2R_pure_cursor (trig : Option Bytes) (ds : List Desc2R) (hwf : Descs2R.wfTop trig ds) :
    Descs2R.endCursor ds = (Descs2R.lay ds).cur 0 0 := by
  rw [← (Descs2R.footTop trig ds hwf).cursor {}]
  exact (MComps.enc_cursor (Descs2R.mcs ds) (Descs2R.okAllTop trig ds hwf) {}).symm

theorem descs2R_pure_allBytes (trig : Option Bytes) (ds : List Desc2R) (hwf : Descs2R.wfTop trig ds) :
    AllBytes ((Comps.pair (Descs2R.comps ds)).enc {}).msg :=
  (MComps.good _ (Descs2R.okAllTop trig ds hwf)).allBytes {} (by intro b hb; cases hb)

/-! ### unset bits read as zero -/

/-- a bit field (`bl` bits at bit `bp` of the `(bl + bp + 7) / 8` bytes from `pos`, either byte order) none of whose bits is set
    reads as 0 -/
theorem field_reads_zero (m : Bytes) (h : AllBytes m) (pos bl bp : Nat) (hl : Bool) (hlen : pos + (bl + bp + 7) / 8 ≤ m.length)
    (hz : ∀ j, j < bl → getBit m (absBit pos ((bl + bp + 7) / 8) hl (j + bp)) = false) :
    readNum m pos ((bl + bp + 7) / 8) hl / 2 ^ bp % 2 ^ bl = 0 := by
  apply Nat.eq_of_testBit_eq
  intro j
  rw [Nat.testBit_mod_two_pow, Nat.testBit_div_two_pow, testBit_readNum _ h _ _ _ _ hlen]
  by_cases hj : j < bl
  · simp [hj, hz j hj]
  · simp [hj]

/-- **a RESERVED object none of whose bits is set decodes to 0** -/
theorem reserved_reads_zero (n : String) (bp bitp : Option Nat) (bl : Nat) (d : DecState) (hall : AllBytes d.msg)
    (hlen : (reservedObj n bp bitp bl).pos d.origin d.cursorByte + (reservedObj n bp bitp bl).k ≤ d.msg.length)
    (hz : ∀ j, j < bl → getBit d.msg (absBit ((reservedObj n bp bitp bl).pos d.origin d.cursorByte) (reservedObj n bp bitp bl).k false
      (j + bitp.getD 0)) = false) :
    (decStep (reservedObj n bp bitp bl) d).1 = .int 0 := by
  have h0 := field_reads_zero d.msg hall ((reservedObj n bp bitp bl).pos d.origin d.cursorByte) bl (bitp.getD 0) false hlen hz
  show IVal.int (Int.ofNat (readNum d.msg _ ((bl + bitp.getD 0 + 7) / 8) false / 2 ^ (bitp.getD 0) % 2 ^ bl)) = _
  rw [h0]
  rfl

/-! ### re-encoding -/

/-- **re-encoding, pure level, with unclaimed bits**: every entry of the layout reads in `pdu` as its prescribed pattern, the
    entries are pairwise disjoint, every bit of `pdu` that no entry claims (in particular: the RESERVED bits nobody overlaps) is
    ZERO, and `pdu` is exactly as long as the layout's extent (which includes the skipped objects) ⇒ the pure encoder produces
    `pdu`, without overlap warning -/
theorem descs2R_reencode_pure (trig : Option Bytes) (ds : List Desc2R) (hwf : Descs2R.wfTop trig ds) (pdu : Bytes) (hall : AllBytes pdu)
    (hbits : ∀ e ∈ Descs2R.layout ds, ∀ j, j < e.bl → getBit pdu (absBit e.pos e.k e.hl (j + e.bp)) = e.raw.testBit j)
    (hdisj : LDisj ((Descs2R.layout ds).map Ent2.geo))
    (hzero : ∀ a, (∀ e ∈ Descs2R.layout ds, ¬ e.claims a) → getBit pdu a = false)
    (hext : pdu.length = Descs2R.extent ds) :
    ((Comps.pair (Descs2R.comps ds)).enc {}).msg = pdu ∧ ((Comps.pair (Descs2R.comps ds)).enc {}).warn = 0 := by
  have hw := descs2R_pure_nowarn_of trig ds hwf hdisj
  refine ⟨?_, hw⟩
  have hlen := descs2R_pure_length trig ds hwf
  apply eq_of_getBit _ _ (descs2R_pure_allBytes trig ds hwf) hall (by omega)
  intro a
  by_cases hcl : ∃ e ∈ Descs2R.layout ds, e.claims a
  · obtain ⟨e, he, j, hj, rfl⟩ := hcl
    have := descs2R_pure_inside trig ds hwf hdisj e he j hj
    rw [← hbits e he j hj] at this
    exact this
  · rw [descs2R_pure_outside trig ds hwf a (fun e he hc => hcl ⟨e, he, hc⟩), hzero a (fun e he hc => hcl ⟨e, he, hc⟩)]

end OdxVerif.Codec
