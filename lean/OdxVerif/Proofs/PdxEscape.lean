import OdxVerif.Model.Pdx
/-! # Escaping round trip (C11, part A): `markupsafe.escape` followed by XML reference decoding is the identity -/
namespace OdxVerif.Pdx

theorem escape_cons (c : Nat) (s : List Nat) : escape (c :: s) = escChar c ++ escape s := by
  simp [escape]

/-- one escaped code point followed by anything decodes to that code point followed by the rest -/
theorem unescape_escChar_append (c : Nat) (t : List Nat) :
    unescape (escChar c ++ t) = (unescape t).map (c :: ·) := by
  unfold escChar
  split
  · subst c; simp [unescape]
  split
  · subst c; simp [unescape]
  split
  · subst c; simp [unescape]
  split
  · subst c; simp [unescape]
  split
  · subst c; simp [unescape]
  · rw [List.singleton_append]; conv => lhs; rw [unescape.eq_def]
    simp [*]

/-- **every** string survives escaping followed by reference decoding -/
theorem unescape_escape (s : List Nat) : unescape (escape s) = some s := by
  induction s with
  | nil => simp [escape, unescape]
  | cons c s ih => rw [escape_cons, unescape_escChar_append, ih]; rfl

theorem escape_injective {a b : List Nat} (h : escape a = escape b) : a = b := by
  have := unescape_escape a
  rw [h, unescape_escape] at this
  exact (Option.some.inj this).symm

/-! ### what the escaped text consists of -/

theorem mem_escChar {c x : Nat} (h : x ∈ escChar c) :
    x = c ∨ x ∈ [38, 97, 109, 112, 59, 108, 116, 103, 35, 51, 52, 57] := by
  unfold escChar at h
  repeat' split at h
  all_goals simp at h ⊢; omega

theorem mem_escape {s : List Nat} {x : Nat} (h : x ∈ escape s) :
    x ∈ s ∨ x ∈ [38, 97, 109, 112, 59, 108, 116, 103, 35, 51, 52, 57] := by
  simp only [escape, List.mem_flatMap] at h
  obtain ⟨c, hc, hx⟩ := h
  rcases mem_escChar hx with rfl | h
  · exact .inl hc
  · exact .inr h

theorem not_mem_escChar_34 (c : Nat) : 34 ∉ escChar c := by
  unfold escChar
  repeat' split
  all_goals simp; try omega

theorem not_mem_escape_34 (s : List Nat) : 34 ∉ escape s := by
  simp only [escape, List.mem_flatMap, not_exists, not_and]
  exact fun c _ => not_mem_escChar_34 c

theorem not_mem_escChar_62 (c : Nat) : 62 ∉ escChar c := by
  unfold escChar
  repeat' split
  all_goals simp; try omega

theorem not_mem_escape_62 (s : List Nat) : 62 ∉ escape s := by
  simp only [escape, List.mem_flatMap, not_exists, not_and]
  exact fun c _ => not_mem_escChar_62 c

theorem normEol_eq_self {t : List Nat} (h : 13 ∉ t) : normEol t = t := by
  unfold normEol
  induction t with
  | nil => rfl
  | cons c t ih =>
    simp only [List.mem_cons, not_or] at h
    have hc : c ≠ 13 := fun e => h.1 e.symm
    simp [normEolAux, hc, ih h.2]

theorem all_xmlChar_escape {s : List Nat} (h : ∀ c ∈ s, xmlChar c = true) : (escape s).all xmlChar = true := by
  rw [List.all_eq_true]
  intro x hx
  rcases mem_escape hx with hx | hx
  · exact h x hx
  · simp only [List.mem_cons, List.not_mem_nil, or_false] at hx
    rcases hx with rfl | rfl | rfl | rfl | rfl | rfl | rfl | rfl | rfl | rfl | rfl | rfl <;> decide

theorem not_mem_escape_of {s : List Nat} {x : Nat} (hs : x ∉ s)
    (hx : x ∉ [38, 97, 109, 112, 59, 108, 116, 103, 35, 51, 52, 57]) : x ∉ escape s :=
  fun h => (mem_escape h).elim hs hx

theorem hasCdataEnd_eq_false {t : List Nat} (h : 62 ∉ t) : hasCdataEnd t = false := by
  induction t with
  | nil => rfl
  | cons c t ih =>
    simp only [List.mem_cons, not_or] at h
    have ht : (t.take 2 == [93, 62]) = false := by
      apply Bool.eq_false_iff.mpr
      intro e
      have e' : t.take 2 = [93, 62] := by simpa using e
      exact h.2 (List.mem_of_mem_take (e' ▸ (by simp : 62 ∈ [93, 62])))
    simp [hasCdataEnd, ht, ih h.2]

/-- character data: every string of XML characters without CR survives -/
theorem decodeText_escape (s : List Nat) (h : ∀ c ∈ s, xmlChar c = true ∧ c ≠ 13) :
    decodeText (escape s) = some s := by
  have h13 : 13 ∉ escape s := not_mem_escape_of (fun m => (h 13 m).2 rfl) (by decide)
  have h62 := not_mem_escape_62 s
  simp [decodeText, all_xmlChar_escape (fun c hc => (h c hc).1), normEol_eq_self h13, hasCdataEnd_eq_false h62,
    unescape_escape]

/-- attribute values written with `|e`: every string of XML characters without CR, LF, TAB survives -/
theorem decodeAttr_escape (s : List Nat) (h : ∀ c ∈ s, xmlChar c = true ∧ c ≠ 13 ∧ c ≠ 10 ∧ c ≠ 9) :
    decodeAttr (escape s) = some s := by
  have h13 : 13 ∉ escape s := not_mem_escape_of (fun m => (h 13 m).2.1 rfl) (by decide)
  have h10 : 10 ∉ escape s := not_mem_escape_of (fun m => (h 10 m).2.2.1 rfl) (by decide)
  have h9 : 9 ∉ escape s := not_mem_escape_of (fun m => (h 9 m).2.2.2 rfl) (by decide)
  have hmap : (escape s).map attrWs = escape s := by
    rw [List.map_congr_left (g := id), List.map_id]
    intro x hx
    have : x ≠ 9 ∧ x ≠ 10 := ⟨fun e => h9 (e ▸ hx), fun e => h10 (e ▸ hx)⟩
    simp [attrWs, this]
  simp [decodeAttr, all_xmlChar_escape (fun c hc => (h c hc).1), normEol_eq_self h13, hmap, not_mem_escape_34 s, unescape_escape]

/-! ### the envelope is tight -/

/-- a CR in character data is read back as LF (XML line-end normalisation) -/
theorem decodeText_cr_counterexample : decodeText (escape [97, 13, 98]) = some [97, 10, 98] := by decide

/-- a LF in an escaped attribute value is read back as a space (attribute-value normalisation) -/
theorem decodeAttr_ws_counterexample : decodeAttr (escape [97, 10, 98]) = some [97, 32, 98] := by decide

/-- `a&b` written verbatim by `make_xml_attrib`: the document is not well-formed -/
theorem rawAttrib_amp : decodeAttr (rawAttrib [97, 38, 98]) = none := by decide
/-- `a"b` written verbatim: the value ends early, the document is not well-formed -/
theorem rawAttrib_quote : decodeAttr (rawAttrib [97, 34, 98]) = none := by decide
/-- `&lt;` written verbatim is read back as the *different* value `<` -/
theorem rawAttrib_changed : decodeAttr (rawAttrib [38, 108, 116, 59]) = some [60] := by decide

/-- the unescaped attribute writer `make_xml_attrib` does **not** round-trip on the envelope of `decodeAttr_escape` -/
theorem rawAttrib_counterexample :
    ¬ (∀ v : List Nat, (∀ c ∈ v, xmlChar c = true ∧ c ≠ 13 ∧ c ≠ 10 ∧ c ≠ 9) →
        decodeAttr (rawAttrib v) = some v) := by
  intro h
  have := h [97, 38, 98] (by decide)
  rw [rawAttrib_amp] at this
  cases this

end OdxVerif.Pdx
