import OdxVerif.Proofs.CompBits2Msg
import OdxVerif.Proofs.CompResU16
/-! Compositional components, extension W22 (1): RESERVED and NRC-CONST parameters INSIDE the nested tier.

    `Desc2R` = the descriptions `Desc2` (syntactic mirror of `Described2`, `Proofs/CompBits2Desc.lean`) plus
    * `reserved n bp bitp bl r` — a RESERVED parameter of `bl` bits (1 … 64) at any BYTE-POSITION and BIT-POSITION.  odxtools
      (`parameters/reservedparameter.py`): the encoder writes NOTHING (cursor += (bit position + BIT-LENGTH + 7) / 8,
      `emplace_bytes(b"")` extends the message with zero bytes up to the cursor, a supplied value is ignored); the decoder
      DOES return an entry for it: the object's bits read as a little-endian `A_UINT32`.  `r` = that number;
    * `nrcConst o values r` — an NRC-CONST parameter over a standard-length object (response side).  odxtools
      (`parameters/nrcconstparameter.py`): the encoder writes nothing (a supplied value is an EncodeError), moves the cursor;
      the decoder reads the coded value and raises `DecodeMismatch` unless it is one of CODED-VALUES.  `r` = the value read;
    * `u16le u cps bs` — the tenth leaf kind: a VALUE parameter over a standard-length A_UNICODE2STRING object with low-high byte
      order (UTF-16LE, `Proofs/CompResU16.lean`);
    * `struct` — STRUCTUREs (with or without BYTE-SIZE) over such parameters, to any depth.

    What the decoder returns for a skipped parameter is not determined by the parameter but by whatever the OTHER parameters put
    at its place (nobody: zero).  The round trip therefore carries the *wire condition* `Desc2R.resPre` — a conjunction over
    the RESERVED / NRC-CONST nodes of the tree, each evaluated at the decoder state in which the node is reached: "the object
    lies inside the PDU and its bits read as `r`" — and nothing else: the END-OF-PDU kind of preconditions are discharged as
    in `Described2` (`Desc2R.decPre_of`).  That the bits read as ZERO when no entry of the layout claims them is
    `Proofs/CompResBits.lean` (`reserved_reads_zero`, from the footprint law).  Not covered: RESERVED / NRC-CONST inside field
    items and multiplexer cases (their closure lemmas need `Comp.EndOk` of the members). -/
namespace OdxVerif.Codec
open OdxVerif.Bits OdxVerif.OdxM

/-- descriptions with values: `Desc2`, RESERVED, NRC-CONST, and STRUCTUREs over them -/
inductive Desc2R where
  | base (d : Desc2)
  | reserved (n : String) (bp bitp : Option Nat) (bl : Nat) (r : Nat)
  | nrcConst (o : Obj) (values : List IVal) (r : IVal)
  | u16le (u : U16) (cps : List Nat) (bs : Bytes)
  | struct (name : String) (bp : Option Nat) (bso : Option Nat) (kids : List Desc2R)

mutual
/-- the component (with its `mid` flag) of a description -/
def Desc2R.mc : Desc2R → MComp
  | .base d => d.mc
  | .reserved n bp bitp bl r => ⟨Comp.reserved n bp bitp bl r, false⟩
  | .nrcConst o values r => ⟨Comp.nrcConst o values r, false⟩
  | .u16le u cps bs => ⟨Comp.ofU16LE u cps bs, false⟩
  | .struct name bp bso kids =>
    ⟨Comp.ofValue name bp (DComp.structO bso (MComps.cs (Descs2R.mcs kids))), MComps.lastMid (Descs2R.mcs kids)⟩
def Descs2R.mcs : List Desc2R → List MComp
  | [] => []
  | d :: ds => d.mc :: Descs2R.mcs ds
end

def Descs2R.comps (ds : List Desc2R) : List Comp := MComps.cs (Descs2R.mcs ds)

theorem Descs2R.comps_cons (d : Desc2R) (ds : List Desc2R) : Descs2R.comps (d :: ds) = d.mc.c :: Descs2R.comps ds := rfl

mutual
/-- well-formedness: as `Desc2.wf`; RESERVED: 1 ≤ BIT-LENGTH ≤ 64; NRC-CONST: a well-formed standard-length object and the
    value on the wire is one of CODED-VALUES (otherwise the decoder raises `DecodeMismatch`) -/
def Desc2R.wf : Desc2R → Prop
  | .base d => d.wf
  | .reserved _ _ _ bl _ => 1 ≤ bl ∧ bl ≤ 64
  | .nrcConst o values r => o.ok ∧ values.contains r = true
  | .u16le u cps bs => u.ok ∧ u.inRange cps bs
  | .struct _ _ bso kids =>
    Descs2R.wf kids ∧ Comps.namesOk (Descs2R.comps kids) ∧ Comps.eopLast (Descs2R.comps kids) ∧ sizeSide bso (Descs2R.comps kids)
def Descs2R.wf : List Desc2R → Prop
  | [] => True
  | d :: ds => d.wf ∧ Descs2R.wf ds
end

mutual
/-- **the wire condition**: for every RESERVED / NRC-CONST node, at the decoder state in which it is reached, the object lies
    inside the message and its bits read as the node's `r` -/
def Desc2R.resPre : Desc2R → DecState → Prop
  | .base _, _ => True
  | .reserved n bp bitp bl r, d =>
    (reservedObj n bp bitp bl).pos d.origin d.cursorByte + (reservedObj n bp bitp bl).k ≤ d.msg.length ∧
      (decStep (reservedObj n bp bitp bl) d).1 = .int r
  | .nrcConst o _ r, d => o.fitsIn d ∧ (decStep o d).1 = r
  | .u16le _ _ _, _ => True
  | .struct _ bp _ kids, d =>
    Descs2R.resPre kids
      { d with cursorByte := posOf bp d.origin d.cursorByte, origin := posOf bp d.origin d.cursorByte }
def Descs2R.resPre : List Desc2R → DecState → Prop
  | [], _ => True
  | k :: ks, d => k.resPre d ∧ Descs2R.resPre ks (k.mc.c.pair.dec d).2
end

mutual
/-- **soundness, refinement part**: every well-formed description is a component in the restricted sense -/
theorem Desc2R.okM : (x : Desc2R) → x.wf → ∀ P, x.mc.c.OkM x.mc.mid P
  | .base d, h, P => by
    simp only [Desc2R.wf] at h
    exact (Desc2.described d h).ok.1 P
  | .reserved n bp bitp bl r, h, P => by
    simp only [Desc2R.wf] at h
    exact (Comp.reserved_ok n bp bitp bl r h.1 h.2).toM _ P
  | .nrcConst o values r, h, P => by
    simp only [Desc2R.wf] at h
    exact (Comp.nrcConst_ok o values r h.1 h.2).toM _ P
  | .u16le u cps bs, h, P => by
    simp only [Desc2R.wf] at h
    exact (Comp.ofU16LE_ok u cps bs h.1 h.2).toM _ P
  | .struct name bp bso kids, h, P => by
    simp only [Desc2R.wf] at h
    have hok := MComps.okAll_of_forall (fun _ => True) _ (Descs2R.okM kids h.1 (fun _ => True))
    exact Comp.ofValueM_ok name bp _ _ (DComp.structOM_okM bso _ hok h.2.1 h.2.2.1 h.2.2.2) P
theorem Descs2R.okM : (ds : List Desc2R) → Descs2R.wf ds → ∀ P, ∀ m ∈ Descs2R.mcs ds, m.c.OkM m.mid P
  | [], _, _ => by intro m hm; simp [Descs2R.mcs] at hm
  | d :: ds, h, P => by
    simp only [Descs2R.wf] at h
    intro m hm
    simp only [Descs2R.mcs, List.mem_cons] at hm
    rcases hm with rfl | hm
    · exact Desc2R.okM d h.1 P
    · exact Descs2R.okM ds h.2 P m hm
end

theorem Desc2R.dec_msg (x : Desc2R) (h : x.wf) (d : DecState) : (x.mc.c.pair.dec d).2.msg = d.msg :=
  (Desc2R.okM x h (fun _ => True)).dec_msg d

mutual
/-- **soundness, precondition part**: the decoder precondition of a well-formed description follows from the wire condition
    and — if it contains an END-OF-PDU object in last position — from ending where the message ends -/
theorem Desc2R.decPre_of : (x : Desc2R) → x.wf → ∀ (d : DecState),
    (x.mc.c.eopOnly = true → (x.mc.c.pair.dec d).2.cursorByte = d.msg.length) → x.resPre d → x.mc.c.decPre d
  | .base b, h, d, hend, _ => by
    simp only [Desc2R.wf] at h
    have he := (Desc2.described b h).ok.2
    cases hb : b.mc.c.eopOnly with
    | false => exact he.trivial hb d
    | true => exact he.of_end d (hend hb)
  | .reserved _ _ _ _ _, _, _, _, hr => hr
  | .nrcConst _ _ _, _, _, _, hr => hr
  | .u16le _ _ _, _, _, _, _ => trivial
  | .struct name bp bso kids, h, d, hend, hr => by
    simp only [Desc2R.wf] at h
    cases bso with
    | none =>
      exact Descs2R.decPre_of kids h.1 h.2.2.1
        { d with cursorByte := posOf bp d.origin d.cursorByte, origin := posOf bp d.origin d.cursorByte } hend hr
    | some bs =>
      have hno := (h.2.2.2 bs rfl).2
      exact Descs2R.decPre_of kids h.1 h.2.2.1
        { d with cursorByte := posOf bp d.origin d.cursorByte, origin := posOf bp d.origin d.cursorByte }
        (fun hany => by rw [hno] at hany; cases hany) hr
theorem Descs2R.decPre_of : (ks : List Desc2R) → Descs2R.wf ks → Comps.eopLast (Descs2R.comps ks) → ∀ (d : DecState),
    (Comps.anyEop (Descs2R.comps ks) = true → ((Comps.pair (Descs2R.comps ks)).dec d).2.cursorByte = d.msg.length) →
    Descs2R.resPre ks d → Comps.decPre (Descs2R.comps ks) d
  | [], _, _, _, _, _ => trivial
  | k :: ks, h, hlast, d, hend, hr => by
    simp only [Descs2R.wf] at h
    simp only [Descs2R.resPre] at hr
    have hlast' : Comps.eopLast (k.mc.c :: Descs2R.comps ks) := hlast
    have hend' : Comps.anyEop (k.mc.c :: Descs2R.comps ks) = true →
        ((Comps.pair (Descs2R.comps ks)).dec (k.mc.c.pair.dec d).2).2.cursorByte = d.msg.length := hend
    have hk : k.mc.c.eopOnly = true → (k.mc.c.pair.dec d).2.cursorByte = d.msg.length := by
      intro he
      cases hks : ks with
      | nil =>
        subst hks
        exact hend' (by simp [Comps.anyEop, he])
      | cons k2 rest =>
        subst hks
        have : k.mc.c.eopOnly = false := hlast'.1
        rw [this] at he; cases he
    refine ⟨Desc2R.decPre_of k h.1 d hk hr.1, ?_⟩
    apply Descs2R.decPre_of ks h.2 (Comps.eopLast_tail _ _ hlast') (k.mc.c.pair.dec d).2 ?_ hr.2
    intro hany
    rw [Desc2R.dec_msg k h.1 d]
    exact hend' (by simp only [Comps.anyEop, List.any_cons] at hany ⊢; simp [hany])
end

/-! ### the top level: MATCHING-REQUEST-PARAMs allowed (`Desc2.wfTop`) -/

def Desc2R.wfTop (trig : Option Bytes) : Desc2R → Prop
  | .base d => d.wfTop trig
  | x => x.wf

def Descs2R.wfTop (trig : Option Bytes) : List Desc2R → Prop
  | [] => True
  | d :: ds => d.wfTop trig ∧ Descs2R.wfTop trig ds

theorem Desc2R.okTop (trig : Option Bytes) (x : Desc2R) (h : x.wfTop trig) : x.mc.c.OkM x.mc.mid (TopInv trig) := by
  cases x with
  | base d => exact (Desc2.describedTop trig d h).ok.1
  | reserved n bp bitp bl r => exact Desc2R.okM _ h _
  | nrcConst o values r => exact Desc2R.okM _ h _
  | u16le u cps bs => exact Desc2R.okM _ h _
  | struct name bp bso kids => exact Desc2R.okM _ h _

theorem Desc2R.decPre_top (trig : Option Bytes) (x : Desc2R) (h : x.wfTop trig) (d : DecState)
    (hend : x.mc.c.eopOnly = true → (x.mc.c.pair.dec d).2.cursorByte = d.msg.length) (hr : x.resPre d) : x.mc.c.decPre d := by
  cases x with
  | base b =>
    have he := (Desc2.describedTop trig b h).ok.2
    cases hb : b.mc.c.eopOnly with
    | false => exact he.trivial hb d
    | true => exact he.of_end d (hend hb)
  | reserved n bp bitp bl r => exact Desc2R.decPre_of _ h d hend hr
  | nrcConst o values r => exact Desc2R.decPre_of _ h d hend hr
  | u16le u cps bs => exact Desc2R.decPre_of _ h d hend hr
  | struct name bp bso kids => exact Desc2R.decPre_of _ h d hend hr

theorem Descs2R.okAllTop (trig : Option Bytes) : (ds : List Desc2R) → Descs2R.wfTop trig ds →
    MComps.okAll (TopInv trig) (Descs2R.mcs ds)
  | [], _ => trivial
  | d :: ds, h => ⟨Desc2R.okTop trig d h.1, Descs2R.okAllTop trig ds h.2⟩

theorem Descs2R.decPre_top (trig : Option Bytes) : (ks : List Desc2R) → Descs2R.wfTop trig ks →
    Comps.eopLast (Descs2R.comps ks) → ∀ (d : DecState),
    (Comps.anyEop (Descs2R.comps ks) = true → ((Comps.pair (Descs2R.comps ks)).dec d).2.cursorByte = d.msg.length) →
    Descs2R.resPre ks d → Comps.decPre (Descs2R.comps ks) d
  | [], _, _, _, _, _ => trivial
  | k :: ks, h, hlast, d, hend, hr => by
    simp only [Descs2R.resPre] at hr
    have hlast' : Comps.eopLast (k.mc.c :: Descs2R.comps ks) := hlast
    have hend' : Comps.anyEop (k.mc.c :: Descs2R.comps ks) = true →
        ((Comps.pair (Descs2R.comps ks)).dec (k.mc.c.pair.dec d).2).2.cursorByte = d.msg.length := hend
    have hk : k.mc.c.eopOnly = true → (k.mc.c.pair.dec d).2.cursorByte = d.msg.length := by
      intro he
      cases hks : ks with
      | nil =>
        subst hks
        exact hend' (by simp [Comps.anyEop, he])
      | cons k2 rest =>
        subst hks
        have : k.mc.c.eopOnly = false := hlast'.1
        rw [this] at he; cases he
    refine ⟨Desc2R.decPre_top trig k h.1 d hk hr.1, ?_⟩
    apply Descs2R.decPre_top trig ks h.2 (Comps.eopLast_tail _ _ hlast') (k.mc.c.pair.dec d).2 ?_ hr.2
    intro hany
    rw [(Desc2R.okTop trig k h.1).dec_msg d]
    exact hend' (by simp only [Comps.anyEop, List.any_cons] at hany ⊢; simp [hany])

/-- a well-formed request / response over `Desc2R` parameters (as `Descs2.ok`) -/
def Descs2R.ok (trig : Option Bytes) (ds : List Desc2R) : Prop :=
  Descs2R.wfTop trig ds ∧ Comps.namesOk (Descs2R.comps ds) ∧ Comps.eopLast (Descs2R.comps ds) ∧
  MComps.midNotLast (Descs2R.mcs ds) ∧ Comps.need (Descs2R.comps ds) + 2 ≤ modelFuel

def Descs2R.params (ds : List Desc2R) : List Param := Comps.toParams (Descs2R.comps ds)
def Descs2R.supplied (ds : List Desc2R) : List (String × PVal) := Comps.values (Descs2R.comps ds)
def Descs2R.decoded (ds : List Desc2R) : List (String × PVal) := (Comps.pair (Descs2R.comps ds)).val
def Descs2R.endCursor (ds : List Desc2R) : Nat := Comps.cur (Descs2R.comps ds) 0 0

/-- **the message-level round trip with the cursor** for `Desc2R` parameter lists: `hend` (a parameter needs the end of the
    PDU ⇒ the encoder's final cursor is the length of the PDU) and the wire condition `hres` on the PDU -/
theorem descs2R_roundtrip_msg_cur (ds : List Desc2R) (trig : Option Bytes) (hok : Descs2R.ok trig ds) (pdu : Bytes)
    (hend : Comps.anyEop (Descs2R.comps ds) = true → Descs2R.endCursor ds = pdu.length)
    (hres : Descs2R.resPre ds { msg := pdu })
    (henc : encodeMessage none (Descs2R.params ds) (.dict (Descs2R.supplied ds)) trig true = .ok (pdu, 0)) :
    decodeMessage none (Descs2R.params ds) pdu true = .ok (.dict (Descs2R.decoded ds), Descs2R.endCursor ds) := by
  obtain ⟨hwf, hn, hlast, hmid, hneed⟩ := hok
  have hokAll := Descs2R.okAllTop trig ds hwf
  obtain ⟨s1, hrun, hcore, _⟩ := DComp.structM_encode_eq (ModelInv.top trig) (Descs2R.mcs ds) hokAll hn hlast modelFuel hneed
    { trig := trig, isEndOfPdu := true } rfl (fun _ => rfl)
    (fun h => by rw [show MComps.lastMid (Descs2R.mcs ds) = false from hmid] at h; cases h) ⟨rfl, Nat.le_refl _⟩
  have hcur := DComp.structM_enc_cursor (Descs2R.mcs ds) hokAll { trig := trig, isEndOfPdu := true }
  refine (roundtrip_msg_core (DComp.struct (Descs2R.comps ds)) none _ rfl trig pdu (DComp.structM_good _ hokAll) ⟨s1, hrun, hcore⟩ ?_
    (fun hfit hp => DComp.structM_decode_eq _ hokAll modelFuel hneed { msg := pdu } rfl hfit hp) ?_ henc).1
  · exact hcur.trans (Nat.zero_add _)
  · intro hsz
    apply Descs2R.decPre_top trig ds hwf hlast _ _ hres
    intro hany
    have hsz' : ((Comps.pair (Descs2R.comps ds)).dec { msg := pdu, origin := 0 }).2.cursorByte = Comps.cur (Descs2R.comps ds) 0 0 := hsz
    show ((Comps.pair (Descs2R.comps ds)).dec { msg := pdu }).2.cursorByte = pdu.length
    rw [← hend hany]
    exact hsz'

/-! ### `Desc2` embedded -/

def Descs2R.ofBase : List Desc2 → List Desc2R
  | [] => []
  | d :: ds => .base d :: Descs2R.ofBase ds

theorem Descs2R.ofBase_mcs : (ds : List Desc2) → Descs2R.mcs (Descs2R.ofBase ds) = Descs2.mcs ds
  | [] => rfl
  | d :: ds => by
    show d.mc :: Descs2R.mcs (Descs2R.ofBase ds) = d.mc :: Descs2.mcs ds
    rw [Descs2R.ofBase_mcs ds]

theorem Descs2R.ofBase_wfTop (trig : Option Bytes) : (ds : List Desc2) → Descs2.wfTop trig ds → Descs2R.wfTop trig (Descs2R.ofBase ds)
  | [], _ => trivial
  | _ :: ds, h => ⟨h.1, Descs2R.ofBase_wfTop trig ds h.2⟩

theorem Descs2R.ofBase_resPre : (ds : List Desc2) → ∀ d, Descs2R.resPre (Descs2R.ofBase ds) d
  | [], _ => trivial
  | _ :: ds, d => by
    simp only [Descs2R.ofBase, Descs2R.resPre]
    exact ⟨trivial, Descs2R.ofBase_resPre ds _⟩

end OdxVerif.Codec
