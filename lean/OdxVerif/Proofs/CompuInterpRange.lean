import OdxVerif.Proofs.CompuSem
/-! TAB-INTP: an interpolated value lies between the two samples it is interpolated from, hence inside
    `[minList, maxList]` of the range samples (round 6).

    In exact arithmetic the image of every valid internal value of a TAB-INTP method is therefore a valid
    physical value.  The implementation evaluates `y0 + (x-x0)*(y1-y0)/(x1-x0)` in doubles; at the sample
    point with the extreme physical sample the result can miss the sample by rounding noise and fall outside
    the range (known finding `tabintp-extreme-sample-rounding`).  The proposed repair
    `fixes/c07-tabintp-clamp-to-samples.patch` clamps the result between `min y0 y1` and `max y0 y1`;
    `lerp_between` says that this clamp is the identity on the exact value, so `Model.interp` (over `Rat`)
    is a model of the current and of the repaired code alike. -/
namespace OdxVerif.Compu

/-- linear interpolation between two different abscissae stays between the two ordinates -/
theorem lerp_between (x0 y0 x1 y1 x : Rat) (hb : between x0 x1 x) (hne : x0 ≠ x1) :
    between y0 y1 (lerp x0 y0 x1 y1 x) := by
  unfold between at hb ⊢
  unfold lerp
  obtain ⟨hlo, hhi⟩ := hb
  -- t = (x - x0)/(x1 - x0) lies in [0, 1]
  have hd : x1 - x0 ≠ 0 := sub_ne_zero.mpr (Ne.symm hne)
  have ht : 0 ≤ (x - x0) / (x1 - x0) ∧ 0 ≤ 1 - (x - x0) / (x1 - x0) := by
    have h1 : 1 - (x - x0) / (x1 - x0) = (x1 - x) / (x1 - x0) := by field_simp; ring
    rw [h1]
    rcases lt_or_gt_of_ne hne with h | h
    · -- x0 < x1
      have hpos : 0 < x1 - x0 := sub_pos.mpr h
      rw [min_eq_left h.le] at hlo
      rw [max_eq_right h.le] at hhi
      exact ⟨div_nonneg (sub_nonneg.mpr hlo) hpos.le, div_nonneg (sub_nonneg.mpr hhi) hpos.le⟩
    · -- x1 < x0: both quotients are quotients of the negated terms
      have hpos : 0 < x0 - x1 := sub_pos.mpr h
      rw [min_eq_right h.le] at hlo
      rw [max_eq_left h.le] at hhi
      have e1 : (x - x0) / (x1 - x0) = (x0 - x) / (x0 - x1) := by
        rw [← neg_sub x0 x, ← neg_sub x0 x1, neg_div_neg_eq]
      have e2 : (x1 - x) / (x1 - x0) = (x - x1) / (x0 - x1) := by
        rw [← neg_sub x x1, ← neg_sub x0 x1, neg_div_neg_eq]
      rw [e1, e2]
      exact ⟨div_nonneg (sub_nonneg.mpr hhi) hpos.le, div_nonneg (sub_nonneg.mpr hlo) hpos.le⟩
  have heq : y0 + (x - x0) * (y1 - y0) / (x1 - x0) = y0 + (x - x0) / (x1 - x0) * (y1 - y0) := by
    field_simp
  rw [heq]
  generalize (x - x0) / (x1 - x0) = t at ht
  obtain ⟨ht0, ht1⟩ := ht
  have ht1 : t ≤ 1 := by linarith
  rcases le_total y0 y1 with h | h
  · rw [min_eq_left h, max_eq_right h]
    have hdy : 0 ≤ y1 - y0 := sub_nonneg.mpr h
    constructor
    · nlinarith [mul_nonneg ht0 hdy]
    · nlinarith [mul_nonneg (sub_nonneg.mpr ht1) hdy]
  · rw [min_eq_right h, max_eq_left h]
    have hdy : 0 ≤ y0 - y1 := sub_nonneg.mpr h
    constructor
    · nlinarith [mul_nonneg (sub_nonneg.mpr ht1) hdy]
    · nlinarith [mul_nonneg ht0 hdy]

theorem minList_le_of_tail (a b : Rat) (l : List Rat) : minList (a :: b :: l) ≤ minList (b :: l) := by
  rw [minList_cons_cons]; exact min_le_right _ _

theorem maxList_ge_of_tail (a b : Rat) (l : List Rat) : maxList (b :: l) ≤ maxList (a :: b :: l) := by
  rw [maxList_cons_cons]; exact le_max_right _ _

/-- whatever `interp` returns lies inside the range of the ordinate samples -/
theorem interp_in_range (x : Rat) (xs ys : List Rat) (r : Rat) (h : interp x xs ys = some r) :
    minList ys ≤ r ∧ r ≤ maxList ys := by
  induction xs generalizing ys with
  | nil => simp [interp] at h
  | cons x0 xs ih =>
    cases xs with
    | nil => simp [interp] at h
    | cons x1 xs =>
      cases ys with
      | nil => simp [interp] at h
      | cons y0 ys =>
        cases ys with
        | nil => simp [interp] at h
        | cons y1 ys =>
          unfold interp at h
          have hy0lo : minList (y0 :: y1 :: ys) ≤ y0 := minList_le_head _ _
          have hy0hi : y0 ≤ maxList (y0 :: y1 :: ys) := head_le_maxList _ _
          have hy1lo : minList (y0 :: y1 :: ys) ≤ y1 :=
            le_trans (minList_le_of_tail _ _ _) (minList_le_head _ _)
          have hy1hi : y1 ≤ maxList (y0 :: y1 :: ys) :=
            le_trans (head_le_maxList _ _) (maxList_ge_of_tail _ _ _)
          by_cases hb : min x0 x1 ≤ x ∧ x ≤ max x0 x1
          · rw [if_pos hb] at h
            by_cases he : x0 = x1
            · rw [if_pos he] at h
              cases h
              exact ⟨hy0lo, hy0hi⟩
            · rw [if_neg he] at h
              cases h
              have hbt := lerp_between x0 y0 x1 y1 x hb he
              unfold between lerp at hbt
              exact ⟨le_trans (le_min hy0lo hy1lo) hbt.1, le_trans hbt.2 (max_le hy0hi hy1hi)⟩
          · rw [if_neg hb] at h
            obtain ⟨h1, h2⟩ := ih (y1 :: ys) h
            exact ⟨le_trans (minList_le_of_tail _ _ _) h1, le_trans h2 (maxList_ge_of_tail _ _ _)⟩

end OdxVerif.Compu
