import OdxVerif.Proofs.CompTrunc2Local
/-! C05, nested tier, second part (task W26): the ghost log against W19's relation `Reads`, at the leaves.
    For the four diag-coded types, in strict mode: every request that a run of `decodeDctL` adds to the log is an object of
    `Reads (.dct c)` — or the body of a MIN-MAX object, which is computed from the message and lies inside it
    (`decodeDctL_requests`).  This is the leaf level of "every `extractCore` call is in `Reads`" (W19, NOT proved (2)); the rules of
    `Reads` above the leaves only mirror the sequencing of the decoder.  Core Lean only. -/
namespace OdxVerif.Codec
open OdxVerif.OdxM OdxVerif.Bits

/-- the entry `extractCoreL bl` logs in state `ls` -/
def entryOf (ls : LState) (bl : Nat) : LEntry := ⟨ls.st.cursorByte, ls.st.readEnd bl, ls.probe⟩

theorem extractCoreL_run (bl : Nat) (bt : BaseType) (enc : Option Enc) (hl : Bool) (ls : LState) (b : Bool) :
    extractCoreL bl bt enc hl ls b = match extractCore bl bt enc hl ls.st b with
      | .ok (a, s') => .ok (a, { st := s', log := entryOf ls bl :: ls.log, probe := ls.probe })
      | .error (e, s') => .error (e, { st := s', log := entryOf ls bl :: ls.log, probe := ls.probe }) := by
  show (OdxM.bind (logRead bl) fun _ => liftD (extractCore bl bt enc hl)) ls b = _
  unfold OdxM.bind logRead liftD
  simp only []
  generalize extractCore bl bt enc hl ls.st b = r
  rcases r with ⟨e, s⟩ | ⟨a, s⟩ <;> rfl

theorem run_getD (ls : LState) (b : Bool) : getD ls b = .ok (ls.st, ls) := rfl
theorem run_modD (f : DecState → DecState) (ls : LState) (b : Bool) : modD f ls b = .ok ((), { ls with st := f ls.st }) := rfl

/-- what a run did to the ghost fields: nothing, or exactly one request of `bl` bits at the cursor of `ls` -/
def LogStep (ls : LState) (bt : BaseType) (bl : Nat) (ls1 : LState) : Prop :=
  ls1.probe = ls.probe ∧ (ls1.log = ls.log ∨ (readable bt bl ∧ ls1.log = entryOf ls bl :: ls.log))

/-- `extractAtomicL` in strict mode: at most one request, and only a `readable` one (≥ 1 bit, floats of their IEEE width) -/
theorem extractAtomicL_strict (bl : Nat) (bt : BaseType) (enc : Option Enc) (hl : Bool) (ls : LState) :
    match extractAtomicL bl bt enc hl ls true with
    | .ok (v, ls1) => extractAtomic bl bt enc hl ls.st true = .ok (v, ls1.st) ∧ LogStep ls bt bl ls1
    | .error (_, ls1) => LogStep ls bt bl ls1 := by
  have her := erases_extractAtomicL bl bt enc hl
  unfold Erases at her
  have her := her ls true
  have hlog : match extractAtomicL bl bt enc hl ls true with
      | .ok (_, ls1) => LogStep ls bt bl ls1
      | .error (_, ls1) => LogStep ls bt bl ls1 := by
    unfold extractAtomicL
    by_cases h0 : bl = 0
    · rw [if_pos h0]; exact ⟨rfl, .inl rfl⟩
    · rw [if_neg h0]
      by_cases hb : (!bt.isNumeric && decide (bl % 8 ≠ 0)) = true
      · rw [if_pos hb]; exact ⟨rfl, .inl rfl⟩
      · rw [if_neg hb]
        by_cases h32 : bt = .float32 ∧ bl ≠ 32
        · rw [if_pos h32]
          simp only [bind, run_bind, run_odxraise_strict]
          exact ⟨rfl, .inl rfl⟩
        · rw [if_neg h32]
          by_cases h64 : bt = .float64 ∧ bl ≠ 64
          · rw [if_pos h64]
            simp only [bind, run_bind, run_odxraise_strict]
            exact ⟨rfl, .inl rfl⟩
          · rw [if_neg h64]
            have hr : readable bt bl := ⟨h0, fun h => Classical.byContradiction fun hn => h32 ⟨h, hn⟩,
              fun h => Classical.byContradiction fun hn => h64 ⟨h, hn⟩⟩
            rw [extractCoreL_run]
            cases extractCore bl bt enc hl ls.st true with
            | ok p => exact ⟨rfl, .inr ⟨hr, rfl⟩⟩
            | error p => exact ⟨rfl, .inr ⟨hr, rfl⟩⟩
  cases hrun : extractAtomicL bl bt enc hl ls true with
  | ok p =>
    obtain ⟨v, ls1⟩ := p
    rw [hrun] at her hlog
    exact ⟨her.symm, hlog⟩
  | error p =>
    obtain ⟨e, ls1⟩ := p
    rw [hrun] at hlog
    exact hlog

theorem findTerm_some_le (msg seq : Bytes) (orig stop : Nat) : ∀ (fuel p r : Nat),
    findTerm msg seq orig stop fuel p = some r → r + seq.length ≤ stop
  | 0, _, _, h => by simp [findTerm] at h
  | f+1, p, r, h => by
    unfold findTerm at h
    by_cases h1 : p + seq.length > stop
    · rw [if_pos h1] at h; cases h
    · rw [if_neg h1] at h
      split at h
      · injection h with h; subst h; omega
      · exact findTerm_some_le msg seq orig stop f (p + 1) r h

/-! ### MIN-MAX: the model's expressions, named -/

def mmTseq (t : Term) (bt : BaseType) : Bytes :=
  match t with
  | .zero => if bt = .unicode2 then [0, 0] else [0]
  | .hexff => if bt = .unicode2 then [255, 255] else [255]
  | .eop => []
def mmMaxPos (mx : Option Nat) (len orig : Nat) : Nat :=
  match mx with
  | some mx => min len (orig + mx)
  | none => len
def mmByteLen (msg : Bytes) (t : Term) (bt : BaseType) (mn : Nat) (mx : Option Nat) (orig : Nat) : Nat :=
  match findTerm msg (mmTseq t bt) orig (mmMaxPos mx msg.length orig) (msg.length + 1) (orig + mn) with
  | some p => p - orig
  | none => mmMaxPos mx msg.length orig - orig

theorem mmMaxPos_le (mx : Option Nat) (len orig : Nat) : mmMaxPos mx len orig ≤ len := by
  unfold mmMaxPos; cases mx <;> simp only [] <;> omega

theorem mmByteLen_le (msg : Bytes) (t : Term) (bt : BaseType) (mn : Nat) (mx : Option Nat) (orig : Nat) (h : orig ≤ msg.length) :
    orig + mmByteLen msg t bt mn mx orig ≤ msg.length := by
  have hm := mmMaxPos_le mx msg.length orig
  unfold mmByteLen
  cases hf : findTerm msg (mmTseq t bt) orig (mmMaxPos mx msg.length orig) (msg.length + 1) (orig + mn) with
  | none => simp only []; omega
  | some p =>
    have := findTerm_some_le _ _ _ _ _ _ _ hf
    simp only []; omega

/-- `decodeDctL` of a MIN-MAX object, with the named expressions -/
theorem decodeDctL_minmax_eq (bt : BaseType) (enc : Option Enc) (hl : Bool) (mn : Nat) (mx : Option Nat) (t : Term) :
    decodeDctL (.minmax bt enc hl mn mx t) = (do
      let s ← getD
      odxassert (s.cursorBit = 0)
      if s.cursorByte + mn > s.msg.length then raise .decode
      else
        if t ≠ .eop then do
          let v ← extractAtomicL (8 * mmByteLen s.msg t bt mn mx s.cursorByte) bt enc hl
          let s' ← getD
          if s'.cursorByte ≠ s'.msg.length ∧ some (s'.cursorByte - s.cursorByte) ≠ mx then
            modD fun s => { s with cursorByte := s.cursorByte + (mmTseq t bt).length }
          pure v
        else
          extractAtomicL (8 * (mmMaxPos mx s.msg.length s.cursorByte - s.cursorByte)) bt enc hl) := rfl

theorem LogStep.mem {ls ls1 : LState} {bt : BaseType} {bl : Nat} (h : LogStep ls bt bl ls1) {e : LEntry} (he : e ∈ ls1.log) :
    e ∈ ls.log ∨ (readable bt bl ∧ e = entryOf ls bl) := by
  rcases h.2 with h1 | ⟨hr, h1⟩
  · rw [h1] at he; exact .inl he
  · rw [h1, List.mem_cons] at he
    rcases he with rfl | he
    · exact .inr ⟨hr, rfl⟩
    · exact .inl he

theorem unapplyMask_log (m : Nat) (c : Bool) (v : IVal) (ls : LState) (b : Bool) :
    resLog ((unapplyMask m c v : LogM IVal) ls b) = ls.log := by
  unfold unapplyMask
  cases v with
  | int i => rfl
  | bytes x => dsimp only; split <;> split <;> rfl
  | str x => cases b <;> rfl
  | flt x => cases b <;> rfl

/-- what a request of a diag-coded type is, in W19's terms: an object of `Reads`, or something inside the message -/
def DctRequest (n : Nat) (c : Dct) (ls : LState) (e : LEntry) : Prop :=
  e.probe = ls.probe ∧
    ((∃ dr bl, Reads true n (.dct c) ls.st dr bl ∧ e.start = dr.cursorByte ∧ e.stop = dr.readEnd bl) ∨ e.stop ≤ ls.st.msg.length)

/-- **The leaves of the log against `Reads`, strict mode.**  Every request a run of a diag-coded type adds to the log is an object
    of `Reads (.dct c)` — a standard-length object, the length prefix or the body of a LEADING-LENGTH object, a PARAM-LENGTH
    object — or the body of a MIN-MAX object, which lies inside the message by construction. -/
theorem decodeDctL_requests (n : Nat) (c : Dct) (ls : LState) :
    ∀ e ∈ resLog (decodeDctL c ls true), e ∈ ls.log ∨ DctRequest n c ls e := by
  intro e he
  cases c with
  | std bt enc hl bl mask cd =>
    have h := extractAtomicL_strict bl bt enc hl ls
    cases mask with
    | none =>
      simp only [decodeDctL] at he
      cases hrun : extractAtomicL bl bt enc hl ls true with
      | ok p =>
        obtain ⟨v, ls1⟩ := p
        rw [hrun] at h he
        rcases h.2.mem he with h1 | ⟨hr, rfl⟩
        · exact .inl h1
        · exact .inr ⟨rfl, .inl ⟨ls.st, bl, .std n bt enc hl bl none cd ls.st hr, rfl, rfl⟩⟩
      | error p =>
        obtain ⟨err, ls1⟩ := p
        rw [hrun] at h he
        rcases h.mem he with h1 | ⟨hr, rfl⟩
        · exact .inl h1
        · exact .inr ⟨rfl, .inl ⟨ls.st, bl, .std n bt enc hl bl none cd ls.st hr, rfl, rfl⟩⟩
    | some m =>
      simp only [decodeDctL, bind, run_bind] at he
      cases hrun : extractAtomicL bl bt enc hl ls true with
      | ok p =>
        obtain ⟨v, ls1⟩ := p
        rw [hrun] at h he
        simp only [] at he
        rw [unapplyMask_log] at he
        rcases h.2.mem he with h1 | ⟨hr, rfl⟩
        · exact .inl h1
        · exact .inr ⟨rfl, .inl ⟨ls.st, bl, .std n bt enc hl bl (some m) cd ls.st hr, rfl, rfl⟩⟩
      | error p =>
        obtain ⟨err, ls1⟩ := p
        rw [hrun] at h he
        rcases h.mem he with h1 | ⟨hr, rfl⟩
        · exact .inl h1
        · exact .inr ⟨rfl, .inl ⟨ls.st, bl, .std n bt enc hl bl (some m) cd ls.st hr, rfl, rfl⟩⟩
  | leading bt enc hl bl =>
    have h := extractAtomicL_strict bl .uint32 none hl ls
    simp only [decodeDctL, bind, run_bind] at he
    cases hrun : extractAtomicL bl .uint32 none hl ls true with
    | error p =>
      obtain ⟨err, ls1⟩ := p
      rw [hrun] at h he
      rcases h.mem he with h1 | ⟨hr, rfl⟩
      · exact .inl h1
      · exact .inr ⟨rfl, .inl ⟨ls.st, bl, .leadingLen n bt enc hl bl ls.st hr, rfl, rfl⟩⟩
    | ok p =>
      obtain ⟨v, ls1⟩ := p
      rw [hrun] at h he
      obtain ⟨hx, hstep⟩ := h
      have hfirst : ∀ e ∈ ls1.log, e ∈ ls.log ∨ DctRequest n (.leading bt enc hl bl) ls e := by
        intro e he
        rcases hstep.mem he with h1 | ⟨hr, rfl⟩
        · exact .inl h1
        · exact .inr ⟨rfl, .inl ⟨ls.st, bl, .leadingLen n bt enc hl bl ls.st hr, rfl, rfl⟩⟩
      cases v with
      | int i =>
        simp only [] at he
        have h2 := extractAtomicL_strict (8 * i.toNat) bt none hl ls1
        have hsecond : ∀ ls2 : LState, LogStep ls1 bt (8 * i.toNat) ls2 → e ∈ ls2.log →
            e ∈ ls.log ∨ DctRequest n (.leading bt enc hl bl) ls e := by
          intro ls2 hs2 he2
          rcases hs2.mem he2 with h1 | ⟨hr, rfl⟩
          · exact hfirst e h1
          · exact .inr ⟨hstep.1, .inl ⟨ls1.st, 8 * i.toNat, .leadingBody n bt enc hl bl ls.st ls1.st i hx hr, rfl, rfl⟩⟩
        cases hrun2 : extractAtomicL (8 * i.toNat) bt none hl ls1 true with
        | ok q => obtain ⟨w, ls2⟩ := q; rw [hrun2] at h2 he; exact hsecond ls2 h2.2 he
        | error q => obtain ⟨err, ls2⟩ := q; rw [hrun2] at h2 he; exact hsecond ls2 h2 he
      | bytes x => exact hfirst e he
      | str x => exact hfirst e he
      | flt x => exact hfirst e he
  | paramLen bt enc hl key =>
    simp only [decodeDctL, bind, run_bind, run_getD] at he
    cases hk : lookup key ls.st.lengthKeys with
    | none =>
      rw [hk] at he
      simp only [run_bind, run_odxraise_strict] at he
      exact .inl he
    | some blk =>
      rw [hk] at he
      simp only [run_ite] at he
      by_cases hneg : blk < 0
      · rw [if_pos hneg] at he
        simp only [run_bind, run_odxraise_strict] at he
        exact .inl he
      · rw [if_neg hneg] at he
        have h := extractAtomicL_strict blk.toNat bt enc hl ls
        have hmem : ∀ ls1 : LState, LogStep ls bt blk.toNat ls1 → e ∈ ls1.log → e ∈ ls.log ∨ DctRequest n (.paramLen bt enc hl key) ls e := by
          intro ls1 hs he1
          rcases hs.mem he1 with h1 | ⟨hr, rfl⟩
          · exact .inl h1
          · exact .inr ⟨rfl, .inl ⟨ls.st, blk.toNat, .paramLen n bt enc hl key ls.st blk hk hneg hr, rfl, rfl⟩⟩
        cases hrun : extractAtomicL blk.toNat bt enc hl ls true with
        | ok q => obtain ⟨w, ls1⟩ := q; rw [hrun] at h he; exact hmem ls1 h.2 he
        | error q => obtain ⟨err, ls1⟩ := q; rw [hrun] at h he; exact hmem ls1 h he
  | minmax bt enc hl mn mx t =>
    rw [decodeDctL_minmax_eq] at he
    simp only [bind, run_bind, run_getD] at he
    by_cases hcb : ls.st.cursorBit = 0
    · -- every request of this branch is one `extractAtomicL (8 * k)` at the cursor of `ls`, with `cursorByte + k ≤ len`
      have key : ∀ (k : Nat) (ls1 : LState), ls.st.cursorByte + k ≤ ls.st.msg.length → LogStep ls bt (8 * k) ls1 → e ∈ ls1.log →
          e ∈ ls.log ∨ DctRequest n (.minmax bt enc hl mn mx t) ls e := by
        intro k ls1 hk hs he1
        rcases hs.mem he1 with h1 | ⟨_, rfl⟩
        · exact .inl h1
        · refine .inr ⟨rfl, .inr ?_⟩
          show ls.st.readEnd (8 * k) ≤ ls.st.msg.length
          unfold DecState.readEnd
          rw [hcb]
          omega
      simp only [odxassert, hcb, decide_true, if_true, run_pure, pure] at he
      by_cases hmin : ls.st.cursorByte + mn > ls.st.msg.length
      · simp only [run_ite, hmin, if_true] at he
        exact .inl he
      · simp only [run_ite, hmin, if_false] at he
        have horig : ls.st.cursorByte ≤ ls.st.msg.length := by omega
        by_cases hte : t ≠ .eop
        · simp only [hte, if_true, ne_eq, not_false_eq_true, run_bind] at he
          have h := extractAtomicL_strict (8 * mmByteLen ls.st.msg t bt mn mx ls.st.cursorByte) bt enc hl ls
          have hb := mmByteLen_le ls.st.msg t bt mn mx ls.st.cursorByte horig
          cases hrun : extractAtomicL (8 * mmByteLen ls.st.msg t bt mn mx ls.st.cursorByte) bt enc hl ls true with
          | error q => obtain ⟨err, ls1⟩ := q; rw [hrun] at h he; exact key _ ls1 hb h he
          | ok q =>
            obtain ⟨w, ls1⟩ := q
            rw [hrun] at h he
            simp only [run_getD] at he
            have hlog : e ∈ ls1.log := by
              split at he
              · exact he
              · exact he
            exact key _ ls1 hb h.2 hlog
        · simp only [hte, if_false] at he
          have hm := mmMaxPos_le mx ls.st.msg.length ls.st.cursorByte
          have h := extractAtomicL_strict (8 * (mmMaxPos mx ls.st.msg.length ls.st.cursorByte - ls.st.cursorByte)) bt enc hl ls
          cases hrun : extractAtomicL (8 * (mmMaxPos mx ls.st.msg.length ls.st.cursorByte - ls.st.cursorByte)) bt enc hl ls true with
          | error q => obtain ⟨err, ls1⟩ := q; rw [hrun] at h he; exact key _ ls1 (by omega) h he
          | ok q => obtain ⟨w, ls1⟩ := q; rw [hrun] at h he; exact key _ ls1 (by omega) h.2 he
    · simp only [odxassert, hcb, decide_false, Bool.false_eq_true, if_false, run_odxraise_strict] at he
      exact .inl he

end OdxVerif.Codec
