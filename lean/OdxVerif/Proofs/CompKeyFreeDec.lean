import OdxVerif.Proofs.CompKeyFree
/-! The decoding half of `Proofs/CompKeyFree.lean`: on a description without LENGTH-KEY parameters and PARAM-LENGTH-INFO-TYPE
    objects no decoding function of the model touches `length_keys` (`decKeeps`). Core Lean only. -/
set_option linter.unusedVariables false
namespace OdxVerif.Codec
open OdxVerif.Bits OdxVerif.OdxM


@[reducible] def DecState.keys (d : DecState) : List (String × Int) := d.lengthKeys

theorem convertRaw_keeps (M) (bt enc hl bl raw) : KeepsM DecState.keys M (convertRaw bt enc hl bl raw) := by
  unfold convertRaw
  keeps
macro_rules | `(tactic| keeps_step) => `(tactic| with_reducible exact convertRaw_keeps _ _ _ _ _ _)
theorem extractCore_keeps (M) (bl bt enc hl) : KeepsM DecState.keys M (extractCore bl bt enc hl) := by
  unfold extractCore
  keeps
macro_rules | `(tactic| keeps_step) => `(tactic| with_reducible exact extractCore_keeps _ _ _ _ _)
theorem extractAtomic_keeps (M) (bl bt enc hl) : KeepsM DecState.keys M (extractAtomic bl bt enc hl) := by
  unfold extractAtomic
  keeps
macro_rules | `(tactic| keeps_step) => `(tactic| with_reducible exact extractAtomic_keeps _ _ _ _ _)
theorem unapplyMask_keeps {σ β : Type} (proj : σ → β) (M : β) (mask : Nat) (c : Bool) (v : IVal) :
    KeepsM proj M (unapplyMask mask c v : OdxM σ IVal) := by
  unfold unapplyMask
  keeps
macro_rules | `(tactic| keeps_step) => `(tactic| with_reducible exact unapplyMask_keeps _ _ _ _ _)

theorem decodeDct_keeps (M) (dct : Dct) (h : dct.noKeys = true) : KeepsM DecState.keys M (decodeDct dct) := by
  cases dct with
  | paramLen => cases h
  | std bt enc hl bl mask c =>
    cases mask <;> simp only [decodeDct] <;> keeps
  | minmax bt enc hl minLen maxLen term =>
    simp only [decodeDct]
    keeps
  | leading bt enc hl bl =>
    simp only [decodeDct]
    keeps
macro_rules | `(tactic| keeps_step) => `(tactic| with_reducible exact decodeDct_keeps _ _ (by assumption))

structure DecKeeps (fuel : Nat) : Prop where
  dop : ∀ M (d : Dop), d.noKeys = true → KeepsM DecState.keys M (decodeDop fuel d)
  sitems : ∀ M (item : Dop) (sz : Nat) (n : Nat), item.noKeys = true → KeepsM DecState.keys M (decodeStaticItems item sz fuel n)
  nitems : ∀ M (item : Dop) (n : Nat), item.noKeys = true → KeepsM DecState.keys M (decodeNItems item fuel n)
  toEnd : ∀ M (item : Dop), item.noKeys = true → KeepsM DecState.keys M (decodeToEnd item fuel)
  marker : ∀ M (tv : IVal) (td item : Dop), td.noKeys = true → item.noKeys = true →
    KeepsM DecState.keys M (decodeUntilMarker tv td item fuel)
  param : ∀ M (p : Param), p.noKeys = true → KeepsM DecState.keys M (decodeParam fuel p)
  params : ∀ M (ps : List Param), paramsNoKeys ps = true → KeepsM DecState.keys M (decodeParams fuel ps)
  comp : ∀ M (ps : List Param), paramsNoKeys ps = true → KeepsM DecState.keys M (decodeComposite fuel ps)

theorem decKeeps_zero : DecKeeps 0 := by
  constructor
  · intro M d _; simp only [decodeDop]; keeps
  · intro M item sz n _; simp only [decodeStaticItems]; keeps
  · intro M item n _; simp only [decodeNItems]; keeps
  · intro M item _; simp only [decodeToEnd]; keeps
  · intro M tv td item _ _; simp only [decodeUntilMarker]; keeps
  · intro M p _; simp only [decodeParam]; keeps
  · intro M ps _; simp only [decodeParams]; keeps
  · intro M ps _; simp only [decodeComposite]; keeps

set_option hygiene false in
local macro_rules | `(tactic| keeps_step) => `(tactic| ((with_reducible refine ihd.dop _ _ ?_) <;> (try assumption)))
set_option hygiene false in
local macro_rules | `(tactic| keeps_step) => `(tactic| ((with_reducible refine ihd.sitems _ _ _ _ ?_) <;> (try assumption)))
set_option hygiene false in
local macro_rules | `(tactic| keeps_step) => `(tactic| ((with_reducible refine ihd.nitems _ _ _ ?_) <;> (try assumption)))
set_option hygiene false in
local macro_rules | `(tactic| keeps_step) => `(tactic| ((with_reducible refine ihd.toEnd _ _ ?_) <;> (try assumption)))
set_option hygiene false in
local macro_rules | `(tactic| keeps_step) => `(tactic| ((with_reducible refine ihd.marker _ _ _ _ ?_ ?_) <;> (try assumption)))
set_option hygiene false in
local macro_rules | `(tactic| keeps_step) => `(tactic| ((with_reducible refine ihd.param _ _ ?_) <;> (try first | assumption | (simp only [Param.noKeys, PKind.noKeys]; try assumption))))
set_option hygiene false in
local macro_rules | `(tactic| keeps_step) => `(tactic| ((with_reducible refine ihd.params _ _ ?_) <;> (try assumption)))
set_option hygiene false in
local macro_rules | `(tactic| keeps_step) => `(tactic| ((with_reducible refine ihd.comp _ _ ?_) <;> (try assumption)))
local macro_rules | `(tactic| keeps_step) => `(tactic| (with_reducible refine KeepsM.tryCatch _ _ _ _ _ ?_ (fun _ => ?_)))

theorem decKeeps_dop (fuel : Nat) (ihd : DecKeeps fuel) (M) (d : Dop) (h : d.noKeys = true) :
    KeepsM DecState.keys M (decodeDop (fuel + 1) d) := by
  cases d with
  | simple dct phys cm =>
    simp only [Dop.noKeys] at h
    simp only [decodeDop]
    keeps
  | struct bs ps =>
    simp only [Dop.noKeys] at h
    simp only [decodeDop]
    keeps
  | staticField c sz item =>
    simp only [Dop.noKeys] at h
    simp only [decodeDop]
    keeps
  | dynLenField off cbp cbit cd item =>
    simp only [Dop.noKeys, Bool.and_eq_true] at h
    obtain ⟨h1, h2⟩ := h
    simp only [decodeDop]
    keeps
  | endMarkerField tv td item =>
    simp only [Dop.noKeys, Bool.and_eq_true] at h
    obtain ⟨h1, h2⟩ := h
    simp only [decodeDop]
    keeps
  | eopField mn mx item =>
    simp only [Dop.noKeys] at h
    simp only [decodeDop]
    keeps
  | unsupported => simp only [decodeDop]; keeps
  | dtc dct phys cm dtcs =>
    simp only [Dop.noKeys] at h
    simp only [decodeDop]
    keeps
  | mux bp sbp sbit sw cases dflt =>
    simp only [Dop.noKeys, Bool.and_eq_true] at h
    obtain ⟨⟨h1, h2⟩, h3⟩ := h
    simp only [decodeDop]
    keeps
    rename_i heq
    split at heq
    · rename_i c hc
      simp only [Option.some.injEq, Prod.mk.injEq] at heq
      exact caseStruct_noKeys c (caseOfKey_noKeys _ cases h2 c hc) _ heq.2
    · exact dflt_noKeys dflt h3 _ _ heq

theorem decKeeps_succ (fuel : Nat) (ihd : DecKeeps fuel) : DecKeeps (fuel + 1) where
  dop := decKeeps_dop fuel ihd
  sitems := by
    intro M item sz n h
    cases n with
    | zero => simp only [decodeStaticItems]; keeps
    | succ n => simp only [decodeStaticItems]; keeps
  nitems := by
    intro M item n h
    cases n with
    | zero => simp only [decodeNItems]; keeps
    | succ n => simp only [decodeNItems]; keeps
  toEnd := by
    intro M item h
    simp only [decodeToEnd]
    keeps
  marker := by
    intro M tv td item h1 h2
    simp only [decodeUntilMarker]
    keeps
  param := by
    intro M p h
    obtain ⟨name, bp, bitp, kind⟩ := p
    cases kind with
    | lengthKey d => cases h
    | codedConst dct v => simp only [Param.noKeys, PKind.noKeys] at h; simp only [decodeParam]; keeps
    | physConst d v => simp only [Param.noKeys, PKind.noKeys] at h; simp only [decodeParam]; keeps
    | value d dflt => simp only [Param.noKeys, PKind.noKeys] at h; simp only [decodeParam]; keeps
    | reserved bl => simp only [decodeParam]; keeps
    | matchingReq a b => simp only [decodeParam]; keeps
    | nrcConst dct vs => simp only [Param.noKeys, PKind.noKeys] at h; simp only [decodeParam]; keeps
    | unsupported => simp only [decodeParam]; keeps
  params := by
    intro M ps h
    cases ps with
    | nil => simp only [decodeParams]; keeps
    | cons p rest =>
      obtain ⟨hp, hrest⟩ := paramsNoKeys_cons p rest h
      simp only [decodeParams]; keeps
  comp := by
    intro M ps h
    simp only [decodeComposite]
    keeps

/-- **on a description without LENGTH-KEY parameters and PARAM-LENGTH-INFO-TYPE objects no decoding function of the model
    touches `length_keys`** -/
theorem decKeeps : (fuel : Nat) → DecKeeps fuel
  | 0 => decKeeps_zero
  | fuel + 1 => decKeeps_succ fuel (decKeeps fuel)


end OdxVerif.Codec
