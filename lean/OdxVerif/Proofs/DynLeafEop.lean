import OdxVerif.Model.Decode
/-! `is_end_of_pdu` through the whole encoder model: a parameter that is encoded with the flag cleared leaves it cleared
    (`encodeParam_keeps_eop_false`). Needed for parameters whose encoding depends on the flag (MIN-MAX-LENGTH-TYPE: the
    termination sequence is written iff the flag is cleared): in `composite_codec_encode_into_pdu` only the last parameter
    sees the flag set. Proof: the invariant `K ref` ("the flag is `false` or the reference value `ref`") is preserved by
    every combinator and by all seven mutually recursive encoding functions (induction on the fuel). Core Lean only. -/
namespace OdxVerif.Codec
open OdxVerif.OdxM OdxVerif.Bits

/-- the flag is cleared or has the reference value -/
def EopIn (ref : Bool) (s : EncState) : Prop := s.isEndOfPdu = false ∨ s.isEndOfPdu = ref

/-- a computation that keeps `EopIn ref` (on success) -/
def K {α : Type} (ref : Bool) (m : EncM α) : Prop :=
  ∀ s st a s', EopIn ref s → m s st = .ok (a, s') → EopIn ref s'

theorem k_pure {α : Type} (ref : Bool) (a : α) : K ref (Pure.pure a : EncM α) := by
  intro s st b s' hs h; cases h; exact hs
theorem k_pure' {α : Type} (ref : Bool) (a : α) : K ref (OdxM.pure a : EncM α) := by
  intro s st b s' hs h; cases h; exact hs
theorem k_odxraise (ref : Bool) (e : Err) : K ref (odxraise e : EncM Unit) := by
  intro s st b s' hs h
  cases st <;> simp [odxraise] at h
  obtain ⟨_, rfl⟩ := h; exact hs
theorem k_raise {α : Type} (ref : Bool) (e : Err) : K ref (raise e : EncM α) := by
  intro s st b s' hs h; simp [raise] at h
theorem k_odxassert (ref : Bool) (c : Bool) : K ref (odxassert c : EncM Unit) := by
  unfold odxassert; split
  · exact k_pure' ref ()
  · exact k_odxraise ref _
theorem k_modifyS (ref : Bool) (f : EncState → EncState) (hf : ∀ s, EopIn ref s → EopIn ref (f s)) :
    K ref (modifyS f : EncM Unit) := by
  intro s st b s' hs h; cases h; exact hf s hs
theorem k_setS (ref : Bool) (t : EncState) (ht : EopIn ref t) : K ref (setS t : EncM Unit) := by
  intro s st b s' _ h; cases h; exact ht

theorem k_bind' {α β : Type} (ref : Bool) (m : EncM α) (f : α → EncM β) (hm : K ref m) (hf : ∀ a, K ref (f a)) :
    K ref (OdxM.bind m f) := by
  intro s st b s' hs h
  unfold OdxM.bind at h
  cases hms : m s st with
  | error e => rw [hms] at h; cases h
  | ok p =>
    obtain ⟨a, s1⟩ := p
    rw [hms] at h
    exact hf a s1 st b s' (hm s st a s1 hs hms) h
theorem k_bind {α β : Type} (ref : Bool) (m : EncM α) (f : α → EncM β) (hm : K ref m) (hf : ∀ a, K ref (f a)) :
    K ref (m >>= f) := k_bind' ref m f hm hf

/-- reading the state: what follows may use that the state read satisfies the invariant (the save/restore pattern) -/
theorem k_getS_bind' {β : Type} (ref : Bool) (f : EncState → EncM β) (hf : ∀ s0, EopIn ref s0 → K ref (f s0)) :
    K ref (OdxM.bind getS f) := by
  intro s st b s' hs h
  exact hf s hs s st b s' hs h
theorem k_getS_bind {β : Type} (ref : Bool) (f : EncState → EncM β) (hf : ∀ s0, EopIn ref s0 → K ref (f s0)) :
    K ref (getS >>= f) := k_getS_bind' ref f hf

theorem k_ite {α : Type} (ref : Bool) (c : Prop) [Decidable c] (a b : EncM α) (ha : K ref a) (hb : K ref b) :
    K ref (if c then a else b) := by split <;> assumption

attribute [irreducible] K

/-- side goals of `k_modifyS` / `k_setS`: the flag is untouched, cleared, or restored from a state that had the invariant -/
macro "k_side" : tactic =>
  `(tactic| ((try intro s hs); dsimp only [EopIn] at *; first | assumption | exact Or.inl rfl))

macro "k_step" : tactic =>
  `(tactic| first
    | exact k_pure _ _ | exact k_pure' _ _ | exact k_odxraise _ _ | exact k_raise _ _ | exact k_odxassert _ _
    | assumption
    | (with_reducible apply k_getS_bind; intro s0 hs0) | (with_reducible apply k_getS_bind'; intro s0 hs0)
    | (apply k_modifyS; k_side) | (apply k_setS; k_side)
    | apply k_bind | apply k_bind' | apply k_ite
    | intro _)
macro "kk" : tactic => `(tactic| repeat (first | split | k_step))

theorem k_emplaceBytes (ref : Bool) (new : Bytes) (mask : Option Bytes) : K ref (emplaceBytes new mask) := by
  unfold emplaceBytes; kk

theorem k_rawOfInt32 (ref : Bool) (enc : Option Enc) (bl : Nat) (v : Int) : K ref (rawOfInt32 enc bl v) := by
  unfold rawOfInt32; kk
theorem k_rawOfUInt32 (ref : Bool) (enc : Option Enc) (bl : Nat) (v : Int) : K ref (rawOfUInt32 enc bl v) := by
  unfold rawOfUInt32; kk
theorem k_fitBytes (ref : Bool) (raw : Bytes) (bl : Nat) : K ref (fitBytes raw bl) := by
  unfold fitBytes; kk


macro "kk'" : tactic => `(tactic| repeat (first
    | exact k_emplaceBytes _ _ _ | exact k_rawOfInt32 _ _ _ _ | exact k_rawOfUInt32 _ _ _ _ | exact k_fitBytes _ _ _
    | k_step | split))

theorem k_emplaceAtomic (ref : Bool) (v : IVal) (bl : Nat) (bt : BaseType) (enc : Option Enc) (hl : Bool) (m : Option Bytes) :
    K ref (emplaceAtomic v bl bt enc hl m) := by
  unfold emplaceAtomic
  dsimp only
  split
  · apply k_bind
    · exact k_raise _ _
    · intro _
      apply k_bind
      · cases bt <;> cases v <;> simp only [] <;> kk'
      · intro p
        kk'
  · apply k_bind
    · cases bt <;> cases v <;> simp only [] <;> kk'
    · intro p
      kk'

theorem k_applyMask (ref : Bool) (m : Nat) (c : Bool) (v : IVal) : K ref (applyMask m c v) := by
  unfold applyMask
  cases v <;> simp only [] <;> kk'

macro "kk''" : tactic => `(tactic| repeat (first
    | exact k_emplaceAtomic _ _ _ _ _ _ _ | exact k_applyMask _ _ _ _
    | exact k_emplaceBytes _ _ _ | exact k_rawOfInt32 _ _ _ _ | exact k_rawOfUInt32 _ _ _ _ | exact k_fitBytes _ _ _
    | k_step | split))

theorem k_encodeDct (ref : Bool) (dct : Dct) (v : IVal) : K ref (encodeDct dct v) := by
  unfold encodeDct
  cases dct with
  | std bt enc hl bl mask c => cases mask <;> simp only [] <;> kk''
  | minmax bt enc hl mn mx t =>
    simp only []
    apply k_bind
    · cases v <;> simp only [] <;> kk''
    · intro raw; kk''
  | leading bt enc hl bl =>
    simp only []
    apply k_bind
    · cases bt <;> cases v <;> simp only [] <;> kk''
    · intro n; kk''
  | paramLen bt enc hl key =>
    simp only []
    apply k_getS_bind
    intro s hs
    apply k_bind
    · split
      · kk''
      · apply k_bind
        · cases bt <;> cases v <;> simp only [] <;> kk''
        · intro b; kk''
    · intro b; kk''

/-! ### the compu-method helpers (`Model/CodecCompu.lean`; they only raise / odxraise / return) -/

theorem k_methodP2I (ref : Bool) (m : Compu.Method) (p : Compu.Val) : K ref (methodP2I m p : EncM Compu.Val) := by
  unfold methodP2I
  cases m <;> simp only [] <;> kk

theorem k_methodI2P (ref : Bool) (arith : Err) (m : Compu.Method) (i : Compu.Val) :
    K ref (methodI2P arith m i : EncM (Option Compu.Val)) := by
  unfold methodI2P
  cases m <;> simp only [] <;> kk

macro "kkc" : tactic => `(tactic| repeat (first
    | exact k_methodP2I _ _ _ | exact k_methodI2P _ _ _ _ | k_step | split))

theorem k_dopP2I (ref : Bool) (m : Compu.Method) (v : IVal) : K ref (dopP2I m v : EncM IVal) := by
  unfold dopP2I
  kkc

theorem k_cmKeyValid (ref : Bool) (cm : CCompu) (ity pty : BaseType) (i : Int) : K ref (cmKeyValid cm ity pty i) := by
  unfold cmKeyValid
  kkc

theorem k_keyValidCheck (ref : Bool) (dop : Dop) (i : Int) : K ref (keyValidCheck dop i) := by
  unfold keyValidCheck
  split
  · exact k_cmKeyValid _ _ _ _ _
  · exact k_raise _ _
  · exact k_pure _ _

theorem k_cmKeyRepr (ref : Bool) (cm : CCompu) (ity pty : BaseType) (v : Int) : K ref (cmKeyRepr cm ity pty v) := by
  unfold cmKeyRepr
  kkc

theorem k_keyReprCheck (ref : Bool) (dop : Dop) (v : Int) : K ref (keyReprCheck dop v) := by
  unfold keyReprCheck
  split
  · exact k_cmKeyRepr _ _ _ _ _
  · exact k_pure _ _

macro "kk3" : tactic => `(tactic| repeat (first
    | exact k_emplaceAtomic _ _ _ _ _ _ _ | exact k_encodeDct _ _ _
    | exact k_emplaceBytes _ _ _ | exact k_keyValidCheck _ _ _ | exact k_keyReprCheck _ _ _
    | k_step | split | dsimp only))

theorem k_encodeKeyPlaceholder (ref : Bool) (name : String) (bytePos bitPos : Option Nat) (dop : Dop) (pv : Option PVal) :
    K ref (encodeKeyPlaceholder name bytePos bitPos dop pv) := by
  unfold encodeKeyPlaceholder
  kk3


/-- all seven mutually recursive encoding functions keep the invariant, by induction on the fuel; the item loops and
    the parameter loop re-install the flag value `eop` they are given for the last item / parameter -/
theorem k_encode_all (fuel : Nat) : ∀ (ref : Bool),
    (∀ d pv, K ref (encodeDop fuel d pv)) ∧
    (∀ item eop xs, (eop = false ∨ eop = ref) → K ref (encodeItems item eop fuel xs)) ∧
    (∀ item sz eop xs, K ref (encodeStaticItems item sz eop fuel xs)) ∧
    (∀ p pv, K ref (encodeParam fuel p pv)) ∧
    (∀ eop values ps, (eop = false ∨ eop = ref) → K ref (encodeParams eop values fuel ps)) ∧
    (∀ ps, K ref (encodeKeyValues fuel ps)) ∧
    (∀ ps pv, K ref (encodeComposite fuel ps pv)) := by
  induction fuel with
  | zero =>
    intro ref
    refine ⟨?_, ?_, ?_, ?_, ?_, ?_, ?_⟩ <;> intros
    · unfold encodeDop; exact k_raise _ _
    · unfold encodeItems; exact k_raise _ _
    · unfold encodeStaticItems; exact k_raise _ _
    · unfold encodeParam; exact k_raise _ _
    · unfold encodeParams; exact k_raise _ _
    · unfold encodeKeyValues; exact k_raise _ _
    · unfold encodeComposite; exact k_raise _ _
  | succ fuel ih =>
    intro ref
    obtain ⟨ihDop, ihItems, ihStatic, ihParam, ihParams, ihKeys, ihComp⟩ := ih ref
    refine ⟨?_, ?_, ?_, ?_, ?_, ?_, ?_⟩
    · intro d pv
      cases d <;> unfold encodeDop <;>
        repeat (first
          | exact ihDop _ _ | (apply ihItems; assumption) | exact ihStatic _ _ _ _ | exact ihComp _ _ | exact ihParam _ _
          | exact k_encodeDct _ _ _ | exact k_emplaceBytes _ _ _ | exact k_dopP2I _ _ _ | exact k_methodP2I _ _ _
          | exact k_methodI2P _ _ _ _ | exact k_keyValidCheck _ _ _ | exact k_keyReprCheck _ _ _
          | k_step | split | dsimp only
          | (simp only [Nat.succ_eq_add_one, Nat.add_right_cancel_iff] at *; subst_vars))
    · intro item eop xs heop
      unfold encodeItems
      repeat (first
          | exact ihDop _ _ | (apply ihItems; assumption)
          | k_step | split | dsimp only
          | (simp only [Nat.succ_eq_add_one, Nat.add_right_cancel_iff] at *; subst_vars))
    · intro item sz eop xs
      unfold encodeStaticItems
      repeat (first
          | exact ihDop _ _ | exact ihStatic _ _ _ _ | exact k_emplaceBytes _ _ _
          | k_step | split | dsimp only
          | (simp only [Nat.succ_eq_add_one, Nat.add_right_cancel_iff] at *; subst_vars))
    · intro p pv
      unfold encodeParam
      repeat (first
          | exact ihDop _ _ | exact k_encodeDct _ _ _ | exact k_emplaceBytes _ _ _
          | k_step | split | dsimp only
          | (simp only [Nat.succ_eq_add_one, Nat.add_right_cancel_iff] at *; subst_vars))
    · intro eop values ps heop
      unfold encodeParams
      repeat (first
          | exact ihParam _ _ | (apply ihParams; assumption) | exact k_encodeKeyPlaceholder _ _ _ _ _ _
          | k_step | split | dsimp only
          | (simp only [Nat.succ_eq_add_one, Nat.add_right_cancel_iff] at *; subst_vars))
    · intro ps
      unfold encodeKeyValues
      repeat (first
          | exact ihDop _ _ | exact ihKeys _ | exact k_keyReprCheck _ _ _ | exact k_keyValidCheck _ _ _
          | k_step | split | dsimp only
          | (simp only [Nat.succ_eq_add_one, Nat.add_right_cancel_iff] at *; subst_vars))
    · intro ps pv
      unfold encodeComposite
      repeat (first
          | (apply ihParams; assumption) | exact ihKeys _
          | k_step | split | dsimp only
          | (simp only [Nat.succ_eq_add_one, Nat.add_right_cancel_iff] at *; subst_vars))


/-- **A parameter encoded with `is_end_of_pdu` cleared leaves it cleared** (any parameter of the model, any value, strict
    or lenient). -/
theorem encodeParam_keeps_eop_false (fuel : Nat) (p : Param) (pv : Option PVal) (s : EncState) (st : Bool) (s' : EncState)
    (h : encodeParam fuel p pv s st = .ok ((), s')) (hs : s.isEndOfPdu = false) : s'.isEndOfPdu = false := by
  have := (k_encode_all fuel false).2.2.2.1 p pv
  unfold K at this
  rcases this s st () s' (Or.inl hs) h with h | h <;> exact h

end OdxVerif.Codec
