import OdxVerif.Proofs.CompDescribed
import OdxVerif.Proofs.FlatReencode
import OdxVerif.Props.C02
/-! Bit-exactness for the compositional tier (task W12), part 1: the *layout* of a component and the *footprint law*.
    A layout entry (`Ent`) is a positioned bit field with the raw pattern the ODX rules prescribe for it — a leaf value, a
    constant, a default, or one of the DERIVED objects (item count of a DYNAMIC-LENGTH-FIELD, switch key of a MULTIPLEXER,
    zero padding of a STATIC-FIELD item).  A `Lay` gives, from the origin and the cursor in front of a component only (no
    encoder state), its entries, the cursor behind it and the furthest byte it touches.  `Foot enc l` — the footprint law —
    says that the pure encoder `enc` changes the message exactly on the bits of `l`'s entries and sets them to the prescribed
    values, claims exactly those bits, and issues an overlap warning exactly when two entries intersect or an entry hits a
    bit that was claimed before.  `Foot` is closed under the combinators the pure pairs of `Proofs/Comp*.lean` are built
    from (`Foot.seq`, `.inOrigin`, `.atPos`, leaves, padding), which is all that the closure lemmas of
    `Proofs/CompBitsDesc.lean` need. -/
namespace OdxVerif.Codec
open OdxVerif.Bits OdxVerif.OdxM

/-- what a layout entry is -/
inductive Role where
  | value        -- VALUE parameter, value supplied
  | default      -- VALUE parameter, PHYSICAL-DEFAULT-VALUE
  | codedConst   -- CODED-CONST
  | physConst    -- PHYS-CONST
  | count        -- derived: number of items of a DYNAMIC-LENGTH-FIELD
  | switchKey    -- derived: switch key of a MULTIPLEXER (lower limit of the selected CASE / `defaultCaseKey`)
  | padding      -- derived: zero bytes behind a STATIC-FIELD item up to ITEM-BYTE-SIZE
deriving Repr, DecidableEq, Inhabited

/-- a positioned bit field: `k` bytes from absolute byte `pos`, byte order `hl`, `bl` bits from bit position `bp` of the
    `k`-byte number, holding the pattern `raw` -/
structure Ent where
  role : Role
  name : String
  pos : Nat
  k : Nat
  hl : Bool
  bp : Nat
  bl : Nat
  raw : Nat
deriving Repr, DecidableEq

/-- absolute position of bit `j` of the entry -/
def Ent.abs (e : Ent) (j : Nat) : Nat := absBit e.pos e.k e.hl (j + e.bp)
def Ent.claims (e : Ent) (a : Nat) : Prop := ∃ j, j < e.bl ∧ a = e.abs j

/-- no two entries claim the same bit -/
def LDisj (L : List Ent) : Prop := L.Pairwise (fun e1 e2 => ∀ a, ¬ (e1.claims a ∧ e2.claims a))
/-- no entry claims a bit that is already used -/
def LFree (used : Bytes) (L : List Ent) : Prop := ∀ e ∈ L, ∀ a, e.claims a → getBit used a = false
def LClaims (L : List Ent) (a : Nat) : Prop := ∃ e ∈ L, e.claims a
/-- the bit field lies inside its `k` bytes -/
def Ent.wf (e : Ent) : Prop := e.bl + e.bp ≤ 8 * e.k

theorem LClaims_append (L1 L2 : List Ent) (a : Nat) : LClaims (L1 ++ L2) a ↔ LClaims L1 a ∨ LClaims L2 a := by
  unfold LClaims
  constructor
  · rintro ⟨e, he, hc⟩
    rcases List.mem_append.mp he with h | h
    · exact Or.inl ⟨e, h, hc⟩
    · exact Or.inr ⟨e, h, hc⟩
  · rintro (⟨e, he, hc⟩ | ⟨e, he, hc⟩)
    · exact ⟨e, List.mem_append_left _ he, hc⟩
    · exact ⟨e, List.mem_append_right _ he, hc⟩

theorem LClaims_nil (a : Nat) : ¬ LClaims [] a := by
  rintro ⟨e, he, _⟩; cases he

theorem LFree_append (u : Bytes) (L1 L2 : List Ent) : LFree u (L1 ++ L2) ↔ LFree u L1 ∧ LFree u L2 := by
  unfold LFree
  constructor
  · intro h
    exact ⟨fun e he => h e (List.mem_append_left _ he), fun e he => h e (List.mem_append_right _ he)⟩
  · rintro ⟨h1, h2⟩ e he
    rcases List.mem_append.mp he with h | h
    · exact h1 e h
    · exact h2 e h

theorem LDisj_append (L1 L2 : List Ent) :
    LDisj (L1 ++ L2) ↔ LDisj L1 ∧ LDisj L2 ∧ ∀ a, ¬ (LClaims L1 a ∧ LClaims L2 a) := by
  unfold LDisj
  rw [List.pairwise_append]
  constructor
  · rintro ⟨h1, h2, h3⟩
    refine ⟨h1, h2, ?_⟩
    rintro a ⟨⟨e1, he1, hc1⟩, ⟨e2, he2, hc2⟩⟩
    exact h3 e1 he1 e2 he2 a ⟨hc1, hc2⟩
  · rintro ⟨h1, h2, h3⟩
    refine ⟨h1, h2, ?_⟩
    intro e1 he1 e2 he2 a hc
    exact h3 a ⟨⟨e1, he1, hc.1⟩, ⟨e2, he2, hc.2⟩⟩

theorem Ent.claims_bytes (e : Ent) (hwf : e.wf) (a : Nat) (h : e.claims a) : e.pos ≤ a / 8 ∧ a / 8 < e.pos + e.k := by
  obtain ⟨j, hj, rfl⟩ := h
  unfold Ent.wf at hwf
  have hj8 : j + e.bp < 8 * e.k := by omega
  unfold Ent.abs absBit
  cases e.hl <;> simp <;> omega

/-- the layout of a component as a function of the origin and the cursor in front of it -/
structure Lay where
  ents : Nat → Nat → List Ent          -- the entries, in encoding order
  cur : Nat → Nat → Nat                -- the cursor behind the component
  ext : Nat → Nat → Nat                -- the byte behind the furthest byte the encoder touches (0: none)

/-- `msg` and `used_mask` have equal length (`EncodeState.__post_init__`) and the mask consists of bytes; kept by every
    operation of the encoder -/
def UsedOk (s : EncState) : Prop := s.used.length = s.msg.length ∧ AllBytes s.used

/-- **the footprint law** -/
structure Foot (enc : EncState → EncState) (l : Lay) : Prop where
  cursor : ∀ s, (enc s).cursorByte = l.cur s.origin s.cursorByte
  origin : ∀ s, (enc s).origin = s.origin
  warn_mono : ∀ s, s.warn ≤ (enc s).warn
  inv : ∀ s, UsedOk s → UsedOk (enc s)
  /-- without an overlap warning every entry's bits hold the prescribed pattern -/
  inside : ∀ s, UsedOk s → (enc s).warn = s.warn → ∀ e ∈ l.ents s.origin s.cursorByte, ∀ j, j < e.bl →
    getBit (enc s).msg (e.abs j) = e.raw.testBit j
  /-- a bit outside the layout keeps its value -/
  outside : ∀ s a, ¬ LClaims (l.ents s.origin s.cursorByte) a → getBit (enc s).msg a = getBit s.msg a
  /-- claimed afterwards = claimed before or claimed by an entry -/
  used_iff : ∀ s, UsedOk s → ∀ a, getBit (enc s).used a = true ↔ (getBit s.used a = true ∨ LClaims (l.ents s.origin s.cursorByte) a)
  /-- no overlap warning ⇔ the entries are pairwise disjoint and hit no bit claimed before -/
  nowarn_iff : ∀ s, UsedOk s → ((enc s).warn = s.warn ↔
    (LDisj (l.ents s.origin s.cursorByte) ∧ LFree s.used (l.ents s.origin s.cursorByte)))
  length : ∀ s, (enc s).msg.length = max s.msg.length (l.ext s.origin s.cursorByte)
  within : ∀ org c, ∀ e ∈ l.ents org c, e.wf ∧ e.pos + e.k ≤ l.ext org c

/-! ### combinators -/

def Lay.nil : Lay := { ents := fun _ _ => [], cur := fun _ c => c, ext := fun _ _ => 0 }

def Lay.seq (a b : Lay) : Lay where
  ents := fun org c => a.ents org c ++ b.ents org (a.cur org c)
  cur := fun org c => b.cur org (a.cur org c)
  ext := fun org c => max (a.ext org c) (b.ext org (a.cur org c))

/-- the content of a composite object is laid out relative to the object's own first byte -/
def Lay.inOrigin (l : Lay) : Lay where
  ents := fun _ c => l.ents c c
  cur := fun _ c => l.cur c c
  ext := fun _ c => l.ext c c

def Lay.atPos (bp : Option Nat) (l : Lay) : Lay where
  ents := fun org c => l.ents org (posOf bp org c)
  cur := fun org c => l.cur org (posOf bp org c)
  ext := fun org c => l.ext org (posOf bp org c)

theorem Foot.nil : Foot id Lay.nil where
  cursor := fun _ => rfl
  origin := fun _ => rfl
  warn_mono := fun _ => Nat.le_refl _
  inv := fun _ h => h
  inside := fun _ _ _ e he => by cases he
  outside := fun _ _ _ => rfl
  used_iff := fun s _ a => ⟨Or.inl, fun h => h.elim id (fun h => absurd h (LClaims_nil a))⟩
  nowarn_iff := fun s _ => ⟨fun _ => ⟨List.Pairwise.nil, fun e he => by cases he⟩, fun _ => rfl⟩
  length := fun s => by simp [Lay.nil]
  within := fun _ _ e he => by cases he

theorem getBit_false_iff (u : Bytes) (a : Nat) : getBit u a = false ↔ ¬ getBit u a = true := by
  cases getBit u a <;> simp

theorem Foot.seq {ea eb : EncState → EncState} {la lb : Lay} (ha : Foot ea la) (hb : Foot eb lb) :
    Foot (fun s => eb (ea s)) (la.seq lb) := by
  have hpos : ∀ s, lb.ents (ea s).origin (ea s).cursorByte = lb.ents s.origin (la.cur s.origin s.cursorByte) := by
    intro s; rw [ha.origin, ha.cursor]
  have hsplit : ∀ s, (eb (ea s)).warn = s.warn ↔ ((ea s).warn = s.warn ∧ (eb (ea s)).warn = (ea s).warn) := by
    intro s
    have h1 := ha.warn_mono s
    have h2 := hb.warn_mono (ea s)
    constructor
    · intro h; constructor <;> omega
    · intro h; omega
  -- bits claimed by `la` are not claimed by `lb` when `eb` raises no warning
  have hcross : ∀ s, UsedOk s → (eb (ea s)).warn = (ea s).warn → ∀ a, LClaims (la.ents s.origin s.cursorByte) a →
      ¬ LClaims (lb.ents s.origin (la.cur s.origin s.cursorByte)) a := by
    intro s hu hw a hca ⟨e, he, hc⟩
    have hfree := ((hb.nowarn_iff (ea s) (ha.inv s hu)).mp hw).2
    rw [hpos] at hfree
    have := hfree e he a hc
    rw [getBit_false_iff] at this
    exact this ((ha.used_iff s hu a).mpr (Or.inr hca))
  exact {
    cursor := fun s => by show (eb (ea s)).cursorByte = _; rw [hb.cursor, ha.origin, ha.cursor]; rfl
    origin := fun s => by show (eb (ea s)).origin = _; rw [hb.origin, ha.origin]
    warn_mono := fun s => Nat.le_trans (ha.warn_mono s) (hb.warn_mono _)
    inv := fun s h => hb.inv _ (ha.inv s h)
    inside := by
      intro s hu hw e he j hj
      obtain ⟨hwa, hwb⟩ := (hsplit s).mp hw
      rcases List.mem_append.mp he with h | h
      · have h1 := ha.inside s hu hwa e h j hj
        have hcl : LClaims (la.ents s.origin s.cursorByte) (e.abs j) := ⟨e, h, j, hj, rfl⟩
        have hno := hcross s hu hwb _ hcl
        rw [← hpos] at hno
        show getBit (eb (ea s)).msg (e.abs j) = _
        rw [hb.outside (ea s) _ hno, h1]
      · rw [← hpos] at h
        exact hb.inside (ea s) (ha.inv s hu) hwb e h j hj
    outside := by
      intro s a hno
      have hno' : ¬ LClaims (la.ents s.origin s.cursorByte) a ∧ ¬ LClaims (lb.ents s.origin (la.cur s.origin s.cursorByte)) a := by
        constructor
        · intro h; exact hno ((LClaims_append _ _ a).mpr (Or.inl h))
        · intro h; exact hno ((LClaims_append _ _ a).mpr (Or.inr h))
      show getBit (eb (ea s)).msg a = _
      rw [hb.outside (ea s) a (by rw [hpos]; exact hno'.2), ha.outside s a hno'.1]
    used_iff := by
      intro s hu a
      show getBit (eb (ea s)).used a = true ↔ (_ ∨ LClaims (la.ents s.origin s.cursorByte ++ lb.ents s.origin (la.cur s.origin s.cursorByte)) a)
      rw [hb.used_iff (ea s) (ha.inv s hu) a, ha.used_iff s hu a, hpos, LClaims_append]
      constructor
      · rintro ((h | h) | h)
        · exact Or.inl h
        · exact Or.inr (Or.inl h)
        · exact Or.inr (Or.inr h)
      · rintro (h | h | h)
        · exact Or.inl (Or.inl h)
        · exact Or.inl (Or.inr h)
        · exact Or.inr h
    nowarn_iff := by
      intro s hu
      show (eb (ea s)).warn = s.warn ↔ (LDisj (la.ents s.origin s.cursorByte ++ lb.ents s.origin (la.cur s.origin s.cursorByte)) ∧
        LFree s.used (la.ents s.origin s.cursorByte ++ lb.ents s.origin (la.cur s.origin s.cursorByte)))
      rw [hsplit, ha.nowarn_iff s hu, hb.nowarn_iff (ea s) (ha.inv s hu), hpos, LDisj_append, LFree_append]
      constructor
      · rintro ⟨⟨hda, hfa⟩, hdb, hfb⟩
        have hcr : ∀ a, ¬ (LClaims (la.ents s.origin s.cursorByte) a ∧ LClaims (lb.ents s.origin (la.cur s.origin s.cursorByte)) a) := by
          rintro a ⟨h1, e, he, hc⟩
          have := hfb e he a hc
          rw [getBit_false_iff] at this
          exact this ((ha.used_iff s hu a).mpr (Or.inr h1))
        refine ⟨⟨hda, hdb, hcr⟩, hfa, ?_⟩
        intro e he a hc
        have := hfb e he a hc
        rw [getBit_false_iff] at this ⊢
        intro h
        exact this ((ha.used_iff s hu a).mpr (Or.inl h))
      · rintro ⟨⟨hda, hdb, hcr⟩, hfa, hfb⟩
        refine ⟨⟨hda, hfa⟩, hdb, ?_⟩
        intro e he a hc
        rw [getBit_false_iff]
        intro h
        rcases (ha.used_iff s hu a).mp h with h | h
        · have := hfb e he a hc
          rw [this] at h; cases h
        · exact hcr a ⟨h, e, he, hc⟩
    length := by
      intro s
      show (eb (ea s)).msg.length = max s.msg.length (max (la.ext s.origin s.cursorByte) (lb.ext s.origin (la.cur s.origin s.cursorByte)))
      rw [hb.length, ha.length, ha.origin, ha.cursor]
      omega
    within := by
      intro org c e he
      show e.wf ∧ e.pos + e.k ≤ max (la.ext org c) (lb.ext org (la.cur org c))
      rcases List.mem_append.mp he with h | h
      · have := ha.within org c e h
        exact ⟨this.1, by omega⟩
      · have := hb.within org (la.cur org c) e h
        exact ⟨this.1, by omega⟩ }

theorem Foot.inOrigin {enc : EncState → EncState} {l : Lay} (h : Foot enc l) :
    Foot (fun s => { enc { s with origin := s.cursorByte } with origin := s.origin }) l.inOrigin where
  cursor := fun s => h.cursor { s with origin := s.cursorByte }
  origin := fun _ => rfl
  warn_mono := fun s => h.warn_mono { s with origin := s.cursorByte }
  inv := fun s hu => h.inv { s with origin := s.cursorByte } hu
  inside := fun s hu hw => h.inside { s with origin := s.cursorByte } hu hw
  outside := fun s => h.outside { s with origin := s.cursorByte }
  used_iff := fun s hu => h.used_iff { s with origin := s.cursorByte } hu
  nowarn_iff := fun s hu => h.nowarn_iff { s with origin := s.cursorByte } hu
  length := fun s => h.length { s with origin := s.cursorByte }
  within := fun _ c => h.within c c

theorem Foot.atPos (bp : Option Nat) {enc : EncState → EncState} {l : Lay} (h : Foot enc l) :
    Foot (fun s => enc { s with cursorByte := posOf bp s.origin s.cursorByte }) (l.atPos bp) where
  cursor := fun s => h.cursor { s with cursorByte := posOf bp s.origin s.cursorByte }
  origin := fun s => h.origin { s with cursorByte := posOf bp s.origin s.cursorByte }
  warn_mono := fun s => h.warn_mono { s with cursorByte := posOf bp s.origin s.cursorByte }
  inv := fun s hu => h.inv { s with cursorByte := posOf bp s.origin s.cursorByte } hu
  inside := fun s hu hw => h.inside { s with cursorByte := posOf bp s.origin s.cursorByte } hu hw
  outside := fun s => h.outside { s with cursorByte := posOf bp s.origin s.cursorByte }
  used_iff := fun s hu => h.used_iff { s with cursorByte := posOf bp s.origin s.cursorByte } hu
  nowarn_iff := fun s hu => h.nowarn_iff { s with cursorByte := posOf bp s.origin s.cursorByte } hu
  length := fun s => h.length { s with cursorByte := posOf bp s.origin s.cursorByte }
  within := fun org c => h.within org (posOf bp org c)

end OdxVerif.Codec
