import OdxVerif.Proofs.CompReject2ByteSize
import OdxVerif.Proofs.CompReject2DynMM
/-! Compositional tier, rejection side, second part (task W18, C04): the inductive class **`DescribedP2`** of parameter
    DESCRIPTIONS — `DescribedP` (`Proofs/CompRejectDescribed.lean`) with VALUE leaves (with or without PHYSICAL-DEFAULT-VALUE)
    of **all nine kinds**, LEADING-LENGTH-INFO-TYPE leaves over `A_BYTEFIELD` and the string base types, MIN-MAX-LENGTH-TYPE leaves over `A_BYTEFIELD` and the string base types ended by the
    end of the PDU (last parameter: `mayEop`), VALUE parameters typed by a STRUCTURE with BYTE-SIZE, and field items with optional BYTE-SIZE — is
    sound for inputs whose atoms Python can supply (`DescribedP2.okW : DescribedP2 p → p.OkW`); the message level
    (`encodeMessage_nested2_cases`). -/
namespace OdxVerif.Codec
open OdxVerif.Bits OdxVerif.OdxM

inductive DescribedP2 : PDesc → Prop
  | value (o : Obj) : o.ok → DescribedP2 (PDesc.ofObjValue o o.typedLeaf)
  | valueDefault (o : Obj) (dv : IVal) : o.ok → o.inRange dv → DescribedP2 (PDesc.ofObjDefault o dv o.typedLeaf)
  | const (o : Obj) (c : IVal) : o.ok → o.inRange c → DescribedP2 (PDesc.ofObjConst o c)
  | physConst (o : Obj) (c : IVal) : o.ok → o.inRange c → DescribedP2 (PDesc.ofObjPhysConst o c)
  | leadBytes (sh : LeadShape) : sh.ok → DescribedP2 (PDesc.ofLeadBytes sh)
  | leadStr (sh : LeadStrShape) : sh.ok → DescribedP2 (PDesc.ofLeadStr sh)
  | minmaxLastBytes (sh : MMShape) : sh.ok → DescribedP2 (PDesc.ofMinMaxLastBytes sh)
  | minmaxLastStr (sh : MMStrShape) : sh.ok → DescribedP2 (PDesc.ofMinMaxLastStr sh)
  | struct (name : String) (bp : Option Nat) (ps : List PDesc) :
      (∀ p ∈ ps, DescribedP2 p) → PDescs.namesOk ps → PDescs.eopLast ps →
      DescribedP2 (PDesc.ofValue name bp (DDesc.struct ps))
  | structBS (name : String) (bp : Option Nat) (bs : Nat) (ps : List PDesc) :
      (∀ p ∈ ps, DescribedP2 p) → PDescs.namesOk ps → PDescs.anyEop ps = false →
      DescribedP2 (PDesc.ofValue name bp (DDesc.structBS bs ps))
  | staticField (name : String) (bp : Option Nat) (count itemSize : Nat) (bso : Option Nat) (shape : List PDesc) :
      (∀ p ∈ shape, DescribedP2 p) → PDescs.namesOk shape → PDescs.anyEop shape = false →
      DescribedP2 (PDesc.ofValue name bp (DDesc.staticField count itemSize (DDesc.structO bso shape)))
  | dynLenField (name : String) (bp : Option Nat) (l : DynLayout) (bso : Option Nat) (shape : List PDesc) :
      (∀ p ∈ shape, DescribedP2 p) → PDescs.namesOk shape → PDescs.anyEop shape = false →
      1 ≤ (DDesc.structO bso shape).minSize →
      l.cntObj.ok → l.cntObj.isInt → l.cntBp + l.cntObj.k ≤ l.offset →
      DescribedP2 (PDesc.ofValue name bp (DDesc.dynLenField l (DDesc.structO bso shape)))
  | eopField (name : String) (bp : Option Nat) (mn mx : Option Nat) (bso : Option Nat) (shape : List PDesc) :
      (∀ p ∈ shape, DescribedP2 p) → PDescs.namesOk shape → PDescs.anyEop shape = false →
      1 ≤ (DDesc.structO bso shape).minSize →
      DescribedP2 (PDesc.ofValue name bp (DDesc.eopField mn mx (DDesc.structO bso shape)))
  | mux (name : String) (bp : Option Nat) (m : MuxShape) :
      (∀ c ∈ m.cases, ∀ p ∈ c.kids, DescribedP2 p) → (∀ c ∈ m.cases, PDescs.namesOk c.kids ∧ PDescs.eopLast c.kids) →
      (∀ dn kids, m.dflt = some (dn, kids) → (∀ p ∈ kids, DescribedP2 p)) →
      (∀ dn kids, m.dflt = some (dn, kids) → PDescs.namesOk kids ∧ PDescs.eopLast kids) →
      m.toDesc.keyObj.ok → m.toDesc.keyObj.isInt → m.toDesc.casesOk →
      DescribedP2 (PDesc.ofValue name bp (DDesc.mux m.toDesc))

/-- **soundness of `DescribedP2`** -/
theorem DescribedP2.okW {p : PDesc} (h : DescribedP2 p) : p.OkW := by
  induction h with
  | value o ho => exact PDesc.ofObjValue_okW o _ ho (o.rejectsW ho)
  | valueDefault o dv ho hdv => exact PDesc.ofObjDefault_okW o dv _ ho hdv (o.rejectsW ho)
  | const o c ho hc => exact (PDesc.ofObjConst_ok o c ho hc).toW
  | physConst o c ho hc => exact (PDesc.ofObjPhysConst_ok o c ho hc).toW
  | leadBytes sh hsh => exact PDesc.ofLeadBytes_okW sh hsh
  | leadStr sh hsh => exact PDesc.ofLeadStr_okW sh hsh
  | minmaxLastBytes sh hsh => exact PDesc.ofMinMaxLastBytes_okW sh hsh
  | minmaxLastStr sh hsh => exact PDesc.ofMinMaxLastStr_okW sh hsh
  | struct name bp ps _ hn hl ih => exact PDesc.ofValue_okW name bp _ (DDesc.struct_okW ps ih hn hl)
  | structBS name bp bs ps _ hn hne ih => exact PDesc.ofValue_okW name bp _ (DDesc.structBS_okW bs ps ih hn hne)
  | staticField name bp count n bso shape _ hn hne ih =>
    exact PDesc.ofValue_okW name bp _ (DDesc.staticField_okW count n _
      (DDesc.structO_okW bso shape ih hn hne) (DDesc.structO_mayEop bso shape hne))
  | dynLenField name bp l bso shape _ hn hne hadv hc hint hoff ih =>
    exact PDesc.ofValue_okW name bp _ (DDesc.dynLenField_okW l _
      (DDesc.structO_okW bso shape ih hn hne) (DDesc.structO_mayEop bso shape hne) hadv hc hint hoff)
  | eopField name bp mn mx bso shape _ hn hne hadv ih =>
    exact PDesc.ofValue_okW name bp _ (DDesc.eopField_okW mn mx _
      (DDesc.structO_okW bso shape ih hn hne) (DDesc.structO_mayEop bso shape hne) hadv)
  | mux name bp m _ hcs _ hds hk hint hcases ih ihd =>
    refine PDesc.ofValue_okW name bp _ (DDesc.mux_okW m.toDesc hk hint ?_ hcases)
    intro d hd
    rcases hd with ⟨c, hc, rfl⟩ | ⟨dn, hdf⟩
    · obtain ⟨c0, hc0, rfl⟩ := List.mem_map.mp hc
      exact DDesc.struct_okW c0.kids (ih c0 hc0) (hcs c0 hc0).1 (hcs c0 hc0).2
    · cases hm : m.dflt with
      | none => simp [MuxShape.toDesc, hm] at hdf
      | some q =>
        obtain ⟨n, kids⟩ := q
        simp only [MuxShape.toDesc, hm, Option.some.injEq, Prod.mk.injEq] at hdf
        rw [← hdf.2]
        exact DDesc.struct_okW kids (ihd n kids hm) (hds n kids hm).1 (hds n kids hm).2

/-! ### the message level -/

/-- **`Request.encode` of the model on described parameters and any supplied value whatsoever**: a library error (or
    `unmodelled` at an untyped spot), or the PDU of the component `c` the value makes of the description — whose decoding
    returns `c`'s value, the completion of the supplied value -/
theorem encodeMessage_nested2_cases (ps : List PDesc) (hok : ∀ p ∈ ps, p.OkW) (hn : PDescs.namesOk ps) (hl : PDescs.eopLast ps)
    (pv : PVal) (hwf : pv.wfAtoms = true) (trig : Option Bytes) (hneed : (DDesc.struct ps).need pv ≤ modelFuel) :
    ((DDesc.struct ps).fill pv = none ∧
      ∃ e, encodeMessage none (PDescs.toParams ps) pv trig true = .error e ∧ RejErr e ((DDesc.struct ps).typed pv)) ∨
    (∃ c, (DDesc.struct ps).fill pv = some c ∧ c.Fills (DDesc.struct ps) pv ∧
      ∃ pdu w, encodeMessage none (PDescs.toParams ps) pv trig true = .ok (pdu, w) ∧
        (w = 0 → (c.eopOnly = true → c.size = pdu.length) →
          ∃ cursor, decodeMessage none (PDescs.toParams ps) pdu true = .ok ((DDesc.struct ps).complete pv, cursor))) := by
  have hS := DDesc.struct_okW ps hok hn hl
  cases hf : (DDesc.struct ps).fill pv with
  | none =>
    obtain ⟨e, s', hrun, he⟩ := hS.rej pv hwf hf modelFuel hneed { trig := trig, isEndOfPdu := true } rfl (fun _ => rfl)
    refine Or.inl ⟨rfl, e, ?_, he⟩
    have hrun' : encodeDop modelFuel (.struct none (PDescs.toParams ps)) pv { trig := trig, isEndOfPdu := true } true
        = .error (e, s') := hrun
    unfold encodeMessage
    rw [hrun']
  | some c =>
    have hc := hS.acc pv c hf
    have hneed' : c.need ≤ modelFuel := Nat.le_trans hc.need hneed
    obtain ⟨s1, hrun, _, _⟩ := hc.ok.encode_eq modelFuel hneed' { trig := trig, isEndOfPdu := true } rfl (fun _ => rfl)
    rw [hc.dop, hc.sup] at hrun
    have hrun' : encodeDop modelFuel (.struct none (PDescs.toParams ps)) pv { trig := trig, isEndOfPdu := true } true
        = .ok ((), s1) := hrun
    have henc : encodeMessage none (PDescs.toParams ps) pv trig true = .ok (s1.msg, s1.warn) := by
      unfold encodeMessage
      rw [hrun']
    refine Or.inr ⟨c, rfl, hc, s1.msg, s1.warn, henc, ?_⟩
    intro hw hsize
    have henc0 : encodeMessage none (PDescs.toParams ps) c.sup trig true = .ok (s1.msg, 0) := by rw [hc.sup, henc, hw]
    obtain ⟨cursor, hdec⟩ := dcomp_roundtrip_msg_end c hc.ok hc.endOk (PDescs.toParams ps) hc.dop hneed' trig s1.msg hsize henc0
    exact ⟨cursor, by rw [hdec, hc.val]⟩

end OdxVerif.Codec
