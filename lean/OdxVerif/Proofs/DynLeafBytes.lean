import OdxVerif.Proofs.DynLeafBase
import OdxVerif.Proofs.DynLeafFind
/-! Leaves of input-dependent size: the byte payload (`emplace_atomic_value` / `extract_atomic_value` of `8·n` bits of
    `A_BYTEFIELD` at a byte-aligned cursor) as a pure pair whose decoder returns the bytes of the message (`Pair.bytesAt`),
    and the `A_UINT32` length prefix at the current cursor (`curObj`). Core Lean only. -/
set_option linter.unusedSimpArgs false
namespace OdxVerif.Codec
open OdxVerif.Bits OdxVerif.OdxM

/-- the payload of `n` bytes as a standard-length `A_BYTEFIELD` object at the cursor -/
def bytesObj (n : Nat) : Obj :=
  { name := "", bytePos := none, bitPos := none, enc := none, hl := true, bl := 8 * n, kind := .bytes }

theorem bytesObj_ok (n : Nat) (hn : 1 ≤ n) : (bytesObj n).ok := by
  refine ⟨Or.inl rfl, ?_, ?_, rfl⟩
  · show 1 ≤ 8 * n; omega
  · show 8 * n % 8 = 0; omega

theorem bytesObj_k (n : Nat) : (bytesObj n).k = n := by
  show (8 * n + 0 + 7) / 8 = n; omega

theorem placeUsed_length (used : Bytes) (pos n : Nat) (mask : Bytes) (hm : mask.length = n) :
    (placeUsed used pos n mask).length = max used.length (pos + n) := by
  unfold placeUsed
  simp only [List.length_append, List.length_take, List.length_drop, orBytes_length, padTo_length, hm]
  omega

/-- behind an object emplaced with a mask the used-mask reaches the cursor -/
theorem encStep_used_length (o : Obj) (v : IVal) (s : EncState) :
    (encStep o v s).cursorByte ≤ (encStep o v s).used.length := by
  have hml : (ord o.hl (toBytesBE o.k o.mask)).length = o.k := by rw [ord_length, toBytesBE_length]
  show o.pos s.origin s.cursorByte + o.k ≤ (placeUsed _ (o.pos s.origin s.cursorByte) o.k _).length
  rw [placeUsed_length _ _ _ _ hml]
  omega

/-! ### the model's atomic operations on whole bytes -/

/-- `emplace_atomic_value` of a non-empty byte string of exactly `bit_length / 8` bytes, at a byte-aligned cursor -/
theorem emplaceAtomic_bytes (bs : Bytes) (hne : bs ≠ []) (hall : AllBytes bs) (hl : Bool) (s : EncState)
    (hcb : s.cursorBit = 0) :
    emplaceAtomic (.bytes bs) (8 * bs.length) .bytefield none hl none s true =
      .ok ((), encStep (bytesObj bs.length) (.bytes bs) s) := by
  have hn : 1 ≤ bs.length := by
    cases bs with
    | nil => exact absurd rfl hne
    | cons b bs => simp
  have hok := bytesObj_ok bs.length hn
  have hr : (bytesObj bs.length).inRange (.bytes bs) := ⟨rfl, hall⟩
  obtain ⟨hlt, -⟩ := (bytesObj bs.length).raw_spec hok _ hr
  have hlt' : ofBytesBE bs < 2 ^ (8 * bs.length) := hlt
  have hge : ¬ (2 ^ (8 * bs.length) ≤ ofBytesBE bs) := by omega
  have hb0 : 8 * bs.length ≠ 0 := by omega
  have hk : (8 * bs.length + 7) / 8 = bs.length := by omega
  have hmask : ¬ (256 ^ bs.length ≤ 2 ^ (8 * bs.length) - 1) := by
    have := mask_fits (8 * bs.length) 0
    simp only [Nat.add_zero, hk, Nat.pow_zero, Nat.mul_one] at this
    omega
  simp [emplaceAtomic, emplaceBytes, fitBytes, bind, pure, run_ite, run_bind, run_pure, run_getS, run_setS,
    run_raise, BaseType.isNumeric, odxassert, hb0, hge, hmask, hcb, hk, toBytesBE_length]
  simp [encStep, bytesObj, Obj.raw, Obj.pos, Obj.k, Obj.bp, Obj.mask, ord, toBytesBE_length, hk]

/-- … and of the empty byte string (`bit_length = 0`): `emplace_bytes(b"")` -/
theorem emplaceAtomic_bytes_nil (hl : Bool) (s : EncState) (hcb : s.cursorBit = 0) :
    emplaceAtomic (.bytes []) (8 * 0) .bytefield none hl none s true = .ok ((), rawStep [] s) := by
  simp [emplaceAtomic, fitBytes, bind, pure, run_bind, run_pure, odxassert, ofBytesBE,
    emplaceBytes_raw [] s hcb]

/-- reading `n` whole bytes of a message of bytes as a big-endian number and writing them back -/
theorem bytes_of_readNum (msg : Bytes) (hall : AllBytes msg) (pos n : Nat) (hlen : pos + n ≤ msg.length) :
    toBytesBE n (readNum msg pos n true % 2 ^ (8 * n)) = (msg.drop pos).take n := by
  have hlen' : ((msg.drop pos).take n).length = n := by simp only [List.length_take, List.length_drop]; omega
  have ha := allBytes_take_drop msg hall pos n
  have hlt := ofBytesBE_lt _ ha
  rw [hlen', pow256] at hlt
  unfold readNum ord
  simp only [if_true]
  rw [Nat.mod_eq_of_lt hlt]
  have := toBytesBE_ofBytesBE _ ha
  rw [hlen'] at this
  exact this

/-- `extract_atomic_value` of `8·n` bits of `A_BYTEFIELD` at a byte-aligned cursor returns the next `n` bytes -/
theorem extractAtomic_bytes (n : Nat) (hl : Bool) (d : DecState) (hcb : d.cursorBit = 0)
    (hlen : d.cursorByte + n ≤ d.msg.length) (hall : AllBytes d.msg) (st : Bool) :
    extractAtomic (8 * n) .bytefield none hl d st =
      .ok (.bytes ((d.msg.drop d.cursorByte).take n), { d with cursorByte := d.cursorByte + n }) := by
  by_cases hn : n = 0
  · subst hn
    simp [extractAtomic, pure, run_pure, emptyValue]
  · have hb0 : 8 * n ≠ 0 := by omega
    have hk : (8 * n + 7) / 8 = n := by omega
    have hnl : ¬ (d.msg.length < d.cursorByte + n) := by omega
    have := bytes_of_readNum d.msg hall d.cursorByte n hlen
    simp [extractAtomic, extractCore, convertRaw, bind, pure, run_bind, run_pure, run_getS, run_modifyS, run_ite, run_raise,
      BaseType.isNumeric, odxassert, hb0, hcb, hk, hnl, this]


/-- the length part of the leaf pair's decoder precondition (stated so that it survives additions to `Pair.ofObj.fits`) -/
theorem ofObj_fits_len (o : Obj) (v : IVal) (d : DecState) (h : (Pair.ofObj o v).fits d) :
    o.pos d.origin d.cursorByte + o.k ≤ d.msg.length := by
  first | exact h | exact h.1

/-! ### the byte payload as a pair -/

/-- `n = bs.length` bytes at the cursor: the encoder is `emplace_atomic_value` of `8·n` bits of `A_BYTEFIELD` (for the empty
    string: `emplace_bytes(b"")`), the decoder returns the next `n` bytes of the message; `fits` records that the message
    consists of bytes and carries `bs` there -/
def Pair.bytesAt (bs : Bytes) : Pair Bytes where
  enc := fun s => if bs = [] then rawStep [] s else encStep (bytesObj bs.length) (.bytes bs) s
  dec := fun d => ((d.msg.drop d.cursorByte).take bs.length, { d with cursorByte := d.cursorByte + bs.length, cursorBit := 0 })
  val := bs
  fits := fun d => d.cursorByte + bs.length ≤ d.msg.length ∧ AllBytes d.msg ∧ (d.msg.drop d.cursorByte).take bs.length = bs

theorem Good.bytesAt (bs : Bytes) (hall : AllBytes bs) : Good (Pair.bytesAt bs) := by
  by_cases hne : bs = []
  · subst hne
    refine Good.reDec (Good.rawSkip [] (fun _ h => nomatch h)) (Pair.bytesAt []) ?_ ?_
    · funext s; simp [Pair.bytesAt, Pair.rawSkip]
    · intro d hd _ hf
      exact ⟨by simp [Pair.bytesAt], rfl, hf, hd, by simp⟩
  · have hn : 1 ≤ bs.length := by
      cases bs with
      | nil => exact absurd rfl hne
      | cons b bs => simp
    have hok := bytesObj_ok bs.length hn
    have hr : (bytesObj bs.length).inRange (.bytes bs) := ⟨rfl, hall⟩
    refine Good.reDec (Good.ofObj (bytesObj bs.length) hok (.bytes bs) hr) (Pair.bytesAt bs) ?_ ?_
    · funext s; simp [Pair.bytesAt, Pair.ofObj, hne]
    · intro d hd hv hfit
      have hfit' : d.cursorByte + (bytesObj bs.length).k ≤ d.msg.length := ofObj_fits_len _ _ d hfit
      rw [bytesObj_k] at hfit'
      have hv' : (bytesObj bs.length).ofRaw (readNum d.msg d.cursorByte (bytesObj bs.length).k true / 2 ^ 0
          % 2 ^ (8 * bs.length)) = .bytes bs := hv
      rw [bytesObj_k, Nat.pow_zero, Nat.div_one] at hv'
      have hk : (8 * bs.length + 7) / 8 = bs.length := by omega
      have h8 : (8 - 8 * bs.length % 8) % 8 = 0 := by omega
      simp only [Obj.ofRaw, bytesObj, hk, h8, Nat.pow_zero, Nat.mul_one, IVal.bytes.injEq] at hv'
      rw [bytes_of_readNum d.msg hd d.cursorByte bs.length hfit'] at hv'
      refine ⟨hv', ?_, hfit', hd, hv'⟩
      show ({ d with cursorByte := d.cursorByte + bs.length, cursorBit := 0 } : DecState) = (decStep (bytesObj bs.length) d).2
      simp only [decStep, bytesObj_k]
      rfl

end OdxVerif.Codec
