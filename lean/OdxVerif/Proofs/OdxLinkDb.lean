import OdxVerif.Proofs.OdxLinkHeap
/-! Lemmas for C10, database level: the link phase of `Database.refresh` on the heap model equals a
    heap-free reading in which every layer resolves its references in the (unchanging) global database,
    extended — for this layer only — by its imports. -/
namespace OdxVerif.OdxLink

/-- the database a layer resolves its references in, by value -/
def layerView (all : List Layer) (G : Db) (l : Layer) : Except Err Db :=
  if l.importRefs.isEmpty then .ok G
  else match gatherImports all G l.importRefs with
    | .error e => .error e
    | .ok imp => .ok (extendView G l.frags imp)

def linkLayer (all : List Layer) (G : Db) (l : Layer) : Except Err Resolved :=
  match layerView all G l with
  | .error e => .error e
  | .ok v => resolveRefs v l.refs

/-- heap-free link phase: the global database `G` is the same for every layer -/
def linkPhase (all : List Layer) (G : Db) : List Layer → Except Err Resolved
  | [] => .ok []
  | l :: ls =>
    match linkLayer all G l with
    | .error e => .error e
    | .ok r =>
      match linkPhase all G ls with
      | .error e => .error e
      | .ok rs => .ok (r ++ rs)

theorem resolveLayer_pure (all : List Layer) (h : Heap) (g : DbObj) (hw : WF h g) (l : Layer) :
    match resolveLayer all (h, g) l with
    | .error e => linkLayer all (view h g) l = .error e
    | .ok (h', r) => linkLayer all (view h g) l = .ok r ∧ view h' g = view h g ∧ WF h' g := by
  unfold resolveLayer linkLayer layerView
  by_cases hi : l.importRefs.isEmpty
  · simp only [hi, if_true]
    cases resolveRefs (view h g) l.refs with
    | error e => simp
    | ok r => exact ⟨rfl, rfl, hw⟩
  · simp only [hi]
    cases hgi : gatherImports all (view h g) l.importRefs with
    | error e => simp
    | ok imp =>
      obtain ⟨u1, u2, u3⟩ := update_on_copy h g hw (rekey l.frags imp) false
      simp only [Bool.false_eq_true, if_false]
      rw [u3]
      unfold extendView
      cases resolveRefs (update (view h g) (rekey l.frags imp) false) l.refs with
      | error e => simp
      | ok r => exact ⟨rfl, u1, u2⟩

theorem resolveLayers_pure (all : List Layer) (g : DbObj) (ls : List Layer) (h : Heap) (hw : WF h g) :
    match resolveLayers all g h ls with
    | .error e => linkPhase all (view h g) ls = .error e
    | .ok (h', rs) => linkPhase all (view h g) ls = .ok rs ∧ view h' g = view h g ∧ WF h' g := by
  induction ls generalizing h with
  | nil => exact ⟨rfl, rfl, hw⟩
  | cons l ls ih =>
    have h1 := resolveLayer_pure all h g hw l
    unfold resolveLayers linkPhase
    cases hr : resolveLayer all (h, g) l with
    | error e => rw [hr] at h1; simp only at h1; simp [h1]
    | ok p =>
      obtain ⟨h', r⟩ := p
      rw [hr] at h1
      simp only at h1
      obtain ⟨a1, a2, a3⟩ := h1
      have h2 := ih h' a3
      rw [a1]
      simp only
      cases hrs : resolveLayers all g h' ls with
      | error e => rw [hrs] at h2; simp only at h2; rw [← a2, h2]
      | ok q =>
        obtain ⟨h'', rs⟩ := q
        rw [hrs] at h2
        simp only at h2
        obtain ⟨b1, b2, b3⟩ := h2
        rw [← a2, b1]
        exact ⟨rfl, by rw [b2, a2], b3⟩

/-- the freshly built global database is well formed -/
theorem buildGlobal_wf (extra : List (Id × Obj)) (ls : List Layer) :
    WF (buildGlobal extra ls).1 (buildGlobal extra ls).2 := by
  unfold buildGlobal
  exact (hUpdate_spec _ true (⟨[]⟩, []) (WF_nil _)).2.wf

theorem buildGlobal_view (extra : List (Id × Obj)) (ls : List Layer) :
    view (buildGlobal extra ls).1 (buildGlobal extra ls).2 =
      update [] ((extra ++ ls.flatMap (·.links)).foldl (fun acc e => dset e.1 e.2 acc) []) true := by
  unfold buildGlobal
  exact (hUpdate_spec _ true (⟨[]⟩, []) (WF_nil _)).1

section Dict
variable {κ ν : Type} [DecidableEq κ]

theorem dset_append_of_not_mem (d : List (κ × ν)) (k : κ) (v : ν) (h : k ∉ d.map (·.1)) :
    dset k v d = d ++ [(k, v)] := by
  induction d with
  | nil => simp [dset]
  | cons e r ih =>
    obtain ⟨a, b⟩ := e
    simp only [List.map_cons, List.mem_cons, not_or] at h
    have : ¬ a = k := fun e => h.1 e.symm
    simp [dset, this, ih h.2]

/-- building a dict from pairs with pairwise distinct keys keeps the pairs as they are -/
theorem foldl_dset_nodup (es acc : List (κ × ν)) (h : ((acc ++ es).map (·.1)).Nodup) :
    es.foldl (fun acc e => dset e.1 e.2 acc) acc = acc ++ es := by
  induction es generalizing acc with
  | nil => simp
  | cons e es ih =>
    simp only [List.foldl_cons]
    have hk : e.1 ∉ acc.map (·.1) := by
      rw [List.map_append, List.nodup_append] at h
      intro hm
      exact h.2.2 _ hm _ (by simp) rfl
    rw [dset_append_of_not_mem acc e.1 e.2 hk, ih]
    · simp
    · simpa using h

end Dict

/-! ### what an importing layer sees -/
open Spec

theorem dget_rekey_aux (frags : List Frag) (es : List (Id × Obj)) (acc : List (Id × Obj)) (i : String) :
    dget (es.foldl (fun acc e => dset (Id.mk e.1.localId frags) e.2 acc) acc) ⟨i, frags⟩ =
      (((es.filter fun e => e.1.localId = i).getLast?).map (·.2)).or (dget acc ⟨i, frags⟩) := by
  induction es generalizing acc with
  | nil => simp
  | cons e es ih =>
    simp only [List.foldl_cons]
    rw [ih, getLast?_filter_cons, dget_dset]
    cases (es.filter fun e => decide (e.1.localId = i)).getLast? with
    | some x => simp
    | none =>
      by_cases hi : e.1.localId = i <;> simp [hi]

theorem keys_rekey_aux (frags : List Frag) (es : List (Id × Obj)) (acc : List (Id × Obj))
    (hacc : ∀ e ∈ acc, e.1.frags = frags) :
    ∀ e ∈ es.foldl (fun acc e => dset (Id.mk e.1.localId frags) e.2 acc) acc, e.1.frags = frags := by
  induction es generalizing acc with
  | nil => simpa using hacc
  | cons e es ih =>
    simp only [List.foldl_cons]
    apply ih
    intro x hx
    have hd : ∀ (d : List (Id × Obj)) (k : Id) (v : Obj), k.frags = frags → (∀ e ∈ d, e.1.frags = frags) →
        ∀ x ∈ dset k v d, x.1.frags = frags := by
      intro d k v hk
      induction d with
      | nil => intro _ x hx; simp [dset] at hx; subst hx; exact hk
      | cons y r ihd =>
        intro hall x hx
        obtain ⟨a, b⟩ := y
        simp only [dset] at hx
        by_cases hak : a = k
        · simp [hak] at hx
          rcases hx with rfl | hx
          · exact hk
          · exact hall x (List.mem_cons_of_mem _ hx)
        · simp [hak] at hx
          rcases hx with rfl | hx
          · exact hall _ (by simp)
          · exact ihd (fun e he => hall e (List.mem_cons_of_mem _ he)) x hx
    exact hd acc _ _ rfl hacc x hx

theorem carriedFirst_same_frags (frags : List Frag) (d : List (Id × Obj))
    (hd : ∀ e ∈ d, e.1.frags = frags) (f : Frag) (i : String) :
    carriedFirst d f i = if f ∈ frags then dget d ⟨i, frags⟩ else none := by
  unfold carriedFirst
  induction d with
  | nil => simp [dget]
  | cons e r ih =>
    obtain ⟨k, v⟩ := e
    have hk : k.frags = frags := hd (k, v) (by simp)
    have ih' := ih (fun e he => hd e (List.mem_cons_of_mem _ he))
    by_cases hf : f ∈ frags
    · simp only [hf, if_true] at ih' ⊢
      by_cases hi : k.localId = i
      · have : k = ⟨i, frags⟩ := by cases k; simp_all
        simp [hf, dget, this]
      · have : ¬ k = ⟨i, frags⟩ := by intro e; apply hi; rw [e]
        simp only [List.filter_cons, hi, false_and, decide_false, dget, this, if_false]
        exact ih'
    · simp only [hf, if_false] at ih' ⊢
      simp only [List.filter_cons, hk, hf, and_false, decide_false]
      exact ih'

/-- **What the importing layer sees.** Global bindings win; an id unbound in one of the layer's own
    fragments is bound to the imported object of that local id. -/
theorem stored_extendView (G : Db) (frags : List Frag) (imp : List (Id × Obj)) (f : Frag) (i : String) :
    stored (extendView G frags imp) f i = layerStore (stored G) frags imp f i := by
  unfold extendView layerStore
  rw [stored_update_false]
  congr 1
  have hk := keys_rekey_aux frags imp [] (by simp)
  unfold rekey
  rw [carriedFirst_same_frags frags _ hk]
  by_cases hf : f ∈ frags
  · simp only [hf, if_true]
    rw [dget_rekey_aux]
    simp [dget]
  · simp [hf]

end OdxVerif.OdxLink
