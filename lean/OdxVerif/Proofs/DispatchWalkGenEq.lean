import OdxVerif.Gen.DispatchWalk
import OdxVerif.Proofs.PyRt
/-! # The generated `DiagLayer._find_services_for_uds` equals the hand-written `Trie.walk`

    `Gen/DispatchWalk.lean` is regenerated from `odxtools/diaglayers/diaglayer.py` by `harness/extract/py2lean.py` (a loop over
    the bytes of the message with `break`, `b in tree` / `tree[b]` / `-1 in tree` / `tree[-1]` on the dict that the model keeps
    as a `Trie`, a local list extended with `+=`). The loop-carried variables (`prefix_tree`, `possible_services`) are
    generalised; `walk` does not carry the list, hence the accumulator form `acc ++ walk t m`. -/
namespace OdxVerif.Dispatch
open OdxVerif Py

@[simp] theorem unwrapKey_some {α : Type} (a : α) : unwrapKey (some a) = pure a := rfl

set_option linter.unusedSimpArgs false in
/-- for every tree and message: the rendered Python raises nothing and returns the model's walk -/
theorem gen_findServices_eq (tree : Trie Service) (message : Bytes) :
    Gen.findServicesForUdsE tree message = .ok (tree.walk message) := by
  unfold Gen.findServicesForUdsE
  dsimp only
  obtain ⟨acc, hacc⟩ : ∃ acc : List Service, acc = [] := ⟨_, rfl⟩
  rw [show tree.walk message = acc ++ tree.walk message by rw [hacc, List.nil_append]]
  rw [← hacc]
  clear hacc
  induction message generalizing tree acc with
  | nil => simp [Trie.walk] <;> rfl
  | cons b m ih =>
    cases hf : tree.find? b with
    | none => simp [List.forIn_cons, Trie.walk, hf] <;> rfl
    | some t' =>
      by_cases hl : t'.leaf = []
      · simpa [List.forIn_cons, Trie.walk, hf, hl, py_rt] using ih t' acc
      · have := ih t' (acc ++ t'.leaf)
        simpa [List.forIn_cons, Trie.walk, hf, hl, py_rt, List.append_assoc] using this

end OdxVerif.Dispatch
