import OdxVerif.Gen.CompuSegmentApplies
import OdxVerif.Proofs.CompuLimitGenEq
/-! # The generated `RatFuncSegment.applies`, `LinearSegment.physical_applies` / `internal_applies` equal the hand-written
    `RatSeg.applies`, `LinSeg.physApplies` / `LinSeg.intApplies`

    `Gen/CompuSegmentApplies.lean` is regenerated from `odxtools/compumethods/ratfuncsegment.py` / `linearsegment.py`: the type
    test (`issubclass(expected_type, float)`, `isinstance(value, (int, float))`, `isinstance(value, expected_type)` — the model's
    `typeOk`) and the two optional limits behind short-circuit `and`s (the GENERATED `complies_to_lower` / `complies_to_upper`). -/
namespace OdxVerif.Compu
open OdxVerif Py

/-- the three type tests of the source, together, are the model's `typeOk` -/
theorem typeTest_eq (t : DType) (v : Val) :
    (if t.isFloat then (Gen.valIsInt v || Gen.valIsFloat v) else Gen.valIsInst v t) = typeOk t v := by
  cases t <;> cases v <;> rfl

/-- the common tail: what the two `if <limit> is not None and not <limit>.complies_to_…(v): return False` do -/
def limitsTail (lo hi : Option Limit) (v : Val) : Py.M Bool := Py.call Gen.errOfCompu (withinLimits lo hi v)

theorem limitsTail_cases (lo hi : Option Limit) (v : Val) :
    Py.call Gen.errOfCompu (withinLimits lo hi v) =
      (match lo with
       | none => (match hi with | none => pure true | some h => Py.call Gen.errOfCompu (h.compliesUpper v))
       | some l => (match l.compliesLower v with
          | .error e => throw (Gen.errOfCompu e)
          | .ok false => pure false
          | .ok true => (match hi with | none => pure true | some h => Py.call Gen.errOfCompu (h.compliesUpper v)))) := by
  unfold withinLimits
  cases lo with
  | none => cases hi <;> rfl
  | some l =>
    cases hl : l.compliesLower v with
    | error e => simp [hl, bind, Except.bind] <;> rfl
    | ok a => cases a <;> cases hi <;> simp [hl, bind, Except.bind, pure, Except.pure] <;> rfl

theorem gen_ratSegApplies_eq (s : RatSeg) (v : Val) :
    Gen.ratSegAppliesE s v = Py.call Gen.errOfCompu (s.applies v) := by
  obtain ⟨num, den, lo, hi, rangeTy, domTy⟩ := s
  unfold Gen.ratSegAppliesE RatSeg.applies
  simp only [gen_compliesLower_eq, gen_compliesUpper_eq, ← typeTest_eq, limitsTail_cases]
  generalize domTy.isFloat = tf
  generalize Gen.valIsInt v = a
  generalize Gen.valIsFloat v = b
  generalize Gen.valIsInst v domTy = c
  cases lo with
  | none =>
    cases hi with
    | none => cases tf <;> cases a <;> cases b <;> cases c <;> simp [py_rt, Py.unwrapAttr, limitsTail_cases] <;> rfl
    | some h =>
      cases hu : h.compliesUpper v with
      | error e => cases tf <;> cases a <;> cases b <;> cases c <;> simp [py_rt, Py.unwrapAttr, limitsTail_cases, hu] <;> rfl
      | ok x => cases x <;> cases tf <;> cases a <;> cases b <;> cases c <;> simp [py_rt, Py.unwrapAttr, limitsTail_cases, hu] <;> rfl
  | some l =>
    cases hl : l.compliesLower v with
    | error e => cases hi <;> cases tf <;> cases a <;> cases b <;> cases c <;> simp [py_rt, Py.unwrapAttr, limitsTail_cases, hl] <;> rfl
    | ok y =>
      cases y with
      | false => cases hi <;> cases tf <;> cases a <;> cases b <;> cases c <;> simp [py_rt, Py.unwrapAttr, limitsTail_cases, hl] <;> rfl
      | true =>
        cases hi with
        | none => cases tf <;> cases a <;> cases b <;> cases c <;> simp [py_rt, Py.unwrapAttr, limitsTail_cases, hl] <;> rfl
        | some h =>
          cases hu : h.compliesUpper v with
          | error e => cases tf <;> cases a <;> cases b <;> cases c <;> simp [py_rt, Py.unwrapAttr, limitsTail_cases, hl, hu] <;> rfl
          | ok x => cases x <;> cases tf <;> cases a <;> cases b <;> cases c <;> simp [py_rt, Py.unwrapAttr, limitsTail_cases, hl, hu] <;> rfl

theorem gen_linSegPhysApplies_eq (s : LinSeg) (v : Val) :
    Gen.linSegPhysAppliesE s v = Py.call Gen.errOfCompu (s.physApplies v) := by
  obtain ⟨offset, factor, denom, ilo, ihi, inv, ity, pty, plo, phi⟩ := s
  unfold Gen.linSegPhysAppliesE LinSeg.physApplies
  simp only [gen_compliesLower_eq, gen_compliesUpper_eq, ← typeTest_eq, limitsTail_cases]
  generalize pty.isFloat = tf
  generalize Gen.valIsInt v = a
  generalize Gen.valIsFloat v = b
  generalize Gen.valIsInst v pty = c
  cases plo with
  | none =>
    cases phi with
    | none => cases tf <;> cases a <;> cases b <;> cases c <;> simp [py_rt, Py.unwrapAttr, limitsTail_cases] <;> rfl
    | some h =>
      cases hu : h.compliesUpper v with
      | error e => cases tf <;> cases a <;> cases b <;> cases c <;> simp [py_rt, Py.unwrapAttr, limitsTail_cases, hu] <;> rfl
      | ok x => cases x <;> cases tf <;> cases a <;> cases b <;> cases c <;> simp [py_rt, Py.unwrapAttr, limitsTail_cases, hu] <;> rfl
  | some l =>
    cases hl : l.compliesLower v with
    | error e => cases phi <;> cases tf <;> cases a <;> cases b <;> cases c <;> simp [py_rt, Py.unwrapAttr, limitsTail_cases, hl] <;> rfl
    | ok y =>
      cases y with
      | false => cases phi <;> cases tf <;> cases a <;> cases b <;> cases c <;> simp [py_rt, Py.unwrapAttr, limitsTail_cases, hl] <;> rfl
      | true =>
        cases phi with
        | none => cases tf <;> cases a <;> cases b <;> cases c <;> simp [py_rt, Py.unwrapAttr, limitsTail_cases, hl] <;> rfl
        | some h =>
          cases hu : h.compliesUpper v with
          | error e => cases tf <;> cases a <;> cases b <;> cases c <;> simp [py_rt, Py.unwrapAttr, limitsTail_cases, hl, hu] <;> rfl
          | ok x => cases x <;> cases tf <;> cases a <;> cases b <;> cases c <;> simp [py_rt, Py.unwrapAttr, limitsTail_cases, hl, hu] <;> rfl

theorem gen_linSegIntApplies_eq (s : LinSeg) (v : Val) :
    Gen.linSegIntAppliesE s v = Py.call Gen.errOfCompu (s.intApplies v) := by
  obtain ⟨offset, factor, denom, ilo, ihi, inv, ity, pty, plo, phi⟩ := s
  unfold Gen.linSegIntAppliesE LinSeg.intApplies
  simp only [gen_compliesLower_eq, gen_compliesUpper_eq, ← typeTest_eq, limitsTail_cases]
  generalize ity.isFloat = tf
  generalize Gen.valIsInt v = a
  generalize Gen.valIsFloat v = b
  generalize Gen.valIsInst v ity = c
  cases ilo with
  | none =>
    cases ihi with
    | none => cases tf <;> cases a <;> cases b <;> cases c <;> simp [py_rt, Py.unwrapAttr, limitsTail_cases] <;> rfl
    | some h =>
      cases hu : h.compliesUpper v with
      | error e => cases tf <;> cases a <;> cases b <;> cases c <;> simp [py_rt, Py.unwrapAttr, limitsTail_cases, hu] <;> rfl
      | ok x => cases x <;> cases tf <;> cases a <;> cases b <;> cases c <;> simp [py_rt, Py.unwrapAttr, limitsTail_cases, hu] <;> rfl
  | some l =>
    cases hl : l.compliesLower v with
    | error e => cases ihi <;> cases tf <;> cases a <;> cases b <;> cases c <;> simp [py_rt, Py.unwrapAttr, limitsTail_cases, hl] <;> rfl
    | ok y =>
      cases y with
      | false => cases ihi <;> cases tf <;> cases a <;> cases b <;> cases c <;> simp [py_rt, Py.unwrapAttr, limitsTail_cases, hl] <;> rfl
      | true =>
        cases ihi with
        | none => cases tf <;> cases a <;> cases b <;> cases c <;> simp [py_rt, Py.unwrapAttr, limitsTail_cases, hl] <;> rfl
        | some h =>
          cases hu : h.compliesUpper v with
          | error e => cases tf <;> cases a <;> cases b <;> cases c <;> simp [py_rt, Py.unwrapAttr, limitsTail_cases, hl, hu] <;> rfl
          | ok x => cases x <;> cases tf <;> cases a <;> cases b <;> cases c <;> simp [py_rt, Py.unwrapAttr, limitsTail_cases, hl, hu] <;> rfl

end OdxVerif.Compu
