import OdxVerif.Gen.MuxDefaultKey
import OdxVerif.Proofs.PyRt
/-! # The generated `Multiplexer._get_default_case_key` equals the hand-written `defaultCaseKey`

    `Gen/MuxDefaultKey.lean` is regenerated from `odxtools/multiplexer.py` by `harness/extract/py2lean.py`: a method with a
    `for lower, upper in sorted(<generator expression>)` loop. `self._get_case_limits(x)` is the abstract record interface
    `(x.lower, x.upper)` of the model's `MuxCaseD` (integer switch keys). Two differences to the hand-written model are
    bridged here, for every case list:
    * the rendering sorts with `Py.sortedIntPair` (= `foldr` of the insertion), the model with a `foldl` of `insertLimits`:
      insertion into a list commutes (`insertIntPair_comm`), so both orders of insertion build the same list;
    * the rendering is a `for … in … do` loop in `Except`, the model a `foldl`. -/
namespace OdxVerif.Codec
open OdxVerif Py

theorem insertIntPair_eq_insertLimits (x : Int × Int) (l : List (Int × Int)) : Py.insertIntPair x l = insertLimits x l := by
  induction l with
  | nil => rfl
  | cons y ys ih => simp only [Py.insertIntPair, insertLimits, ih]

/-- two insertions commute (on any list, sorted or not): the order `≤` on pairs is total, transitive and antisymmetric -/
theorem insertLimits_comm (a b : Int × Int) (l : List (Int × Int)) :
    insertLimits a (insertLimits b l) = insertLimits b (insertLimits a l) := by
  induction l with
  | nil =>
    obtain ⟨a1, a2⟩ := a
    obtain ⟨b1, b2⟩ := b
    simp only [insertLimits]
    split <;> split <;> first | rfl | (simp only [List.cons.injEq, Prod.mk.injEq, and_true]; omega) | (exfalso; omega)
  | cons c cs ih =>
    obtain ⟨a1, a2⟩ := a
    obtain ⟨b1, b2⟩ := b
    obtain ⟨c1, c2⟩ := c
    simp only [insertLimits]
    by_cases hac : a1 < c1 ∨ (a1 = c1 ∧ a2 ≤ c2) <;> by_cases hbc : b1 < c1 ∨ (b1 = c1 ∧ b2 ≤ c2) <;>
      by_cases hab : a1 < b1 ∨ (a1 = b1 ∧ a2 ≤ b2) <;> by_cases hba : b1 < a1 ∨ (b1 = a1 ∧ b2 ≤ a2) <;>
      simp only [hac, hbc, hab, hba, if_true, if_false, insertLimits, ih] <;>
      first | rfl | (simp only [List.cons.injEq, Prod.mk.injEq, and_true]; omega) | (exfalso; omega)

/-- inserting first and folding the rest in afterwards = folding first and inserting last -/
theorem foldl_insertLimits_comm (x : Int × Int) (cs : List MuxCaseD) (acc : List (Int × Int)) :
    cs.foldl (fun acc c => insertLimits (c.lower, c.upper) acc) (insertLimits x acc) =
      insertLimits x (cs.foldl (fun acc c => insertLimits (c.lower, c.upper) acc) acc) := by
  induction cs generalizing acc with
  | nil => rfl
  | cons c cs ih =>
    simp only [List.foldl_cons]
    rw [insertLimits_comm, ih]

/-- `sorted(self._get_case_limits(x) for x in self.cases)` is the sorted list the model builds -/
theorem sortedIntPair_eq_foldl (cases : List MuxCaseD) :
    Py.sortedIntPair (cases.map fun x => (x.lower, x.upper)) =
      cases.foldl (fun acc c => insertLimits (c.lower, c.upper) acc) [] := by
  induction cases with
  | nil => rfl
  | cons c cs ih =>
    simp only [Py.sortedIntPair, List.map_cons, List.foldr_cons, List.foldl_cons] at ih ⊢
    rw [ih, insertIntPair_eq_insertLimits]
    exact (foldl_insertLimits_comm _ cs []).symm

/-- **Tie.** For every list of cases the rendered source raises nothing and returns the model's default-case key -/
theorem gen_defaultCaseKey_eq (cases : List MuxCaseD) :
    Gen.defaultCaseKeyE cases = .ok (defaultCaseKey cases) := by
  unfold Gen.defaultCaseKeyE defaultCaseKey
  rw [sortedIntPair_eq_foldl]
  dsimp only
  generalize cases.foldl (fun acc c => insertLimits (c.lower, c.upper) acc) [] = sorted
  -- generalise the initial value of the loop-carried variable without naming the loop body
  rw [show Int.ofNat 0 = (0 : Int) from rfl]
  generalize (0 : Int) = key
  induction sorted generalizing key with
  | nil => rfl
  | cons lu rest ih =>
    obtain ⟨lo, up⟩ := lu
    simp only [List.forIn_cons, List.foldl_cons]
    -- the two comparisons separately: the proof does not depend on the order in which the source writes them
    by_cases h1 : lo ≤ key <;> by_cases h2 : key ≤ up <;> simpa [h1, h2, Int.add_comm] using ih _

end OdxVerif.Codec
