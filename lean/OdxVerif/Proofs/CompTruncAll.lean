import OdxVerif.Proofs.CompTruncMsg
/-! C05 for the nested tier (task W19): `Reads.rejected` — an atomic object the decoder has to read (`Proofs/CompTrunc.lean`)
    that does not lie completely inside the message makes every enclosing decoding function raise `DecodeError`. -/
namespace OdxVerif.OdxM
theorem run_tryCatch' {σ α : Type} (m : OdxM σ α) (handles : Err → Bool) (h : Err → OdxM σ α) (s : σ) (st : Bool) :
    (OdxM.tryCatch m handles h) s st = (match m s st with
      | .ok r => .ok r
      | .error (e, s') => if handles e then h e s' st else .error (e, s')) := rfl
end OdxVerif.OdxM

namespace OdxVerif.Codec
open OdxVerif.Bits OdxVerif.OdxM

/-! ### every site -/

/-- **an object the decoder has to read that does not lie completely inside the message ⇒ `DecodeError`** -/
theorem Reads.rejected (st : Bool) (f : Nat) (site : Site) (d dr : DecState) (bl : Nat) (h : Reads st f site d dr bl)
    (hshort : dr.msg.length < dr.readEnd bl) : site.Rejects st f d := by
  induction h with
  | std n bt enc hl bl m c d hr => exact Reads.rejected_dct st _ d d bl n (.std n bt enc hl bl m c d hr) hshort
  | minmax n bt enc hl mn mx t d hcb => exact Reads.rejected_dct st _ d d _ n (.minmax n bt enc hl mn mx t d hcb) hshort
  | leadingLen n bt enc hl bl d hr => exact Reads.rejected_dct st _ d d _ n (.leadingLen n bt enc hl bl d hr) hshort
  | leadingBody n bt enc hl bl d d1 i h1 hr =>
    exact Reads.rejected_dct st _ d d1 _ n (.leadingBody n bt enc hl bl d d1 i h1 hr) hshort
  | paramLen n bt enc hl key d blk hk hneg hr =>
    exact Reads.rejected_dct st _ d d _ n (.paramLen n bt enc hl key d blk hk hneg hr) hshort
  | simple f dct phys cm d dr bl _ ih =>
    obtain ⟨d', h⟩ := ih hshort
    exact ⟨d', by simp only [decodeDop]; exact bind_error _ _ _ _ _ _ h⟩
  | dtc f dct phys cm dtcs d dr bl _ ih =>
    obtain ⟨d', h⟩ := ih hshort
    exact ⟨d', by simp only [decodeDop]; exact bind_error _ _ _ _ _ _ h⟩
  | struct f bs ps d dr bl _ ih =>
    obtain ⟨d', h⟩ := ih hshort
    exact ⟨d', by simp only [decodeDop, bind, run_bind, run_getS, h]⟩
  | staticField f count size item d dr bl hcb _ ih =>
    obtain ⟨d', h⟩ := ih hshort
    simp only [hcb] at h
    exact ⟨d', by simp only [decodeDop, bind, pure, run_bind, run_getS, run_modifyS, run_pure, odxassert, hcb, decide_true,
      if_true, h]⟩
  | dynCount f off cbp cbit cdop item d dr bl hcb _ ih =>
    obtain ⟨d', h⟩ := ih hshort
    exact ⟨d', by simp only [decodeDop, bind, pure, run_bind, run_getS, run_modifyS, run_pure, odxassert, hcb, decide_true,
      if_true, h]⟩
  | dynItems f off cbp cbit cdop item d d1 dr i bl hcb hcnt hneg _ ih =>
    obtain ⟨d', h⟩ := ih hshort
    exact ⟨d', by simp only [decodeDop, bind, pure, run_bind, run_getS, run_modifyS, run_pure, odxassert, hcb, decide_true,
      if_true, hcnt, hneg, if_false, h]⟩
  | eopField f mn mx item d dr bl hcb _ ih =>
    obtain ⟨d', h⟩ := ih hshort
    simp only [hcb] at h
    exact ⟨d', by simp only [decodeDop, bind, pure, run_bind, run_getS, run_modifyS, run_pure, odxassert, hcb, decide_true,
      if_true, h]⟩
  | endMarkerField f tv tdop item d dr bl hcb _ ih =>
    obtain ⟨d', h⟩ := ih hshort
    simp only [hcb] at h
    exact ⟨d', by simp only [decodeDop, bind, pure, run_bind, run_getS, run_modifyS, run_pure, odxassert, hcb, decide_true,
      if_true, h]⟩
  | muxKey f bp swBp swBit swDop cases dflt d dr bl _ ih =>
    obtain ⟨d', h⟩ := ih hshort
    exact ⟨d', by simp only [decodeDop, bind, pure, run_bind, run_getS, run_modifyS, run_pure, h]⟩
  | muxCase f bp swBp swBit swDop cases dflt d d1 dr key name cd bl hkey hsel _ ih =>
    obtain ⟨d', h⟩ := ih hshort
    refine ⟨d', ?_⟩
    rcases hsel with ⟨c, hc, hn, hs⟩ | ⟨hc, hdf⟩
    · simp only [decodeDop, bind, pure, run_bind, run_getS, run_modifyS, run_pure, hkey, hc, hs, h]
    · simp only [decodeDop, bind, pure, run_bind, run_getS, run_modifyS, run_pure, hkey, hc, hdf, h]
  | staticHead f item size n d dr bl _ ih =>
    obtain ⟨d', h⟩ := ih hshort
    exact ⟨d', by simp only [decodeStaticItems, bind, run_bind, run_getS, h]⟩
  | staticTail f item size n d d1 dr x bl hx _ ih =>
    obtain ⟨d', h⟩ := ih hshort
    exact ⟨d', by simp only [decodeStaticItems, bind, run_bind, run_getS, run_modifyS, hx, h]⟩
  | nHead f item n d dr bl _ ih =>
    obtain ⟨d', h⟩ := ih hshort
    exact ⟨d', by simp only [decodeNItems, bind, run_bind, run_getS, h]⟩
  | nTail f item n d d1 dr x bl hx hadv _ ih =>
    obtain ⟨d', h⟩ := ih hshort
    have hadv' : ¬ (d1.cursorByte ≤ d.cursorByte) := by omega
    exact ⟨d', by simp only [decodeNItems, bind, run_bind, run_getS, run_ite, hx, hadv', if_false, h]⟩
  | endHead f item d dr bl hlt _ ih =>
    obtain ⟨d', h⟩ := ih hshort
    exact ⟨d', by simp only [decodeToEnd, bind, run_bind, run_getS, run_ite, hlt, if_true, h]⟩
  | endTail f item d d1 dr x bl hlt hx hadv _ ih =>
    obtain ⟨d', h⟩ := ih hshort
    have hadv' : ¬ (d1.cursorByte ≤ d.cursorByte) := by omega
    exact ⟨d', by simp only [decodeToEnd, bind, run_bind, run_getS, run_ite, hlt, if_true, hx, hadv', if_false, h]⟩
  | markHead f tv tdop item d d1 dr bl hne hprobe _ ih =>
    obtain ⟨d', h⟩ := ih hshort
    refine ⟨d', ?_⟩
    cases hprobe with
    | other x d1 hx hmiss =>
      cases x <;> first
        | simp only [decodeUntilMarker, bind, pure, run_bind, run_getS, run_ite, hne, if_false, run_tryCatch', hx, run_pure,
            run_modifyS, Bool.false_eq_true, h, hmiss _ rfl]
        | simp only [decodeUntilMarker, bind, pure, run_bind, run_getS, run_ite, hne, if_false, run_tryCatch', hx, run_pure,
            run_modifyS, Bool.false_eq_true, h]
    | raised e d1 he hcls =>
      have hdec : decide (e = Err.decode ∨ e = Err.mismatch) = true := by simpa using hcls
      simp only [decodeUntilMarker, bind, pure, run_bind, run_getS, run_ite, hne, if_false, run_tryCatch', he, hdec, if_true,
        run_pure, run_modifyS, Bool.false_eq_true, h]
  | markTail f tv tdop item d d1 d2 dr x bl hne hprobe hx hadv _ ih =>
    obtain ⟨d', h⟩ := ih hshort
    have hadv' : ¬ (d2.cursorByte ≤ d.cursorByte) := by omega
    refine ⟨d', ?_⟩
    cases hprobe with
    | other y d1 hy hmiss =>
      cases y <;> first
        | simp only [decodeUntilMarker, bind, pure, run_bind, run_getS, run_ite, hne, if_false, run_tryCatch', hy, run_pure,
            run_modifyS, Bool.false_eq_true, hx, hadv', h, hmiss _ rfl]
        | simp only [decodeUntilMarker, bind, pure, run_bind, run_getS, run_ite, hne, if_false, run_tryCatch', hy, run_pure,
            run_modifyS, Bool.false_eq_true, hx, hadv', h]
    | raised e d1 he hcls =>
      have hdec : decide (e = Err.decode ∨ e = Err.mismatch) = true := by simpa using hcls
      simp only [decodeUntilMarker, bind, pure, run_bind, run_getS, run_ite, hne, if_false, run_tryCatch', he, hdec, if_true,
        run_pure, run_modifyS, Bool.false_eq_true, hx, hadv', h]
  | codedConst f name bp bit dct v d dr bl _ ih =>
    obtain ⟨d', h⟩ := ih hshort
    refine ⟨d', ?_⟩
    cases bp <;>
    · simp only [DecState.atParam] at h
      simp only [decodeParam, bind, run_bind, run_modifyS, h]
  | physConst f name bp bit dop v d dr bl _ ih =>
    obtain ⟨d', h⟩ := ih hshort
    refine ⟨d', ?_⟩
    cases bp <;>
    · simp only [DecState.atParam] at h
      simp only [decodeParam, bind, run_bind, run_modifyS, h]
  | value f name bp bit dop dv d dr bl _ ih =>
    obtain ⟨d', h⟩ := ih hshort
    refine ⟨d', ?_⟩
    cases bp <;>
    · simp only [DecState.atParam] at h
      simp only [decodeParam, bind, run_bind, run_modifyS, h]
  | reserved f name bp bit bl d h0 =>
    obtain ⟨d', h⟩ := extractAtomic_short bl .uint32 none false (d.atParam bp bit) st
      ⟨h0, (fun h => by cases h), (fun h => by cases h)⟩ hshort
    refine ⟨d', ?_⟩
    cases bp <;>
    · simp only [DecState.atParam] at h
      simp only [decodeParam, bind, run_bind, run_modifyS, h]
  | matchingReq f name bp bit reqPos byteLen d h0 =>
    obtain ⟨d', h⟩ := extractAtomic_short (8 * byteLen) .uint32 none false (d.atParam bp bit) st
      ⟨by omega, (fun h => by cases h), (fun h => by cases h)⟩ hshort
    refine ⟨d', ?_⟩
    cases bp <;>
    · simp only [DecState.atParam] at h
      simp only [decodeParam, bind, run_bind, run_modifyS, h]
  | nrcConst f name bp bit dct vs d dr bl _ ih =>
    obtain ⟨d', h⟩ := ih hshort
    refine ⟨d', ?_⟩
    cases bp <;>
    · simp only [DecState.atParam] at h
      simp only [decodeParam, bind, run_bind, run_modifyS, h]
  | lengthKey f name bp bit dop d dr bl _ ih =>
    obtain ⟨d', h⟩ := ih hshort
    refine ⟨d', ?_⟩
    cases bp <;>
    · simp only [DecState.atParam] at h
      simp only [decodeParam, bind, run_bind, run_modifyS, h]
  | paramsHead f p rest d dr bl _ ih =>
    obtain ⟨d', h⟩ := ih hshort
    exact ⟨d', by simp only [decodeParams, bind, run_bind, h]⟩
  | paramsTail f p rest d d1 dr v bl hv _ ih =>
    obtain ⟨d', h⟩ := ih hshort
    exact ⟨d', by simp only [decodeParams, bind, run_bind, hv, h]⟩
  | composite f ps d dr bl _ ih =>
    obtain ⟨d', h⟩ := ih hshort
    exact ⟨d', by simp only [decodeComposite, bind, run_bind, run_getS, run_modifyS, h]⟩

/-- **every object the decoder has to read is an object of the message being decoded** -/
theorem Reads.msg (st : Bool) (f : Nat) (site : Site) (d dr : DecState) (bl : Nat) (h : Reads st f site d dr bl) :
    dr.msg = d.msg := by
  induction h with
  | std | minmax | leadingLen | paramLen | reserved | matchingReq => rfl
  | leadingBody n bt enc hl bl d d1 i h1 _ => exact (keeps_extractAtomic _ _ _ _).ok h1
  | simple _ _ _ _ _ _ _ _ ih | dtc _ _ _ _ _ _ _ _ _ ih | struct _ _ _ _ _ _ _ ih => exact ih
  | staticField _ _ _ _ _ _ _ _ _ ih | dynCount _ _ _ _ _ _ _ _ _ _ _ ih | eopField _ _ _ _ _ _ _ _ _ ih
  | endMarkerField _ _ _ _ _ _ _ _ _ ih | muxKey _ _ _ _ _ _ _ _ _ _ _ ih => exact ih
  | dynItems f off cbp cbit cdop item d d1 dr i bl _ hcnt _ _ ih =>
    have h1 := ((keeps_decode_all f).1 _).ok hcnt
    exact ih.trans h1
  | muxCase f bp swBp swBit swDop cases dflt d d1 dr key name cd bl hkey _ _ ih =>
    have h1 := ((keeps_decode_all f).2.2.2.2.2.1 _).ok hkey
    exact ih.trans h1
  | staticHead _ _ _ _ _ _ _ _ ih | nHead _ _ _ _ _ _ _ ih | endHead _ _ _ _ _ _ _ ih => exact ih
  | staticTail f item size n d d1 dr x bl hx _ ih => exact ih.trans (show d1.msg = d.msg from ((keeps_decode_all f).1 _).ok hx)
  | nTail f item n d d1 dr x bl hx _ _ ih => exact ih.trans (show d1.msg = d.msg from ((keeps_decode_all f).1 _).ok hx)
  | endTail f item d d1 dr x bl _ hx _ _ ih => exact ih.trans (show d1.msg = d.msg from ((keeps_decode_all f).1 _).ok hx)
  | markHead f tv tdop item d d1 dr bl _ hprobe _ ih =>
    refine ih.trans (show d1.msg = d.msg from ?_)
    cases hprobe with
    | other x d1 hx _ => exact ((keeps_decode_all f).1 _).ok hx
    | raised e d1 he _ => exact ((keeps_decode_all f).1 _).error he
  | markTail f tv tdop item d d1 d2 dr x bl _ hprobe hx _ _ ih =>
    refine ih.trans (((keeps_decode_all f).1 _).ok hx |>.trans (show d1.msg = d.msg from ?_))
    cases hprobe with
    | other x d1 hx _ => exact ((keeps_decode_all f).1 _).ok hx
    | raised e d1 he _ => exact ((keeps_decode_all f).1 _).error he
  | codedConst _ _ _ _ _ _ _ _ _ _ ih | physConst _ _ _ _ _ _ _ _ _ _ ih | value _ _ _ _ _ _ _ _ _ _ ih
  | nrcConst _ _ _ _ _ _ _ _ _ _ ih | lengthKey _ _ _ _ _ _ _ _ _ ih => exact ih
  | paramsHead _ _ _ _ _ _ _ ih => exact ih
  | paramsTail f p rest d d1 dr v bl hv _ ih => exact ih.trans (show d1.msg = d.msg from ((keeps_decode_all f).2.2.2.2.2.1 _).ok hv)
  | composite _ _ _ _ _ _ ih => exact ih

end OdxVerif.Codec
