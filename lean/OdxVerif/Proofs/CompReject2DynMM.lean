import OdxVerif.Proofs.CompReject2DynStr
/-! Compositional tier, rejection side, second part (task W18, C04): **MIN-MAX-LENGTH-TYPE over the string base types, ended by the
    end of the PDU** (last parameter) as a value-free description (`PDesc.ofMinMaxLastStr`) — the string counterpart of
    `PDesc.ofMinMaxLastBytes` (`Proofs/CompReject2Dyn.lean`).  Accepted: a string the DOP's codec can encode into MIN-LENGTH … MAX-LENGTH
    bytes without a termination sequence at an aligned position ≥ MIN-LENGTH; everything else `EncodeError`.  Core Lean only. -/
namespace OdxVerif.Codec
open OdxVerif.Bits OdxVerif.OdxM

structure MMStrShape where
  name : String
  bytePos : Option Nat
  bt : BaseType
  hl : Bool
  minLen : Nat
  maxLen : Option Nat
  term : Term

def MMStrShape.ok (sh : MMStrShape) : Prop := sh.bt = .ascii ∨ sh.bt = .utf8 ∨ sh.bt = .unicode2

def MMStrShape.lead (sh : MMStrShape) : LeadStrShape :=
  { name := sh.name, bytePos := sh.bytePos, bitPos := none, bt := sh.bt, enc := none, hl := sh.hl, bitLen := 8 }

def MMStrShape.codec (sh : MMStrShape) : Text.Codec := sh.lead.codec

def MMStrShape.leaf (sh : MMStrShape) (cps : List Nat) (raw : Bytes) : MMLeaf :=
  { name := sh.name, bytePos := sh.bytePos, bt := sh.bt, enc := none, hl := sh.hl, minLen := sh.minLen, maxLen := sh.maxLen,
    term := sh.term, v := .str cps, raw := raw }

/-- the encoder's acceptance condition on the encoded string -/
def MMStrShape.acceptsR (sh : MMStrShape) (r : Bytes) : Bool :=
  decide (sh.minLen ≤ r.length) && (match sh.maxLen with | some mx => decide (r.length ≤ mx) | none => true) &&
  (decide ((termSeq sh.bt sh.term).length = 0) || !hasTerm r (termSeq sh.bt sh.term) sh.minLen)

def MMStrShape.rawOf (sh : MMStrShape) (cps : List Nat) : Option Bytes :=
  match Text.encode sh.codec cps with
  | some r => if sh.acceptsR r then some r else none
  | none => none

theorem MMStrShape.lead_ok (sh : MMStrShape) (h : sh.ok) : sh.lead.ok :=
  ⟨by show 1 ≤ 8; decide, by show 8 ≤ 64; decide, h⟩

theorem MMStrShape.leaf_ok (sh : MMStrShape) (h : sh.ok) (cps : List Nat) (r : Bytes) (hr : sh.rawOf cps = some r) :
    (sh.leaf cps r).okBase := by
  unfold MMStrShape.rawOf at hr
  cases h1 : Text.encode sh.codec cps with
  | none => simp [h1] at hr
  | some r1 =>
    simp only [h1] at hr
    by_cases hacc : sh.acceptsR r1 = true
    · rw [if_pos hacc] at hr
      cases hr
      obtain ⟨hall, hdec⟩ := Text.encode_spec4 sh.codec sh.lead.codec4 cps r h1
      simp only [MMStrShape.acceptsR, Bool.and_eq_true, decide_eq_true_eq, Bool.or_eq_true, Bool.not_eq_true'] at hacc
      obtain ⟨⟨h2, h3⟩, h4⟩ := hacc
      refine ⟨⟨hall, Or.inr ⟨?_, sh.codec, cps, sh.lead.stringCodec_eq (sh.lead_ok h), rfl, h1, hdec⟩⟩, h2, ?_, ?_⟩
      · rcases h with hb | hb | hb <;> (show BaseType.isString sh.bt = true; rw [hb]; rfl)
      · intro mx hmx
        have hmx' : sh.maxLen = some mx := hmx
        rw [hmx'] at h3
        exact of_decide_eq_true h3
      · intro hpos
        rcases h4 with h4 | h4
        · have : (termSeq sh.bt sh.term).length > 0 := hpos
          omega
        · exact h4
    · rw [if_neg hacc] at hr; cases hr

def PDesc.ofMinMaxLastStr (sh : MMStrShape) : PDesc where
  param := (sh.leaf [] []).toParam
  fill := fun pv => match pv with
    | some (.atom (.str cps)) => (sh.rawOf cps).map (fun r => Comp.ofMinMaxLast (sh.leaf cps r))
    | _ => none
  complete := fun pv => pv.getD .none
  typed := fun _ => true
  need := fun _ => 2
  mayEop := true
  minAdv := sh.minLen

theorem termSeq_match (bt : BaseType) (term : Term) : (match term with
      | .zero => if bt = .unicode2 then [0, 0] else [0]
      | .hexff => if bt = .unicode2 then [255, 255] else [255]
      | .eop => ([] : Bytes)) = termSeq bt term := rfl

/-- what `MinMaxLengthType.encode_into_pdu` does behind the computation of the raw bytes, when they are not acceptable -/
theorem minmax_rest_rej (bt : BaseType) (minLen : Nat) (maxLen : Option Nat) (term : Term) (raw : Bytes) (s : EncState) :
    (decide (minLen ≤ raw.length) && (match maxLen with | some mx => decide (raw.length ≤ mx) | none => true) &&
      (decide ((termSeq bt term).length = 0) || !hasTerm raw (termSeq bt term) minLen)) = false →
    (do
      let n := raw.length
      let dataLen ←
        if n < minLen then do odxraise .encode; pure minLen
        else match maxLen with
          | some mx => if n > mx then do odxraise .encode; pure mx else pure n
          | none => pure n
      let tseq : Bytes := match term with
        | .zero => if bt = .unicode2 then [0, 0] else [0]
        | .hexff => if bt = .unicode2 then [255, 255] else [255]
        | .eop => []
      if tseq.length > 0 ∧ (List.range ((raw.length + tseq.length - 1) / tseq.length)).any
          (fun q => decide (q * tseq.length ≥ minLen) && ((raw.drop (q * tseq.length)).take tseq.length == tseq)) then
        odxraise .encode
      emplaceAtomic (.bytes raw) (8 * dataLen) .bytefield none true none
      let s ← getS
      odxassert (term ≠ .eop || s.isEndOfPdu)
      if s.isEndOfPdu ∨ some dataLen = maxLen then pure ()
      else
        let t : Bytes := match term with
          | .zero => if bt = .unicode2 then [0, 0] else [0]
          | .hexff => if bt = .unicode2 then [255, 255] else [255]
          | .eop => []
        if t.length = 0 then raise .foreign
        else
          odxassert (dataLen % t.length = 0)
          emplaceBytes t none : EncM Unit) s true = .error (.encode, s) := by
  have htseq := termSeq_match bt term
  simp only [htseq]
  cases maxLen with
  | some mx =>
    intro hacc
    by_cases h1 : raw.length < minLen
    · simp only [bind, run_bind, run_ite, h1, if_true, odxraise]
    · have hmin : minLen ≤ raw.length := by omega
      by_cases h2 : raw.length > mx
      · simp only [bind, run_bind, run_ite, h1, if_false, h2, if_true, odxraise]
      · have hle : raw.length ≤ mx := by omega
        have h3 : (decide ((termSeq bt term).length = 0) || !hasTerm raw (termSeq bt term) minLen) = false := by
          simpa [hmin, hle] using hacc
        simp only [Bool.or_eq_false_iff, decide_eq_false_iff_not, Bool.not_eq_false'] at h3
        have hchk : (termSeq bt term).length > 0 ∧ (List.range ((raw.length + (termSeq bt term).length - 1) / (termSeq bt term).length)).any
            (fun q => decide (q * (termSeq bt term).length ≥ minLen) &&
              ((raw.drop (q * (termSeq bt term).length)).take (termSeq bt term).length == termSeq bt term)) = true :=
          ⟨by omega, h3.2⟩
        simp only [bind, pure, run_bind, run_ite, h1, if_false, h2, run_pure, hchk, and_self, if_true, odxraise]
  | none =>
    intro hacc
    by_cases h1 : raw.length < minLen
    · simp only [bind, run_bind, run_ite, h1, if_true, odxraise]
    · have hmin : minLen ≤ raw.length := by omega
      have h3 : (decide ((termSeq bt term).length = 0) || !hasTerm raw (termSeq bt term) minLen) = false := by
        simpa [hmin] using hacc
      simp only [Bool.or_eq_false_iff, decide_eq_false_iff_not, Bool.not_eq_false'] at h3
      have hchk : (termSeq bt term).length > 0 ∧ (List.range ((raw.length + (termSeq bt term).length - 1) / (termSeq bt term).length)).any
          (fun q => decide (q * (termSeq bt term).length ≥ minLen) &&
            ((raw.drop (q * (termSeq bt term).length)).take (termSeq bt term).length == termSeq bt term)) = true :=
        ⟨by omega, h3.2⟩
      simp only [bind, pure, run_bind, run_ite, h1, if_false, run_pure, hchk, and_self, if_true, odxraise]

/-- `MinMaxLengthType.encode_into_pdu` on a string the type does not accept: `EncodeError` (whatever the state) -/
theorem encodeDct_minmaxStr_rej (sh : MMStrShape) (h : sh.ok) (cps : List Nat) (hr : sh.rawOf cps = none) (s : EncState) :
    encodeDct (.minmax sh.bt none sh.hl sh.minLen sh.maxLen sh.term) (.str cps) s true = .error (.encode, s) := by
  have hcodec : stringCodec sh.bt none sh.hl = some sh.codec := sh.lead.stringCodec_eq (sh.lead_ok h)
  cases henc : Text.encode sh.codec cps with
  | none =>
    simp only [encodeDct, hcodec, henc, bind, run_bind, pure, run_pure, odxraise]
    rfl
  | some r =>
    have hacc : sh.acceptsR r = false := by
      cases hacc : sh.acceptsR r with
      | false => rfl
      | true => simp [MMStrShape.rawOf, henc, hacc] at hr
    have := minmax_rest_rej sh.bt sh.minLen sh.maxLen sh.term r s hacc
    simp only [encodeDct, hcodec, henc, bind, run_bind, pure, run_pure] at this ⊢
    exact this

theorem encodeParam_minmaxStr_rej (sh : MMStrShape) (h : sh.ok) (cps : List Nat) (hr : sh.rawOf cps = none) (fuel : Nat)
    (s : EncState) :
    ∃ s', encodeParam (fuel + 2) (sh.leaf [] []).toParam (some (.atom (.str cps))) s true = .error (.encode, s') := by
  have hta : typeAdmits sh.bt (.str cps) = true := by rcases h with hb | hb | hb <;> rw [hb] <;> rfl
  have hrej := fun (s : EncState) => encodeDct_minmaxStr_rej sh h cps hr s
  refine ⟨?_, ?_⟩
  rotate_left
  · simp only [MMStrShape.leaf, MMLeaf.toParam, MMLeaf.dct, encodeParam, encodeDop, hta, bind, run_bind, run_modifyS, run_ite,
      Bool.not_true, Bool.false_eq_true, if_false, hrej]
    rfl

theorem PDesc.ofMinMaxLastStr_okW (sh : MMStrShape) (hsh : sh.ok) : (PDesc.ofMinMaxLastStr sh).OkW where
  notKey := rfl
  acc := by
    intro pv g _ hf
    have key : ∃ cps r, pv = some (.atom (.str cps)) ∧ sh.rawOf cps = some r ∧ g = Comp.ofMinMaxLast (sh.leaf cps r) := by
      cases pv with
      | none => simp [PDesc.ofMinMaxLastStr] at hf
      | some x =>
        cases x with
        | atom v =>
          cases v with
          | str cps =>
            simp only [PDesc.ofMinMaxLastStr] at hf
            cases hr : sh.rawOf cps with
            | none => rw [hr] at hf; cases hf
            | some r => rw [hr] at hf; exact ⟨cps, r, rfl, hr, (Option.some.inj hf).symm⟩
          | _ => simp [PDesc.ofMinMaxLastStr] at hf
        | _ => simp [PDesc.ofMinMaxLastStr] at hf
    obtain ⟨cps, r, rfl, hr, rfl⟩ := key
    have hl := sh.leaf_ok hsh cps r hr
    exact {
      ok := Comp.ofMinMaxLast_ok _ hl
      endOk := Comp.ofMinMaxLast_endOk _ hl
      param := rfl
      sup := rfl
      need := Nat.le_refl _
      eop := fun _ => rfl
      adv := fun org c => by
        have h2 : (sh.leaf cps r).minLen ≤ r.length := hl.2.1
        have h3 : (sh.leaf cps r).minLen = sh.minLen := rfl
        show sh.minLen ≤ posOf sh.bytePos org c + r.length
        omega
      val := rfl }
  rej := by
    intro pv hne _ hf fuel hfu s _
    obtain ⟨f, rfl⟩ : ∃ f, fuel = f + 2 := ⟨fuel - 2, by simp only [PDesc.ofMinMaxLastStr] at hfu; omega⟩
    have hnt : ∀ v : IVal, (∀ cps, v ≠ .str cps) → typeAdmits sh.bt v = false := by
      intro v hv
      rcases hsh with hb | hb | hb <;> rw [hb] <;> cases v <;> first | rfl | exact absurd rfl (hv _)
    cases pv with
    | none =>
      refine ⟨.encode, ?_, ?_, RejErr.encode _⟩
      rotate_left
      · simp [PDesc.ofMinMaxLastStr, MMStrShape.leaf, MMLeaf.toParam, encodeParam, bind, run_bind, run_modifyS, odxraise]
        rfl
    | some x =>
      cases x with
      | none => exact absurd rfl hne
      | atom v =>
        cases v with
        | str cps =>
          have hr : sh.rawOf cps = none := by
            cases hr : sh.rawOf cps with
            | none => rfl
            | some r => simp [PDesc.ofMinMaxLastStr, hr] at hf
          obtain ⟨s', hrun⟩ := encodeParam_minmaxStr_rej sh hsh cps hr f s
          exact ⟨.encode, s', hrun, RejErr.encode _⟩
        | int i =>
          have := hnt (.int i) (fun _ h => by cases h)
          refine ⟨.encode, ?_, ?_, RejErr.encode _⟩
          rotate_left
          · simp [PDesc.ofMinMaxLastStr, MMStrShape.leaf, MMLeaf.toParam, encodeParam, encodeDop, this, bind, run_bind, run_modifyS,
              run_raise]
            rfl
        | bytes b =>
          have := hnt (.bytes b) (fun _ h => by cases h)
          refine ⟨.encode, ?_, ?_, RejErr.encode _⟩
          rotate_left
          · simp [PDesc.ofMinMaxLastStr, MMStrShape.leaf, MMLeaf.toParam, encodeParam, encodeDop, this, bind, run_bind, run_modifyS,
              run_raise]
            rfl
        | flt x =>
          have := hnt (.flt x) (fun _ h => by cases h)
          refine ⟨.encode, ?_, ?_, RejErr.encode _⟩
          rotate_left
          · simp [PDesc.ofMinMaxLastStr, MMStrShape.leaf, MMLeaf.toParam, encodeParam, encodeDop, this, bind, run_bind, run_modifyS,
              run_raise]
            rfl
      | list _ | dict _ | pair _ _ | keyed _ _ | nokey _ | dtc _ =>
        refine ⟨.encode, ?_, ?_, RejErr.encode _⟩
        rotate_left
        · simp [PDesc.ofMinMaxLastStr, MMStrShape.leaf, MMLeaf.toParam, encodeParam, encodeDop, bind, run_bind, run_modifyS, run_raise]
          rfl

end OdxVerif.Codec
