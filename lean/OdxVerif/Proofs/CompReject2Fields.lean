import OdxVerif.Proofs.CompReject2
/-! Compositional tier, rejection side, second part (task W18, C04): closure of `DDesc.OkW` under STATIC-FIELD,
    DYNAMIC-LENGTH-FIELD and END-OF-PDU-FIELD — the proofs of `Proofs/CompRejectFields.lean` with the input hypothesis
    `wfAtoms` handed down to the items.  Core Lean only. -/
namespace OdxVerif.Codec
open OdxVerif.Bits OdxVerif.OdxM

theorem PVal.wfList_cons (x : PVal) (xs : List PVal) (h : PVal.wfList (x :: xs) = true) : x.wfAtoms = true ∧ PVal.wfList xs = true := by
  simpa only [PVal.wfList, Bool.and_eq_true] using h

theorem DDesc.fillItems_someW (d : DDesc) (hd : d.OkW) (chk : DComp → Bool) : ∀ (xs : List PVal) (cs : List DComp),
    d.fillItems chk xs = some cs → DComps.Fill d chk cs xs
  | [], cs, h => by
    simp only [DDesc.fillItems, Option.some.injEq] at h
    subst h
    exact .nil
  | x :: xs, cs, h => by
    simp only [DDesc.fillItems] at h
    cases h1 : d.fill x with
    | none => rw [h1] at h; cases h
    | some c =>
      rw [h1] at h
      cases h2 : chk c with
      | false => simp [h2] at h
      | true =>
        simp only [h2, if_true] at h
        cases h3 : d.fillItems chk xs with
        | none => rw [h3] at h; simp at h
        | some cs0 =>
          rw [h3] at h
          simp only [Option.some.injEq] at h
          subst h
          exact .cons (hd.acc x c h1) h2 (DDesc.fillItems_someW d hd chk xs cs0 h3)

/-- the static-field item loop fails if an item is not accepted or does not end within ITEM-BYTE-SIZE -/
theorem encodeStaticItems_rejW (item : DDesc) (hok : item.OkW) (hne : item.mayEop = false) (n : Nat) (eop : Bool) :
    ∀ (xs : List PVal), PVal.wfList xs = true → item.fillItems (fun c => decide (c.size ≤ n)) xs = none →
    ∀ (fuel : Nat), xs.length + item.needItems xs + 1 ≤ fuel → ∀ (s : EncState), s.cursorBit = 0 →
    ∃ e s', encodeStaticItems item.dop n eop fuel xs s true = .error (e, s') ∧ RejErr e (xs.all item.typed) := by
  intro xs
  induction xs with
  | nil => intro _ h; simp [DDesc.fillItems] at h
  | cons x rest ih =>
    intro hwf hf fuel hfu s hcb
    obtain ⟨hwx, hwr⟩ := PVal.wfList_cons x rest hwf
    simp only [List.length_cons, DDesc.needItems] at hfu
    obtain ⟨f, rfl⟩ : ∃ f, fuel = f + 1 := ⟨fuel - 1, by omega⟩
    simp only [List.all_cons]
    cases h1 : item.fill x with
    | none =>
      obtain ⟨e, s', hrun, he⟩ := hok.rej x hwx h1 f (by omega) s hcb (fun h => by rw [hne] at h; cases h)
      refine ⟨e, s', ?_, he.and_left _⟩
      simp only [encodeStaticItems, bind, run_bind, run_getS, hrun]
    | some c =>
      have hc := hok.acc x c h1
      have hnoe : c.eopOnly = true → s.isEndOfPdu = true := by
        intro he; have := hc.eop he; rw [hne] at this; cases this
      obtain ⟨s1, hrun1, hc1, hcb1⟩ := hc.ok.encode_eq f (by have := hc.need; omega) s hcb hnoe
      rw [hc.dop, hc.sup] at hrun1
      have hcur1 : s1.cursorByte = s.cursorByte + c.size := by rw [hc1.2.2.2.1, hc.ok.enc_cursor]
      by_cases hsz : c.size ≤ n
      · have h2 : item.fillItems (fun c => decide (c.size ≤ n)) rest = none := by
          simp only [DDesc.fillItems, h1, hsz, decide_true, if_true] at hf
          cases h2 : item.fillItems (fun c => decide (c.size ≤ n)) rest with
          | none => rfl
          | some cs => rw [h2] at hf; cases hf
        let s2 : EncState := if s1.cursorByte - s.cursorByte < n then padEnc (n - (s1.cursorByte - s.cursorByte)) s1 else s1
        have hcb2 : s2.cursorBit = 0 := by
          show (if s1.cursorByte - s.cursorByte < n then padEnc (n - (s1.cursorByte - s.cursorByte)) s1 else s1).cursorBit = 0
          split <;> simp [padEnc_cursorBit, hcb1]
        obtain ⟨e, s', hrun, he⟩ := ih hwr h2 f (by omega) s2 hcb2
        refine ⟨e, s', ?_, he.and_right _⟩
        rw [encodeStaticItems_cons _ n eop f _ _ s s1 hrun1 (by omega) hcb1]
        exact hrun
      · refine ⟨.odx, ?_, ?_, RejErr.odx _⟩
        rotate_left
        · have hgt : s1.cursorByte - s.cursorByte > n := by omega
          simp only [encodeStaticItems, bind, run_bind, run_getS, hrun1, hgt, if_true, odxraise]
          rfl

/-- **closure under STATIC-FIELD** -/
theorem DDesc.staticField_okW (count n : Nat) (item : DDesc) (hok : item.OkW) (hne : item.mayEop = false) :
    (DDesc.staticField count n item).OkW where
  acc := by
    intro pv c hf
    have key : ∃ xs cs, pv = .list xs ∧ xs.length = count ∧ item.fillItems (fun c => decide (c.size ≤ n)) xs = some cs ∧
        c = DComp.staticField n item.dop cs := by
      cases pv with
      | list xs =>
        simp only [DDesc.staticField] at hf
        by_cases hl : xs.length = count
        · simp only [hl, if_true] at hf
          cases hcs : item.fillItems (fun c => decide (c.size ≤ n)) xs with
          | none => rw [hcs] at hf; cases hf
          | some cs => rw [hcs] at hf; exact ⟨xs, cs, rfl, hl, hcs, by simpa using hf.symm⟩
        · simp [hl] at hf
      | _ => simp [DDesc.staticField] at hf
    obtain ⟨xs, cs, rfl, hl, hcs, rfl⟩ := key
    have hfl := item.fillItems_someW hok _ xs cs hcs
    have hitems := hfl.itemOk hne
    have hlen := hfl.length
    exact {
      ok := DComp.staticField_ok n item.dop cs (fun c hc =>
        ⟨(hitems c hc).1, (hitems c hc).2.1, of_decide_eq_true (hitems c hc).2.2.2⟩)
      endOk := DComp.staticField_endOk n item.dop cs
      dop := by simp only [DComp.staticField, DDesc.staticField, hlen, hl]
      sup := by simp only [DComp.staticField, hfl.sups]
      need := by have := hfl.maxNeed; simp only [DComp.staticField, DDesc.staticField]; omega
      eop := fun h => by cases h
      size := by simp only [DComp.staticField, DDesc.staticField, hlen, hl]; exact Nat.le_refl _
      val := by
        rw [DComp.staticField_val, hfl.vals]
        rfl }
  rej := by
    intro pv hwf hf fuel hfu s hcb _
    cases pv with
    | list xs =>
      simp only [DDesc.staticField] at hfu
      obtain ⟨f, rfl⟩ : ∃ f, fuel = f + 1 := ⟨fuel - 1, by omega⟩
      by_cases hl : xs.length = count
      · have hcs : item.fillItems (fun c => decide (c.size ≤ n)) xs = none := by
          simp only [DDesc.staticField, hl, if_true] at hf
          cases hcs : item.fillItems (fun c => decide (c.size ≤ n)) xs with
          | none => rfl
          | some cs => rw [hcs] at hf; cases hf
        obtain ⟨e, s', hrun, he⟩ := encodeStaticItems_rejW item hok hne n s.isEndOfPdu xs hwf hcs f (by omega)
          { s with isEndOfPdu := false } hcb
        refine ⟨e, s', ?_, he⟩
        simp only [DDesc.staticField]
        rw [encodeDop_static_step f count n item.dop xs s hl, hrun]
      · refine ⟨.odx, ?_, ?_, RejErr.odx _⟩
        rotate_left
        · simp only [DDesc.staticField, encodeDop, bind, run_bind, ne_eq, hl, not_false_eq_true, if_true, odxraise]
          rfl
    | atom v =>
      simp only [DDesc.staticField] at hfu
      obtain ⟨f, rfl⟩ : ∃ f, fuel = f + 1 := ⟨fuel - 1, by omega⟩
      cases v with
      | str cps => exact ⟨.unmodelled, s, by simp [DDesc.staticField, encodeDop, run_raise], Or.inr ⟨rfl, rfl⟩⟩
      | bytes b => exact ⟨.unmodelled, s, by simp [DDesc.staticField, encodeDop, run_raise], Or.inr ⟨rfl, rfl⟩⟩
      | int i => exact ⟨.odx, s, by simp [DDesc.staticField, encodeDop, bind, run_bind, odxraise], RejErr.odx _⟩
      | flt b => exact ⟨.odx, s, by simp [DDesc.staticField, encodeDop, bind, run_bind, odxraise], RejErr.odx _⟩
    | dict _ | none | pair _ _ | keyed _ _ | nokey _ | dtc _ =>
      simp only [DDesc.staticField] at hfu
      obtain ⟨f, rfl⟩ : ∃ f, fuel = f + 1 := ⟨fuel - 1, by omega⟩
      exact ⟨.odx, s, by simp [DDesc.staticField, encodeDop, bind, run_bind, odxraise], RejErr.odx _⟩

theorem encodeItems_rejW (item : DDesc) (hok : item.OkW) (hne : item.mayEop = false) (eop : Bool) :
    ∀ (xs : List PVal), PVal.wfList xs = true → item.fillItems (fun _ => true) xs = none →
    ∀ (fuel : Nat), xs.length + item.needItems xs + 1 ≤ fuel → ∀ (s : EncState), s.cursorBit = 0 →
    ∃ e s', encodeItems item.dop eop fuel xs s true = .error (e, s') ∧ RejErr e (xs.all item.typed) := by
  intro xs
  induction xs with
  | nil => intro _ h; simp [DDesc.fillItems] at h
  | cons x rest ih =>
    intro hwf hf fuel hfu s hcb
    obtain ⟨hwx, hwr⟩ := PVal.wfList_cons x rest hwf
    simp only [List.length_cons, DDesc.needItems] at hfu
    obtain ⟨f, rfl⟩ : ∃ f, fuel = f + 1 := ⟨fuel - 1, by omega⟩
    simp only [List.all_cons]
    cases h1 : item.fill x with
    | none =>
      cases rest with
      | nil =>
        obtain ⟨e, s', hrun, he⟩ := hok.rej x hwx h1 f (by omega) { s with isEndOfPdu := eop } hcb
          (fun h => by rw [hne] at h; cases h)
        exact ⟨e, s', encodeItems_one_err _ eop f x s true _ hrun, he.and_left _⟩
      | cons y rest2 =>
        obtain ⟨e, s', hrun, he⟩ := hok.rej x hwx h1 f (by omega) s hcb (fun h => by rw [hne] at h; cases h)
        exact ⟨e, s', encodeItems_cons_err _ eop f x y rest2 s true _ hrun, he.and_left _⟩
    | some c =>
      have hc := hok.acc x c h1
      have h2 : item.fillItems (fun _ => true) rest = none := by
        simp only [DDesc.fillItems, h1, if_true] at hf
        cases h2 : item.fillItems (fun _ => true) rest with
        | none => rfl
        | some cs => rw [h2] at hf; cases hf
      cases rest with
      | nil => simp [DDesc.fillItems] at h2
      | cons y rest2 =>
        have hnoe : c.eopOnly = true → s.isEndOfPdu = true := by
          intro he; have := hc.eop he; rw [hne] at this; cases this
        obtain ⟨s1, hrun1, _, hcb1⟩ := hc.ok.encode_eq f (by have := hc.need; omega) s hcb hnoe
        rw [hc.dop, hc.sup] at hrun1
        -- (fix c04-field-item-consumes-nothing) an accepted item that leaves the cursor where it was: EncodeError
        by_cases hadv : s.cursorByte < s1.cursorByte
        · obtain ⟨e, s', hrun, he⟩ := ih hwr h2 f (by simp only [List.length_cons] at hfu ⊢; omega) s1 hcb1
          refine ⟨e, s', ?_, he.and_right _⟩
          rw [encodeItems_cons_ok _ eop f x y rest2 s s1 true hrun1 hadv]
          exact hrun
        · exact ⟨.encode, s1, encodeItems_cons_stuck _ eop f x y rest2 s s1 hrun1 (by omega), RejErr.encode _⟩

/-- **closure under DYNAMIC-LENGTH-FIELD**: the count object is an integer object that ends before OFFSET; every item
    consumes at least one byte (`minSize`: a lower bound read off the description) -/
theorem DDesc.dynLenField_okW (l : DynLayout) (item : DDesc) (hok : item.OkW) (hne : item.mayEop = false)
    (hadv : 1 ≤ item.minSize) (hc : l.cntObj.ok) (hint : l.cntObj.isInt) (hoff : l.cntBp + l.cntObj.k ≤ l.offset) :
    (DDesc.dynLenField l item).OkW where
  acc := by
    intro pv c hf
    have key : ∃ xs cs, pv = .list xs ∧ l.cntObj.accepts (.int xs.length) = true ∧ item.fillItems (fun _ => true) xs = some cs ∧
        c = DComp.dynLenField l item.dop cs := by
      cases pv with
      | list xs =>
        simp only [DDesc.dynLenField] at hf
        cases hl : l.cntObj.accepts (.int xs.length) with
        | false => rw [hl] at hf; simp at hf
        | true =>
          rw [hl] at hf
          simp only [if_true] at hf
          cases hcs : item.fillItems (fun _ => true) xs with
          | none => rw [hcs] at hf; cases hf
          | some cs => rw [hcs] at hf; exact ⟨xs, cs, rfl, hl, hcs, by simpa using hf.symm⟩
      | _ => simp [DDesc.dynLenField] at hf
    obtain ⟨xs, cs, rfl, hacc, hcs, rfl⟩ := key
    have hfl := item.fillItems_someW hok _ xs cs hcs
    have hitems := hfl.itemOk hne
    have hlen := hfl.length
    have hr : l.cntObj.inRange (.int cs.length) := by rw [hlen]; exact (l.cntObj.accepts_iff hc _).mp hacc
    exact {
      ok := DComp.dynLenField_ok l item.dop cs ⟨hc, hr, hoff⟩ (fun c hc =>
        ⟨(hitems c hc).1, (hitems c hc).2.1, Nat.le_trans hadv (hitems c hc).2.2.1⟩)
      endOk := DComp.dynLenField_endOk l item.dop cs
      dop := rfl
      sup := by simp only [DComp.dynLenField, hfl.sups]
      need := by have := hfl.maxNeed; simp only [DComp.dynLenField, DDesc.dynLenField]; omega
      eop := fun h => by cases h
      size := by simp only [DComp.dynLenField, DDesc.dynLenField]; omega
      val := by
        rw [DComp.dynLenField_val, hfl.vals]
        rfl }
  rej := by
    intro pv hwf hf fuel hfu s hcb _
    cases pv with
    | list xs =>
      simp only [DDesc.dynLenField] at hfu
      obtain ⟨g, rfl⟩ : ∃ g, fuel = g + 1 + 1 := ⟨fuel - 2, by omega⟩
      cases hl : l.cntObj.accepts (.int xs.length) with
      | false =>
        obtain ⟨e, s', hrun, he⟩ := encodeDop_obj_bad l.cntObj hc hint (.int xs.length) hl g { s with origin := s.cursorByte }
        have hrun' : encodeDop (g + 1) l.cntDop (.atom (.int xs.length))
            { s with origin := s.cursorByte, cursorBit := l.cnt.bp, cursorByte := s.cursorByte + l.cntBp } true = .error (e, s') := hrun
        refine ⟨e, s', ?_, Or.inl he⟩
        simp only [DDesc.dynLenField]
        exact encodeDop_dyn_cnt_fail (g + 1) _ _ _ _ _ xs s hcb e s' hrun'
      | true =>
        have hcs : item.fillItems (fun _ => true) xs = none := by
          simp only [DDesc.dynLenField, hl, if_true] at hf
          cases hcs : item.fillItems (fun _ => true) xs with
          | none => rfl
          | some cs => rw [hcs] at hf; cases hf
        have hr : l.cntObj.inRange (.int xs.length) := (l.cntObj.accepts_iff hc _).mp hl
        let s2 : EncState := { s with origin := s.cursorByte }
        obtain ⟨sc, hcnt, hsc⟩ := encodeDop_obj l.cntObj hc (.int xs.length) hr g s2
        let E : EncState := encStep l.cntObj (.int xs.length) s2
        have hscE : ({ sc with cursorBit := 0 } : EncState) = E := hsc
        have hsc_cur : sc.cursorByte = E.cursorByte := by have := congrArg EncState.cursorByte hscE; exact this
        have hsc_org : sc.origin = E.origin := by have := congrArg EncState.origin hscE; exact this
        have hEcur : E.cursorByte = s.cursorByte + l.cntBp + l.cntObj.k := rfl
        have hEorg : E.origin = s.cursorByte := rfl
        have hcntRun : encodeDop (g + 1) l.cntDop (.atom (.int xs.length))
            { s with origin := s.cursorByte, cursorBit := l.cnt.bp, cursorByte := s.cursorByte + l.cntBp } true = .ok ((), sc) := hcnt
        have hstep := encodeDop_dyn_step (g + 1) l.offset l.cntBp l.cnt.bp l.cntDop item.dop xs s sc hcb hcntRun
          (by rw [hsc_cur, hsc_org, hEcur, hEorg]; omega)
        obtain ⟨e, s', hrun, he⟩ := encodeItems_rejW item hok hne s.isEndOfPdu xs hwf hcs (g + 1) (by omega)
          { sc with cursorByte := sc.origin + l.offset, cursorBit := 0, isEndOfPdu := false } rfl
        rw [hrun] at hstep
        exact ⟨e, s', hstep, he⟩
    | atom v =>
      simp only [DDesc.dynLenField] at hfu
      obtain ⟨f, rfl⟩ : ∃ f, fuel = f + 1 := ⟨fuel - 1, by omega⟩
      cases v with
      | str cps =>
        exact ⟨.unmodelled, s, by simp [DDesc.dynLenField, encodeDop, bind, run_bind, run_getS, odxassert, hcb, run_pure, run_raise],
          Or.inr ⟨rfl, rfl⟩⟩
      | bytes b =>
        exact ⟨.unmodelled, s, by simp [DDesc.dynLenField, encodeDop, bind, run_bind, run_getS, odxassert, hcb, run_pure, run_raise],
          Or.inr ⟨rfl, rfl⟩⟩
      | int i =>
        exact ⟨.encode, s, by simp [DDesc.dynLenField, encodeDop, bind, run_bind, run_getS, odxassert, hcb, run_pure, odxraise],
          RejErr.encode _⟩
      | flt b =>
        exact ⟨.encode, s, by simp [DDesc.dynLenField, encodeDop, bind, run_bind, run_getS, odxassert, hcb, run_pure, odxraise],
          RejErr.encode _⟩
    | dict _ | none | pair _ _ | keyed _ _ | nokey _ | dtc _ =>
      simp only [DDesc.dynLenField] at hfu
      obtain ⟨f, rfl⟩ : ∃ f, fuel = f + 1 := ⟨fuel - 1, by omega⟩
      exact ⟨.encode, s, by simp [DDesc.dynLenField, encodeDop, bind, run_bind, run_getS, odxassert, hcb, run_pure, odxraise],
        RejErr.encode _⟩

/-- **closure under END-OF-PDU-FIELD** -/
theorem DDesc.eopField_okW (mn mx : Option Nat) (item : DDesc) (hok : item.OkW) (hne : item.mayEop = false)
    (hadv : 1 ≤ item.minSize) : (DDesc.eopField mn mx item).OkW where
  acc := by
    intro pv c hf
    have key : ∃ xs cs, pv = .list xs ∧ item.fillItems (fun _ => true) xs = some cs ∧ c = DComp.eopField mn mx item.dop cs := by
      cases pv with
      | list xs =>
        simp only [DDesc.eopField] at hf
        cases hcs : item.fillItems (fun _ => true) xs with
        | none => rw [hcs] at hf; cases hf
        | some cs => rw [hcs] at hf; exact ⟨xs, cs, rfl, hcs, by simpa using hf.symm⟩
      | _ => simp [DDesc.eopField] at hf
    obtain ⟨xs, cs, rfl, hcs, rfl⟩ := key
    have hfl := item.fillItems_someW hok _ xs cs hcs
    have hitems := hfl.itemOk hne
    have hlen := hfl.length
    exact {
      ok := DComp.eopField_ok mn mx item.dop cs (fun c hc =>
        ⟨(hitems c hc).1, (hitems c hc).2.1, Nat.le_trans hadv (hitems c hc).2.2.1⟩)
      endOk := DComp.eopField_endOk mn mx item.dop cs
      dop := rfl
      sup := by simp only [DComp.eopField, hfl.sups]
      need := by have := hfl.maxNeed; simp only [DComp.eopField, DDesc.eopField]; omega
      eop := fun _ => rfl
      size := Nat.zero_le _
      val := by
        rw [DComp.eopField_val, hfl.vals]
        rfl }
  rej := by
    intro pv hwf hf fuel hfu s hcb heop
    have heop' : s.isEndOfPdu = true := heop rfl
    cases pv with
    | list xs =>
      simp only [DDesc.eopField] at hfu
      obtain ⟨g, rfl⟩ : ∃ g, fuel = g + 1 := ⟨fuel - 1, by omega⟩
      have hcs : item.fillItems (fun _ => true) xs = none := by
        simp only [DDesc.eopField] at hf
        cases hcs : item.fillItems (fun _ => true) xs with
        | none => rfl
        | some cs => rw [hcs] at hf; cases hf
      obtain ⟨e, s', hrun, he⟩ := encodeItems_rejW item hok hne true xs hwf hcs g (by omega) { s with isEndOfPdu := false } hcb
      refine ⟨e, s', ?_, he⟩
      simp only [DDesc.eopField]
      rw [encodeDop_eop_step g mn mx item.dop xs s hcb heop', hrun]
    | atom v =>
      simp only [DDesc.eopField] at hfu
      obtain ⟨f, rfl⟩ : ∃ f, fuel = f + 1 := ⟨fuel - 1, by omega⟩
      cases v with
      | str cps =>
        exact ⟨.unmodelled, s, by simp [DDesc.eopField, encodeDop, bind, run_bind, run_getS, odxassert, hcb, heop', run_pure, run_raise],
          Or.inr ⟨rfl, rfl⟩⟩
      | bytes b =>
        exact ⟨.unmodelled, s, by simp [DDesc.eopField, encodeDop, bind, run_bind, run_getS, odxassert, hcb, heop', run_pure, run_raise],
          Or.inr ⟨rfl, rfl⟩⟩
      | int i =>
        exact ⟨.encode, s, by simp [DDesc.eopField, encodeDop, bind, run_bind, run_getS, odxassert, hcb, heop', run_pure, odxraise],
          RejErr.encode _⟩
      | flt b =>
        exact ⟨.encode, s, by simp [DDesc.eopField, encodeDop, bind, run_bind, run_getS, odxassert, hcb, heop', run_pure, odxraise],
          RejErr.encode _⟩
    | dict _ | none | pair _ _ | keyed _ _ | nokey _ | dtc _ =>
      simp only [DDesc.eopField] at hfu
      obtain ⟨f, rfl⟩ : ∃ f, fuel = f + 1 := ⟨fuel - 1, by omega⟩
      exact ⟨.encode, s, by simp [DDesc.eopField, encodeDop, bind, run_bind, run_getS, odxassert, hcb, heop', run_pure, odxraise],
        RejErr.encode _⟩

end OdxVerif.Codec
