import OdxVerif.Proofs.CompExtMid
import OdxVerif.Proofs.CompSkip
/-! Compositional components, extension W11 (4): **MATCHING-REQUEST-PARAM**.
    `MatchingRequestParameter._encode_positioned_into_pdu` copies BYTE-LENGTH bytes of the triggering request from
    REQUEST-BYTE-POS with `emplace_bytes(data)` (no mask: all bytes are claimed); `_decode_positioned_from_pdu` returns them as
    ONE unsigned integer of `8·BYTE-LENGTH` bits in low-high byte order (`extract_atomic_value(…, A_UINT32,
    is_highlow_byte_order=False)`) — hence BYTE-LENGTH ≤ 8 (open finding `matching-request-param-longer-than-8-bytes`).
    Two things make this leaf special:
    * the encoder reads `EncodeState.triggering_request`, which is not part of what the pure pairs may depend on (`SameCore`):
      the pair has the echoed bytes baked in and equals the model from states with THAT triggering request only;
    * `emplace_bytes` without mask claims `used[pos:pos+n]` by slicing, which lands on the wrong bytes when the used-mask is
      shorter than the message (no reachable state; `Good` quantifies over all): the pure encoder repairs the mask first
      (`fixUsed`, the identity when `len(used) ≥ len(msg)`).
    Both are properties the parameter loop maintains (`ModelInv.top`: `encodeParam_keeps_trig`,
    `encodeParam_keeps_usedCovers`), so the leaf is a component in the sense `Comp.OkM _ false (TopInv (some t))`: usable at
    the top level of a response (where ODX puts MATCHING-REQUEST-PARAMs), not inside structures.  Core Lean only. -/
namespace OdxVerif.Codec
open OdxVerif.Bits OdxVerif.OdxM

/-! ### the used-mask repaired -/

/-- pad the used-mask with zeros to the length of the message -/
def fixUsed (s : EncState) : EncState := { s with used := s.used ++ List.replicate (s.msg.length - s.used.length) 0 }

theorem fixUsed_of_covers (s : EncState) (h : s.msg.length ≤ s.used.length) : fixUsed s = s := by
  unfold fixUsed
  rw [show s.msg.length - s.used.length = 0 by omega]
  simp

theorem fixUsed_covers (s : EncState) : (fixUsed s).msg.length ≤ (fixUsed s).used.length := by
  simp only [fixUsed, List.length_append, List.length_replicate]; omega

theorem fixUsed_getBit (s : EncState) (a : Nat) : getBit (fixUsed s).used a = getBit s.used a := by
  unfold getBit fixUsed
  simp only
  rw [getD_append_zeros]

theorem fixUsed_sameCore (s t : EncState) (h : SameCore s t) : SameCore (fixUsed s) (fixUsed t) := by
  obtain ⟨h1, h2, h3, h4, h5⟩ := h
  simp only [SameCore, fixUsed, h1, h2, h3, h4, h5, and_self]

/-- the bytes written by `emplace_bytes(t)` are claimed when the used-mask covers the message -/
theorem rawStep_own_used' (t : Bytes) (s : EncState) (hU : s.msg.length ≤ s.used.length) (i : Nat) (hi : i < t.length) :
    (rawStep t s).used.getD (s.cursorByte + i) 0 = 255 := by
  simp only [rawStep]
  have := getD_splice_inside (s.used ++ List.replicate ((padTo s.msg (s.cursorByte + t.length)).length - s.msg.length) 0)
    (List.replicate t.length 255) s.cursorByte i (by simp only [List.length_append, List.length_replicate, padTo_length]; omega)
    (by simpa using hi)
  rw [List.length_replicate] at this
  rw [this]
  simp [List.getD_eq_getElem?_getD, hi]

/-- a message of bytes that agrees with the encoder's message on the claimed bits contains `t` at the cursor -/
theorem rawStep_read' (t : Bytes) (ht : AllBytes t) (s : EncState) (hU : s.msg.length ≤ s.used.length) (m : Bytes)
    (hm : AllBytes m) (hlen : (rawStep t s).msg.length ≤ m.length)
    (hagree : ∀ a, getBit (rawStep t s).used a = true → getBit m a = getBit (rawStep t s).msg a) :
    (m.drop s.cursorByte).take t.length = t := by
  have hl : s.cursorByte + t.length ≤ m.length := by rw [rawStep_length] at hlen; omega
  apply List.ext_getElem
  · simp only [List.length_take, List.length_drop]; omega
  · intro i h1 h2
    rw [List.getElem_take, List.getElem_drop]
    have hti : t[i] < 256 := ht _ (List.getElem_mem h2)
    have hmi : m[s.cursorByte + i] < 256 := hm _ (List.getElem_mem _)
    apply byte_eq_of_bits _ _ hmi hti
    intro j hj
    have hu := rawStep_own_used' t s hU i h2
    have hb := rawStep_own_byte t s i h2
    have := hagree (8 * (s.cursorByte + i) + j) (by
      unfold getBit
      rw [show (8 * (s.cursorByte + i) + j) / 8 = s.cursorByte + i by omega,
        show (8 * (s.cursorByte + i) + j) % 8 = j by omega, hu]
      revert j; decide)
    unfold getBit at this
    rw [show (8 * (s.cursorByte + i) + j) / 8 = s.cursorByte + i by omega,
      show (8 * (s.cursorByte + i) + j) % 8 = j by omega, hb] at this
    simpa [List.getD_eq_getElem?_getD, h2, show s.cursorByte + i < m.length by omega] using this

/-- `emplace_bytes(data)` (on the repaired used-mask) whose bytes the decoder reads back: frame + read-back of raw bytes -/
def Pair.rawAt (data : Bytes) : Pair Bytes where
  enc := fun s => rawStep data (fixUsed s)
  dec := fun d => ((d.msg.drop d.cursorByte).take data.length, { d with cursorByte := d.cursorByte + data.length, cursorBit := 0 })
  val := data
  fits := fun d => d.cursorByte + data.length ≤ d.msg.length ∧ AllBytes d.msg ∧ (d.msg.drop d.cursorByte).take data.length = data

theorem Good.rawAt (data : Bytes) (hall : AllBytes data) : Good (Pair.rawAt data) where
  warn_mono := fun s => rawStep_warn_ge data (fixUsed s)
  frame := by
    intro s hw a hu
    have hu' : getBit (fixUsed s).used a = true := by rw [fixUsed_getBit]; exact hu
    exact rawStep_frame data (fixUsed s) hw a hu'
  allBytes := fun s h => rawStep_allBytes data hall (fixUsed s) h
  len_mono := fun s => by
    show s.msg.length ≤ (rawStep data (fixUsed s)).msg.length
    rw [rawStep_length]
    show s.msg.length ≤ max s.msg.length _
    omega
  origin := fun _ => rfl
  rt := by
    intro s d _ _ _ hcur hdall hlen hagree
    have hread := rawStep_read' data hall (fixUsed s) (fixUsed_covers s) d.msg hdall hlen hagree
    have hlen' : (rawStep data (fixUsed s)).msg.length ≤ d.msg.length := hlen
    rw [rawStep_length] at hlen'
    have hc : (fixUsed s).cursorByte = s.cursorByte := rfl
    rw [hc] at hread hlen'
    refine ⟨?_, ?_, rfl, rfl, ?_, hdall, ?_⟩
    · show (d.msg.drop d.cursorByte).take data.length = data
      rw [hcur]; exact hread
    · show d.cursorByte + data.length = s.cursorByte + data.length
      rw [hcur]
    · show d.cursorByte + data.length ≤ d.msg.length
      omega
    · show (d.msg.drop d.cursorByte).take data.length = data
      rw [hcur]; exact hread
  core := fun s t h => rawStep_sameCore data _ _ (fixUsed_sameCore s t h)

/-! ### the parameter -/

/-- the bytes as a number, least significant byte first -/
def leNum (data : Bytes) : Nat := ofBytesBE (ord false data)

theorem leNum_lt (data : Bytes) (h : AllBytes data) : leNum data < 2 ^ (8 * data.length) := by
  have := ofBytesBE_lt _ (allBytes_ord false data h)
  rw [ord_length, pow256] at this
  exact this

/-- the bytes of the triggering request `t` a MATCHING-REQUEST-PARAM echoes -/
def echoBytes (t : Bytes) (reqPos byteLen : Nat) : Bytes := (t.drop reqPos).take byteLen

theorem echoBytes_length (t : Bytes) (reqPos byteLen : Nat) (h : reqPos + byteLen ≤ t.length) :
    (echoBytes t reqPos byteLen).length = byteLen := by
  simp only [echoBytes, List.length_take, List.length_drop]; omega

/-- decoding a MATCHING-REQUEST-PARAM = decoding a VALUE parameter over a little-endian `A_UINT32` of `8·BYTE-LENGTH` bits -/
theorem decodeParam_matchingReq (f : Nat) (n : String) (bp : Option Nat) (reqPos byteLen : Nat) (d : DecState) (st : Bool) :
    decodeParam (f + 1) (.mk n bp none (.matchingReq reqPos byteLen)) d st =
      decodeParam (f + 2) (reservedObj n bp none (8 * byteLen)).toParam d st := by
  simp only [decodeParam, decodeDop, decodeDct, reservedObj, Obj.toParam, Obj.bt, bind, pure]

/-- a MATCHING-REQUEST-PARAM (REQUEST-BYTE-POS `reqPos`, BYTE-LENGTH `byteLen`, at BYTE-POSITION `bp` or behind its
    predecessor) of a response to the request `t`; no value is supplied for it, the decoder returns the echoed bytes as a
    little-endian unsigned integer -/
def Comp.matchingReq (n : String) (bp : Option Nat) (reqPos byteLen : Nat) (t : Bytes) : Comp where
  param := .mk n bp none (.matchingReq reqPos byteLen)
  pair := ((Pair.rawAt (echoBytes t reqPos byteLen)).map (fun _ => PVal.atom (.int (leNum (echoBytes t reqPos byteLen))))).atPos bp
  sup := none
  need := 1
  cur := fun org c => posOf bp org c + byteLen

/-- **MATCHING-REQUEST-PARAM is a component** of a response to `t`: the request is long enough (the encoder checks it),
    1 ≤ BYTE-LENGTH ≤ 8 (the decoder's 64-bit limit) -/
theorem Comp.matchingReq_ok (n : String) (bp : Option Nat) (reqPos byteLen : Nat) (t : Bytes) (ht : AllBytes t)
    (hlen : reqPos + byteLen ≤ t.length) (h1 : 1 ≤ byteLen) (h8 : byteLen ≤ 8) :
    (Comp.matchingReq n bp reqPos byteLen t).OkM false (TopInv (some t)) := by
  have hdl := echoBytes_length t reqPos byteLen hlen
  have hdall : AllBytes (echoBytes t reqPos byteLen) := allBytes_take_drop t ht reqPos byteLen
  exact {
    good := ((Good.rawAt _ hdall).map _).atPos bp
    notKey := rfl
    supplied := fun h => by cases h
    sup_ne_none := by simp [Comp.matchingReq]
    encode_eq := by
      intro fuel hf s _ _ hinv
      obtain ⟨f, rfl⟩ : ∃ f, fuel = f + 1 := ⟨fuel - 1, by simp only [Comp.matchingReq] at hf; omega⟩
      obtain ⟨htrig, hcov⟩ := hinv
      obtain ⟨msg, used, origin, cursorByte, cursorBit, trig, lk, tk, kp, eop, warn⟩ := s
      have htrig' : trig = some t := htrig
      subst htrig'
      let s : EncState := ⟨msg, used, origin, cursorByte, cursorBit, some t, lk, tk, kp, eop, warn⟩
      have hcov : s.msg.length ≤ s.used.length := hcov
      have hraw := emplaceBytes_raw (echoBytes t reqPos byteLen)
        { s with cursorByte := posOf bp s.origin s.cursorByte, cursorBit := 0 } rfl true
      have hnl : ¬ (t.length < reqPos + byteLen) := by omega
      refine ⟨{ rawStep (echoBytes t reqPos byteLen) { s with cursorByte := posOf bp s.origin s.cursorByte, cursorBit := 0 }
                  with cursorBit := 0 }, ?_, ?_⟩
      · have hraw' : emplaceBytes (List.take byteLen (List.drop reqPos t)) none
            { s with cursorByte := posOf bp s.origin s.cursorByte, cursorBit := 0 } true = _ := hraw
        cases bp <;>
        · simp only [posOf] at hraw'
          simp only [Comp.matchingReq, encodeParam, bind, run_bind, run_modifyS, run_getS, Option.getD_none, hnl, if_false]
          rw [hraw']
          rfl
      · have hfix : fixUsed { s with cursorByte := posOf bp s.origin s.cursorByte } = { s with cursorByte := posOf bp s.origin s.cursorByte } :=
          fixUsed_of_covers _ hcov
        show SameCore _ (rawStep (echoBytes t reqPos byteLen) (fixUsed { s with cursorByte := posOf bp s.origin s.cursorByte }))
        rw [hfix]
        have h0 : SameCore ({ s with cursorByte := posOf bp s.origin s.cursorByte, cursorBit := 0 } : EncState)
            { s with cursorByte := posOf bp s.origin s.cursorByte } := ⟨rfl, rfl, rfl, rfl, rfl⟩
        have := rawStep_sameCore (echoBytes t reqPos byteLen) _ _ h0
        exact ⟨this.1, this.2.1, this.2.2.1, this.2.2.2.1, this.2.2.2.2⟩
    enc_cursor := by
      intro s
      show (rawStep (echoBytes t reqPos byteLen) (fixUsed { s with cursorByte := posOf bp s.origin s.cursorByte })).cursorByte = _
      rw [rawStep_cursor, hdl]
      rfl
    cur_shift := by
      intro org c p
      simp only [Comp.matchingReq, posOf_shift]
      omega
    dec_cursorBit := fun _ _ => rfl
    dec_msg := fun _ => rfl
    dec_origin := fun _ => rfl
    decode_eq := by
      intro fuel hf d hcb hfit _
      obtain ⟨f, rfl⟩ : ∃ f, fuel = f + 1 := ⟨fuel - 1, by simp only [Comp.matchingReq] at hf; omega⟩
      have hfit' : posOf bp d.origin d.cursorByte + (echoBytes t reqPos byteLen).length ≤ d.msg.length ∧ AllBytes d.msg ∧
          (d.msg.drop (posOf bp d.origin d.cursorByte)).take (echoBytes t reqPos byteLen).length = echoBytes t reqPos byteLen := hfit
      rw [hdl] at hfit'
      have hok : (reservedObj n bp none (8 * byteLen)).ok := ⟨Or.inl rfl, by show 1 ≤ 8 * byteLen; omega, by show 8 * byteLen ≤ 64; omega⟩
      have hpos : (reservedObj n bp none (8 * byteLen)).pos d.origin d.cursorByte = posOf bp d.origin d.cursorByte := by
        unfold Obj.pos posOf reservedObj; cases bp <;> rfl
      have hk : (reservedObj n bp none (8 * byteLen)).k = byteLen := by
        show (8 * byteLen + 0 + 7) / 8 = byteLen
        omega
      have h := decodeParam_obj (reservedObj n bp none (8 * byteLen)) hok f d (by rw [hpos, hk]; exact hfit'.1)
        (Obj.decodes_of_int _ (Or.inr rfl) _)
      simp only [Comp.matchingReq]
      rw [decodeParam_matchingReq, h]
      have hval : (decStep (reservedObj n bp none (8 * byteLen)) d).1 = .int (leNum (echoBytes t reqPos byteLen)) := by
        show IVal.int ((readNum d.msg ((reservedObj n bp none (8 * byteLen)).pos d.origin d.cursorByte)
          (reservedObj n bp none (8 * byteLen)).k false / 2 ^ 0 % 2 ^ (8 * byteLen) : Nat) : Int) = _
        rw [hpos, hk]
        unfold readNum
        rw [hfit'.2.2, Nat.pow_zero, Nat.div_one]
        have := leNum_lt _ hdall
        rw [hdl] at this
        show IVal.int ((leNum (echoBytes t reqPos byteLen) % 2 ^ (8 * byteLen) : Nat) : Int) = _
        rw [Nat.mod_eq_of_lt this]
      have hst : (decStep (reservedObj n bp none (8 * byteLen)) d).2 =
          { d with cursorByte := posOf bp d.origin d.cursorByte + byteLen, cursorBit := 0 } := by
        show ({ d with cursorByte := (reservedObj n bp none (8 * byteLen)).pos d.origin d.cursorByte +
          (reservedObj n bp none (8 * byteLen)).k, cursorBit := 0 } : DecState) = _
        rw [hpos, hk]
      rw [hval, hst]
      show _ = Except.ok (PVal.atom (.int (leNum (echoBytes t reqPos byteLen))),
        ({ d with cursorByte := posOf bp d.origin d.cursorByte + (echoBytes t reqPos byteLen).length, cursorBit := 0 } : DecState))
      rw [hdl] }

theorem Comp.matchingReq_endOk (n : String) (bp : Option Nat) (reqPos byteLen : Nat) (t : Bytes) :
    (Comp.matchingReq n bp reqPos byteLen t).EndOk := Comp.endOk_of_plain _ rfl

end OdxVerif.Codec
