import OdxVerif.Proofs.CompReject2Leaf
import OdxVerif.Proofs.CompRejectDescribed
/-! Compositional tier, rejection side, second part (task W18, C04): the refinement statements `PDesc.Ok` / `DDesc.Ok` of W14
    **relativised to inputs whose atoms Python can supply** (`PVal.wfAtoms`, `Proofs/CompReject2Leaf.lean`): `OkW` has the same
    acceptance clause `acc` and the rejection clause `rej` for well-formed supplied values only.  Every `Ok` description is
    `OkW` (`Ok.toW`); the closure lemmas of W14 (VALUE typed by a complex DOP, STRUCTURE; fields and multiplexers in
    `CompReject2Fields.lean` / `CompReject2Mux.lean`) are re-proved for `OkW` — the same proofs, with the hypothesis handed
    down to the sub-values (`wfOpt_lookupV`, `PVal.wfList_mem`, …).  VALUE leaves may then be of any of the nine kinds
    (`PDesc.ofObjValue_okW` with `Obj.rejectsW`).  Core Lean only. -/
namespace OdxVerif.Codec
open OdxVerif.Bits OdxVerif.OdxM

structure PDesc.OkW (p : PDesc) : Prop where
  notKey : p.param.kind.isKey = false
  acc : ∀ (pv : Option PVal) (g : Comp), pv ≠ some PVal.none → p.fill pv = some g → g.Fills p pv
  rej : ∀ (pv : Option PVal), pv ≠ some PVal.none → wfOpt pv = true → p.fill pv = none → ∀ (fuel : Nat), p.need pv ≤ fuel →
    ∀ (s : EncState), (p.mayEop = true → s.isEndOfPdu = true) →
    ∃ e s', encodeParam fuel p.param pv s true = .error (e, s') ∧ RejErr e (p.typed pv)

structure DDesc.OkW (d : DDesc) : Prop where
  acc : ∀ (pv : PVal) (c : DComp), d.fill pv = some c → c.Fills d pv
  rej : ∀ (pv : PVal), pv.wfAtoms = true → d.fill pv = none → ∀ (fuel : Nat), d.need pv ≤ fuel → ∀ (s : EncState),
    s.cursorBit = 0 → (d.mayEop = true → s.isEndOfPdu = true) →
    ∃ e s', encodeDop fuel d.dop pv s true = .error (e, s') ∧ RejErr e (d.typed pv)

theorem PDesc.Ok.toW {p : PDesc} (h : p.Ok) : p.OkW :=
  ⟨h.notKey, h.acc, fun pv hne _ hf => h.rej pv hne hf⟩

theorem DDesc.Ok.toW {d : DDesc} (h : d.Ok) : d.OkW :=
  ⟨h.acc, fun pv _ hf => h.rej pv hf⟩

theorem PDesc.ofObjValue_okW (o : Obj) (typed : Option PVal → Bool) (ho : o.ok) (hrej : o.RejectsW typed) :
    (PDesc.ofObjValue o typed).OkW where
  notKey := rfl
  acc := by
    intro pv g _ hf
    have key : ∃ v, pv = some (.atom v) ∧ o.accepts v = true ∧ g = Comp.ofObjValue o v := by
      cases pv with
      | none => simp [PDesc.ofObjValue] at hf
      | some x =>
        cases x with
        | atom v =>
          simp only [PDesc.ofObjValue] at hf
          cases hacc : o.accepts v with
          | false => rw [hacc] at hf; simp at hf
          | true => rw [hacc] at hf; simp only [if_true, Option.some.injEq] at hf; exact ⟨v, rfl, hacc, hf.symm⟩
        | _ => simp [PDesc.ofObjValue] at hf
    obtain ⟨v, rfl, hacc, rfl⟩ := key
    have hr := (o.accepts_iff ho v).mp hacc
    exact {
      ok := Comp.ofObjValue_ok o v ho hr
      endOk := Comp.ofObjValue_endOk o v
      param := rfl
      sup := rfl
      need := Nat.le_refl _
      eop := fun h => by cases h
      adv := fun org c => by
        have := o.k_pos ho
        show 1 ≤ o.pos org c + o.k
        omega
      val := rfl }
  rej := by
    intro pv hne hwf hf fuel hfu s _
    obtain ⟨f, rfl⟩ : ∃ f, fuel = f + 2 := ⟨fuel - 2, by simp only [PDesc.ofObjValue] at hfu; omega⟩
    apply hrej pv hne hwf _ f s
    intro v hv
    subst hv
    simp only [PDesc.ofObjValue] at hf
    cases h : o.accepts v
    · rfl
    · rw [h] at hf; simp at hf

theorem PDesc.ofObjDefault_okW (o : Obj) (dv : IVal) (typed : Option PVal → Bool) (ho : o.ok) (hdv : o.inRange dv)
    (hrej : o.RejectsW typed) : (PDesc.ofObjDefault o dv typed).OkW where
  notKey := rfl
  acc := by
    intro pv g _ hf
    have key : ∃ sup : Option IVal, pv = sup.map PVal.atom ∧ o.inRange (sup.getD dv) ∧ g = Comp.ofObjDefault o dv sup := by
      cases pv with
      | none =>
        simp only [PDesc.ofObjDefault, Option.some.injEq] at hf
        exact ⟨none, rfl, hdv, hf.symm⟩
      | some x =>
        cases x with
        | atom v =>
          simp only [PDesc.ofObjDefault] at hf
          cases hacc : o.accepts v with
          | false => rw [hacc] at hf; simp at hf
          | true =>
            rw [hacc] at hf; simp only [if_true, Option.some.injEq] at hf
            exact ⟨some v, rfl, (o.accepts_iff ho v).mp hacc, hf.symm⟩
        | _ => simp [PDesc.ofObjDefault] at hf
    obtain ⟨sup, rfl, hr, rfl⟩ := key
    exact {
      ok := Comp.ofObjDefault_ok o dv sup ho hr
      endOk := Comp.ofObjDefault_endOk o dv sup
      param := rfl
      sup := by cases sup <;> rfl
      need := Nat.le_refl _
      eop := fun h => by cases h
      adv := fun org c => by
        have := o.k_pos ho
        show 1 ≤ o.pos org c + o.k
        omega
      val := by cases sup <;> rfl }
  rej := by
    intro pv hne hwf hf fuel hfu s _
    obtain ⟨f, rfl⟩ : ∃ f, fuel = f + 2 := ⟨fuel - 2, by simp only [PDesc.ofObjDefault] at hfu; omega⟩
    cases pv with
    | none => simp [PDesc.ofObjDefault] at hf
    | some x =>
      have hbad : ∀ v, some x = some (PVal.atom v) → o.accepts v = false := by
        intro v hv
        cases hv
        simp only [PDesc.ofObjDefault] at hf
        cases h : o.accepts v
        · rfl
        · rw [h] at hf; simp at hf
      obtain ⟨e, s', hrun, he⟩ := hrej (some x) hne hwf hbad f s
      refine ⟨e, s', ?_, he⟩
      simp only [PDesc.ofObjDefault]
      rw [encodeParam_default_some]
      exact hrun

theorem PDesc.ofValue_okW (name : String) (bp : Option Nat) (d : DDesc) (hd : d.OkW) : (PDesc.ofValue name bp d).OkW where
  notKey := rfl
  acc := by
    intro pv g _ hf
    have key : ∃ v c, pv = some v ∧ d.fill v = some c ∧ g = Comp.ofValue name bp c := by
      cases pv with
      | none => simp [PDesc.ofValue] at hf
      | some v =>
        simp only [PDesc.ofValue] at hf
        cases hc : d.fill v with
        | none => rw [hc] at hf; cases hf
        | some c => rw [hc] at hf; exact ⟨v, c, rfl, hc, (Option.some.inj hf).symm⟩
    obtain ⟨v, c, rfl, hc, rfl⟩ := key
    have h := hd.acc v c hc
    exact {
      ok := Comp.ofValue_ok name bp c h.ok
      endOk := Comp.ofValue_endOk name bp c h.endOk
      param := by simp only [Comp.ofValue, PDesc.ofValue, h.dop]
      sup := by simp only [Comp.ofValue, h.sup]
      need := by have := h.need; simp only [Comp.ofValue, PDesc.ofValue]; omega
      eop := h.eop
      adv := fun org cu => by have := h.size; simp only [Comp.ofValue, PDesc.ofValue]; omega
      val := h.val }
  rej := by
    intro pv _ hwf hf fuel hfu s heop
    cases pv with
    | none =>
      obtain ⟨f, rfl⟩ : ∃ f, fuel = f + 1 := ⟨fuel - 1, by simp only [PDesc.ofValue] at hfu; omega⟩
      refine ⟨.encode, ?_, ?_, RejErr.encode _⟩
      rotate_left
      · simp [PDesc.ofValue, encodeParam, bind, run_bind, run_modifyS, odxraise]
        rfl
    | some v =>
      obtain ⟨f, rfl⟩ : ∃ f, fuel = f + 1 := ⟨fuel - 1, by simp only [PDesc.ofValue] at hfu; omega⟩
      have hc : d.fill v = none := by
        simp only [PDesc.ofValue] at hf
        cases hc : d.fill v with
        | none => rfl
        | some c => rw [hc] at hf; cases hf
      obtain ⟨e, s', hrun, he⟩ := hd.rej v hwf hc f (by simp only [PDesc.ofValue] at hfu; omega)
        { s with cursorByte := posOf bp s.origin s.cursorByte, cursorBit := 0 } rfl heop
      refine ⟨e, s', ?_, he⟩
      simp only [PDesc.ofValue]
      rw [encodeParam_value_step]
      simp only [Option.getD_none]
      rw [hrun]

theorem PDescs.fill_someW : (ps : List PDesc) → (∀ p ∈ ps, p.OkW) → ∀ (kvs : List (String × PVal)) (gs : List Comp),
    PDescs.fill ps kvs = some gs → Comps.Fill kvs gs ps
  | [], _, kvs, gs, hf => by
    simp only [PDescs.fill, Option.some.injEq] at hf
    subst hf
    exact .nil
  | p :: ps, hok, kvs, gs, hf => by
    simp only [PDescs.fill] at hf
    cases h1 : p.fill (lookupV p.name kvs) with
    | none => rw [h1] at hf; cases hf
    | some g =>
      cases h2 : PDescs.fill ps kvs with
      | none => rw [h1, h2] at hf; cases hf
      | some gs0 =>
        rw [h1, h2] at hf
        simp only [Option.some.injEq] at hf
        subst hf
        exact .cons ((hok p (List.mem_cons_self ..)).acc _ g (lookupV_ne_none _ _) h1)
          (PDescs.fill_someW ps (fun x hx => hok x (List.mem_cons_of_mem _ hx)) kvs gs0 h2)

/-- **rejected values, list level**: if `fill` does not accept the dictionary, the first loop of the composite encoder fails
    with a library error (or `unmodelled` at an untyped spot) -/
theorem PDescs.rejW : (ps : List PDesc) → (∀ p ∈ ps, p.OkW) → PDescs.eopLast ps → ∀ (kvs : List (String × PVal)),
    PVal.wfDict kvs = true → PDescs.fill ps kvs = none → ∀ (fuel : Nat), PDescs.need ps kvs ≤ fuel → ∀ (eop : Bool),
    (PDescs.anyEop ps = true → eop = true) → ∀ (s : EncState),
    ∃ e s', encodeParams eop kvs fuel (PDescs.toParams ps) s true = .error (e, s') ∧ RejErr e (PDescs.typed ps kvs)
  | [], _, _, kvs, _, hf, _, _, _, _, _ => by simp [PDescs.fill] at hf
  | p :: ps, hok, hlast, kvs, hwf, hf, fuel, hfu, eop, heop, s => by
    simp only [PDescs.need] at hfu
    obtain ⟨f, rfl⟩ : ∃ f, fuel = f + 1 := ⟨fuel - 1, by omega⟩
    have hpok := hok p (List.mem_cons_self ..)
    have hemp : (PDescs.toParams ps).isEmpty = ps.isEmpty := by cases ps <;> rfl
    have hsmEop : p.mayEop = true → (if ps.isEmpty then { s with isEndOfPdu := eop } else s).isEndOfPdu = true := by
      intro he
      cases ps with
      | nil =>
        have : eop = true := heop (by simp [PDescs.anyEop, he])
        simp [this]
      | cons q rest => have := hlast.1; rw [this] at he; cases he
    cases h1 : p.fill (lookupV p.name kvs) with
    | none =>
      obtain ⟨e, s', hrun, he⟩ := hpok.rej _ (lookupV_ne_none _ _) (wfOpt_lookupV kvs hwf _) h1 f (by omega)
        (if ps.isEmpty then { s with isEndOfPdu := eop } else s) hsmEop
      have hrun' : encodeParam f p.param (lookupV p.param.name kvs)
          (if (PDescs.toParams ps).isEmpty then { s with isEndOfPdu := eop } else s) true = .error (e, s') := by
        rw [hemp]; exact hrun
      obtain ⟨e', s'', hrun2, he'⟩ := encodeParams_cons_fail eop kvs f p.param hpok.notKey (PDescs.toParams ps) s e s' hrun'
      refine ⟨e', s'', hrun2, ?_⟩
      simp only [PDescs.typed]
      rcases he' with rfl | rfl
      · exact he.and_left _
      · exact RejErr.encode _
    | some g =>
      have h2 : PDescs.fill ps kvs = none := by
        simp only [PDescs.fill, h1] at hf
        cases h2 : PDescs.fill ps kvs with
        | none => rfl
        | some x => rw [h2] at hf; cases hf
      have hg := hpok.acc _ g (lookupV_ne_none _ _) h1
      obtain ⟨s1, hstep, _⟩ := hg.ok.encode_eq f (by have := hg.need; omega)
        (if ps.isEmpty then { s with isEndOfPdu := eop } else s) (fun he => hsmEop (hg.eop he))
      obtain ⟨e, s', hrest, he⟩ := PDescs.rejW ps (fun x hx => hok x (List.mem_cons_of_mem _ hx))
        (PDescs.eopLast_tail p ps hlast) kvs hwf h2 f (by omega) eop
        (fun h => heop (by simp only [PDescs.anyEop, List.any_cons] at h ⊢; simp [h])) s1
      refine ⟨e, s', ?_, ?_⟩
      · have hreq : p.param.kind.required = true → (lookup p.param.name kvs).isNone = false := by
          intro hr
          have hs := hg.ok.supplied (by rw [hg.param]; exact hr)
          rw [hg.sup] at hs
          unfold lookupV at hs
          cases hlk : lookup p.param.name kvs with
          | none => simp only [PDesc.name] at hs; rw [hlk] at hs; cases hs
          | some x => rfl
        show encodeParams eop kvs (f + 1) (p.param :: PDescs.toParams ps) s true = _
        rw [encodeParams_cons_nonkey eop kvs f p.param hpok.notKey _ s hreq, hemp]
        rw [hg.param, hg.sup] at hstep
        have hstep' : encodeParam f p.param (lookupV p.param.name kvs)
            (if ps.isEmpty then { s with isEndOfPdu := eop } else s) true = .ok ((), s1) := hstep
        rw [hstep']
        exact hrest
      · simp only [PDescs.typed]; exact he.and_right _

/-- **closure under STRUCTURE** -/
theorem DDesc.struct_okW (ps : List PDesc) (hok : ∀ p ∈ ps, p.OkW) (hn : PDescs.namesOk ps) (hlast : PDescs.eopLast ps) :
    (DDesc.struct ps).OkW where
  acc := by
    intro pv c hf
    have key : ∃ kvs gs, pv = .dict kvs ∧ PDescs.unknown ps kvs = false ∧ PDescs.fill ps kvs = some gs ∧
        c = DComp.structOf gs kvs := by
      cases pv with
      | dict kvs =>
        simp only [DDesc.struct] at hf
        cases hu : PDescs.unknown ps kvs with
        | true => rw [hu] at hf; simp at hf
        | false =>
          rw [hu] at hf
          cases hg : PDescs.fill ps kvs with
          | none => rw [hg] at hf; simp at hf
          | some gs =>
            rw [hg] at hf
            exact ⟨kvs, gs, rfl, hu, hg, by simpa using hf.symm⟩
      | _ => simp [DDesc.struct] at hf
    obtain ⟨kvs, gs, rfl, hu, hg, rfl⟩ := key
    have hfl := PDescs.fill_someW ps hok kvs gs hg
    have hknown : kvs.any (fun kv => !((Comps.toParams gs).any fun p => p.name == kv.1)) = false := by
      rw [hfl.toParams]; exact hu
    exact {
      ok := DComp.structOf_ok gs kvs hfl.okAll (hfl.namesOk hn) (hfl.eopLast hlast) hfl.lookups hknown
      endOk := DComp.structOf_endOk gs kvs hfl.okAll hfl.endOkAll (hfl.eopLast hlast)
      dop := by simp only [DComp.structOf, DComp.struct, DDesc.struct, hfl.toParams]
      sup := rfl
      need := by have := hfl.need; simp only [DComp.structOf, DComp.struct, DDesc.struct]; omega
      eop := hfl.anyEop
      size := hfl.cur 0 0
      val := by
        show PVal.dict (Comps.pair gs).val = _
        rw [hfl.val]
        rfl }
  rej := by
    intro pv hwf hf fuel hfu s hcb heop
    cases pv with
    | dict kvs =>
      simp only [DDesc.struct] at hfu
      obtain ⟨f, rfl⟩ : ∃ f, fuel = f + 1 + 1 := ⟨fuel - 2, by omega⟩
      cases hu : PDescs.unknown ps kvs with
      | true =>
        refine ⟨.odx, ?_, ?_, RejErr.odx _⟩
        rotate_left
        · have hu' : kvs.any (fun kv => !((PDescs.toParams ps).any fun p => p.name == kv.1)) = true := hu
          simp only [DDesc.struct, encodeDop, encodeComposite, bind, pure, run_bind, run_getS, run_modifyS, run_ite,
            hcb, hu', if_true, odxraise, ne_eq, not_true_eq_false, if_false]
          rfl
      | false =>
        have hg : PDescs.fill ps kvs = none := by
          simp only [DDesc.struct, hu, Bool.false_eq_true, if_false] at hf
          cases hg : PDescs.fill ps kvs with
          | none => rfl
          | some x => rw [hg] at hf; simp at hf
        obtain ⟨e, s', hrun, he⟩ := PDescs.rejW ps hok hlast kvs hwf hg f (by omega) s.isEndOfPdu heop
          { s with origin := s.cursorByte, isEndOfPdu := false, cursorBit := 0 }
        refine ⟨e, s', ?_, he⟩
        have hu' : kvs.any (fun kv => !((PDescs.toParams ps).any fun p => p.name == kv.1)) = false := hu
        simp only [DDesc.struct, encodeDop, encodeComposite, bind, pure, run_bind, run_getS, run_modifyS, run_pure, run_ite,
          hcb, hu', Bool.false_eq_true, if_false, ne_eq, not_true_eq_false]
        rw [hrun]
    | atom _ | list _ | none | pair _ _ | keyed _ _ | nokey _ | dtc _ =>
      simp only [DDesc.struct] at hfu
      obtain ⟨f, rfl⟩ : ∃ f, fuel = f + 1 + 1 := ⟨fuel - 2, by omega⟩
      refine ⟨.encode, ?_, ?_, RejErr.encode _⟩
      rotate_left
      · simp only [DDesc.struct, encodeDop, encodeComposite, bind, pure, run_bind, run_getS, odxraise, if_true]
        rfl

end OdxVerif.Codec
