import OdxVerif.Gen.InheritPrio
import OdxVerif.Model.Inherit
import OdxVerif.Proofs.PyRt
/-! # The generated `DiagLayerType.inheritance_priority` and `HierarchyElement._get_parent_refs_sorted_by_priority`
    equal the table `LayerKind.prio` and the hand-written `sortDesc` of the inheritance model

    `Gen/InheritPrio.lean` is regenerated from `odxtools/diaglayers/diaglayertype.py` and `hierarchyelement.py` by
    `harness/extract/py2lean.py`: a dict literal + look-up, and `sorted(getattr(raw, "parent_refs", []), key=lambda pr:
    pr.layer.variant_type.inheritance_priority, reverse=reverse)`. The rendering is polymorphic in the record that stands for a
    parent reference (`kindOf pr` = `pr.layer.variant_type`). -/
namespace OdxVerif.Inherit
open OdxVerif Py OdxVerif.Gen

/-- **Tie.** The dict look-up never raises (`KeyError`): every member of the enum is a key; its value is the table entry -/
theorem gen_inheritancePriority_eq (k : LayerKind) : Gen.inheritancePriorityE k = .ok k.prio := by
  cases k <;> rfl

/-- **Tie (any record type).** For every list of parent references and either direction the rendered source raises nothing and
    returns the stable sort by `inheritance_priority` — ascending for `reverse=False`, descending for `reverse=True`, parents of
    equal priority in `PARENT-REFS` order in both cases -/
theorem gen_parentRefs_eq {α : Type} (kindOf : α → LayerKind) (rs : List α) (reverse : Bool) :
    Gen.parentRefsSortedByPriorityE kindOf rs reverse = .ok (Py.stableSort (fun r => (kindOf r).prio) reverse rs) := by
  unfold Gen.parentRefsSortedByPriorityE
  have hkey : ∀ x : α, (do pure (← Gen.inheritancePriorityE (kindOf x)) : Py.M Nat) = .ok (kindOf x).prio := by
    intro x; rw [gen_inheritancePriority_eq]
  simp only [Py.sortedByKeyM_ok _ (fun r => (kindOf r).prio) hkey]

theorem stableInsert_eq_insertDesc (x : ParentRes) (l : List ParentRes) :
    Py.stableInsert (fun r => r.kind.prio) true x l = insertDesc x l := by
  induction l with
  | nil => rfl
  | cons y ys ih =>
    simp only [Py.stableInsert, insertDesc, if_true, ih]
    by_cases h : x.prio < y.prio
    · have h' : ¬ y.kind.prio ≤ x.kind.prio := by simp only [ParentRes.prio] at h; omega
      rw [if_pos h, if_neg h']
    · have h' : y.kind.prio ≤ x.kind.prio := by simp only [ParentRes.prio] at h; omega
      rw [if_neg h, if_pos h']

theorem stableSort_eq_sortDesc (rs : List ParentRes) : Py.stableSort (fun r => r.kind.prio) true rs = sortDesc rs := by
  induction rs with
  | nil => rfl
  | cons x xs ih => simp only [Py.stableSort, sortDesc, ih, stableInsert_eq_insertDesc]

/-- **Tie (the inheritance model).** `self._get_parent_refs_sorted_by_priority(reverse=True)` of `_compute_available_objects`
    is the model's `sortDesc` -/
theorem gen_sortDesc_eq (rs : List ParentRes) : Gen.parentRefsSortedByPriorityE ParentRes.kind rs true = .ok (sortDesc rs) := by
  rw [gen_parentRefs_eq, stableSort_eq_sortDesc]

end OdxVerif.Inherit
