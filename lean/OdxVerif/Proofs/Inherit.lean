import OdxVerif.Proofs.InheritMerge
/-! Lemmas for C09, part 2: structural induction over hierarchies; the model refines `Spec/Visible`. -/
namespace OdxVerif.Inherit
open OdxVerif.Gen (LayerKind)

/-! ## structural induction over hierarchies of any depth and width -/

theorem Layer.induct {P : Layer → Prop} {Q : List (Layer × List Name) → Prop}
    (mk : ∀ n k ls ps, Q ps → P (.mk n k ls ps)) (nil : Q [])
    (cons : ∀ p ex rest, P p → Q rest → Q ((p, ex) :: rest)) : ∀ L, P L :=
  fun L => Layer.rec (motive_1 := P) (motive_2 := Q) (motive_3 := fun pe => P pe.1)
    mk nil (fun hd tl h1 h2 => by cases hd; exact cons _ _ _ h1 h2) (fun _ _ h => h) L

theorem Layer.induct_list {P : Layer → Prop} {Q : List (Layer × List Name) → Prop}
    (mk : ∀ n k ls ps, Q ps → P (.mk n k ls ps)) (nil : Q [])
    (cons : ∀ p ex rest, P p → Q rest → Q ((p, ex) :: rest)) : ∀ ps, Q ps := by
  intro ps
  induction ps with
  | nil => exact nil
  | cons pe rest ih => cases pe; exact cons _ _ _ (Layer.induct mk nil cons _) ih

theorem Layer.induct_both {P : Layer → Prop} {Q : List (Layer × List Name) → Prop}
    (mk : ∀ n k ls ps, Q ps → P (.mk n k ls ps)) (nil : Q [])
    (cons : ∀ p ex rest, P p → Q rest → Q ((p, ex) :: rest)) : (∀ L, P L) ∧ (∀ ps, Q ps) :=
  ⟨Layer.induct mk nil cons, Layer.induct_list mk nil cons⟩

/-- a visible object carries a name that is defined somewhere in the hierarchy -/
theorem names_both (pr : LayerKind → Nat) :
    (∀ L : Layer, ∀ n o, visible pr L n = some o → n ∈ allNames L)
    ∧ (∀ ps : List (Layer × List Name), ∀ n, offersOf pr ps n ≠ [] → n ∈ allNamesIn ps) := by
  apply Layer.induct_both
  · intro nm k ls ps ih n o h
    rw [visible] at h
    rw [allNames]
    cases hl : localObj ls n with
    | some o' =>
      have hm := List.find?_some hl
      have hmem := List.mem_of_find?_eq_some hl
      simp only [decide_eq_true_eq] at hm
      exact List.mem_append_left _ (List.mem_map.2 ⟨o', hmem, hm⟩)
    | none =>
      simp only [hl] at h
      split at h
      · cases h
      · refine List.mem_append_right _ (ih n ?_)
        intro hnil
        rw [hnil] at h
        simp [topOffers] at h
  · intro n h; simp [offersOf] at h
  · intro p ex rest ihp ihr n h
    rw [allNamesIn]
    rw [offersOf] at h
    by_cases hrest : offersOf pr rest n = []
    · rw [hrest, List.append_nil] at h
      split at h
      · exact absurd rfl h
      · cases hv : visible pr p n with
        | none => simp [hv] at h
        | some o => exact List.mem_append_left _ (ihp n o hv)
    · exact List.mem_append_right _ (ihr n hrest)

theorem offersOf_allNames (pr : LayerKind → Nat) (ps : List (Layer × List Name)) (n : Name) (h : offersOf pr ps n ≠ []) :
    n ∈ allNamesIn ps := (names_both pr).2 ps n h

theorem clash_nonempty {pr : LayerKind → Nat} {os : List Offer} (h : clash pr os = true) : os ≠ [] := by
  intro hn; subst hn; simp [clash, topOffers] at h


/-! ## the refinement -/

def LayerOK (L : Layer) : Prop :=
  WF L →
  (∀ objs, computeAvailable L = .ok objs →
      (objs.map (·.name)).Nodup ∧ (∀ n, objs.find? (fun o => o.name = n) = visible LayerKind.prio L n)
      ∧ conflict LayerKind.prio L = false)
  ∧ (∀ e, computeAvailable L = .error e → conflict LayerKind.prio L = true)

def ParentsOK (ps : List (Layer × List Name)) : Prop :=
  WFIn ps →
  (∀ rs, computeParents ps = .ok rs →
      (∀ r ∈ rs, (r.objs.map (·.name)).Nodup) ∧ conflictIn LayerKind.prio ps = false
      ∧ ∀ n, offersOf LayerKind.prio ps n = offersFrom rs n)
  ∧ (∀ e, computeParents ps = .error e → conflictIn LayerKind.prio ps = true)

theorem parentsOK_nil : ParentsOK [] := by
  intro _
  refine ⟨fun rs h => ?_, fun e h => ?_⟩
  · rw [computeParents] at h
    cases h
    exact ⟨by simp, by simp [conflictIn], fun n => by simp [offersOf, offersFrom, realOffers]⟩
  · rw [computeParents] at h; cases h

theorem parentsOK_cons (p : Layer) (ex : List Name) (rest : List (Layer × List Name))
    (hp : LayerOK p) (hr : ParentsOK rest) : ParentsOK ((p, ex) :: rest) := by
  intro hwf
  rw [WFIn] at hwf
  have hp' := hp hwf.1
  have hr' := hr hwf.2
  refine ⟨fun rs h => ?_, fun e h => ?_⟩
  · rw [computeParents] at h
    cases hc : computeAvailable p with
    | error e => simp only [hc] at h; cases h
    | ok objs =>
      simp only [hc] at h
      cases hcr : computeParents rest with
      | error e => simp only [hcr] at h; cases h
      | ok rs' =>
        simp only [hcr] at h
        cases h
        obtain ⟨hnd, hvis, hconf⟩ := hp'.1 objs hc
        obtain ⟨hnds, hconfs, hoff⟩ := hr'.1 rs' hcr
        refine ⟨?_, ?_, fun n => ?_⟩
        · intro r hr
          rcases List.mem_cons.1 hr with rfl | hr
          · exact hnd
          · exact hnds r hr
        · simp [conflictIn, hconf, hconfs]
        · rw [offersOf, offersFrom_cons, hoff n]
          congr 1
          simp only [offerOf]
          split
          · rfl
          · rw [hvis n]; rfl
  · rw [computeParents] at h
    cases hc : computeAvailable p with
    | error e' =>
      have := hp'.2 e' hc
      simp [conflictIn, this]
    | ok objs =>
      simp only [hc] at h
      cases hcr : computeParents rest with
      | error e' =>
        have := hr'.2 e' hcr
        simp [conflictIn, this]
      | ok rs' => simp only [hcr] at h; cases h

theorem dictGet_nil (n : Name) : dictGet [] n = none := rfl

theorem layerOK_mk (nm : Nat) (k : LayerKind) (ls : List Obj) (ps : List (Layer × List Name))
    (hps : ParentsOK ps) : LayerOK (.mk nm k ls ps) := by
  intro hwf
  rw [WF] at hwf
  obtain ⟨hlnd, hwfp⟩ := hwf
  have hps' := hps hwfp
  by_cases hk : k = .ecuSharedData
  · -- ECU-SHARED-DATA: local objects only
    subst hk
    refine ⟨fun objs h => ?_, fun e h => ?_⟩
    · rw [computeAvailable] at h
      simp only [if_true] at h
      cases h
      refine ⟨hlnd, fun n => ?_, by simp [conflict]⟩
      rw [visible]
      cases hl : localObj ls n with
      | some o => simpa [localObj] using hl
      | none => simpa [localObj] using hl
    · rw [computeAvailable] at h
      simp only [if_true] at h
      cases h
  · have hcontains : ∀ n, (ls.map (·.name)).contains n = (localObj ls n).isSome := contains_names ls
    refine ⟨fun objs h => ?_, fun e h => ?_⟩
    · rw [computeAvailable] at h
      simp only [hk, if_false] at h
      cases hcp : computeParents ps with
      | error e => simp only [hcp] at h; cases h
      | ok rs =>
        simp only [hcp] at h
        obtain ⟨hnds, hconfs, hoff⟩ := hps'.1 rs hcp
        have hnds' : ∀ r ∈ sortDesc rs, (r.objs.map (·.name)).Nodup :=
          fun r hr => hnds r ((sortDesc_perm rs).mem_iff.1 hr)
        cases hm : (sortDesc rs).foldlM (mergeParent (ls.map (·.name))) [] with
        | error e => simp only [hm] at h; cases h
        | ok d =>
          simp only [hm] at h
          cases h
          have hall := mergeAll_ok (sortDesc rs) [] d hnds' hm
          have hkeys : (keys d).Nodup := mergeAll_keys (sortDesc rs) [] d hm (by simp [keys])
          -- per name: what the sorted loop left in the dictionary
          have hslot : ∀ n, localObj ls n = none →
              (dictGet d n).map (·.obj) = ((topOffers LayerKind.prio (offersOf LayerKind.prio ps n)).head?).map (·.obj)
              ∧ clash LayerKind.prio (offersOf LayerKind.prio ps n) = false := by
            intro n hloc
            have h1 := hall n
            rw [dictGet_nil, hcontains n, hloc] at h1
            have hsorted := offersFrom_sorted rs n
            have hperm : (offersOf LayerKind.prio ps n).Perm (offersFrom (sortDesc rs) n) := by
              rw [hoff n]; exact offersFrom_perm rs n
            have hsn := (slotFold_none false _ (by
              rw [List.pairwise_map]; exact sortDesc_sorted rs)).1 _ h1
            obtain ⟨hval, hc⟩ := hsn
            have hc' := hc.resolve_left (by simp)
            change dictGet d n = (offersFrom (sortDesc rs) n).head?.map _ at hval
            change ∀ y, (offersFrom (sortDesc rs) n).head? = some y → _ at hc'
            cases hhead : (offersFrom (sortDesc rs) n).head? with
            | none =>
              have hnil : offersFrom (sortDesc rs) n = [] := List.head?_eq_none_iff.1 hhead
              rw [hnil] at hperm
              have := top_nil hperm
              rw [hval, hhead, this.1]
              exact ⟨rfl, this.2⟩
            | some y =>
              have hno := hc' y hhead
              rw [hval, hhead, best_of_sorted hperm hsorted hhead hno]
              refine ⟨rfl, ?_⟩
              cases hcl : clash LayerKind.prio (offersOf LayerKind.prio ps n) with
              | false => rfl
              | true =>
                obtain ⟨z, hz, hpz, hne⟩ := (clash_of_sorted hperm hsorted hhead).1 hcl
                exact absurd (hno z hz hpz) hne
          refine ⟨?_, fun n => ?_, ?_⟩
          · have := keys_locals_nodup k.prio ls d hkeys
            rw [List.map_map]; exact this
          · rw [find_map_obj, dictGet_locals k.prio ls d n hlnd, visible]
            cases hloc : localObj ls n with
            | some o => simp
            | none =>
              simp only [hk, if_false]
              exact (hslot n hloc).1
          · rw [conflict]
            simp only [hk, if_false, hconfs, Bool.false_or]
            rw [List.any_eq_false]
            intro n _
            cases hloc : localObj ls n with
            | some o => simp
            | none => simp [(hslot n hloc).2]
    · rw [computeAvailable] at h
      simp only [hk, if_false] at h
      rw [conflict]
      simp only [hk, if_false]
      cases hcp : computeParents ps with
      | error e' => simp [hps'.2 e' hcp]
      | ok rs =>
        simp only [hcp] at h
        obtain ⟨hnds, _, hoff⟩ := hps'.1 rs hcp
        have hnds' : ∀ r ∈ sortDesc rs, (r.objs.map (·.name)).Nodup :=
          fun r hr => hnds r ((sortDesc_perm rs).mem_iff.1 hr)
        cases hm : (sortDesc rs).foldlM (mergeParent (ls.map (·.name))) [] with
        | ok d => simp only [hm] at h; cases h
        | error e' =>
          obtain ⟨n, hn⟩ := mergeAll_err (sortDesc rs) [] hnds' hm
          rw [dictGet_nil] at hn
          have hsn := (slotFold_none _ _ (by
              rw [List.pairwise_map]; exact sortDesc_sorted rs)).2 _ hn
          obtain ⟨hb, y, z, hy, hz, hpz, hne⟩ := hsn
          have hsorted := offersFrom_sorted rs n
          have hperm : (offersOf LayerKind.prio ps n).Perm (offersFrom (sortDesc rs) n) := by
            rw [hoff n]; exact offersFrom_perm rs n
          have hcl : clash LayerKind.prio (offersOf LayerKind.prio ps n) = true :=
            (clash_of_sorted hperm hsorted hy).2 ⟨z, hz, hpz, hne⟩
          have hloc : (localObj ls n).isNone = true := by
            rw [hcontains n] at hb
            cases hl : localObj ls n with
            | none => rfl
            | some o => rw [hl] at hb; cases hb
          have hmem := offersOf_allNames _ ps n (clash_nonempty hcl)
          simp only [Bool.or_eq_true, List.any_eq_true]
          exact Or.inr ⟨n, hmem, by simp [hloc, hcl]⟩

theorem refines_both : (∀ L, LayerOK L) ∧ (∀ ps, ParentsOK ps) :=
  Layer.induct_both layerOK_mk parentsOK_nil parentsOK_cons

/-! ## what the specification says, unfolded (for any ranking `pr` of the layer types) -/

section
variable (pr : LayerKind → Nat)

theorem mem_topOffers' (os : List Offer) (a : Offer) :
    a ∈ topOffers pr os ↔ a ∈ os ∧ ∀ b ∈ os, pr b.kind ≤ pr a.kind := by
  simp [topOffers]

theorem clash_iff' (os : List Offer) :
    clash pr os = true ↔ ∃ a b, a ∈ topOffers pr os ∧ b ∈ topOffers pr os ∧ a.obj ≠ b.obj := by
  simp only [clash, List.any_eq_true, decide_eq_true_eq]
  constructor
  · rintro ⟨a, ha, b, hb, h⟩; exact ⟨a, b, ha, hb, h⟩
  · rintro ⟨a, b, ha, hb, h⟩; exact ⟨a, ha, b, hb, h⟩

theorem mem_offersOf (ps : List (Layer × List Name)) (n : Name) (a : Offer) :
    a ∈ offersOf pr ps n ↔
      ∃ pe ∈ ps, pe.2.contains n = false ∧ visible pr pe.1 n = some a.obj ∧ a.kind = pe.1.kind := by
  induction ps with
  | nil => simp [offersOf]
  | cons pe rest ih =>
    obtain ⟨p, ex⟩ := pe
    rw [offersOf, List.mem_append, ih]
    constructor
    · rintro (h | ⟨qe, hq, h⟩)
      · split at h
        · cases h
        · rename_i hex
          cases hv : visible pr p n with
          | none => rw [hv] at h; cases h
          | some o =>
            rw [hv] at h
            simp only [List.mem_singleton] at h
            subst h
            exact ⟨(p, ex), List.mem_cons_self .., by simpa using hex, hv, rfl⟩
      · exact ⟨qe, List.mem_cons_of_mem _ hq, h⟩
    · rintro ⟨qe, hq, hex, hv, hp⟩
      rcases List.mem_cons.1 hq with rfl | hq
      · left
        simp only at hex hv hp
        rw [if_neg (by rw [hex]; simp), hv]
        cases a
        simp only at hp
        simp [hp]
      · exact Or.inr ⟨qe, hq, hex, hv, hp⟩

theorem conflictIn_iff (ps : List (Layer × List Name)) :
    conflictIn pr ps = true ↔ ∃ pe ∈ ps, conflict pr pe.1 = true := by
  induction ps with
  | nil => simp [conflictIn]
  | cons pe rest ih =>
    obtain ⟨p, ex⟩ := pe
    rw [conflictIn, Bool.or_eq_true, ih]
    simp

theorem conflict_iff (nm : Nat) (k : LayerKind) (ls : List Obj) (ps : List (Layer × List Name)) :
    conflict pr (.mk nm k ls ps) = true ↔
      k ≠ .ecuSharedData ∧ ((∃ pe ∈ ps, conflict pr pe.1 = true)
        ∨ ∃ n, localObj ls n = none ∧ clash pr (offersOf pr ps n) = true) := by
  rw [conflict]
  by_cases hk : k = .ecuSharedData
  · simp [hk]
  · simp only [hk, if_false, Bool.or_eq_true, conflictIn_iff, List.any_eq_true, Bool.and_eq_true,
      Option.isNone_iff_eq_none, ne_eq, not_false_eq_true, true_and]
    constructor
    · rintro (h | ⟨n, _, h⟩)
      · exact Or.inl h
      · exact Or.inr ⟨n, h⟩
    · rintro (h | ⟨n, h⟩)
      · exact Or.inl h
      · exact Or.inr ⟨n, offersOf_allNames _ ps n (clash_nonempty h.2), h⟩

end

theorem wfB_both : (∀ L, wfB L = true ↔ WF L) ∧ (∀ ps, wfInB ps = true ↔ WFIn ps) := by
  apply Layer.induct_both
  · intro nm k ls ps ih
    rw [wfB, WF, Bool.and_eq_true, ih, decide_eq_true_eq]
  · simp [wfInB, WFIn]
  · intro p ex rest ihp ihr
    rw [wfInB, WFIn, Bool.and_eq_true, ihp, ihr]

theorem wfB_iff (L : Layer) : wfB L = true ↔ WF L := wfB_both.1 L

/-! ## the specification depends only on the order of the layer types, not on the numbers -/

/-- two rankings that order the layer types alike -/
def SameOrder (pr pr' : LayerKind → Nat) : Prop := ∀ a b, pr a ≤ pr b ↔ pr' a ≤ pr' b

theorem topOffers_congr {pr pr' : LayerKind → Nat} (h : SameOrder pr pr') (os : List Offer) :
    topOffers pr os = topOffers pr' os := by
  unfold topOffers
  apply List.filter_congr
  intro a _
  apply List.all_congr rfl
  intro b
  simp [h b.kind a.kind]

theorem clash_congr {pr pr' : LayerKind → Nat} (h : SameOrder pr pr') (os : List Offer) :
    clash pr os = clash pr' os := by
  unfold clash
  rw [topOffers_congr h]

theorem visible_congr {pr pr' : LayerKind → Nat} (h : SameOrder pr pr') :
    (∀ L n, visible pr L n = visible pr' L n) ∧ (∀ ps n, offersOf pr ps n = offersOf pr' ps n) := by
  apply Layer.induct_both
  · intro nm k ls ps ih n
    rw [visible, visible, ih n, topOffers_congr h]
  · intro n; rw [offersOf, offersOf]
  · intro p ex rest ihp ihr n
    rw [offersOf, offersOf, ihp n, ihr n]

theorem conflict_congr {pr pr' : LayerKind → Nat} (h : SameOrder pr pr') :
    (∀ L, conflict pr L = conflict pr' L) ∧ (∀ ps, conflictIn pr ps = conflictIn pr' ps) := by
  apply Layer.induct_both
  · intro nm k ls ps ih
    rw [conflict, conflict, ih]
    congr 2
    apply List.any_congr rfl
    intro n
    rw [(visible_congr h).2 ps n, clash_congr h]
  · rw [conflictIn, conflictIn]
  · intro p ex rest ihp ihr
    rw [conflictIn, conflictIn, ihp, ihr]

end OdxVerif.Inherit
