import OdxVerif.Proofs.Sim
/-! `Sim` (strict success ⇒ identical lenient result) for the atomic layer and the diag-coded types. -/
namespace OdxVerif.Codec
open OdxVerif.OdxM OdxVerif.Bits

macro "sim'" : tactic => `(tactic| repeat (first
    | exact sim_emplaceBytes _ _ | exact sim_rawOfInt32 _ _ _ | exact sim_rawOfUInt32 _ _ _ | exact sim_fitBytes _ _
    | sim_step | split))

theorem sim_emplaceAtomic (v : IVal) (bl : Nat) (bt : BaseType) (enc : Option Enc) (hl : Bool) (m : Option Bytes) :
    Sim (emplaceAtomic v bl bt enc hl m) := by
  unfold emplaceAtomic
  dsimp only
  split
  · apply sim_bind
    · exact sim_raise _
    · intro _
      apply sim_bind
      · cases bt <;> cases v <;> simp only [] <;> sim'
      · intro p
        sim'
  · apply sim_bind
    · cases bt <;> cases v <;> simp only [] <;> sim'
    · intro p
      sim'

theorem sim_convertRaw (bt : BaseType) (enc : Option Enc) (hl : Bool) (bl raw : Nat) :
    Sim (convertRaw bt enc hl bl raw) := by
  unfold convertRaw
  cases bt <;> simp only [] <;> sim'

theorem sim_extractCore (bl : Nat) (bt : BaseType) (enc : Option Enc) (hl : Bool) :
    Sim (extractCore bl bt enc hl) := by
  unfold extractCore
  apply sim_bind
  · exact sim_getS
  · intro s
    dsimp only
    repeat (first | exact sim_convertRaw _ _ _ _ _ | split | sim_step)

theorem sim_extractAtomic (bl : Nat) (bt : BaseType) (enc : Option Enc) (hl : Bool) :
    Sim (extractAtomic bl bt enc hl) := by
  unfold extractAtomic
  repeat (first | exact sim_extractCore _ _ _ _ | split | sim_step)

theorem sim_applyMask (m : Nat) (c : Bool) (v : IVal) : Sim (applyMask m c v) := by
  unfold applyMask
  cases v <;> simp only [] <;> sim'

theorem sim_unapplyMask {σ : Type} (m : Nat) (c : Bool) (v : IVal) : Sim (unapplyMask m c v : OdxM σ IVal) := by
  unfold unapplyMask
  cases v <;> simp only [] <;> sim'

macro "sim''" : tactic => `(tactic| repeat (first
    | exact sim_emplaceAtomic _ _ _ _ _ _ | exact sim_extractAtomic _ _ _ _
    | exact sim_applyMask _ _ _ | exact sim_unapplyMask _ _ _
    | exact sim_emplaceBytes _ _ | exact sim_rawOfInt32 _ _ _ | exact sim_rawOfUInt32 _ _ _ | exact sim_fitBytes _ _
    | sim_step | split))

theorem sim_encodeDct (dct : Dct) (v : IVal) : Sim (encodeDct dct v) := by
  unfold encodeDct
  cases dct with
  | std bt enc hl bl mask c => cases mask <;> simp only [] <;> sim''
  | minmax bt enc hl mn mx t =>
    simp only []
    apply sim_bind
    · cases v <;> simp only [] <;> sim''
    · intro raw; sim''
  | leading bt enc hl bl =>
    simp only []
    apply sim_bind
    · cases bt <;> cases v <;> simp only [] <;> sim''
    · intro n; sim''
  | paramLen bt enc hl key =>
    simp only []
    apply sim_bind
    · exact sim_getS
    · intro s
      apply sim_bind
      · split
        · sim''
        · apply sim_bind
          · cases bt <;> cases v <;> simp only [] <;> sim''
          · intro b; sim''
      · intro b; sim''

theorem sim_decodeDct (dct : Dct) : Sim (decodeDct dct) := by
  unfold decodeDct
  cases dct with
  | std bt enc hl bl mask c => cases mask <;> simp only [] <;> sim''
  | minmax bt enc hl mn mx t => simp only []; sim''
  | leading bt enc hl bl => simp only []; sim''
  | paramLen bt enc hl key => simp only []; sim''

end OdxVerif.Codec
