import OdxVerif.Proofs.CompFields
/-! Compositional components (task W8), closure under MULTIPLEXER: switch key object + cases; the content of the selected
    case (a regular CASE or the DEFAULT-CASE) is a component.  Generalises `MuxLeaf` of `Proofs/MuxTier.lean` from tier-2
    case structures to arbitrary components (a case structure containing fields, further multiplexers, …). -/
namespace OdxVerif.Codec
open OdxVerif.Bits OdxVerif.OdxM

/-- the description of a MULTIPLEXER with its selected case -/
structure MuxLayout where
  muxBp : Nat                   -- BYTE-POSITION of the multiplexer (where the case structure starts)
  swBp : Nat                    -- BYTE-POSITION of the switch key
  key : Obj                     -- the switch key's object (its `name`/`bytePos` fields are ignored)
  cases : List MuxCaseD         -- all CASEs, in declaration order (those not selected are arbitrary)
  dflt : Option (String × Option Dop)
  caseName : String             -- short name of the selected case / of the DEFAULT-CASE
  lo : Int                      -- the switch key the encoder writes for it

def MuxLayout.keyObj (m : MuxLayout) : Obj := { m.key with name := "", bytePos := some m.swBp }

def MuxLayout.keyDop (m : MuxLayout) : Dop :=
  .simple (.std m.keyObj.bt m.key.enc m.key.hl m.key.bl none false) m.keyObj.bt .identical

/-- how the encoder gets from the case name to the switch key and the structure `sd` -/
def MuxLayout.encSel (m : MuxLayout) (sd : Dop) : Prop :=
  (∃ c, caseOfName m.caseName m.cases = some c ∧ c.lower = m.lo ∧ c.struct = some sd) ∨
  (caseOfName m.caseName m.cases = none ∧ m.dflt = some (m.caseName, some sd) ∧ m.lo = defaultCaseKey m.cases)

/-- how the decoder gets from the switch key back to the case -/
def MuxLayout.decSel (m : MuxLayout) (sd : Dop) : Prop :=
  (∃ c, caseOfKey m.lo m.cases = some c ∧ c.name = m.caseName ∧ c.struct = some sd) ∨
  (caseOfKey m.lo m.cases = none ∧ m.dflt = some (m.caseName, some sd))

/-- switch key object ok and able to hold the key; encoder and decoder select the same case, whose structure is `sd` -/
def MuxLayout.ok (m : MuxLayout) (sd : Dop) : Prop :=
  m.keyObj.ok ∧ m.keyObj.inRange (.int m.lo) ∧ m.encSel sd ∧ m.decSel sd

/-- a regular CASE `caseName` with limits `lo..up`, declared between the cases `before` and `after`, selected by name -/
theorem MuxLayout.sel_of_case (m : MuxLayout) (sd : Dop) (before after : List MuxCaseD) (up : Int)
    (hcases : m.cases = before ++ .mk m.caseName m.lo up (some sd) :: after) (hlu : m.lo ≤ up)
    (hbk : caseOfKey m.lo before = none) (hbn : caseOfName m.caseName before = none) : m.encSel sd ∧ m.decSel sd := by
  constructor
  · left
    exact ⟨_, by rw [hcases]; exact caseOfName_append _ _ _ _ hbn rfl, rfl, rfl⟩
  · left
    exact ⟨_, by rw [hcases]; exact caseOfKey_append _ _ _ _ hbk ⟨Int.le_refl _, hlu⟩, rfl, rfl⟩

/-- the DEFAULT-CASE, selected by its name: the switch key the encoder computes is claimed by no case -/
theorem MuxLayout.sel_of_default (m : MuxLayout) (sd : Dop) (hd : m.dflt = some (m.caseName, some sd))
    (hname : caseOfName m.caseName m.cases = none) (hkey : m.lo = defaultCaseKey m.cases) : m.encSel sd ∧ m.decSel sd := by
  constructor
  · right; exact ⟨hname, hd, hkey⟩
  · right; exact ⟨by rw [hkey]; exact caseOfKey_default m.cases, hd⟩

/-- the MULTIPLEXER whose selected case has the content component `c`: key, then the content at the multiplexer's byte
    position, all relative to the multiplexer's first byte; value = (case name, content) -/
def DComp.mux (m : MuxLayout) (c : DComp) : DComp where
  dop := .mux m.muxBp m.swBp m.key.bitPos m.keyDop m.cases m.dflt
  pair := ((((Pair.ofObj m.keyObj (.int m.lo)).guard (· = IVal.int m.lo)).seq (c.pair.atPos (some m.muxBp))).map
            (fun p => PVal.pair m.caseName p.2)).inOrigin
  sup := .pair m.caseName c.sup
  need := c.need + 3
  size := m.muxBp + c.size
  eopOnly := c.eopOnly
  decPre := fun d =>
    c.decPre { (decStep m.keyObj { d with origin := d.cursorByte }).2 with cursorByte := d.cursorByte + m.muxBp }

theorem DComp.mux_val (m : MuxLayout) (c : DComp) : (DComp.mux m c).pair.val = .pair m.caseName c.pair.val := rfl

/-- **closure under MULTIPLEXER** -/
theorem DComp.mux_ok (m : MuxLayout) (c : DComp) (hc : c.Ok) (hm : m.ok c.dop) : (DComp.mux m c).Ok := by
  obtain ⟨hk, hr, hesel, hdsel⟩ := hm
  have hgk : Good (Pair.ofObj m.keyObj (.int m.lo)) := Good.ofObj m.keyObj hk (.int m.lo) hr
  have hgk' : Good ((Pair.ofObj m.keyObj (.int m.lo)).guard (· = IVal.int m.lo)) := hgk.guard _ rfl
  have hG := Comp.ofValue_ok "" (some m.muxBp) c hc
  exact {
    good := ((hgk'.seq (hc.good.atPos (some m.muxBp))).map _).inOrigin
    sup_ne_none := by simp [DComp.mux]
    originFree := OriginFree.inOrigin _
    dec_originFree := fun _ _ => rfl
    fits_originFree := fun _ _ => rfl
    encode_eq := by
      intro fuel hf s hcb heop
      obtain ⟨f, rfl⟩ : ∃ f, fuel = f + 2 + 1 := ⟨fuel - 3, by simp only [DComp.mux] at hf; omega⟩
      let s2 : EncState := { s with origin := s.cursorByte }
      have hkey : encodeParam (f + 2) (.mk "" (some m.swBp) m.key.bitPos (.value m.keyDop none))
          (some (.atom (.int m.lo))) s2 true = .ok ((), encStep m.keyObj (.int m.lo) s2) :=
        encodeParam_obj m.keyObj hk (.int m.lo) hr f s2
      obtain ⟨s3, hrun3, hcore3⟩ := hG.encode_eq (f + 2) (by simp only [Comp.ofValue, DComp.mux] at hf ⊢; omega)
        (encStep m.keyObj (.int m.lo) s2) heop
      have hrun3' : encodeParam (f + 2) (.mk "" (some m.muxBp) none (.value c.dop none)) (some c.sup)
          (encStep m.keyObj (.int m.lo) s2) true = .ok ((), s3) := hrun3
      have hcb3 : s3.cursorBit = 0 := encodeParam_cursorBit _ _ _ _ _ _ hrun3
      refine ⟨{ s3 with origin := s.origin }, ?_, ?_, hcb3⟩
      · simp only [DComp.mux]
        rw [encodeDop_mux_step (f + 2) _ _ _ _ _ _ _ _ _ hcb m.lo c.dop hesel]
        rw [hkey]
        simp only []
        rw [hrun3']
      · exact ⟨hcore3.1, hcore3.2.1, hcore3.2.2.1, hcore3.2.2.2.1, rfl⟩
    enc_cursor := by
      intro s
      show (c.pair.enc _).cursorByte = _
      rw [hc.enc_cursor]
      show s.cursorByte + m.muxBp + c.size = s.cursorByte + (m.muxBp + c.size)
      omega
    dec_cursorBit := fun d _ => hc.dec_cursorBit _ rfl
    dec_msg := fun d => by
      show (c.pair.dec _).2.msg = d.msg
      rw [hc.dec_msg]
      rfl
    dec_origin := fun _ => rfl
    decode_eq := by
      intro fuel hf d hcb hfit hpre
      obtain ⟨f, rfl⟩ : ∃ f, fuel = f + 2 + 1 := ⟨fuel - 3, by simp only [DComp.mux] at hf; omega⟩
      let d2 : DecState := { d with origin := d.cursorByte }
      have hfit' : (m.keyObj.fitsIn d2 ∧
            (decStep m.keyObj d2).1 = IVal.int m.lo) ∧
          (Comp.ofValue "" (some m.muxBp) c).pair.fits (decStep m.keyObj d2).2 := hfit
      obtain ⟨⟨⟨hkfit, hkdec⟩, hkval⟩, hcfit⟩ := hfit'
      have hkey : decodeParam (f + 2) (.mk "" (some m.swBp) m.key.bitPos (.value m.keyDop none)) d2 true =
          .ok (.atom (.int m.lo), (decStep m.keyObj d2).2) := by
        have := decodeParam_obj m.keyObj hk f d2 hkfit hkdec
        rw [hkval] at this
        exact this
      have hcont := hG.decode_eq (f + 2) (by simp only [Comp.ofValue, DComp.mux] at hf ⊢; omega)
        (decStep m.keyObj d2).2 rfl hcfit hpre
      have hcont' : decodeParam (f + 2) (.mk "" (some m.muxBp) none (.value c.dop none)) (decStep m.keyObj d2).2 true = _ := hcont
      simp only [DComp.mux]
      rw [decodeDop_mux_step (f + 2) _ _ _ _ _ _ _ m.lo _ hkey m.caseName c.dop hdsel]
      rw [decodeParam_explicit_cursor, hcont']
      rfl }

theorem DComp.mux_endOk (m : MuxLayout) (c : DComp) (hc : c.EndOk) : (DComp.mux m c).EndOk where
  of_end := fun d h => hc.of_end _ h
  trivial := fun h d => hc.trivial h _

end OdxVerif.Codec
