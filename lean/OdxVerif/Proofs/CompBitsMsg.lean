import OdxVerif.Proofs.CompBitsDesc
/-! Bit-exactness for the compositional tier (task W12), part 4: the message level.  Strict `encodeMessage` on a request /
    response whose parameters are a well-formed list of descriptions returns the message and the warning count of the pure
    encoder run from the empty state (`descs_encodeMessage`); the footprint law at the empty state gives the bit-exactness
    statement, the overlap clause and the length of the PDU (`descs_pure_*`). -/
namespace OdxVerif.Codec
open OdxVerif.Bits OdxVerif.OdxM

/-- the layout of a request / response: origin 0, cursor 0 -/
def Descs.layout (ds : List Desc) : List Ent := (Descs.lay ds).ents 0 0
/-- the byte behind the furthest byte the encoder touches = the length of the PDU -/
def Descs.extent (ds : List Desc) : Nat := (Descs.lay ds).ext 0 0
/-- the encoder's final cursor -/
def Descs.endCursor (ds : List Desc) : Nat := (Descs.lay ds).cur 0 0
/-- the model's parameter list -/
def Descs.params (ds : List Desc) : List Param := Comps.toParams (Descs.comps ds)
/-- the dictionary handed to `encode`: the values that are supplied -/
def Descs.supplied (ds : List Desc) : List (String × PVal) := Comps.values (Descs.comps ds)
/-- the dictionary `decode` returns: an entry for every parameter -/
def Descs.decoded (ds : List Desc) : List (String × PVal) := (Comps.pair (Descs.comps ds)).val

/-- a well-formed request / response: well-formed parameters, distinct names, END-OF-PDU-FIELD only last, within the model's fuel -/
def Descs.ok (ds : List Desc) : Prop :=
  Descs.wf ds ∧ Comps.namesOk (Descs.comps ds) ∧ Comps.eopLast (Descs.comps ds) ∧ Comps.need (Descs.comps ds) + 2 ≤ modelFuel

theorem Descs.okAll (ds : List Desc) (h : Descs.wf ds) : Comps.okAll (Descs.comps ds) :=
  Comps.okAll_of_forall _ (fun g hg => (Descs.described ds h g hg).ok.1)

theorem Descs.endOkAll (ds : List Desc) (h : Descs.wf ds) : Comps.endOkAll (Descs.comps ds) :=
  Comps.endOkAll_of_forall _ (fun g hg => (Descs.described ds h g hg).ok.2)

/-- strict `encodeMessage` = the pure encoder from the empty state: it never fails on a well-formed description, and
    returns the pure encoder's message and warning count -/
theorem descs_encodeMessage (ds : List Desc) (hok : Descs.ok ds) (trig : Option Bytes) :
    encodeMessage none (Descs.params ds) (.dict (Descs.supplied ds)) trig true =
      .ok (((Comps.pair (Descs.comps ds)).enc {}).msg, ((Comps.pair (Descs.comps ds)).enc {}).warn) := by
  obtain ⟨hwf, hn, hlast, hneed⟩ := hok
  have hokAll := Descs.okAll ds hwf
  have hok' := DComp.struct_ok (Descs.comps ds) hokAll hn hlast
  let s0 : EncState := { trig := trig, isEndOfPdu := true }
  obtain ⟨s1, hrun, hcore, _⟩ := hok'.encode_eq modelFuel hneed s0 rfl (fun _ => rfl)
  have hrun' : encodeDop modelFuel (.struct none (Comps.toParams (Descs.comps ds))) (.dict (Comps.values (Descs.comps ds)))
      { trig := trig, isEndOfPdu := true } true = .ok ((), s1) := hrun
  unfold encodeMessage Descs.params Descs.supplied
  rw [hrun']
  have hs0 : SameCore ({ s0 with origin := s0.cursorByte } : EncState) {} := ⟨rfl, rfl, rfl, rfl, rfl⟩
  have h2 := (Comps.good _ hokAll).core _ _ hs0
  have hm : s1.msg = ((Comps.pair (Descs.comps ds)).enc {}).msg := by rw [hcore.1, ← h2.1]; rfl
  have hw : s1.warn = ((Comps.pair (Descs.comps ds)).enc {}).warn := by rw [hcore.2.2.1, ← h2.2.2.1]; rfl
  simp only [hm, hw]

theorem usedOk_empty : UsedOk {} := ⟨rfl, by intro b hb; cases hb⟩

theorem getBit_nil (a : Nat) : getBit [] a = false := by simp [getBit]

/-- the overlap clause: the pure encoder issues no warning ⇔ the layout's entries are pairwise disjoint -/
theorem descs_pure_nowarn_iff (ds : List Desc) (hwf : Descs.wf ds) :
    ((Comps.pair (Descs.comps ds)).enc {}).warn = 0 ↔ LDisj (Descs.layout ds) := by
  have hF := Descs.foot ds hwf
  have := hF.nowarn_iff {} usedOk_empty
  rw [show (({} : EncState).warn) = 0 from rfl] at this
  rw [this]
  constructor
  · exact fun h => h.1
  · intro h
    exact ⟨h, fun e _ a _ => getBit_nil a⟩

theorem descs_pure_length (ds : List Desc) (hwf : Descs.wf ds) :
    ((Comps.pair (Descs.comps ds)).enc {}).msg.length = Descs.extent ds := by
  have := (Descs.foot ds hwf).length {}
  rw [this]
  show max 0 _ = _
  rw [Nat.zero_max]
  rfl

theorem descs_pure_inside (ds : List Desc) (hwf : Descs.wf ds) (hw : ((Comps.pair (Descs.comps ds)).enc {}).warn = 0) :
    ∀ e ∈ Descs.layout ds, ∀ j, j < e.bl → getBit ((Comps.pair (Descs.comps ds)).enc {}).msg (e.abs j) = e.raw.testBit j :=
  (Descs.foot ds hwf).inside {} usedOk_empty hw

theorem descs_pure_outside (ds : List Desc) (hwf : Descs.wf ds) (a : Nat) (h : ¬ LClaims (Descs.layout ds) a) :
    getBit ((Comps.pair (Descs.comps ds)).enc {}).msg a = false := by
  rw [(Descs.foot ds hwf).outside {} a h]
  exact getBit_nil a

theorem descs_pure_cursor (ds : List Desc) (hwf : Descs.wf ds) :
    ((Comps.pair (Descs.comps ds)).enc {}).cursorByte = Descs.endCursor ds :=
  (Descs.foot ds hwf).cursor {}

theorem descs_pure_allBytes (ds : List Desc) (hwf : Descs.wf ds) : AllBytes ((Comps.pair (Descs.comps ds)).enc {}).msg :=
  (Comps.good _ (Descs.okAll ds hwf)).allBytes {} (by intro b hb; cases hb)

end OdxVerif.Codec
