import OdxVerif.Proofs.CompRejectDescribed
/-! Copy of the tier-2 static-length argument of `Proofs/StructStatic.lean` (definitions `Tree.rend` / `Tree.slen` /
    `Trees.stat` / `Trees.cursorOk`, theorems `Trees.static_eq`, `Trees.enc_length`, `static_length_tree`) with the suffix `S`
    on every name: `StructStatic.lean` cannot be imported together with `Proofs/FieldTierPure.lean` (both define
    `Trees.enc_cursor`), on which the compositional tier rests.  Nothing new here; the statements are word for word those of
    `StructStatic.lean`. -/
namespace OdxVerif.Codec
open OdxVerif.Bits OdxVerif.OdxM

def Tree.bytePosS : Tree → Option Nat
  | .int o _ => o.bytePos
  | .const o _ => o.bytePos
  | .struct _ bp _ => bp

mutual
/-- the encoder's view: where the cursor is once the parameter is encoded, relative to the parameter's first byte —
    for a structure: behind its last listed parameter -/
def Tree.rendS : Tree → Nat
  | .int o _ => o.k
  | .const o _ => o.k
  | .struct _ _ kids => Trees.rcurS kids 0
/-- the encoder's cursor behind a parameter list, relative to the first byte of the enclosing structure -/
def Trees.rcurS : List Tree → Nat → Nat
  | [], c => c
  | t :: ts, c => Trees.rcurS ts (t.bytePosS.getD c + t.rendS)
end

mutual
/-- the static view: the number of bytes `get_static_bit_length` attributes to the parameter — for a structure its
    full extent -/
def Tree.slenS : Tree → Nat
  | .int o _ => o.k
  | .const o _ => o.k
  | .struct _ _ kids => Trees.statS kids 0 0
/-- `composite_codec_get_static_bit_length` on the tier (bytes; cursor / running maximum) -/
def Trees.statS : List Tree → Nat → Nat → Nat
  | [], _, m => m
  | t :: ts, c, m => Trees.statS ts (t.bytePosS.getD c + t.slenS) (max m (t.bytePosS.getD c + t.slenS))
end

/-- the next parameter has no BYTE-POSITION: it is placed at the cursor -/
def Trees.headImplicitS : List Tree → Bool
  | t :: _ => t.bytePosS.isNone
  | [] => false

mutual
/-- **the side condition of the static-length theorem** (decidable): no nested structure is empty, and every nested
    structure that is directly followed by a sibling without BYTE-POSITION ends — cursor behind its last listed
    parameter — at its full extent. (For leaves `rend = slen` holds by definition.) -/
def Tree.cursorOkS : Tree → Bool
  | .int _ _ => true
  | .const _ _ => true
  | .struct _ _ kids => !kids.isEmpty && Trees.cursorOkS kids
def Trees.cursorOkS : List Tree → Bool
  | [] => true
  | t :: ts => t.cursorOkS && (!Trees.headImplicitS ts || t.rendS == t.slenS) && Trees.cursorOkS ts
end

theorem posOf_relS (bp : Option Nat) (org c : Nat) : posOf bp org (org + c) = org + bp.getD c := by
  cases bp <;> rfl

theorem Obj.pos_relS (o : Obj) (org c : Nat) : o.pos org (org + c) = org + o.bytePos.getD c := by
  unfold Obj.pos
  cases o.bytePos <;> rfl

/-! ### the static computation of the model on the tier -/

theorem obj_k_commS (o : Obj) : (o.bitPos.getD 0 + o.bl + 7) / 8 = o.k := by
  unfold Obj.k Obj.bp
  rw [Nat.add_comm (o.bitPos.getD 0) o.bl]

mutual
theorem Tree.static_stepS : (t : Tree) → ∀ (rest : List Param) (c m : Nat),
    paramsStaticLen (t.toParam :: rest) c m =
      paramsStaticLen rest (t.bytePosS.getD c + t.slenS) (max m (t.bytePosS.getD c + t.slenS))
  | .int o v, rest, c, m => by
    simp only [Tree.toParam, Obj.toParam, paramsStaticLen, PKind.staticBitLen, Dop.staticBitLen, Dct.staticBitLen,
      Tree.bytePosS, Tree.slenS, obj_k_commS]
    cases o.bytePos <;> rfl
  | .const o v, rest, c, m => by
    simp only [Tree.toParam, Obj.toConstParam, paramsStaticLen, PKind.staticBitLen, Dct.staticBitLen,
      Tree.bytePosS, Tree.slenS, obj_k_commS]
    cases o.bytePos <;> rfl
  | .struct n bp kids, rest, c, m => by
    have h := Trees.static_eqS kids 0 0
    have e : (0 + 8 * Trees.statS kids 0 0 + 7) / 8 = Trees.statS kids 0 0 := by omega
    simp only [Tree.toParam, paramsStaticLen, PKind.staticBitLen, Dop.staticBitLen, h, Option.map_some,
      Option.getD_none, e, Tree.bytePosS, Tree.slenS]
    cases bp <;> rfl
theorem Trees.static_eqS : (ts : List Tree) → ∀ (c m : Nat),
    paramsStaticLen (Trees.toParams ts) c m = some (Trees.statS ts c m)
  | [], c, m => by simp only [Trees.toParams, paramsStaticLen, Trees.statS]
  | t :: ts, c, m => by
    simp only [Trees.toParams, Trees.statS]
    rw [Tree.static_stepS t, Trees.static_eqS ts]
end

theorem Trees.stat_geS (ts : List Tree) : ∀ (c m : Nat), m ≤ Trees.statS ts c m := by
  induction ts with
  | nil => intro c m; simp only [Trees.statS]; exact Nat.le_refl _
  | cons t ts ih =>
    intro c m
    simp only [Trees.statS]
    exact Nat.le_trans (Nat.le_max_left _ _) (ih _ _)

/-! ### the encoder's cursor -/

mutual
theorem Tree.enc_cursorS : (t : Tree) → ∀ (s : EncState) (c : Nat), s.cursorByte = s.origin + c →
    (t.pair.enc s).cursorByte = s.origin + (t.bytePosS.getD c + t.rendS) ∧ (t.pair.enc s).origin = s.origin
  | .int o v, s, c, hc => by
    simp only [Tree.pair, Pair.map, Pair.ofObj, Tree.bytePosS, Tree.rendS, encStep_cursor, encStep_origin, hc, Obj.pos_relS]
    exact ⟨by omega, trivial⟩
  | .const o v, s, c, hc => by
    simp only [Tree.pair, Pair.map, Pair.ofObj, Tree.bytePosS, Tree.rendS, encStep_cursor, encStep_origin, hc, Obj.pos_relS]
    exact ⟨by omega, trivial⟩
  | .struct n bp kids, s, c, hc => by
    have ih := Trees.enc_cursorS kids { s with cursorByte := posOf bp s.origin s.cursorByte,
                                                origin := posOf bp s.origin s.cursorByte } 0 rfl
    simp only [Tree.pair, Pair.map, Pair.atPos, Pair.inOrigin, Tree.bytePosS, Tree.rendS]
    refine ⟨?_, trivial⟩
    rw [ih.1]
    simp only [hc, posOf_relS]
    omega
theorem Trees.enc_cursorS : (ts : List Tree) → ∀ (s : EncState) (c : Nat), s.cursorByte = s.origin + c →
    ((Trees.pair ts).enc s).cursorByte = s.origin + Trees.rcurS ts c ∧ ((Trees.pair ts).enc s).origin = s.origin
  | [], s, c, hc => by
    simp only [Trees.pair, Pair.nil, Trees.rcurS, id]
    exact ⟨hc, trivial⟩
  | t :: ts, s, c, hc => by
    obtain ⟨h1, o1⟩ := Tree.enc_cursorS t s c hc
    obtain ⟨h2, o2⟩ := Trees.enc_cursorS ts (t.pair.enc s) (t.bytePosS.getD c + t.rendS) (by rw [h1, o1])
    simp only [Trees.pair, Pair.map, Pair.seq, Trees.rcurS]
    exact ⟨by rw [h2, o1], by rw [o2, o1]⟩
end

/-! ### the length of the encoding -/

theorem Trees.cursorOk_consS (t : Tree) (ts : List Tree) (h : Trees.cursorOkS (t :: ts) = true) :
    t.cursorOkS = true ∧ (Trees.headImplicitS ts = true → t.rendS = t.slenS) ∧ Trees.cursorOkS ts = true := by
  simp only [Trees.cursorOkS, Bool.and_eq_true, Bool.or_eq_true, Bool.not_eq_true', beq_iff_eq] at h
  refine ⟨h.1.1, ?_, h.2⟩
  intro hi
  rcases h.1.2 with h' | h'
  · rw [hi] at h'; cases h'
  · exact h'

mutual
theorem Tree.enc_lengthS : (t : Tree) → t.okAll → t.cursorOkS = true → ∀ (s : EncState) (c : Nat),
    s.cursorByte = s.origin + c →
    (t.pair.enc s).msg.length = max s.msg.length (s.origin + (t.bytePosS.getD c + t.slenS))
  | .int o v, _, _, s, c, hc => by
    simp only [Tree.pair, Pair.map, Pair.ofObj, Tree.bytePosS, Tree.slenS, encStep_length, hc, Obj.pos_relS]
    omega
  | .const o v, _, _, s, c, hc => by
    simp only [Tree.pair, Pair.map, Pair.ofObj, Tree.bytePosS, Tree.slenS, encStep_length, hc, Obj.pos_relS]
    omega
  | .struct n bp kids, hok, hcok, s, c, hc => by
    simp only [Tree.okAll] at hok
    simp only [Tree.cursorOkS, Bool.and_eq_true, Bool.not_eq_true'] at hcok
    have hne : kids ≠ [] := by
      intro h; rw [h] at hcok; simp at hcok
    have ih0 := Trees.enc_lengthS kids hok hcok.2
      { s with cursorByte := posOf bp s.origin s.cursorByte, origin := posOf bp s.origin s.cursorByte }
      0 0 0 rfl (fun _ => rfl)
    obtain ⟨ih, hge⟩ := ih0
    have hge' := hge hne
    simp only [Tree.pair, Pair.map, Pair.atPos, Pair.inOrigin, Tree.bytePosS, Tree.slenS]
    simp only [hc, posOf_relS] at ih hge' ⊢
    omega
theorem Trees.enc_lengthS : (ts : List Tree) → Trees.okAll ts → Trees.cursorOkS ts = true →
    ∀ (s : EncState) (ce cs m : Nat), s.cursorByte = s.origin + ce → (Trees.headImplicitS ts = true → ce = cs) →
    max (s.origin + m) ((Trees.pair ts).enc s).msg.length = max s.msg.length (s.origin + Trees.statS ts cs m) ∧
    (ts ≠ [] → s.origin ≤ ((Trees.pair ts).enc s).msg.length)
  | [], _, _, s, ce, cs, m, _, _ => by
    simp only [Trees.pair, Pair.nil, Trees.statS, id]
    exact ⟨Nat.max_comm _ _, fun h => absurd rfl h⟩
  | t :: ts, hok, hcok, s, ce, cs, m, hc, himp => by
    simp only [Trees.okAll] at hok
    obtain ⟨hct, htight, hcts⟩ := Trees.cursorOk_consS t ts hcok
    -- both views place the parameter at the same byte
    have hpos : t.bytePosS.getD cs = t.bytePosS.getD ce := by
      cases hb : t.bytePosS with
      | some b => rfl
      | none =>
        have : ce = cs := himp (by simp [Trees.headImplicitS, hb])
        simp [this]
    have hlen1 := Tree.enc_lengthS t hok.1 hct s ce hc
    obtain ⟨hcur1, horg1⟩ := Tree.enc_cursorS t s ce hc
    obtain ⟨ih, _⟩ := Trees.enc_lengthS ts hok.2 hcts (t.pair.enc s) (t.bytePosS.getD ce + t.rendS)
      (t.bytePosS.getD ce + t.slenS) (max m (t.bytePosS.getD ce + t.slenS)) (by rw [hcur1, horg1])
      (fun hi => by rw [htight hi])
    have hmono := (Trees.good ts hok.2).len_mono (t.pair.enc s)
    have hst := Trees.stat_geS ts (t.bytePosS.getD ce + t.slenS) (max m (t.bytePosS.getD ce + t.slenS))
    simp only [Trees.pair, Pair.map, Pair.seq, Trees.statS, hpos]
    rw [horg1] at ih
    refine ⟨by omega, fun _ => by omega⟩
end

/-- **static length = length of the encoding** for the pure encoder of a nested description, from the empty message -/
theorem static_length_treeS (ts : List Tree) (hok : Trees.okAll ts) (hc : Trees.cursorOkS ts = true) (s0 : EncState)
    (hm : s0.msg = []) (hcur : s0.cursorByte = 0) (ho : s0.origin = 0) :
    (Dop.struct none (Trees.toParams ts)).staticBitLen = some (8 * ((Trees.pair ts).enc s0).msg.length) := by
  obtain ⟨h, _⟩ := Trees.enc_lengthS ts hok hc s0 0 0 0 (by rw [hcur, ho]) (fun _ => rfl)
  rw [ho, hm] at h
  simp only [List.length_nil, Nat.zero_add] at h
  have h' : ((Trees.pair ts).enc s0).msg.length = Trees.statS ts 0 0 := by omega
  simp only [Dop.staticBitLen, Trees.static_eqS, Option.map_some, h']

end OdxVerif.Codec
