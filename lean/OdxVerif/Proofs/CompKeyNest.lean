import OdxVerif.Proofs.CompKeyMsg
/-! LENGTH-KEY / PARAM-LENGTH-INFO-TYPE (task W13): a STRUCTURE with LENGTH-KEYs of its own as a PARAMETER of another list.
    `Comp.kstruct name bp its` is the VALUE parameter typed by the structure whose parameters are the items `its`; both of its
    encoding passes run inside the first pass of the enclosing composite (`KItems.pairS`: first pass, then the keys' values,
    cursor behind the last parameter — a `Good` pair, `KItems.goodS`).  `Comp.kstruct_kok`: it is a component in the presence
    of keys (`Comp.KOk`), so it can be an item of an outer list — to any depth.  The dictionaries are global to the PDU in the
    model as in odxtools, hence one assignment `W` of final values for ALL levels (a name that occurs at two levels has the same
    value at both) and the condition `KItems.apart` in the outer list (no later item touches the recorded position of a key). -/
set_option linter.unusedSimpArgs false
set_option linter.unusedVariables false
namespace OdxVerif.Codec
open OdxVerif.Bits OdxVerif.OdxM

variable {W : String → Option Int}

theorem enc2_lengthKeys : (cs : List Cell) → (s : EncState) → (enc2 cs s).lengthKeys = s.lengthKeys
  | [], _ => rfl
  | c :: cs, s => by show (enc2 cs (cellStep c s)).lengthKeys = _; rw [enc2_lengthKeys cs]; rfl
theorem enc2_keyPos : (cs : List Cell) → (s : EncState) → (enc2 cs s).keyPos = s.keyPos
  | [], _ => rfl
  | c :: cs, s => by show (enc2 cs (cellStep c s)).keyPos = _; rw [enc2_keyPos cs]; rfl
theorem enc2_cursorBit : (cs : List Cell) → (s : EncState) → s.cursorBit = 0 → (enc2 cs s).cursorBit = 0
  | [], _, h => h
  | c :: cs, s, _ => enc2_cursorBit cs (cellStep c s) rfl

theorem KItems.dec_msg : (its : List KItem) → (∀ it ∈ its, it.ok W) → ∀ (d : DecState),
    ((Comps.pair (KItems.comps its)).dec d).2.msg = d.msg
  | [], _, _ => rfl
  | it :: its, hok, d => by
    simp only [KItems.comps_cons, Comps.pair, Pair.map, Pair.seq]
    rw [KItems.dec_msg its (fun x hx => hok x (List.mem_cons_of_mem _ hx)), (it.decOk (hok it (List.mem_cons_self ..))).dec_msg]

/-- the names whose recorded key positions a list of items changes -/
def KItems.touched (its : List KItem) : List String := its.flatMap KItem.touches

theorem KItems.not_touched {its : List KItem} {n : String} (h : n ∉ KItems.touched its) : ∀ it ∈ its, n ∉ it.touches := by
  intro it hit hn
  exact h (List.mem_flatMap.mpr ⟨it, hit, hn⟩)

/-- the decoder of a list of items keeps what the dictionary says consistently with `W` -/
theorem KItems.dec_consistent : (its : List KItem) → (∀ it ∈ its, it.ok W) →
    (∀ kd o v i b, KItem.key kd o v i b ∈ its → W o.name = some v) → ∀ (d : DecState), d.cursorBit = 0 →
    (Comps.pair (KItems.comps its)).fits d → Comps.decPre (KItems.comps its) d →
    ∀ n, lookup n d.lengthKeys = W n → lookup n ((Comps.pair (KItems.comps its)).dec d).2.lengthKeys = W n
  | [], _, _, _, _, _, _, _, h => h
  | it :: its, hok, hkw, d, hcb, hfit, hpre, n, h => by
    have hokit := hok it (List.mem_cons_self ..)
    rw [KItems.comps_cons] at hfit hpre
    have hfit' : it.toComp.pair.fits d ∧ (Comps.pair (KItems.comps its)).fits (it.toComp.pair.dec d).2 := hfit
    have hhead : lookup n (it.toComp.pair.dec d).2.lengthKeys = W n := by
      cases it with
      | comp g nm => exact Comp.KOk.dec_keys hokit d hcb hfit'.1 hpre.1 n h
      | key kd o v i b =>
        show lookup n (insertKV o.name v d.lengthKeys) = W n
        by_cases hne : n = o.name
        · subst hne; rw [lookup_insertKV_self, hkw kd o v i b (List.mem_cons_self ..)]
        · rw [lookup_insertKV_ne _ _ _ _ hne]; exact h
      | user u => exact h
      | ouser o v key => exact h
    simp only [KItems.comps_cons, Comps.pair, Pair.map, Pair.seq]
    exact KItems.dec_consistent its (fun x hx => hok x (List.mem_cons_of_mem _ hx))
      (fun kd o v i b hm => hkw kd o v i b (List.mem_cons_of_mem _ hm)) _ ((it.decOk hokit).dec_cursorBit d hcb) hfit'.2 hpre.2 n hhead

/-! ### both passes as one pair -/

/-- the two passes of a key structure; the cursor stays behind the last parameter -/
def KItems.pairS (its : List KItem) : Pair (List (String × PVal)) where
  enc := fun s => { enc2 (KItems.cells its s) ((Comps.pair (KItems.comps its)).enc s) with
                    cursorByte := ((Comps.pair (KItems.comps its)).enc s).cursorByte }
  dec := (Comps.pair (KItems.comps its)).dec
  val := (Comps.pair (KItems.comps its)).val
  fits := (Comps.pair (KItems.comps its)).fits

theorem KItems.goodS (its : List KItem) (hok : ∀ it ∈ its, it.ok W) : Good (KItems.pairS its) := by
  have hg := KItems.good its hok
  refine ⟨?_, ?_, ?_, ?_, ?_, ?_, ?_⟩
  · intro s
    exact Nat.le_trans (hg.warn_mono s) (enc2_warn_ge _ _)
  · intro s hw a hu
    have h1 := hg.warn_mono s
    have h2 := enc2_warn_ge (KItems.cells its s) ((Comps.pair (KItems.comps its)).enc s)
    have hw' : (enc2 (KItems.cells its s) ((Comps.pair (KItems.comps its)).enc s)).warn = s.warn := hw
    obtain ⟨m1, u1⟩ := hg.frame s (by omega) a hu
    obtain ⟨m2, u2⟩ := enc2_frame (KItems.cells its s) _ (by omega) a u1
    exact ⟨by show getBit (enc2 _ _).msg a = _; rw [m2, m1], u2⟩
  · intro s h
    exact enc2_allBytes _ _ (hg.allBytes s h)
  · intro s
    exact Nat.le_trans (hg.len_mono s) (enc2_len _ _)
  · intro s
    show (enc2 _ _).origin = s.origin
    rw [enc2_origin, hg.origin]
  · intro s d hall hw horig hcur hdall hlen hagree
    have h1 := hg.warn_mono s
    have h2 := enc2_warn_ge (KItems.cells its s) ((Comps.pair (KItems.comps its)).enc s)
    have hw' : (enc2 (KItems.cells its s) ((Comps.pair (KItems.comps its)).enc s)).warn = s.warn := hw
    have hlen' : (enc2 (KItems.cells its s) ((Comps.pair (KItems.comps its)).enc s)).msg.length ≤ d.msg.length := hlen
    have hagree' : ∀ a, getBit (enc2 (KItems.cells its s) ((Comps.pair (KItems.comps its)).enc s)).used a = true →
        getBit d.msg a = getBit (enc2 (KItems.cells its s) ((Comps.pair (KItems.comps its)).enc s)).msg a := hagree
    have hagreeP : ∀ a, getBit ((Comps.pair (KItems.comps its)).enc s).used a = true →
        getBit d.msg a = getBit ((Comps.pair (KItems.comps its)).enc s).msg a := by
      intro a ha
      obtain ⟨m, u⟩ := enc2_frame (KItems.cells its s) _ (by omega) a ha
      rw [← m]; exact hagree' a u
    exact hg.rt s d hall (by omega) horig hcur hdall (Nat.le_trans (enc2_len (KItems.cells its s) _) hlen') hagreeP
  · intro s t h
    have hc := hg.core s t h
    have hcells := KItems.cells_sameCore its hok s t h
    have h2 := enc2_sameCore (KItems.cells its s) _ _ hc
    show SameCore { enc2 (KItems.cells its s) ((Comps.pair (KItems.comps its)).enc s) with
                    cursorByte := ((Comps.pair (KItems.comps its)).enc s).cursorByte }
                  { enc2 (KItems.cells its t) ((Comps.pair (KItems.comps its)).enc t) with
                    cursorByte := ((Comps.pair (KItems.comps its)).enc t).cursorByte }
    rw [← hcells]
    exact ⟨h2.1, h2.2.1, h2.2.2.1, hc.2.2.2.1, h2.2.2.2.2⟩

/-! ### the parameter -/

/-- a VALUE parameter (no PHYSICAL-DEFAULT-VALUE, no BIT-POSITION) typed by a STRUCTURE (no BYTE-SIZE) whose parameters are the
    items `its`, at BYTE-POSITION `bp` or behind its predecessor -/
def Comp.kstruct (name : String) (bp : Option Nat) (its : List KItem) : Comp where
  param := .mk name bp none (.value (.struct none (Comps.toParams (KItems.comps its))) none)
  pair := (((KItems.pairS its).inOrigin).atPos bp).map PVal.dict
  sup := some (.dict (Comps.values (KItems.comps its)))
  need := Comps.need (KItems.comps its) + 3
  cur := fun org c => posOf bp org c + Comps.cur (KItems.comps its) 0 0
  eopOnly := Comps.anyEop (KItems.comps its)
  decPre := fun d => Comps.decPre (KItems.comps its)
    { d with cursorByte := posOf bp d.origin d.cursorByte, origin := posOf bp d.origin d.cursorByte }

/-- the state the content of a structure parameter is encoded from (as the model sets it up) … -/
def encIn (bp : Option Nat) (s : EncState) : EncState :=
  { s with cursorByte := posOf bp s.origin s.cursorByte, cursorBit := 0,
           origin := posOf bp s.origin s.cursorByte, isEndOfPdu := false }
/-- … and as the pure pair sees it -/
def encCore (bp : Option Nat) (s : EncState) : EncState :=
  { s with cursorByte := posOf bp s.origin s.cursorByte, origin := posOf bp s.origin s.cursorByte }
/-- the state the content is decoded from -/
def decIn (bp : Option Nat) (d : DecState) : DecState :=
  { d with cursorByte := posOf bp d.origin d.cursorByte, origin := posOf bp d.origin d.cursorByte }
/-- behind the structure: cursor behind its last parameter, origin restored -/
def encOut (c o : Nat) (u : EncState) : EncState := { u with cursorByte := c, origin := o }

theorem encIn_core (bp : Option Nat) (s : EncState) : SameCore (encIn bp s) (encCore bp s) := ⟨rfl, rfl, rfl, rfl, rfl⟩
theorem Framing.encOut (c o : Nat) : Framing (encOut c o) :=
  ⟨fun _ => Nat.le_refl _, fun _ _ _ hu => ⟨rfl, hu⟩, fun _ => Nat.le_refl _⟩

/-- **closure: a STRUCTURE with LENGTH-KEYs of its own is a component in the presence of keys** -/
theorem Comp.kstruct_kok (name : String) (bp : Option Nat) (its : List KItem) (hok : ∀ it ∈ its, it.ok W)
    (hlast : Comps.eopLast (KItems.comps its)) (hn : Comps.namesOk (KItems.comps its)) (hap : KItems.apart its)
    (hrefs : KItems.refsOk W [] [] its) (hcov : KItems.covered its) :
    (Comp.kstruct name bp its).KOk W (KItems.touched its) where
  good := (((KItems.goodS its hok).inOrigin).atPos bp).map _
  notKey := rfl
  supplied := fun _ => rfl
  sup_ne_none := by simp [Comp.kstruct]
  decOk := by
    refine ⟨?_, ?_, ?_⟩
    · intro d hcb
      exact KItems.dec_cursorBit its hok (decIn bp d) hcb
    · intro d
      exact KItems.dec_msg its hok (decIn bp d)
    · intro fuel hf d hcb hfit hpre
      obtain ⟨f, rfl⟩ : ∃ f, fuel = f + 1 + 1 + 1 := ⟨fuel - 3, by simp only [Comp.kstruct] at hf; omega⟩
      have hf' : Comps.need (KItems.comps its) ≤ f := by simp only [Comp.kstruct] at hf; omega
      have hfit' : (Comps.pair (KItems.comps its)).fits (decIn bp d) := hfit
      have hpre' : Comps.decPre (KItems.comps its) (decIn bp d) := hpre
      have hrun := KItems.decode_eq its hok f hf' (decIn bp d) hcb hfit' hpre'
      have hcb' := KItems.dec_cursorBit its hok (decIn bp d) hcb
      cases bp <;>
      · simp only [decIn, posOf] at hrun hcb'
        simp only [Comp.kstruct, KItems.pairS, Pair.map, Pair.atPos, Pair.inOrigin, posOf, decodeParam, decodeDop, decodeComposite,
          bind, pure, run_bind, run_getS, run_modifyS, run_pure, Option.getD_none]
        simp only [hcb] at hrun hcb' ⊢
        rw [hrun]
        simp only [hcb']
  enc_step := by
    intro fuel hf s heop hinv
    obtain ⟨f, rfl⟩ : ∃ f, fuel = f + 1 + 1 + 1 := ⟨fuel - 3, by simp only [Comp.kstruct] at hf; omega⟩
    have hf' : Comps.need (KItems.comps its) ≤ f := by simp only [Comp.kstruct] at hf; omega
    obtain ⟨s1, hrun1, hp1⟩ := KItems.encode1 W its hok hlast hap [] [] hrefs (Comps.values (KItems.comps its))
      (fun g hg => KItems.lookupV_values its hok hn g hg) f hf' s.isEndOfPdu heop (encIn bp s) hinv (fun n h => by cases h)
    have hkeys := KItems.keys_ready its hrefs hcov _ s1 hp1
    have hkeys' : ∀ kd o v i b, KItem.key kd o v i b ∈ its →
        lookup o.name ({ s1 with isEndOfPdu := false } : EncState).lengthKeys = some v ∧
        (lookup o.name ({ s1 with isEndOfPdu := false } : EncState).keyPos).isSome = true := hkeys
    have hrun2 := KItems.encode2 its hok f hf' { s1 with isEndOfPdu := false } hkeys'
    have hcs : KItems.cells2 ({ s1 with isEndOfPdu := false } : EncState).keyPos its = KItems.cells its (encIn bp s) :=
      KItems.cells2_eq s1.keyPos its _ hp1.pos
    rw [hcs] at hrun2
    have hg := KItems.good its hok
    have hc1 : SameCore s1 ((Comps.pair (KItems.comps its)).enc (encCore bp s)) :=
      hp1.core.trans (hg.core _ _ (encIn_core bp s))
    have hcells := KItems.cells_sameCore its hok _ _ (encIn_core bp s)
    have hc2 := enc2_sameCore (KItems.cells its (encIn bp s)) { s1 with isEndOfPdu := false }
      ((Comps.pair (KItems.comps its)).enc (encCore bp s)) ⟨hc1.1, hc1.2.1, hc1.2.2.1, hc1.2.2.2.1, hc1.2.2.2.2⟩
    refine ⟨{ enc2 (KItems.cells its (encIn bp s)) { s1 with isEndOfPdu := false } with
              cursorByte := s1.cursorByte, origin := s.origin, cursorBit := 0 }, ?_, ?_, ?_, ?_, ?_⟩
    · have hrun1' : encodeParams s.isEndOfPdu (Comps.values (KItems.comps its)) f (Comps.toParams (KItems.comps its))
          (encIn bp s) true = .ok ((), s1) := hrun1
      cases bp <;>
      · simp only [encIn, posOf] at hrun1' hrun2
        simp only [Comp.kstruct, encodeParam, encodeDop, encodeComposite, bind, pure, run_bind, run_getS, run_modifyS, run_pure,
          run_ite, Comps.known_values, Bool.false_eq_true, if_false, ne_eq, not_true_eq_false, Option.getD_none, posOf, encIn]
        rw [hrun1']
        simp only []
        rw [hrun2]
    · rw [hcells] at hc2 ⊢
      exact ⟨hc2.1, hc2.2.1, hc2.2.2.1, hc1.2.2.2.1, rfl⟩
    · intro n x h
      have h' : lookup n (enc2 (KItems.cells its (encIn bp s)) { s1 with isEndOfPdu := false }).lengthKeys = some x := h
      rw [enc2_lengthKeys] at h'
      exact hp1.inv n x h'
    · intro n x h
      show lookup n (enc2 (KItems.cells its (encIn bp s)) { s1 with isEndOfPdu := false }).lengthKeys = some x
      rw [enc2_lengthKeys]
      exact hp1.mono n x h
    · intro n hn'
      show lookup n (enc2 (KItems.cells its (encIn bp s)) { s1 with isEndOfPdu := false }).keyPos = lookup n s.keyPos
      rw [enc2_keyPos]
      exact hp1.posOther n (KItems.not_touched hn')
  dec_keys := by
    intro d hcb hfit hpre n h
    exact KItems.dec_consistent its hok (KItems.refsOk_key W [] [] its hrefs) (decIn bp d) hcb hfit hpre n h
  pre_intro := by
    intro K hK s d hall hw horig hcur hcb hdall hlen hagree heop
    have hg := KItems.good its hok
    -- the rest of the run seen from behind the second pass of the structure / behind its first pass
    have hK3 : Framing (fun u => K (encOut ((Comps.pair (KItems.comps its)).enc (encCore bp s)).cursorByte s.origin u)) :=
      hK.comp (Framing.encOut _ _)
    have hK2 : Framing (fun t => K (encOut ((Comps.pair (KItems.comps its)).enc (encCore bp s)).cursorByte s.origin
        (enc2 (KItems.cells its (encCore bp s)) t))) := hK3.comp (Framing.enc2 _)
    have hall' : AllBytes (encCore bp s).msg := hall
    have hall1 := hg.allBytes _ hall'
    -- what the hypotheses say, in these terms
    have hwF : (K (encOut ((Comps.pair (KItems.comps its)).enc (encCore bp s)).cursorByte s.origin
        (enc2 (KItems.cells its (encCore bp s)) ((Comps.pair (KItems.comps its)).enc (encCore bp s))))).warn = s.warn := hw
    have hlenF : (K (encOut ((Comps.pair (KItems.comps its)).enc (encCore bp s)).cursorByte s.origin
        (enc2 (KItems.cells its (encCore bp s)) ((Comps.pair (KItems.comps its)).enc (encCore bp s))))).msg.length ≤ d.msg.length :=
      hlen
    have hagreeF : ∀ a, getBit (K (encOut ((Comps.pair (KItems.comps its)).enc (encCore bp s)).cursorByte s.origin
        (enc2 (KItems.cells its (encCore bp s)) ((Comps.pair (KItems.comps its)).enc (encCore bp s))))).used a = true →
        getBit d.msg a = getBit (K (encOut ((Comps.pair (KItems.comps its)).enc (encCore bp s)).cursorByte s.origin
          (enc2 (KItems.cells its (encCore bp s)) ((Comps.pair (KItems.comps its)).enc (encCore bp s))))).msg a := hagree
    -- warnings: none anywhere
    have hw1 : s.warn ≤ ((Comps.pair (KItems.comps its)).enc (encCore bp s)).warn := hg.warn_mono (encCore bp s)
    have hw2 := enc2_warn_ge (KItems.cells its (encCore bp s)) ((Comps.pair (KItems.comps its)).enc (encCore bp s))
    have hw3 : (enc2 (KItems.cells its (encCore bp s)) ((Comps.pair (KItems.comps its)).enc (encCore bp s))).warn ≤
        (K (encOut ((Comps.pair (KItems.comps its)).enc (encCore bp s)).cursorByte s.origin
          (enc2 (KItems.cells its (encCore bp s)) ((Comps.pair (KItems.comps its)).enc (encCore bp s))))).warn :=
      hK3.warn_mono _
    -- the cells hold on the decoder's message
    have hcellsHold : ∀ c ∈ KItems.cells its (encCore bp s), c.holds d.msg := by
      apply enc2_cells _ (KItems.cells_ok its hok _) _ hall1 (by omega) d.msg hdall
      · exact Nat.le_trans (hK3.len_mono _) hlenF
      · intro a ha
        obtain ⟨m, u⟩ := hK3.frame _ (by omega) a ha
        rw [← m]; exact hagreeF a u
    show Comps.decPre (KItems.comps its) (decIn bp d)
    apply KItems.decPre_intro W its hok hlast _ hK2 [] [] hrefs (encCore bp s) (decIn bp d)
      hall' hwF (by simp only [decIn, encCore]; rw [horig, hcur]) (by simp only [decIn, encCore]; rw [horig, hcur]) hcb hdall
      hlenF hagreeF hcellsHold (fun n h => by cases h)
    intro hany
    exact heop hany

end OdxVerif.Codec
