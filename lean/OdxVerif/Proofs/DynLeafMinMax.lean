import OdxVerif.Proofs.DynLeafBytes
/-! MIN-MAX-LENGTH-TYPE leaves (`MinMaxLengthType.encode_into_pdu` / `decode_from_pdu`; model: `encodeDct .minmax`,
    `decodeDct .minmax`, `findTerm`): VALUE parameters over A_BYTEFIELD / A_ASCIISTRING / A_UTF8STRING / A_UNICODE2STRING
    with TERMINATION ZERO / HEX-FF / END-OF-PDU, in the three situations the encoder distinguishes — terminator written
    (`MMLeaf.okMid`), value of exactly MAX-LENGTH bytes (`okFull`), end of the PDU (`okLast`). Core Lean only. -/
set_option linter.unusedSimpArgs false
namespace OdxVerif.Codec
open OdxVerif.Bits OdxVerif.OdxM

/-- `raw` is the byte string the codec puts on the wire for the internal value `v` of base type `bt`, and the decoder's
    conversion of `raw` gives `v` back (byte fields: the bytes themselves; strings: `str.encode` / `bytes.decode` of the
    codec `get_string_encoding` selects — both directions are hypotheses on the concrete string, decidable by evaluation) -/
def Payload (bt : BaseType) (enc : Option Enc) (hl : Bool) (v : IVal) (raw : Bytes) : Prop :=
  AllBytes raw ∧
  ((bt = .bytefield ∧ v = .bytes raw ∧ (enc = none ∨ enc = some .none_ ∨ enc = some .bcdp ∨ enc = some .bcdup)) ∨
   (bt.isString = true ∧ ∃ codec cps, stringCodec bt enc hl = some codec ∧ v = .str cps ∧
      Text.encode codec cps = some raw ∧ Text.decode codec raw = some cps))

theorem Payload.typeAdmits {bt : BaseType} {enc : Option Enc} {hl : Bool} {v : IVal} {raw : Bytes}
    (h : Payload bt enc hl v raw) : typeAdmits bt v = true := by
  rcases h.2 with ⟨rfl, rfl, _⟩ | ⟨hs, _, _, _, rfl, _, _⟩
  · rfl
  · cases bt <;> first | exact absurd hs (by decide) | rfl

theorem Text.decode_nil (c : Text.Codec) : Text.decode c [] = some [] := by cases c <;> rfl

/-- `extract_atomic_value` of `8·n` bits of the payload's base type at a byte-aligned cursor, on a message that carries
    `raw` there, returns `v` -/
theorem extractAtomic_payload {bt : BaseType} {enc : Option Enc} {hl : Bool} {v : IVal} {raw : Bytes}
    (hp : Payload bt enc hl v raw) (d : DecState) (hcb : d.cursorBit = 0)
    (hlen : d.cursorByte + raw.length ≤ d.msg.length) (hall : AllBytes d.msg)
    (hraw : (d.msg.drop d.cursorByte).take raw.length = raw) :
    extractAtomic (8 * raw.length) bt enc hl d true =
      .ok (v, { d with cursorByte := d.cursorByte + raw.length, cursorBit := 0 }) := by
  by_cases hn : raw.length = 0
  · have hnil : raw = [] := List.eq_nil_of_length_eq_zero hn
    subst hnil
    have hd : ({ d with cursorByte := d.cursorByte + ([] : Bytes).length, cursorBit := 0 } : DecState) = d := by
      cases d; simp_all
    have hrun : extractAtomic (8 * ([] : Bytes).length) bt enc hl d true = .ok (emptyValue bt, d) := by
      simp [extractAtomic, pure, run_pure]
    rw [hrun, hd]
    rcases hp.2 with ⟨rfl, rfl, _⟩ | ⟨hs, codec, cps, _, rfl, _, hdec⟩
    · rfl
    · rw [Text.decode_nil] at hdec
      simp only [Option.some.injEq] at hdec
      subst hdec
      cases bt <;> first | exact absurd hs (by decide) | rfl
  · have hb0 : 8 * raw.length ≠ 0 := by omega
    have hk : (8 * raw.length + 7) / 8 = raw.length := by omega
    have hnl : ¬ (d.msg.length < d.cursorByte + raw.length) := by omega
    have hrd := bytes_of_readNum d.msg hall d.cursorByte raw.length hlen
    rw [hraw] at hrd
    rcases hp.2 with ⟨rfl, rfl, he⟩ | ⟨hs, codec, cps, hcodec, rfl, _, hdec⟩
    · rcases he with he | he | he | he <;>
        simp [extractAtomic, extractCore, convertRaw, bind, pure, run_bind, run_pure, run_getS, run_modifyS, run_ite,
          run_raise, BaseType.isNumeric, odxassert, hb0, hcb, hk, hnl, hrd, he]
    · cases bt <;> first
        | exact absurd hs (by decide)
        | simp [extractAtomic, extractCore, convertRaw, bind, pure, run_bind, run_pure, run_getS, run_modifyS, run_ite,
            run_raise, BaseType.isNumeric, hb0, hcb, hk, hnl, hrd, hcodec, hdec]

/-- the termination sequence (`__termination_sequence`) -/
def termSeq (bt : BaseType) (term : Term) : Bytes :=
  match term with
  | .zero => if bt = .unicode2 then [0, 0] else [0]
  | .hexff => if bt = .unicode2 then [255, 255] else [255]
  | .eop => []

theorem termSeq_allBytes (bt : BaseType) (term : Term) : AllBytes (termSeq bt term) := by
  intro b hb
  unfold termSeq at hb
  cases term <;> simp only [] at hb
  · split at hb <;> simp at hb <;> omega
  · split at hb <;> simp at hb <;> omega
  · cases hb

/-- the encoder's check (fix 81db20a): the value contains the termination sequence at an admissible position — a multiple
    of its length, at or behind MIN-LENGTH -/
def hasTerm (raw tseq : Bytes) (minLen : Nat) : Bool :=
  (List.range ((raw.length + tseq.length - 1) / tseq.length)).any
    (fun q => decide (q * tseq.length ≥ minLen) && ((raw.drop (q * tseq.length)).take tseq.length == tseq))

/-- a MIN-MAX-LENGTH-TYPE VALUE parameter with its value: `v` the internal (= physical) value, `raw` its bytes -/
structure MMLeaf where
  name : String
  bytePos : Option Nat
  bt : BaseType
  enc : Option Enc
  hl : Bool
  minLen : Nat
  maxLen : Option Nat
  term : Term
  v : IVal
  raw : Bytes

def MMLeaf.tseq (l : MMLeaf) : Bytes := termSeq l.bt l.term
def MMLeaf.dct (l : MMLeaf) : Dct := .minmax l.bt l.enc l.hl l.minLen l.maxLen l.term
def MMLeaf.toParam (l : MMLeaf) : Param := .mk l.name l.bytePos none (.value (.simple l.dct l.bt .identical) none)

/-- what all three situations need: the value's bytes, MIN-LENGTH ≤ length ≤ MAX-LENGTH, and — exactly the encoder's
    acceptance condition — no termination sequence at an admissible position inside the value -/
def MMLeaf.okBase (l : MMLeaf) : Prop :=
  Payload l.bt l.enc l.hl l.v l.raw ∧ l.minLen ≤ l.raw.length ∧ (∀ mx, l.maxLen = some mx → l.raw.length ≤ mx) ∧
  (l.tseq.length > 0 → hasTerm l.raw l.tseq l.minLen = false)

/-- the encoder's effect as a pure function of the situation: payload, then the terminator unless at the end of the PDU
    or at MAX-LENGTH -/
def MMLeaf.encPure (l : MMLeaf) (s : EncState) : EncState :=
  if s.isEndOfPdu = true ∨ some l.raw.length = l.maxLen then (Pair.bytesAt l.raw).enc s
  else rawStep l.tseq ((Pair.bytesAt l.raw).enc s)

theorem bytesAt_enc_cursorBit (bs : Bytes) (s : EncState) (hcb : s.cursorBit = 0) : ((Pair.bytesAt bs).enc s).cursorBit = 0 := by
  simp only [Pair.bytesAt]
  split
  · exact hcb
  · rfl

/-- `emplace_atomic_value(raw, 8·len(raw), A_BYTEFIELD)` at a byte-aligned cursor = the payload pair's encoder -/
theorem emplaceAtomic_bytesAt (bs : Bytes) (hall : AllBytes bs) (hl : Bool) (s : EncState) (hcb : s.cursorBit = 0) :
    emplaceAtomic (.bytes bs) (8 * bs.length) .bytefield none hl none s true = .ok ((), (Pair.bytesAt bs).enc s) := by
  by_cases hne : bs = []
  · subst hne
    simp only [Pair.bytesAt, if_true]
    exact emplaceAtomic_bytes_nil hl s hcb
  · simp only [Pair.bytesAt, hne, if_false]
    exact emplaceAtomic_bytes bs hne hall hl s hcb

/-- **`MinMaxLengthType.encode_into_pdu`** on an accepted value, in every situation -/
theorem encodeDct_minmax (l : MMLeaf) (hok : l.okBase) (s : EncState) (hcb : s.cursorBit = 0)
    (heop : l.term = .eop → s.isEndOfPdu = true)
    (hdiv : ¬ (s.isEndOfPdu = true ∨ some l.raw.length = l.maxLen) → l.raw.length % l.tseq.length = 0) :
    encodeDct l.dct l.v s true = .ok ((), l.encPure s) := by
  obtain ⟨hp, hmin, hmax, hterm⟩ := hok
  have hnmin : ¬ (l.raw.length < l.minLen) := by omega
  have hstep := emplaceAtomic_bytesAt l.raw hp.1 true s hcb
  have hcb1 := bytesAt_enc_cursorBit l.raw s hcb
  have heopS : ((Pair.bytesAt l.raw).enc s).isEndOfPdu = s.isEndOfPdu := by
    simp only [Pair.bytesAt]; split <;> rfl
  -- the part behind the computation of the raw bytes
  have hrest : ∀ (raw : Bytes), raw = l.raw →
      (do
        let n := raw.length
        let dataLen ←
          if n < l.minLen then do odxraise .encode; pure l.minLen
          else match l.maxLen with
            | some mx => if n > mx then do odxraise .encode; pure mx else pure n
            | none => pure n
        let tseq : Bytes := match l.term with
          | .zero => if l.bt = .unicode2 then [0, 0] else [0]
          | .hexff => if l.bt = .unicode2 then [255, 255] else [255]
          | .eop => []
        if tseq.length > 0 ∧ (List.range ((raw.length + tseq.length - 1) / tseq.length)).any
            (fun q => decide (q * tseq.length ≥ l.minLen) && ((raw.drop (q * tseq.length)).take tseq.length == tseq)) then
          odxraise .encode
        emplaceAtomic (.bytes raw) (8 * dataLen) .bytefield none true none
        let s ← getS
        odxassert (l.term ≠ .eop || s.isEndOfPdu)
        if s.isEndOfPdu ∨ some dataLen = l.maxLen then pure ()
        else
          let t : Bytes := match l.term with
            | .zero => if l.bt = .unicode2 then [0, 0] else [0]
            | .hexff => if l.bt = .unicode2 then [255, 255] else [255]
            | .eop => []
          if t.length = 0 then raise .foreign
          else
            odxassert (dataLen % t.length = 0)
            emplaceBytes t none : EncM Unit) s true = .ok ((), l.encPure s) := by
    intro raw hraw
    subst hraw
    have htseq : (match l.term with
          | .zero => if l.bt = .unicode2 then [0, 0] else [0]
          | .hexff => if l.bt = .unicode2 then [255, 255] else [255]
          | .eop => ([] : Bytes)) = l.tseq := rfl
    have hchk : ¬ (l.tseq.length > 0 ∧ (List.range ((l.raw.length + l.tseq.length - 1) / l.tseq.length)).any
            (fun q => decide (q * l.tseq.length ≥ l.minLen) && ((l.raw.drop (q * l.tseq.length)).take l.tseq.length == l.tseq)) = true) := by
      intro ⟨h1, h2⟩
      have := hterm h1
      unfold hasTerm at this
      rw [this] at h2
      cases h2
    have hass : (l.term ≠ .eop || s.isEndOfPdu) = true := by
      cases ht : l.term <;> simp
      exact heop ht
    have ht0 : ¬ (s.isEndOfPdu = true ∨ some l.raw.length = l.maxLen) → ¬ (l.tseq.length = 0) := by
      intro hc h0
      have hnot : ¬ (s.isEndOfPdu = true) := fun h => hc (Or.inl h)
      cases ht : l.term with
      | eop => exact hnot (heop ht)
      | zero => simp only [MMLeaf.tseq, termSeq, ht] at h0; split at h0 <;> cases h0
      | hexff => simp only [MMLeaf.tseq, termSeq, ht] at h0; split at h0 <;> cases h0
    unfold MMLeaf.encPure
    cases hmx : l.maxLen with
    | none =>
      rw [hmx] at hdiv ht0
      simp only [htseq, bind, pure, run_ite, if_neg hnmin, if_neg hchk, run_bind, run_pure, hstep, run_getS, heopS,
        odxassert, hass, if_true]
      by_cases hc : s.isEndOfPdu = true ∨ some l.raw.length = none
      · rw [if_pos hc, if_pos hc]
      · rw [if_neg hc, if_neg hc, if_neg (ht0 hc)]
        simp only [hdiv hc, decide_true, if_true, run_pure]
        exact emplaceBytes_raw _ _ hcb1 true
    | some mx =>
      rw [hmx] at hdiv ht0
      have hle := hmax mx hmx
      have hgt : ¬ (l.raw.length > mx) := by omega
      simp only [htseq, bind, pure, run_ite, if_neg hnmin, if_neg hchk, if_neg hgt, run_bind, run_pure, hstep, run_getS, heopS,
        odxassert, hass, if_true]
      by_cases hc : s.isEndOfPdu = true ∨ some l.raw.length = some mx
      · rw [if_pos hc, if_pos hc]
      · rw [if_neg hc, if_neg hc, if_neg (ht0 hc)]
        simp only [hdiv hc, decide_true, if_true, run_pure]
        exact emplaceBytes_raw _ _ hcb1 true
  rcases hp.2 with ⟨hbt, hv, _⟩ | ⟨hs, codec, cps, hcodec, hv, henc, _⟩
  · have := hrest l.raw rfl
    simp only [MMLeaf.dct, encodeDct, hv, bind, run_bind, pure, run_pure] at this ⊢
    exact this
  · have := hrest l.raw rfl
    simp only [MMLeaf.dct, encodeDct, hv, hcodec, henc, bind, run_bind, pure, run_pure] at this ⊢
    exact this


/-! ### the decoder -/

theorem termSeq_length (bt : BaseType) (term : Term) :
    (termSeq bt term).length = 0 ∨ (termSeq bt term).length = 1 ∨ (termSeq bt term).length = 2 := by
  unfold termSeq
  cases term <;> simp only [] <;> first | (split <;> simp) | simp

/-- a window of the message inside the value's bytes is the same window of the value -/
theorem take_drop_window (msg raw : Bytes) (orig p k : Nat) (hraw : (msg.drop orig).take raw.length = raw)
    (hk : p + k ≤ raw.length) : (msg.drop (orig + p)).take k = (raw.drop p).take k := by
  have h1 : raw.drop p = (msg.drop (orig + p)).take (raw.length - p) := by
    conv => lhs; rw [← hraw]
    rw [List.drop_take, List.drop_drop]
  rw [h1, List.take_take]
  congr 1
  omega

/-- the encoder's check, as a statement about positions: no admissible position inside the value carries the
    termination sequence -/
theorem hasTerm_false (raw tseq : Bytes) (minLen : Nat) (ht : 0 < tseq.length) (h : hasTerm raw tseq minLen = false)
    (p : Nat) (hmin : minLen ≤ p) (hal : p % tseq.length = 0) (hp : p < raw.length) :
    (raw.drop p).take tseq.length ≠ tseq := by
  intro heq
  have hq : p / tseq.length * tseq.length = p := by
    have := Nat.div_add_mod p tseq.length
    rw [hal, Nat.add_zero, Nat.mul_comm] at this
    exact this
  have hmem : p / tseq.length ∈ List.range ((raw.length + tseq.length - 1) / tseq.length) := by
    rw [List.mem_range, Nat.lt_iff_add_one_le, Nat.le_div_iff_mul_le ht, Nat.add_mul, hq]
    omega
  have : hasTerm raw tseq minLen = true := by
    unfold hasTerm
    rw [List.any_eq_true]
    refine ⟨p / tseq.length, hmem, ?_⟩
    rw [hq]
    simp [hmin, heq]
  rw [h] at this
  cases this

/-- `match o with | some p => f p | none => a` as a function (statements about the decoder's `match`es are phrased with
    it: every declaration gets its own auxiliary matcher, which `rw` does not see through) -/
def optElim (o : Option Nat) (f : Nat → Nat) (a : Nat) : Nat :=
  match o with
  | some p => f p
  | none => a

/-- the `Option Nat` matches of `decodeDct` -/
theorem decodeDct_match_optElim (o : Option Nat) (f : Nat → Nat) (g : Unit → Nat) :
    decodeDct.match_3 (fun _ => Nat) o f g = optElim o f (g ()) := by
  cases o <;> rfl

/-- the `Term` match of `decodeDct` -/
theorem decodeDct_match_term (bt : BaseType) (term : Term) :
    decodeDct.match_1 (fun _ => Bytes) term (fun _ => if bt = .unicode2 then [0, 0] else [0])
      (fun _ => if bt = .unicode2 then [255, 255] else [255]) (fun _ => []) = termSeq bt term := by
  cases term <;> rfl

/-- the length the decoder determines: the terminator search and the fall-backs return the length of the value, in each
    of the three situations -/
theorem mm_byteLen (l : MMLeaf) (hok : l.okBase) (d : DecState)
    (hfit : d.cursorByte + l.raw.length ≤ d.msg.length)
    (hraw : (d.msg.drop d.cursorByte).take l.raw.length = l.raw) (k : Nat)
    (hsit : (k = l.tseq.length ∧ 0 < l.tseq.length ∧ l.raw.length % l.tseq.length = 0 ∧
              d.cursorByte + l.raw.length + l.tseq.length ≤ d.msg.length ∧
              (d.msg.drop (d.cursorByte + l.raw.length)).take l.tseq.length = l.tseq ∧
              (∀ mx, l.maxLen = some mx → l.raw.length + l.tseq.length ≤ mx)) ∨
            (k = 0 ∧ l.maxLen = some l.raw.length) ∨
            (k = 0 ∧ d.cursorByte + l.raw.length = d.msg.length)) :
    let maxPos := optElim l.maxLen (fun mx => min d.msg.length (d.cursorByte + mx)) d.msg.length
    (l.term = .eop → maxPos - d.cursorByte = l.raw.length) ∧
    (l.term ≠ .eop → optElim (findTerm d.msg l.tseq d.cursorByte maxPos (d.msg.length + 1) (d.cursorByte + l.minLen))
      (fun p => p - d.cursorByte) (maxPos - d.cursorByte) = l.raw.length) := by
  obtain ⟨hp, hmin, hmax, hterm⟩ := hok
  intro maxPos
  have htpos : l.term ≠ .eop → 0 < l.tseq.length := by
    intro hne
    cases ht : l.term with
    | eop => exact absurd ht hne
    | zero => simp only [MMLeaf.tseq, termSeq, ht]; split <;> simp
    | hexff => simp only [MMLeaf.tseq, termSeq, ht]; split <;> simp
  have hmp : maxPos ≤ d.msg.length := by
    show optElim l.maxLen (fun mx => min d.msg.length (d.cursorByte + mx)) d.msg.length ≤ _
    cases l.maxLen <;> simp only [optElim] <;> omega
  -- no aligned terminator inside the value
  have hinside : l.term ≠ .eop → ∀ q, d.cursorByte + l.minLen ≤ q → q + l.tseq.length ≤ d.cursorByte + l.raw.length →
      ¬ TermAt d.msg l.tseq d.cursorByte q := by
    intro hne q h1 h2 ⟨hm, hal⟩
    have ht := htpos hne
    have hw := take_drop_window d.msg l.raw d.cursorByte (q - d.cursorByte) l.tseq.length hraw (by omega)
    rw [show d.cursorByte + (q - d.cursorByte) = q by omega, hm] at hw
    exact hasTerm_false l.raw l.tseq l.minLen ht (hterm ht) (q - d.cursorByte) (by omega) hal (by omega) hw.symm
  rcases hsit with ⟨_, ht, hdiv, hlen, hthere, hmx⟩ | ⟨_, hfull⟩ | ⟨_, hend⟩
  · -- the terminator behind the value is found
    have hstop : d.cursorByte + l.raw.length + l.tseq.length ≤ maxPos := by
      show _ ≤ optElim l.maxLen (fun mx => min d.msg.length (d.cursorByte + mx)) d.msg.length
      cases hm : l.maxLen with
      | none => exact hlen
      | some mx => have := hmx mx hm; simp only [optElim]; omega
    refine ⟨?_, ?_⟩
    · intro he
      simp only [MMLeaf.tseq, termSeq, he] at ht
      cases ht
    · intro hne
      have hfound := findTerm_eq_some d.msg l.tseq d.cursorByte maxPos (d.msg.length + 1) (d.cursorByte + l.minLen)
        (d.cursorByte + l.raw.length) (by omega) (by omega) hstop
        ⟨hthere, by rw [Nat.add_sub_cancel_left]; exact hdiv⟩
        (by
          intro q h1 h2 hT
          by_cases hin : q + l.tseq.length ≤ d.cursorByte + l.raw.length
          · exact hinside hne q h1 hin hT
          · -- straddling the end of the value: misaligned
            have hal := hT.2
            rcases termSeq_length l.bt l.term with h | h | h <;>
              (have h' : l.tseq.length = _ := h; rw [h'] at hal hdiv hin ht; omega))
      rw [hfound]
      simp only [optElim]
      omega
  · have hmaxPos : maxPos = d.cursorByte + l.raw.length := by
      show optElim l.maxLen (fun mx => min d.msg.length (d.cursorByte + mx)) d.msg.length = _
      rw [hfull]; simp only [optElim]; omega
    refine ⟨fun _ => by omega, fun hne => ?_⟩
    rw [findTerm_eq_none d.msg l.tseq d.cursorByte maxPos _ _ (by
      intro q h1 h2; exact hinside hne q h1 (by omega))]
    simp only [optElim]
    omega
  · have hmaxPos : maxPos = d.cursorByte + l.raw.length := by
      show optElim l.maxLen (fun mx => min d.msg.length (d.cursorByte + mx)) d.msg.length = _
      cases hm : l.maxLen with
      | none => simp only [optElim]; omega
      | some mx => have := hmax mx hm; simp only [optElim]; omega
    refine ⟨fun _ => by omega, fun hne => ?_⟩
    rw [findTerm_eq_none d.msg l.tseq d.cursorByte maxPos _ _ (by
      intro q h1 h2; exact hinside hne q h1 (by omega))]
    simp only [optElim]
    omega


/-- **`MinMaxLengthType.decode_from_pdu`** on a message that carries the value's bytes at the cursor, in each of the three
    situations: `k` = the number of bytes skipped behind the value -/
theorem decodeDct_minmax (l : MMLeaf) (hok : l.okBase) (d : DecState) (hcb : d.cursorBit = 0) (hall : AllBytes d.msg)
    (hfit : d.cursorByte + l.raw.length ≤ d.msg.length)
    (hraw : (d.msg.drop d.cursorByte).take l.raw.length = l.raw) (k : Nat)
    (hsit : (k = l.tseq.length ∧ 0 < l.tseq.length ∧ l.raw.length % l.tseq.length = 0 ∧
              d.cursorByte + l.raw.length + l.tseq.length ≤ d.msg.length ∧
              (d.msg.drop (d.cursorByte + l.raw.length)).take l.tseq.length = l.tseq ∧
              (∀ mx, l.maxLen = some mx → l.raw.length + l.tseq.length ≤ mx)) ∨
            (k = 0 ∧ l.maxLen = some l.raw.length) ∨
            (k = 0 ∧ d.cursorByte + l.raw.length = d.msg.length)) :
    decodeDct l.dct d true = .ok (l.v, { d with cursorByte := d.cursorByte + l.raw.length + k, cursorBit := 0 }) := by
  obtain ⟨hlenE, hlenT⟩ := mm_byteLen l hok d hfit hraw k hsit
  have hext := extractAtomic_payload hok.1 d hcb hfit hall hraw
  have hmin : ¬ (d.cursorByte + l.minLen > d.msg.length) := by have := hok.2.1; omega
  have htseq : (match l.term with
        | .zero => if l.bt = .unicode2 then [0, 0] else [0]
        | .hexff => if l.bt = .unicode2 then [255, 255] else [255]
        | .eop => ([] : Bytes)) = l.tseq := rfl
  by_cases hte : l.term = .eop
  · have hE := hlenE hte
    have hk : k = 0 := by
      rcases hsit with ⟨_, ht, _⟩ | ⟨h, _⟩ | ⟨h, _⟩
      · simp only [MMLeaf.tseq, termSeq, hte] at ht; cases ht
      · exact h
      · exact h
    subst hk
    simp only [MMLeaf.dct, decodeDct, bind, run_bind, run_getS, odxassert, hcb, decide_true, if_true, run_pure, run_ite,
      if_neg hmin, hte, ne_eq, not_true_eq_false, if_false, decodeDct_match_optElim, decodeDct_match_term]
    rw [hE, hext]
    rfl
  · have hT := hlenT hte
    simp only [MMLeaf.dct, decodeDct, bind, run_bind, run_getS, odxassert, hcb, decide_true, if_true, run_pure, run_ite,
      if_neg hmin, hte, ne_eq, not_false_eq_true, decodeDct_match_optElim, decodeDct_match_term]
    simp only [MMLeaf.tseq] at hT
    rw [hT, hext]
    simp only [run_modifyS, pure, run_pure]
    rcases hsit with ⟨hk, ht, _, hlen, _, hmx⟩ | ⟨hk, hfull⟩ | ⟨hk, hend⟩
    · have hc : (¬ d.cursorByte + l.raw.length = d.msg.length ∧ ¬ some (d.cursorByte + l.raw.length - d.cursorByte) = l.maxLen) := by
        refine ⟨by omega, ?_⟩
        intro h
        have := hmx _ h.symm
        omega
      rw [if_pos hc, hk]
      rfl
    · have hc : ¬ (¬ d.cursorByte + l.raw.length = d.msg.length ∧ ¬ some (d.cursorByte + l.raw.length - d.cursorByte) = l.maxLen) := by
        intro ⟨_, h⟩
        apply h
        rw [hfull, Nat.add_sub_cancel_left]
      rw [if_neg hc, hk]
      rfl
    · have hc : ¬ (¬ d.cursorByte + l.raw.length = d.msg.length ∧ ¬ some (d.cursorByte + l.raw.length - d.cursorByte) = l.maxLen) := by
        intro ⟨h, _⟩
        exact h hend
      rw [if_neg hc, hk]
      rfl

end OdxVerif.Codec
