import OdxVerif.Proofs.CompBits3U
/-! Re-encoding (property C03) for UTF-16LE leaves inside field items and multiplexer cases, task W29: `Proofs/CompBits2Re.lean`
    over `Desc2U` (`Proofs/CompBits3U.lean`). -/
namespace OdxVerif.Codec
open OdxVerif.Bits OdxVerif.OdxM

mutual
/-- every parameter's value is supplied — the shape of a decoded value tree (`Desc2.full` for a `base` description; a UTF-16LE
    leaf is always supplied, as the code points the decoder returns) -/
def Desc2U.full : Desc2U → Prop
  | .base d => d.full
  | .u16le _ _ _ => True
  | .struct _ _ _ kids => Descs2U.full kids
  | .staticField _ _ _ _ _ items => Descss2U.full items
  | .dynLenField _ _ _ _ _ items => Descss2U.full items
  | .eopField _ _ _ _ _ _ items => Descss2U.full items
  | .mux _ _ _ kids => Descs2U.full kids
  | .endMarkerEop _ _ _ _ _ items => Descss2U.full items
  | .endMarkerMid _ _ _ _ _ items => Descss2U.full items
def Descs2U.full : List Desc2U → Prop
  | [] => True
  | d :: ds => d.full ∧ Descs2U.full ds
def Descss2U.full : List (List Desc2U) → Prop
  | [] => True
  | k :: ks => Descs2U.full k ∧ Descss2U.full ks
end

mutual
theorem Desc2U.sup_eq_val : (d : Desc2U) → d.wf → d.full → d.mc.c.sup = some d.mc.c.pair.val
  | .base d, _, h => Desc2.sup_eq_val d (by simpa only [Desc2U.full] using h)
  | .u16le u cps bs, hw, _ => by
    simp only [Desc2U.wf] at hw
    show some (PVal.atom (.str cps)) = some (Comp.ofU16LE u cps bs).pair.val
    rw [Comp.ofU16LE_val u cps bs hw.2]
  | .struct name bp bso kids, hw, h => by
    simp only [Desc2U.full] at h
    simp only [Desc2U.wf] at hw
    have ih := Descs2U.values_eq_val kids hw.1 h
    show some (DComp.structO bso (Descs2U.comps kids)).sup = some (DComp.structO bso (Descs2U.comps kids)).pair.val
    rw [DComp.structO_sup, DComp.structO_val, ih]
  | .staticField name bp n bso shape items, hw, h => by
    simp only [Desc2U.full] at h
    simp only [Desc2U.wf] at hw
    have ih := Descss2U.sups_eq_vals bso items hw.1 h
    show some (PVal.list (DComps.sups (itemsO bso (Descss2U.mcss items)))) =
      some (DComp.staticField n (.struct bso shape) (itemsO bso (Descss2U.mcss items))).pair.val
    rw [DComp.staticField_val, ih]
  | .dynLenField name bp l bso shape items, hw, h => by
    simp only [Desc2U.full] at h
    simp only [Desc2U.wf] at hw
    have ih := Descss2U.sups_eq_vals bso items hw.1 h
    show some (PVal.list (DComps.sups (itemsO bso (Descss2U.mcss items)))) =
      some (DComp.dynLenField l (.struct bso shape) (itemsO bso (Descss2U.mcss items))).pair.val
    rw [DComp.dynLenField_val, ih]
  | .eopField name bp mn mx bso shape items, hw, h => by
    simp only [Desc2U.full] at h
    simp only [Desc2U.wf] at hw
    have ih := Descss2U.sups_eq_vals bso items hw.1 h
    show some (PVal.list (DComps.sups (itemsO bso (Descss2U.mcss items)))) =
      some (DComp.eopField mn mx (.struct bso shape) (itemsO bso (Descss2U.mcss items))).pair.val
    rw [DComp.eopField_val, ih]
  | .mux name bp m kids, hw, h => by
    simp only [Desc2U.full] at h
    simp only [Desc2U.wf] at hw
    have ih := Descs2U.values_eq_val kids hw.1 h
    show some (PVal.pair m.caseName (PVal.dict (Comps.values (Descs2U.comps kids)))) =
      some (PVal.pair m.caseName (PVal.dict (Comps.pair (Descs2U.comps kids)).val))
    rw [ih]
  | .endMarkerEop name bp l bso shape items, hw, h => by
    simp only [Desc2U.full] at h
    simp only [Desc2U.wf] at hw
    have ih := Descss2U.sups_eq_vals bso items hw.1 h
    show some (PVal.list (DComps.sups (itemsO bso (Descss2U.mcss items)))) =
      some (DComp.endMarkerEop l (.struct bso shape) (itemsO bso (Descss2U.mcss items))).pair.val
    rw [DComp.endMarkerEop_val, ih]
  | .endMarkerMid name bp l bso shape items, hw, h => by
    simp only [Desc2U.full] at h
    simp only [Desc2U.wf] at hw
    have ih := Descss2U.sups_eq_vals bso items hw.1 h
    show some (PVal.list (DComps.sups (itemsO bso (Descss2U.mcss items)))) =
      some (DComp.endMarkerMid l (.struct bso shape) (itemsO bso (Descss2U.mcss items))).pair.val
    rw [DComp.endMarkerMid_val, ih]
theorem Descs2U.values_eq_val : (ds : List Desc2U) → Descs2U.wf ds → Descs2U.full ds →
    Comps.values (Descs2U.comps ds) = (Comps.pair (Descs2U.comps ds)).val
  | [], _, _ => rfl
  | d :: ds, hw, h => by
    simp only [Descs2U.full] at h
    simp only [Descs2U.wf] at hw
    have h1 := Desc2U.sup_eq_val d hw.1 h.1
    have h2 := Descs2U.values_eq_val ds hw.2 h.2
    show Comps.values (d.mc.c :: Descs2U.comps ds) = (Comps.pair (d.mc.c :: Descs2U.comps ds)).val
    simp only [Comps.values, Comps.pair_val_cons, h1, h2]
theorem Descss2U.sups_eq_vals (bso : Option Nat) : (items : List (List Desc2U)) → Descss2U.wf items → Descss2U.full items →
    DComps.sups (itemsO bso (Descss2U.mcss items)) = DComps.vals (itemsO bso (Descss2U.mcss items))
  | [], _, _ => rfl
  | k :: ks, hw, h => by
    simp only [Descss2U.full] at h
    simp only [Descss2U.wf] at hw
    have h1 := Descs2U.values_eq_val k hw.1 h.1
    have h2 := Descss2U.sups_eq_vals bso ks hw.2 h.2
    show (DComp.structO bso (Descs2U.comps k)).sup :: DComps.sups (itemsO bso (Descss2U.mcss ks)) =
      (DComp.structO bso (Descs2U.comps k)).pair.val :: DComps.vals (itemsO bso (Descss2U.mcss ks))
    rw [h2, DComp.structO_sup, DComp.structO_val, h1]
end

/-- a fully supplied top-level description is no MATCHING-REQUEST-PARAM: well-formed in the nested sense -/
theorem Descs2U.wf_of_wfTop_full (trig : Option Bytes) : (ds : List Desc2U) → Descs2U.wfTop trig ds → Descs2U.full ds → Descs2U.wf ds
  | [], _, _ => trivial
  | d :: ds, hw, h => by
    simp only [Descs2U.full] at h
    refine ⟨?_, Descs2U.wf_of_wfTop_full trig ds hw.2 h.2⟩
    rcases Desc2U.wfTop_cases trig d hw.1 with h' | ⟨n, bp, rp, bl, t, rfl, _⟩
    · exact h'
    · exact absurd h.1 (by simp [Desc2U.full, Desc2.full])

/-- for a fully supplied description (no MATCHING-REQUEST-PARAM), what is handed to `encode` is what `decode` returns -/
theorem Descs2U.supplied_eq_decoded (trig : Option Bytes) (ds : List Desc2U) (hw : Descs2U.wfTop trig ds) (h : Descs2U.full ds) :
    Descs2U.supplied ds = Descs2U.decoded ds :=
  Descs2U.values_eq_val ds (Descs2U.wf_of_wfTop_full trig ds hw h) h

/-- **re-encoding, pure level** (`descs2_reencode_pure` over `Desc2U`): if every entry of the layout reads in `pdu` as its
    prescribed pattern (UTF-16LE leaf: the UTF-16LE bytes of the string), the entries are
    pairwise disjoint, claim every bit of `pdu`, and nothing the encoder touches lies beyond `pdu`, then the pure encoder
    produces `pdu`, without warning -/
theorem descs2U_reencode_pure (trig : Option Bytes) (ds : List Desc2U) (hwf : Descs2U.wfTop trig ds) (pdu : Bytes) (hall : AllBytes pdu)
    (hbits : ∀ e ∈ Descs2U.layout ds, ∀ j, j < e.bl → getBit pdu (absBit e.pos e.k e.hl (j + e.bp)) = e.raw.testBit j)
    (hdisj : LDisj ((Descs2U.layout ds).map Ent2.geo)) (hcover : ∀ a, a < 8 * pdu.length → ∃ e ∈ Descs2U.layout ds, e.claims a)
    (hext : Descs2U.extent ds ≤ pdu.length) :
    ((Comps.pair (Descs2U.comps ds)).enc {}).msg = pdu ∧ ((Comps.pair (Descs2U.comps ds)).enc {}).warn = 0 := by
  have hw := descs2U_pure_nowarn_of trig ds hwf hdisj
  refine ⟨?_, hw⟩
  have hlen := descs2U_pure_length trig ds hwf
  have hF := Descs2U.footTop trig ds hwf
  have hge : pdu.length ≤ Descs2U.extent ds := by
    cases hlt : decide (pdu.length ≤ Descs2U.extent ds) with
    | true => exact of_decide_eq_true hlt
    | false =>
      exfalso
      have hlt' := of_decide_eq_false hlt
      obtain ⟨e, he, hc⟩ := hcover (8 * Descs2U.extent ds) (by omega)
      obtain ⟨hewf, hle⟩ := hF.within 0 0 e.geo (List.mem_map.mpr ⟨e, he, rfl⟩)
      have := (Ent.claims_bytes e.geo hewf _ hc).2
      have hle' : e.geo.pos + e.geo.k ≤ Descs2U.extent ds := hle
      omega
  apply eq_of_getBit _ _ (descs2U_pure_allBytes trig ds hwf) hall (by omega)
  intro a
  by_cases hcl : ∃ e ∈ Descs2U.layout ds, e.claims a
  · obtain ⟨e, he, j, hj, rfl⟩ := hcl
    have := descs2U_pure_inside trig ds hwf hdisj e he j hj
    rw [← hbits e he j hj] at this
    exact this
  · rw [descs2U_pure_outside trig ds hwf a (fun e he hc => hcl ⟨e, he, hc⟩)]
    have hnot : ¬ a < 8 * pdu.length := fun h => hcl (hcover a h)
    unfold getBit
    rw [List.getD_eq_getElem?_getD, List.getElem?_eq_none (by omega)]
    simp

theorem descs2U_cur_eq (trig : Option Bytes) (ds : List Desc2U) (hwf : Descs2U.wfTop trig ds) :
    Comps.cur (Descs2U.comps ds) 0 0 = Descs2U.endCursor ds := by
  rw [← descs2U_pure_cursor trig ds hwf]
  exact (MComps.enc_cursor (Descs2U.mcs ds) (Descs2U.okAllTop trig ds hwf) {}).symm

end OdxVerif.Codec
