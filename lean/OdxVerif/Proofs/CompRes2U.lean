import OdxVerif.Proofs.CompExtDescribed
import OdxVerif.Proofs.CompResU16
/-! Compositional components, extension W25 (B): **further leaf kinds below fields and multiplexers.**

    `Described2` (`Proofs/CompExtDescribed.lean`) fixes its leaves.  `Described2X L` is the same closure — STRUCTUREs with or
    without BYTE-SIZE, STATIC-FIELD, DYNAMIC-LENGTH-FIELD, END-OF-PDU-FIELD, MULTIPLEXER, DYNAMIC-ENDMARKER-FIELD, with the same
    side conditions — over an ARBITRARY class of leaves `L : Comp → Bool → Prop`; it is sound (`Described2X.ok`) as soon as every
    leaf is a component in the restricted sense with a decoder precondition of the END-OF-PDU kind (`Comp.OkM` for every state
    property + `Comp.EndOk`): the proof of `Described2.ok` uses nothing else of the leaves.
    `Described2U` = `Described2X` over the leaves `Described2` (all of it) + the tenth leaf kind, A_UNICODE2STRING with low-high
    byte order (`Comp.ofU16LE`, `Proofs/CompResU16.lean`): UTF-16LE strings as members of field items and multiplexer cases, to
    any depth.
    NOT an instance: RESERVED / NRC-CONST (`Comp.reserved`, `Comp.nrcConst`) — they are not `Comp.EndOk` (their decoder
    precondition is the wire condition, which holds neither "when the component ends where the message ends" nor for free);
    `EndOk.trivial` is demanded of EVERY member of an item by the field closure lemmas (`structItemsS_ok`), whatever its position. -/
namespace OdxVerif.Codec
open OdxVerif.Bits OdxVerif.OdxM

/-- the closure of `Described2` over an arbitrary class of leaves -/
inductive Described2X (L : Comp → Bool → Prop) : Comp → Bool → Prop
  | leaf (g : Comp) (mid : Bool) : L g mid → Described2X L g mid
  | struct (name : String) (bp : Option Nat) (bso : Option Nat) (ms : List MComp) :
      (∀ m ∈ ms, Described2X L m.c m.mid) → Comps.namesOk (MComps.cs ms) → Comps.eopLast (MComps.cs ms) →
      sizeSide bso (MComps.cs ms) →
      Described2X L (Comp.ofValue name bp (DComp.structO bso (MComps.cs ms))) (MComps.lastMid ms)
  | staticField (name : String) (bp : Option Nat) (itemSize : Nat) (bso : Option Nat) (shape : List Param)
      (items : List (List MComp)) :
      (∀ k ∈ items, ∀ m ∈ k, Described2X L m.c m.mid) →
      (∀ k ∈ items, itemSideS bso shape k ∧ (DComp.structO bso (MComps.cs k)).size ≤ itemSize) →
      Described2X L (Comp.ofValue name bp (DComp.staticField itemSize (.struct bso shape) (itemsO bso items))) false
  | dynLenField (name : String) (bp : Option Nat) (l : DynLayout) (bso : Option Nat) (shape : List Param)
      (items : List (List MComp)) :
      (∀ k ∈ items, ∀ m ∈ k, Described2X L m.c m.mid) →
      (∀ k ∈ items, itemSideS bso shape k ∧ 1 ≤ (DComp.structO bso (MComps.cs k)).size) → l.ok items.length →
      Described2X L (Comp.ofValue name bp (DComp.dynLenField l (.struct bso shape) (itemsO bso items))) (itemsLastMid items)
  | eopField (name : String) (bp : Option Nat) (mn mx : Option Nat) (bso : Option Nat) (shape : List Param)
      (items : List (List MComp)) :
      (∀ k ∈ items, ∀ m ∈ k, Described2X L m.c m.mid) →
      (∀ k ∈ items, itemSideS bso shape k ∧ 1 ≤ (DComp.structO bso (MComps.cs k)).size) →
      (∀ k, items.getLast? = some k → MComps.midNotLast k) →
      Described2X L (Comp.ofValue name bp (DComp.eopField mn mx (.struct bso shape) (itemsO bso items))) false
  | mux (name : String) (bp : Option Nat) (m : MuxLayout) (ms : List MComp) :
      (∀ x ∈ ms, Described2X L x.c x.mid) → Comps.namesOk (MComps.cs ms) → Comps.eopLast (MComps.cs ms) →
      m.ok (.struct none (Comps.toParams (MComps.cs ms))) →
      Described2X L (Comp.ofValue name bp (DComp.mux m (DComp.struct (MComps.cs ms)))) (MComps.lastMid ms)
  | endMarkerEop (name : String) (bp : Option Nat) (l : EmLayout) (bso : Option Nat) (shape : List Param)
      (items : List (List MComp)) :
      (∀ k ∈ items, ∀ m ∈ k, Described2X L m.c m.mid) → l.ok →
      (∀ k ∈ items, itemSideS bso shape k ∧ 1 ≤ (DComp.structO bso (MComps.cs k)).size ∧
        l.miss (DComp.structO bso (MComps.cs k))) →
      (∀ k, items.getLast? = some k → MComps.midNotLast k) →
      Described2X L (Comp.ofValue name bp (DComp.endMarkerEop l (.struct bso shape) (itemsO bso items))) false
  | endMarkerMid (name : String) (bp : Option Nat) (l : EmLayout) (bso : Option Nat) (shape : List Param)
      (items : List (List MComp)) :
      (∀ k ∈ items, ∀ m ∈ k, Described2X L m.c m.mid) → l.ok →
      (∀ k ∈ items, itemSideS bso shape k ∧ 1 ≤ (DComp.structO bso (MComps.cs k)).size ∧
        l.miss (DComp.structO bso (MComps.cs k))) →
      Described2X L (Comp.ofValue name bp (DComp.endMarkerMid l (.struct bso shape) (itemsO bso items))) true

/-- **soundness of the closure**, for any class of leaves that are components with END-OF-PDU-kind decoder preconditions -/
theorem Described2X.ok {L : Comp → Bool → Prop} (hL : ∀ g mid, L g mid → (∀ P, g.OkM mid P) ∧ g.EndOk) {g : Comp} {mid : Bool}
    (h : Described2X L g mid) : (∀ P, g.OkM mid P) ∧ g.EndOk := by
  induction h with
  | leaf g mid hl => exact hL g mid hl
  | struct name bp bso ms _ hn hlast hsz ih =>
    have hok := MComps.okAll_of_forall (fun _ => True) ms (fun m hm => (ih m hm).1 _)
    have hend : Comps.endOkAll (MComps.cs ms) := Comps.endOkAll_of_forall _ (fun g hg => by
      obtain ⟨m, hm, rfl⟩ := MComps.mem_cs hg
      exact (ih m hm).2)
    exact ⟨fun P => Comp.ofValueM_ok name bp _ _ (DComp.structOM_okM bso ms hok hn hlast hsz) P,
      Comp.ofValue_endOk name bp _ (DComp.structOM_endOk bso ms hok hend hlast hsz)⟩
  | staticField name bp n bso shape items _ hside ih =>
    have hitems := structItemsS_ok bso shape items ih (fun k hk => (hside k hk).1)
    refine ⟨fun P => (Comp.ofValue_ok name bp _ (DComp.staticFieldM_ok n _ _ ?_)).toM _ P,
      Comp.ofValue_endOk name bp _ (DComp.staticField_endOk n _ _)⟩
    intro c hc
    refine ⟨(hitems c hc).1, (hitems c hc).2, ?_⟩
    obtain ⟨k, hk, rfl⟩ := itemsO_mem hc
    exact (hside k hk).2
  | dynLenField name bp l bso shape items _ hside hl ih =>
    have hitems := structItemsS_ok bso shape items ih (fun k hk => (hside k hk).1)
    have hlastM := itemsO_lastM bso shape items ih (fun k hk => (hside k hk).1)
    refine ⟨fun P => Comp.ofValueM_ok name bp _ _ (DComp.dynLenFieldM_okM l _ _ _ (by simpa [itemsO] using hl) ?_ hlastM) P,
      Comp.ofValue_endOk name bp _ (DComp.dynLenField_endOk l _ _)⟩
    intro c hc
    refine ⟨(hitems c hc).1, (hitems c hc).2, ?_⟩
    obtain ⟨k, hk, rfl⟩ := itemsO_mem hc
    exact (hside k hk).2
  | eopField name bp mn mx bso shape items _ hside hlm ih =>
    have hitems := structItemsS_ok bso shape items ih (fun k hk => (hside k hk).1)
    have hlastM := itemsO_lastM bso shape items ih (fun k hk => (hside k hk).1)
    rw [itemsLastMid_false items hlm] at hlastM
    refine ⟨fun P => (Comp.ofValue_ok name bp _ (DComp.eopFieldM_ok mn mx _ _ ?_ hlastM)).toM _ P,
      Comp.ofValue_endOk name bp _ (DComp.eopField_endOk mn mx _ _)⟩
    intro c hc
    refine ⟨(hitems c hc).1, (hitems c hc).2, ?_⟩
    obtain ⟨k, hk, rfl⟩ := itemsO_mem hc
    exact (hside k hk).2
  | mux name bp m ms _ hn hlast hm ih =>
    have hok := MComps.okAll_of_forall (fun _ => True) ms (fun x hx => (ih x hx).1 _)
    have hend : Comps.endOkAll (MComps.cs ms) := Comps.endOkAll_of_forall _ (fun g hg => by
      obtain ⟨x, hx, rfl⟩ := MComps.mem_cs hg
      exact (ih x hx).2)
    exact ⟨fun P => Comp.ofValueM_ok name bp _ _ (DComp.mux_okM m _ _ (DComp.structM_okM ms hok hn hlast) hm) P,
      Comp.ofValue_endOk name bp _ (DComp.mux_endOk m _ (DComp.structM_endOk ms hok hend hlast))⟩
  | endMarkerEop name bp l bso shape items _ hl hside hlm ih =>
    have hitems := structItemsS_ok bso shape items ih (fun k hk => (hside k hk).1)
    have hlastM := itemsO_lastM bso shape items ih (fun k hk => (hside k hk).1)
    rw [itemsLastMid_false items hlm] at hlastM
    refine ⟨fun P => (Comp.ofValue_ok name bp _ (DComp.endMarkerEop_ok l hl _ _ ?_ hlastM)).toM _ P,
      Comp.ofValue_endOk name bp _ (DComp.endMarkerEop_endOk l _ _)⟩
    intro c hc
    refine ⟨(hitems c hc).1, (hitems c hc).2, ?_⟩
    obtain ⟨k, hk, rfl⟩ := itemsO_mem hc
    exact (hside k hk).2
  | endMarkerMid name bp l bso shape items _ hl hside ih =>
    have hitems := structItemsS_ok bso shape items ih (fun k hk => (hside k hk).1)
    refine ⟨fun P => Comp.ofValueM_ok name bp _ true (DComp.endMarkerMid_ok l hl _ _ ?_) P,
      Comp.ofValue_endOk name bp _ (DComp.endMarkerMid_endOk l _ _)⟩
    intro c hc
    refine ⟨(hitems c hc).1, (hitems c hc).2, ?_⟩
    obtain ⟨k, hk, rfl⟩ := itemsO_mem hc
    exact (hside k hk).2

/-- the closure is monotone in the class of leaves -/
theorem Described2X.mono {L M : Comp → Bool → Prop} (hLM : ∀ g mid, L g mid → M g mid) {g : Comp} {mid : Bool}
    (h : Described2X L g mid) : Described2X M g mid := by
  induction h with
  | leaf g mid hl => exact .leaf g mid (hLM g mid hl)
  | struct name bp bso ms _ hn hlast hsz ih => exact .struct name bp bso ms ih hn hlast hsz
  | staticField name bp n bso shape items _ hside ih => exact .staticField name bp n bso shape items ih hside
  | dynLenField name bp l bso shape items _ hside hl ih => exact .dynLenField name bp l bso shape items ih hside hl
  | eopField name bp mn mx bso shape items _ hside hlm ih => exact .eopField name bp mn mx bso shape items ih hside hlm
  | mux name bp m ms _ hn hlast hm ih => exact .mux name bp m ms ih hn hlast hm
  | endMarkerEop name bp l bso shape items _ hl hside hlm ih => exact .endMarkerEop name bp l bso shape items ih hl hside hlm
  | endMarkerMid name bp l bso shape items _ hl hside ih => exact .endMarkerMid name bp l bso shape items ih hl hside

/-! ### the instance: UTF-16LE leaves -/

/-- the leaves of `Described2U`: every `Described2` parameter, and VALUE parameters over a standard-length A_UNICODE2STRING
    object with low-high byte order (no encoding or UCS-2, whole bytes; the code points encode to the bytes that fill the object) -/
inductive LeafU : Comp → Bool → Prop
  | base (g : Comp) (mid : Bool) : Described2 g mid → LeafU g mid
  | u16le (u : U16) (cps : List Nat) (bs : Bytes) : u.ok → u.inRange cps bs → LeafU (Comp.ofU16LE u cps bs) false

theorem LeafU.ok {g : Comp} {mid : Bool} (h : LeafU g mid) : (∀ P, g.OkM mid P) ∧ g.EndOk := by
  cases h with
  | base g mid hd => exact hd.ok
  | u16le u cps bs hu hr => exact ⟨fun P => (Comp.ofU16LE_ok u cps bs hu hr).toM _ P, Comp.ofU16LE_endOk u cps bs⟩

/-- **`Described2` with UTF-16LE leaves at any depth** -/
def Described2U : Comp → Bool → Prop := Described2X LeafU

theorem Described2U.ok {g : Comp} {mid : Bool} (h : Described2U g mid) : (∀ P, g.OkM mid P) ∧ g.EndOk :=
  Described2X.ok (fun _ _ hl => hl.ok) h

theorem Described2.toU {g : Comp} {mid : Bool} (h : Described2 g mid) : Described2U g mid := .leaf g mid (.base g mid h)

/-- the top level: MATCHING-REQUEST-PARAMs as well -/
inductive DescribedTopU (trig : Option Bytes) : Comp → Bool → Prop
  | nested (g : Comp) (mid : Bool) : Described2U g mid → DescribedTopU trig g mid
  | matchingReq (n : String) (bp : Option Nat) (reqPos byteLen : Nat) (t : Bytes) :
      trig = some t → AllBytes t → reqPos + byteLen ≤ t.length → 1 ≤ byteLen → byteLen ≤ 8 →
      DescribedTopU trig (Comp.matchingReq n bp reqPos byteLen t) false

theorem DescribedTopU.ok {trig : Option Bytes} {g : Comp} {mid : Bool} (h : DescribedTopU trig g mid) :
    g.OkM mid (TopInv trig) ∧ g.EndOk := by
  cases h with
  | nested g mid hd => exact ⟨hd.ok.1 _, hd.ok.2⟩
  | matchingReq n bp reqPos byteLen t ht hall hlen h1 h8 =>
    subst ht
    exact ⟨Comp.matchingReq_ok n bp reqPos byteLen t hall hlen h1 h8, Comp.matchingReq_endOk n bp reqPos byteLen t⟩

theorem DescribedTop.toU {trig : Option Bytes} {g : Comp} {mid : Bool} (h : DescribedTop trig g mid) : DescribedTopU trig g mid := by
  cases h with
  | nested g mid hd => exact .nested g mid hd.toU
  | matchingReq n bp reqPos byteLen t ht hall hlen h1 h8 => exact .matchingReq n bp reqPos byteLen t ht hall hlen h1 h8

end OdxVerif.Codec
