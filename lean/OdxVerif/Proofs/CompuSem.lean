import OdxVerif.Proofs.CompuMethods
/-! Vocabulary of the C07 theorems (what "represents the exact result", "well-formed", "declared valid" mean)
    and the per-segment lemmas that connect the model's applicability tests to it. -/
namespace OdxVerif.Compu

/-- `p` is the value of type `ty` for the exact result `q`: `q` itself (a float) for real types, an integer
    nearest to `q` for integer types -/
def represents (ty : DType) (p : Val) (q : Rat) : Prop :=
  if ty.isInt then ∃ z : Int, p = .int z ∧ nearest z q else p = .flt q

theorem mkNum_represents (ty : DType) (q : Rat) : represents ty (mkNum ty q) q := by
  unfold represents mkNum
  split
  · exact ⟨_, rfl, roundHalfEven_nearest q⟩
  · rfl

theorem pyEq_num {a b : Val} {x y : Rat} (ha : a.num? = some x) (hb : b.num? = some y) : a.pyEq b = true ↔ x = y := by
  simp [Val.pyEq, ha, hb]

theorem pyEq_refl_num {a : Val} {x : Rat} (ha : a.num? = some x) : a.pyEq a = true := (pyEq_num ha ha).mpr rfl

/-! ## well-formed descriptions: limits carry numbers, types are numeric, denominators are non-zero -/

def LinSeg.WF (s : LinSeg) : Prop :=
  s.Derived ∧ s.denom ≠ 0 ∧ numericType s.ity = true ∧ numericType s.pty = true

def RatSeg.WF (s : RatSeg) : Prop := numericO s.lo ∧ numericO s.hi ∧ numericType s.domTy = true

def Scale.WFText (sc : Scale) : Prop := numericO sc.lo ∧ numericO sc.hi

def Method.WF : Method → Prop
  | .identical _ _ => True
  | .compuCode => True
  | .linear s => s.WF
  | .scaleLinear segs _ => ∀ s ∈ segs, s.WF
  | .tabIntp ity pty ipts ppts => ipts.length = ppts.length ∧ 2 ≤ ipts.length ∧ numericType ity = true ∧ numericType pty = true
  | .ratFunc f b => f.WF ∧ ∀ b', b = some b' → b'.WF
  | .scaleRatFunc f b => (∀ s ∈ f, s.WF) ∧ ∀ bs, b = some bs → ∀ s ∈ bs, s.WF
  | .textTable ity _ scales _ _ => numericType ity = true ∧ ∀ sc ∈ scales, sc.WFText

/-- the denominator a rational segment divides by at `x` -/
def RatSeg.denomAt (s : RatSeg) (x : Rat) : Rat := if s.den = [] then 1 else polySum s.den x

/-! ## "inside the declared scale" -/

/-- TEXTTABLE scale applicability (ODX 7.3.6.6.1): both limits → interval semantics; a single limit → exactly
    that value; no limit → everything -/
def Scale.appliesSem (sc : Scale) (x : Rat) : Prop :=
  match sc.lo, sc.hi with
  | none, none => True
  | some l, none => l.value.bind Val.num? = some x
  | none, some h => h.value.bind Val.num? = some x
  | some l, some h => l.lowerSem x ∧ h.upperSem x

/-- the declarative reading of "the internal value `v` is valid for `m`":
    admissible Python type ∧ inside the limits of (one of) the scale(s) -/
def Method.validInternalSpec : Method → Val → Prop
  | .identical ity _, v => admissible ity v
  | .compuCode, _ => False
  | .linear s, v => admissible s.ity v ∧ ∃ x, v.num? = some x ∧ inLimits s.ilo s.ihi x
  | .scaleLinear segs _, v => ∃ s ∈ segs, admissible s.ity v ∧ ∃ x, v.num? = some x ∧ inLimits s.ilo s.ihi x
  | .tabIntp ity _ ipts _, v => admissible ity v ∧ ∃ x, v.num? = some x ∧ minList ipts ≤ x ∧ x ≤ maxList ipts
  | .ratFunc f _, v => admissible f.domTy v ∧ ∃ x, v.num? = some x ∧ inLimits f.lo f.hi x
  | .scaleRatFunc f _, v => ∃ s ∈ f, admissible s.domTy v ∧ ∃ x, v.num? = some x ∧ inLimits s.lo s.hi x
  | .textTable ity _ scales pdef _, v =>
    admissible ity v ∧ (pdef.isSome = true ∨ ∃ sc ∈ scales, ∃ x, v.num? = some x ∧ sc.appliesSem x)

/-- the same for physical values: admissible type ∧ inside the derived physical limits (piecewise-linear
    categories: of an invertible method), inside the limits of an explicitly given inverse (rational
    categories), one of the texts (TEXTTABLE) -/
def Method.validPhysicalSpec : Method → Val → Prop
  | .identical _ pty, v => admissible pty v
  | .compuCode, _ => False
  | .linear s, v => admissible s.pty v ∧ ∃ x, v.num? = some x ∧ inLimits s.plo s.phi x
  | .scaleLinear segs inv, v => inv = true ∧ ∃ s ∈ segs, admissible s.pty v ∧ ∃ x, v.num? = some x ∧ inLimits s.plo s.phi x
  | .tabIntp _ pty _ ppts, v => admissible pty v ∧ ∃ x, v.num? = some x ∧ minList ppts ≤ x ∧ x ≤ maxList ppts
  | .ratFunc _ b, v => ∃ b', b = some b' ∧ admissible b'.domTy v ∧ ∃ x, v.num? = some x ∧ inLimits b'.lo b'.hi x
  | .scaleRatFunc _ b, v => ∃ bs, b = some bs ∧ ∃ s ∈ bs, admissible s.domTy v ∧ ∃ x, v.num? = some x ∧ inLimits s.lo s.hi x
  | .textTable _ pty scales _ idef, v =>
    admissible pty v ∧ (idef.isSome = true ∨ ∃ sc ∈ scales, ∃ c, sc.const = some c ∧ c.pyEq v = true)

/-! ## segment-level lemmas -/

theorem RatSeg.applies_spec (s : RatSeg) (hwf : s.WF) (v : Val) :
    ∃ b, s.applies v = .ok b ∧ (b = true ↔ admissible s.domTy v ∧ ∃ x, v.num? = some x ∧ inLimits s.lo s.hi x) := by
  obtain ⟨hlo, hhi, hty⟩ := hwf
  unfold RatSeg.applies
  by_cases ht : typeOk s.domTy v = true
  · obtain ⟨x, hx⟩ := typeOk_num hty ht
    obtain ⟨b, hb, hiff⟩ := withinLimits_num hlo hhi hx
    refine ⟨b, by simp [ht, hb], ?_⟩
    rw [hiff]
    constructor
    · intro h; exact ⟨(typeOk_iff _ _).mp ht, x, hx, h⟩
    · rintro ⟨_, x', hx', h⟩; rw [hx] at hx'; cases hx'; exact h
  · refine ⟨false, by simp [ht], ?_⟩
    have : ¬ admissible s.domTy v := by rw [← typeOk_iff]; exact ht
    simp [this]

theorem RatSeg.convert_num (s : RatSeg) {v : Val} {x : Rat} (hv : v.num? = some x) (hpole : s.denomAt x ≠ 0) :
    s.convert v = .ok (mkNum s.rangeTy (ratFunc s.num s.den x)) := by
  unfold RatSeg.convert RatSeg.denomAt at *
  simp only [hv, horner_eq_polySum]
  rw [if_neg hpole]
  rfl

theorem RatSeg.convert_ok {s : RatSeg} {v p : Val} (h : s.convert v = .ok p) :
    ∃ x, v.num? = some x ∧ s.denomAt x ≠ 0 ∧ p = mkNum s.rangeTy (ratFunc s.num s.den x) := by
  unfold RatSeg.convert at h
  cases hv : v.num? with
  | none => simp [hv] at h
  | some x =>
    simp only [hv, horner_eq_polySum] at h
    by_cases hp : (if s.den = [] then 1 else polySum s.den x) = 0
    · rw [if_pos hp] at h; cases h
    · rw [if_neg hp] at h
      cases h
      exact ⟨x, rfl, hp, rfl⟩

theorem LinSeg.convI2P_ok {s : LinSeg} {v p : Val} (h : s.convI2P v = .ok p) :
    ∃ x, v.num? = some x ∧ s.denom ≠ 0 ∧ p = mkNum s.pty (linear s.offset s.factor s.denom x) := by
  unfold LinSeg.convI2P at h
  cases hv : v.num? with
  | none => simp [hv] at h
  | some x =>
    simp only [hv] at h
    by_cases hd : s.denom = 0
    · rw [if_pos hd] at h; cases h
    · rw [if_neg hd] at h; cases h; exact ⟨x, rfl, hd, rfl⟩

theorem Scale.applies_spec (sc : Scale) (hwf : sc.WFText) {v : Val} {x : Rat} (hv : v.num? = some x) :
    ∃ b, sc.applies v = .ok b ∧ (b = true ↔ sc.appliesSem x) := by
  obtain ⟨hlo, hhi⟩ := hwf
  unfold Scale.applies Scale.appliesSem
  cases hl : sc.lo with
  | none =>
    cases hh : sc.hi with
    | none => exact ⟨true, rfl, by simp⟩
    | some h =>
      simp only []
      cases hval : h.value with
      | none => exact ⟨false, rfl, by simp⟩
      | some a =>
        obtain ⟨q, hq⟩ := hhi h hh a hval
        refine ⟨v.pyEq a, rfl, ?_⟩
        rw [pyEq_num hv hq]; simp [hq, eq_comm]
  | some l =>
    cases hh : sc.hi with
    | none =>
      simp only []
      cases hval : l.value with
      | none => exact ⟨false, rfl, by simp⟩
      | some a =>
        obtain ⟨q, hq⟩ := hlo l hl a hval
        refine ⟨v.pyEq a, rfl, ?_⟩
        rw [pyEq_num hv hq]; simp [hq, eq_comm]
    | some h =>
      simp only []
      obtain ⟨a, ha, haiff⟩ := compliesLower_num (hlo l hl) hv
      obtain ⟨b, hb, hbiff⟩ := compliesUpper_num (hhi h hh) hv
      cases a with
      | false =>
        refine ⟨false, by simp [ha, bind, Except.bind, pure, Except.pure], ?_⟩
        have : ¬ l.lowerSem x := by rw [← haiff]; simp
        simp [this]
      | true =>
        refine ⟨b, by simp [ha, hb, bind, Except.bind], ?_⟩
        have : l.lowerSem x := by rw [← haiff]
        simp [this, hbiff]

theorem LinSeg.convP2I_total (s : LinSeg) {v : Val} {y : Rat} (hv : v.num? = some y) : ∃ i, s.convP2I v = .ok i := by
  unfold LinSeg.convP2I
  simp only [hv]
  split <;> exact ⟨_, rfl⟩

/-- away from a tie the rounded value is strictly closer than one half -/
theorem round_dist_lt_of_not_tie {q : Rat} (hn : ¬ isTie q) :
    q - 1/2 < (roundHalfEven q : Rat) ∧ (roundHalfEven q : Rat) < q + 1/2 := by
  have h1 := Rat.floor_le q
  have h2 := Rat.lt_floor_add_one q
  push_cast at h2
  unfold isTie at hn
  rcases lt_trichotomy (q - (q.floor : Rat)) (1/2) with hlt | heq | hgt
  · have hr : roundHalfEven q = q.floor := by unfold roundHalfEven; simp only []; rw [if_pos hlt]
    rw [hr]; constructor <;> linarith
  · exact absurd heq hn
  · have hr : roundHalfEven q = q.floor + 1 := by
      unfold roundHalfEven; simp only []; rw [if_neg (by linarith), if_pos hgt]
    rw [hr]; push_cast; constructor <;> linarith

theorem linearInv_linear (o f d x : Rat) (hf : f ≠ 0) (hd : d ≠ 0) : linearInv o f d (linear o f d x) = x := by
  unfold linearInv linear; field_simp; ring

theorem linear_linearInv (o f d y : Rat) (hf : f ≠ 0) (hd : d ≠ 0) : linear o f d (linearInv o f d y) = y := by
  unfold linearInv linear; field_simp; ring

theorem linearInv_near (o f d x z : Rat) (hf : f ≠ 0) (hd : d ≠ 0) :
    linearInv o f d z = x + (z - linear o f d x) * (d / f) := by
  unfold linearInv linear; field_simp; ring

/-- the envelope of "every declared-valid physical value converts": an explicitly given inverse rational
    function has no pole at the value, and a text names at most one scale, each of which carries an inverse
    value or a limit value -/
def Method.EncodeEnvelope : Method → Val → Prop
  | .ratFunc _ (some g), p => ∀ x, p.num? = some x → g.denomAt x ≠ 0
  | .scaleRatFunc _ (some gs), p => ∀ g ∈ gs, ∀ x, p.num? = some x → g.denomAt x ≠ 0
  | .textTable _ _ scales _ _, p =>
    (scales.filter (fun sc => match sc.const with | some c => c.pyEq p | none => false)).length ≤ 1 ∧
    ∀ sc ∈ scales, ∃ i, sc.inverseValue = .ok i
  | _, _ => True

end OdxVerif.Compu
