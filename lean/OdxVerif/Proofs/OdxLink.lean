import OdxVerif.Spec.OdxLink
/-! Lemmas for C10, value level: dictionaries, `update`, `resolve`, `resolveSnref` against the spec. -/
namespace OdxVerif.OdxLink
open Spec

instance instDecEqExcept {ε α : Type} [DecidableEq ε] [DecidableEq α] : DecidableEq (Except ε α) := fun a b =>
  match a, b with
  | .ok x, .ok y => if h : x = y then isTrue (by rw [h]) else isFalse (by intro e; cases e; exact h rfl)
  | .error x, .error y => if h : x = y then isTrue (by rw [h]) else isFalse (by intro e; cases e; exact h rfl)
  | .ok _, .error _ => isFalse (by intro e; cases e)
  | .error _, .ok _ => isFalse (by intro e; cases e)

section Dict
variable {κ ν : Type} [DecidableEq κ]

theorem dget_dset (k : κ) (v : ν) (d : List (κ × ν)) (k' : κ) :
    dget (dset k v d) k' = if k = k' then some v else dget d k' := by
  induction d with
  | nil => simp [dset, dget]
  | cons e r ih =>
    obtain ⟨a, b⟩ := e
    simp only [dset]
    by_cases h : a = k
    · subst h
      by_cases h' : a = k' <;> simp [dget, h']
    · by_cases h' : a = k'
      · subst h'
        have : ¬ k = a := fun e => h e.symm
        simp [dget, h, this]
      · simp [dget, h, h', ih]

theorem dget_dsetDefault (k : κ) (v : ν) (d : List (κ × ν)) (k' : κ) :
    dget (dsetDefault k v d) k' = (dget d k').or (if k = k' then some v else none) := by
  induction d with
  | nil => simp [dsetDefault, dget]
  | cons e r ih =>
    obtain ⟨a, b⟩ := e
    simp only [dsetDefault]
    by_cases h : a = k
    · subst h
      by_cases h' : a = k' <;> simp [dget, h']
    · by_cases h' : a = k'
      · subst h'
        simp [dget, h]
      · simp [dget, h, h', ih]

end Dict

theorem dget_storeIn (ow : Bool) (lid : String) (o : Obj) (fd : FragDb) (i : String) :
    dget (storeIn ow lid o fd) i =
      if lid = i then (if ow then some o else (dget fd i).or (some o)) else dget fd i := by
  unfold storeIn
  cases ow
  · simp only [Bool.false_eq_true, if_false, dget_dsetDefault]
    by_cases h : lid = i <;> simp [h]
  · simp only [if_true, dget_dset]

theorem stored_dset (db : Db) (f : Frag) (fd : FragDb) (f' : Frag) (i : String) :
    stored (dset f fd db) f' i = if f = f' then dget fd i else stored db f' i := by
  unfold stored
  rw [dget_dset]
  by_cases h : f = f' <;> simp [h]

theorem stored_step (ow : Bool) (lid : String) (o : Obj) (db : Db) (g f : Frag) (i : String) :
    stored (dset g (storeIn ow lid o (fragDict db g)) db) f i =
      if g = f ∧ lid = i then (if ow then some o else (stored db f i).or (some o))
      else stored db f i := by
  have hfd : ∀ j, dget (fragDict db g) j = stored db g j := by
    intro j
    unfold stored fragDict
    cases dget db g <;> simp [dget]
  generalize (fragDict db g) = fd at hfd
  rw [stored_dset, dget_storeIn, hfd]
  by_cases hg : g = f
  · subst hg
    by_cases hl : lid = i <;> simp [hl]
  · simp [hg]

/-- what one store of `update` does to the database, seen through `stored` -/
theorem stored_updateFrags (ow : Bool) (lid : String) (o : Obj) (fs : List Frag) (db : Db)
    (f : Frag) (i : String) :
    stored (updateFrags ow lid o fs db) f i =
      if f ∈ fs ∧ lid = i then (if ow then some o else (stored db f i).or (some o))
      else stored db f i := by
  induction fs generalizing db with
  | nil => simp [updateFrags]
  | cons g gs ih =>
    simp only [updateFrags]
    rw [ih, stored_step]
    by_cases hg : g = f
    · subst hg
      by_cases hl : lid = i
      · subst hl
        cases ow <;> simp
      · simp [hl]
    · have hg' : ¬ f = g := fun e => hg e.symm
      simp [hg, hg', List.mem_cons]

/-- `overwrite=False` never changes an existing binding (one item) -/
theorem stored_updateFrags_keep (lid : String) (o : Obj) (fs : List Frag) (db : Db)
    (f : Frag) (i : String) (x : Obj) (h : stored db f i = some x) :
    stored (updateFrags false lid o fs db) f i = some x := by
  rw [stored_updateFrags]
  simp [h]

theorem stored_update_keep (es : List (Id × Obj)) (db : Db) (f : Frag) (i : String) (x : Obj)
    (h : stored db f i = some x) : stored (update db es false) f i = some x := by
  unfold update
  induction es generalizing db with
  | nil => simpa
  | cons e es ih =>
    simp only [List.foldl_cons]
    exact ih _ (stored_updateFrags_keep _ _ _ _ _ _ _ h)

theorem getLast?_filter_cons {α} (p : α → Bool) (a : α) (l : List α) :
    ((a :: l).filter p).getLast? =
      ((l.filter p).getLast?).or (if p a then some a else none) := by
  by_cases h : p a
  · rw [List.filter_cons_of_pos h]
    cases hl : l.filter p with
    | nil => simp [h]
    | cons b t => rw [List.getLast?_cons_cons]; cases hb : (b :: t).getLast? with
      | none => simp at hb
      | some x => simp
  · rw [List.filter_cons_of_neg h]
    cases (l.filter p).getLast? <;> simp [h]

/-- `update(overwrite=True)`: afterwards the database stores the last new pair carrying the id in the
    fragment, otherwise what it stored before -/
theorem stored_update_true (es : List (Id × Obj)) (db : Db) (f : Frag) (i : String) :
    stored (update db es true) f i =
      (carried es f i).or (stored db f i) := by
  unfold update
  induction es generalizing db with
  | nil => simp [carried]
  | cons e es ih =>
    simp only [List.foldl_cons]
    rw [ih]
    unfold carried
    rw [getLast?_filter_cons]
    cases hl : (es.filter fun e => decide (e.1.localId = i ∧ f ∈ e.1.frags)).getLast? with
    | some x => simp
    | none =>
      simp only [Option.map_none, stored_updateFrags]
      by_cases hp : e.1.localId = i ∧ f ∈ e.1.frags
      · simp [hp]
      · have : ¬ (f ∈ e.1.frags ∧ e.1.localId = i) := fun h => hp ⟨h.2, h.1⟩
        simp [hp, this]

/-- `update(overwrite=False)`: existing bindings stay, unbound ids get the first new pair -/
theorem stored_update_false (es : List (Id × Obj)) (db : Db) (f : Frag) (i : String) :
    stored (update db es false) f i =
      (stored db f i).or (carriedFirst es f i) := by
  cases h : stored db f i with
  | some x => simpa using stored_update_keep es db f i x h
  | none =>
    unfold update
    induction es generalizing db with
    | nil => simp [carriedFirst, h]
    | cons e es ih =>
      simp only [List.foldl_cons]
      have hs := stored_updateFrags false e.1.localId e.2 e.1.frags db f i
      by_cases hp : e.1.localId = i ∧ f ∈ e.1.frags
      · have hs' : stored (updateFrags false e.1.localId e.2 e.1.frags db) f i = some e.2 := by
          rw [hs]; simp [hp, h]
        have := stored_update_keep es _ f i e.2 hs'
        unfold update at this
        rw [this]
        simp [carriedFirst, hp]
      · have hp' : ¬ (f ∈ e.1.frags ∧ e.1.localId = i) := fun h => hp ⟨h.2, h.1⟩
        have hs' : stored (updateFrags false e.1.localId e.2 e.1.frags db) f i = none := by
          rw [hs]; simp [hp', h]
        rw [ih _ hs']
        simp [carriedFirst, hp]

/-! ### resolve -/

theorem findIn_eq (db : Db) (rid : String) (fs : List Frag) :
    findIn db rid fs = fs.findSome? fun f => stored db f rid := by
  induction fs with
  | nil => simp [findIn]
  | cons f fs ih =>
    simp only [findIn, List.findSome?_cons]
    cases hd : dget db f with
    | none =>
      have : stored db f rid = none := by simp [stored, hd]
      simp only [this]; exact ih
    | some fd =>
      cases hi : dget fd rid with
      | none =>
        have : stored db f rid = none := by simp [stored, hd, hi]
        simp only [this, hi]; exact ih
      | some o =>
        have : stored db f rid = some o := by simp [stored, hd, hi]
        simp only [this, hi]

theorem resolveBy_eq_findSome (st : Store) (r : Ref) :
    resolveBy st r = r.docs.reverse.findSome? (fun f => st f r.refId) := by
  unfold resolveBy
  rw [← List.head?_reverse, ← List.filterMap_reverse, List.head?_filterMap]

theorem findIn_reverse_eq (db : Db) (r : Ref) :
    findIn db r.refId r.docs.reverse = resolveBy (stored db) r := by
  rw [findIn_eq, resolveBy_eq_findSome]

theorem resolveBy_eq_some (st : Store) (r : Ref) (o : Obj) :
    resolveBy st r = some o ↔ Resolves st r o := by
  rw [resolveBy_eq_findSome, List.findSome?_eq_some_iff]
  unfold Resolves
  constructor
  · rintro ⟨l₁, a, l₂, hl, ha, hn⟩
    refine ⟨l₂.reverse, a, l₁.reverse, ?_, ha, ?_⟩
    · have := congrArg List.reverse hl
      simpa using this
    · intro g hg
      exact hn g (List.mem_reverse.1 hg)
  · rintro ⟨pre, f, post, hl, ha, hn⟩
    refine ⟨post.reverse, f, pre.reverse, by simp [hl], ha, ?_⟩
    intro g hg
    exact hn g (List.mem_reverse.1 hg)

theorem resolveBy_eq_none (st : Store) (r : Ref) : resolveBy st r = none ↔ Dangling st r := by
  rw [resolveBy_eq_findSome, List.findSome?_eq_none_iff]
  unfold Dangling
  simp

/-! ### resolve_snref -/

theorem uniqueBy_eq_some (items : List Obj) (name : String) (o : Obj) :
    uniqueBy items name = some o ↔ UniquelyNamed items name o := by
  unfold uniqueBy UniquelyNamed
  constructor
  · intro h
    split at h
    · rename_i o' hf
      cases h
      obtain ⟨l₁, l₂, hl, h1, ha, h2⟩ := List.filter_eq_cons_iff.1 hf
      refine ⟨l₁, l₂, hl, by simpa using ha, ?_, ?_⟩
      · intro x hx; simpa using h1 x hx
      · intro x hx
        have := List.filter_eq_nil_iff.1 h2 x hx
        simpa using this
    · cases h
  · rintro ⟨pre, post, hl, hn, h1, h2⟩
    have : items.filter (fun x => decide (x.name = name)) = [o] := by
      subst hl
      rw [List.filter_append, List.filter_cons]
      have e1 : pre.filter (fun x => decide (x.name = name)) = [] :=
        List.filter_eq_nil_iff.2 (by intro x hx; simpa using h1 x hx)
      have e2 : post.filter (fun x => decide (x.name = name)) = [] :=
        List.filter_eq_nil_iff.2 (by intro x hx; simpa using h2 x hx)
      simp [e1, e2, hn]
    simp [this]

end OdxVerif.OdxLink
