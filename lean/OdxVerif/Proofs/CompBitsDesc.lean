import OdxVerif.Proofs.CompBitsLeaf
/-! Bit-exactness for the compositional tier (task W12), part 3: `Desc` — the syntactic mirror of the inductive predicate
    `Described` (`Proofs/CompDescribed.lean`): a description *with its values*.  From a `Desc` everything is computed by
    structural recursion: the component (`Desc.comp`, hence the model's parameter, the supplied value, the decoded value),
    the well-formedness condition (`Desc.wf`, which implies `Described`: `Desc.described`), and the **layout**
    (`Desc.lay`): the entries of all leaves and of the derived objects (item counts, switch keys, item padding) with their
    absolute positions.  `Desc.foot`: the pure encoder of a well-formed description satisfies the footprint law for its
    layout — one mutual induction, one closure step per construct. -/
namespace OdxVerif.Codec
open OdxVerif.Bits OdxVerif.OdxM

/-- descriptions with values: the constructors of `Described` -/
inductive Desc where
  | value (o : Obj) (v : IVal)
  | valueDefault (o : Obj) (dv : IVal) (sup : Option IVal)
  | const (o : Obj) (v : IVal) (supplied : Bool)
  | physConst (o : Obj) (v : IVal) (supplied : Bool)
  | struct (name : String) (bp : Option Nat) (kids : List Desc)
  | staticField (name : String) (bp : Option Nat) (itemSize : Nat) (shape : List Param) (items : List (List Desc))
  | dynLenField (name : String) (bp : Option Nat) (l : DynLayout) (shape : List Param) (items : List (List Desc))
  | eopField (name : String) (bp : Option Nat) (mn mx : Option Nat) (shape : List Param) (items : List (List Desc))
  | mux (name : String) (bp : Option Nat) (m : MuxLayout) (kids : List Desc)

mutual
/-- the component (`Proofs/CompCore.lean`) a description denotes -/
def Desc.comp : Desc → Comp
  | .value o v => Comp.ofObjValue o v
  | .valueDefault o dv sup => Comp.ofObjDefault o dv sup
  | .const o v b => Comp.ofObjConst o v b
  | .physConst o v b => Comp.ofObjPhysConst o v b
  | .struct name bp kids => Comp.ofValue name bp (DComp.struct (Descs.comps kids))
  | .staticField name bp n shape items =>
    Comp.ofValue name bp (DComp.staticField n (.struct none shape) ((Descss.comps items).map DComp.struct))
  | .dynLenField name bp l shape items =>
    Comp.ofValue name bp (DComp.dynLenField l (.struct none shape) ((Descss.comps items).map DComp.struct))
  | .eopField name bp mn mx shape items =>
    Comp.ofValue name bp (DComp.eopField mn mx (.struct none shape) ((Descss.comps items).map DComp.struct))
  | .mux name bp m kids => Comp.ofValue name bp (DComp.mux m (DComp.struct (Descs.comps kids)))
def Descs.comps : List Desc → List Comp
  | [] => []
  | d :: ds => d.comp :: Descs.comps ds
def Descss.comps : List (List Desc) → List (List Comp)
  | [] => []
  | k :: ks => Descs.comps k :: Descss.comps ks
end

theorem Descss.comps_length : (items : List (List Desc)) → (Descss.comps items).length = items.length
  | [] => rfl
  | _ :: ks => by simp only [Descss.comps, List.length_cons, Descss.comps_length ks]

mutual
/-- well-formedness: the side conditions of the constructors of `Described` -/
def Desc.wf : Desc → Prop
  | .value o v => o.ok ∧ o.inRange v
  | .valueDefault o dv sup => o.ok ∧ o.inRange (sup.getD dv)
  | .const o v _ => o.ok ∧ o.inRange v
  | .physConst o v _ => o.ok ∧ o.inRange v
  | .struct _ _ kids => Descs.wf kids ∧ Comps.namesOk (Descs.comps kids) ∧ Comps.eopLast (Descs.comps kids)
  | .staticField _ _ n shape items =>
    Descss.wf items ∧ ∀ k ∈ Descss.comps items, itemSide shape k ∧ Comps.cur k 0 0 ≤ n
  | .dynLenField _ _ l shape items =>
    Descss.wf items ∧ (∀ k ∈ Descss.comps items, itemSide shape k ∧ 1 ≤ Comps.cur k 0 0) ∧ l.ok items.length
  | .eopField _ _ _ _ shape items =>
    Descss.wf items ∧ ∀ k ∈ Descss.comps items, itemSide shape k ∧ 1 ≤ Comps.cur k 0 0
  | .mux _ _ m kids =>
    Descs.wf kids ∧ Comps.namesOk (Descs.comps kids) ∧ Comps.eopLast (Descs.comps kids) ∧
      m.ok (.struct none (Comps.toParams (Descs.comps kids)))
def Descs.wf : List Desc → Prop
  | [] => True
  | d :: ds => d.wf ∧ Descs.wf ds
def Descss.wf : List (List Desc) → Prop
  | [] => True
  | k :: ks => Descs.wf k ∧ Descss.wf ks
end

mutual
/-- a well-formed description denotes a described parameter -/
theorem Desc.described : (d : Desc) → d.wf → Described d.comp
  | .value o v, h => by
    simp only [Desc.wf] at h
    exact Described.value o v h.1 h.2
  | .valueDefault o dv sup, h => by
    simp only [Desc.wf] at h
    exact Described.valueDefault o dv sup h.1 h.2
  | .const o v b, h => by
    simp only [Desc.wf] at h
    exact Described.const o v b h.1 h.2
  | .physConst o v b, h => by
    simp only [Desc.wf] at h
    exact Described.physConst o v b h.1 h.2
  | .struct name bp kids, h => by
    simp only [Desc.wf] at h
    exact Described.struct name bp _ (Descs.described kids h.1) h.2.1 h.2.2
  | .staticField name bp n shape items, h => by
    simp only [Desc.wf] at h
    exact Described.staticField name bp n shape _ (Descss.described items h.1) h.2
  | .dynLenField name bp l shape items, h => by
    simp only [Desc.wf] at h
    exact Described.dynLenField name bp l shape _ (Descss.described items h.1) h.2.1
      (by rw [Descss.comps_length]; exact h.2.2)
  | .eopField name bp mn mx shape items, h => by
    simp only [Desc.wf] at h
    exact Described.eopField name bp mn mx shape _ (Descss.described items h.1) h.2
  | .mux name bp m kids, h => by
    simp only [Desc.wf] at h
    exact Described.mux name bp m _ (Descs.described kids h.1) h.2.1 h.2.2.1 h.2.2.2
theorem Descs.described : (ds : List Desc) → Descs.wf ds → ∀ g ∈ Descs.comps ds, Described g
  | [], _ => by intro g hg; simp [Descs.comps] at hg
  | d :: ds, h => by
    simp only [Descs.wf] at h
    intro g hg
    simp only [Descs.comps, List.mem_cons] at hg
    rcases hg with rfl | hg
    · exact Desc.described d h.1
    · exact Descs.described ds h.2 g hg
theorem Descss.described : (items : List (List Desc)) → Descss.wf items → ∀ k ∈ Descss.comps items, ∀ g ∈ k, Described g
  | [], _ => by intro k hk; simp [Descss.comps] at hk
  | k :: ks, h => by
    simp only [Descss.wf] at h
    intro k' hk'
    simp only [Descss.comps, List.mem_cons] at hk'
    rcases hk' with rfl | hk'
    · exact Descs.described k h.1
    · exact Descss.described ks h.2 k' hk'
end

/-! ### the layout -/

/-- the items behind OFFSET of a dynamic-length field; none: `emplace_bytes(b"")` -/
def Lay.dynBody (isEmpty : Bool) (l : Lay) : Lay := if isEmpty then Lay.touch else l

mutual
/-- **the layout of a description**: all leaves — and the derived objects: the item count of a DYNAMIC-LENGTH-FIELD (at
    DETERMINE-NUMBER-OF-ITEMS' byte/bit position relative to the field's first byte, value = the number of items), the switch
    key of a MULTIPLEXER (at SWITCH-KEY's byte/bit position relative to the multiplexer's first byte, value = the lower limit
    of the selected CASE / `defaultCaseKey` for the DEFAULT-CASE), the zero bytes behind each STATIC-FIELD item up to
    ITEM-BYTE-SIZE — as a function of the description, the values, the origin and the cursor only -/
def Desc.lay : Desc → Lay
  | .value o v => Lay.obj .value o (o.specRepr v)
  | .valueDefault o dv sup => Lay.obj (if sup.isSome then .value else .default) o (o.specRepr (sup.getD dv))
  | .const o v _ => Lay.obj .codedConst o (o.specRepr v)
  | .physConst o v _ => Lay.obj .physConst o (o.specRepr v)
  | .struct _ bp kids => ((Descs.lay kids).inOrigin).atPos bp
  | .staticField _ bp n _ items => ((Descss.layStatic n items).inOrigin).atPos bp
  | .dynLenField _ bp l _ items =>
    (((Lay.obj .count l.cntObj (l.cntObj.specRepr (.int items.length))).seq
        ((Lay.dynBody items.isEmpty (Descss.layDyn items)).atPos (some l.offset))).inOrigin).atPos bp
  | .eopField _ bp _ _ _ items => ((Descss.layDyn items).inOrigin).atPos bp
  | .mux _ bp m kids =>
    (((Lay.obj .switchKey m.keyObj (m.keyObj.specRepr (.int m.lo))).seq
        (((Descs.lay kids).inOrigin).atPos (some m.muxBp))).inOrigin).atPos bp
/-- the parameters of a structure, one after the other -/
def Descs.lay : List Desc → Lay
  | [] => Lay.nil
  | d :: ds => d.lay.seq (Descs.lay ds)
/-- the items of a static field: each an item structure followed by its padding, relative to the item's first byte -/
def Descss.layStatic (n : Nat) : List (List Desc) → Lay
  | [] => Lay.nil
  | k :: ks => ((((Descs.lay k).inOrigin).seq (Lay.padTo n)).inOrigin).seq (Descss.layStatic n ks)
/-- the items of a dynamic-length / end-of-PDU field: item structures back to back -/
def Descss.layDyn : List (List Desc) → Lay
  | [] => Lay.nil
  | k :: ks => ((Descs.lay k).inOrigin).seq (Descss.layDyn ks)
end

/-! ### closure steps that are not plain combinators -/

theorem foot_leaf (role : Role) (o : Obj) (v : IVal) (ho : o.ok) (hr : o.inRange v) :
    Foot (encStep o v) (Lay.obj role o (o.specRepr v)) := by
  rw [← o.raw_eq_spec ho v hr]
  exact Foot.obj role o v

theorem foot_dynLen (l : DynLayout) (item : Dop) (cs : List DComp) (lb : Lay) (hl : l.ok cs.length)
    (hb : Foot (dynBodyC cs).enc lb) :
    Foot (DComp.dynLenField l item cs).pair.enc
      (((Lay.obj .count l.cntObj (l.cntObj.specRepr (.int cs.length))).seq (lb.atPos (some l.offset))).inOrigin) :=
  Foot.inOrigin (Foot.seq (ea := encStep l.cntObj (.int cs.length))
    (eb := fun s => (dynBodyC cs).enc { s with cursorByte := posOf (some l.offset) s.origin s.cursorByte })
    (foot_leaf .count l.cntObj (.int cs.length) hl.1 hl.2.1) (Foot.atPos (some l.offset) hb))

theorem foot_mux (m : MuxLayout) (c : DComp) (lc : Lay) (hk : m.keyObj.ok) (hr : m.keyObj.inRange (.int m.lo))
    (hc : Foot c.pair.enc lc) :
    Foot (DComp.mux m c).pair.enc
      (((Lay.obj .switchKey m.keyObj (m.keyObj.specRepr (.int m.lo))).seq (lc.atPos (some m.muxBp))).inOrigin) :=
  Foot.inOrigin (Foot.seq (ea := encStep m.keyObj (.int m.lo))
    (eb := fun s => c.pair.enc { s with cursorByte := posOf (some m.muxBp) s.origin s.cursorByte })
    (foot_leaf .switchKey m.keyObj (.int m.lo) hk hr) (Foot.atPos (some m.muxBp) hc))

mutual
/-- **the footprint law holds for every well-formed description** -/
theorem Desc.foot : (d : Desc) → d.wf → Foot d.comp.pair.enc d.lay
  | .value o v, h => by
    simp only [Desc.wf] at h
    exact foot_leaf .value o v h.1 h.2
  | .valueDefault o dv sup, h => by
    simp only [Desc.wf] at h
    exact foot_leaf _ o (sup.getD dv) h.1 h.2
  | .const o v b, h => by
    simp only [Desc.wf] at h
    exact foot_leaf .codedConst o v h.1 h.2
  | .physConst o v b, h => by
    simp only [Desc.wf] at h
    exact foot_leaf .physConst o v h.1 h.2
  | .struct name bp kids, h => by
    simp only [Desc.wf] at h
    exact Foot.atPos bp (Foot.inOrigin (Descs.foot kids h.1))
  | .staticField name bp n shape items, h => by
    simp only [Desc.wf] at h
    exact Foot.atPos bp (Foot.inOrigin (Descss.footStatic n items h.1))
  | .dynLenField name bp l shape items, h => by
    simp only [Desc.wf] at h
    have hF := Descss.footDyn items h.1
    have hlen := Descss.comps_length items
    have hl : l.ok ((Descss.comps items).map DComp.struct).length := by rw [List.length_map, hlen]; exact h.2.2
    have hbody : Foot (dynBodyC ((Descss.comps items).map DComp.struct)).enc (Lay.dynBody items.isEmpty (Descss.layDyn items)) := by
      cases items with
      | nil => exact Foot.touch
      | cons k ks => exact hF
    have := foot_dynLen l (.struct none shape) _ _ hl hbody
    rw [List.length_map, hlen] at this
    exact Foot.atPos bp this
  | .eopField name bp mn mx shape items, h => by
    simp only [Desc.wf] at h
    exact Foot.atPos bp (Foot.inOrigin (Descss.footDyn items h.1))
  | .mux name bp m kids, h => by
    simp only [Desc.wf] at h
    exact Foot.atPos bp (foot_mux m _ _ h.2.2.2.1 h.2.2.2.2.1 (Foot.inOrigin (Descs.foot kids h.1)))
theorem Descs.foot : (ds : List Desc) → Descs.wf ds → Foot (Comps.pair (Descs.comps ds)).enc (Descs.lay ds)
  | [], _ => Foot.nil
  | d :: ds, h => by
    simp only [Descs.wf] at h
    exact Foot.seq (ea := d.comp.pair.enc) (eb := (Comps.pair (Descs.comps ds)).enc) (Desc.foot d h.1) (Descs.foot ds h.2)
theorem Descss.footStatic (n : Nat) : (items : List (List Desc)) → Descss.wf items →
    Foot (Pair.list (((Descss.comps items).map DComp.struct).map (staticItemC n))).enc (Descss.layStatic n items)
  | [], _ => Foot.nil
  | k :: ks, h => by
    simp only [Descss.wf] at h
    exact Foot.seq (ea := (staticItemC n (DComp.struct (Descs.comps k))).enc)
      (eb := (Pair.list (((Descss.comps ks).map DComp.struct).map (staticItemC n))).enc)
      (Foot.inOrigin (Foot.seq (ea := (DComp.struct (Descs.comps k)).pair.enc) (eb := (Pair.padTo n).enc)
        (Foot.inOrigin (Descs.foot k h.1)) (Foot.padTo n))) (Descss.footStatic n ks h.2)
theorem Descss.footDyn : (items : List (List Desc)) → Descss.wf items →
    Foot (Pair.list (((Descss.comps items).map DComp.struct).map dynItemC)).enc (Descss.layDyn items)
  | [], _ => Foot.nil
  | k :: ks, h => by
    simp only [Descss.wf] at h
    exact Foot.seq (ea := (dynItemC (DComp.struct (Descs.comps k))).enc)
      (eb := (Pair.list (((Descss.comps ks).map DComp.struct).map dynItemC)).enc)
      (Foot.inOrigin (Descs.foot k h.1)) (Descss.footDyn ks h.2)
end

end OdxVerif.Codec
