import OdxVerif.Proofs.CompRes2U
import OdxVerif.Proofs.CompBits2Msg
import OdxVerif.Proofs.CompBits2Re
/-! Bit-exactness (property C02) for UTF-16LE leaves inside field items and multiplexer cases, task W29 (C): `Desc2U` — the
    syntactic mirror of `Described2U = Described2X LeafU` (`Proofs/CompRes2U.lean`): a `Desc2` description (`base`), the tenth
    leaf kind `u16le` (A_UNICODE2STRING, low-high byte order), and the closure constructors of `Described2X` over `Desc2U`
    children.  `Desc2U.foot`: the second footprint law; then the message level (`Proofs/CompBits2Msg.lean` over `Desc2U`). -/
namespace OdxVerif.Codec
open OdxVerif.Bits OdxVerif.OdxM

/-- descriptions with values: the constructors of `Described2U = Described2X LeafU` (`base`, `u16le`: the two kinds of `LeafU`) -/
inductive Desc2U where
  | base (d : Desc2)
  | u16le (u : U16) (cps : List Nat) (bs : Bytes)
  | struct (name : String) (bp : Option Nat) (bso : Option Nat) (kids : List Desc2U)
  | staticField (name : String) (bp : Option Nat) (itemSize : Nat) (bso : Option Nat) (shape : List Param) (items : List (List Desc2U))
  | dynLenField (name : String) (bp : Option Nat) (l : DynLayout) (bso : Option Nat) (shape : List Param) (items : List (List Desc2U))
  | eopField (name : String) (bp : Option Nat) (mn mx : Option Nat) (bso : Option Nat) (shape : List Param) (items : List (List Desc2U))
  | mux (name : String) (bp : Option Nat) (m : MuxLayout) (kids : List Desc2U)
  | endMarkerEop (name : String) (bp : Option Nat) (l : EmLayout) (bso : Option Nat) (shape : List Param) (items : List (List Desc2U))
  | endMarkerMid (name : String) (bp : Option Nat) (l : EmLayout) (bso : Option Nat) (shape : List Param) (items : List (List Desc2U))

mutual
/-- the component a description denotes, with its flag `mid` ("needs `is_end_of_pdu` cleared") -/
def Desc2U.mc : Desc2U → MComp
  | .base d => d.mc
  | .u16le u cps bs => ⟨Comp.ofU16LE u cps bs, false⟩
  | .struct name bp bso kids =>
    ⟨Comp.ofValue name bp (DComp.structO bso (MComps.cs (Descs2U.mcs kids))), MComps.lastMid (Descs2U.mcs kids)⟩
  | .staticField name bp n bso shape items =>
    ⟨Comp.ofValue name bp (DComp.staticField n (.struct bso shape) (itemsO bso (Descss2U.mcss items))), false⟩
  | .dynLenField name bp l bso shape items =>
    ⟨Comp.ofValue name bp (DComp.dynLenField l (.struct bso shape) (itemsO bso (Descss2U.mcss items))), itemsLastMid (Descss2U.mcss items)⟩
  | .eopField name bp mn mx bso shape items =>
    ⟨Comp.ofValue name bp (DComp.eopField mn mx (.struct bso shape) (itemsO bso (Descss2U.mcss items))), false⟩
  | .mux name bp m kids =>
    ⟨Comp.ofValue name bp (DComp.mux m (DComp.struct (MComps.cs (Descs2U.mcs kids)))), MComps.lastMid (Descs2U.mcs kids)⟩
  | .endMarkerEop name bp l bso shape items =>
    ⟨Comp.ofValue name bp (DComp.endMarkerEop l (.struct bso shape) (itemsO bso (Descss2U.mcss items))), false⟩
  | .endMarkerMid name bp l bso shape items =>
    ⟨Comp.ofValue name bp (DComp.endMarkerMid l (.struct bso shape) (itemsO bso (Descss2U.mcss items))), true⟩
def Descs2U.mcs : List Desc2U → List MComp
  | [] => []
  | d :: ds => d.mc :: Descs2U.mcs ds
def Descss2U.mcss : List (List Desc2U) → List (List MComp)
  | [] => []
  | k :: ks => Descs2U.mcs k :: Descss2U.mcss ks
end

/-- the components of a parameter list -/
def Descs2U.comps (ds : List Desc2U) : List Comp := MComps.cs (Descs2U.mcs ds)

theorem Descss2U.mcss_length : (items : List (List Desc2U)) → (Descss2U.mcss items).length = items.length
  | [] => rfl
  | _ :: ks => by simp only [Descss2U.mcss, List.length_cons, Descss2U.mcss_length ks]

mutual
/-- well-formedness: the side conditions of the constructors of `Described2U` (MATCHING-REQUEST-PARAM: top level only, `wfTop`) -/
def Desc2U.wf : Desc2U → Prop
  | .base d => d.wf
  | .u16le u cps bs => u.ok ∧ u.inRange cps bs
  | .struct _ _ bso kids =>
    Descs2U.wf kids ∧ Comps.namesOk (Descs2U.comps kids) ∧ Comps.eopLast (Descs2U.comps kids) ∧ sizeSide bso (Descs2U.comps kids)
  | .staticField _ _ n bso shape items =>
    Descss2U.wf items ∧ ∀ k ∈ Descss2U.mcss items, itemSideS bso shape k ∧ (DComp.structO bso (MComps.cs k)).size ≤ n
  | .dynLenField _ _ l bso shape items =>
    Descss2U.wf items ∧ (∀ k ∈ Descss2U.mcss items, itemSideS bso shape k ∧ 1 ≤ (DComp.structO bso (MComps.cs k)).size) ∧
      l.ok items.length
  | .eopField _ _ _ _ bso shape items =>
    Descss2U.wf items ∧ (∀ k ∈ Descss2U.mcss items, itemSideS bso shape k ∧ 1 ≤ (DComp.structO bso (MComps.cs k)).size) ∧
      (∀ k, (Descss2U.mcss items).getLast? = some k → MComps.midNotLast k)
  | .mux _ _ m kids =>
    Descs2U.wf kids ∧ Comps.namesOk (Descs2U.comps kids) ∧ Comps.eopLast (Descs2U.comps kids) ∧
      m.ok (.struct none (Comps.toParams (Descs2U.comps kids)))
  | .endMarkerEop _ _ l bso shape items =>
    Descss2U.wf items ∧ l.ok ∧
      (∀ k ∈ Descss2U.mcss items, itemSideS bso shape k ∧ 1 ≤ (DComp.structO bso (MComps.cs k)).size ∧
        l.miss (DComp.structO bso (MComps.cs k))) ∧
      (∀ k, (Descss2U.mcss items).getLast? = some k → MComps.midNotLast k)
  | .endMarkerMid _ _ l bso shape items =>
    Descss2U.wf items ∧ l.ok ∧
      (∀ k ∈ Descss2U.mcss items, itemSideS bso shape k ∧ 1 ≤ (DComp.structO bso (MComps.cs k)).size ∧
        l.miss (DComp.structO bso (MComps.cs k)))
def Descs2U.wf : List Desc2U → Prop
  | [] => True
  | d :: ds => d.wf ∧ Descs2U.wf ds
def Descss2U.wf : List (List Desc2U) → Prop
  | [] => True
  | k :: ks => Descs2U.wf k ∧ Descss2U.wf ks
end

mutual
/-- a well-formed description denotes a described parameter -/
theorem Desc2U.described : (d : Desc2U) → d.wf → Described2U d.mc.c d.mc.mid
  | .base d, h => by
    simp only [Desc2U.wf] at h
    exact Described2X.leaf _ _ (LeafU.base _ _ (Desc2.described d h))
  | .u16le u cps bs, h => by
    simp only [Desc2U.wf] at h
    exact Described2X.leaf _ _ (LeafU.u16le u cps bs h.1 h.2)
  | .struct name bp bso kids, h => by
    simp only [Desc2U.wf] at h
    exact Described2X.struct name bp bso _ (Descs2U.described kids h.1) h.2.1 h.2.2.1 h.2.2.2
  | .staticField name bp n bso shape items, h => by
    simp only [Desc2U.wf] at h
    exact Described2X.staticField name bp n bso shape _ (Descss2U.described items h.1) h.2
  | .dynLenField name bp l bso shape items, h => by
    simp only [Desc2U.wf] at h
    exact Described2X.dynLenField name bp l bso shape _ (Descss2U.described items h.1) h.2.1
      (by rw [Descss2U.mcss_length]; exact h.2.2)
  | .eopField name bp mn mx bso shape items, h => by
    simp only [Desc2U.wf] at h
    exact Described2X.eopField name bp mn mx bso shape _ (Descss2U.described items h.1) h.2.1 h.2.2
  | .mux name bp m kids, h => by
    simp only [Desc2U.wf] at h
    exact Described2X.mux name bp m _ (Descs2U.described kids h.1) h.2.1 h.2.2.1 h.2.2.2
  | .endMarkerEop name bp l bso shape items, h => by
    simp only [Desc2U.wf] at h
    exact Described2X.endMarkerEop name bp l bso shape _ (Descss2U.described items h.1) h.2.1 h.2.2.1 h.2.2.2
  | .endMarkerMid name bp l bso shape items, h => by
    simp only [Desc2U.wf] at h
    exact Described2X.endMarkerMid name bp l bso shape _ (Descss2U.described items h.1) h.2.1 h.2.2
theorem Descs2U.described : (ds : List Desc2U) → Descs2U.wf ds → ∀ m ∈ Descs2U.mcs ds, Described2U m.c m.mid
  | [], _ => by intro m hm; simp [Descs2U.mcs] at hm
  | d :: ds, h => by
    simp only [Descs2U.wf] at h
    intro m hm
    simp only [Descs2U.mcs, List.mem_cons] at hm
    rcases hm with rfl | hm
    · exact Desc2U.described d h.1
    · exact Descs2U.described ds h.2 m hm
theorem Descss2U.described : (items : List (List Desc2U)) → Descss2U.wf items →
    ∀ k ∈ Descss2U.mcss items, ∀ m ∈ k, Described2U m.c m.mid
  | [], _ => by intro k hk; simp [Descss2U.mcss] at hk
  | k :: ks, h => by
    simp only [Descss2U.wf] at h
    intro k' hk'
    simp only [Descss2U.mcss, List.mem_cons] at hk'
    rcases hk' with rfl | hk'
    · exact Descs2U.described k h.1
    · exact Descss2U.described ks h.2 k' hk'
end

/-! ### the layout -/

mutual
/-- **the layout of a description** — `Desc2.lay` for a `base` description and for the closure constructors; a UTF-16LE leaf is
    one `value` entry: the UTF-16LE bytes of the string, read as one big-endian number, in the bytes of the object (as in
    `Desc2R.lay`) — now also inside field items and multiplexer cases -/
def Desc2U.lay : Desc2U → Lay2
  | .base d => d.lay
  | .u16le u _ bs => Lay2.obj .value u.name u.sh (u.sh.specRepr (.bytes bs))
  | .struct _ bp bso kids => (Lay2.sized bso (Descs2U.lay kids)).atPos bp
  | .staticField _ bp n bso _ items => ((Descss2U.layStatic n bso items).inOrigin).atPos bp
  | .dynLenField _ bp l bso _ items =>
    (((Lay2.obj .count l.cntObj.name l.cntObj (l.cntObj.specRepr (.int items.length))).seq
        ((Lay2.dynBody items.isEmpty (Descss2U.layDyn bso items)).atPos (some l.offset))).inOrigin).atPos bp
  | .eopField _ bp _ _ bso _ items => ((Descss2U.layDyn bso items).inOrigin).atPos bp
  | .mux _ bp m kids =>
    (((Lay2.obj .switchKey m.keyObj.name m.keyObj (m.keyObj.specRepr (.int m.lo))).seq
        (((Descs2U.lay kids).inOrigin).atPos (some m.muxBp))).inOrigin).atPos bp
  | .endMarkerEop _ bp _ bso _ items => ((Descss2U.layDyn bso items).inOrigin).atPos bp
  | .endMarkerMid _ bp l bso _ items =>
    (((Descss2U.layDyn bso items).seq ((Lay2.obj .marker l.obj.name l.obj (l.obj.specRepr (.int l.tv))).peek)).inOrigin).atPos bp
def Descs2U.lay : List Desc2U → Lay2
  | [] => Lay2.nil
  | d :: ds => d.lay.seq (Descs2U.lay ds)
/-- the items of a static field: item structure (with its BYTE-SIZE padding), then the padding up to ITEM-BYTE-SIZE -/
def Descss2U.layStatic (n : Nat) (bso : Option Nat) : List (List Desc2U) → Lay2
  | [] => Lay2.nil
  | k :: ks => (((Lay2.sized bso (Descs2U.lay k)).seq (Lay2.padTo n)).inOrigin).seq (Descss2U.layStatic n bso ks)
/-- the items of the other fields: item structures back to back -/
def Descss2U.layDyn (bso : Option Nat) : List (List Desc2U) → Lay2
  | [] => Lay2.nil
  | k :: ks => (Lay2.sized bso (Descs2U.lay k)).seq (Descss2U.layDyn bso ks)
end

mutual
/-- **the second footprint law holds for every description** -/
theorem Desc2U.foot : (d : Desc2U) → (d.wf ∨ ∃ n bp rp bl t, d = .base (.matching n bp rp bl t) ∧ AllBytes t) →
    Foot2 d.mc.c.pair.enc d.lay
  | .u16le u cps bs, h => by
    rcases h with h | ⟨_, _, _, _, _, h, _⟩
    · simp only [Desc2U.wf] at h
      exact Comp.ofU16LE_foot u cps bs h.1 h.2
    · cases h
  | .base d, h => by
    refine Desc2.foot d ?_
    rcases h with h | ⟨n, bp, rp, bl, t, h, ht⟩
    · exact Or.inl (by simpa only [Desc2U.wf] using h)
    · cases h
      exact Or.inr ⟨n, bp, rp, bl, t, rfl, ht⟩
  | .struct name bp bso kids, h => by
    rcases h with h | ⟨_, _, _, _, _, h, _⟩
    · simp only [Desc2U.wf] at h
      exact Foot2.atPos bp (foot2_structO bso _ _ (Descs2U.foot kids h.1))
    · cases h
  | .staticField name bp n bso shape items, h => by
    rcases h with h | ⟨_, _, _, _, _, h, _⟩
    · simp only [Desc2U.wf] at h
      exact Foot2.atPos bp (Foot2.inOrigin (Descss2U.footStatic n bso items h.1))
    · cases h
  | .dynLenField name bp l bso shape items, h => by
    rcases h with h | ⟨_, _, _, _, _, h, _⟩
    · simp only [Desc2U.wf] at h
      have hF := Descss2U.footDyn bso items h.1
      have hlen : (itemsO bso (Descss2U.mcss items)).length = items.length := by
        simp only [itemsO, List.length_map, Descss2U.mcss_length]
      have hl : l.ok (itemsO bso (Descss2U.mcss items)).length := by rw [hlen]; exact h.2.2
      have hbody : Foot2 (dynBodyC (itemsO bso (Descss2U.mcss items))).enc (Lay2.dynBody items.isEmpty (Descss2U.layDyn bso items)) := by
        cases items with
        | nil => exact Foot2.touch
        | cons k ks => exact hF
      have := foot2_dynLen l (.struct bso shape) _ _ hl hbody
      rw [hlen] at this
      exact Foot2.atPos bp this
    · cases h
  | .eopField name bp mn mx bso shape items, h => by
    rcases h with h | ⟨_, _, _, _, _, h, _⟩
    · simp only [Desc2U.wf] at h
      exact Foot2.atPos bp (Foot2.inOrigin (Descss2U.footDyn bso items h.1))
    · cases h
  | .mux name bp m kids, h => by
    rcases h with h | ⟨_, _, _, _, _, h, _⟩
    · simp only [Desc2U.wf] at h
      exact Foot2.atPos bp (foot2_mux m _ _ h.2.2.2.1 h.2.2.2.2.1 (Foot2.inOrigin (Descs2U.foot kids h.1)))
    · cases h
  | .endMarkerEop name bp l bso shape items, h => by
    rcases h with h | ⟨_, _, _, _, _, h, _⟩
    · simp only [Desc2U.wf] at h
      exact Foot2.atPos bp (Foot2.inOrigin (Descss2U.footEm l bso items h.1))
    · cases h
  | .endMarkerMid name bp l bso shape items, h => by
    rcases h with h | ⟨_, _, _, _, _, h, _⟩
    · simp only [Desc2U.wf] at h
      exact Foot2.atPos bp (foot2_emMid l h.2.1 (.struct bso shape) _ _ (Descss2U.footEm l bso items h.1))
    · cases h
theorem Descs2U.foot : (ds : List Desc2U) → Descs2U.wf ds → Foot2 (Comps.pair (Descs2U.comps ds)).enc (Descs2U.lay ds)
  | [], _ => Foot2.nil
  | d :: ds, h => by
    simp only [Descs2U.wf] at h
    exact Foot2.seq (ea := d.mc.c.pair.enc) (eb := (Comps.pair (Descs2U.comps ds)).enc) (Desc2U.foot d (Or.inl h.1)) (Descs2U.foot ds h.2)
theorem Descss2U.footStatic (n : Nat) (bso : Option Nat) : (items : List (List Desc2U)) → Descss2U.wf items →
    Foot2 (Pair.list ((itemsO bso (Descss2U.mcss items)).map (staticItemC n))).enc (Descss2U.layStatic n bso items)
  | [], _ => Foot2.nil
  | k :: ks, h => by
    simp only [Descss2U.wf] at h
    exact Foot2.seq (ea := (staticItemC n (DComp.structO bso (Descs2U.comps k))).enc)
      (eb := (Pair.list ((itemsO bso (Descss2U.mcss ks)).map (staticItemC n))).enc)
      (Foot2.inOrigin (Foot2.seq (ea := (DComp.structO bso (Descs2U.comps k)).pair.enc) (eb := (Pair.padTo n).enc)
        (foot2_structO bso _ _ (Descs2U.foot k h.1)) (Foot2.padTo n))) (Descss2U.footStatic n bso ks h.2)
theorem Descss2U.footDyn (bso : Option Nat) : (items : List (List Desc2U)) → Descss2U.wf items →
    Foot2 (Pair.list ((itemsO bso (Descss2U.mcss items)).map dynItemC)).enc (Descss2U.layDyn bso items)
  | [], _ => Foot2.nil
  | k :: ks, h => by
    simp only [Descss2U.wf] at h
    exact Foot2.seq (ea := (dynItemC (DComp.structO bso (Descs2U.comps k))).enc)
      (eb := (Pair.list ((itemsO bso (Descss2U.mcss ks)).map dynItemC)).enc)
      (foot2_structO bso _ _ (Descs2U.foot k h.1)) (Descss2U.footDyn bso ks h.2)
theorem Descss2U.footEm (l : EmLayout) (bso : Option Nat) : (items : List (List Desc2U)) → Descss2U.wf items →
    Foot2 (Pair.list ((itemsO bso (Descss2U.mcss items)).map (emItemC l))).enc (Descss2U.layDyn bso items)
  | [], _ => Foot2.nil
  | k :: ks, h => by
    simp only [Descss2U.wf] at h
    exact Foot2.seq (ea := (emItemC l (DComp.structO bso (Descs2U.comps k))).enc)
      (eb := (Pair.list ((itemsO bso (Descss2U.mcss ks)).map (emItemC l))).enc)
      (foot2_structO bso _ _ (Descs2U.foot k h.1)) (Descss2U.footEm l bso ks h.2)
end

/-! ### the message level -/

/-- the layout of a request / response: origin 0, cursor 0 -/
def Descs2U.layout (ds : List Desc2U) : List Ent2 := (Descs2U.lay ds).ents 0 0
def Descs2U.extent (ds : List Desc2U) : Nat := (Descs2U.lay ds).ext 0 0
def Descs2U.endCursor (ds : List Desc2U) : Nat := (Descs2U.lay ds).cur 0 0
def Descs2U.params (ds : List Desc2U) : List Param := Comps.toParams (Descs2U.comps ds)
def Descs2U.supplied (ds : List Desc2U) : List (String × PVal) := Comps.values (Descs2U.comps ds)
def Descs2U.decoded (ds : List Desc2U) : List (String × PVal) := (Comps.pair (Descs2U.comps ds)).val

/-- well-formed at the top level of a response to `trig` (a request: `trig = none`): MATCHING-REQUEST-PARAMs are allowed -/
def Desc2U.wfTop (trig : Option Bytes) : Desc2U → Prop
  | .base d => d.wfTop trig
  | d => d.wf

def Descs2U.wfTop (trig : Option Bytes) : List Desc2U → Prop
  | [] => True
  | d :: ds => d.wfTop trig ∧ Descs2U.wfTop trig ds

/-- a well-formed request / response: well-formed parameters, distinct names, END-OF-PDU objects only last, no parameter that
    needs `is_end_of_pdu` cleared in last position, within the model's fuel -/
def Descs2U.ok (trig : Option Bytes) (ds : List Desc2U) : Prop :=
  Descs2U.wfTop trig ds ∧ Comps.namesOk (Descs2U.comps ds) ∧ Comps.eopLast (Descs2U.comps ds) ∧
  MComps.midNotLast (Descs2U.mcs ds) ∧ Comps.need (Descs2U.comps ds) + 2 ≤ modelFuel

/-- no BYTE-SIZE padding hits a bit claimed before it (vacuous without BYTE-SIZE structures that are actually padded) -/
def Descs2U.padOk (ds : List Desc2U) : Prop := PadOk (Descs2U.layout ds) (fun _ => False)

theorem Desc2U.wfTop_cases (trig : Option Bytes) (d : Desc2U) (h : d.wfTop trig) :
    d.wf ∨ ∃ n bp rp bl t, d = .base (.matching n bp rp bl t) ∧ trig = some t ∧ AllBytes t ∧ rp + bl ≤ t.length ∧ 1 ≤ bl ∧ bl ≤ 8 := by
  cases d
  case base d =>
    rcases Desc2.wfTop_cases trig d h with h' | ⟨n, bp, rp, bl, t, rfl, h'⟩
    · exact Or.inl (by simpa only [Desc2U.wf] using h')
    · exact Or.inr ⟨n, bp, rp, bl, t, rfl, h'⟩
  all_goals exact Or.inl h

theorem Desc2U.describedTop (trig : Option Bytes) (d : Desc2U) (h : d.wfTop trig) : DescribedTopU trig d.mc.c d.mc.mid := by
  cases d
  case base d => exact (Desc2.describedTop trig d h).toU
  all_goals exact DescribedTopU.nested _ _ (Desc2U.described _ h)

theorem Descs2U.describedTop (trig : Option Bytes) : (ds : List Desc2U) → Descs2U.wfTop trig ds →
    ∀ m ∈ Descs2U.mcs ds, DescribedTopU trig m.c m.mid
  | [], _ => by intro m hm; simp [Descs2U.mcs] at hm
  | d :: ds, h => by
    intro m hm
    simp only [Descs2U.mcs, List.mem_cons] at hm
    rcases hm with rfl | hm
    · exact Desc2U.describedTop trig d h.1
    · exact Descs2U.describedTop trig ds h.2 m hm

theorem Descs2U.okAllTop (trig : Option Bytes) (ds : List Desc2U) (h : Descs2U.wfTop trig ds) :
    MComps.okAll (TopInv trig) (Descs2U.mcs ds) :=
  MComps.okAll_of_forall _ _ (fun m hm => (Descs2U.describedTop trig ds h m hm).ok.1)

theorem Descs2U.footTop (trig : Option Bytes) : (ds : List Desc2U) → Descs2U.wfTop trig ds →
    Foot2 (Comps.pair (Descs2U.comps ds)).enc (Descs2U.lay ds)
  | [], _ => Foot2.nil
  | d :: ds, h => by
    have hd : d.wf ∨ ∃ n bp rp bl t, d = .base (.matching n bp rp bl t) ∧ AllBytes t := by
      rcases Desc2U.wfTop_cases trig d h.1 with h' | ⟨n, bp, rp, bl, t, he, _, hall, _⟩
      · exact Or.inl h'
      · exact Or.inr ⟨n, bp, rp, bl, t, he, hall⟩
    exact Foot2.seq (ea := d.mc.c.pair.enc) (eb := (Comps.pair (Descs2U.comps ds)).enc) (Desc2U.foot d hd) (Descs2U.footTop trig ds h.2)

/-- strict `encodeMessage` = the pure encoder from the empty state -/
theorem descs2U_encodeMessage (trig : Option Bytes) (ds : List Desc2U) (hok : Descs2U.ok trig ds) :
    encodeMessage none (Descs2U.params ds) (.dict (Descs2U.supplied ds)) trig true =
      .ok (((Comps.pair (Descs2U.comps ds)).enc {}).msg, ((Comps.pair (Descs2U.comps ds)).enc {}).warn) := by
  obtain ⟨hwf, hn, hlast, hmid, hneed⟩ := hok
  have hokAll := Descs2U.okAllTop trig ds hwf
  let s0 : EncState := { trig := trig, isEndOfPdu := true }
  obtain ⟨s1, hrun, hcore, _⟩ := DComp.structM_encode_eq (ModelInv.top trig) (Descs2U.mcs ds) hokAll hn hlast modelFuel hneed
    s0 rfl (fun _ => rfl) (fun h => by rw [show MComps.lastMid (Descs2U.mcs ds) = false from hmid] at h; cases h)
    ⟨rfl, Nat.le_refl _⟩
  have hrun' : encodeDop modelFuel (.struct none (Comps.toParams (Descs2U.comps ds))) (.dict (Comps.values (Descs2U.comps ds)))
      { trig := trig, isEndOfPdu := true } true = .ok ((), s1) := hrun
  unfold encodeMessage Descs2U.params Descs2U.supplied
  rw [hrun']
  have hs0 : SameCore ({ s0 with origin := s0.cursorByte } : EncState) {} := ⟨rfl, rfl, rfl, rfl, rfl⟩
  have h2 := (MComps.good _ hokAll).core _ _ hs0
  have hm : s1.msg = ((Comps.pair (Descs2U.comps ds)).enc {}).msg := hcore.1.trans h2.1
  have hw : s1.warn = ((Comps.pair (Descs2U.comps ds)).enc {}).warn := hcore.2.2.1.trans h2.2.2.1
  simp only [hm, hw]

theorem padOk_empty_state2U (ds : List Desc2U) :
    PadOk (Descs2U.layout ds) (fun a => getBit ({} : EncState).used a = true) ↔ Descs2U.padOk ds :=
  PadOk_congr _ _ _ (fun a => by
    show getBit [] a = true ↔ False
    rw [getBit_nil]; simp)

/-- entries pairwise disjoint ⇒ no overlap warning -/
theorem descs2U_pure_nowarn_of (trig : Option Bytes) (ds : List Desc2U) (hwf : Descs2U.wfTop trig ds)
    (hd : LDisj ((Descs2U.layout ds).map Ent2.geo)) : ((Comps.pair (Descs2U.comps ds)).enc {}).warn = 0 :=
  (Descs2U.footTop trig ds hwf).nowarn_of {} clean_empty hd (LFree_nil_used _)

/-- no overlap warning ⇒ entries pairwise disjoint, provided no BYTE-SIZE padding hits a bit claimed before it -/
theorem descs2U_pure_disj_of (trig : Option Bytes) (ds : List Desc2U) (hwf : Descs2U.wfTop trig ds)
    (hw : ((Comps.pair (Descs2U.comps ds)).enc {}).warn = 0) (hp : Descs2U.padOk ds) :
    LDisj ((Descs2U.layout ds).map Ent2.geo) :=
  ((Descs2U.footTop trig ds hwf).disj_of {} clean_empty hw ((padOk_empty_state2U ds).mpr hp)).1

theorem descs2U_pure_length (trig : Option Bytes) (ds : List Desc2U) (hwf : Descs2U.wfTop trig ds) :
    ((Comps.pair (Descs2U.comps ds)).enc {}).msg.length = Descs2U.extent ds := by
  have := (Descs2U.footTop trig ds hwf).length {}
  rw [this]
  show max 0 _ = _
  rw [Nat.zero_max]
  rfl

theorem descs2U_pure_inside (trig : Option Bytes) (ds : List Desc2U) (hwf : Descs2U.wfTop trig ds)
    (hd : LDisj ((Descs2U.layout ds).map Ent2.geo)) :
    ∀ e ∈ Descs2U.layout ds, ∀ j, j < e.bl →
      getBit ((Comps.pair (Descs2U.comps ds)).enc {}).msg (absBit e.pos e.k e.hl (j + e.bp)) = e.raw.testBit j := by
  intro e he j hj
  exact (Descs2U.footTop trig ds hwf).inside {} clean_empty hd (LFree_nil_used _) e.geo (List.mem_map.mpr ⟨e, he, rfl⟩) j hj

theorem descs2U_pure_outside (trig : Option Bytes) (ds : List Desc2U) (hwf : Descs2U.wfTop trig ds) (a : Nat)
    (h : ∀ e ∈ Descs2U.layout ds, ¬ e.claims a) : getBit ((Comps.pair (Descs2U.comps ds)).enc {}).msg a = false := by
  rw [(Descs2U.footTop trig ds hwf).outside {} a (by
    rintro ⟨e, he, hc⟩
    obtain ⟨x, hx, rfl⟩ := List.mem_map.mp he
    exact h x hx hc)]
  exact getBit_nil a

theorem descs2U_pure_cursor (trig : Option Bytes) (ds : List Desc2U) (hwf : Descs2U.wfTop trig ds) :
    ((Comps.pair (Descs2U.comps ds)).enc {}).cursorByte = Descs2U.endCursor ds :=
  (Descs2U.footTop trig ds hwf).cursor {}

theorem Descs2U.padOk_of_noSizePadding (ds : List Desc2U) (h : ∀ e ∈ Descs2U.layout ds, e.role ≠ .sizePadding) : Descs2U.padOk ds :=
  PadOk_of_noSilent _ _ h

theorem descs2U_pure_allBytes (trig : Option Bytes) (ds : List Desc2U) (hwf : Descs2U.wfTop trig ds) :
    AllBytes ((Comps.pair (Descs2U.comps ds)).enc {}).msg :=
  (MComps.good _ (Descs2U.okAllTop trig ds hwf)).allBytes {} (by intro b hb; cases hb)

end OdxVerif.Codec
