import OdxVerif.Proofs.Nil
/-! # Lemmas for C16: every mutator preserves the invariant and refines the abstract list step -/
namespace OdxVerif.Nil

/-! ## pop / remove -/

theorem perm_cons_eraseIdx {α} (l : List α) {j : Nat} (hj : j < l.length) :
    l.Perm (l[j] :: l.eraseIdx j) := by
  rw [List.eraseIdx_eq_take_drop_succ]
  have h : l = l.take j ++ l[j] :: l.drop (j + 1) := by
    rw [← List.drop_eq_getElem_cons hj, List.take_append_drop]
  have h2 : l.Perm (l.take j ++ l[j] :: l.drop (j + 1)) := List.Perm.of_eq h
  exact h2.trans List.perm_middle

/-- deleting the name bound to an object that is in the list: exactly one entry goes, one whose
    value is that object -/
theorem dropNameOf_spec {d : Dict} (hn : (d.map (·.1)).Nodup) {r : Item} (hr : r ∈ d.map (·.2)) :
    ∃ k l₁ l₂, d = l₁ ++ (k, r) :: l₂ ∧ dropNameOf d r = l₁ ++ l₂ := by
  obtain ⟨kv, hkv, hkr⟩ := List.mem_map.1 hr
  unfold dropNameOf
  cases hf : d.find? (fun kv => kv.2.same r) with
  | none =>
    have := List.find?_eq_none.1 hf kv hkv
    simp [Item.same, hkr] at this
  | some kv0 =>
    have hm := List.mem_of_find?_eq_some hf
    have hp : kv0.2 = r := by simpa [Item.same] using List.find?_some hf
    simp only [dictDel]
    obtain ⟨a, l₁, l₂, _, hpa, hd, he⟩ :=
      List.exists_of_eraseP (p := fun kv => kv.1 == kv0.1) hm (by simp)
    have hmem : a ∈ d := by rw [hd]; simp
    have : a = kv0 := entry_unique hn hmem hm (by simpa using hpa)
    subst this
    refine ⟨a.1, l₁, l₂, ?_, he⟩
    rw [hd]; cases a; simp_all

theorem popAt_ok {env : Env} {s : State} (hinv : Inv env s) {j : Nat} (hj : j < s.items.length) :
    ∃ s', popAt s j = .ok (s', s.items[j]) ∧ Inv env s' ∧ s'.items = s.items.eraseIdx j := by
  have hr : s.items[j] ∈ s.names.map (·.2) := hinv.perm.mem_iff.2 (List.getElem_mem hj)
  obtain ⟨k, l₁, l₂, hd, he⟩ := dropNameOf_spec hinv.keysNodup hr
  refine ⟨⟨s.items.eraseIdx j, dropNameOf s.names s.items[j]⟩, ?_, ?_, rfl⟩
  · simp [popAt, List.getElem?_eq_getElem hj]
  · have hsub : (dropNameOf s.names s.items[j]).Sublist s.names := by
      rw [he, hd]; exact List.Sublist.append_left (List.sublist_cons_self _ _) _
    refine ⟨?_, List.Nodup.sublist (hsub.map _) hinv.keysNodup,
      fun kv h => hinv.shape kv (hsub.subset h), fun kv h => hinv.notReserved kv (hsub.subset h)⟩
    show ((dropNameOf s.names s.items[j]).map (·.2)).Perm (s.items.eraseIdx j)
    have h1 : (s.names.map (·.2)).Perm (s.items[j] :: (dropNameOf s.names s.items[j]).map (·.2)) := by
      rw [he, hd]; simp only [List.map_append, List.map_cons]; exact List.perm_middle
    exact (h1.symm.trans (hinv.perm.trans (perm_cons_eraseIdx s.items hj))).cons_inv

theorem normIndex_some {n : Nat} {i : Int} {j : Nat} (h : normIndex n i = some j) : j < n := by
  unfold normIndex at h
  simp only at h
  by_cases hc : (if i < 0 then i + (n : Int) else i) < 0 ∨ (if i < 0 then i + (n : Int) else i) ≥ n
  · rw [if_pos hc] at h; cases h
  · rw [if_neg hc] at h
    cases h
    omega

theorem normIndex_ofNat {n j : Nat} (h : j < n) : normIndex n (Int.ofNat j) = some j := by
  unfold normIndex
  simp only
  have : ¬ ((Int.ofNat j) < 0) := by simp
  rw [if_neg this, if_neg (by simp; omega)]
  simp

/-- `pop` either raises (index out of range, state unchanged) or removes one occurrence and its name -/
theorem pop_cases {env : Env} {s : State} (hinv : Inv env s) (i : Int) :
    (normIndex s.items.length i = none ∧ pop s i = .error .raised) ∨
    (∃ j s', normIndex s.items.length i = some j ∧ ∃ hj : j < s.items.length, pop s i = .ok (s', s.items[j]) ∧
        Inv env s' ∧ s'.items = s.items.eraseIdx j) := by
  unfold pop
  cases hn : normIndex s.items.length i with
  | none => exact .inl ⟨rfl, rfl⟩
  | some j =>
    have hj := normIndex_some hn
    obtain ⟨s', h1, h2, h3⟩ := popAt_ok hinv hj
    exact .inr ⟨j, s', rfl, hj, h1, h2, h3⟩

theorem index_pred (x y : Item) : (y.same x || y.pyEq x) = (y.eqc == x.eqc) := by
  rw [Bool.eq_iff_iff]
  simp only [Item.same, Item.pyEq, Bool.or_eq_true, decide_eq_true_eq, beq_iff_eq]
  constructor
  · rintro (h | h)
    · rw [h]
    · exact h
  · exact fun h => .inr h

theorem index_eq (l : List Item) (x : Item) : index l x = l.findIdx? (fun y => y.eqc == x.eqc) := by
  unfold index
  congr 1
  funext y
  exact index_pred x y

theorem remove_cases {env : Env} {s : State} (hinv : Inv env s) (x : Item) :
    ((∀ y ∈ s.items, y.eqc ≠ x.eqc) ∧ remove s x = .error .raised) ∨
    ((∃ y ∈ s.items, y.eqc = x.eqc) ∧ ∃ s', remove s x = .ok s' ∧ Inv env s' ∧
        s'.items = s.items.eraseP (fun y => y.eqc == x.eqc)) := by
  unfold remove
  rw [List.eraseP_eq_eraseIdx, index_eq]
  cases hi : s.items.findIdx? (fun y => y.eqc == x.eqc) with
  | none =>
    left
    refine ⟨fun y hy => ?_, rfl⟩
    have := List.findIdx?_eq_none_iff.1 hi y hy
    simpa using this
  | some j =>
    right
    obtain ⟨hj, hp, _⟩ := List.findIdx?_eq_some_iff_getElem.1 hi
    refine ⟨⟨s.items[j], List.getElem_mem hj, by simpa using hp⟩, ?_⟩
    have hpop : pop s (Int.ofNat j) = popAt s j := by simp only [pop, normIndex_ofNat hj]
    obtain ⟨s', h1, h2, h3⟩ := popAt_ok hinv hj
    exact ⟨s', by simp only [hpop, h1], h2, h3⟩

/-! ## extend / rebuild -/

theorem valid_iff (x : Item) : valid x = true ↔ x.sn ≠ [] := by simp [valid]

theorem extend_spec (env : Env) (xs : List Item) : ∀ (s : State), Inv env s →
    Inv env (extend env s xs).1 ∧ (extend env s xs).1.items = s.items ++ xs.takeWhile valid ∧
    (((extend env s xs).2 = .ok ∧ ∀ x ∈ xs, valid x = true) ∨
     ((extend env s xs).2 = .raised ∧ ∃ x ∈ xs, valid x = false)) := by
  induction xs with
  | nil => intro s h; simp [extend, h]
  | cons x xs ih =>
    intro s hinv
    rcases append_cases env s x hinv with ⟨h0, h⟩ | ⟨h0, s', h, hinv', hit⟩
    · have hv : valid x = false := by simp [valid, h0]
      simp only [extend, h, List.takeWhile_cons, hv]
      exact ⟨hinv, by simp, .inr ⟨trivial, x, List.mem_cons_self .., hv⟩⟩
    · have hv : valid x = true := (valid_iff x).2 h0
      obtain ⟨i1, i2, i3⟩ := ih s' hinv'
      simp only [extend, h, List.takeWhile_cons, hv, if_true]
      refine ⟨i1, by rw [i2, hit]; simp, ?_⟩
      rcases i3 with ⟨o, a⟩ | ⟨o, y, hy, hy2⟩
      · refine .inl ⟨o, fun y hy => ?_⟩
        rcases List.mem_cons.1 hy with rfl | h'
        · exact hv
        · exact a y h'
      · exact .inr ⟨o, y, List.mem_cons_of_mem _ hy, hy2⟩

theorem takeWhile_all {α} (p : α → Bool) (l : List α) (h : ∀ x ∈ l, p x = true) : l.takeWhile p = l := by
  induction l with
  | nil => rfl
  | cons a r ih =>
    rw [List.takeWhile_cons, if_pos (h a (List.mem_cons_self ..)), ih (fun x hx => h x (List.mem_cons_of_mem _ hx))]

/-- `cls(items)` for items that are all acceptable: a consistent object holding exactly these items -/
theorem rebuild_ok (env : Env) (xs : List Item) (hv : ∀ x ∈ xs, valid x = true) :
    ∃ s', rebuild env xs = .ok s' ∧ Inv env s' ∧ s'.items = xs := by
  obtain ⟨i1, i2, i3⟩ := extend_spec env xs State.empty (inv_empty env)
  rcases i3 with ⟨o, _⟩ | ⟨_, y, hy, hy2⟩
  · refine ⟨(extend env State.empty xs).1, ?_, i1, ?_⟩
    · unfold rebuild
      generalize extend env State.empty xs = r at o
      obtain ⟨a, b⟩ := r
      simp only at o
      subst o
      rfl
    · rw [i2, takeWhile_all _ _ hv]; rfl
  · rw [hv y hy] at hy2; cases hy2

/-- all items of a consistent list have a non-empty short name -/
theorem Inv.valid_items {env : Env} {s : State} (hinv : Inv env s) : ∀ x ∈ s.items, valid x = true := by
  intro x hx
  obtain ⟨kv, hkv, rfl⟩ := List.mem_map.1 (hinv.perm.mem_iff.2 hx)
  obtain ⟨base, n, hk, _, _⟩ := hinv.shape kv hkv
  rw [valid_iff]
  intro h
  rw [itemKey_eq_none.2 h] at hk
  cases hk

theorem valid_fresh (k : Nat) (x : Item) : valid (fresh k x) = valid x := rfl

/-! ## index arithmetic of CPython lists vs. the declarative forms of the specification -/

theorem insertIdx_eq_take_drop {α} (x : α) : ∀ (l : List α) (j : Nat), j ≤ l.length →
    l.insertIdx j x = l.take j ++ x :: l.drop j := by
  intro l
  induction l with
  | nil => intro j hj; have : j = 0 := by simpa using hj
           subst this; rfl
  | cons a r ih =>
    intro j hj
    cases j with
    | zero => rfl
    | succ j =>
      simp only [List.insertIdx_succ_cons, List.take_succ_cons, List.drop_succ_cons, List.cons_append]
      rw [ih j (by simpa using hj)]

theorem normInsert_eq (n : Nat) (i : Int) :
    normInsert n i = (max 0 (min (n : Int) (if i < 0 then i + n else i))).toNat := by
  unfold normInsert
  simp only
  repeat' split
  all_goals omega

theorem normIndex_eq (n : Nat) (i : Int) :
    normIndex n i = if -(n : Int) ≤ i ∧ i < n then some (i % n).toNat else none := by
  unfold normIndex
  simp only
  by_cases hneg : i < 0
  · simp only [hneg, if_true]
    by_cases hr : -(n : Int) ≤ i
    · have h1 : ¬ (i + (n : Int) < 0 ∨ i + (n : Int) ≥ n) := by omega
      have h2 : -(n : Int) ≤ i ∧ i < n := by omega
      rw [if_neg h1, if_pos h2]
      have : i % (n : Int) = i + n := by
        rw [← Int.add_emod_right]
        exact Int.emod_eq_of_lt (by omega) (by omega)
      rw [this]
    · have h1 : (i + (n : Int) < 0 ∨ i + (n : Int) ≥ n) := by omega
      have h2 : ¬ (-(n : Int) ≤ i ∧ i < n) := by omega
      rw [if_pos h1, if_neg h2]
  · rw [if_neg hneg]
    by_cases hr : i < n
    · have h1 : ¬ (i < 0 ∨ i ≥ n) := by omega
      have h2 : -(n : Int) ≤ i ∧ i < n := by omega
      rw [if_neg h1, if_pos h2, Int.emod_eq_of_lt (by omega) hr]
    · have h1 : (i < 0 ∨ i ≥ n) := by omega
      have h2 : ¬ (-(n : Int) ≤ i ∧ i < n) := by omega
      rw [if_pos h1, if_neg h2]

/-! ## one step: invariant, refinement of the abstract list, outcome -/

theorem step_spec (env : Env) (s : State) (op : Op) (hinv : Inv env s) :
    Inv env (step env s op).1 ∧ (step env s op).1.items = absStep s.items op ∧
    (((step env s op).2 = .ok ∧ ¬ raises s.items op) ∨ ((step env s op).2 = .raised ∧ raises s.items op)) := by
  cases op with
  | append x =>
    rcases append_cases env s x hinv with ⟨h0, h⟩ | ⟨h0, s', h, hinv', hit⟩
    · have hv : valid x = false := by simp [valid, h0]
      simp only [step, h, ofExcept, absStep, hv, raises]
      exact ⟨hinv, by simp, .inr ⟨trivial, trivial⟩⟩
    · have hv : valid x = true := (valid_iff x).2 h0
      simp only [step, h, ofExcept, absStep, hv, raises, if_true]
      exact ⟨hinv', hit, .inl ⟨trivial, by simp⟩⟩
  | insert i x =>
    rcases insert_cases env s i x hinv with ⟨h0, h⟩ | ⟨h0, s', h, hinv', hit⟩
    · have hv : valid x = false := by simp [valid, h0]
      simp only [step, h, ofExcept, absStep, hv, raises]
      exact ⟨hinv, by simp, .inr ⟨trivial, trivial⟩⟩
    · have hv : valid x = true := (valid_iff x).2 h0
      simp only [step, h, ofExcept, absStep, hv, raises, if_true]
      refine ⟨hinv', ?_, .inl ⟨trivial, by simp⟩⟩
      rw [hit, insertIdx_eq_take_drop x _ _ (normInsert_le _ _), normInsert_eq]
  | extend xs =>
    obtain ⟨i1, i2, i3⟩ := extend_spec env xs s hinv
    refine ⟨i1, i2, ?_⟩
    rcases i3 with ⟨o, a⟩ | ⟨o, y, hy, hy2⟩
    · refine .inl ⟨o, ?_⟩
      rintro ⟨y, hy, hy2⟩
      rw [a y hy] at hy2; cases hy2
    · exact .inr ⟨o, y, hy, hy2⟩
  | remove x =>
    rcases remove_cases hinv x with ⟨h0, h⟩ | ⟨⟨y, hy, hy2⟩, s', h, hinv', hit⟩
    · simp only [step, h, ofExcept, absStep, raises]
      refine ⟨hinv, ?_, .inr ⟨trivial, h0⟩⟩
      rw [List.eraseP_of_forall_not]
      intro a ha
      simpa using h0 a ha
    · simp only [step, h, ofExcept, absStep, raises]
      exact ⟨hinv', hit, .inl ⟨trivial, fun hall => hall y hy hy2⟩⟩
  | pop i =>
    rcases pop_cases hinv i with ⟨h0, h⟩ | ⟨j, s', h0, hj, h, hinv', hit⟩
    · rw [normIndex_eq] at h0
      have hr : ¬ (-(s.items.length : Int) ≤ i ∧ i < s.items.length) := by
        intro hc; rw [if_pos hc] at h0; cases h0
      simp only [step, h, ofExcept, absStep, raises, Except.map, if_neg hr]
      exact ⟨hinv, trivial, .inr ⟨trivial, hr⟩⟩
    · rw [normIndex_eq] at h0
      have hr : (-(s.items.length : Int) ≤ i ∧ i < s.items.length) := by
        apply Classical.byContradiction
        intro hc; rw [if_neg hc] at h0; cases h0
      rw [if_pos hr] at h0
      cases h0
      simp only [step, h, ofExcept, absStep, raises, Except.map, if_pos hr]
      exact ⟨hinv', hit, .inl ⟨trivial, fun hc => hc hr⟩⟩
  | clear => exact ⟨inv_empty env, rfl, .inl ⟨rfl, fun h => h⟩⟩
  | copy => exact ⟨hinv, rfl, .inl ⟨rfl, fun h => h⟩⟩
  | copy2 =>
    obtain ⟨s', h, hinv', hit⟩ := rebuild_ok env s.items hinv.valid_items
    simp only [step, h, ofExcept, absStep, raises]
    exact ⟨hinv', hit, .inl ⟨trivial, fun h => h⟩⟩
  | deepcopy k =>
    obtain ⟨s', h, hinv', hit⟩ := rebuild_ok env (s.items.map (fresh k)) (by
      intro x hx
      obtain ⟨y, hy, rfl⟩ := List.mem_map.1 hx
      exact hinv.valid_items y hy)
    simp only [step, h, ofExcept, absStep, raises]
    exact ⟨hinv', hit, .inl ⟨trivial, fun h => h⟩⟩
  | pickle k =>
    obtain ⟨s', h, hinv', hit⟩ := rebuild_ok env (s.items.map (fresh k)) (by
      intro x hx
      obtain ⟨y, hy, rfl⟩ := List.mem_map.1 hx
      exact hinv.valid_items y hy)
    simp only [step, h, ofExcept, absStep, raises]
    exact ⟨hinv', hit, .inl ⟨trivial, fun h => h⟩⟩

/-- induction over the history, from any consistent starting state -/
theorem fold_spec (env : Env) (ops : List Op) : ∀ (s : State) (l : List Item), Inv env s → s.items = l →
    Inv env (ops.foldl (fun s op => (step env s op).1) s) ∧
    (ops.foldl (fun s op => (step env s op).1) s).items = ops.foldl absStep l := by
  induction ops with
  | nil => intro s l h e; exact ⟨h, e⟩
  | cons op ops ih =>
    intro s l h e
    simp only [List.foldl_cons]
    have hs := step_spec env s op h
    exact ih _ _ hs.1 (e ▸ hs.2.1)

end OdxVerif.Nil
