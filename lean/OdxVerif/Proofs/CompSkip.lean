import OdxVerif.Proofs.CompDescribed
/-! Compositional components (task W8), parameter kinds whose encoder writes NOTHING: RESERVED and NRC-CONST.
    `ReservedParameter._encode_positioned_into_pdu` / `NrcConstParameter._encode_positioned_into_pdu` only move the cursor
    behind the object (and extend the message up to there, `emplace_bytes(b"")`); they claim no bit.  The decoder reads the
    object like any other (`extract_atomic_value` as little-endian `A_UINT32` / the diag-coded type) and puts the result into
    the dictionary.  So what the decoder returns for such a parameter is not determined by the parameter: it is whatever
    the *other* parameters (or nobody: zero) put there.  "Round trip" for them therefore reads: the parameter is a component
    (`Comp.Ok`: the encoder/decoder of the model equal the pure pair, the pair composes) whose decoded value is `r` under
    the decoder precondition `decPre` = "the object's bits on the wire read as `r`" — used through `comps_roundtrip_msg_pre`,
    where that precondition is a hypothesis on the PDU.  (They are not `Comp.EndOk`, hence not constructors of `Described`.) -/
namespace OdxVerif.Codec
open OdxVerif.Bits OdxVerif.OdxM

/-- run `c` from the cursor `f origin cursor` -/
def Pair.moved {α : Type} (f : Nat → Nat → Nat) (c : Pair α) : Pair α where
  enc := fun s => c.enc { s with cursorByte := f s.origin s.cursorByte }
  dec := fun d => c.dec { d with cursorByte := f d.origin d.cursorByte }
  val := c.val
  fits := fun d => c.fits { d with cursorByte := f d.origin d.cursorByte }

theorem Good.moved {α : Type} (f : Nat → Nat → Nat) {c : Pair α} (hc : Good c) : Good (c.moved f) where
  warn_mono := fun s => hc.warn_mono { s with cursorByte := f s.origin s.cursorByte }
  frame := fun s hw a hu => hc.frame { s with cursorByte := f s.origin s.cursorByte } hw a hu
  allBytes := fun s h => hc.allBytes { s with cursorByte := f s.origin s.cursorByte } h
  len_mono := fun s => hc.len_mono { s with cursorByte := f s.origin s.cursorByte }
  origin := fun s => hc.origin { s with cursorByte := f s.origin s.cursorByte }
  rt := by
    intro s d hall hw horig hcur hdall hlen hagree
    exact hc.rt { s with cursorByte := f s.origin s.cursorByte } { d with cursorByte := f d.origin d.cursorByte } hall hw horig
      (by simp only; rw [horig, hcur]) hdall hlen hagree
  core := by
    intro s t h
    obtain ⟨h1, h2, h3, h4, h5⟩ := h
    exact hc.core _ _ ⟨h1, h2, h3, by simp only; rw [h4, h5], h5⟩

/-- the pure pair of a parameter that is skipped by the encoder: move the cursor behind the object `o`, extend the message
    up to there; the decoder moves the cursor the same way and returns the constant `v` -/
def skipPair (o : Obj) (v : PVal) : Pair PVal :=
  ((Pair.touch).moved (fun org c => o.pos org c + o.k)).map (fun _ => v)

theorem skipPair_good (o : Obj) (v : PVal) : Good (skipPair o v) := (Good.touch.moved _).map _

theorem skipPair_enc (o : Obj) (v : PVal) (s : EncState) :
    (skipPair o v).enc s = padEnc 0 { s with cursorByte := o.pos s.origin s.cursorByte + o.k } := rfl

/-- the encoder's "skip" as the model runs it: cursor to the parameter's position, forward by the object's bytes, then
    `emplace_bytes(b"")` -/
theorem encode_skip (o : Obj) (v : PVal) (s : EncState) :
    ∃ s', (emplaceBytes [] none
        { s with cursorByte := posOf o.bytePos s.origin s.cursorByte + (o.bitPos.getD 0 + o.bl + 7) / 8, cursorBit := 0 } true
          = .ok ((), s')) ∧ SameCore { s' with cursorBit := 0 } ((skipPair o v).enc s) := by
  have hemp := emplaceBytes_zeros 0
    { s with cursorByte := posOf o.bytePos s.origin s.cursorByte + (o.bitPos.getD 0 + o.bl + 7) / 8, cursorBit := 0 } rfl
  rw [show List.replicate 0 (0 : Nat) = [] from rfl] at hemp
  refine ⟨_, hemp, ?_⟩
  rw [skipPair_enc]
  have hcur : posOf o.bytePos s.origin s.cursorByte + (o.bitPos.getD 0 + o.bl + 7) / 8 = o.pos s.origin s.cursorByte + o.k := by
    have h1 : posOf o.bytePos s.origin s.cursorByte = o.pos s.origin s.cursorByte := by
      unfold posOf Obj.pos; cases o.bytePos <;> rfl
    have h2 : (o.bitPos.getD 0 + o.bl + 7) / 8 = o.k := by unfold Obj.k Obj.bp; rw [Nat.add_comm (o.bitPos.getD 0)]
    rw [h1, h2]
  have hin : SameCore
      { s with cursorByte := posOf o.bytePos s.origin s.cursorByte + (o.bitPos.getD 0 + o.bl + 7) / 8, cursorBit := 0 }
      { s with cursorByte := o.pos s.origin s.cursorByte + o.k } := ⟨rfl, rfl, rfl, hcur, rfl⟩
  have := padEnc_sameCore 0 _ _ hin
  exact ⟨this.1, this.2.1, this.2.2.1, this.2.2.2.1, this.2.2.2.2⟩

/-! ### RESERVED -/

/-- the object a RESERVED parameter is decoded as: `A_UINT32`, low-high byte order, no encoding -/
def reservedObj (n : String) (bp bitp : Option Nat) (bl : Nat) : Obj := ⟨n, bp, bitp, none, false, bl, .uint32⟩

/-- decoding a RESERVED parameter = decoding the VALUE parameter over that object -/
theorem decodeParam_reserved (f : Nat) (n : String) (bp bitp : Option Nat) (bl : Nat) (d : DecState) (st : Bool) :
    decodeParam (f + 1) (.mk n bp bitp (.reserved bl)) d st = decodeParam (f + 2) (reservedObj n bp bitp bl).toParam d st := by
  simp only [decodeParam, decodeDop, decodeDct, reservedObj, Obj.toParam, Obj.bt, bind, pure]

/-- a RESERVED parameter of `bl` bits (1 … 64) whose bits on the wire read as `r` -/
def Comp.reserved (n : String) (bp bitp : Option Nat) (bl : Nat) (r : Nat) : Comp where
  param := .mk n bp bitp (.reserved bl)
  pair := skipPair (reservedObj n bp bitp bl) (.atom (.int r))
  sup := none
  need := 1
  cur := fun org c => (reservedObj n bp bitp bl).pos org c + (reservedObj n bp bitp bl).k
  decPre := fun d =>
    (reservedObj n bp bitp bl).pos d.origin d.cursorByte + (reservedObj n bp bitp bl).k ≤ d.msg.length ∧
    (decStep (reservedObj n bp bitp bl) d).1 = .int r

theorem Comp.reserved_ok (n : String) (bp bitp : Option Nat) (bl : Nat) (r : Nat) (h1 : 1 ≤ bl) (h64 : bl ≤ 64) :
    (Comp.reserved n bp bitp bl r).Ok where
  good := skipPair_good _ _
  notKey := rfl
  supplied := fun h => by cases h
  sup_ne_none := by simp [Comp.reserved]
  encode_eq := by
    intro fuel hf s _
    obtain ⟨f, rfl⟩ : ∃ f, fuel = f + 1 := ⟨fuel - 1, by simp only [Comp.reserved] at hf; omega⟩
    obtain ⟨s', hrun, hcore⟩ := encode_skip (reservedObj n bp bitp bl) (.atom (.int r)) s
    refine ⟨{ s' with cursorBit := 0 }, ?_, hcore⟩
    have hrun' : emplaceBytes [] none
        { s with cursorByte := posOf bp s.origin s.cursorByte + (bitp.getD 0 + bl + 7) / 8, cursorBit := 0 } true = .ok ((), s') := hrun
    cases bp <;>
    · simp only [posOf] at hrun'
      simp only [Comp.reserved, encodeParam, bind, run_bind, run_modifyS]
      rw [hrun']
  enc_cursor := fun _ => rfl
  cur_shift := by
    intro org c p
    simp only [Comp.reserved, Obj.pos_shift]
    omega
  dec_cursorBit := fun _ h => h
  dec_msg := fun _ => rfl
  dec_origin := fun _ => rfl
  decode_eq := by
    intro fuel hf d hcb _ hpre
    obtain ⟨f, rfl⟩ : ∃ f, fuel = f + 1 := ⟨fuel - 1, by simp only [Comp.reserved] at hf; omega⟩
    have hok : (reservedObj n bp bitp bl).ok := ⟨Or.inl rfl, h1, h64⟩
    have h := decodeParam_obj (reservedObj n bp bitp bl) hok f d hpre.1 (Obj.decodes_of_int _ (Or.inr rfl) _)
    simp only [Comp.reserved]
    rw [decodeParam_reserved, h, hpre.2]
    have hst : (decStep (reservedObj n bp bitp bl) d).2 =
        { d with cursorByte := (reservedObj n bp bitp bl).pos d.origin d.cursorByte + (reservedObj n bp bitp bl).k } := by
      show ({ d with cursorByte := _, cursorBit := 0 } : DecState) = _
      rw [← hcb]
    rw [hst]
    rfl

/-! ### NRC-CONST -/

/-- decoding an NRC-CONST parameter whose coded value on the wire is one of the listed values = decoding the CODED-CONST -/
theorem decodeParam_nrcConst_of_const (f : Nat) (n : String) (bp bitp : Option Nat) (dct : Dct) (v0 : IVal) (values : List IVal)
    (d : DecState) (x : IVal) (d' : DecState)
    (h : decodeParam f (.mk n bp bitp (.codedConst dct v0)) d true = .ok (.atom x, d')) (hx : values.contains x = true) :
    decodeParam f (.mk n bp bitp (.nrcConst dct values)) d true = .ok (.atom x, d') := by
  cases f with
  | zero => simp [decodeParam, raise] at h
  | succ f =>
    simp only [decodeParam, bind, pure, run_bind, run_modifyS, run_pure] at h ⊢
    generalize decodeDct dct _ true = r at h ⊢
    cases r with
    | error e => simp at h
    | ok q =>
      obtain ⟨v, d1⟩ := q
      simp only [Except.ok.injEq, Prod.mk.injEq, PVal.atom.injEq] at h
      obtain ⟨hv, hd⟩ := h
      subst hv
      simp only [hx, if_true, run_pure, hd]

/-- an NRC-CONST parameter over the standard-length object `o` with the coded values `values`; its coded value on the wire
    reads as `r` (one of `values`: otherwise the decoder raises `DecodeMismatch`) -/
def Comp.nrcConst (o : Obj) (values : List IVal) (r : IVal) : Comp where
  param := .mk o.name o.bytePos o.bitPos (.nrcConst (.std o.bt o.enc o.hl o.bl none false) values)
  pair := skipPair o (.atom r)
  sup := none
  need := 1
  cur := fun org c => o.pos org c + o.k
  decPre := fun d => o.fitsIn d ∧ (decStep o d).1 = r

theorem Comp.nrcConst_ok (o : Obj) (values : List IVal) (r : IVal) (ho : o.ok) (hr : values.contains r = true) :
    (Comp.nrcConst o values r).Ok where
  good := skipPair_good _ _
  notKey := rfl
  supplied := fun h => by cases h
  sup_ne_none := by simp [Comp.nrcConst]
  encode_eq := by
    intro fuel hf s _
    obtain ⟨f, rfl⟩ : ∃ f, fuel = f + 1 := ⟨fuel - 1, by simp only [Comp.nrcConst] at hf; omega⟩
    obtain ⟨s', hrun, hcore⟩ := encode_skip o (.atom r) s
    refine ⟨{ s' with cursorBit := 0 }, ?_, hcore⟩
    cases hb : o.bytePos <;>
    · simp only [hb, posOf] at hrun
      simp only [Comp.nrcConst, hb, encodeParam, Dct.staticBitLen, bind, run_bind, run_modifyS, run_getS,
        Option.isSome_none, Bool.false_eq_true, if_false]
      rw [hrun]
  enc_cursor := fun _ => rfl
  cur_shift := by
    intro org c p
    simp only [Comp.nrcConst, Obj.pos_shift]
    omega
  dec_cursorBit := fun _ h => h
  dec_msg := fun _ => rfl
  dec_origin := fun _ => rfl
  decode_eq := by
    intro fuel hf d hcb _ hpre
    obtain ⟨f, rfl⟩ : ∃ f, fuel = f + 1 := ⟨fuel - 1, by simp only [Comp.nrcConst] at hf; omega⟩
    have h := decodeParam_const_obj o ho r f d hpre.1.1 hpre.1.2
    rw [hpre.2] at h
    have h2 := decodeParam_nrcConst_of_const _ _ _ _ _ _ values _ _ _ h hr
    simp only [Comp.nrcConst]
    rw [h2]
    have hst : (decStep o d).2 = { d with cursorByte := o.pos d.origin d.cursorByte + o.k } := by
      show ({ d with cursorByte := _, cursorBit := 0 } : DecState) = _
      rw [← hcb]
    rw [hst]
    rfl

/-! ### bridge: the tier-2 parameters (`Tree`, `Proofs/ComposeMsg.lean`) are components -/

/-- a tier-2 parameter (VALUE / CODED-CONST leaf or nested structure of such, all values supplied) as a component, through
    the generic bridge `Comp.ofGItem` -/
def Tree.toComp (t : Tree) : Comp := Comp.ofGItem (FItem.item (.tree t)).toG t.cursor

theorem Tree.toComp_ok (t : Tree) (hok : t.okAll) (hn : t.namesOk) : t.toComp.Ok ∧ t.toComp.EndOk :=
  ⟨Comp.ofGItem_ok _ (FItem.toG_ok (.item (.tree t)) ⟨hok, hn⟩) _ (fun s => (Tree.enc_cursor t s).1) (Tree.cursor_shift t)
    (Tree.dec_origin t), Comp.ofGItem_endOk _ (FItem.toG_ok (.item (.tree t)) ⟨hok, hn⟩) _⟩

end OdxVerif.Codec
