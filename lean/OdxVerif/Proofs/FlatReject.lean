import OdxVerif.Proofs.FlatMsg
/-! Flat tier, rejection side (C04): for *arbitrary* supplied values — missing, `None`, wrongly typed, not an
    atom, out of range — the strict encoder of the model ends in the library's encode error; unknown
    parameter names end in a plain `OdxError`. Together with `encodeMessage_flat` this gives a complete case
    split of `Request.encode` on flat descriptions. -/
namespace OdxVerif.Codec
open OdxVerif.Bits OdxVerif.OdxM

/-- the value the caller supplied for the object, if it is an integer the object can represent -/
def Obj.pick (values : List (String × PVal)) (o : Obj) : Option Int :=
  match lookup o.name values with
  | some (.atom (.int v)) => if int32RangeOk o.enc o.bl v then some v else none
  | _ => none

theorem Obj.pick_some (values : List (String × PVal)) (o : Obj) (ho : o.ok) (v : Int) (h : o.pick values = some v) :
    lookup o.name values = some (.atom (.int v)) ∧ int32InRange o.enc o.bl v := by
  unfold Obj.pick at h
  split at h
  · rename_i w hw
    split at h
    · rename_i hr
      simp only [Option.some.injEq] at h
      subst h
      exact ⟨hw, (rangeOk_iff o.enc o.bl ho.2.1 w).mp hr⟩
    · cases h
  · cases h

/-- a value that is not a representable integer is rejected by the parameter's encoder with `EncodeError` -/
theorem encodeParam_obj_bad (o : Obj) (ho : o.ok) (values : List (String × PVal)) (hp : o.pick values = none)
    (fuel : Nat) (s : EncState) :
    ∃ s', encodeParam (fuel + 2) o.toParam (lookupV o.name values) s true = .error (.encode, s') := by
  obtain ⟨hk, hbl, hbl64⟩ := ho
  unfold Obj.pick at hp
  cases hl : lookup o.name values with
  | none =>
    simp [lookupV, hl, Obj.toParam, encodeParam, bind, run_bind, run_modifyS, odxraise]
  | some pv =>
    rw [hl] at hp
    cases pv with
    | none =>
      simp [lookupV, hl, Obj.toParam, encodeParam, bind, run_bind, run_modifyS, odxraise]
    | list xs =>
      simp [lookupV, hl, Obj.toParam, encodeParam, encodeDop, bind, run_bind, run_modifyS, run_raise]
    | dict xs =>
      simp [lookupV, hl, Obj.toParam, encodeParam, encodeDop, bind, run_bind, run_modifyS, run_raise]
    | atom a =>
      cases a with
      | int v =>
        simp only at hp
        have hr : ¬ int32InRange o.enc o.bl v := by
          intro h
          rw [(rangeOk_iff o.enc o.bl hbl v).mpr h] at hp
          simp at hp
        have hrej := fun (s : EncState) => emplaceAtomic_int32_reject o.enc hk o.bl hbl v hr o.hl none s
        simp [lookupV, hl, Obj.toParam, encodeParam, encodeDop, encodeDct, typeAdmits, bind, run_bind, run_modifyS,
          run_ite, hrej]
      | flt b =>
        simp [lookupV, hl, Obj.toParam, encodeParam, encodeDop, typeAdmits, bind, run_bind, run_modifyS, run_raise, run_ite]
      | bytes b =>
        simp [lookupV, hl, Obj.toParam, encodeParam, encodeDop, typeAdmits, bind, run_bind, run_modifyS, run_raise, run_ite]
      | str b =>
        simp [lookupV, hl, Obj.toParam, encodeParam, encodeDop, typeAdmits, bind, run_bind, run_modifyS, run_raise, run_ite]

/-- if some object of the list has no representable value, the first loop of the composite encoder fails
    with `EncodeError` -/
theorem encodeParams_objs_bad (os : List Obj) (hok : ∀ o ∈ os, o.ok) (values : List (String × PVal)) (eop : Bool)
    (extra : Nat) (hbad : ∃ o ∈ os, o.pick values = none) :
    ∀ (s : EncState), ∃ s', encodeParams eop values (os.length + 2 + extra) (os.map Obj.toParam) s true =
      .error (.encode, s') := by
  induction os with
  | nil => obtain ⟨o, ho, _⟩ := hbad; cases ho
  | cons o rest ih =>
    intro s
    have ho := hok o (List.mem_cons_self ..)
    have e1 : (o :: rest).length + 2 + extra = (rest.length + 2 + extra) + 1 := by simp; omega
    have e2 : rest.length + 2 + extra = rest.length + extra + 2 := by omega
    let sm : EncState := if rest.isEmpty then { s with isEndOfPdu := eop } else s
    cases hp : o.pick values with
    | none =>
      -- this object is the one that is rejected: either by the "required parameter" check or by its own encoder
      obtain ⟨s', hbadp⟩ := encodeParam_obj_bad o ho values hp (rest.length + extra) sm
      rw [e1]
      simp only [List.map_cons, encodeParams, Obj.toParam]
      simp only [Obj.toParam] at hbadp
      rw [e2]
      cases hl : lookup o.name values with
      | none =>
        by_cases hre : rest.isEmpty = true
        · simp [bind, run_bind, run_modifyS, run_ite, hre, odxraise]
        · have hre' : rest.isEmpty = false := by simpa using hre
          simp [bind, run_bind, run_modifyS, run_ite, hre', odxraise]
      | some pv =>
        refine ⟨s', ?_⟩
        by_cases hre : rest.isEmpty = true
        · have hsm' : sm = { s with isEndOfPdu := eop } := by simp [sm, hre]
          simp only [bind, List.isEmpty_map, hre, if_true, run_bind, run_modifyS, Option.isNone_some, Bool.and_false,
            Bool.false_eq_true, if_false, pure, run_pure]
          rw [← hsm', hbadp]
        · have hsm' : sm = s := by simp [sm, hre]
          have hre' : rest.isEmpty = false := by simpa using hre
          simp only [bind, List.isEmpty_map, hre', Bool.false_eq_true, if_false, run_bind, Option.isNone_some,
            Bool.and_false, pure, run_pure]
          rw [← hsm', hbadp]
    | some v =>
      -- this object is fine; the bad one comes later
      obtain ⟨hl, hr⟩ := Obj.pick_some values o ho v hp
      have hlV : lookupV o.name values = some (.atom (.int v)) := by simp only [lookupV, hl]
      have hstep := encodeParam_obj o ho v hr (rest.length + extra) sm
      have hbad' : ∃ o' ∈ rest, o'.pick values = none := by
        obtain ⟨o', ho', hp'⟩ := hbad
        rcases List.mem_cons.mp ho' with h | h
        · subst h; rw [hp] at hp'; cases hp'
        · exact ⟨o', h, hp'⟩
      obtain ⟨s', hrun⟩ := ih (fun x hx => hok x (List.mem_cons_of_mem _ hx)) hbad' (encStep o v sm)
      refine ⟨s', ?_⟩
      rw [e1]
      simp only [List.map_cons, encodeParams, Obj.toParam]
      simp only [bind, hl, hlV, Option.isNone_some, Bool.and_false, Bool.false_eq_true, if_false, pure, run_pure]
      simp only [Obj.toParam] at hstep hrun
      rw [e2] at hrun ⊢
      by_cases hre : rest.isEmpty = true
      · have hsm' : sm = { s with isEndOfPdu := eop } := by simp [sm, hre]
        simp only [List.isEmpty_map, hre, if_true, run_bind, run_modifyS]
        rw [← hsm', hstep]
        simp only []
        exact hrun
      · have hsm' : sm = s := by simp [sm, hre]
        have hre' : rest.isEmpty = false := by simpa using hre
        simp only [List.isEmpty_map, hre', Bool.false_eq_true, if_false, run_bind]
        rw [← hsm', hstep]
        simp only []
        exact hrun

/-- `Request.encode` with a parameter name the description does not know: plain `OdxError` -/
theorem encodeMessage_flat_unknown (os : List Obj) (values : List (String × PVal)) (trig : Option Bytes)
    (hunk : values.any (fun kv => !((os.map Obj.toParam).any fun p => p.name == kv.1)) = true) :
    encodeMessage none (os.map Obj.toParam) (.dict values) trig true = .error .odx := by
  have hf1 : modelFuel = 4094 + 1 + 1 := by unfold modelFuel; omega
  unfold encodeMessage
  rw [hf1]
  simp only [encodeDop, encodeComposite, bind, pure, run_bind, run_getS, run_modifyS, run_pure, run_ite, hunk,
    if_true, odxraise, ne_eq, not_true_eq_false, if_false]

/-- `Request.encode` when some object has no representable value: `EncodeError` -/
theorem encodeMessage_flat_bad (os : List Obj) (hlen : os.length ≤ 4000) (hok : ∀ o ∈ os, o.ok)
    (values : List (String × PVal)) (trig : Option Bytes)
    (hknown : values.any (fun kv => !((os.map Obj.toParam).any fun p => p.name == kv.1)) = false)
    (hbad : ∃ o ∈ os, o.pick values = none) :
    encodeMessage none (os.map Obj.toParam) (.dict values) trig true = .error .encode := by
  have hf1 : modelFuel = (os.length + 2 + (4092 - os.length)) + 1 + 1 := by unfold modelFuel; omega
  obtain ⟨s', hrun⟩ := encodeParams_objs_bad os hok values true (4092 - os.length) hbad
    { trig := trig, isEndOfPdu := false }
  unfold encodeMessage
  rw [hf1]
  simp only [encodeDop, encodeComposite, bind, pure, run_bind, run_getS, run_modifyS, run_pure, run_ite, hknown,
    Bool.false_eq_true, if_false, ne_eq, not_true_eq_false]
  have hrun' : encodeParams true values (os.length + 2 + (4092 - os.length)) (os.map Obj.toParam)
      { trig := trig, isEndOfPdu := false } true = .error (.encode, s') := hrun
  rw [hrun']

end OdxVerif.Codec
