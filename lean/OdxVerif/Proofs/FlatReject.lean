import OdxVerif.Proofs.FlatMsg
/-! Flat tier, rejection side (C04): for *arbitrary* supplied values — missing, `None`, wrongly typed, not an
    atom, out of range — the strict encoder of the model ends in the library's encode error; unknown
    parameter names end in a plain `OdxError`. Together with `encodeMessage_flat` this gives a complete case
    split of `Request.encode` on flat descriptions. -/
namespace OdxVerif.Codec
open OdxVerif.Bits OdxVerif.OdxM

/-- the value the caller supplied for the object, if it is one the object can represent -/
def Obj.pick (values : List (String × PVal)) (o : Obj) : Option IVal :=
  match lookup o.name values with
  | some (.atom v) => if o.accepts v then some v else none
  | _ => none

theorem Obj.pick_some (values : List (String × PVal)) (o : Obj) (ho : o.ok) (v : IVal) (h : o.pick values = some v) :
    lookup o.name values = some (.atom v) ∧ o.inRange v := by
  unfold Obj.pick at h
  split at h
  · rename_i w hw
    split at h
    · rename_i hr
      simp only [Option.some.injEq] at h
      subst h
      exact ⟨hw, (o.accepts_iff ho w).mp hr⟩
    · cases h
  · cases h

/-- the library's own error classes of the encoder -/
def EncErr (e : Err) : Prop := e = .encode ∨ e = .odx

/-- an `A_UINT32` value that is negative or too wide is rejected -/
theorem emplaceAtomic_uint32_reject (enc : Option Enc) (he : enc = none ∨ enc = some .none_) (bl : Nat) (i : Int)
    (hr : ¬ (0 ≤ i ∧ i < 2 ^ bl)) (hl : Bool) :
    ∃ e, EncErr e ∧ ∀ s : EncState, emplaceAtomic (.int i) bl .uint32 enc hl none s true = .error (e, s) := by
  by_cases h64 : 64 < bl
  · exact ⟨.encode, Or.inl rfl, fun s => by simp [emplaceAtomic, bind, run_bind, run_ite, run_raise, h64]⟩
  by_cases hneg : i < 0
  · refine ⟨.odx, Or.inr rfl, fun s => ?_⟩
    simp [emplaceAtomic, rawOfUInt32, bind, run_bind, run_ite, run_raise, h64, hneg, odxraise]
  · have hge : (2:Int) ^ bl ≤ i := by omega
    have hnat : i.natAbs = i.toNat := by omega
    have hbit : bl < bitLength i.toNat := by
      apply Nat.lt_of_not_le
      intro hle
      have := (bitLength_le_iff _ _).mp hle
      have : ((2 ^ bl : Nat) : Int) = (2:Int) ^ bl := by simp
      omega
    refine ⟨.encode, Or.inl rfl, fun s => ?_⟩
    rcases he with rfl | rfl <;>
      simp [emplaceAtomic, rawOfUInt32, bind, pure, run_bind, run_ite, run_pure, run_raise, h64, hneg, hnat, hbit, odxraise]

/-- a value the object cannot represent is rejected by the parameter's encoder with `EncodeError` (or, for a
    negative `A_UINT32`, a plain `OdxError`) -/
theorem encodeParam_obj_bad (o : Obj) (ho : o.ok) (hint : o.isInt) (values : List (String × PVal))
    (hp : o.pick values = none) (fuel : Nat) (s : EncState) :
    ∃ e s', encodeParam (fuel + 2) o.toParam (lookupV o.name values) s true = .error (e, s') ∧ EncErr e := by
  obtain ⟨hk, hbl, hbl64⟩ := ho
  unfold Obj.isInt at hint
  unfold Obj.pick at hp
  cases hl : lookup o.name values with
  | none =>
    refine ⟨.encode, ?_, ?_, Or.inl rfl⟩
    rotate_left
    · simp [lookupV, hl, Obj.toParam, encodeParam, bind, run_bind, run_modifyS, odxraise]
      rfl
  | some pv =>
    rw [hl] at hp
    cases pv with
    | none =>
      refine ⟨.encode, ?_, ?_, Or.inl rfl⟩
      rotate_left
      · simp [lookupV, hl, Obj.toParam, encodeParam, bind, run_bind, run_modifyS, odxraise]
        rfl
    | list xs =>
      refine ⟨.encode, ?_, ?_, Or.inl rfl⟩
      rotate_left
      · simp [lookupV, hl, Obj.toParam, encodeParam, encodeDop, bind, run_bind, run_modifyS, run_raise]
        rfl
    | dict xs =>
      refine ⟨.encode, ?_, ?_, Or.inl rfl⟩
      rotate_left
      · simp [lookupV, hl, Obj.toParam, encodeParam, encodeDop, bind, run_bind, run_modifyS, run_raise]
        rfl
    | pair n x =>
      refine ⟨.encode, ?_, ?_, Or.inl rfl⟩
      rotate_left
      · simp [lookupV, hl, Obj.toParam, encodeParam, encodeDop, bind, run_bind, run_modifyS, run_raise]
        rfl
    | keyed k x =>
      refine ⟨.encode, ?_, ?_, Or.inl rfl⟩
      rotate_left
      · simp [lookupV, hl, Obj.toParam, encodeParam, encodeDop, bind, run_bind, run_modifyS, run_raise]
        rfl
    | nokey x =>
      refine ⟨.encode, ?_, ?_, Or.inl rfl⟩
      rotate_left
      · simp [lookupV, hl, Obj.toParam, encodeParam, encodeDop, bind, run_bind, run_modifyS, run_raise]
        rfl
    | dtc c =>
      refine ⟨.encode, ?_, ?_, Or.inl rfl⟩
      rotate_left
      · simp [lookupV, hl, Obj.toParam, encodeParam, encodeDop, bind, run_bind, run_modifyS, run_raise]
        rfl
    | atom a =>
      simp only at hp
      have hacc : o.accepts a = false := by
        cases h : o.accepts a
        · rfl
        · rw [h] at hp; simp at hp
      unfold Obj.accepts at hacc
      unfold Obj.encOk at hk
      cases hkind : o.kind <;> simp only [hkind, reduceCtorEq, or_self, or_false, false_or] at hint <;>
        cases a <;> simp only [hkind] at hacc hk
      -- integer atoms: out of range
      case int32.int v =>
        have hr : ¬ int32InRange o.enc o.bl v := by
          intro h
          rw [(rangeOk_iff o.enc o.bl hbl v).mpr h] at hacc
          cases hacc
        have hrej := fun (s : EncState) => emplaceAtomic_int32_reject o.enc hk o.bl hbl v hr o.hl none s
        refine ⟨.encode, ?_, ?_, Or.inl rfl⟩
        rotate_left
        · simp [lookupV, hl, Obj.toParam, Obj.bt, hkind, encodeParam, encodeDop, encodeDct, typeAdmits, bind, run_bind,
            run_modifyS, hrej]
          rfl
      case uint32.int v =>
        have hr : ¬ (0 ≤ v ∧ v < 2 ^ o.bl) := by
          intro h
          simp [h.1, h.2] at hacc
        obtain ⟨e, he, hrej⟩ := emplaceAtomic_uint32_reject o.enc hk o.bl v hr o.hl
        refine ⟨e, ?_, ?_, he⟩
        rotate_left
        · simp [lookupV, hl, Obj.toParam, Obj.bt, hkind, encodeParam, encodeDop, encodeDct, typeAdmits, bind, run_bind,
            run_modifyS, hrej]
          rfl
      -- every other atom: wrong Python type
      all_goals
        refine ⟨.encode, ?_, ?_, Or.inl rfl⟩
        rotate_left
        · simp [lookupV, hl, Obj.toParam, Obj.bt, hkind, encodeParam, encodeDop, typeAdmits, bind, run_bind, run_modifyS, run_raise]
          rfl

/-- if some object of the list has no representable value, the first loop of the composite encoder fails
    with `EncodeError` (or `OdxError` for a negative unsigned value) -/
theorem encodeParams_objs_bad (os : List Obj) (hok : ∀ o ∈ os, o.ok ∧ o.isInt) (values : List (String × PVal)) (eop : Bool)
    (extra : Nat) (hbad : ∃ o ∈ os, o.pick values = none) :
    ∀ (s : EncState), ∃ e s', encodeParams eop values (os.length + 2 + extra) (os.map Obj.toParam) s true =
      .error (e, s') ∧ EncErr e := by
  induction os with
  | nil => obtain ⟨o, ho, _⟩ := hbad; cases ho
  | cons o rest ih =>
    intro s
    obtain ⟨ho, hoi⟩ := hok o (List.mem_cons_self ..)
    have e1 : (o :: rest).length + 2 + extra = (rest.length + 2 + extra) + 1 := by simp; omega
    have e2 : rest.length + 2 + extra = rest.length + extra + 2 := by omega
    let sm : EncState := if rest.isEmpty then { s with isEndOfPdu := eop } else s
    cases hp : o.pick values with
    | none =>
      -- this object is the one that is rejected: either by the "required parameter" check or by its own encoder
      obtain ⟨e, s', hbadp, he⟩ := encodeParam_obj_bad o ho hoi values hp (rest.length + extra) sm
      rw [e1]
      simp only [List.map_cons, encodeParams, Obj.toParam]
      simp only [Obj.toParam] at hbadp
      rw [e2]
      cases hl : lookup o.name values with
      | none =>
        by_cases hre : rest.isEmpty = true
        · refine ⟨.encode, ?_, ?_, Or.inl rfl⟩
          rotate_left
          · simp [bind, run_bind, run_modifyS, hre, odxraise]
            rfl
        · have hre' : rest.isEmpty = false := by simpa using hre
          refine ⟨.encode, ?_, ?_, Or.inl rfl⟩
          rotate_left
          · simp [bind, run_bind, hre', odxraise]
            rfl
      | some pv =>
        refine ⟨e, s', ?_, he⟩
        by_cases hre : rest.isEmpty = true
        · have hsm' : sm = { s with isEndOfPdu := eop } := by simp [sm, hre]
          simp only [bind, List.isEmpty_map, hre, if_true, run_bind, run_modifyS, Option.isNone_some, Bool.and_false,
            Bool.false_eq_true, if_false]
          rw [← hsm', hbadp]
        · have hsm' : sm = s := by simp [sm, hre]
          have hre' : rest.isEmpty = false := by simpa using hre
          simp only [bind, List.isEmpty_map, hre', Bool.false_eq_true, if_false, run_bind, Option.isNone_some,
            Bool.and_false]
          rw [← hsm', hbadp]
    | some v =>
      -- this object is fine; the bad one comes later
      obtain ⟨hl, hr⟩ := Obj.pick_some values o ho v hp
      have hlV : lookupV o.name values = some (.atom v) := by simp only [lookupV, hl]
      have hstep := encodeParam_obj o ho v hr (rest.length + extra) sm
      have hbad' : ∃ o' ∈ rest, o'.pick values = none := by
        obtain ⟨o', ho', hp'⟩ := hbad
        rcases List.mem_cons.mp ho' with h | h
        · subst h; rw [hp] at hp'; cases hp'
        · exact ⟨o', h, hp'⟩
      obtain ⟨e, s', hrun, he⟩ := ih (fun x hx => hok x (List.mem_cons_of_mem _ hx)) hbad' (encStep o v sm)
      refine ⟨e, s', ?_, he⟩
      rw [e1]
      simp only [List.map_cons, encodeParams, Obj.toParam]
      simp only [bind, hl, hlV, Option.isNone_some, Bool.and_false, Bool.false_eq_true, if_false]
      simp only [Obj.toParam] at hstep hrun
      rw [e2] at hrun ⊢
      by_cases hre : rest.isEmpty = true
      · have hsm' : sm = { s with isEndOfPdu := eop } := by simp [sm, hre]
        simp only [List.isEmpty_map, hre, if_true, run_bind, run_modifyS]
        rw [← hsm', hstep]
        simp only []
        exact hrun
      · have hsm' : sm = s := by simp [sm, hre]
        have hre' : rest.isEmpty = false := by simpa using hre
        simp only [List.isEmpty_map, hre', Bool.false_eq_true, if_false, run_bind]
        rw [← hsm', hstep]
        simp only []
        exact hrun

/-- `Request.encode` with a parameter name the description does not know: plain `OdxError` -/
theorem encodeMessage_flat_unknown (os : List Obj) (values : List (String × PVal)) (trig : Option Bytes)
    (hunk : values.any (fun kv => !((os.map Obj.toParam).any fun p => p.name == kv.1)) = true) :
    encodeMessage none (os.map Obj.toParam) (.dict values) trig true = .error .odx := by
  have hf1 : modelFuel = 4094 + 1 + 1 := by unfold modelFuel; omega
  unfold encodeMessage
  rw [hf1]
  simp only [encodeDop, encodeComposite, bind, pure, run_bind, run_getS, run_modifyS, run_pure, run_ite, hunk,
    if_true, odxraise, ne_eq, not_true_eq_false, if_false]

/-- `Request.encode` when some object has no representable value: `EncodeError` / `OdxError` -/
theorem encodeMessage_flat_bad (os : List Obj) (hlen : os.length ≤ 4000) (hok : ∀ o ∈ os, o.ok ∧ o.isInt)
    (values : List (String × PVal)) (trig : Option Bytes)
    (hknown : values.any (fun kv => !((os.map Obj.toParam).any fun p => p.name == kv.1)) = false)
    (hbad : ∃ o ∈ os, o.pick values = none) :
    ∃ e, encodeMessage none (os.map Obj.toParam) (.dict values) trig true = .error e ∧ EncErr e := by
  have hf1 : modelFuel = (os.length + 2 + (4092 - os.length)) + 1 + 1 := by unfold modelFuel; omega
  obtain ⟨e, s', hrun, he⟩ := encodeParams_objs_bad os hok values true (4092 - os.length) hbad
    { trig := trig, isEndOfPdu := false }
  refine ⟨e, ?_, he⟩
  unfold encodeMessage
  rw [hf1]
  simp only [encodeDop, encodeComposite, bind, pure, run_bind, run_getS, run_modifyS, run_pure, run_ite, hknown,
    Bool.false_eq_true, if_false, ne_eq, not_true_eq_false]
  have hrun' : encodeParams true values (os.length + 2 + (4092 - os.length)) (os.map Obj.toParam)
      { trig := trig, isEndOfPdu := false } true = .error (e, s') := hrun
  rw [hrun']

end OdxVerif.Codec
