import OdxVerif.Proofs.DynLeafMsg
/-! LEADING-LENGTH-INFO-TYPE leaves (`LeadingLengthInfoType.encode_into_pdu` / `decode_from_pdu`; model: `encodeDct .leading`,
    `decodeDct .leading`): an unsigned length prefix of BIT-LENGTH bits at the parameter's byte/bit position, then that many
    bytes of A_BYTEFIELD / string payload. Core Lean only. -/
set_option linter.unusedSimpArgs false
namespace OdxVerif.Codec
open OdxVerif.Bits OdxVerif.OdxM

/-- an `A_UINT32` object of `bl` bits at the current cursor (byte *and* bit) -/
def curObj (hl : Bool) (bl : Nat) (cursorBit : Nat) : Obj :=
  { name := "", bytePos := none, bitPos := some cursorBit, enc := none, hl := hl, bl := bl, kind := .uint32 }

/-- `emplace_atomic_value` of an unsigned number that fits into `bl ≤ 64` bits, at the current byte/bit cursor -/
theorem emplaceAtomic_uint (bl : Nat) (hbl : 1 ≤ bl) (h64 : bl ≤ 64) (hl : Bool) (n : Nat) (hn : n < 2 ^ bl) (s : EncState) :
    emplaceAtomic (.int n) bl .uint32 none hl none s true = .ok ((), encStep (curObj hl bl s.cursorBit) (.int n) s) := by
  have hb0 : bl ≠ 0 := by omega
  have hge : ¬ (2 ^ bl ≤ n) := by omega
  have h64' : ¬ (64 < bl) := by omega
  have hmask : ∀ bp, ¬ (256 ^ ((bl + bp + 7) / 8) ≤ (2 ^ bl - 1) * 2 ^ bp) := fun bp => Nat.not_le.mpr (mask_fits bl bp)
  have hraw := rawOfUInt32_ok none (Or.inl rfl) bl (n : Int) (by omega) (by exact_mod_cast hn)
  simp [emplaceAtomic, emplaceBytes, bind, pure, run_ite, run_bind, run_pure, run_getS, run_setS, run_modifyS, run_raise,
    BaseType.isNumeric, hraw, hb0, hge, hmask, h64']
  cases hl <;> simp [encStep, curObj, Obj.raw, Obj.pos, Obj.k, Obj.bp, Obj.mask, ord, toBytesBE_length]

/-- `extract_atomic_value` of `bl ≤ 64` bits of `A_UINT32` at the current byte/bit cursor -/
theorem extractAtomic_uint (bl : Nat) (hbl : 1 ≤ bl) (h64 : bl ≤ 64) (hl : Bool) (d : DecState)
    (hlen : d.cursorByte + (bl + d.cursorBit + 7) / 8 ≤ d.msg.length) :
    extractAtomic bl .uint32 none hl d true =
      .ok ((decStep (curObj hl bl d.cursorBit) d).1, (decStep (curObj hl bl d.cursorBit) d).2) := by
  have hb0 : bl ≠ 0 := by omega
  have h64' : ¬ (64 < bl) := by omega
  have hnl : ¬ (d.msg.length < d.cursorByte + (bl + d.cursorBit + 7) / 8) := Nat.not_lt.mpr hlen
  simp [extractAtomic, extractCore, convertRaw, uint32OfRaw, bind, pure, run_bind, run_pure, run_getS, run_modifyS, run_ite,
    run_raise, BaseType.isNumeric, hb0, hnl, h64', decStep, curObj, Obj.ofRaw, Obj.pos, Obj.k, Obj.bp]


/-- `emplace_atomic_value(v, 8·len(raw), bt)` (no BASE-TYPE-ENCODING) at a byte-aligned cursor = the payload pair's encoder -/
theorem emplaceAtomic_payload {bt : BaseType} {hl : Bool} {v : IVal} {raw : Bytes} (hp : Payload bt none hl v raw)
    (s : EncState) (hcb : s.cursorBit = 0) :
    emplaceAtomic v (8 * raw.length) bt none hl none s true = .ok ((), (Pair.bytesAt raw).enc s) := by
  rcases hp.2 with ⟨rfl, rfl, _⟩ | ⟨hs, codec, cps, hcodec, rfl, henc, _⟩
  · exact emplaceAtomic_bytesAt raw hp.1 hl s hcb
  · by_cases hne : raw = []
    · subst hne
      simp only [Pair.bytesAt, if_true]
      cases bt <;> first
        | exact absurd hs (by decide)
        | simp [emplaceAtomic, fitBytes, bind, pure, run_bind, run_pure, odxassert, ofBytesBE, hcodec, henc,
            emplaceBytes_raw [] s hcb]
    · have hn : 1 ≤ raw.length := by
        cases raw with
        | nil => exact absurd rfl hne
        | cons b bs => simp
      have hok := bytesObj_ok raw.length hn
      have hr : (bytesObj raw.length).inRange (.bytes raw) := ⟨rfl, hp.1⟩
      obtain ⟨hlt, -⟩ := (bytesObj raw.length).raw_spec hok _ hr
      have hlt' : ofBytesBE raw < 2 ^ (8 * raw.length) := hlt
      have hge : ¬ (2 ^ (8 * raw.length) ≤ ofBytesBE raw) := by omega
      have hb0 : 8 * raw.length ≠ 0 := by omega
      have hk : (8 * raw.length + 7) / 8 = raw.length := by omega
      have hmask : ¬ (256 ^ raw.length ≤ 2 ^ (8 * raw.length) - 1) := by
        have := mask_fits (8 * raw.length) 0
        simp only [Nat.add_zero, hk, Nat.pow_zero, Nat.mul_one] at this
        omega
      simp only [Pair.bytesAt, hne, if_false]
      cases bt <;> first
        | exact absurd hs (by decide)
        | (simp [emplaceAtomic, emplaceBytes, fitBytes, bind, pure, run_ite, run_bind, run_pure, run_getS, run_setS,
            run_raise, BaseType.isNumeric, hb0, hge, hmask, hcb, hk, toBytesBE_length, hcodec, henc]
           simp [encStep, bytesObj, Obj.raw, Obj.pos, Obj.k, Obj.bp, Obj.mask, ord, toBytesBE_length, hk])

/-- the byte length `LeadingLengthInfoType.encode_into_pdu` computes for the prefix -/
def leadByteLen (bt : BaseType) (v : IVal) : Option Nat :=
  match bt, v with
  | .bytefield, .bytes b => some b.length
  | .unicode2, .str cps => (Text.encode .utf16le cps).map (·.length)
  | .ascii, .str cps | .utf8, .str cps => (Text.encode .utf8 cps).map (·.length)
  | _, _ => none

/-- a LEADING-LENGTH-INFO-TYPE VALUE parameter with its value -/
structure LeadLeaf where
  name : String
  bytePos : Option Nat
  bitPos : Option Nat
  bt : BaseType
  enc : Option Enc          -- ignored by the codec (the payload is coded without BASE-TYPE-ENCODING)
  hl : Bool
  bitLen : Nat
  v : IVal
  raw : Bytes

def LeadLeaf.dct (l : LeadLeaf) : Dct := .leading l.bt l.enc l.hl l.bitLen
def LeadLeaf.toParam (l : LeadLeaf) : Param := .mk l.name l.bytePos l.bitPos (.value (.simple l.dct l.bt .identical) none)

/-- the length prefix as a positioned `A_UINT32` object -/
def LeadLeaf.lenObj (l : LeadLeaf) : Obj :=
  { name := "", bytePos := l.bytePos, bitPos := l.bitPos, enc := none, hl := l.hl, bl := l.bitLen, kind := .uint32 }

/-- prefix of 1 … 64 bits that can hold the length; the value's bytes; the length the encoder writes is their number
    (byte fields: always; strings: the encoder measures `len(value.encode("utf-8"))` resp. UTF-16, so e.g. an
    A_ASCIISTRING value must be 7-bit for the two to agree) -/
def LeadLeaf.ok (l : LeadLeaf) : Prop :=
  1 ≤ l.bitLen ∧ l.bitLen ≤ 64 ∧ l.raw.length < 2 ^ l.bitLen ∧ Payload l.bt none l.hl l.v l.raw ∧
  leadByteLen l.bt l.v = some l.raw.length

theorem LeadLeaf.lenObj_ok (l : LeadLeaf) (h : l.ok) : l.lenObj.ok :=
  ⟨Or.inl rfl, h.1, h.2.1⟩

theorem LeadLeaf.len_inRange (l : LeadLeaf) (h : l.ok) : l.lenObj.inRange (.int l.raw.length) := by
  refine ⟨by omega, ?_⟩
  have := h.2.2.1
  show ((l.raw.length : Nat) : Int) < 2 ^ l.bitLen
  exact_mod_cast this

def LeadLeaf.pair0 (l : LeadLeaf) : Pair (IVal × Bytes) :=
  (Pair.ofObj l.lenObj (.int l.raw.length)).seq (Pair.bytesAt l.raw)

/-- prefix, then payload; the decoder's `fits` records that the prefix read is the payload's length -/
def LeadLeaf.pair (l : LeadLeaf) : Pair PVal where
  enc := l.pair0.enc
  dec := fun d => (.atom l.v, (l.pair0.dec d).2)
  val := .atom l.v
  fits := fun d => l.pair0.fits d ∧ (decStep l.lenObj d).1 = .int l.raw.length

theorem LeadLeaf.good (l : LeadLeaf) (h : l.ok) : Good l.pair := by
  refine Good.reDec ((Good.ofObj l.lenObj (l.lenObj_ok h) _ (l.len_inRange h)).seq (Good.bytesAt l.raw h.2.2.2.1.1))
    l.pair rfl ?_
  intro d _ hv hfit
  refine ⟨rfl, rfl, hfit, ?_⟩
  have : ((decStep l.lenObj d).1, _) = (IVal.int l.raw.length, l.raw) := hv
  exact (Prod.mk.inj this).1


/-- **`LeadingLengthInfoType.encode_into_pdu`**: the prefix at the current byte/bit cursor, then the payload -/
theorem encodeDct_leading (l : LeadLeaf) (h : l.ok) (s : EncState) :
    encodeDct l.dct l.v s true =
      .ok ((), (Pair.bytesAt l.raw).enc (encStep (curObj l.hl l.bitLen s.cursorBit) (.int l.raw.length) s)) := by
  obtain ⟨hbl, h64, hlt, hp, hlen⟩ := h
  have h1 := emplaceAtomic_uint l.bitLen hbl h64 l.hl l.raw.length hlt s
  have h2 := emplaceAtomic_payload hp (encStep (curObj l.hl l.bitLen s.cursorBit) (.int l.raw.length) s) rfl
  rcases hp.2 with ⟨hbt, hv, _⟩ | ⟨hs, codec, cps, hcodec, hv, henc, _⟩
  · rw [hbt, hv] at h2
    simp only [LeadLeaf.dct, encodeDct, hbt, hv, bind, run_bind, pure, run_pure] at h1 h2 ⊢
    rw [h1]
    exact h2
  · rw [hv] at h2 hlen
    cases hbt : l.bt <;> rw [hbt] at hs h2 hlen <;> first
      | exact absurd hs (by decide)
      | (simp only [leadByteLen, Option.map_eq_some_iff] at hlen
         obtain ⟨r, hr, hrl⟩ := hlen
         simp only [LeadLeaf.dct, encodeDct, hbt, hv, hr, hrl, bind, run_bind, pure, run_pure] at h1 h2 ⊢
         rw [h1]
         exact h2)

theorem LeadLeaf.encodeParam_eq (l : LeadLeaf) (h : l.ok) (fuel : Nat) (s : EncState) :
    encodeParam (fuel + 2) l.toParam (some (.atom l.v)) s true =
      .ok ((), { (Pair.bytesAt l.raw).enc (encStep (curObj l.hl l.bitLen (l.bitPos.getD 0)) (.int l.raw.length)
                  { s with cursorByte := posOf l.bytePos s.origin s.cursorByte, cursorBit := l.bitPos.getD 0 })
                 with cursorBit := 0 }) := by
  have hta := h.2.2.2.1.typeAdmits
  have hrun := encodeDct_leading l h { s with cursorByte := posOf l.bytePos s.origin s.cursorByte, cursorBit := l.bitPos.getD 0 }
  cases hb : l.bytePos <;>
  · simp only [hb, posOf] at hrun
    simp only [LeadLeaf.toParam, hb, encodeParam, encodeDop, bind, pure, run_bind, run_modifyS, run_pure, run_ite, hta,
      Bool.not_true, Bool.false_eq_true, if_false, posOf, hrun]

theorem LeadLeaf.encode_eq (l : LeadLeaf) (h : l.ok) (fuel : Nat) (hf : 2 ≤ fuel) (s : EncState) :
    ∃ s', encodeParam fuel l.toParam (some l.pair.val) s true = .ok ((), s') ∧ SameCore s' (l.pair.enc s) := by
  obtain ⟨f, rfl⟩ : ∃ f, fuel = f + 2 := ⟨fuel - 2, by omega⟩
  refine ⟨_, l.encodeParam_eq h f s, ?_⟩
  have hg := Good.bytesAt l.raw h.2.2.2.1.1
  have hc : SameCore (encStep (curObj l.hl l.bitLen (l.bitPos.getD 0)) (.int l.raw.length)
        { s with cursorByte := posOf l.bytePos s.origin s.cursorByte, cursorBit := l.bitPos.getD 0 })
      (encStep l.lenObj (.int l.raw.length) s) := by
    cases hb : l.bytePos <;>
    · simp only [encStep, curObj, LeadLeaf.lenObj, Obj.pos, Obj.k, Obj.bp, Obj.mask, Obj.raw, hb, Option.getD_some, posOf]
      exact ⟨rfl, rfl, rfl, rfl, rfl⟩
  have := hg.core _ _ hc
  exact ⟨this.1, this.2.1, this.2.2.1, this.2.2.2.1, this.2.2.2.2⟩


/-- **`LeadingLengthInfoType.decode_from_pdu`** on a message whose prefix reads `len(raw)` and that carries `raw` behind it -/
theorem decodeDct_leading (l : LeadLeaf) (h : l.ok) (d : DecState)
    (hlen : d.cursorByte + (l.bitLen + d.cursorBit + 7) / 8 ≤ d.msg.length)
    (hn : (decStep (curObj l.hl l.bitLen d.cursorBit) d).1 = .int l.raw.length)
    (hall : AllBytes d.msg)
    (hfit : d.cursorByte + (l.bitLen + d.cursorBit + 7) / 8 + l.raw.length ≤ d.msg.length)
    (hraw : (d.msg.drop (d.cursorByte + (l.bitLen + d.cursorBit + 7) / 8)).take l.raw.length = l.raw) :
    decodeDct l.dct d true =
      .ok (l.v, { d with cursorByte := d.cursorByte + (l.bitLen + d.cursorBit + 7) / 8 + l.raw.length, cursorBit := 0 }) := by
  obtain ⟨hbl, h64, _, hp, _⟩ := h
  have h1 := extractAtomic_uint l.bitLen hbl h64 l.hl d hlen
  rw [hn] at h1
  have h2 := extractAtomic_payload hp (decStep (curObj l.hl l.bitLen d.cursorBit) d).2 rfl hfit hall hraw
  simp only [LeadLeaf.dct, decodeDct, bind, run_bind, h1, Int.toNat_natCast]
  exact h2

theorem LeadLeaf.decode_eq (l : LeadLeaf) (h : l.ok) (fuel : Nat) (hf : 2 ≤ fuel) (d : DecState) (hfit : l.pair.fits d) :
    decodeParam fuel l.toParam d true = .ok ((l.pair.dec d).1, (l.pair.dec d).2) := by
  obtain ⟨f, rfl⟩ : ∃ f, fuel = f + 2 := ⟨fuel - 2, by omega⟩
  obtain ⟨⟨hfo, hb, hall, hraw⟩, hn⟩ := hfit
  have hlen := ofObj_fits_len _ _ d hfo
  cases hbp : l.bytePos <;>
  · simp only [LeadLeaf.lenObj, Pair.ofObj, decStep, Obj.pos, Obj.k, Obj.bp, hbp] at hlen hb hraw hn
    have hrun := decodeDct_leading l h { d with cursorByte := posOf l.bytePos d.origin d.cursorByte, cursorBit := l.bitPos.getD 0 }
      (by simp only [hbp, posOf]; exact hlen)
      (by simp only [hbp, posOf, decStep, curObj, Obj.pos, Obj.k, Obj.bp, Option.getD_some]; exact hn)
      hall (by simp only [hbp, posOf]; exact hb) (by simp only [hbp, posOf]; exact hraw)
    simp only [hbp, posOf] at hrun
    simp only [LeadLeaf.toParam, hbp, decodeParam, decodeDop, bind, pure, run_bind, run_modifyS, run_pure, hrun]
    simp only [LeadLeaf.pair, LeadLeaf.pair0, Pair.seq, Pair.ofObj, Pair.bytesAt, decStep, LeadLeaf.lenObj, Obj.pos, Obj.k,
      Obj.bp, hbp]

def LeadLeaf.toG (l : LeadLeaf) : GItem := { name := l.name, param := l.toParam, pair := l.pair, need := 2 }

/-- the LEADING-LENGTH-INFO-TYPE parameter is a `GItem.Ok`: it composes with every other top-level parameter, anywhere -/
theorem LeadLeaf.toG_ok (l : LeadLeaf) (h : l.ok) : l.toG.Ok :=
  { good := l.good h, kind := Or.inl ⟨_, _, _, rfl⟩,
    val_ne_none := by show PVal.atom l.v ≠ PVal.none; simp,
    encode_eq := fun fuel hf s _ => l.encode_eq h fuel hf s,
    dec_cursorBit := fun _ _ => rfl,
    dec_msg := fun _ => rfl,
    decode_eq := fun fuel hf d _ hfit _ => l.decode_eq h fuel hf d hfit,
    decPre_of_end := fun _ _ => trivial, decPre_trivial := fun _ _ => trivial }

end OdxVerif.Codec
