import OdxVerif.Model.Text
import OdxVerif.Proofs.Bits
/-! Round trips of the text / float conversions of `Model/Text.lean`:
    * the exact part of the binary64 ↔ binary32 conversion (`f64to32?` / `f32to64?`) is a bijection between the binary64
      patterns it accepts and the binary32 patterns `f32to64?` accepts;
    * UTF-8: `utf8Dec` inverts `utf8Enc1` on every list of code points the encoder accepts, and every byte string the
      strict decoder accepts is the encoding of what it returns (no overlong forms, no surrogates): `Proofs/TextRT.lean`;
    * UTF-16 (both byte orders): `Proofs/TextRT16.lean`. Core Lean only. -/
namespace OdxVerif.Text
open OdxVerif.Bits

/-! ### binary64 ↔ binary32, exact part -/

theorem f32to64_f64to32 (b r : Nat) (hb : b < 2 ^ 64) (h : f64to32? b = some r) :
    r < 2 ^ 32 ∧ f32to64? r = some b := by
  unfold f64to32? at h
  simp only [] at h
  have hs : b / 2 ^ 63 % 2 = b / 2 ^ 63 := by omega
  split at h
  · rename_i hc
    injection h with h; subst h
    refine ⟨by omega, ?_⟩
    unfold f32to64?
    have e1 : b / 2 ^ 63 % 2 * 2 ^ 31 / 2 ^ 23 % 256 = 0 := by omega
    have e2 : b / 2 ^ 63 % 2 * 2 ^ 31 % 2 ^ 23 = 0 := by omega
    have e3 : b / 2 ^ 63 % 2 * 2 ^ 31 / 2 ^ 31 % 2 = b / 2 ^ 63 % 2 := by omega
    simp only [e1, e2, e3, and_self, if_true, Option.some.injEq]
    omega
  · split at h
    · rename_i hc
      injection h with h; subst h
      refine ⟨by omega, ?_⟩
      unfold f32to64?
      have e1 : (b / 2 ^ 63 % 2 * 2 ^ 31 + 255 * 2 ^ 23) / 2 ^ 23 % 256 = 255 := by omega
      have e2 : (b / 2 ^ 63 % 2 * 2 ^ 31 + 255 * 2 ^ 23) % 2 ^ 23 = 0 := by omega
      have e3 : (b / 2 ^ 63 % 2 * 2 ^ 31 + 255 * 2 ^ 23) / 2 ^ 31 % 2 = b / 2 ^ 63 % 2 := by omega
      simp only [e1, e2, e3]
      simp only [show ¬ ((255 : Nat) = 0) by decide, false_and, if_false, and_self, if_true, Option.some.injEq]
      omega
    · split at h
      · rename_i hc
        injection h with h; subst h
        obtain ⟨h1, h2, h3⟩ := hc
        have hm : b % 2 ^ 52 / 2 ^ 29 < 2 ^ 23 := by omega
        have he : 1 ≤ b / 2 ^ 52 % 2048 - 896 ∧ b / 2 ^ 52 % 2048 - 896 ≤ 254 := by omega
        generalize hE : b / 2 ^ 52 % 2048 - 896 = E at *
        generalize hM : b % 2 ^ 52 / 2 ^ 29 = M at *
        generalize hS : b / 2 ^ 63 % 2 = S at *
        have hS2 : S < 2 := by omega
        refine ⟨by omega, ?_⟩
        unfold f32to64?
        have e1 : (S * 2 ^ 31 + E * 2 ^ 23 + M) / 2 ^ 23 % 256 = E := by omega
        have e2 : (S * 2 ^ 31 + E * 2 ^ 23 + M) % 2 ^ 23 = M := by omega
        have e3 : (S * 2 ^ 31 + E * 2 ^ 23 + M) / 2 ^ 31 % 2 = S := by omega
        simp only [e1, e2, e3]
        have n1 : ¬ (E = 0 ∧ M = 0) := by omega
        have n2 : ¬ (E = 255 ∧ M = 0) := by omega
        have n3 : 1 ≤ E ∧ E ≤ 254 := he
        simp only [n1, n2, n3, if_false, and_self, if_true, Option.some.injEq]
        omega
      · cases h

theorem f64to32_f32to64 (r b : Nat) (hr : r < 2 ^ 32) (h : f32to64? r = some b) :
    b < 2 ^ 64 ∧ f64to32? b = some r := by
  unfold f32to64? at h
  simp only [] at h
  have hs : r / 2 ^ 31 % 2 = r / 2 ^ 31 := by omega
  generalize hS : r / 2 ^ 31 % 2 = S at *
  have hS2 : S < 2 := by omega
  split at h
  · rename_i hc
    injection h with h; subst h
    refine ⟨by omega, ?_⟩
    unfold f64to32?
    have e1 : S * 2 ^ 63 / 2 ^ 52 % 2048 = 0 := by omega
    have e2 : S * 2 ^ 63 % 2 ^ 52 = 0 := by omega
    have e3 : S * 2 ^ 63 / 2 ^ 63 % 2 = S := by omega
    simp only [e1, e2, e3, and_self, if_true, Option.some.injEq]
    omega
  · split at h
    · rename_i hc
      injection h with h; subst h
      refine ⟨by omega, ?_⟩
      unfold f64to32?
      have e1 : (S * 2 ^ 63 + 2047 * 2 ^ 52) / 2 ^ 52 % 2048 = 2047 := by omega
      have e2 : (S * 2 ^ 63 + 2047 * 2 ^ 52) % 2 ^ 52 = 0 := by omega
      have e3 : (S * 2 ^ 63 + 2047 * 2 ^ 52) / 2 ^ 63 % 2 = S := by omega
      simp only [e1, e2, e3]
      simp only [show ¬ ((2047 : Nat) = 0) by decide, false_and, if_false, and_self, if_true, Option.some.injEq]
      omega
    · split at h
      · rename_i hc
        injection h with h; subst h
        generalize hE : r / 2 ^ 23 % 256 = E at *
        generalize hM : r % 2 ^ 23 = M at *
        have hM2 : M < 2 ^ 23 := by omega
        refine ⟨by omega, ?_⟩
        unfold f64to32?
        have e1 : (S * 2 ^ 63 + (E + 896) * 2 ^ 52 + M * 2 ^ 29) / 2 ^ 52 % 2048 = E + 896 := by omega
        have e2 : (S * 2 ^ 63 + (E + 896) * 2 ^ 52 + M * 2 ^ 29) % 2 ^ 52 = M * 2 ^ 29 := by omega
        have e3 : (S * 2 ^ 63 + (E + 896) * 2 ^ 52 + M * 2 ^ 29) / 2 ^ 63 % 2 = S := by omega
        simp only [e1, e2, e3]
        have n1 : ¬ (E + 896 = 0 ∧ M * 2 ^ 29 = 0) := by omega
        have n2 : ¬ (E + 896 = 2047 ∧ M * 2 ^ 29 = 0) := by omega
        have n3 : 1023 - 126 ≤ E + 896 ∧ E + 896 ≤ 1023 + 127 ∧ M * 2 ^ 29 % 2 ^ 29 = 0 := by omega
        simp only [n1, n2, n3, if_false, and_self, if_true, Option.some.injEq]
        omega
      · cases h

/-! ### UTF-8 -/

theorem map_cons_eq_some {f : Option (List Nat)} {c : Nat} {cps : List Nat} (h : f.map (c :: ·) = some cps) :
    ∃ cps', f = some cps' ∧ cps = c :: cps' := by
  cases f with
  | none => cases h
  | some x => exact ⟨x, rfl, by injection h with h; exact h.symm⟩

/-- one encoded code point in front of `rest` is decoded to that code point; its bytes are bytes -/
theorem utf8Enc1_spec (c : Nat) (bs : Bytes) (h : utf8Enc1 c = some bs) :
    AllBytes bs ∧ 1 ≤ bs.length ∧ ∀ fuel rest, utf8Dec (fuel + 1) (bs ++ rest) = (utf8Dec fuel rest).map (c :: ·) := by
  unfold utf8Enc1 at h
  split at h
  · rename_i h1
    injection h with h; subst h
    refine ⟨by intro b hb; simp at hb; omega, by simp, ?_⟩
    intro fuel rest
    simp only [List.cons_append, List.nil_append, utf8Dec, h1, if_true]
  · split at h
    · rename_i h1 h2
      injection h with h; subst h
      refine ⟨by intro b hb; simp at hb; omega, by simp, ?_⟩
      intro fuel rest
      have a1 : ¬ (0xC0 + c / 64 < 0x80) := by omega
      have a2 : 0xC2 ≤ 0xC0 + c / 64 ∧ 0xC0 + c / 64 < 0xE0 := by omega
      have a3 : isCont (0x80 + c % 64) = true := by simp [isCont]; omega
      have a4 : (0xC0 + c / 64 - 0xC0) * 64 + (0x80 + c % 64 - 0x80) = c := by omega
      simp only [List.cons_append, List.nil_append, utf8Dec, a1, a2, a3, a4, if_true, if_false, and_self]
    · split at h
      · rename_i h1 h2 h3
        split at h
        · cases h
        · rename_i h4
          injection h with h; subst h
          refine ⟨by intro b hb; simp at hb; omega, by simp, ?_⟩
          intro fuel rest
          have a1 : ¬ (0xE0 + c / 4096 < 0x80) := by omega
          have a2 : ¬ (0xC2 ≤ 0xE0 + c / 4096 ∧ 0xE0 + c / 4096 < 0xE0) := by omega
          have a3 : 0xE0 ≤ 0xE0 + c / 4096 ∧ 0xE0 + c / 4096 < 0xF0 := by omega
          have a4 : isCont (0x80 + c / 64 % 64) = true := by simp [isCont]; omega
          have a5 : isCont (0x80 + c % 64) = true := by simp [isCont]; omega
          have a6 : (0xE0 + c / 4096 - 0xE0) * 4096 + (0x80 + c / 64 % 64 - 0x80) * 64 + (0x80 + c % 64 - 0x80) = c := by omega
          have a7 : decide (0x800 ≤ c) = true := by simp; omega
          have a8 : isSurrogate c = false := by simpa using h4
          simp only [List.cons_append, List.nil_append, utf8Dec, a1, a2, a3, a4, a5, a6, a7, a8, if_true, if_false, and_self,
            Bool.and_self, Bool.not_false]
      · split at h
        · rename_i h1 h2 h3 h4
          injection h with h; subst h
          refine ⟨by intro b hb; simp at hb; omega, by simp, ?_⟩
          intro fuel rest
          have a1 : ¬ (0xF0 + c / 262144 < 0x80) := by omega
          have a2 : ¬ (0xC2 ≤ 0xF0 + c / 262144 ∧ 0xF0 + c / 262144 < 0xE0) := by omega
          have a3 : ¬ (0xE0 ≤ 0xF0 + c / 262144 ∧ 0xF0 + c / 262144 < 0xF0) := by omega
          have a3' : 0xF0 ≤ 0xF0 + c / 262144 ∧ 0xF0 + c / 262144 < 0xF5 := by omega
          have a4 : isCont (0x80 + c / 4096 % 64) = true := by simp [isCont]; omega
          have a4' : isCont (0x80 + c / 64 % 64) = true := by simp [isCont]; omega
          have a5 : isCont (0x80 + c % 64) = true := by simp [isCont]; omega
          have a6 : (0xF0 + c / 262144 - 0xF0) * 262144 + (0x80 + c / 4096 % 64 - 0x80) * 4096 + (0x80 + c / 64 % 64 - 0x80) * 64
              + (0x80 + c % 64 - 0x80) = c := by omega
          have a7 : decide (0x10000 ≤ c) = true := by simp; omega
          have a8 : decide (c < 0x110000) = true := by simp; omega
          simp only [List.cons_append, List.nil_append, utf8Dec, a1, a2, a3, a3', a4, a4', a5, a6, a7, a8, if_true, if_false,
            and_self, Bool.and_self]
        · cases h

theorem mapM_cons_some {f : Nat → Option Bytes} {c : Nat} {cs : List Nat} {bss : List Bytes}
    (h : (c :: cs).mapM f = some bss) : ∃ b bs', f c = some b ∧ cs.mapM f = some bs' ∧ bss = b :: bs' := by
  rw [List.mapM_cons] at h
  cases hb : f c with
  | none => simp [hb] at h
  | some b =>
    cases hbs : cs.mapM f with
    | none => simp [hb, hbs] at h
    | some bs' =>
      simp [hb, hbs] at h
      exact ⟨b, bs', rfl, rfl, h.symm⟩

theorem utf8Dec_nil (fuel : Nat) : utf8Dec fuel [] = some [] := by
  cases fuel <;> simp [utf8Dec]

theorem utf8Dec_mapM (cps : List Nat) : ∀ (bss : List Bytes), cps.mapM utf8Enc1 = some bss →
    AllBytes bss.flatten ∧ ∀ fuel, bss.flatten.length ≤ fuel → utf8Dec fuel bss.flatten = some cps := by
  induction cps with
  | nil =>
    intro bss h
    simp at h; subst h
    exact ⟨by intro b hb; simp at hb, fun fuel _ => utf8Dec_nil fuel⟩
  | cons c cs ih =>
    intro bss h
    obtain ⟨b, bs', h1, h2, rfl⟩ := mapM_cons_some h
    obtain ⟨hall, hlen, hdec⟩ := utf8Enc1_spec c b h1
    obtain ⟨ihall, ihdec⟩ := ih bs' h2
    refine ⟨?_, ?_⟩
    · intro x hx
      simp only [List.flatten_cons, List.mem_append] at hx
      rcases hx with hx | hx
      · exact hall x hx
      · exact ihall x hx
    · intro fuel hf
      simp only [List.flatten_cons, List.length_append] at hf ⊢
      obtain ⟨f, rfl⟩ : ∃ f, fuel = f + 1 := ⟨fuel - 1, by omega⟩
      rw [hdec f, ihdec f (by omega)]
      rfl

/-- **UTF-8 round trip, encode then decode**: for every list of code points the encoder accepts (Unicode scalar
    values: `< 0x110000`, no surrogates) the strict decoder returns exactly that list; the encoding consists of bytes -/
theorem utf8_decode_encode (cps : List Nat) (bs : Bytes) (h : encode .utf8 cps = some bs) :
    AllBytes bs ∧ decode .utf8 bs = some cps := by
  unfold encode at h
  simp only [] at h
  cases hm : cps.mapM utf8Enc1 with
  | none => simp [hm] at h
  | some bss =>
    simp [hm] at h; subst h
    obtain ⟨h1, h2⟩ := utf8Dec_mapM cps bss hm
    exact ⟨h1, h2 _ (Nat.le_refl _)⟩

/-- one step of the strict decoder: the bytes it consumes are the encoding of the code point it produces -/
theorem utf8Dec_step (fuel b0 : Nat) (rest : Bytes) (cps : List Nat) (h : utf8Dec (fuel + 1) (b0 :: rest) = some cps) :
    ∃ c cps' pre rest', b0 :: rest = pre ++ rest' ∧ utf8Enc1 c = some pre ∧ utf8Dec fuel rest' = some cps' ∧
      cps = c :: cps' := by
  simp only [utf8Dec] at h
  split at h
  · rename_i h1
    obtain ⟨cps', h2, rfl⟩ := map_cons_eq_some h
    exact ⟨b0, cps', [b0], rest, rfl, by simp [utf8Enc1, h1], h2, rfl⟩
  · rename_i h1
    split at h
    · rename_i h2
      cases rest with
      | nil => cases h
      | cons b1 r =>
        simp only [] at h
        split at h
        · rename_i h3
          obtain ⟨cps', h4, rfl⟩ := map_cons_eq_some h
          simp only [isCont, Bool.and_eq_true, decide_eq_true_eq] at h3
          refine ⟨_, cps', [b0, b1], r, rfl, ?_, h4, rfl⟩
          unfold utf8Enc1
          have c1 : ¬ ((b0 - 0xC0) * 64 + (b1 - 0x80) < 0x80) := by omega
          have c2 : (b0 - 0xC0) * 64 + (b1 - 0x80) < 0x800 := by omega
          have c3 : 0xC0 + ((b0 - 0xC0) * 64 + (b1 - 0x80)) / 64 = b0 := by omega
          have c4 : 0x80 + ((b0 - 0xC0) * 64 + (b1 - 0x80)) % 64 = b1 := by omega
          simp only [c1, c2, c3, c4, if_true, if_false]
        · cases h
    · rename_i h2
      split at h
      · rename_i h3
        cases rest with
        | nil => cases h
        | cons b1 r =>
          cases r with
          | nil => cases h
          | cons b2 r =>
            simp only [] at h
            split at h
            · rename_i h4
              obtain ⟨cps', h5, rfl⟩ := map_cons_eq_some h
              simp only [isCont, isSurrogate, Bool.and_eq_true, decide_eq_true_eq, Bool.not_eq_true', Bool.and_eq_false_iff,
                decide_eq_false_iff_not] at h4
              refine ⟨_, cps', [b0, b1, b2], r, rfl, ?_, h5, rfl⟩
              unfold utf8Enc1
              generalize hc : (b0 - 0xE0) * 4096 + (b1 - 0x80) * 64 + (b2 - 0x80) = c at *
              have c1 : ¬ (c < 0x80) := by omega
              have c2 : ¬ (c < 0x800) := by omega
              have c3 : c < 0x10000 := by omega
              have c4 : isSurrogate c = false := by simp [isSurrogate]; omega
              have c5 : 0xE0 + c / 4096 = b0 := by omega
              have c6 : 0x80 + c / 64 % 64 = b1 := by omega
              have c7 : 0x80 + c % 64 = b2 := by omega
              simp only [c1, c2, c3, c4, c5, c6, c7, if_true, if_false, Bool.false_eq_true]
            · cases h
      · rename_i h3
        split at h
        · rename_i h4
          cases rest with
          | nil => cases h
          | cons b1 r =>
            cases r with
            | nil => cases h
            | cons b2 r =>
              cases r with
              | nil => cases h
              | cons b3 r =>
                simp only [] at h
                split at h
                · rename_i h5
                  obtain ⟨cps', h6, rfl⟩ := map_cons_eq_some h
                  simp only [isCont, Bool.and_eq_true, decide_eq_true_eq] at h5
                  refine ⟨_, cps', [b0, b1, b2, b3], r, rfl, ?_, h6, rfl⟩
                  unfold utf8Enc1
                  generalize hc : (b0 - 0xF0) * 262144 + (b1 - 0x80) * 4096 + (b2 - 0x80) * 64 + (b3 - 0x80) = c at *
                  have c1 : ¬ (c < 0x80) := by omega
                  have c2 : ¬ (c < 0x800) := by omega
                  have c3 : ¬ (c < 0x10000) := by omega
                  have c4 : c < 0x110000 := by omega
                  have c5 : 0xF0 + c / 262144 = b0 := by omega
                  have c6 : 0x80 + c / 4096 % 64 = b1 := by omega
                  have c7 : 0x80 + c / 64 % 64 = b2 := by omega
                  have c8 : 0x80 + c % 64 = b3 := by omega
                  simp only [c1, c2, c3, c4, c5, c6, c7, c8, if_true, if_false]
                · cases h
        · cases h

theorem utf8Enc_dec (fuel : Nat) : ∀ (bs : Bytes) (cps : List Nat), utf8Dec fuel bs = some cps →
    (cps.mapM utf8Enc1).map List.flatten = some bs := by
  induction fuel with
  | zero =>
    intro bs cps h
    cases bs with
    | nil => simp [utf8Dec] at h; subst h; rfl
    | cons b r => simp [utf8Dec] at h
  | succ fuel ih =>
    intro bs cps h
    cases bs with
    | nil => simp [utf8Dec] at h; subst h; rfl
    | cons b0 rest =>
      obtain ⟨c, cps', pre, rest', e1, e2, e3, rfl⟩ := utf8Dec_step fuel b0 rest cps h
      have := ih rest' cps' e3
      cases hm : cps'.mapM utf8Enc1 with
      | none => simp [hm] at this
      | some bss =>
        simp [hm] at this
        rw [List.mapM_cons, e2, hm, e1, ← this]
        rfl

/-- **UTF-8 round trip, decode then encode**: every byte string the strict decoder accepts is the encoding of the
    code points it returns (shortest forms only, no surrogates, nothing above U+10FFFF) -/
theorem utf8_encode_decode (bs : Bytes) (cps : List Nat) (h : decode .utf8 bs = some cps) : encode .utf8 cps = some bs :=
  utf8Enc_dec bs.length bs cps h

end OdxVerif.Text
