import OdxVerif.Proofs.SimAtomic
/-! `Sim` (strict success ⇒ identical lenient result) for the compu-method layer of the codec (`Model/CodecCompu.lean`) and
    the length-key checks that use it: every `odxraise` site of `linearcompumethod.py`, `linearsegment.py`,
    `texttablecompumethod.py`, and the ones in `DataObjectProperty.encode_into_pdu / decode_from_pdu` and
    `LengthKeyParameter` that the LINEAR / TEXTTABLE arms add, is an `OdxM.odxraise`; none of them sits inside a handler. -/
namespace OdxVerif.Codec
open OdxVerif.OdxM OdxVerif.Bits

theorem sim_methodP2I {σ : Type} (m : Compu.Method) (p : Compu.Val) : Sim (methodP2I m p : OdxM σ Compu.Val) := by
  unfold methodP2I
  cases m <;> simp only [] <;> sim

theorem sim_methodI2P {σ : Type} (arith : Err) (m : Compu.Method) (i : Compu.Val) :
    Sim (methodI2P arith m i : OdxM σ (Option Compu.Val)) := by
  unfold methodI2P
  cases m <;> simp only [] <;> sim

macro "simc" : tactic => `(tactic| repeat (first
    | exact sim_methodP2I _ _ | exact sim_methodI2P _ _ _ | sim_step | split))

theorem sim_dopP2I {σ : Type} (m : Compu.Method) (v : IVal) : Sim (dopP2I m v : OdxM σ IVal) := by
  unfold dopP2I
  simc

theorem sim_dopI2P {σ : Type} (m : Compu.Method) (v : IVal) : Sim (dopI2P m v : OdxM σ (Option IVal)) := by
  unfold dopI2P
  simc

theorem sim_cmKeyValid (cm : CCompu) (ity pty : BaseType) (i : Int) : Sim (cmKeyValid cm ity pty i) := by
  unfold cmKeyValid
  simc

theorem sim_keyValidCheck (dop : Dop) (i : Int) : Sim (keyValidCheck dop i) := by
  unfold keyValidCheck
  split
  · exact sim_cmKeyValid _ _ _ _
  · exact sim_raise _
  · exact sim_pure _

theorem sim_cmKeyRepr (cm : CCompu) (ity pty : BaseType) (v : Int) : Sim (cmKeyRepr cm ity pty v) := by
  unfold cmKeyRepr
  simc

theorem sim_keyReprCheck (dop : Dop) (v : Int) : Sim (keyReprCheck dop v) := by
  unfold keyReprCheck
  split
  · exact sim_cmKeyRepr _ _ _ _
  · exact sim_pure _

end OdxVerif.Codec
