import OdxVerif.Proofs.Comparam
/-! Lemmas for C15, part 2: `get_comparam` answers with an acceptable candidate; `get_value` /
`get_subvalue` compute the effective (sub-)value; the accessors return what the specification demands. -/
namespace OdxVerif.Comparam
open OdxVerif.Gen (LayerKind)

/-! ## `get_comparam` -/

theorem head?_filter_mem {α} {p : α → Bool} {A : List α} {c : α} (h : (A.filter p).head? = some c) :
    c ∈ A ∧ p c = true := by
  have : c ∈ A.filter p := List.mem_of_head? h
  exact List.mem_filter.mp this

theorem filter_eq_nil_of_mem_iff {α} {p : α → Bool} {A B : List α} (hAB : ∀ c, c ∈ A ↔ c ∈ B)
    (h : A.filter p = []) : B.filter p = [] := by
  rw [List.filter_eq_nil_iff] at h ⊢
  exact fun c hc => h c ((hAB c).mpr hc)

/-- `get_comparam` on a list with the same members as the effective definitions -/
theorem getComparamIn_candidates (L : Layer) (n : String) (p : Option String) :
    (∀ c, getComparamIn (available L) n p = some c → c ∈ candidates L n p)
    ∧ (getComparamIn (available L) n p = none → candidates L n p = []) := by
  have hAB : ∀ c, c ∈ available L ↔ c ∈ effective L := fun c => (mem_effective_iff L c).symm
  have hN : ∀ c, c ∈ (available L).filter (fun c => c.name = n) ↔ c ∈ (effective L).filter (fun c => c.name = n) := by
    intro c; simp only [List.mem_filter, hAB]
  cases p with
  | none =>
    simp only [getComparamIn, candidates]
    constructor
    · intro c h
      exact (hN c).mp (List.mem_of_head? h)
    · intro h
      rw [List.head?_eq_none_iff] at h
      rw [List.eq_nil_iff_forall_not_mem] at h ⊢
      exact fun c hc => h c ((hN c).mpr hc)
  | some q =>
    simp only [getComparamIn, candidates]
    cases hs : ((available L).filter fun c => c.name = n).filter (fun c => c.proto = some q) with
    | cons c0 rest =>
      have hc0 : c0 ∈ ((effective L).filter fun c => c.name = n).filter (fun c => c.proto = some q) := by
        have : c0 ∈ ((available L).filter fun c => c.name = n).filter (fun c => c.proto = some q) := by
          rw [hs]; exact List.mem_cons_self
        rw [List.mem_filter] at this ⊢
        exact ⟨(hN c0).mp this.1, this.2⟩
      have hne : (((effective L).filter fun c => c.name = n).filter (fun c => c.proto = some q)).isEmpty = false := by
        cases h : ((effective L).filter fun c => c.name = n).filter (fun c => c.proto = some q) with
        | nil => rw [h] at hc0; cases hc0
        | cons _ _ => rfl
      simp only [hne]
      constructor
      · intro c h
        simp only [Option.some.injEq] at h
        subst h
        simpa using hc0
      · intro h; cases h
    | nil =>
      have hnil := filter_eq_nil_of_mem_iff hN hs
      simp only [hnil, List.isEmpty_nil, if_true]
      constructor
      · intro c h
        have := head?_filter_mem h
        rw [List.mem_filter]
        exact ⟨(hN c).mp this.1, this.2⟩
      · intro h
        rw [List.head?_eq_none_iff] at h
        exact filter_eq_nil_of_mem_iff hN h

theorem mem_candidates_effective {L : Layer} {n : String} {p : Option String} {c : Inst}
    (h : c ∈ candidates L n p) : c.name = n ∧ IsEffective L c := by
  have key : ∀ c, c ∈ (effective L).filter (fun c => c.name = n) → c.name = n ∧ IsEffective L c := by
    intro c hc
    rw [List.mem_filter] at hc
    exact ⟨by simpa using hc.2, (mem_available_iff L c).mp ((mem_effective_iff L c).mp hc.1)⟩
  unfold candidates at h
  cases p with
  | none => exact key c h
  | some q =>
    simp only at h
    split at h
    · exact key c (List.mem_filter.mp h).1
    · exact key c (List.mem_filter.mp h).1

/-! ## values -/

theorem effValue_getValue {c : Inst} {s : String} (h : effValue c = some s) :
    getValue c = .ok s ∧ c.value.isStr = true := by
  unfold effValue at h
  unfold getValue
  cases hs : c.spec with
  | complex n subs d => rw [hs] at h; cases h
  | simple n d =>
    cases hv : c.value with
    | list xs => rw [hs, hv] at h; cases h
    | str v =>
      rw [hs, hv] at h
      simp only [Option.some.injEq] at h
      by_cases he : v = ""
      · simp [CVal.truthy, CVal.isStr, he] at h ⊢
        exact h
      · simp [CVal.truthy, CVal.isStr, he] at h ⊢
        exact h

theorem findSub_eq (subs : List CpSpec) (n : String) (i : Nat) :
    findSub subs n i = ((subs.zipIdx i).find? fun x => x.1.name = n).map fun x => (x.2, x.1) := by
  induction subs generalizing i with
  | nil => rfl
  | cons s ss ih =>
    rw [findSub, List.zipIdx_cons, List.find?_cons]
    by_cases h : s.name = n
    · simp [h]
    · simp [h, ih]

theorem effSubvalue_getSubvalue {c : Inst} {sub : String} {r : Option String} (h : effSubvalue c sub = some r) :
    getSubvalue c sub = .ok r := by
  unfold effSubvalue at h
  unfold getSubvalue
  cases hs : c.spec with
  | simple n d => rw [hs] at h; cases h
  | complex n subs d =>
    cases hv : c.value with
    | str v => rw [hs, hv] at h; cases h
    | list xs =>
      rw [hs, hv] at h
      simp only at h ⊢
      rw [findSub_eq]
      unfold subNamed at h
      cases hf : ((subs.zipIdx 0).find? fun x => x.1.name = sub) with
      | none =>
        rw [hf] at h
        simp only [Option.map_none, Option.some.injEq] at h ⊢
        rw [← h]
      | some x =>
        rw [hf] at h
        simp only [Option.map_some] at h ⊢
        cases hx : x.1 with
        | complex n' subs' d' => rw [hx] at h; cases h
        | simple n' d' =>
          rw [hx] at h
          simp only at h ⊢
          cases hi : xs[x.2]? with
          | none =>
            rw [hi] at h
            simp only [Option.some.injEq] at h
            simp [CpSpec.dfltVal, ← h]
          | some v =>
            rw [hi] at h
            cases v with
            | list ys => cases h
            | str sv =>
              simp only [Option.some.injEq] at h
              by_cases he : sv = ""
              · simp [he] at h
                simp [CVal.truthy, he, CpSpec.dfltVal, ← h]
              · simp [he] at h
                simp [CVal.truthy, he, ← h]

/-! ## accessors -/

theorem numInt_intRes {s : String} {r : Res} (h : numInt s = some r) : intRes s = r := by
  unfold numInt at h
  unfold intRes
  cases hp : pyInt s with
  | none => rw [hp] at h; cases h
  | some i => rw [hp] at h; simpa using h

theorem numMicro_microRes {s : String} {r : Res} (h : numMicro s = some r) : microRes s = r := by
  unfold numMicro at h
  unfold microRes
  cases hp : pyFloat s with
  | none => rw [hp] at h; cases h
  | some i => rw [hp] at h; simpa using h

theorem specValueAcc_viaValue {c? : Option Inst} {num : String → Option Res} {conv : String → Res}
    (hnc : ∀ s r, num s = some r → conv s = r) {r : Res} (h : specValueAcc c? num = some r) :
    viaValue c? conv = r := by
  unfold specValueAcc at h
  unfold viaValue
  cases c? with
  | none => simpa using h
  | some c =>
    simp only at h ⊢
    cases he : effValue c with
    | none => rw [he] at h; cases h
    | some s =>
      rw [he] at h
      simp only [Option.bind_some] at h
      rw [(effValue_getValue he).1]
      exact hnc s r h

/-- the same for the accessors which first test `isinstance(com_param.value, str)` -/
theorem specValueAcc_guarded {c? : Option Inst} {r : Res} (h : specValueAcc c? numInt = some r) :
    viaGuardedValue c? = r := by
  unfold specValueAcc at h
  unfold viaGuardedValue
  cases c? with
  | none => simpa using h
  | some c =>
    simp only at h ⊢
    cases he : effValue c with
    | none => rw [he] at h; cases h
    | some s =>
      rw [he] at h
      simp only [Option.bind_some] at h
      rw [(effValue_getValue he).1, (effValue_getValue he).2]
      simpa using numInt_intRes h

theorem specSubAcc_viaSubvalue {c? : Option Inst} {sub : String} {r : Res} (h : specSubAcc c? sub = some r) :
    viaSubvalue c? sub = r := by
  unfold specSubAcc at h
  unfold viaSubvalue
  cases c? with
  | none => simpa using h
  | some c =>
    simp only at h ⊢
    cases he : effSubvalue c sub with
    | none => rw [he] at h; cases h
    | some o =>
      rw [he] at h
      rw [effSubvalue_getSubvalue he]
      cases o with
      | none => simpa using h
      | some s => exact numInt_intRes h

theorem specUsesCan_usesCan {gc : String → Option Inst} {b : Bool} (h : specUsesCan gc = some b) :
    usesCan gc = .ok b := by
  unfold specUsesCan at h
  unfold usesCan canReceiveId
  cases hs : specSubAcc (gc "CP_UniqueRespIdTable") "CP_CanPhysReqId" with
  | none => rw [hs] at h; cases h
  | some r =>
    rw [hs] at h
    rw [specSubAcc_viaSubvalue hs]
    simp only [Option.map_some, Option.some.injEq] at h
    -- `r` is `.none` or `.int _`: `specSubAcc` never yields an error
    unfold specSubAcc at hs
    cases hg : gc "CP_UniqueRespIdTable" with
    | none =>
      rw [hg] at hs
      simp only [Option.some.injEq] at hs
      subst hs
      rw [← h]; rfl
    | some c =>
      rw [hg] at hs
      simp only at hs
      cases he : effSubvalue c "CP_CanPhysReqId" with
      | none => rw [he] at hs; cases hs
      | some o =>
        rw [he] at hs
        cases o with
        | none =>
          simp only [Option.some.injEq] at hs
          subst hs
          rw [← h]; rfl
        | some s =>
          simp only at hs
          unfold numInt at hs
          cases hp : pyInt s with
          | none => rw [hp] at hs; cases hs
          | some i =>
            rw [hp] at hs
            simp only [Option.map_some, Option.some.injEq] at hs
            subst hs
            rw [← h]; rfl

theorem specUsesCanFd_usesCanFd {gc : String → Option Inst} {b : Bool} (h : specUsesCanFd gc = some b) :
    usesCanFd gc = .ok b := by
  unfold specUsesCanFd at h
  unfold usesCanFd
  cases hu : specUsesCan gc with
  | none => rw [hu] at h; cases h
  | some u =>
    rw [hu] at h
    rw [specUsesCan_usesCan hu]
    cases u with
    | false => simpa using h
    | true =>
      simp only at h ⊢
      cases hg : gc "CP_CANFDTxMaxDataLength" with
      | none => rw [hg] at h; simpa using h
      | some c =>
        rw [hg] at h
        simp only at h ⊢
        cases he : effValue c with
        | none => rw [he] at h; cases h
        | some s =>
          rw [he] at h
          rw [(effValue_getValue he).1, (effValue_getValue he).2]
          simpa using h

/-- whatever the specification demands of a typed accessor, the model delivers -/
theorem specAccessor_accessor (a : Acc) (gc : String → Option Inst) (r : Res)
    (h : specAccessor a gc = some r) : accessor a gc = r := by
  cases a with
  | maxCanPayloadSize =>
    unfold specAccessor at h
    unfold accessor
    simp only at h ⊢
    cases hg : gc "CP_CANFDTxMaxDataLength" with
    | none =>
      rw [hg] at h
      simp only at h ⊢
      cases hu : specUsesCan gc with
      | none => rw [hu] at h; cases h
      | some b =>
        rw [hu] at h
        have hb := specUsesCan_usesCan hu
        unfold usesCan at hb
        simp only [Option.map_some, Option.some.injEq] at h
        cases hc : canReceiveId gc with
        | err e => rw [hc] at hb; cases hb
        | none =>
          rw [hc] at hb
          simp only [Except.ok.injEq] at hb
          subst hb
          simpa using h
        | int i =>
          rw [hc] at hb
          simp only [Except.ok.injEq] at hb
          subst hb
          simpa using h
        | bool x =>
          rw [hc] at hb
          simp only [Except.ok.injEq] at hb
          subst hb
          simpa using h
        | micro d =>
          rw [hc] at hb
          simp only [Except.ok.injEq] at hb
          subst hb
          simpa using h
    | some c =>
      rw [hg] at h
      simp only at h ⊢
      cases he : effValue c with
      | none => rw [he] at h; cases h
      | some s =>
        rw [he] at h
        simp only [Option.bind_some] at h
        rw [(effValue_getValue he).1, (effValue_getValue he).2]
        simp only [Bool.not_true, Bool.false_eq_true, if_false]
        cases hd : searchTxDl s.toList with
        | none => rw [hd] at h; simpa using h
        | some ds =>
          rw [hd] at h
          simp only at h ⊢
          by_cases hem : ds.isEmpty
          · simp [hem] at h
          · simp [hem] at h ⊢
            exact h
  | usesCan =>
    unfold specAccessor at h
    unfold accessor
    simp only at h ⊢
    cases hu : specUsesCan gc with
    | none => rw [hu] at h; cases h
    | some b => rw [hu] at h; rw [specUsesCan_usesCan hu]; simpa using h
  | usesCanFd =>
    unfold specAccessor at h
    unfold accessor
    simp only at h ⊢
    cases hu : specUsesCanFd gc with
    | none => rw [hu] at h; cases h
    | some b => rw [hu] at h; rw [specUsesCanFd_usesCanFd hu]; simpa using h
  | canBaudrate =>
    unfold specAccessor at h
    unfold accessor
    exact specValueAcc_guarded h
  | canFdBaudrate =>
    unfold specAccessor at h
    unfold accessor
    simp only at h ⊢
    cases hu : specUsesCanFd gc with
    | none => rw [hu] at h; cases h
    | some b =>
      rw [hu] at h
      rw [specUsesCanFd_usesCanFd hu]
      cases b with
      | false => simpa using h
      | true => exact specValueAcc_guarded h
  | canReceiveId => exact specSubAcc_viaSubvalue h
  | canSendId => exact specSubAcc_viaSubvalue h
  | canFuncReqId => exact specValueAcc_viaValue (fun _ _ => numInt_intRes) h
  | doipLogicalEcuAddress => exact specSubAcc_viaSubvalue h
  | doipLogicalGatewayAddress => exact specValueAcc_viaValue (fun _ _ => numInt_intRes) h
  | doipLogicalTesterAddress => exact specValueAcc_viaValue (fun _ _ => numInt_intRes) h
  | doipLogicalFunctionalAddress => exact specValueAcc_viaValue (fun _ _ => numInt_intRes) h
  | doipRoutingActivationTimeout => exact specValueAcc_viaValue (fun _ _ => numMicro_microRes) h
  | doipRoutingActivationType => exact specValueAcc_viaValue (fun _ _ => numInt_intRes) h
  | testerPresentTime => exact specValueAcc_viaValue (fun _ _ => numMicro_microRes) h

end OdxVerif.Comparam
