import OdxVerif.Proofs.CompReject2Fields
/-! Compositional tier, rejection side, second part (task W18, C04): closure of `DDesc.OkW` under MULTIPLEXER — the proof of
    `DDesc.mux_ok` (`Proofs/CompRejectMux.lean`) with the input hypothesis `wfAtoms` handed down to the content of the selected
    case.  Core Lean only. -/
namespace OdxVerif.Codec
open OdxVerif.Bits OdxVerif.OdxM

theorem MuxDesc.selName_wf (m : MuxDesc) (n : String) (v0 : PVal) (name : String) (key : Int) (d : DDesc) (v : PVal)
    (hs : m.selName n v0 = some (name, key, d, v)) : v = v0 := by
  unfold MuxDesc.selName at hs
  split at hs
  · simp only [Option.some.injEq, Prod.mk.injEq] at hs; exact hs.2.2.2.symm
  · split at hs
    · split at hs
      · simp only [Option.some.injEq, Prod.mk.injEq] at hs; exact hs.2.2.2.symm
      · cases hs
    · cases hs

/-- the content of the selected case is a sub-value of the supplied value -/
theorem MuxDesc.sel_wf (m : MuxDesc) (pv : PVal) (name : String) (key : Int) (d : DDesc) (v : PVal)
    (hs : m.sel pv = some (name, key, d, v)) (hw : pv.wfAtoms = true) : v.wfAtoms = true := by
  unfold MuxDesc.sel at hs
  split at hs
  · rw [m.selName_wf _ _ _ _ _ _ hs]; exact hw
  · rw [m.selName_wf _ _ _ _ _ _ hs]
    simpa [PVal.wfAtoms, PVal.wfDict] using hw
  · split at hs
    · simp only [Option.some.injEq, Prod.mk.injEq] at hs; rw [← hs.2.2.2]; exact hw
    · split at hs
      · simp only [Option.some.injEq, Prod.mk.injEq] at hs; rw [← hs.2.2.2]; exact hw
      · cases hs
  · split at hs
    · simp only [Option.some.injEq, Prod.mk.injEq] at hs; rw [← hs.2.2.2]; exact hw
    · cases hs
  · cases hs

/-- **closure under MULTIPLEXER**: the switch key is an integer object, every case's content description is `Ok`, and the
    decoder finds the case back (`casesOk`) -/
theorem DDesc.mux_okW (m : MuxDesc) (hk : m.keyObj.ok) (hint : m.keyObj.isInt) (hds : ∀ d, m.descs d → d.OkW)
    (hcases : m.casesOk) : (DDesc.mux m).OkW where
  acc := by
    intro pv c0 hf
    have key : ∃ name key d v c, m.sel pv = some (name, key, d, v) ∧ m.keyObj.accepts (.int key) = true ∧ d.fill v = some c ∧
        c0 = DComp.muxSup (m.layout name key) c pv := by
      simp only [DDesc.mux] at hf
      cases hs : m.sel pv with
      | none => rw [hs] at hf; cases hf
      | some q =>
        obtain ⟨name, key, d, v⟩ := q
        rw [hs] at hf
        simp only at hf
        cases ha : m.keyObj.accepts (.int key) with
        | false => rw [ha] at hf; simp at hf
        | true =>
          rw [ha] at hf
          simp only [if_true] at hf
          cases hc : d.fill v with
          | none => rw [hc] at hf; cases hf
          | some c => rw [hc] at hf; exact ⟨name, key, d, v, c, rfl, ha, hc, by simpa using hf.symm⟩
    obtain ⟨name, key, d, v, c, hs, ha, hc, rfl⟩ := key
    have hd := hds d (m.sel_descs pv name key d v hs)
    have hfc := hd.acc v c hc
    have hr : m.keyObj.inRange (.int key) := (m.keyObj.accepts_iff hk _).mp ha
    have hdsel : (m.layout name key).decSel c.dop := by rw [hfc.dop]; exact m.sel_decSel hcases pv name key d v hs
    exact {
      ok := DComp.muxSup_ok (m.layout name key) c pv hfc.ok hk hr hdsel (m.sel_ne_none pv (by rw [hs]; rfl)) (by
        intro f s hcb
        have := m.sel_step pv name key d v hs f s hcb
        rw [hfc.dop, hfc.sup]
        exact this)
      endOk := DComp.muxSup_endOk _ c pv hfc.endOk
      dop := rfl
      sup := rfl
      need := by
        have := hfc.need
        simp only [DComp.muxSup, DComp.mux, DDesc.mux, hs]
        omega
      eop := fun he => m.descs_eop d (m.sel_descs pv name key d v hs) (hfc.eop he)
      size := by simp only [DComp.muxSup, DComp.mux, DDesc.mux, MuxDesc.layout]; omega
      val := by
        show PVal.pair name c.pair.val = _
        simp only [DDesc.mux, hs, hfc.val] }
  rej := by
    intro pv hwf hf fuel hfu s hcb heop
    cases hs : m.sel pv with
    | none =>
      simp only [DDesc.mux, hs] at hfu
      obtain ⟨f, rfl⟩ : ∃ f, fuel = f + 1 := ⟨fuel - 1, by omega⟩
      by_cases hl : ∃ xs, pv = .list xs
      · obtain ⟨xs, rfl⟩ := hl
        refine ⟨.unmodelled, s, ?_, Or.inr ⟨rfl, rfl⟩⟩
        simp only [DDesc.mux, MuxDesc.dop, encodeDop, bind, run_bind, run_getS, run_ite, hcb, ne_eq, not_true_eq_false, if_false,
          run_raise]
      · refine ⟨.encode, s, ?_, RejErr.encode _⟩
        exact m.sel_none pv hs (fun xs h => hl ⟨xs, h⟩) f s hcb
    | some q =>
      obtain ⟨name, key, d, v⟩ := q
      have hty : (DDesc.mux m).typed pv = d.typed v := by
        cases pv with
        | list xs => cases hs
        | _ => simp only [DDesc.mux, hs]
      simp only [DDesc.mux, hs] at hfu
      obtain ⟨f, rfl⟩ : ∃ f, fuel = f + 2 + 1 := ⟨fuel - 3, by omega⟩
      have hd := hds d (m.sel_descs pv name key d v hs)
      have hstep := m.sel_step pv name key d v hs (f + 2) s hcb
      let s2 : EncState := { s with origin := s.cursorByte }
      cases ha : m.keyObj.accepts (.int key) with
      | false =>
        obtain ⟨e, s', hrun, he⟩ := m.keyObj.rejects_of_int hk hint (some (.atom (.int key))) (by simp)
          (fun w hw => by simp only [Option.some.injEq, PVal.atom.injEq] at hw; subst hw; exact ha) f s2
        have hrun' : encodeParam (f + 2) (.mk "" (some m.swBp) m.key.bitPos (.value (m.layout "" 0).keyDop none))
            (some (.atom (.int key))) { s with origin := s.cursorByte } true = .error (e, s') := hrun
        refine ⟨e, s', ?_, ?_⟩
        · show encodeDop (f + 2 + 1) m.dop pv s true = _
          rw [hstep]
          unfold muxRun
          rw [hrun']
        · rcases he with he | ⟨_, hff⟩
          · exact Or.inl he
          · cases hff
      | true =>
        have hr : m.keyObj.inRange (.int key) := (m.keyObj.accepts_iff hk _).mp ha
        have hc : d.fill v = none := by
          simp only [DDesc.mux, hs, ha, if_true] at hf
          cases hc : d.fill v with
          | none => rfl
          | some c => rw [hc] at hf; cases hf
        have hkey : encodeParam (f + 2) (.mk "" (some m.swBp) m.key.bitPos (.value (m.layout "" 0).keyDop none))
            (some (.atom (.int key))) s2 true = .ok ((), encStep m.keyObj (.int key) s2) :=
          encodeParam_obj m.keyObj hk (.int key) hr f s2
        let s3 : EncState := encStep m.keyObj (.int key) s2
        obtain ⟨e, s', hrun, he⟩ := hd.rej v (m.sel_wf pv name key d v hs hwf) hc (f + 1) (by omega)
          { s3 with cursorByte := posOf (some m.muxBp) s3.origin s3.cursorByte, cursorBit := 0 } rfl
          (fun hm => heop (m.descs_eop d (m.sel_descs pv name key d v hs) hm))
        have hrun' : encodeParam (f + 2) (.mk "" (some m.muxBp) none (.value d.dop none)) (some v)
            (encStep m.keyObj (.int key) s2) true = .error (e, s') := by
          rw [encodeParam_value_step]
          simp only [Option.getD_none]
          rw [hrun]
        refine ⟨e, s', ?_, by rw [hty]; exact he⟩
        show encodeDop (f + 2 + 1) m.dop pv s true = _
        rw [hstep]
        unfold muxRun
        rw [hkey]
        simp only []
        rw [hrun']

end OdxVerif.Codec
