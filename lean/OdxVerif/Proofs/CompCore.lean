import OdxVerif.Proofs.FieldTier
/-! Compositional components (task W8): the semantic notion of a *described parameter* (`Comp`) and of a *described
    data object* (`DComp`) — a model description together with its pure encoder/decoder pair (`Proofs/Compose.lean`),
    the value that is supplied for it when encoding (`sup`), the value the decoder returns (`pair.val`), the fuel it needs
    and where the encoder's cursor ends up (`cur` / `size`) — with the two refinement statements against the model
    (`encode_eq` / `decode_eq`).  `Comp` generalises `GItem`/`GItem.Ok` of `Proofs/FieldTier.lean`: no restriction on
    the parameter kind (what is *supplied* and what is *decoded* are separate), any end-of-PDU flag of the enclosing
    composite, and the cursor law that lets components be used as items of fields.  This file: the notions, lists of
    components = the parameters of a structure (`Comps.*`), the closure lemmas `DComp.struct` (a STRUCTURE whose parameters
    are components is a component) and `Comp.ofValue` (a VALUE parameter typed by a component DOP), the leaves, and the
    message-level round trip for any structure component (`dcomp_roundtrip_msg`, `comps_roundtrip_msg`). -/
namespace OdxVerif.Codec
open OdxVerif.Bits OdxVerif.OdxM

/-- LENGTH-KEY parameters take the placeholder path of `composite_codec_encode_into_pdu` -/
def PKind.isKey : PKind → Bool
  | .lengthKey _ => true
  | _ => false

/-- `Parameter.is_required`: only VALUE parameters without PHYSICAL-DEFAULT-VALUE -/
def PKind.required : PKind → Bool
  | .value _ none => true
  | _ => false

/-- a described parameter -/
structure Comp where
  param : Param
  pair : Pair PVal              -- pure encoder/decoder; `pair.val` = the value the decoder returns for it
  sup : Option PVal             -- the value supplied for it in the dictionary of the enclosing composite (`none`: omitted)
  need : Nat                    -- fuel the model needs for it
  cur : Nat → Nat → Nat         -- the encoder's cursor behind it, from the origin and the cursor before it
  eopOnly : Bool := false       -- can only be encoded with `is_end_of_pdu` (contains an END-OF-PDU-FIELD in last position)
  decPre : DecState → Prop := fun _ => True   -- what its decoder needs beyond `pair.fits`

def Comp.name (g : Comp) : String := g.param.name

/-- the pair composes (`Good`), and the model's `encodeParam` (on the supplied value) / `decodeParam` equal the pair -/
structure Comp.Ok (g : Comp) : Prop where
  good : Good g.pair
  notKey : g.param.kind.isKey = false
  supplied : g.param.kind.required = true → g.sup.isSome = true
  sup_ne_none : g.sup ≠ some PVal.none
  encode_eq : ∀ (fuel : Nat), g.need ≤ fuel → ∀ (s : EncState), (g.eopOnly = true → s.isEndOfPdu = true) →
    ∃ s', encodeParam fuel g.param g.sup s true = .ok ((), s') ∧ SameCore s' (g.pair.enc s)
  enc_cursor : ∀ (s : EncState), (g.pair.enc s).cursorByte = g.cur s.origin s.cursorByte
  cur_shift : ∀ (org c p : Nat), g.cur (org + p) (c + p) = g.cur org c + p
  dec_cursorBit : ∀ (d : DecState), d.cursorBit = 0 → (g.pair.dec d).2.cursorBit = 0
  dec_msg : ∀ (d : DecState), (g.pair.dec d).2.msg = d.msg
  dec_origin : ∀ (d : DecState), (g.pair.dec d).2.origin = d.origin
  decode_eq : ∀ (fuel : Nat), g.need ≤ fuel → ∀ (d : DecState), d.cursorBit = 0 → g.pair.fits d → g.decPre d →
    decodeParam fuel g.param d true = .ok ((g.pair.dec d).1, (g.pair.dec d).2)

/-- the extra decoder precondition is of the END-OF-PDU kind: it holds when the component ends where the message ends,
    and it is void for components that do not need the end of the PDU -/
structure Comp.EndOk (g : Comp) : Prop where
  of_end : ∀ (d : DecState), (g.pair.dec d).2.cursorByte = d.msg.length → g.decPre d
  trivial : g.eopOnly = false → ∀ (d : DecState), g.decPre d

/-- a described data object (complex DOP: structure, field, multiplexer) with the value handed to `encodeDop` -/
structure DComp where
  dop : Dop
  pair : Pair PVal
  sup : PVal                    -- the physical value handed to the encoder
  need : Nat
  size : Nat                    -- bytes from the object's first byte to the encoder's cursor behind it
  eopOnly : Bool := false
  decPre : DecState → Prop := fun _ => True

structure DComp.Ok (c : DComp) : Prop where
  good : Good c.pair
  sup_ne_none : c.sup ≠ PVal.none
  originFree : OriginFree c.pair         -- complex DOPs set their own origin: the one they are started with is immaterial …
  dec_originFree : ∀ (d : DecState) (o : Nat),
    c.pair.dec { d with origin := o } = ((c.pair.dec d).1, { (c.pair.dec d).2 with origin := o })   -- … for the decoder too
  fits_originFree : ∀ (d : DecState) (o : Nat), c.pair.fits { d with origin := o } = c.pair.fits d
  encode_eq : ∀ (fuel : Nat), c.need ≤ fuel → ∀ (s : EncState), s.cursorBit = 0 → (c.eopOnly = true → s.isEndOfPdu = true) →
    ∃ s', encodeDop fuel c.dop c.sup s true = .ok ((), s') ∧ SameCore s' (c.pair.enc s) ∧ s'.cursorBit = 0
  enc_cursor : ∀ (s : EncState), (c.pair.enc s).cursorByte = s.cursorByte + c.size
  dec_cursorBit : ∀ (d : DecState), d.cursorBit = 0 → (c.pair.dec d).2.cursorBit = 0
  dec_msg : ∀ (d : DecState), (c.pair.dec d).2.msg = d.msg
  dec_origin : ∀ (d : DecState), (c.pair.dec d).2.origin = d.origin
  decode_eq : ∀ (fuel : Nat), c.need ≤ fuel → ∀ (d : DecState), d.cursorBit = 0 → c.pair.fits d → c.decPre d →
    decodeDop fuel c.dop d true = .ok ((c.pair.dec d).1, (c.pair.dec d).2)

structure DComp.EndOk (c : DComp) : Prop where
  of_end : ∀ (d : DecState), (c.pair.dec d).2.cursorByte = d.msg.length → c.decPre d
  trivial : c.eopOnly = false → ∀ (d : DecState), c.decPre d

/-! ### small state lemmas -/

theorem DecState.cursorBit_eta (d : DecState) (h : d.cursorBit = 0) : ({ d with cursorBit := 0 } : DecState) = d := by
  cases d; simp only at h; subst h; rfl

theorem SameCore.symm {a b : EncState} (h : SameCore a b) : SameCore b a :=
  ⟨h.1.symm, h.2.1.symm, h.2.2.1.symm, h.2.2.2.1.symm, h.2.2.2.2.symm⟩

/-! ### lists of components: the parameters of a structure -/

def Comps.toParams (gs : List Comp) : List Param := gs.map Comp.param

/-- pure encoder/decoder of the parameter list; `.val` = the dictionary the decoder returns (an entry for EVERY parameter) -/
def Comps.pair : List Comp → Pair (List (String × PVal))
  | [] => Pair.nil []
  | g :: gs => ((Comp.pair g).seq (Comps.pair gs)).map (fun p => (g.name, p.1) :: p.2)

/-- the dictionary handed to the encoder: the supplied values only -/
def Comps.values : List Comp → List (String × PVal)
  | [] => []
  | g :: gs => match g.sup with
    | some v => (g.name, v) :: Comps.values gs
    | none => Comps.values gs

def Comps.okAll : List Comp → Prop
  | [] => True
  | g :: gs => g.Ok ∧ Comps.okAll gs

def Comps.endOkAll : List Comp → Prop
  | [] => True
  | g :: gs => g.EndOk ∧ Comps.endOkAll gs

/-- sibling short names are pairwise distinct -/
def Comps.namesOk : List Comp → Prop
  | [] => True
  | g :: gs => (∀ u ∈ gs, u.name ≠ g.name) ∧ Comps.namesOk gs

def Comps.need : List Comp → Nat
  | [] => 1
  | g :: gs => g.need + Comps.need gs + 1

/-- parameters that need `is_end_of_pdu` occur in the last place only -/
def Comps.eopLast : List Comp → Prop
  | [] => True
  | [_] => True
  | g :: g2 :: rest => g.eopOnly = false ∧ Comps.eopLast (g2 :: rest)

def Comps.anyEop (gs : List Comp) : Bool := gs.any (·.eopOnly)

def Comps.decPre : List Comp → DecState → Prop
  | [], _ => True
  | g :: gs, d => g.decPre d ∧ Comps.decPre gs (g.pair.dec d).2

def Comps.cur : List Comp → Nat → Nat → Nat
  | [], _, c => c
  | g :: gs, org, c => Comps.cur gs org (g.cur org c)

theorem Comps.eopLast_tail (g : Comp) (gs : List Comp) (h : Comps.eopLast (g :: gs)) : Comps.eopLast gs := by
  cases gs with
  | nil => trivial
  | cons g2 rest => exact h.2

theorem Comps.good : (gs : List Comp) → Comps.okAll gs → Good (Comps.pair gs)
  | [], _ => Good.nil _
  | _ :: gs, h => (h.1.good.seq (Comps.good gs h.2)).map _

theorem Comps.need_ge (gs : List Comp) : gs.length + 1 ≤ Comps.need gs := by
  induction gs with
  | nil => simp [Comps.need]
  | cons g gs ih => simp only [Comps.need, List.length_cons]; omega

theorem Comps.pair_val_cons (g : Comp) (gs : List Comp) :
    (Comps.pair (g :: gs)).val = (g.name, g.pair.val) :: (Comps.pair gs).val := rfl

theorem Comps.pair_val (gs : List Comp) : (Comps.pair gs).val = gs.map (fun g => (g.name, g.pair.val)) := by
  induction gs with
  | nil => rfl
  | cons g gs ih => rw [Comps.pair_val_cons, ih]; rfl

theorem Comps.ok_of_mem {gs : List Comp} (hok : Comps.okAll gs) {g : Comp} (hg : g ∈ gs) : g.Ok := by
  induction gs with
  | nil => cases hg
  | cons u us ih =>
    cases hg with
    | head => exact hok.1
    | tail _ hmem => exact ih hok.2 hmem

theorem Comps.lookup_values_none (n : String) : (gs : List Comp) → (∀ u ∈ gs, u.name ≠ n) → lookup n (Comps.values gs) = none
  | [], _ => rfl
  | u :: us, h => by
    have hu : n ≠ u.name := fun e => h u (List.mem_cons_self ..) e.symm
    have ih := Comps.lookup_values_none n us (fun x hx => h x (List.mem_cons_of_mem _ hx))
    simp only [Comps.values]
    cases u.sup with
    | none => exact ih
    | some v => simp only [lookup, hu, if_false]; exact ih

/-- `physical_value.get(name)` on the supplied dictionary finds exactly what was supplied -/
theorem Comps.lookup_values : (gs : List Comp) → Comps.namesOk gs → ∀ g ∈ gs, lookup g.name (Comps.values gs) = g.sup
  | [], _, g, hg => by cases hg
  | u :: us, h, g, hg => by
    cases hg with
    | head =>
      simp only [Comps.values]
      cases hs : u.sup with
      | none => exact Comps.lookup_values_none _ us h.1
      | some v => simp [lookup]
    | tail _ hmem =>
      have hne : g.name ≠ u.name := h.1 g hmem
      have ih := Comps.lookup_values us h.2 g hmem
      simp only [Comps.values]
      cases u.sup with
      | none => exact ih
      | some v => simp only [lookup, hne, if_false]; exact ih

theorem Comps.lookupV_values (gs : List Comp) (hok : Comps.okAll gs) (hn : Comps.namesOk gs) (g : Comp) (hg : g ∈ gs) :
    lookupV g.name (Comps.values gs) = g.sup ∧
    (g.param.kind.required = true → (lookup g.name (Comps.values gs)).isNone = false) := by
  have hl := Comps.lookup_values gs hn g hg
  have hgok := Comps.ok_of_mem hok hg
  constructor
  · unfold lookupV
    rw [hl]
    have := hgok.sup_ne_none
    cases hv : g.sup with
    | none => rfl
    | some v => cases v <;> simp_all
  · intro hr
    rw [hl]
    have := hgok.supplied hr
    cases hv : g.sup <;> simp_all

/-- the supplied dictionary names only parameters of the structure -/
theorem Comps.known_values (gs : List Comp) :
    (Comps.values gs).any (fun kv => !((Comps.toParams gs).any fun p => p.name == kv.1)) = false := by
  have key : ∀ (all : List Param) (us : List Comp), (∀ u ∈ us, all.any (fun p => p.name == u.name) = true) →
      (Comps.values us).any (fun kv => !(all.any fun p => p.name == kv.1)) = false := by
    intro all us
    induction us with
    | nil => intro _; rfl
    | cons u us ih =>
      intro h
      have ih' := ih (fun x hx => h x (List.mem_cons_of_mem _ hx))
      simp only [Comps.values]
      cases u.sup with
      | none => exact ih'
      | some v =>
        simp only [List.any_cons, h u (List.mem_cons_self ..), Bool.not_true, Bool.false_or]
        exact ih'
  apply key
  intro u hu
  induction gs with
  | nil => cases hu
  | cons t ts ih =>
    simp only [Comps.toParams, List.map_cons, List.any_cons]
    cases hu with
    | head => simp [Comp.name]
    | tail _ hm =>
      have := ih hm
      simp only [Comps.toParams] at this
      simp [this]

/-- the key pass does nothing on a parameter list without LENGTH-KEY parameters -/
theorem encodeKeyValues_nonkey (ps : List Param) (h : ∀ p ∈ ps, p.kind.isKey = false) (extra : Nat) (s : EncState) (st : Bool) :
    encodeKeyValues (ps.length + 1 + extra) ps s st = .ok ((), s) := by
  induction ps with
  | nil =>
    have : 0 + 1 + extra = extra + 1 := by omega
    simp only [List.length_nil, this, encodeKeyValues]
    simp [pure, run_pure]
  | cons p rest ih =>
    have : (p :: rest).length + 1 + extra = (rest.length + 1 + extra) + 1 := by simp; omega
    rw [this]
    have hp := h p (List.mem_cons_self ..)
    have ih' := ih (fun x hx => h x (List.mem_cons_of_mem _ hx))
    obtain ⟨name, bp, bitp, kind⟩ := p
    cases kind <;> first
      | (simp only [encodeKeyValues]; exact ih')
      | (simp [Param.kind, PKind.isKey] at hp)

theorem Comps.toParams_notKey (gs : List Comp) (hok : Comps.okAll gs) : ∀ p ∈ Comps.toParams gs, p.kind.isKey = false := by
  intro p hp
  obtain ⟨g, hg, rfl⟩ := List.mem_map.mp hp
  exact (Comps.ok_of_mem hok hg).notKey

/-- one step of the first encoding loop for any parameter that is not a LENGTH-KEY and whose value, if required, is there -/
theorem encodeParams_cons_nonkey (eop : Bool) (values : List (String × PVal)) (f : Nat) (p : Param)
    (hk : p.kind.isKey = false) (rest : List Param) (s : EncState)
    (hreq : p.kind.required = true → (lookup p.name values).isNone = false) :
    encodeParams eop values (f + 1) (p :: rest) s true =
      (match encodeParam f p (lookupV p.name values) (if rest.isEmpty then { s with isEndOfPdu := eop } else s) true with
       | .ok (_, s1) => encodeParams eop values f rest s1 true
       | .error e => .error e) := by
  obtain ⟨name, bp, bitp, kind⟩ := p
  have hfin : ∀ (req : Bool), (req = true → (lookup name values).isNone = false) →
      ((do
        if rest.isEmpty then modifyS fun s => { s with isEndOfPdu := eop }
        (do
          if req && (lookup name values).isNone then odxraise Err.encode
          encodeParam f (.mk name bp bitp kind) (lookupV name values))
        encodeParams eop values f rest) : EncM Unit) s true =
      (match encodeParam f (.mk name bp bitp kind) (lookupV name values)
          (if rest.isEmpty then { s with isEndOfPdu := eop } else s) true with
       | .ok (_, s1) => encodeParams eop values f rest s1 true
       | .error e => .error e) := by
    intro req hr
    have hc : (req && (lookup name values).isNone) = false := by
      cases req with
      | false => rfl
      | true => simp [hr rfl]
    simp only [bind, hc, Bool.false_eq_true, if_false]
    by_cases hre : rest.isEmpty = true
    · simp only [hre, if_true, run_bind, run_modifyS, pure, run_pure]
      generalize encodeParam f _ _ _ true = r
      cases r with
      | error e => rfl
      | ok q => cases q; rfl
    · have hre' : rest.isEmpty = false := by simpa using hre
      simp only [hre', Bool.false_eq_true, if_false, run_bind, pure, run_pure]
      generalize encodeParam f _ _ _ true = r
      cases r with
      | error e => rfl
      | ok q => cases q; rfl
  cases kind with
  | lengthKey dop => simp [Param.kind, PKind.isKey] at hk
  | value dop dflt =>
    cases dflt with
    | none => simp only [encodeParams]; exact hfin true (fun _ => hreq rfl)
    | some dv => simp only [encodeParams]; exact hfin false (fun h => by cases h)
  | codedConst dct v => simp only [encodeParams]; exact hfin false (fun h => by cases h)
  | physConst dop v => simp only [encodeParams]; exact hfin false (fun h => by cases h)
  | reserved bl => simp only [encodeParams]; exact hfin false (fun h => by cases h)
  | matchingReq a b => simp only [encodeParams]; exact hfin false (fun h => by cases h)
  | nrcConst dct vs => simp only [encodeParams]; exact hfin false (fun h => by cases h)
  | unsupported => simp only [encodeParams]; exact hfin false (fun h => by cases h)

/-- the first encoding loop over a list of components = the pure encoder of the list.  `eop` = the end-of-PDU flag of the
    enclosing composite (handed to the last parameter); it must be set if a component needs it. -/
theorem Comps.encode_eq : (gs : List Comp) → Comps.okAll gs → Comps.eopLast gs → ∀ (values : List (String × PVal)),
    (∀ g ∈ gs, lookupV g.name values = g.sup ∧ (g.param.kind.required = true → (lookup g.name values).isNone = false)) →
    ∀ (fuel : Nat), Comps.need gs ≤ fuel → ∀ (eop : Bool), (Comps.anyEop gs = true → eop = true) → ∀ (s : EncState),
    ∃ s', encodeParams eop values fuel (Comps.toParams gs) s true = .ok ((), s') ∧ SameCore s' ((Comps.pair gs).enc s) ∧
      (s.cursorBit = 0 → s'.cursorBit = 0)
  | [], _, _, values, _, fuel, hf, eop, _, s => by
    simp only [Comps.need] at hf
    obtain ⟨f, rfl⟩ : ∃ f, fuel = f + 1 := ⟨fuel - 1, by omega⟩
    exact ⟨s, by simp [Comps.toParams, encodeParams, pure, run_pure], SameCore.refl _, id⟩
  | g :: gs, hok, hlast, values, hlook, fuel, hf, eop, heop, s => by
    simp only [Comps.okAll] at hok
    simp only [Comps.need] at hf
    obtain ⟨f, rfl⟩ : ∃ f, fuel = f + 1 := ⟨fuel - 1, by omega⟩
    obtain ⟨hl, hreq⟩ := hlook g (List.mem_cons_self ..)
    have hsmEop : g.eopOnly = true → (if gs.isEmpty then { s with isEndOfPdu := eop } else s).isEndOfPdu = true := by
      intro he
      cases gs with
      | nil =>
        have : eop = true := heop (by simp [Comps.anyEop, he])
        simp [this]
      | cons g2 rest => have := hlast.1; rw [this] at he; cases he
    let sm : EncState := if gs.isEmpty then { s with isEndOfPdu := eop } else s
    have hsm : SameCore sm s := by
      show SameCore (if gs.isEmpty then { s with isEndOfPdu := eop } else s) s
      split
      · exact ⟨rfl, rfl, rfl, rfl, rfl⟩
      · exact SameCore.refl s
    obtain ⟨s1, hstep, hc1⟩ := hok.1.encode_eq f (by omega) sm hsmEop
    have hcb1 : s1.cursorBit = 0 := encodeParam_cursorBit _ _ _ _ _ _ hstep
    obtain ⟨s2, hrest, hc2, hcb2⟩ := Comps.encode_eq gs hok.2 (Comps.eopLast_tail g gs hlast) values
      (fun u hu => hlook u (List.mem_cons_of_mem _ hu)) f (by omega) eop
      (fun h => heop (by simp only [Comps.anyEop, List.any_cons] at h ⊢; simp [h])) s1
    have hgt := hok.1.good
    have hgts := Comps.good gs hok.2
    refine ⟨s2, ?_, ?_, fun _ => hcb2 hcb1⟩
    · have hemp : (List.map Comp.param gs).isEmpty = gs.isEmpty := by cases gs <;> rfl
      have hstep' : encodeParam f g.param g.sup (if gs.isEmpty then { s with isEndOfPdu := eop } else s) true
          = .ok ((), s1) := hstep
      simp only [Comps.toParams, List.map_cons]
      rw [encodeParams_cons_nonkey eop values f g.param hok.1.notKey _ s hreq, hemp]
      have hl' : lookupV g.param.name values = g.sup := hl
      rw [hl', hstep']
      exact hrest
    · simp only [Comps.pair, Pair.map, Pair.seq]
      exact hc2.trans (hgts.core _ _ (hc1.trans (hgt.core _ _ hsm)))

theorem Comps.dec_cursorBit : (gs : List Comp) → Comps.okAll gs → ∀ (d : DecState), d.cursorBit = 0 →
    ((Comps.pair gs).dec d).2.cursorBit = 0
  | [], _, _, h => h
  | g :: gs, hok, d, h => by
    simp only [Comps.pair, Pair.map, Pair.seq]
    exact Comps.dec_cursorBit gs hok.2 _ (hok.1.dec_cursorBit d h)

theorem Comps.dec_msg : (gs : List Comp) → Comps.okAll gs → ∀ (d : DecState), ((Comps.pair gs).dec d).2.msg = d.msg
  | [], _, _ => rfl
  | g :: gs, hok, d => by
    simp only [Comps.pair, Pair.map, Pair.seq]
    rw [Comps.dec_msg gs hok.2, hok.1.dec_msg]

theorem Comps.dec_origin : (gs : List Comp) → Comps.okAll gs → ∀ (d : DecState), ((Comps.pair gs).dec d).2.origin = d.origin
  | [], _, _ => rfl
  | g :: gs, hok, d => by
    simp only [Comps.pair, Pair.map, Pair.seq]
    rw [Comps.dec_origin gs hok.2, hok.1.dec_origin]

theorem Comps.enc_cursor : (gs : List Comp) → Comps.okAll gs → ∀ (s : EncState),
    ((Comps.pair gs).enc s).cursorByte = Comps.cur gs s.origin s.cursorByte
  | [], _, _ => rfl
  | g :: gs, hok, s => by
    have h1 := hok.1.enc_cursor s
    have h2 := Comps.enc_cursor gs hok.2 (g.pair.enc s)
    simp only [Comps.pair, Pair.map, Pair.seq, Comps.cur]
    rw [h2, h1, hok.1.good.origin]

theorem Comps.cur_shift : (gs : List Comp) → Comps.okAll gs → ∀ (org c p : Nat),
    Comps.cur gs (org + p) (c + p) = Comps.cur gs org c + p
  | [], _, _, _, _ => rfl
  | g :: gs, hok, org, c, p => by
    simp only [Comps.cur, hok.1.cur_shift org c p]
    exact Comps.cur_shift gs hok.2 org _ p

theorem Comps.decode_eq : (gs : List Comp) → Comps.okAll gs → ∀ (fuel : Nat), Comps.need gs ≤ fuel → ∀ (d : DecState),
    d.cursorBit = 0 → (Comps.pair gs).fits d → Comps.decPre gs d →
    decodeParams fuel (Comps.toParams gs) d true = .ok (((Comps.pair gs).dec d).1, ((Comps.pair gs).dec d).2)
  | [], _, fuel, hf, d, _, _, _ => by
    simp only [Comps.need] at hf
    obtain ⟨f, rfl⟩ : ∃ f, fuel = f + 1 := ⟨fuel - 1, by omega⟩
    simp [Comps.toParams, decodeParams, pure, run_pure, Comps.pair, Pair.nil]
  | g :: gs, hok, fuel, hf, d, hcb, hfit, hpre => by
    simp only [Comps.okAll] at hok
    simp only [Comps.need] at hf
    obtain ⟨f, rfl⟩ : ∃ f, fuel = f + 1 := ⟨fuel - 1, by omega⟩
    have hfit' : g.pair.fits d ∧ (Comps.pair gs).fits (g.pair.dec d).2 := hfit
    have h1 := hok.1.decode_eq f (by omega) d hcb hfit'.1 hpre.1
    have h2 := Comps.decode_eq gs hok.2 f (by omega) (g.pair.dec d).2 (hok.1.dec_cursorBit d hcb) hfit'.2 hpre.2
    have h2' : decodeParams f (List.map Comp.param gs) (g.pair.dec d).2 true = _ := h2
    simp only [Comps.toParams, List.map_cons, decodeParams, bind, run_bind, h1, h2', pure, run_pure]
    rfl

/-- the END-OF-PDU kind of decoder preconditions hold when the parameter that needs the end of the PDU (necessarily the
    last one) ends where the message ends -/
theorem Comps.decPre_intro : (gs : List Comp) → Comps.okAll gs → Comps.endOkAll gs → Comps.eopLast gs → ∀ (d : DecState),
    (Comps.anyEop gs = true → ((Comps.pair gs).dec d).2.cursorByte = d.msg.length) → Comps.decPre gs d
  | [], _, _, _, _, _ => trivial
  | [g], _, hend, _, d, h => by
    refine ⟨?_, trivial⟩
    cases he : g.eopOnly with
    | false => exact hend.1.trivial he d
    | true => exact hend.1.of_end d (h (by simp [Comps.anyEop, he]))
  | g :: g2 :: rest, hok, hend, hlast, d, h => by
    refine ⟨hend.1.trivial hlast.1 d, ?_⟩
    apply Comps.decPre_intro (g2 :: rest) hok.2 hend.2 hlast.2 (g.pair.dec d).2
    intro hany
    have := h (by simp only [Comps.anyEop, List.any_cons] at hany ⊢; simp [hany])
    rw [hok.1.dec_msg d]
    exact this

theorem Comps.decPre_of_noEop : (gs : List Comp) → Comps.endOkAll gs → Comps.anyEop gs = false → ∀ (d : DecState),
    Comps.decPre gs d
  | [], _, _, _ => trivial
  | g :: gs, hend, hany, d => by
    simp only [Comps.anyEop, List.any_cons, Bool.or_eq_false_iff] at hany
    exact ⟨hend.1.trivial hany.1 d, Comps.decPre_of_noEop gs hend.2 hany.2 _⟩

/-! ### closure: a STRUCTURE whose parameters are components -/

/-- a STRUCTURE (without BYTE-SIZE) whose parameters are the components `gs`: content relative to the structure's first
    byte; supplied value = the dictionary of the supplied member values, decoded value = the complete dictionary -/
def DComp.struct (gs : List Comp) : DComp where
  dop := .struct none (Comps.toParams gs)
  pair := ((Comps.pair gs).inOrigin).map PVal.dict
  sup := .dict (Comps.values gs)
  need := Comps.need gs + 2
  size := Comps.cur gs 0 0
  eopOnly := Comps.anyEop gs
  decPre := fun d => Comps.decPre gs { d with origin := d.cursorByte }

theorem DComp.struct_val (gs : List Comp) : (DComp.struct gs).pair.val = .dict (Comps.pair gs).val := rfl

/-- **closure under STRUCTURE** -/
theorem DComp.struct_ok (gs : List Comp) (hok : Comps.okAll gs) (hn : Comps.namesOk gs) (hlast : Comps.eopLast gs) :
    (DComp.struct gs).Ok where
  good := ((Comps.good gs hok).inOrigin).map _
  sup_ne_none := by simp [DComp.struct]
  originFree := (OriginFree.inOrigin (Comps.pair gs)).map _
  dec_originFree := fun _ _ => rfl
  fits_originFree := fun _ _ => rfl
  encode_eq := by
    intro fuel hf s hcb heop
    obtain ⟨f, rfl⟩ : ∃ f, fuel = f + 1 + 1 := ⟨fuel - 2, by simp only [DComp.struct] at hf; omega⟩
    have hf' : Comps.need gs ≤ f := by simp only [DComp.struct] at hf; omega
    let sIn : EncState := { s with origin := s.cursorByte, isEndOfPdu := false, cursorBit := 0 }
    obtain ⟨sp, hrun, hcore, hspcb⟩ := Comps.encode_eq gs hok hlast (Comps.values gs)
      (fun g hg => Comps.lookupV_values gs hok hn g hg) f hf' s.isEndOfPdu heop sIn
    obtain ⟨e, rfl⟩ : ∃ e, f = gs.length + 1 + e := ⟨f - (gs.length + 1), by have := Comps.need_ge gs; omega⟩
    have hlen : (Comps.toParams gs).length = gs.length := by simp [Comps.toParams]
    have hkeys := encodeKeyValues_nonkey (Comps.toParams gs) (Comps.toParams_notKey gs hok) e { sp with isEndOfPdu := false } true
    rw [hlen] at hkeys
    have hg := Comps.good gs hok
    refine ⟨{ sp with isEndOfPdu := false, origin := s.origin }, ?_, ?_, hspcb rfl⟩
    · have hrun' : encodeParams s.isEndOfPdu (Comps.values gs) (gs.length + 1 + e) (Comps.toParams gs)
          { s with origin := s.cursorByte, isEndOfPdu := false, cursorBit := 0 } true = .ok ((), sp) := hrun
      simp only [DComp.struct, encodeDop, encodeComposite, bind, pure, run_bind, run_getS, run_modifyS, run_pure, run_ite, hcb,
        Comps.known_values, Bool.false_eq_true, if_false, ne_eq, not_true_eq_false]
      rw [hrun']
      simp only []
      rw [hkeys]
    · have hin : SameCore sIn { s with origin := s.cursorByte } := ⟨rfl, rfl, rfl, rfl, rfl⟩
      have h2 := hcore.trans (hg.core _ _ hin)
      exact ⟨h2.1, h2.2.1, h2.2.2.1, h2.2.2.2.1, rfl⟩
  enc_cursor := by
    intro s
    have h := Comps.enc_cursor gs hok { s with origin := s.cursorByte }
    have hs := Comps.cur_shift gs hok 0 0 s.cursorByte
    simp only [Nat.zero_add] at hs
    show ((Comps.pair gs).enc { s with origin := s.cursorByte }).cursorByte = _
    rw [h, hs]
    simp only [DComp.struct]
    omega
  dec_cursorBit := fun d h => Comps.dec_cursorBit gs hok { d with origin := d.cursorByte } h
  dec_msg := fun d => Comps.dec_msg gs hok { d with origin := d.cursorByte }
  dec_origin := fun _ => rfl
  decode_eq := by
    intro fuel hf d hcb hfit hpre
    obtain ⟨f, rfl⟩ : ∃ f, fuel = f + 1 + 1 := ⟨fuel - 2, by simp only [DComp.struct] at hf; omega⟩
    have hf' : Comps.need gs ≤ f := by simp only [DComp.struct] at hf; omega
    have hfit' : (Comps.pair gs).fits { d with origin := d.cursorByte } := hfit
    have hrun := Comps.decode_eq gs hok f hf' { d with origin := d.cursorByte } hcb hfit' hpre
    simp only [DComp.struct, decodeDop, decodeComposite, bind, pure, run_bind, run_getS, run_modifyS, run_pure]
    rw [hrun]
    rfl

theorem DComp.struct_endOk (gs : List Comp) (hok : Comps.okAll gs) (hend : Comps.endOkAll gs) (hlast : Comps.eopLast gs) :
    (DComp.struct gs).EndOk where
  of_end := by
    intro d h
    apply Comps.decPre_intro gs hok hend hlast
    intro _
    exact h
  trivial := fun h d => Comps.decPre_of_noEop gs hend h _

/-! ### closure: a VALUE parameter typed by a component DOP -/

/-- a VALUE parameter (no PHYSICAL-DEFAULT-VALUE, no BIT-POSITION) typed by the complex DOP `c`, at BYTE-POSITION `bp`
    or behind its predecessor -/
def Comp.ofValue (name : String) (bp : Option Nat) (c : DComp) : Comp where
  param := .mk name bp none (.value c.dop none)
  pair := c.pair.atPos bp
  sup := some c.sup
  need := c.need + 1
  cur := fun org cu => posOf bp org cu + c.size
  eopOnly := c.eopOnly
  decPre := fun d => c.decPre { d with cursorByte := posOf bp d.origin d.cursorByte }

theorem Comp.ofValue_ok (name : String) (bp : Option Nat) (c : DComp) (hc : c.Ok) : (Comp.ofValue name bp c).Ok where
  good := hc.good.atPos bp
  notKey := rfl
  supplied := fun _ => rfl
  sup_ne_none := by
    have := hc.sup_ne_none
    simpa [Comp.ofValue] using this
  encode_eq := by
    intro fuel hf s heop
    obtain ⟨f, rfl⟩ : ∃ f, fuel = f + 1 := ⟨fuel - 1, by simp only [Comp.ofValue] at hf; omega⟩
    obtain ⟨s1, hrun, hcore, _⟩ := hc.encode_eq f (by simp only [Comp.ofValue] at hf; omega)
      { s with cursorByte := posOf bp s.origin s.cursorByte, cursorBit := 0 } rfl heop
    refine ⟨{ s1 with cursorBit := 0 }, ?_, ?_⟩
    · simp only [Comp.ofValue]
      rw [encodeParam_value_step]
      simp only [Option.getD_none]
      rw [hrun]
    · have hin : SameCore { s with cursorByte := posOf bp s.origin s.cursorByte, cursorBit := 0 }
          { s with cursorByte := posOf bp s.origin s.cursorByte } := ⟨rfl, rfl, rfl, rfl, rfl⟩
      have h2 := hcore.trans (hc.good.core _ _ hin)
      exact ⟨h2.1, h2.2.1, h2.2.2.1, h2.2.2.2.1, h2.2.2.2.2⟩
  enc_cursor := fun s => hc.enc_cursor { s with cursorByte := posOf bp s.origin s.cursorByte }
  cur_shift := by
    intro org c p
    simp only [Comp.ofValue, posOf_shift]
    omega
  dec_cursorBit := fun d h => hc.dec_cursorBit { d with cursorByte := posOf bp d.origin d.cursorByte } h
  dec_msg := fun d => hc.dec_msg { d with cursorByte := posOf bp d.origin d.cursorByte }
  dec_origin := fun d => hc.dec_origin { d with cursorByte := posOf bp d.origin d.cursorByte }
  decode_eq := by
    intro fuel hf d hcb hfit hpre
    obtain ⟨f, rfl⟩ : ∃ f, fuel = f + 1 := ⟨fuel - 1, by simp only [Comp.ofValue] at hf; omega⟩
    have hd1 : ({ d with cursorByte := posOf bp d.origin d.cursorByte, cursorBit := 0 } : DecState) =
        { d with cursorByte := posOf bp d.origin d.cursorByte } := by rw [← hcb]
    have hrun := hc.decode_eq f (by simp only [Comp.ofValue] at hf; omega)
      { d with cursorByte := posOf bp d.origin d.cursorByte } hcb hfit hpre
    have hcb2 := hc.dec_cursorBit { d with cursorByte := posOf bp d.origin d.cursorByte } hcb
    simp only [Comp.ofValue]
    rw [decodeParam_value_step]
    simp only [Option.getD_none]
    rw [hd1, hrun]
    simp only [Pair.atPos]
    rw [DecState.cursorBit_eta _ hcb2]

theorem Comp.ofValue_endOk (name : String) (bp : Option Nat) (c : DComp) (hc : c.EndOk) : (Comp.ofValue name bp c).EndOk where
  of_end := fun d h => hc.of_end { d with cursorByte := posOf bp d.origin d.cursorByte } h
  trivial := fun h d => hc.trivial h _

/-! ### leaves -/

/-- VALUE parameter over a standard-length simple DOP (identical compu method), value supplied -/
def Comp.ofObjValue (o : Obj) (v : IVal) : Comp where
  param := o.toParam
  pair := (Pair.ofObj o v).map PVal.atom
  sup := some (.atom v)
  need := 2
  cur := fun org c => o.pos org c + o.k

/-- CODED-CONST parameter with coded value `v`; the value may be supplied (it must then be `v`) or omitted -/
def Comp.ofObjConst (o : Obj) (v : IVal) (supplied : Bool) : Comp where
  param := o.toConstParam v
  pair := (Pair.ofObj o v).map PVal.atom
  sup := if supplied then some (.atom v) else none
  need := 1
  cur := fun org c => o.pos org c + o.k

theorem Comp.ofObjValue_ok (o : Obj) (v : IVal) (ho : o.ok) (hr : o.inRange v) : (Comp.ofObjValue o v).Ok where
  good := (Good.ofObj o ho v hr).map _
  notKey := rfl
  supplied := fun _ => rfl
  sup_ne_none := by simp [Comp.ofObjValue]
  encode_eq := by
    intro fuel hf s _
    obtain ⟨f, rfl⟩ : ∃ f, fuel = f + 2 := ⟨fuel - 2, by simp only [Comp.ofObjValue] at hf; omega⟩
    exact ⟨encStep o v s, encodeParam_obj o ho v hr f s, SameCore.refl _⟩
  enc_cursor := fun _ => rfl
  cur_shift := by
    intro org c p
    simp only [Comp.ofObjValue, Obj.pos_shift]
    omega
  dec_cursorBit := fun _ _ => rfl
  dec_msg := fun _ => rfl
  dec_origin := fun _ => rfl
  decode_eq := by
    intro fuel hf d _ hfit _
    obtain ⟨f, rfl⟩ : ∃ f, fuel = f + 2 := ⟨fuel - 2, by simp only [Comp.ofObjValue] at hf; omega⟩
    exact decodeParam_obj o ho f d hfit.1 hfit.2

theorem Comp.ofObjConst_ok (o : Obj) (v : IVal) (b : Bool) (ho : o.ok) (hr : o.inRange v) : (Comp.ofObjConst o v b).Ok where
  good := (Good.ofObj o ho v hr).map _
  notKey := rfl
  supplied := fun h => by cases h
  sup_ne_none := by cases b <;> simp [Comp.ofObjConst]
  encode_eq := by
    intro fuel hf s _
    obtain ⟨f, rfl⟩ : ∃ f, fuel = f + 1 := ⟨fuel - 1, by simp only [Comp.ofObjConst] at hf; omega⟩
    refine ⟨encStep o v s, ?_, SameCore.refl _⟩
    exact encodeParam_const_obj o ho v hr _ (by cases b <;> simp [Comp.ofObjConst]) f s
  enc_cursor := fun _ => rfl
  cur_shift := by
    intro org c p
    simp only [Comp.ofObjConst, Obj.pos_shift]
    omega
  dec_cursorBit := fun _ _ => rfl
  dec_msg := fun _ => rfl
  dec_origin := fun _ => rfl
  decode_eq := by
    intro fuel hf d _ hfit _
    obtain ⟨f, rfl⟩ : ∃ f, fuel = f + 1 := ⟨fuel - 1, by simp only [Comp.ofObjConst] at hf; omega⟩
    exact decodeParam_const_obj o ho v f d hfit.1 hfit.2

theorem Comp.endOk_of_plain (g : Comp) (h : g.decPre = fun _ => True) : g.EndOk :=
  ⟨fun _ _ => by rw [h]; trivial, fun _ _ => by rw [h]; trivial⟩

theorem Comp.ofObjValue_endOk (o : Obj) (v : IVal) : (Comp.ofObjValue o v).EndOk := Comp.endOk_of_plain _ rfl
theorem Comp.ofObjConst_endOk (o : Obj) (v : IVal) (b : Bool) : (Comp.ofObjConst o v b).EndOk := Comp.endOk_of_plain _ rfl

/-! ### the message level -/

/-- **Round trip for any structure component at the API level of the model**: if strict `Request.encode` of the supplied
    value returns a PDU without overlap warning, strict `Request.decode` of that PDU returns the component's value. `hpre` =
    the extra decoder preconditions on the PDU (END-OF-PDU-FIELD: ends at the end; RESERVED/NRC-CONST: what is on the wire). -/
theorem dcomp_roundtrip_msg (c : DComp) (hok : c.Ok) (ps : List Param) (hdop : c.dop = .struct none ps)
    (hneed : c.need ≤ modelFuel) (trig : Option Bytes) (pdu : Bytes) (hpre : c.decPre { msg := pdu })
    (henc : encodeMessage none ps c.sup trig true = .ok (pdu, 0)) :
    ∃ cursor, decodeMessage none ps pdu true = .ok (c.pair.val, cursor) := by
  let s0 : EncState := { trig := trig, isEndOfPdu := true }
  obtain ⟨s1, hrun, hcore, _⟩ := hok.encode_eq modelFuel hneed s0 rfl (fun _ => rfl)
  rw [hdop] at hrun
  have hrun' : encodeDop modelFuel (.struct none ps) c.sup { trig := trig, isEndOfPdu := true } true = .ok ((), s1) := hrun
  unfold encodeMessage at henc
  rw [hrun'] at henc
  simp only [Except.ok.injEq, Prod.mk.injEq] at henc
  obtain ⟨hpdu, hwarn⟩ := henc
  have hg := hok.good
  have hall : AllBytes s0.msg := by intro b hb; cases hb
  have hm : (c.pair.enc s0).msg = pdu := by rw [← hcore.1]; exact hpdu
  have hw : (c.pair.enc s0).warn = s0.warn := by rw [← hcore.2.2.1]; exact hwarn
  obtain ⟨hv, _, _, _, hfit⟩ := hg.rt s0 { msg := pdu } hall hw rfl rfl
    (by rw [← hm]; exact hg.allBytes s0 hall) (by rw [hm]; exact Nat.le_refl _) (by intro a _; rw [hm])
  have hdec := hok.decode_eq modelFuel hneed { msg := pdu } rfl hfit hpre
  rw [hdop] at hdec
  refine ⟨(c.pair.dec { msg := pdu }).2.cursorByte, ?_⟩
  unfold decodeMessage
  rw [hdec, hv]

/-- the round trip for a request/response whose parameters are components; the supplied dictionary holds the supplied
    values only, the decoded dictionary has an entry for every parameter -/
theorem comps_roundtrip_msg_pre (gs : List Comp) (hneed : Comps.need gs + 2 ≤ modelFuel) (hok : Comps.okAll gs)
    (hlast : Comps.eopLast gs) (hn : Comps.namesOk gs) (trig : Option Bytes) (pdu : Bytes)
    (hpre : Comps.decPre gs { msg := pdu })
    (henc : encodeMessage none (Comps.toParams gs) (.dict (Comps.values gs)) trig true = .ok (pdu, 0)) :
    ∃ cursor, decodeMessage none (Comps.toParams gs) pdu true = .ok (.dict (Comps.pair gs).val, cursor) :=
  dcomp_roundtrip_msg (DComp.struct gs) (DComp.struct_ok gs hok hn hlast) _ rfl hneed trig pdu hpre henc

/-- … when all decoder preconditions are of the END-OF-PDU kind: a parameter that needs the end of the PDU must be the last
    one (`eopLast`), and then the position behind it must be the end of the PDU (`hend`) -/
theorem comps_roundtrip_msg (gs : List Comp) (hneed : Comps.need gs + 2 ≤ modelFuel) (hok : Comps.okAll gs)
    (hendOk : Comps.endOkAll gs) (hlast : Comps.eopLast gs) (hn : Comps.namesOk gs) (trig : Option Bytes) (pdu : Bytes)
    (hend : Comps.anyEop gs = true → ((Comps.pair gs).enc {}).cursorByte = pdu.length)
    (henc : encodeMessage none (Comps.toParams gs) (.dict (Comps.values gs)) trig true = .ok (pdu, 0)) :
    ∃ cursor, decodeMessage none (Comps.toParams gs) pdu true = .ok (.dict (Comps.pair gs).val, cursor) := by
  -- the pure encoder's cursor does not depend on the message: run from `{}` it ends where the real run ends
  have hok' := DComp.struct_ok gs hok hn hlast
  let s0 : EncState := { trig := trig, isEndOfPdu := true }
  obtain ⟨s1, hrun, hcore, _⟩ := hok'.encode_eq modelFuel hneed s0 rfl (fun _ => rfl)
  have hrun' : encodeDop modelFuel (.struct none (Comps.toParams gs)) (.dict (Comps.values gs))
      { trig := trig, isEndOfPdu := true } true = .ok ((), s1) := hrun
  have henc' := henc
  unfold encodeMessage at henc'
  rw [hrun'] at henc'
  simp only [Except.ok.injEq, Prod.mk.injEq] at henc'
  obtain ⟨hpdu, hwarn⟩ := henc'
  have hg := hok'.good
  have hall : AllBytes s0.msg := by intro b hb; cases hb
  have hm : ((DComp.struct gs).pair.enc s0).msg = pdu := by rw [← hcore.1]; exact hpdu
  have hw : ((DComp.struct gs).pair.enc s0).warn = s0.warn := by rw [← hcore.2.2.1]; exact hwarn
  obtain ⟨_, hcur, _, _, _⟩ := hg.rt s0 { msg := pdu } hall hw rfl rfl
    (by rw [← hm]; exact hg.allBytes s0 hall) (by rw [hm]; exact Nat.le_refl _) (by intro a _; rw [hm])
  refine comps_roundtrip_msg_pre gs hneed hok hlast hn trig pdu ?_ henc
  apply Comps.decPre_intro gs hok hendOk hlast
  intro hany
  have hcur' : ((Comps.pair gs).dec { msg := pdu, origin := 0 }).2.cursorByte = ((Comps.pair gs).enc { s0 with origin := 0 }).cursorByte := hcur
  have hs0 : SameCore ({ s0 with origin := 0 } : EncState) {} := ⟨rfl, rfl, rfl, rfl, rfl⟩
  have := ((Comps.good gs hok).core _ _ hs0).2.2.2.1
  show ((Comps.pair gs).dec { msg := pdu }).2.cursorByte = pdu.length
  rw [← hend hany, ← this]
  exact hcur'

/-! ### bridge: every `GItem.Ok` parameter is a component (given where its encoder's cursor ends up) -/

def Comp.ofGItem (g : GItem) (cur : Nat → Nat → Nat) : Comp where
  param := g.param
  pair := g.pair
  sup := some g.pair.val
  need := g.need
  cur := cur
  eopOnly := g.eopOnly
  decPre := g.decPre

theorem Comp.ofGItem_ok (g : GItem) (h : g.Ok) (cur : Nat → Nat → Nat)
    (hcur : ∀ (s : EncState), (g.pair.enc s).cursorByte = cur s.origin s.cursorByte)
    (hshift : ∀ (org c p : Nat), cur (org + p) (c + p) = cur org c + p)
    (horigin : ∀ (d : DecState), (g.pair.dec d).2.origin = d.origin) : (Comp.ofGItem g cur).Ok where
  good := h.good
  notKey := by
    rcases h.kind with ⟨_, _, _, hp⟩ | ⟨_, _, _, _, hp⟩ <;> simp [Comp.ofGItem, hp, Param.kind, PKind.isKey]
  supplied := fun _ => rfl
  sup_ne_none := by
    have := h.val_ne_none
    simpa [Comp.ofGItem] using this
  encode_eq := h.encode_eq
  enc_cursor := hcur
  cur_shift := hshift
  dec_cursorBit := h.dec_cursorBit
  dec_msg := h.dec_msg
  dec_origin := horigin
  decode_eq := h.decode_eq

theorem Comp.ofGItem_endOk (g : GItem) (h : g.Ok) (cur : Nat → Nat → Nat) : (Comp.ofGItem g cur).EndOk :=
  ⟨h.decPre_of_end, h.decPre_trivial⟩

end OdxVerif.Codec
