import OdxVerif.Proofs.CompBits2Desc
import OdxVerif.Proofs.CompCompuDescribed
/-! Bit-exactness (property C02) for the compu-method leaves, extension W21: `Desc3` — the syntactic mirror of `Described3`
    (`Desc2` of `Proofs/CompBits2Desc.lean`, copied, plus the conversion leaves `conv` / `convDefault` / `convConst`: VALUE (with default) / PHYS-CONST over a
    DOP with a LINEAR / TEXTTABLE compu method or a DTC-DOP).  The layout entry of a conversion leaf is the object of the
    **internal** value: `Lay2.obj … o (o.specRepr i)` — the bits on the wire are those the diag-coded type prescribes for the
    internal value the compu method computes (`ConvOk`), not for the physical value.  `Desc3.foot`: the second footprint law
    (`Foot2`) holds for the pure encoder of every description. -/
namespace OdxVerif.Codec
open OdxVerif.Bits OdxVerif.OdxM

/-- descriptions with values: the constructors of `Described3` / `DescribedTop3` -/
inductive Desc3 where
  | value (o : Obj) (v : IVal)
  | valueDefault (o : Obj) (dv : IVal) (sup : Option IVal)
  | const (o : Obj) (v : IVal) (supplied : Bool)
  | physConst (o : Obj) (v : IVal) (supplied : Bool)
  | minmaxMid (l : MMLeaf)
  | minmaxFull (l : MMLeaf)
  | minmaxLast (l : MMLeaf)
  | leading (l : LeadLeaf)
  | conv (o : Obj) (dop : Dop) (sup val : PVal) (i : IVal)
  | convConst (o : Obj) (dop : Dop) (c val : PVal) (i : IVal) (supplied : Bool)
  | convDefault (o : Obj) (dop : Dop) (dv : PVal) (omitted : Bool) (sup val : PVal) (i : IVal)
  | matching (n : String) (bp : Option Nat) (reqPos byteLen : Nat) (t : Bytes)
  | struct (name : String) (bp : Option Nat) (bso : Option Nat) (kids : List Desc3)
  | staticField (name : String) (bp : Option Nat) (itemSize : Nat) (bso : Option Nat) (shape : List Param) (items : List (List Desc3))
  | dynLenField (name : String) (bp : Option Nat) (l : DynLayout) (bso : Option Nat) (shape : List Param) (items : List (List Desc3))
  | eopField (name : String) (bp : Option Nat) (mn mx : Option Nat) (bso : Option Nat) (shape : List Param) (items : List (List Desc3))
  | mux (name : String) (bp : Option Nat) (m : MuxLayout) (kids : List Desc3)
  | endMarkerEop (name : String) (bp : Option Nat) (l : EmLayout) (bso : Option Nat) (shape : List Param) (items : List (List Desc3))
  | endMarkerMid (name : String) (bp : Option Nat) (l : EmLayout) (bso : Option Nat) (shape : List Param) (items : List (List Desc3))

mutual
/-- the component a description denotes, with its flag `mid` ("needs `is_end_of_pdu` cleared") -/
def Desc3.mc : Desc3 → MComp
  | .value o v => ⟨Comp.ofObjValue o v, false⟩
  | .valueDefault o dv sup => ⟨Comp.ofObjDefault o dv sup, false⟩
  | .const o v b => ⟨Comp.ofObjConst o v b, false⟩
  | .physConst o v b => ⟨Comp.ofObjPhysConst o v b, false⟩
  | .minmaxMid l => ⟨Comp.ofMinMaxMid l, true⟩
  | .minmaxFull l => ⟨Comp.ofMinMaxFull l, false⟩
  | .minmaxLast l => ⟨Comp.ofMinMaxLast l, false⟩
  | .leading l => ⟨Comp.ofLeading l, false⟩
  | .conv o dop sup val i => ⟨Comp.ofConvLeaf o dop sup val i, false⟩
  | .convConst o dop c val i b => ⟨Comp.ofConvPhysConst o dop c val i b, false⟩
  | .convDefault o dop dv om sup val i => ⟨Comp.ofConvDefault o dop dv om sup val i, false⟩
  | .matching n bp reqPos byteLen t => ⟨Comp.matchingReq n bp reqPos byteLen t, false⟩
  | .struct name bp bso kids =>
    ⟨Comp.ofValue name bp (DComp.structO bso (MComps.cs (Descs3.mcs kids))), MComps.lastMid (Descs3.mcs kids)⟩
  | .staticField name bp n bso shape items =>
    ⟨Comp.ofValue name bp (DComp.staticField n (.struct bso shape) (itemsO bso (Descss3.mcss items))), false⟩
  | .dynLenField name bp l bso shape items =>
    ⟨Comp.ofValue name bp (DComp.dynLenField l (.struct bso shape) (itemsO bso (Descss3.mcss items))), itemsLastMid (Descss3.mcss items)⟩
  | .eopField name bp mn mx bso shape items =>
    ⟨Comp.ofValue name bp (DComp.eopField mn mx (.struct bso shape) (itemsO bso (Descss3.mcss items))), false⟩
  | .mux name bp m kids =>
    ⟨Comp.ofValue name bp (DComp.mux m (DComp.struct (MComps.cs (Descs3.mcs kids)))), MComps.lastMid (Descs3.mcs kids)⟩
  | .endMarkerEop name bp l bso shape items =>
    ⟨Comp.ofValue name bp (DComp.endMarkerEop l (.struct bso shape) (itemsO bso (Descss3.mcss items))), false⟩
  | .endMarkerMid name bp l bso shape items =>
    ⟨Comp.ofValue name bp (DComp.endMarkerMid l (.struct bso shape) (itemsO bso (Descss3.mcss items))), true⟩
def Descs3.mcs : List Desc3 → List MComp
  | [] => []
  | d :: ds => d.mc :: Descs3.mcs ds
def Descss3.mcss : List (List Desc3) → List (List MComp)
  | [] => []
  | k :: ks => Descs3.mcs k :: Descss3.mcss ks
end

/-- the components of a parameter list -/
def Descs3.comps (ds : List Desc3) : List Comp := MComps.cs (Descs3.mcs ds)

theorem Descss3.mcss_length : (items : List (List Desc3)) → (Descss3.mcss items).length = items.length
  | [] => rfl
  | _ :: ks => by simp only [Descss3.mcss, List.length_cons, Descss3.mcss_length ks]

mutual
/-- well-formedness: the side conditions of the constructors of `Described2` (MATCHING-REQUEST-PARAM: top level only, `wfTop`) -/
def Desc3.wf : Desc3 → Prop
  | .value o v => o.ok ∧ o.inRange v
  | .valueDefault o dv sup => o.ok ∧ o.inRange (sup.getD dv)
  | .const o v _ => o.ok ∧ o.inRange v
  | .physConst o v _ => o.ok ∧ o.inRange v
  | .minmaxMid l => l.okMid
  | .minmaxFull l => l.okFull
  | .minmaxLast l => l.okLast
  | .leading l => l.ok
  | .conv o dop sup val i => o.ok ∧ o.inRange i ∧ ConvOk dop o.dct sup val i
  | .convConst o dop c val i _ => o.ok ∧ o.inRange i ∧ ConvOk dop o.dct c val i ∧ pvalEq c c = true ∧ pvalEq val c = true
  | .convDefault o dop dv om sup val i => o.ok ∧ o.inRange i ∧ ConvOk dop o.dct sup val i ∧ (om = true → sup = dv)
  | .matching _ _ _ _ _ => False
  | .struct _ _ bso kids =>
    Descs3.wf kids ∧ Comps.namesOk (Descs3.comps kids) ∧ Comps.eopLast (Descs3.comps kids) ∧ sizeSide bso (Descs3.comps kids)
  | .staticField _ _ n bso shape items =>
    Descss3.wf items ∧ ∀ k ∈ Descss3.mcss items, itemSideS bso shape k ∧ (DComp.structO bso (MComps.cs k)).size ≤ n
  | .dynLenField _ _ l bso shape items =>
    Descss3.wf items ∧ (∀ k ∈ Descss3.mcss items, itemSideS bso shape k ∧ 1 ≤ (DComp.structO bso (MComps.cs k)).size) ∧
      l.ok items.length
  | .eopField _ _ _ _ bso shape items =>
    Descss3.wf items ∧ (∀ k ∈ Descss3.mcss items, itemSideS bso shape k ∧ 1 ≤ (DComp.structO bso (MComps.cs k)).size) ∧
      (∀ k, (Descss3.mcss items).getLast? = some k → MComps.midNotLast k)
  | .mux _ _ m kids =>
    Descs3.wf kids ∧ Comps.namesOk (Descs3.comps kids) ∧ Comps.eopLast (Descs3.comps kids) ∧
      m.ok (.struct none (Comps.toParams (Descs3.comps kids)))
  | .endMarkerEop _ _ l bso shape items =>
    Descss3.wf items ∧ l.ok ∧
      (∀ k ∈ Descss3.mcss items, itemSideS bso shape k ∧ 1 ≤ (DComp.structO bso (MComps.cs k)).size ∧
        l.miss (DComp.structO bso (MComps.cs k))) ∧
      (∀ k, (Descss3.mcss items).getLast? = some k → MComps.midNotLast k)
  | .endMarkerMid _ _ l bso shape items =>
    Descss3.wf items ∧ l.ok ∧
      (∀ k ∈ Descss3.mcss items, itemSideS bso shape k ∧ 1 ≤ (DComp.structO bso (MComps.cs k)).size ∧
        l.miss (DComp.structO bso (MComps.cs k)))
def Descs3.wf : List Desc3 → Prop
  | [] => True
  | d :: ds => d.wf ∧ Descs3.wf ds
def Descss3.wf : List (List Desc3) → Prop
  | [] => True
  | k :: ks => Descs3.wf k ∧ Descss3.wf ks
end

mutual
/-- a well-formed description denotes a described parameter -/
theorem Desc3.described : (d : Desc3) → d.wf → Described3 d.mc.c d.mc.mid
  | .value o v, h => by
    simp only [Desc3.wf] at h
    exact Described3.old _ _ (Described2.value o v h.1 h.2)
  | .valueDefault o dv sup, h => by
    simp only [Desc3.wf] at h
    exact Described3.old _ _ (Described2.valueDefault o dv sup h.1 h.2)
  | .const o v b, h => by
    simp only [Desc3.wf] at h
    exact Described3.old _ _ (Described2.const o v b h.1 h.2)
  | .physConst o v b, h => by
    simp only [Desc3.wf] at h
    exact Described3.old _ _ (Described2.physConst o v b h.1 h.2)
  | .minmaxMid l, h => by
    simp only [Desc3.wf] at h
    exact Described3.old _ _ (Described2.minmaxMid l h)
  | .minmaxFull l, h => by
    simp only [Desc3.wf] at h
    exact Described3.old _ _ (Described2.minmaxFull l h)
  | .minmaxLast l, h => by
    simp only [Desc3.wf] at h
    exact Described3.old _ _ (Described2.minmaxLast l h)
  | .leading l, h => by
    simp only [Desc3.wf] at h
    exact Described3.old _ _ (Described2.leading l h)
  | .conv o dop sup val i, h => by
    simp only [Desc3.wf] at h
    exact Described3.convLeaf o dop sup val i h.1 h.2.1 h.2.2
  | .convConst o dop c val i b, h => by
    simp only [Desc3.wf] at h
    exact Described3.convPhysConst o dop c val i b h.1 h.2.1 h.2.2.1 h.2.2.2.1 h.2.2.2.2
  | .convDefault o dop dv om sup val i, h => by
    simp only [Desc3.wf] at h
    exact Described3.convDefault o dop dv om sup val i h.1 h.2.1 h.2.2.1 h.2.2.2
  | .matching _ _ _ _ _, h => by
    simp only [Desc3.wf] at h
  | .struct name bp bso kids, h => by
    simp only [Desc3.wf] at h
    exact Described3.struct name bp bso _ (Descs3.described kids h.1) h.2.1 h.2.2.1 h.2.2.2
  | .staticField name bp n bso shape items, h => by
    simp only [Desc3.wf] at h
    exact Described3.staticField name bp n bso shape _ (Descss3.described items h.1) h.2
  | .dynLenField name bp l bso shape items, h => by
    simp only [Desc3.wf] at h
    exact Described3.dynLenField name bp l bso shape _ (Descss3.described items h.1) h.2.1
      (by rw [Descss3.mcss_length]; exact h.2.2)
  | .eopField name bp mn mx bso shape items, h => by
    simp only [Desc3.wf] at h
    exact Described3.eopField name bp mn mx bso shape _ (Descss3.described items h.1) h.2.1 h.2.2
  | .mux name bp m kids, h => by
    simp only [Desc3.wf] at h
    exact Described3.mux name bp m _ (Descs3.described kids h.1) h.2.1 h.2.2.1 h.2.2.2
  | .endMarkerEop name bp l bso shape items, h => by
    simp only [Desc3.wf] at h
    exact Described3.endMarkerEop name bp l bso shape _ (Descss3.described items h.1) h.2.1 h.2.2.1 h.2.2.2
  | .endMarkerMid name bp l bso shape items, h => by
    simp only [Desc3.wf] at h
    exact Described3.endMarkerMid name bp l bso shape _ (Descss3.described items h.1) h.2.1 h.2.2
theorem Descs3.described : (ds : List Desc3) → Descs3.wf ds → ∀ m ∈ Descs3.mcs ds, Described3 m.c m.mid
  | [], _ => by intro m hm; simp [Descs3.mcs] at hm
  | d :: ds, h => by
    simp only [Descs3.wf] at h
    intro m hm
    simp only [Descs3.mcs, List.mem_cons] at hm
    rcases hm with rfl | hm
    · exact Desc3.described d h.1
    · exact Descs3.described ds h.2 m hm
theorem Descss3.described : (items : List (List Desc3)) → Descss3.wf items →
    ∀ k ∈ Descss3.mcss items, ∀ m ∈ k, Described3 m.c m.mid
  | [], _ => by intro k hk; simp [Descss3.mcss] at hk
  | k :: ks, h => by
    simp only [Descss3.wf] at h
    intro k' hk'
    simp only [Descss3.mcss, List.mem_cons] at hk'
    rcases hk' with rfl | hk'
    · exact Descs3.described k h.1
    · exact Descss3.described ks h.2 k' hk'
end

/-! ### the layout -/

mutual
/-- **the layout of a description** — as `Desc.lay`, and for the round-6 constructors:
    * MIN-MAX-LENGTH leaf: the payload (`value`, the bytes as one big-endian number); if it is terminated (`minmaxMid`: not at
      the end of the PDU, shorter than MAX-LENGTH) the termination sequence behind it (`terminator`);
    * LEADING-LENGTH leaf: the `lengthPrefix` (at the parameter's byte/bit position, value = the payload's byte length), the payload;
    * MATCHING-REQUEST-PARAM: the bytes of the triggering request (`echo`);
    * STRUCTURE with BYTE-SIZE `bs` at `p`: the content, then `sizePadding` from the cursor behind the content to `p + bs`
      (absent if the content fills BYTE-SIZE) — also for every field item;
    * DYNAMIC-ENDMARKER-FIELD: the items back to back; if not at the end of the PDU, the TERMINATION-VALUE through the
      DYN-END-DOP behind the last item (`marker`; the cursor stays in front of it) -/
def Desc3.lay : Desc3 → Lay2
  | .value o v => Lay2.obj .value o.name o (o.specRepr v)
  | .valueDefault o dv sup => Lay2.obj (if sup.isSome then .value else .default) o.name o (o.specRepr (sup.getD dv))
  | .const o v _ => Lay2.obj .codedConst o.name o (o.specRepr v)
  | .physConst o v _ => Lay2.obj .physConst o.name o (o.specRepr v)
  | .minmaxMid l => l.layMid
  | .minmaxFull l => l.layEnd
  | .minmaxLast l => l.layEnd
  | .leading l => l.lay
  | .conv o _ _ _ i => Lay2.obj .value o.name o (o.specRepr i)
  | .convConst o _ _ _ i _ => Lay2.obj .physConst o.name o (o.specRepr i)
  | .convDefault o _ _ om _ _ i => Lay2.obj (if om then .default else .value) o.name o (o.specRepr i)
  | .matching n bp reqPos byteLen t => Lay2.matching n bp reqPos byteLen t
  | .struct _ bp bso kids => (Lay2.sized bso (Descs3.lay kids)).atPos bp
  | .staticField _ bp n bso _ items => ((Descss3.layStatic n bso items).inOrigin).atPos bp
  | .dynLenField _ bp l bso _ items =>
    (((Lay2.obj .count l.cntObj.name l.cntObj (l.cntObj.specRepr (.int items.length))).seq
        ((Lay2.dynBody items.isEmpty (Descss3.layDyn bso items)).atPos (some l.offset))).inOrigin).atPos bp
  | .eopField _ bp _ _ bso _ items => ((Descss3.layDyn bso items).inOrigin).atPos bp
  | .mux _ bp m kids =>
    (((Lay2.obj .switchKey m.keyObj.name m.keyObj (m.keyObj.specRepr (.int m.lo))).seq
        (((Descs3.lay kids).inOrigin).atPos (some m.muxBp))).inOrigin).atPos bp
  | .endMarkerEop _ bp _ bso _ items => ((Descss3.layDyn bso items).inOrigin).atPos bp
  | .endMarkerMid _ bp l bso _ items =>
    (((Descss3.layDyn bso items).seq ((Lay2.obj .marker l.obj.name l.obj (l.obj.specRepr (.int l.tv))).peek)).inOrigin).atPos bp
def Descs3.lay : List Desc3 → Lay2
  | [] => Lay2.nil
  | d :: ds => d.lay.seq (Descs3.lay ds)
/-- the items of a static field: item structure (with its BYTE-SIZE padding), then the padding up to ITEM-BYTE-SIZE -/
def Descss3.layStatic (n : Nat) (bso : Option Nat) : List (List Desc3) → Lay2
  | [] => Lay2.nil
  | k :: ks => (((Lay2.sized bso (Descs3.lay k)).seq (Lay2.padTo n)).inOrigin).seq (Descss3.layStatic n bso ks)
/-- the items of the other fields: item structures back to back -/
def Descss3.layDyn (bso : Option Nat) : List (List Desc3) → Lay2
  | [] => Lay2.nil
  | k :: ks => (Lay2.sized bso (Descs3.lay k)).seq (Descss3.layDyn bso ks)
end

/-! ### closure steps -/
mutual
/-- **the second footprint law holds for every description** (the layout needs no side condition; well-formedness is
    needed for the leaves only: the raw pattern is `Obj.specRepr` for values in range) -/
theorem Desc3.foot : (d : Desc3) → (d.wf ∨ ∃ n bp rp bl t, d = .matching n bp rp bl t ∧ AllBytes t) → Foot2 d.mc.c.pair.enc d.lay
  | .value o v, h => by
    rcases h with h | ⟨_, _, _, _, _, h, _⟩
    · simp only [Desc3.wf] at h
      exact Foot2.obj .value _ o v h.1 h.2
    · cases h
  | .valueDefault o dv sup, h => by
    rcases h with h | ⟨_, _, _, _, _, h, _⟩
    · simp only [Desc3.wf] at h
      exact Foot2.obj _ _ o (sup.getD dv) h.1 h.2
    · cases h
  | .const o v b, h => by
    rcases h with h | ⟨_, _, _, _, _, h, _⟩
    · simp only [Desc3.wf] at h
      exact Foot2.obj .codedConst _ o v h.1 h.2
    · cases h
  | .physConst o v b, h => by
    rcases h with h | ⟨_, _, _, _, _, h, _⟩
    · simp only [Desc3.wf] at h
      exact Foot2.obj .physConst _ o v h.1 h.2
    · cases h
  | .minmaxMid l, h => by
    rcases h with h | ⟨_, _, _, _, _, h, _⟩
    · simp only [Desc3.wf] at h
      exact l.footMid h.1
    · cases h
  | .minmaxFull l, h => by
    rcases h with h | ⟨_, _, _, _, _, h, _⟩
    · simp only [Desc3.wf] at h
      exact l.footFull h.1
    · cases h
  | .minmaxLast l, h => by
    rcases h with h | ⟨_, _, _, _, _, h, _⟩
    · simp only [Desc3.wf] at h
      exact l.footLast h
    · cases h
  | .leading l, h => by
    rcases h with h | ⟨_, _, _, _, _, h, _⟩
    · simp only [Desc3.wf] at h
      exact l.foot h
    · cases h
  | .conv o dop sup val i, h => by
    rcases h with h | ⟨_, _, _, _, _, h, _⟩
    · simp only [Desc3.wf] at h
      exact Foot2.obj .value _ o i h.1 h.2.1
    · cases h
  | .convConst o dop c val i b, h => by
    rcases h with h | ⟨_, _, _, _, _, h, _⟩
    · simp only [Desc3.wf] at h
      exact Foot2.obj .physConst _ o i h.1 h.2.1
    · cases h
  | .convDefault o dop dv om sup val i, h => by
    rcases h with h | ⟨_, _, _, _, _, h, _⟩
    · simp only [Desc3.wf] at h
      exact Foot2.obj _ _ o i h.1 h.2.1
    · cases h
  | .matching n bp reqPos byteLen t, h => by
    rcases h with h | ⟨_, _, _, _, _, h, ht⟩
    · simp only [Desc3.wf] at h
    · cases h
      exact foot2_matching n bp reqPos byteLen t ht
  | .struct name bp bso kids, h => by
    rcases h with h | ⟨_, _, _, _, _, h, _⟩
    · simp only [Desc3.wf] at h
      exact Foot2.atPos bp (foot2_structO bso _ _ (Descs3.foot kids h.1))
    · cases h
  | .staticField name bp n bso shape items, h => by
    rcases h with h | ⟨_, _, _, _, _, h, _⟩
    · simp only [Desc3.wf] at h
      exact Foot2.atPos bp (Foot2.inOrigin (Descss3.footStatic n bso items h.1))
    · cases h
  | .dynLenField name bp l bso shape items, h => by
    rcases h with h | ⟨_, _, _, _, _, h, _⟩
    · simp only [Desc3.wf] at h
      have hF := Descss3.footDyn bso items h.1
      have hlen : (itemsO bso (Descss3.mcss items)).length = items.length := by
        simp only [itemsO, List.length_map, Descss3.mcss_length]
      have hl : l.ok (itemsO bso (Descss3.mcss items)).length := by rw [hlen]; exact h.2.2
      have hbody : Foot2 (dynBodyC (itemsO bso (Descss3.mcss items))).enc (Lay2.dynBody items.isEmpty (Descss3.layDyn bso items)) := by
        cases items with
        | nil => exact Foot2.touch
        | cons k ks => exact hF
      have := foot2_dynLen l (.struct bso shape) _ _ hl hbody
      rw [hlen] at this
      exact Foot2.atPos bp this
    · cases h
  | .eopField name bp mn mx bso shape items, h => by
    rcases h with h | ⟨_, _, _, _, _, h, _⟩
    · simp only [Desc3.wf] at h
      exact Foot2.atPos bp (Foot2.inOrigin (Descss3.footDyn bso items h.1))
    · cases h
  | .mux name bp m kids, h => by
    rcases h with h | ⟨_, _, _, _, _, h, _⟩
    · simp only [Desc3.wf] at h
      exact Foot2.atPos bp (foot2_mux m _ _ h.2.2.2.1 h.2.2.2.2.1 (Foot2.inOrigin (Descs3.foot kids h.1)))
    · cases h
  | .endMarkerEop name bp l bso shape items, h => by
    rcases h with h | ⟨_, _, _, _, _, h, _⟩
    · simp only [Desc3.wf] at h
      exact Foot2.atPos bp (Foot2.inOrigin (Descss3.footEm l bso items h.1))
    · cases h
  | .endMarkerMid name bp l bso shape items, h => by
    rcases h with h | ⟨_, _, _, _, _, h, _⟩
    · simp only [Desc3.wf] at h
      exact Foot2.atPos bp (foot2_emMid l h.2.1 (.struct bso shape) _ _ (Descss3.footEm l bso items h.1))
    · cases h
theorem Descs3.foot : (ds : List Desc3) → Descs3.wf ds → Foot2 (Comps.pair (Descs3.comps ds)).enc (Descs3.lay ds)
  | [], _ => Foot2.nil
  | d :: ds, h => by
    simp only [Descs3.wf] at h
    exact Foot2.seq (ea := d.mc.c.pair.enc) (eb := (Comps.pair (Descs3.comps ds)).enc) (Desc3.foot d (Or.inl h.1)) (Descs3.foot ds h.2)
theorem Descss3.footStatic (n : Nat) (bso : Option Nat) : (items : List (List Desc3)) → Descss3.wf items →
    Foot2 (Pair.list ((itemsO bso (Descss3.mcss items)).map (staticItemC n))).enc (Descss3.layStatic n bso items)
  | [], _ => Foot2.nil
  | k :: ks, h => by
    simp only [Descss3.wf] at h
    exact Foot2.seq (ea := (staticItemC n (DComp.structO bso (Descs3.comps k))).enc)
      (eb := (Pair.list ((itemsO bso (Descss3.mcss ks)).map (staticItemC n))).enc)
      (Foot2.inOrigin (Foot2.seq (ea := (DComp.structO bso (Descs3.comps k)).pair.enc) (eb := (Pair.padTo n).enc)
        (foot2_structO bso _ _ (Descs3.foot k h.1)) (Foot2.padTo n))) (Descss3.footStatic n bso ks h.2)
theorem Descss3.footDyn (bso : Option Nat) : (items : List (List Desc3)) → Descss3.wf items →
    Foot2 (Pair.list ((itemsO bso (Descss3.mcss items)).map dynItemC)).enc (Descss3.layDyn bso items)
  | [], _ => Foot2.nil
  | k :: ks, h => by
    simp only [Descss3.wf] at h
    exact Foot2.seq (ea := (dynItemC (DComp.structO bso (Descs3.comps k))).enc)
      (eb := (Pair.list ((itemsO bso (Descss3.mcss ks)).map dynItemC)).enc)
      (foot2_structO bso _ _ (Descs3.foot k h.1)) (Descss3.footDyn bso ks h.2)
theorem Descss3.footEm (l : EmLayout) (bso : Option Nat) : (items : List (List Desc3)) → Descss3.wf items →
    Foot2 (Pair.list ((itemsO bso (Descss3.mcss items)).map (emItemC l))).enc (Descss3.layDyn bso items)
  | [], _ => Foot2.nil
  | k :: ks, h => by
    simp only [Descss3.wf] at h
    exact Foot2.seq (ea := (emItemC l (DComp.structO bso (Descs3.comps k))).enc)
      (eb := (Pair.list ((itemsO bso (Descss3.mcss ks)).map (emItemC l))).enc)
      (foot2_structO bso _ _ (Descs3.foot k h.1)) (Descss3.footEm l bso ks h.2)
end

/-! ### the leaf kinds as descriptions -/

def LinLeaf.desc (l : LinLeaf) : Desc3 := .conv l.o l.dop (.atom (.int l.z)) (.atom (.int l.z)) (.int l.i)
def LinLeaf.constDesc (l : LinLeaf) (b : Bool) : Desc3 := .convConst l.o l.dop (.atom (.int l.z)) (.atom (.int l.z)) (.int l.i) b
def TTLeaf.desc (l : TTLeaf) : Desc3 := .conv l.o l.dop (.atom (.str l.text)) (.atom (.str l.text)) l.i
def TTLeaf.constDesc (l : TTLeaf) (b : Bool) : Desc3 := .convConst l.o l.dop (.atom (.str l.text)) (.atom (.str l.text)) l.i b
def DtcLeaf.desc (l : DtcLeaf) (sup : PVal) : Desc3 := .conv l.o l.dop sup (.dtc l.code) (.int l.code)
def DtcLeaf.constDesc (l : DtcLeaf) (b : Bool) : Desc3 := .convConst l.o l.dop (.dtc l.code) (.dtc l.code) (.int l.code) b

theorem LinLeaf.desc_wf (l : LinLeaf) (h : l.ok) : l.desc.wf := by
  simp only [LinLeaf.desc, Desc3.wf]; exact ⟨h.1, h.2.1, l.convOk h⟩
theorem LinLeaf.constDesc_wf (l : LinLeaf) (h : l.ok) (b : Bool) : (l.constDesc b).wf := by
  simp only [LinLeaf.constDesc, Desc3.wf]; exact ⟨h.1, h.2.1, l.convOk h, pvalEq_atom_self _, pvalEq_atom_self _⟩
theorem TTLeaf.desc_wf (l : TTLeaf) (h : l.ok) : l.desc.wf := by
  simp only [TTLeaf.desc, Desc3.wf]; exact ⟨h.1, h.2.1, l.convOk h⟩
theorem TTLeaf.constDesc_wf (l : TTLeaf) (h : l.ok) (b : Bool) : (l.constDesc b).wf := by
  simp only [TTLeaf.constDesc, Desc3.wf]; exact ⟨h.1, h.2.1, l.convOk h, pvalEq_atom_self _, pvalEq_atom_self _⟩
theorem DtcLeaf.desc_wf (l : DtcLeaf) (h : l.ok) (sup : PVal) (hs : l.supOk sup) : (l.desc sup).wf := by
  simp only [DtcLeaf.desc, Desc3.wf]; exact ⟨h.1, h.2.1, l.convOk h sup hs⟩
theorem DtcLeaf.constDesc_wf (l : DtcLeaf) (h : l.ok) (b : Bool) : (l.constDesc b).wf := by
  simp only [DtcLeaf.constDesc, Desc3.wf]; exact ⟨h.1, h.2.1, l.convOk h (.dtc l.code) rfl, by simp [pvalEq], by simp [pvalEq]⟩

theorem LinLeaf.desc_mc (l : LinLeaf) : l.desc.mc = ⟨l.comp, false⟩ := rfl
theorem TTLeaf.desc_mc (l : TTLeaf) : l.desc.mc = ⟨l.comp, false⟩ := rfl
theorem DtcLeaf.desc_mc (l : DtcLeaf) (sup : PVal) : (l.desc sup).mc = ⟨l.comp sup, false⟩ := rfl

end OdxVerif.Codec
