import OdxVerif.Proofs.CompTrunc2Leaf
/-! C05, nested tier, second part (task W26): the probe flag is restored — every decoding function of the instrumented decoder
    that returns leaves the ghost flag as it found it (`flag_decode_all`), without any hypothesis on the log.  Core Lean only. -/
namespace OdxVerif.Codec
open OdxVerif.OdxM OdxVerif.Bits

/-- a run that returns leaves the probe flag alone -/
def KeepsFlag {α : Type} (m : LogM α) : Prop := ∀ ls b a ls1, m ls b = .ok (a, ls1) → ls1.probe = ls.probe

theorem flag_pure {α} (a : α) : KeepsFlag (Pure.pure a : LogM α) := by intro ls b a' ls1 h; cases h; rfl
theorem flag_pure' {α} (a : α) : KeepsFlag (OdxM.pure a : LogM α) := by intro ls b a' ls1 h; cases h; rfl
theorem flag_raise {α} (e : Err) : KeepsFlag (raise e : LogM α) := by intro ls b a' ls1 h; cases h
theorem flag_odxraise (e : Err) : KeepsFlag (odxraise e : LogM Unit) := by
  intro ls b a' ls1 h; cases b
  · cases h; rfl
  · cases h
theorem flag_odxassert (c : Bool) : KeepsFlag (odxassert c : LogM Unit) := by
  unfold odxassert; split
  · exact flag_pure' ()
  · exact flag_odxraise _
theorem flag_liftD {α} (m : DecM α) : KeepsFlag (liftD m) := by
  intro ls b a ls1 h
  unfold liftD at h
  cases hm : m ls.st b with
  | ok p => obtain ⟨a', s⟩ := p; rw [hm] at h; cases h; rfl
  | error p => obtain ⟨e, s⟩ := p; rw [hm] at h; cases h
theorem flag_getD : KeepsFlag getD := flag_liftD _
theorem flag_modD (f : DecState → DecState) : KeepsFlag (modD f) := flag_liftD _

theorem flag_bind' {α β} (m : LogM α) (f : α → LogM β) (hm : KeepsFlag m) (hf : ∀ a, KeepsFlag (f a)) : KeepsFlag (OdxM.bind m f) := by
  intro ls b c ls2 h
  unfold OdxM.bind at h
  cases hms : m ls b with
  | error x => rw [hms] at h; cases h
  | ok p =>
    obtain ⟨a, l1⟩ := p
    rw [hms] at h
    exact (hf a l1 b c ls2 h).trans (hm ls b a l1 hms)
theorem flag_bind {α β} (m : LogM α) (f : α → LogM β) (hm : KeepsFlag m) (hf : ∀ a, KeepsFlag (f a)) : KeepsFlag (m >>= f) :=
  flag_bind' m f hm hf
theorem flag_ite {α} (c : Prop) [Decidable c] (a b : LogM α) (ha : KeepsFlag a) (hb : KeepsFlag b) : KeepsFlag (if c then a else b) := by
  split <;> assumption

/-- the probe restores the flag whatever the probed computation does to it -/
theorem flag_probeL {α} (m : LogM α) (handles : Err → Bool) (h : Err → LogM α) (hh : ∀ e, KeepsFlag (h e)) :
    KeepsFlag (probeL m handles h) := by
  intro ls b c ls2 hr
  unfold probeL at hr
  cases hms : m { ls with probe := true } b with
  | ok p =>
    obtain ⟨a, l1⟩ := p
    rw [hms] at hr
    cases hr; rfl
  | error x =>
    obtain ⟨e0, l0⟩ := x
    rw [hms] at hr
    simp only [] at hr
    by_cases hc : handles e0 = true
    · rw [if_pos hc] at hr
      exact hh e0 { l0 with probe := ls.probe } b c ls2 hr
    · rw [if_neg hc] at hr; cases hr

theorem flag_extractCoreL (bl : Nat) (bt : BaseType) (enc : Option Enc) (hl : Bool) : KeepsFlag (extractCoreL bl bt enc hl) := by
  intro ls b a ls1 h
  rw [extractCoreL_run] at h
  cases hm : extractCore bl bt enc hl ls.st b with
  | ok p => obtain ⟨a', s⟩ := p; rw [hm] at h; cases h; rfl
  | error p => obtain ⟨e, s⟩ := p; rw [hm] at h; cases h

attribute [irreducible] KeepsFlag

macro "flag_step" : tactic =>
  `(tactic| first
    | exact flag_pure _ | exact flag_pure' _ | exact flag_raise _ | exact flag_odxraise _ | exact flag_odxassert _
    | exact flag_getD | exact flag_modD _
    | assumption
    | apply flag_bind | apply flag_bind' | apply flag_ite
    | intro _)
macro "flag1" : tactic => `(tactic| first
    | flag_step | split | dsimp only
    | (simp only [Nat.succ_eq_add_one, Nat.add_right_cancel_iff] at *; subst_vars))

theorem flag_extractAtomicL (bl : Nat) (bt : BaseType) (enc : Option Enc) (hl : Bool) : KeepsFlag (extractAtomicL bl bt enc hl) := by
  unfold extractAtomicL
  repeat (first | exact flag_extractCoreL _ _ _ _ | flag1)

theorem flag_unapplyMask (m : Nat) (c : Bool) (v : IVal) : KeepsFlag (unapplyMask m c v : LogM IVal) := by
  unfold unapplyMask
  cases v <;> simp only [] <;> repeat flag1

macro "flag2" : tactic => `(tactic| first
    | exact flag_extractAtomicL _ _ _ _ | exact flag_unapplyMask _ _ _ | flag1)

theorem flag_decodeDctL (dct : Dct) : KeepsFlag (decodeDctL dct) := by
  unfold decodeDctL
  cases dct with
  | std bt enc hl bl mask c => cases mask <;> simp only [] <;> repeat flag2
  | minmax bt enc hl mn mx t => simp only []; repeat flag2
  | leading bt enc hl bl => simp only []; repeat flag2
  | paramLen bt enc hl key => simp only []; repeat flag2

theorem flag_methodI2P (arith : Err) (m : Compu.Method) (i : Compu.Val) :
    KeepsFlag (methodI2P arith m i : LogM (Option Compu.Val)) := by
  unfold methodI2P
  cases m <;> simp only [] <;> repeat flag1

theorem flag_dopI2P (m : Compu.Method) (v : IVal) : KeepsFlag (dopI2P m v : LogM (Option IVal)) := by
  unfold dopI2P
  repeat (first | exact flag_methodI2P _ _ _ | flag1)

macro "flag3" : tactic => `(tactic| first
    | exact flag_decodeDctL _ | exact flag_dopI2P _ _ | exact flag_methodI2P _ _ _ | flag2)

set_option maxHeartbeats 1600000 in
/-- **The probe flag is restored** by every decoding function of the instrumented decoder that returns -/
theorem flag_decode_all (fuel : Nat) :
    (∀ d, KeepsFlag (decodeDopL fuel d)) ∧
    (∀ item sz n, KeepsFlag (decodeStaticItemsL item sz fuel n)) ∧
    (∀ item n, KeepsFlag (decodeNItemsL item fuel n)) ∧
    (∀ item, KeepsFlag (decodeToEndL item fuel)) ∧
    (∀ tv td item, KeepsFlag (decodeUntilMarkerL tv td item fuel)) ∧
    (∀ p, KeepsFlag (decodeParamL fuel p)) ∧
    (∀ ps, KeepsFlag (decodeParamsL fuel ps)) ∧
    (∀ ps, KeepsFlag (decodeCompositeL fuel ps)) := by
  induction fuel with
  | zero =>
    refine ⟨?_, ?_, ?_, ?_, ?_, ?_, ?_, ?_⟩ <;> intros
    · unfold decodeDopL; exact flag_raise _
    · unfold decodeStaticItemsL; exact flag_raise _
    · unfold decodeNItemsL; exact flag_raise _
    · unfold decodeToEndL; exact flag_raise _
    · unfold decodeUntilMarkerL; exact flag_raise _
    · unfold decodeParamL; exact flag_raise _
    · unfold decodeParamsL; exact flag_raise _
    · unfold decodeCompositeL; exact flag_raise _
  | succ fuel ih =>
    obtain ⟨ihDop, ihStatic, ihN, ihEnd, ihMark, ihParam, ihParams, ihComp⟩ := ih
    refine ⟨?_, ?_, ?_, ?_, ?_, ?_, ?_, ?_⟩
    · intro d
      cases d <;> unfold decodeDopL <;>
        repeat (first
          | exact ihDop _ | exact ihStatic _ _ _ | exact ihN _ _ | exact ihEnd _ | exact ihMark _ _ _ | exact ihComp _
          | exact ihParam _ | flag3)
    · intro item sz n
      unfold decodeStaticItemsL
      repeat (first | exact ihDop _ | exact ihStatic _ _ _ | flag3)
    · intro item n
      unfold decodeNItemsL
      repeat (first | exact ihDop _ | exact ihN _ _ | flag3)
    · intro item
      unfold decodeToEndL
      repeat (first | exact ihDop _ | exact ihEnd _ | flag3)
    · intro tv td item
      unfold decodeUntilMarkerL
      repeat (first
        | exact ihDop _ | exact ihMark _ _ _
        | (apply flag_probeL)
        | flag3)
    · intro p
      cases p with
      | mk name bytePos bitPos kind =>
        unfold decodeParamL
        cases kind <;>
        repeat (first | exact ihDop _ | flag3)
    · intro ps
      unfold decodeParamsL
      repeat (first | exact ihParam _ | exact ihParams _ | flag3)
    · intro ps
      unfold decodeCompositeL
      repeat (first | exact ihParams _ | flag3)

end OdxVerif.Codec
