import OdxVerif.Proofs.StructReject
import OdxVerif.Proofs.FlatStatic
/-! C08 on nested structures: `composite_codec_get_static_bit_length` (`paramsStaticLen`) against the length of the
    encoding. The static computation advances its cursor by a nested structure's *full extent*; encoder and decoder
    continue behind the structure's *last listed* parameter (open finding
    `nested-structure-cursor-behind-last-listed-parameter`). The two views are made explicit as pure functions of the
    description (`Trees.stat` / `Trees.rcur`), the side condition `Trees.cursorOk` says where they must agree, and
    `Trees.enc_length` proves that under it the static length is the length of the encoding. Core Lean only. -/
namespace OdxVerif.Codec
open OdxVerif.Bits OdxVerif.OdxM

def Tree.bytePos : Tree → Option Nat
  | .int o _ => o.bytePos
  | .const o _ => o.bytePos
  | .struct _ bp _ => bp

mutual
/-- the encoder's view: where the cursor is once the parameter is encoded, relative to the parameter's first byte —
    for a structure: behind its last listed parameter -/
def Tree.rend : Tree → Nat
  | .int o _ => o.k
  | .const o _ => o.k
  | .struct _ _ kids => Trees.rcur kids 0
/-- the encoder's cursor behind a parameter list, relative to the first byte of the enclosing structure -/
def Trees.rcur : List Tree → Nat → Nat
  | [], c => c
  | t :: ts, c => Trees.rcur ts (t.bytePos.getD c + t.rend)
end

mutual
/-- the static view: the number of bytes `get_static_bit_length` attributes to the parameter — for a structure its
    full extent -/
def Tree.slen : Tree → Nat
  | .int o _ => o.k
  | .const o _ => o.k
  | .struct _ _ kids => Trees.stat kids 0 0
/-- `composite_codec_get_static_bit_length` on the tier (bytes; cursor / running maximum) -/
def Trees.stat : List Tree → Nat → Nat → Nat
  | [], _, m => m
  | t :: ts, c, m => Trees.stat ts (t.bytePos.getD c + t.slen) (max m (t.bytePos.getD c + t.slen))
end

/-- the next parameter has no BYTE-POSITION: it is placed at the cursor -/
def Trees.headImplicit : List Tree → Bool
  | t :: _ => t.bytePos.isNone
  | [] => false

mutual
/-- **the side condition of the static-length theorem** (decidable): no nested structure is empty, and every nested
    structure that is directly followed by a sibling without BYTE-POSITION ends — cursor behind its last listed
    parameter — at its full extent. (For leaves `rend = slen` holds by definition.) -/
def Tree.cursorOk : Tree → Bool
  | .int _ _ => true
  | .const _ _ => true
  | .struct _ _ kids => !kids.isEmpty && Trees.cursorOk kids
def Trees.cursorOk : List Tree → Bool
  | [] => true
  | t :: ts => t.cursorOk && (!Trees.headImplicit ts || t.rend == t.slen) && Trees.cursorOk ts
end

theorem posOf_rel (bp : Option Nat) (org c : Nat) : posOf bp org (org + c) = org + bp.getD c := by
  cases bp <;> rfl

theorem Obj.pos_rel (o : Obj) (org c : Nat) : o.pos org (org + c) = org + o.bytePos.getD c := by
  unfold Obj.pos
  cases o.bytePos <;> rfl

/-! ### the static computation of the model on the tier -/

theorem obj_k_comm (o : Obj) : (o.bitPos.getD 0 + o.bl + 7) / 8 = o.k := by
  unfold Obj.k Obj.bp
  rw [Nat.add_comm (o.bitPos.getD 0) o.bl]

mutual
theorem Tree.static_step : (t : Tree) → ∀ (rest : List Param) (c m : Nat),
    paramsStaticLen (t.toParam :: rest) c m =
      paramsStaticLen rest (t.bytePos.getD c + t.slen) (max m (t.bytePos.getD c + t.slen))
  | .int o v, rest, c, m => by
    simp only [Tree.toParam, Obj.toParam, paramsStaticLen, PKind.staticBitLen, Dop.staticBitLen, Dct.staticBitLen,
      Tree.bytePos, Tree.slen, obj_k_comm]
    cases o.bytePos <;> rfl
  | .const o v, rest, c, m => by
    simp only [Tree.toParam, Obj.toConstParam, paramsStaticLen, PKind.staticBitLen, Dct.staticBitLen,
      Tree.bytePos, Tree.slen, obj_k_comm]
    cases o.bytePos <;> rfl
  | .struct n bp kids, rest, c, m => by
    have h := Trees.static_eq kids 0 0
    have e : (0 + 8 * Trees.stat kids 0 0 + 7) / 8 = Trees.stat kids 0 0 := by omega
    simp only [Tree.toParam, paramsStaticLen, PKind.staticBitLen, Dop.staticBitLen, h, Option.map_some,
      Option.getD_none, e, Tree.bytePos, Tree.slen]
    cases bp <;> rfl
theorem Trees.static_eq : (ts : List Tree) → ∀ (c m : Nat),
    paramsStaticLen (Trees.toParams ts) c m = some (Trees.stat ts c m)
  | [], c, m => by simp only [Trees.toParams, paramsStaticLen, Trees.stat]
  | t :: ts, c, m => by
    simp only [Trees.toParams, Trees.stat]
    rw [Tree.static_step t, Trees.static_eq ts]
end

theorem Trees.stat_ge (ts : List Tree) : ∀ (c m : Nat), m ≤ Trees.stat ts c m := by
  induction ts with
  | nil => intro c m; simp only [Trees.stat]; exact Nat.le_refl _
  | cons t ts ih =>
    intro c m
    simp only [Trees.stat]
    exact Nat.le_trans (Nat.le_max_left _ _) (ih _ _)

/-! ### the encoder's cursor -/

mutual
theorem Tree.enc_cursor : (t : Tree) → ∀ (s : EncState) (c : Nat), s.cursorByte = s.origin + c →
    (t.pair.enc s).cursorByte = s.origin + (t.bytePos.getD c + t.rend) ∧ (t.pair.enc s).origin = s.origin
  | .int o v, s, c, hc => by
    simp only [Tree.pair, Pair.map, Pair.ofObj, Tree.bytePos, Tree.rend, encStep_cursor, encStep_origin, hc, Obj.pos_rel]
    exact ⟨by omega, trivial⟩
  | .const o v, s, c, hc => by
    simp only [Tree.pair, Pair.map, Pair.ofObj, Tree.bytePos, Tree.rend, encStep_cursor, encStep_origin, hc, Obj.pos_rel]
    exact ⟨by omega, trivial⟩
  | .struct n bp kids, s, c, hc => by
    have ih := Trees.enc_cursor kids { s with cursorByte := posOf bp s.origin s.cursorByte,
                                              origin := posOf bp s.origin s.cursorByte } 0 rfl
    simp only [Tree.pair, Pair.map, Pair.atPos, Pair.inOrigin, Tree.bytePos, Tree.rend]
    refine ⟨?_, trivial⟩
    rw [ih.1]
    simp only [hc, posOf_rel]
    omega
theorem Trees.enc_cursor : (ts : List Tree) → ∀ (s : EncState) (c : Nat), s.cursorByte = s.origin + c →
    ((Trees.pair ts).enc s).cursorByte = s.origin + Trees.rcur ts c ∧ ((Trees.pair ts).enc s).origin = s.origin
  | [], s, c, hc => by
    simp only [Trees.pair, Pair.nil, Trees.rcur, id]
    exact ⟨hc, trivial⟩
  | t :: ts, s, c, hc => by
    obtain ⟨h1, o1⟩ := Tree.enc_cursor t s c hc
    obtain ⟨h2, o2⟩ := Trees.enc_cursor ts (t.pair.enc s) (t.bytePos.getD c + t.rend) (by rw [h1, o1])
    simp only [Trees.pair, Pair.map, Pair.seq, Trees.rcur]
    exact ⟨by rw [h2, o1], by rw [o2, o1]⟩
end

/-! ### the length of the encoding -/

theorem Trees.cursorOk_cons (t : Tree) (ts : List Tree) (h : Trees.cursorOk (t :: ts) = true) :
    t.cursorOk = true ∧ (Trees.headImplicit ts = true → t.rend = t.slen) ∧ Trees.cursorOk ts = true := by
  simp only [Trees.cursorOk, Bool.and_eq_true, Bool.or_eq_true, Bool.not_eq_true', beq_iff_eq] at h
  refine ⟨h.1.1, ?_, h.2⟩
  intro hi
  rcases h.1.2 with h' | h'
  · rw [hi] at h'; cases h'
  · exact h'

mutual
theorem Tree.enc_length : (t : Tree) → t.okAll → t.cursorOk = true → ∀ (s : EncState) (c : Nat),
    s.cursorByte = s.origin + c →
    (t.pair.enc s).msg.length = max s.msg.length (s.origin + (t.bytePos.getD c + t.slen))
  | .int o v, _, _, s, c, hc => by
    simp only [Tree.pair, Pair.map, Pair.ofObj, Tree.bytePos, Tree.slen, encStep_length, hc, Obj.pos_rel]
    omega
  | .const o v, _, _, s, c, hc => by
    simp only [Tree.pair, Pair.map, Pair.ofObj, Tree.bytePos, Tree.slen, encStep_length, hc, Obj.pos_rel]
    omega
  | .struct n bp kids, hok, hcok, s, c, hc => by
    simp only [Tree.okAll] at hok
    simp only [Tree.cursorOk, Bool.and_eq_true, Bool.not_eq_true'] at hcok
    have hne : kids ≠ [] := by
      intro h; rw [h] at hcok; simp at hcok
    have ih0 := Trees.enc_length kids hok hcok.2
      { s with cursorByte := posOf bp s.origin s.cursorByte, origin := posOf bp s.origin s.cursorByte }
      0 0 0 rfl (fun _ => rfl)
    obtain ⟨ih, hge⟩ := ih0
    have hge' := hge hne
    simp only [Tree.pair, Pair.map, Pair.atPos, Pair.inOrigin, Tree.bytePos, Tree.slen]
    simp only [hc, posOf_rel] at ih hge' ⊢
    omega
theorem Trees.enc_length : (ts : List Tree) → Trees.okAll ts → Trees.cursorOk ts = true →
    ∀ (s : EncState) (ce cs m : Nat), s.cursorByte = s.origin + ce → (Trees.headImplicit ts = true → ce = cs) →
    max (s.origin + m) ((Trees.pair ts).enc s).msg.length = max s.msg.length (s.origin + Trees.stat ts cs m) ∧
    (ts ≠ [] → s.origin ≤ ((Trees.pair ts).enc s).msg.length)
  | [], _, _, s, ce, cs, m, _, _ => by
    simp only [Trees.pair, Pair.nil, Trees.stat, id]
    exact ⟨Nat.max_comm _ _, fun h => absurd rfl h⟩
  | t :: ts, hok, hcok, s, ce, cs, m, hc, himp => by
    simp only [Trees.okAll] at hok
    obtain ⟨hct, htight, hcts⟩ := Trees.cursorOk_cons t ts hcok
    -- both views place the parameter at the same byte
    have hpos : t.bytePos.getD cs = t.bytePos.getD ce := by
      cases hb : t.bytePos with
      | some b => rfl
      | none =>
        have : ce = cs := himp (by simp [Trees.headImplicit, hb])
        simp [this]
    have hlen1 := Tree.enc_length t hok.1 hct s ce hc
    obtain ⟨hcur1, horg1⟩ := Tree.enc_cursor t s ce hc
    obtain ⟨ih, _⟩ := Trees.enc_length ts hok.2 hcts (t.pair.enc s) (t.bytePos.getD ce + t.rend)
      (t.bytePos.getD ce + t.slen) (max m (t.bytePos.getD ce + t.slen)) (by rw [hcur1, horg1])
      (fun hi => by rw [htight hi])
    have hmono := (Trees.good ts hok.2).len_mono (t.pair.enc s)
    have hst := Trees.stat_ge ts (t.bytePos.getD ce + t.slen) (max m (t.bytePos.getD ce + t.slen))
    simp only [Trees.pair, Pair.map, Pair.seq, Trees.stat, hpos]
    rw [horg1] at ih
    refine ⟨by omega, fun _ => by omega⟩
end

/-- **static length = length of the encoding** for the pure encoder of a nested description, from the empty message -/
theorem static_length_tree (ts : List Tree) (hok : Trees.okAll ts) (hc : Trees.cursorOk ts = true) (s0 : EncState)
    (hm : s0.msg = []) (hcur : s0.cursorByte = 0) (ho : s0.origin = 0) :
    (Dop.struct none (Trees.toParams ts)).staticBitLen = some (8 * ((Trees.pair ts).enc s0).msg.length) := by
  obtain ⟨h, _⟩ := Trees.enc_length ts hok hc s0 0 0 0 (by rw [hcur, ho]) (fun _ => rfl)
  rw [ho, hm] at h
  simp only [List.length_nil, Nat.zero_add] at h
  have h' : ((Trees.pair ts).enc s0).msg.length = Trees.stat ts 0 0 := by omega
  simp only [Dop.staticBitLen, Trees.static_eq, Option.map_some, h']

/-! ### the side condition and the two views depend on the description only, not on the values filled in -/

theorem Tree.fill_int_inv {o : Obj} {d : IVal} {kvs : List (String × PVal)} {t' : Tree}
    (hf : (Tree.int o d).fill kvs = some t') : ∃ v, t' = .int o v := by
  simp only [Tree.fill] at hf
  cases hp : o.pick kvs with
  | none => rw [hp] at hf; cases hf
  | some v => rw [hp] at hf; exact ⟨v, (Option.some.inj hf).symm⟩

theorem Tree.fill_const_inv {o : Obj} {c : IVal} {kvs : List (String × PVal)} {t' : Tree}
    (hf : (Tree.const o c).fill kvs = some t') : t' = .const o c := by
  simp only [Tree.fill] at hf
  split at hf
  · exact (Option.some.inj hf).symm
  · split at hf
    · exact (Option.some.inj hf).symm
    · cases hf
  · cases hf

theorem Tree.fill_struct_inv {n : String} {bp : Option Nat} {kids : List Tree} {kvs : List (String × PVal)} {t' : Tree}
    (hf : (Tree.struct n bp kids).fill kvs = some t') :
    ∃ kvs' kids', lookupV n kvs = some (.dict kvs') ∧ Trees.fill kids kvs' = some kids' ∧ t' = .struct n bp kids' := by
  simp only [Tree.fill] at hf
  split at hf
  · rename_i kvs' hl
    split at hf
    · cases hf
    · cases hk : Trees.fill kids kvs' with
      | none => rw [hk] at hf; cases hf
      | some kids' => rw [hk] at hf; exact ⟨kvs', kids', hl, hk, (Option.some.inj hf).symm⟩
  · cases hf

theorem Trees.fill_cons_inv {t : Tree} {ts : List Tree} {kvs : List (String × PVal)} {ts' : List Tree}
    (hf : Trees.fill (t :: ts) kvs = some ts') :
    ∃ t' ts0, t.fill kvs = some t' ∧ Trees.fill ts kvs = some ts0 ∧ ts' = t' :: ts0 := by
  simp only [Trees.fill] at hf
  cases h1 : t.fill kvs with
  | none => rw [h1] at hf; cases hf
  | some t' =>
    cases h2 : Trees.fill ts kvs with
    | none => rw [h1, h2] at hf; cases hf
    | some ts0 => rw [h1, h2] at hf; exact ⟨t', ts0, rfl, rfl, (Option.some.inj hf).symm⟩

mutual
theorem Tree.fill_shape : (t : Tree) → ∀ (kvs : List (String × PVal)) (t' : Tree), t.fill kvs = some t' →
    t'.bytePos = t.bytePos ∧ t'.rend = t.rend ∧ t'.slen = t.slen ∧ t'.cursorOk = t.cursorOk
  | .int o d, kvs, t', hf => by
    obtain ⟨v, rfl⟩ := Tree.fill_int_inv hf
    exact ⟨rfl, rfl, rfl, rfl⟩
  | .const o c, kvs, t', hf => by
    rw [Tree.fill_const_inv hf]
    exact ⟨rfl, rfl, rfl, rfl⟩
  | .struct n bp kids, kvs, t', hf => by
    obtain ⟨kvs', kids', _, hk, rfl⟩ := Tree.fill_struct_inv hf
    obtain ⟨h1, h2, h3, _, h5⟩ := Trees.fill_shape kids kvs' kids' hk
    simp only [Tree.bytePos, Tree.rend, Tree.slen, Tree.cursorOk, h1, h2, h3, h5, true_and]
theorem Trees.fill_shape : (ts : List Tree) → ∀ (kvs : List (String × PVal)) (ts' : List Tree), Trees.fill ts kvs = some ts' →
    (∀ c, Trees.rcur ts' c = Trees.rcur ts c) ∧ (∀ c m, Trees.stat ts' c m = Trees.stat ts c m) ∧
    Trees.cursorOk ts' = Trees.cursorOk ts ∧ Trees.headImplicit ts' = Trees.headImplicit ts ∧ ts'.isEmpty = ts.isEmpty
  | [], kvs, ts', hf => by
    simp only [Trees.fill, Option.some.injEq] at hf
    subst hf
    exact ⟨fun _ => rfl, fun _ _ => rfl, rfl, rfl, rfl⟩
  | t :: ts, kvs, ts', hf => by
    obtain ⟨t', ts0, h1, h2, rfl⟩ := Trees.fill_cons_inv hf
    obtain ⟨a1, a2, a3, a4⟩ := Tree.fill_shape t kvs t' h1
    obtain ⟨b1, b2, b3, b4, _⟩ := Trees.fill_shape ts kvs ts0 h2
    refine ⟨?_, ?_, ?_, ?_, rfl⟩
    · intro c; simp only [Trees.rcur, a1, a2, b1]
    · intro c m; simp only [Trees.stat, a1, a3, b2]
    · simp only [Trees.cursorOk, a2, a3, a4, b3, b4]
    · simp only [Trees.headImplicit, a1]
end

/-- **C08 static length, struct tier, every accepted value**: whatever is supplied — if the strict encoder of the model
    returns a PDU (overlap warning or not), the static bit length of the description is 8 × its length -/
theorem static_length_struct (ts : List Tree) (hneed : Trees.need ts + 2 ≤ modelFuel) (hd : Trees.descOk ts)
    (hc : Trees.cursorOk ts = true) (pv : PVal) (trig : Option Bytes) (pdu : Bytes) (w : Nat)
    (henc : encodeMessage none (Trees.toParams ts) pv trig true = .ok (pdu, w)) :
    (Dop.struct none (Trees.toParams ts)).staticBitLen = some (8 * pdu.length) := by
  rcases encodeMessage_struct_cases ts hneed hd pv trig with ⟨_, e, hrun, _⟩ | ⟨kvs, ts', s0, _, hfill, _, hm, _, _, hcur, ho, hrun⟩
  · rw [hrun] at henc; cases henc
  · rw [hrun] at henc
    simp only [Except.ok.injEq, Prod.mk.injEq] at henc
    obtain ⟨hok, htp, _, _⟩ := Trees.fill_ok ts hd kvs ts' hfill
    have hc' : Trees.cursorOk ts' = true := by rw [(Trees.fill_shape ts kvs ts' hfill).2.2.1]; exact hc
    rw [← htp, ← henc.1]
    exact static_length_tree ts' hok hc' s0 hm hcur ho

/-! ### required parameters at every depth -/

mutual
/-- every required parameter — VALUE parameter without default: integer leaf or nested structure — is supplied, at
    every depth (a value `None` counts as not supplied, as in `physical_value.get(name)`) -/
def Tree.reqSupplied : Tree → List (String × PVal) → Bool
  | .int o _, kvs => (lookupV o.name kvs).isSome
  | .const _ _, _ => true
  | .struct n _ kids, kvs =>
    match lookupV n kvs with
    | some (.dict kvs') => Trees.reqSupplied kids kvs'
    | some _ => true                      -- supplied, but not a dictionary: rejected for another reason
    | none => false
def Trees.reqSupplied : List Tree → List (String × PVal) → Bool
  | [], _ => true
  | t :: ts, kvs => t.reqSupplied kvs && Trees.reqSupplied ts kvs
end

mutual
theorem Tree.fill_req : (t : Tree) → ∀ (kvs : List (String × PVal)) (t' : Tree), t.fill kvs = some t' →
    t.reqSupplied kvs = true
  | .int o d, kvs, t', hf => by
    rcases Tree.fill_kind (.int o d) kvs t' hf with ⟨_, _, _, pv, _, hl⟩ | ⟨_, _, _, _, h⟩
    · simp only [Tree.name] at hl
      simp only [Tree.reqSupplied, hl, Option.isSome_some]
    · cases h
  | .const o c, kvs, t', hf => rfl
  | .struct n bp kids, kvs, t', hf => by
    obtain ⟨kvs', kids', hl, hk, _⟩ := Tree.fill_struct_inv hf
    simp only [Tree.reqSupplied, hl]
    exact Trees.fill_req kids kvs' kids' hk
theorem Trees.fill_req : (ts : List Tree) → ∀ (kvs : List (String × PVal)) (ts' : List Tree), Trees.fill ts kvs = some ts' →
    Trees.reqSupplied ts kvs = true
  | [], _, _, _ => rfl
  | t :: ts, kvs, ts', hf => by
    obtain ⟨t', ts0, h1, h2, _⟩ := Trees.fill_cons_inv hf
    simp only [Trees.reqSupplied, Tree.fill_req t kvs t' h1, Trees.fill_req ts kvs ts0 h2, Bool.and_self]
end

/-- omitting a required parameter at any depth makes strict encoding fail, with a library error -/
theorem required_struct_omission (ts : List Tree) (hneed : Trees.need ts + 2 ≤ modelFuel) (hd : Trees.descOk ts)
    (kvs : List (String × PVal)) (trig : Option Bytes) (hreq : Trees.reqSupplied ts kvs = false) :
    ∃ e, encodeMessage none (Trees.toParams ts) (.dict kvs) trig true = .error e ∧
      (e = .encode ∨ e = .odx ∨ e = .unmodelled) := by
  rcases encodeMessage_struct_cases ts hneed hd (.dict kvs) trig with ⟨_, e, hrun, he⟩ | ⟨kvs', ts', s0, hpv, hfill, _⟩
  · refine ⟨e, hrun, ?_⟩
    rcases he with (he | he) | ⟨he, _⟩
    · exact Or.inl he
    · exact Or.inr (Or.inl he)
    · exact Or.inr (Or.inr he)
  · cases hpv
    rw [Trees.fill_req ts kvs ts' hfill] at hreq
    cases hreq

/-! ### constants are not required: what is supplied for them (if acceptable at all) does not matter -/

def Tree.isConst : Tree → Bool
  | .const _ _ => true
  | _ => false

/-- `fill` of one parameter depends on the supplied dictionary only through the parameter's own entry; for a constant
    an omitted entry is as good as an accepted one -/
theorem Tree.fill_congr (t : Tree) (kvs kvs2 : List (String × PVal)) (t' : Tree) (hf : t.fill kvs = some t')
    (hval : t.isConst = false → lookup t.name kvs2 = lookup t.name kvs)
    (hconst : t.isConst = true → lookupV t.name kvs2 = none ∨ lookupV t.name kvs2 = lookupV t.name kvs) :
    t.fill kvs2 = some t' := by
  cases t with
  | int o d =>
    have h := hval rfl
    simp only [Tree.name] at h
    simp only [Tree.fill, Obj.pick, h] at hf ⊢
    exact hf
  | const o c =>
    have hc := Tree.fill_const_inv hf
    subst hc
    rcases hconst rfl with h | h
    · simp only [Tree.name] at h
      simp only [Tree.fill, h]
    · simp only [Tree.name] at h
      simp only [Tree.fill, h] at hf ⊢
      exact hf
  | struct n bp kids =>
    have h := hval rfl
    simp only [Tree.name] at h
    simp only [Tree.fill, lookupV, h] at hf ⊢
    exact hf

theorem Trees.fill_congr (ts : List Tree) (kvs kvs2 : List (String × PVal)) :
    ∀ (ts' : List Tree), Trees.fill ts kvs = some ts' →
    (∀ t ∈ ts, t.isConst = false → lookup t.name kvs2 = lookup t.name kvs) →
    (∀ t ∈ ts, t.isConst = true → lookupV t.name kvs2 = none ∨ lookupV t.name kvs2 = lookupV t.name kvs) →
    Trees.fill ts kvs2 = some ts' := by
  induction ts with
  | nil => intro ts' hf _ _; exact hf
  | cons t ts ih =>
    intro ts' hf hval hconst
    obtain ⟨t', ts0, h1, h2, rfl⟩ := Trees.fill_cons_inv hf
    have a := Tree.fill_congr t kvs kvs2 t' h1 (hval t (List.mem_cons_self ..)) (hconst t (List.mem_cons_self ..))
    have b := ih ts0 h2 (fun u hu => hval u (List.mem_cons_of_mem _ hu)) (fun u hu => hconst u (List.mem_cons_of_mem _ hu))
    simp only [Trees.fill, a, b]

/-- two supplied dictionaries that differ only in what they say about constants (the second may omit them) give the
    same PDU -/
theorem const_not_required (ts : List Tree) (hneed : Trees.need ts + 2 ≤ modelFuel) (hd : Trees.descOk ts)
    (kvs kvs2 : List (String × PVal)) (trig : Option Bytes) (r : Bytes × Nat)
    (henc : encodeMessage none (Trees.toParams ts) (.dict kvs) trig true = .ok r)
    (hknown : kvs2.any (fun kv => !((Trees.toParams ts).any fun p => p.name == kv.1)) = false)
    (hval : ∀ t ∈ ts, t.isConst = false → lookup t.name kvs2 = lookup t.name kvs)
    (hconst : ∀ t ∈ ts, t.isConst = true → lookupV t.name kvs2 = none ∨ lookupV t.name kvs2 = lookupV t.name kvs) :
    encodeMessage none (Trees.toParams ts) (.dict kvs2) trig true = .ok r := by
  rcases encodeMessage_struct_cases ts hneed hd (.dict kvs) trig with ⟨_, e, hrun, _⟩ | ⟨k, ts', s0, hpv, hfill, _, hm, hu, hw, hcur, ho, hrun⟩
  · rw [hrun] at henc; cases henc
  · cases hpv
    have hfill2 := Trees.fill_congr ts kvs kvs2 ts' hfill hval hconst
    rcases encodeMessage_struct_cases ts hneed hd (.dict kvs2) trig with ⟨hacc, _⟩ | ⟨k2, ts2, s2, hpv2, hf2, _, hm2, hu2, hw2, hcur2, ho2, hrun2⟩
    · simp [PVal.acceptedBy, hknown, hfill2] at hacc
    · cases hpv2
      rw [hfill2] at hf2
      cases hf2
      have hg := Trees.good ts' (Trees.fill_ok ts hd kvs ts' hfill).1
      have hcore := hg.core s2 s0 ⟨by rw [hm, hm2], by rw [hu, hu2], by rw [hw, hw2], by rw [hcur, hcur2], by rw [ho, ho2]⟩
      rw [hrun2, ← henc, hrun, hcore.1, hcore.2.2.1]

end OdxVerif.Codec
