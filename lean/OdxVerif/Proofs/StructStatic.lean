import OdxVerif.Proofs.StructReject
import OdxVerif.Proofs.FlatStatic
/-! C08 on nested structures: `composite_codec_get_static_bit_length` (`paramsStaticLen`) against the length of the
    encoding. The static computation advances its cursor by a nested structure's *full extent*; encoder and decoder
    continue behind the structure's *last listed* parameter (open finding
    `nested-structure-cursor-behind-last-listed-parameter`). The two views are made explicit as pure functions of the
    description (`Trees.stat` / `Trees.rcur`), the side condition `Trees.cursorOk` says where they must agree, and
    `Trees.enc_length` proves that under it the static length is the length of the encoding. Core Lean only. -/
namespace OdxVerif.Codec
open OdxVerif.Bits OdxVerif.OdxM

def Tree.bytePos : Tree → Option Nat
  | .int o _ => o.bytePos
  | .const o _ => o.bytePos
  | .struct _ bp _ => bp

mutual
/-- the encoder's view: where the cursor is once the parameter is encoded, relative to the parameter's first byte —
    for a structure: behind its last listed parameter -/
def Tree.rend : Tree → Nat
  | .int o _ => o.k
  | .const o _ => o.k
  | .struct _ _ kids => Trees.rcur kids 0
/-- the encoder's cursor behind a parameter list, relative to the first byte of the enclosing structure -/
def Trees.rcur : List Tree → Nat → Nat
  | [], c => c
  | t :: ts, c => Trees.rcur ts (t.bytePos.getD c + t.rend)
end

mutual
/-- the static view: the number of bytes `get_static_bit_length` attributes to the parameter — for a structure its
    full extent -/
def Tree.slen : Tree → Nat
  | .int o _ => o.k
  | .const o _ => o.k
  | .struct _ _ kids => Trees.stat kids 0 0
/-- `composite_codec_get_static_bit_length` on the tier (bytes; cursor / running maximum) -/
def Trees.stat : List Tree → Nat → Nat → Nat
  | [], _, m => m
  | t :: ts, c, m => Trees.stat ts (t.bytePos.getD c + t.slen) (max m (t.bytePos.getD c + t.slen))
end

/-- the next parameter has no BYTE-POSITION: it is placed at the cursor -/
def Trees.headImplicit : List Tree → Bool
  | t :: _ => t.bytePos.isNone
  | [] => false

mutual
/-- **the side condition of the static-length theorem** (decidable): no nested structure is empty, and every nested
    structure that is directly followed by a sibling without BYTE-POSITION ends — cursor behind its last listed
    parameter — at its full extent. (For leaves `rend = slen` holds by definition.) -/
def Tree.cursorOk : Tree → Bool
  | .int _ _ => true
  | .const _ _ => true
  | .struct _ _ kids => !kids.isEmpty && Trees.cursorOk kids
def Trees.cursorOk : List Tree → Bool
  | [] => true
  | t :: ts => t.cursorOk && (!Trees.headImplicit ts || t.rend == t.slen) && Trees.cursorOk ts
end

theorem posOf_rel (bp : Option Nat) (org c : Nat) : posOf bp org (org + c) = org + bp.getD c := by
  cases bp <;> rfl

theorem Obj.pos_rel (o : Obj) (org c : Nat) : o.pos org (org + c) = org + o.bytePos.getD c := by
  unfold Obj.pos
  cases o.bytePos <;> rfl

/-! ### the static computation of the model on the tier -/

theorem obj_k_comm (o : Obj) : (o.bitPos.getD 0 + o.bl + 7) / 8 = o.k := by
  unfold Obj.k Obj.bp
  rw [Nat.add_comm (o.bitPos.getD 0) o.bl]

mutual
theorem Tree.static_step : (t : Tree) → ∀ (rest : List Param) (c m : Nat),
    paramsStaticLen (t.toParam :: rest) c m =
      paramsStaticLen rest (t.bytePos.getD c + t.slen) (max m (t.bytePos.getD c + t.slen))
  | .int o v, rest, c, m => by
    simp only [Tree.toParam, Obj.toParam, paramsStaticLen, PKind.staticBitLen, Dop.staticBitLen, Dct.staticBitLen,
      Tree.bytePos, Tree.slen, obj_k_comm]
    cases o.bytePos <;> rfl
  | .const o v, rest, c, m => by
    simp only [Tree.toParam, Obj.toConstParam, paramsStaticLen, PKind.staticBitLen, Dct.staticBitLen,
      Tree.bytePos, Tree.slen, obj_k_comm]
    cases o.bytePos <;> rfl
  | .struct n bp kids, rest, c, m => by
    have h := Trees.static_eq kids 0 0
    have e : (0 + 8 * Trees.stat kids 0 0 + 7) / 8 = Trees.stat kids 0 0 := by omega
    simp only [Tree.toParam, paramsStaticLen, PKind.staticBitLen, Dop.staticBitLen, h, Option.map_some,
      Option.getD_none, e, Tree.bytePos, Tree.slen]
    cases bp <;> rfl
theorem Trees.static_eq : (ts : List Tree) → ∀ (c m : Nat),
    paramsStaticLen (Trees.toParams ts) c m = some (Trees.stat ts c m)
  | [], c, m => by simp only [Trees.toParams, paramsStaticLen, Trees.stat]
  | t :: ts, c, m => by
    simp only [Trees.toParams, Trees.stat]
    rw [Tree.static_step t, Trees.static_eq ts]
end

theorem Trees.stat_ge (ts : List Tree) : ∀ (c m : Nat), m ≤ Trees.stat ts c m := by
  induction ts with
  | nil => intro c m; simp only [Trees.stat]; exact Nat.le_refl _
  | cons t ts ih =>
    intro c m
    simp only [Trees.stat]
    exact Nat.le_trans (Nat.le_max_left _ _) (ih _ _)

/-! ### the encoder's cursor -/

mutual
theorem Tree.enc_cursor : (t : Tree) → ∀ (s : EncState) (c : Nat), s.cursorByte = s.origin + c →
    (t.pair.enc s).cursorByte = s.origin + (t.bytePos.getD c + t.rend) ∧ (t.pair.enc s).origin = s.origin
  | .int o v, s, c, hc => by
    simp only [Tree.pair, Pair.map, Pair.ofObj, Tree.bytePos, Tree.rend, encStep_cursor, encStep_origin, hc, Obj.pos_rel]
    exact ⟨by omega, trivial⟩
  | .const o v, s, c, hc => by
    simp only [Tree.pair, Pair.map, Pair.ofObj, Tree.bytePos, Tree.rend, encStep_cursor, encStep_origin, hc, Obj.pos_rel]
    exact ⟨by omega, trivial⟩
  | .struct n bp kids, s, c, hc => by
    have ih := Trees.enc_cursor kids { s with cursorByte := posOf bp s.origin s.cursorByte,
                                              origin := posOf bp s.origin s.cursorByte } 0 rfl
    simp only [Tree.pair, Pair.map, Pair.atPos, Pair.inOrigin, Tree.bytePos, Tree.rend]
    refine ⟨?_, trivial⟩
    rw [ih.1]
    simp only [hc, posOf_rel]
    omega
theorem Trees.enc_cursor : (ts : List Tree) → ∀ (s : EncState) (c : Nat), s.cursorByte = s.origin + c →
    ((Trees.pair ts).enc s).cursorByte = s.origin + Trees.rcur ts c ∧ ((Trees.pair ts).enc s).origin = s.origin
  | [], s, c, hc => by
    simp only [Trees.pair, Pair.nil, Trees.rcur, id]
    exact ⟨hc, trivial⟩
  | t :: ts, s, c, hc => by
    obtain ⟨h1, o1⟩ := Tree.enc_cursor t s c hc
    obtain ⟨h2, o2⟩ := Trees.enc_cursor ts (t.pair.enc s) (t.bytePos.getD c + t.rend) (by rw [h1, o1])
    simp only [Trees.pair, Pair.map, Pair.seq, Trees.rcur]
    exact ⟨by rw [h2, o1], by rw [o2, o1]⟩
end

/-! ### the length of the encoding -/

theorem Trees.cursorOk_cons (t : Tree) (ts : List Tree) (h : Trees.cursorOk (t :: ts) = true) :
    t.cursorOk = true ∧ (Trees.headImplicit ts = true → t.rend = t.slen) ∧ Trees.cursorOk ts = true := by
  simp only [Trees.cursorOk, Bool.and_eq_true, Bool.or_eq_true, Bool.not_eq_true', beq_iff_eq] at h
  refine ⟨h.1.1, ?_, h.2⟩
  intro hi
  rcases h.1.2 with h' | h'
  · rw [hi] at h'; cases h'
  · exact h'

mutual
theorem Tree.enc_length : (t : Tree) → t.okAll → t.cursorOk = true → ∀ (s : EncState) (c : Nat),
    s.cursorByte = s.origin + c →
    (t.pair.enc s).msg.length = max s.msg.length (s.origin + (t.bytePos.getD c + t.slen))
  | .int o v, _, _, s, c, hc => by
    simp only [Tree.pair, Pair.map, Pair.ofObj, Tree.bytePos, Tree.slen, encStep_length, hc, Obj.pos_rel]
    omega
  | .const o v, _, _, s, c, hc => by
    simp only [Tree.pair, Pair.map, Pair.ofObj, Tree.bytePos, Tree.slen, encStep_length, hc, Obj.pos_rel]
    omega
  | .struct n bp kids, hok, hcok, s, c, hc => by
    simp only [Tree.okAll] at hok
    simp only [Tree.cursorOk, Bool.and_eq_true, Bool.not_eq_true'] at hcok
    have hne : kids ≠ [] := by
      intro h; rw [h] at hcok; simp at hcok
    have ih0 := Trees.enc_length kids hok hcok.2
      { s with cursorByte := posOf bp s.origin s.cursorByte, origin := posOf bp s.origin s.cursorByte }
      0 0 0 rfl (fun _ => rfl)
    obtain ⟨ih, hge⟩ := ih0
    have hge' := hge hne
    simp only [Tree.pair, Pair.map, Pair.atPos, Pair.inOrigin, Tree.bytePos, Tree.slen]
    simp only [hc, posOf_rel] at ih hge' ⊢
    omega
theorem Trees.enc_length : (ts : List Tree) → Trees.okAll ts → Trees.cursorOk ts = true →
    ∀ (s : EncState) (ce cs m : Nat), s.cursorByte = s.origin + ce → (Trees.headImplicit ts = true → ce = cs) →
    max (s.origin + m) ((Trees.pair ts).enc s).msg.length = max s.msg.length (s.origin + Trees.stat ts cs m) ∧
    (ts ≠ [] → s.origin ≤ ((Trees.pair ts).enc s).msg.length)
  | [], _, _, s, ce, cs, m, _, _ => by
    simp only [Trees.pair, Pair.nil, Trees.stat, id]
    exact ⟨Nat.max_comm _ _, fun h => absurd rfl h⟩
  | t :: ts, hok, hcok, s, ce, cs, m, hc, himp => by
    simp only [Trees.okAll] at hok
    obtain ⟨hct, htight, hcts⟩ := Trees.cursorOk_cons t ts hcok
    -- both views place the parameter at the same byte
    have hpos : t.bytePos.getD cs = t.bytePos.getD ce := by
      cases hb : t.bytePos with
      | some b => rfl
      | none =>
        have : ce = cs := himp (by simp [Trees.headImplicit, hb])
        simp [this]
    have hlen1 := Tree.enc_length t hok.1 hct s ce hc
    obtain ⟨hcur1, horg1⟩ := Tree.enc_cursor t s ce hc
    obtain ⟨ih, _⟩ := Trees.enc_length ts hok.2 hcts (t.pair.enc s) (t.bytePos.getD ce + t.rend)
      (t.bytePos.getD ce + t.slen) (max m (t.bytePos.getD ce + t.slen)) (by rw [hcur1, horg1])
      (fun hi => by rw [htight hi])
    have hmono := (Trees.good ts hok.2).len_mono (t.pair.enc s)
    have hst := Trees.stat_ge ts (t.bytePos.getD ce + t.slen) (max m (t.bytePos.getD ce + t.slen))
    simp only [Trees.pair, Pair.map, Pair.seq, Trees.stat, hpos]
    rw [horg1] at ih
    refine ⟨by omega, fun _ => by omega⟩
end

/-- **static length = length of the encoding** for the pure encoder of a nested description, from the empty message -/
theorem static_length_tree (ts : List Tree) (hok : Trees.okAll ts) (hc : Trees.cursorOk ts = true) (s0 : EncState)
    (hm : s0.msg = []) (hcur : s0.cursorByte = 0) (ho : s0.origin = 0) :
    (Dop.struct none (Trees.toParams ts)).staticBitLen = some (8 * ((Trees.pair ts).enc s0).msg.length) := by
  obtain ⟨h, _⟩ := Trees.enc_length ts hok hc s0 0 0 0 (by rw [hcur, ho]) (fun _ => rfl)
  rw [ho, hm] at h
  simp only [List.length_nil, Nat.zero_add] at h
  have h' : ((Trees.pair ts).enc s0).msg.length = Trees.stat ts 0 0 := by omega
  simp only [Dop.staticBitLen, Trees.static_eq, Option.map_some, h']

end OdxVerif.Codec
