import OdxVerif.Proofs.CompTrunc2Flag
import OdxVerif.Proofs.CompTruncAll
/-! C05, nested tier, second part (task W26): the ghost log against W19's relation `Reads`, above the leaves, strict mode.
    `Cov f site m`: every entry a strict run of `m` (returned or raised) adds to the log is tagged `probe`, or is an object of
    `Reads true f site` from the start state with exactly these bytes, or lies inside the message (the body of a MIN-MAX object);
    and inside a probe every entry is tagged.  One step lemma per decoding function (the induction hypotheses are premises).
    Core Lean only. -/
namespace OdxVerif.Codec
open OdxVerif.OdxM OdxVerif.Bits

def SiteReq (f : Nat) (site : Site) (ls : LState) (e : LEntry) : Prop :=
  (ls.probe = true → e.probe = true) ∧
  (e.probe = true ∨ (∃ dr bl, Reads true f site ls.st dr bl ∧ e.start = dr.cursorByte ∧ e.stop = dr.readEnd bl) ∨
    e.stop ≤ ls.st.msg.length)

def Cov (f : Nat) (site : Site) {α : Type} (m : LogM α) : Prop :=
  ∀ ls, ∀ e ∈ resLog (m ls true), e ∈ ls.log ∨ SiteReq f site ls e

theorem Cov.of_ok {f : Nat} {site : Site} {α : Type} {m : LogM α} (h : Cov f site m) {ls ls1 : LState} {a : α}
    (hrun : m ls true = .ok (a, ls1)) {e : LEntry} (he : e ∈ ls1.log) : e ∈ ls.log ∨ SiteReq f site ls e := by
  have := h ls e; rw [hrun] at this; exact this he
theorem Cov.of_error {f : Nat} {site : Site} {α : Type} {m : LogM α} (h : Cov f site m) {ls ls1 : LState} {err : Err}
    (hrun : m ls true = .error (err, ls1)) {e : LEntry} (he : e ∈ ls1.log) : e ∈ ls.log ∨ SiteReq f site ls e := by
  have := h ls e; rw [hrun] at this; exact this he

/-- a request of a sub-site, started in a state with the same ghost fields and the same message, is a request of the site -/
theorem SiteReq.lift {f f' : Nat} {site site' : Site} {ls ls' : LState} {e : LEntry} (h : SiteReq f' site' ls' e)
    (hp : ls'.probe = ls.probe) (hm : ls'.st.msg = ls.st.msg)
    (rule : ∀ dr bl, Reads true f' site' ls'.st dr bl → Reads true f site ls.st dr bl) : SiteReq f site ls e := by
  refine ⟨fun h1 => h.1 (hp.trans h1), ?_⟩
  rcases h.2 with h2 | ⟨dr, bl, hr, h3, h4⟩ | h2
  · exact .inl h2
  · exact .inr (.inl ⟨dr, bl, rule dr bl hr, h3, h4⟩)
  · exact .inr (.inr (hm ▸ h2))

/-- what a returning sub-run tells about the model's run and the ghost fields -/
theorem sub_ok {α : Type} {ml : LogM α} {m : DecM α} (he : Erases ml m) (hf : KeepsFlag ml) (hk : Keeps m)
    {ls ls1 : LState} {a : α} (h : ml ls true = .ok (a, ls1)) :
    m ls.st true = .ok (a, ls1.st) ∧ ls1.probe = ls.probe ∧ ls1.st.msg = ls.st.msg := by
  unfold Erases at he
  have h1 := he ls true
  rw [h] at h1
  have h2 : m ls.st true = .ok (a, ls1.st) := h1.symm
  unfold KeepsFlag at hf
  exact ⟨h2, hf ls true a ls1 h, hk.ok h2⟩

theorem subDop (f : Nat) (d : Dop) {ls ls1 : LState} {a : PVal} (h : decodeDopL f d ls true = .ok (a, ls1)) :
    decodeDop f d ls.st true = .ok (a, ls1.st) ∧ ls1.probe = ls.probe ∧ ls1.st.msg = ls.st.msg :=
  sub_ok ((erases_decode_all f).1 d) ((flag_decode_all f).1 d) ((keeps_decode_all f).1 d) h
theorem subParam (f : Nat) (p : Param) {ls ls1 : LState} {a : PVal} (h : decodeParamL f p ls true = .ok (a, ls1)) :
    decodeParam f p ls.st true = .ok (a, ls1.st) ∧ ls1.probe = ls.probe ∧ ls1.st.msg = ls.st.msg :=
  sub_ok ((erases_decode_all f).2.2.2.2.2.1 p) ((flag_decode_all f).2.2.2.2.2.1 p) ((keeps_decode_all f).2.2.2.2.2.1 p) h

/-! ### parameter lists, composites -/

theorem cov_params_nil (f : Nat) : Cov f (.params []) (decodeParamsL f []) := by
  intro ls e he
  cases f <;> exact .inl he

theorem cov_params_cons (f : Nat) (p : Param) (rest : List Param) (ihp : Cov f (.param p) (decodeParamL f p))
    (ihr : Cov f (.params rest) (decodeParamsL f rest)) : Cov (f + 1) (.params (p :: rest)) (decodeParamsL (f + 1) (p :: rest)) := by
  intro ls e he
  simp only [decodeParamsL, bind, run_bind] at he
  split at he
  · rename_i v ls1 hrun
    obtain ⟨hx, hp1, hm1⟩ := subParam f p hrun
    have hfirst : ∀ e ∈ ls1.log, e ∈ ls.log ∨ SiteReq (f + 1) (.params (p :: rest)) ls e := fun e he =>
      (ihp.of_ok hrun he).imp id fun h => h.lift rfl rfl fun dr bl hr => .paramsHead f p rest ls.st dr bl hr
    have hsecond : ∀ ls2 : LState, (e ∈ ls2.log → e ∈ ls1.log ∨ SiteReq f (.params rest) ls1 e) → e ∈ ls2.log →
        e ∈ ls.log ∨ SiteReq (f + 1) (.params (p :: rest)) ls e := by
      intro ls2 h2 he2
      rcases h2 he2 with h | h
      · exact hfirst e h
      · exact .inr (h.lift hp1 hm1 fun dr bl hr => .paramsTail f p rest ls.st ls1.st dr v bl hx hr)
    split at he
    · rename_i r ls2 hrun2
      exact hsecond ls2 (fun h => ihr.of_ok hrun2 h) he
    · rename_i x hrun2
      obtain ⟨err, ls2⟩ := x
      exact hsecond ls2 (fun h => ihr.of_error hrun2 h) he
  · rename_i x hrun
    obtain ⟨err, ls1⟩ := x
    exact (ihp.of_error hrun he).imp id fun h => h.lift rfl rfl fun dr bl hr => .paramsHead f p rest ls.st dr bl hr

theorem cov_composite (f : Nat) (ps : List Param) (ih : Cov f (.params ps) (decodeParamsL f ps)) :
    Cov (f + 1) (.composite ps) (decodeCompositeL (f + 1) ps) := by
  intro ls e he
  simp only [decodeCompositeL, bind, run_bind, run_getD, run_modD] at he
  split at he
  · rename_i v ls1 hrun
    exact (ih.of_ok hrun he).imp id fun h => h.lift rfl rfl fun dr bl hr => .composite f ps ls.st dr bl hr
  · rename_i x hrun
    obtain ⟨err, ls1⟩ := x
    exact (ih.of_error hrun he).imp id fun h => h.lift rfl rfl fun dr bl hr => .composite f ps ls.st dr bl hr

/-! ### item loops -/

theorem cov_static_zero (f : Nat) (item : Dop) (sz : Nat) : Cov f (.staticItems item sz 0) (decodeStaticItemsL item sz f 0) := by
  intro ls e he
  cases f <;> exact .inl he

theorem cov_static_succ (f : Nat) (item : Dop) (sz n : Nat) (ihd : Cov f (.dop item) (decodeDopL f item))
    (ihr : Cov f (.staticItems item sz n) (decodeStaticItemsL item sz f n)) :
    Cov (f + 1) (.staticItems item sz (n + 1)) (decodeStaticItemsL item sz (f + 1) (n + 1)) := by
  intro ls e he
  simp only [decodeStaticItemsL, bind, run_bind, run_getD, run_modD] at he
  split at he
  · rename_i v ls1 hrun
    obtain ⟨hx, hp1, hm1⟩ := subDop f item hrun
    have hfirst : ∀ e ∈ ls1.log, e ∈ ls.log ∨ SiteReq (f + 1) (.staticItems item sz (n + 1)) ls e := fun e he =>
      (ihd.of_ok hrun he).imp id fun h => h.lift rfl rfl fun dr bl hr => .staticHead f item sz n ls.st dr bl hr
    have hsecond : ∀ ls2 : LState, (e ∈ ls2.log → e ∈ ls1.log ∨
          SiteReq f (.staticItems item sz n) { ls1 with st := { ls1.st with cursorByte := ls.st.cursorByte + sz } } e) → e ∈ ls2.log →
        e ∈ ls.log ∨ SiteReq (f + 1) (.staticItems item sz (n + 1)) ls e := by
      intro ls2 h2 he2
      rcases h2 he2 with h | h
      · exact hfirst e h
      · exact .inr (h.lift hp1 hm1 fun dr bl hr => .staticTail f item sz n ls.st ls1.st dr v bl hx hr)
    split at he
    · rename_i r ls2 hrun2
      exact hsecond ls2 (fun h => ihr.of_ok hrun2 h) he
    · rename_i x hrun2
      obtain ⟨err, ls2⟩ := x
      exact hsecond ls2 (fun h => ihr.of_error hrun2 h) he
  · rename_i x hrun
    obtain ⟨err, ls1⟩ := x
    exact (ihd.of_error hrun he).imp id fun h => h.lift rfl rfl fun dr bl hr => .staticHead f item sz n ls.st dr bl hr

theorem cov_n_zero (f : Nat) (item : Dop) : Cov f (.nItems item 0) (decodeNItemsL item f 0) := by
  intro ls e he
  cases f <;> exact .inl he

theorem cov_n_succ (f : Nat) (item : Dop) (n : Nat) (ihd : Cov f (.dop item) (decodeDopL f item))
    (ihr : Cov f (.nItems item n) (decodeNItemsL item f n)) :
    Cov (f + 1) (.nItems item (n + 1)) (decodeNItemsL item (f + 1) (n + 1)) := by
  intro ls e he
  simp only [decodeNItemsL, bind, run_bind, run_getD] at he
  split at he
  · rename_i v ls1 hrun
    obtain ⟨hx, hp1, hm1⟩ := subDop f item hrun
    have hfirst : ∀ e ∈ ls1.log, e ∈ ls.log ∨ SiteReq (f + 1) (.nItems item (n + 1)) ls e := fun e he =>
      (ihd.of_ok hrun he).imp id fun h => h.lift rfl rfl fun dr bl hr => .nHead f item n ls.st dr bl hr
    try simp only [run_ite] at he
    split at he
    · exact hfirst e he
    · rename_i hadv
      have hsecond : ∀ ls2 : LState, (e ∈ ls2.log → e ∈ ls1.log ∨ SiteReq f (.nItems item n) ls1 e) → e ∈ ls2.log →
          e ∈ ls.log ∨ SiteReq (f + 1) (.nItems item (n + 1)) ls e := by
        intro ls2 h2 he2
        rcases h2 he2 with h | h
        · exact hfirst e h
        · exact .inr (h.lift hp1 hm1 fun dr bl hr => .nTail f item n ls.st ls1.st dr v bl hx (by omega) hr)
      try simp only [run_bind] at he
      split at he
      · rename_i r ls2 hrun2
        exact hsecond ls2 (fun h => ihr.of_ok hrun2 h) he
      · rename_i x hrun2
        obtain ⟨err, ls2⟩ := x
        exact hsecond ls2 (fun h => ihr.of_error hrun2 h) he
  · rename_i x hrun
    obtain ⟨err, ls1⟩ := x
    exact (ihd.of_error hrun he).imp id fun h => h.lift rfl rfl fun dr bl hr => .nHead f item n ls.st dr bl hr

theorem cov_toEnd (f : Nat) (item : Dop) (ihd : Cov f (.dop item) (decodeDopL f item))
    (ihr : Cov f (.toEnd item) (decodeToEndL item f)) : Cov (f + 1) (.toEnd item) (decodeToEndL item (f + 1)) := by
  intro ls e he
  simp only [decodeToEndL, bind, run_bind, run_getD, run_ite] at he
  split at he
  · rename_i hlt
    try simp only [run_bind, run_getD] at he
    split at he
    · rename_i v ls1 hrun
      obtain ⟨hx, hp1, hm1⟩ := subDop f item hrun
      have hfirst : ∀ e ∈ ls1.log, e ∈ ls.log ∨ SiteReq (f + 1) (.toEnd item) ls e := fun e he =>
        (ihd.of_ok hrun he).imp id fun h => h.lift rfl rfl fun dr bl hr => .endHead f item ls.st dr bl hlt hr
      try simp only [run_ite] at he
      split at he
      · exact hfirst e he
      · rename_i hadv
        have hsecond : ∀ ls2 : LState, (e ∈ ls2.log → e ∈ ls1.log ∨ SiteReq f (.toEnd item) ls1 e) → e ∈ ls2.log →
            e ∈ ls.log ∨ SiteReq (f + 1) (.toEnd item) ls e := by
          intro ls2 h2 he2
          rcases h2 he2 with h | h
          · exact hfirst e h
          · exact .inr (h.lift hp1 hm1 fun dr bl hr => .endTail f item ls.st ls1.st dr v bl hlt hx (by omega) hr)
        try simp only [run_bind] at he
        split at he
        · rename_i r ls2 hrun2
          exact hsecond ls2 (fun h => ihr.of_ok hrun2 h) he
        · rename_i x hrun2
          obtain ⟨err, ls2⟩ := x
          exact hsecond ls2 (fun h => ihr.of_error hrun2 h) he
    · rename_i x hrun
      obtain ⟨err, ls1⟩ := x
      exact (ihd.of_error hrun he).imp id fun h => h.lift rfl rfl fun dr bl hr => .endHead f item ls.st dr bl hlt hr
  · exact .inl he

/-! ### computations that do not log -/

def NoLog {α : Type} (m : LogM α) : Prop := ∀ ls b, resLog (m ls b) = ls.log

theorem nolog_pure {α} (a : α) : NoLog (Pure.pure a : LogM α) := fun _ _ => rfl
theorem nolog_pure' {α} (a : α) : NoLog (OdxM.pure a : LogM α) := fun _ _ => rfl
theorem nolog_raise {α} (e : Err) : NoLog (raise e : LogM α) := fun _ _ => rfl
theorem nolog_odxraise (e : Err) : NoLog (odxraise e : LogM Unit) := by intro ls b; cases b <;> rfl
theorem nolog_odxassert (c : Bool) : NoLog (odxassert c : LogM Unit) := by
  unfold odxassert; split
  · exact nolog_pure' ()
  · exact nolog_odxraise _
theorem nolog_liftD {α} (m : DecM α) : NoLog (liftD m) := by
  intro ls b
  unfold liftD
  cases hm : m ls.st b with
  | ok p => obtain ⟨a, s⟩ := p; rfl
  | error p => obtain ⟨e, s⟩ := p; rfl
theorem nolog_getD : NoLog getD := nolog_liftD _
theorem nolog_modD (f : DecState → DecState) : NoLog (modD f) := nolog_liftD _
theorem nolog_bind' {α β} (m : LogM α) (f : α → LogM β) (hm : NoLog m) (hf : ∀ a, NoLog (f a)) : NoLog (OdxM.bind m f) := by
  intro ls b
  unfold OdxM.bind
  have h1 := hm ls b
  cases hms : m ls b with
  | error x => obtain ⟨e0, l0⟩ := x; rw [hms] at h1; exact h1
  | ok p =>
    obtain ⟨a, l1⟩ := p
    rw [hms] at h1
    simp only []
    rw [hf a l1 b]; exact h1
theorem nolog_bind {α β} (m : LogM α) (f : α → LogM β) (hm : NoLog m) (hf : ∀ a, NoLog (f a)) : NoLog (m >>= f) :=
  nolog_bind' m f hm hf
theorem nolog_ite {α} (c : Prop) [Decidable c] (a b : LogM α) (ha : NoLog a) (hb : NoLog b) : NoLog (if c then a else b) := by
  split <;> assumption

/-- entries of `m >>= k` with a continuation that does not log are entries of `m` -/
theorem mem_bind_nolog {α β : Type} {m : LogM α} {k : α → LogM β} (hk : ∀ a, NoLog (k a)) {ls : LState} {b : Bool} {e : LEntry}
    (he : e ∈ resLog ((m >>= k) ls b)) : e ∈ resLog (m ls b) := by
  change e ∈ resLog (OdxM.bind m k ls b) at he
  unfold OdxM.bind at he
  cases hms : m ls b with
  | error x => obtain ⟨e0, l0⟩ := x; rw [hms] at he; exact he
  | ok p =>
    obtain ⟨a, l1⟩ := p
    rw [hms] at he
    simp only [] at he
    rw [hk a l1 b] at he
    exact he

attribute [irreducible] NoLog

macro "nolog_step" : tactic =>
  `(tactic| first
    | exact nolog_pure _ | exact nolog_pure' _ | exact nolog_raise _ | exact nolog_odxraise _ | exact nolog_odxassert _
    | exact nolog_getD | exact nolog_modD _
    | assumption
    | apply nolog_bind | apply nolog_bind' | apply nolog_ite
    | intro _)
macro "nolog" : tactic => `(tactic| repeat (first | nolog_step | split | dsimp only))

theorem nolog_methodI2P (arith : Err) (m : Compu.Method) (i : Compu.Val) : NoLog (methodI2P arith m i : LogM (Option Compu.Val)) := by
  unfold methodI2P
  cases m <;> simp only [] <;> nolog
theorem nolog_dopI2P (m : Compu.Method) (v : IVal) : NoLog (dopI2P m v : LogM (Option IVal)) := by
  unfold dopI2P
  repeat (first | exact nolog_methodI2P _ _ _ | nolog_step | split | dsimp only)

theorem Cov.bind_nolog {f : Nat} {site : Site} {α β : Type} {m : LogM α} {k : α → LogM β} (h : Cov f site m)
    (hk : ∀ a, NoLog (k a)) : Cov f site (m >>= k) := fun ls e he => h ls e (mem_bind_nolog hk he)

/-- the leaves (`decodeDctL_requests`) -/
theorem cov_dct (n : Nat) (c : Dct) : Cov n (.dct c) (decodeDctL c) := by
  intro ls e he
  rcases decodeDctL_requests n c ls e he with h | ⟨hp, h⟩
  · exact .inl h
  · exact .inr ⟨fun h1 => hp.trans h1, .inr h⟩

/-- one `extractAtomicL` of an unsigned object (RESERVED, MATCHING-REQUEST-PARAM) -/
theorem extractAtomicL_entries (bl : Nat) (bt : BaseType) (enc : Option Enc) (hl : Bool) (ls : LState) (e : LEntry)
    (he : e ∈ resLog (extractAtomicL bl bt enc hl ls true)) : e ∈ ls.log ∨ (readable bt bl ∧ e = entryOf ls bl) := by
  have h := extractAtomicL_strict bl bt enc hl ls
  cases hrun : extractAtomicL bl bt enc hl ls true with
  | ok q => obtain ⟨w, ls1⟩ := q; rw [hrun] at h he; exact h.2.mem he
  | error q => obtain ⟨err, ls1⟩ := q; rw [hrun] at h he; exact h.mem he

/-! ### parameters -/

/-- the kind-specific part of `decodeParamL` -/
def paramBodyL (f : Nat) (name : String) (kind : PKind) : LogM PVal :=
  match kind with
  | .codedConst dct _ => do
    let v ← decodeDctL dct
    pure (PVal.atom v)
  | .physConst dop value => do
    let v ← decodeDopL f dop
    if !(pvalEq v value) then
      (if numericPair v value then raise .unmodelled
       else odxraise .decode)
    pure v
  | .value dop _ => decodeDopL f dop
  | .reserved bl => do
    let v ← extractAtomicL bl .uint32 none false
    pure (PVal.atom v)
  | .matchingReq _ byteLen => do
    let v ← extractAtomicL (8 * byteLen) .uint32 none false
    pure (PVal.atom v)
  | .nrcConst dct values => do
    let v ← decodeDctL dct
    if values.contains v then pure (PVal.atom v) else raise .mismatch
  | .lengthKey dop => do
    let v ← decodeDopL f dop
    match v with
    | .atom (.int i) => do
      modD fun s => { s with lengthKeys := insertKV name i s.lengthKeys }
      pure v
    | _ => do odxraise .odx; raise .unmodelled
  | .unsupported => raise .unmodelled

theorem decodeParamL_eq (f : Nat) (name : String) (bp bit : Option Nat) (kind : PKind) :
    decodeParamL (f + 1) (.mk name bp bit kind) = (do
      modD fun s => s.atParam bp bit
      let r ← paramBodyL f name kind
      modD fun s => { s with cursorBit := 0 }
      pure r) := by
  cases kind <;> rfl

/-- the entries of a parameter are the entries of its body, started at the position of the parameter -/
theorem param_body_mem (f : Nat) (name : String) (bp bit : Option Nat) (kind : PKind) (ls : LState) (e : LEntry)
    (he : e ∈ resLog (decodeParamL (f + 1) (.mk name bp bit kind) ls true)) :
    e ∈ resLog (paramBodyL f name kind { ls with st := ls.st.atParam bp bit } true) := by
  rw [decodeParamL_eq] at he
  change e ∈ resLog ((paramBodyL f name kind >>= fun r => (modD (fun s => { s with cursorBit := 0 }) >>= fun _ => pure r))
    { ls with st := ls.st.atParam bp bit } true) at he
  exact mem_bind_nolog (fun r => by nolog) he

theorem cov_param (f : Nat) (name : String) (bp bit : Option Nat) (kind : PKind)
    (ihd : ∀ d, Cov f (.dop d) (decodeDopL f d)) :
    Cov (f + 1) (.param (.mk name bp bit kind)) (decodeParamL (f + 1) (.mk name bp bit kind)) := by
  intro ls e he
  have hb := param_body_mem f name bp bit kind ls e he
  cases kind with
  | codedConst dct v =>
    exact ((cov_dct f dct).bind_nolog (fun _ => nolog_pure _) _ e hb).imp id fun h =>
      h.lift rfl rfl fun dr bl hr => .codedConst f name bp bit dct v ls.st dr bl hr
  | physConst dop v =>
    exact ((ihd dop).bind_nolog (fun _ => by nolog) _ e hb).imp id fun h =>
      h.lift rfl rfl fun dr bl hr => .physConst f name bp bit dop v ls.st dr bl hr
  | value dop dv =>
    exact ((ihd dop) _ e hb).imp id fun h =>
      h.lift rfl rfl fun dr bl hr => .value f name bp bit dop dv ls.st dr bl hr
  | reserved bl =>
    have h1 := mem_bind_nolog (m := extractAtomicL bl .uint32 none false) (k := fun v => (pure (PVal.atom v) : LogM PVal))
      (fun _ => nolog_pure _) hb
    rcases extractAtomicL_entries _ _ _ _ _ e h1 with h | ⟨hr, rfl⟩
    · exact .inl h
    · exact .inr ⟨fun h => h, .inr (.inl ⟨ls.st.atParam bp bit, bl, .reserved f name bp bit bl ls.st hr.1, rfl, rfl⟩)⟩
  | matchingReq rp n =>
    have h1 := mem_bind_nolog (m := extractAtomicL (8 * n) .uint32 none false) (k := fun v => (pure (PVal.atom v) : LogM PVal))
      (fun _ => nolog_pure _) hb
    rcases extractAtomicL_entries _ _ _ _ _ e h1 with h | ⟨hr, rfl⟩
    · exact .inl h
    · exact .inr ⟨fun h => h, .inr (.inl ⟨ls.st.atParam bp bit, 8 * n,
        .matchingReq f name bp bit rp n ls.st (fun h0 => hr.1 (by rw [h0])), rfl, rfl⟩)⟩
  | nrcConst dct vs =>
    exact ((cov_dct f dct).bind_nolog (fun _ => by nolog) _ e hb).imp id fun h =>
      h.lift rfl rfl fun dr bl hr => .nrcConst f name bp bit dct vs ls.st dr bl hr
  | lengthKey dop =>
    exact ((ihd dop).bind_nolog (fun _ => by nolog) _ e hb).imp id fun h =>
      h.lift rfl rfl fun dr bl hr => .lengthKey f name bp bit dop ls.st dr bl hr
  | unsupported => exact .inl hb

/-! ### stepping through a `do` block -/

theorem mem_getD_bind {β : Type} {k : DecState → LogM β} {ls : LState} {b : Bool} {e : LEntry}
    (he : e ∈ resLog ((getD >>= k) ls b)) : e ∈ resLog (k ls.st ls b) := he
theorem mem_modD_bind {β : Type} {g : DecState → DecState} {k : Unit → LogM β} {ls : LState} {b : Bool} {e : LEntry}
    (he : e ∈ resLog ((modD g >>= k) ls b)) : e ∈ resLog (k () { ls with st := g ls.st } b) := he
theorem mem_pure_bind {α β : Type} {a : α} {k : α → LogM β} {ls : LState} {b : Bool} {e : LEntry}
    (he : e ∈ resLog (((pure a : LogM α) >>= k) ls b)) : e ∈ resLog (k a ls b) := he
theorem mem_odxassert_bind {β : Type} {c : Bool} {k : Unit → LogM β} {ls : LState} {e : LEntry}
    (he : e ∈ resLog ((odxassert c >>= k) ls true)) : (c = true ∧ e ∈ resLog (k () ls true)) ∨ e ∈ ls.log := by
  cases c
  · exact .inr he
  · exact .inl ⟨rfl, he⟩
theorem mem_odxraise_bind {β : Type} {err : Err} {k : Unit → LogM β} {ls : LState} {e : LEntry}
    (he : e ∈ resLog ((odxraise err >>= k) ls true)) : e ∈ ls.log := he
theorem mem_bind_split {α β : Type} {m : LogM α} {k : α → LogM β} {ls : LState} {b : Bool} {e : LEntry}
    (he : e ∈ resLog ((m >>= k) ls b)) :
    (∃ err ls1, m ls b = .error (err, ls1) ∧ e ∈ ls1.log) ∨ ∃ a ls1, m ls b = .ok (a, ls1) ∧ e ∈ resLog (k a ls1 b) := by
  change e ∈ resLog (OdxM.bind m k ls b) at he
  unfold OdxM.bind at he
  cases hms : m ls b with
  | error x => obtain ⟨e0, l0⟩ := x; rw [hms] at he; exact .inl ⟨e0, l0, rfl, he⟩
  | ok p => obtain ⟨a, l1⟩ := p; rw [hms] at he; exact .inr ⟨a, l1, rfl, he⟩

macro "nolog'" : tactic => `(tactic| repeat (first
    | exact nolog_dopI2P _ _ | exact nolog_methodI2P _ _ _ | nolog_step | split | dsimp only))

/-! ### data object properties -/

theorem cov_dop_simple (f : Nat) (dct : Dct) (phys : BaseType) (cm : CCompu) :
    Cov (f + 1) (.dop (.simple dct phys cm)) (decodeDopL (f + 1) (.simple dct phys cm)) := by
  have h : Cov f (.dct dct) (decodeDopL (f + 1) (.simple dct phys cm)) := by
    unfold decodeDopL
    exact (cov_dct f dct).bind_nolog (fun _ => by nolog')
  exact fun ls e he => (h ls e he).imp id fun h => h.lift rfl rfl fun dr bl hr => .simple f dct phys cm ls.st dr bl hr

theorem cov_dop_dtc (f : Nat) (dct : Dct) (phys : BaseType) (cm : CCompu) (dtcs : List (Int × String)) :
    Cov (f + 1) (.dop (.dtc dct phys cm dtcs)) (decodeDopL (f + 1) (.dtc dct phys cm dtcs)) := by
  have h : Cov f (.dct dct) (decodeDopL (f + 1) (.dtc dct phys cm dtcs)) := by
    unfold decodeDopL
    exact (cov_dct f dct).bind_nolog (fun _ => by nolog')
  exact fun ls e he => (h ls e he).imp id fun h => h.lift rfl rfl fun dr bl hr => .dtc f dct phys cm dtcs ls.st dr bl hr

theorem cov_dop_struct (f : Nat) (bs : Option Nat) (ps : List Param) (ih : Cov f (.composite ps) (decodeCompositeL f ps)) :
    Cov (f + 1) (.dop (.struct bs ps)) (decodeDopL (f + 1) (.struct bs ps)) := by
  intro ls e he
  unfold decodeDopL at he
  have h1 := mem_bind_nolog (fun _ => by nolog') (mem_getD_bind he)
  exact (ih ls e h1).imp id fun h => h.lift rfl rfl fun dr bl hr => .struct f bs ps ls.st dr bl hr

theorem cov_dop_staticField (f : Nat) (count size : Nat) (item : Dop)
    (ih : Cov f (.staticItems item size count) (decodeStaticItemsL item size f count)) :
    Cov (f + 1) (.dop (.staticField count size item)) (decodeDopL (f + 1) (.staticField count size item)) := by
  intro ls e he
  unfold decodeDopL at he
  rcases mem_odxassert_bind (mem_getD_bind he) with ⟨hcb, h1⟩ | h1
  · have h2 := mem_bind_nolog (fun _ => by nolog') (mem_modD_bind h1)
    exact (ih _ e h2).imp id fun h => h.lift rfl rfl fun dr bl hr =>
      .staticField f count size item ls.st dr bl (of_decide_eq_true hcb) hr
  · exact .inl h1

theorem cov_dop_eopField (f : Nat) (mn mx : Option Nat) (item : Dop) (ih : Cov f (.toEnd item) (decodeToEndL item f)) :
    Cov (f + 1) (.dop (.eopField mn mx item)) (decodeDopL (f + 1) (.eopField mn mx item)) := by
  intro ls e he
  unfold decodeDopL at he
  rcases mem_odxassert_bind (mem_getD_bind he) with ⟨hcb, h1⟩ | h1
  · have h2 := mem_bind_nolog (fun _ => by nolog') (mem_modD_bind h1)
    exact (ih _ e h2).imp id fun h => h.lift rfl rfl fun dr bl hr =>
      .eopField f mn mx item ls.st dr bl (of_decide_eq_true hcb) hr
  · exact .inl h1

theorem cov_dop_endMarkerField (f : Nat) (tv : IVal) (tdop item : Dop)
    (ih : Cov f (.untilMarker tv tdop item) (decodeUntilMarkerL tv tdop item f)) :
    Cov (f + 1) (.dop (.endMarkerField tv tdop item)) (decodeDopL (f + 1) (.endMarkerField tv tdop item)) := by
  intro ls e he
  unfold decodeDopL at he
  rcases mem_odxassert_bind (mem_getD_bind he) with ⟨hcb, h1⟩ | h1
  · have h2 := mem_bind_nolog (fun _ => by nolog') (mem_modD_bind h1)
    exact (ih _ e h2).imp id fun h => h.lift rfl rfl fun dr bl hr =>
      .endMarkerField f tv tdop item ls.st dr bl (of_decide_eq_true hcb) hr
  · exact .inl h1

theorem cov_dop_dynLenField (f : Nat) (off cbp cbit : Nat) (cdop item : Dop) (ihc : Cov f (.dop cdop) (decodeDopL f cdop))
    (ihn : ∀ n, Cov f (.nItems item n) (decodeNItemsL item f n)) :
    Cov (f + 1) (.dop (.dynLenField off cbp cbit cdop item)) (decodeDopL (f + 1) (.dynLenField off cbp cbit cdop item)) := by
  intro ls e he
  unfold decodeDopL at he
  rcases mem_odxassert_bind (mem_getD_bind he) with ⟨hcb', h1⟩ | h1
  · have hcb : ls.st.cursorBit = 0 := of_decide_eq_true hcb'
    rcases mem_bind_split (mem_modD_bind h1) with ⟨err, ls1, hrun, h2⟩ | ⟨n, ls1, hrun, h2⟩
    · exact (ihc.of_error hrun h2).imp id fun h => h.lift rfl rfl fun dr bl hr =>
        .dynCount f off cbp cbit cdop item ls.st dr bl hcb hr
    · obtain ⟨hx, hp1, hm1⟩ := subDop f cdop hrun
      have hfirst : ∀ e ∈ ls1.log, e ∈ ls.log ∨ SiteReq (f + 1) (.dop (.dynLenField off cbp cbit cdop item)) ls e := fun e he =>
        (ihc.of_ok hrun he).imp id fun h => h.lift rfl rfl fun dr bl hr => .dynCount f off cbp cbit cdop item ls.st dr bl hcb hr
      rcases n with ⟨i | _ | _ | _⟩ | _ | _ | _ | _ | _ | _ | _
      case atom.int =>
        by_cases hneg : i < 0
        · have h3 : e ∈ ls1.log := by
            simp only [hneg, if_true] at h2
            exact h2
          exact hfirst e h3
        · simp only [hneg, if_false] at h2
          have h2' := mem_modD_bind (mem_pure_bind h2)
          have h3 := mem_bind_nolog (m := decodeNItemsL item f i.toNat) (fun _ => by nolog') h2'
          rcases ihn i.toNat _ e h3 with h | h
          · exact hfirst e h
          · exact .inr (h.lift hp1 hm1 fun dr bl hr => .dynItems f off cbp cbit cdop item ls.st ls1.st dr i bl hcb hx hneg hr)
      all_goals exact hfirst e h2
  · exact .inl h1

theorem cov_dop_mux (f : Nat) (bp swBp : Nat) (swBit : Option Nat) (swDop : Dop) (cs : List MuxCaseD) (dflt : Option (String × Option Dop))
    (ihp : ∀ p, Cov f (.param p) (decodeParamL f p)) :
    Cov (f + 1) (.dop (.mux bp swBp swBit swDop cs dflt)) (decodeDopL (f + 1) (.mux bp swBp swBit swDop cs dflt)) := by
  intro ls e he
  unfold decodeDopL at he
  rcases mem_bind_split (mem_modD_bind (mem_getD_bind he)) with ⟨err, ls1, hrun, h2⟩ | ⟨kv, ls1, hrun, h2⟩
  · exact ((ihp _).of_error hrun h2).imp id fun h => h.lift rfl rfl fun dr bl hr =>
      .muxKey f bp swBp swBit swDop cs dflt ls.st dr bl hr
  · obtain ⟨hx, hp1, hm1⟩ := subParam f _ hrun
    have hfirst : ∀ e ∈ ls1.log, e ∈ ls.log ∨ SiteReq (f + 1) (.dop (.mux bp swBp swBit swDop cs dflt)) ls e := fun e he =>
      ((ihp _).of_ok hrun he).imp id fun h => h.lift rfl rfl fun dr bl hr => .muxKey f bp swBp swBit swDop cs dflt ls.st dr bl hr
    -- the content of the selected case, decoded as a VALUE parameter at the multiplexer's BYTE-POSITION
    have hcase : ∀ (key : Int) (name : String) (cd : Dop), kv = .atom (.int key) →
        ((∃ c, caseOfKey key cs = some c ∧ c.name = name ∧ c.struct = some cd) ∨ (caseOfKey key cs = none ∧ dflt = some (name, some cd))) →
        ∀ k : PVal → LogM PVal, (∀ a, NoLog (k a)) →
        e ∈ resLog ((decodeParamL f (.mk "" (some bp) none (.value cd none)) >>= k)
          { ls1 with st := { ls1.st with cursorByte := ls.st.cursorByte + bp } } true) →
        e ∈ ls.log ∨ SiteReq (f + 1) (.dop (.mux bp swBp swBit swDop cs dflt)) ls e := by
      intro key name cd hkv hsel k hk h3
      subst hkv
      rcases ihp _ _ e (mem_bind_nolog hk h3) with h | h
      · exact hfirst e h
      · exact .inr (h.lift hp1 hm1 fun dr bl hr =>
          .muxCase f bp swBp swBit swDop cs dflt ls.st ls1.st dr key name cd bl hx hsel hr)
    rcases kv with ⟨key | _ | _ | _⟩ | _ | _ | _ | _ | _ | _ | _
    case atom.int =>
      have h3 := mem_modD_bind h2
      cases hk : caseOfKey key cs with
      | some c =>
        obtain ⟨cn, lo, up, cst⟩ := c
        simp only [hk, MuxCaseD.name, MuxCaseD.struct] at h3
        cases cst with
        | some cd => exact hcase key cn cd rfl (.inl ⟨_, hk, rfl, rfl⟩) _ (fun _ => by nolog') h3
        | none => exact hfirst e h3
      | none =>
        simp only [hk] at h3
        rcases dflt with _ | ⟨dn, _ | cd⟩
        · exact hfirst e h3
        · exact hfirst e h3
        · exact hcase key dn cd rfl (.inr ⟨hk, rfl⟩) _ (fun _ => by nolog') h3
    all_goals exact hfirst e h2

/-! ### the DYNAMIC-ENDMARKER-FIELD loop -/

/-- the probe of the loop, as the instrumented decoder runs it -/
def probeOfL (f : Nat) (tv : IVal) (tdop : Dop) : LogM Bool :=
  probeL (do let x ← decodeDopL f tdop
             pure (match x with | .atom v => v == tv | _ => false))
    (fun e => e = .decode ∨ e = .mismatch) (fun _ => pure false)

/-- every entry the probe adds is tagged -/
theorem probe_entries (f : Nat) (tv : IVal) (tdop : Dop) (ihd : Cov f (.dop tdop) (decodeDopL f tdop)) (ls : LState) (e : LEntry)
    (he : e ∈ resLog (probeOfL f tv tdop ls true)) : e ∈ ls.log ∨ e.probe = true := by
  have hin : ∀ e ∈ resLog ((decodeDopL f tdop >>= fun x => (pure (match x with | .atom v => v == tv | _ => false) : LogM Bool))
      { ls with probe := true } true), e ∈ ls.log ∨ e.probe = true := fun e he =>
    (ihd.bind_nolog (fun _ => nolog_pure _) _ e he).imp id fun h => h.1 rfl
  unfold probeOfL probeL at he
  cases hm : (decodeDopL f tdop >>= fun x => (pure (match x with | .atom v => v == tv | _ => false) : LogM Bool))
      { ls with probe := true } true with
  | ok p =>
    obtain ⟨a, l1⟩ := p
    have := hin e
    rw [hm] at this he
    exact this he
  | error x =>
    obtain ⟨e0, l0⟩ := x
    have := hin e
    rw [hm] at this he
    simp only [] at he
    split at he
    · exact this he
    · exact this he

/-- a probe that returns: the ghost flag and the message are as before, and if it did not find the end marker the model's probe
    missed (`ProbeMiss` of W19) with the erased final state -/
theorem probe_ok (f : Nat) (tv : IVal) (tdop : Dop) (ls ls1 : LState) (hit : Bool)
    (h : probeOfL f tv tdop ls true = .ok (hit, ls1)) :
    ls1.probe = ls.probe ∧ ls1.st.msg = ls.st.msg ∧ (hit = false → ProbeMiss true f tv tdop ls.st ls1.st) := by
  unfold probeOfL probeL at h
  have her := (erases_decode_all f).1 tdop
  unfold Erases at her
  have her := her { ls with probe := true } true
  have hk := (keeps_decode_all f).1 tdop
  simp only [bind, run_bind] at h
  cases hm : decodeDopL f tdop { ls with probe := true } true with
  | ok p =>
    obtain ⟨x, l1⟩ := p
    rw [hm] at h her
    have hx : decodeDop f tdop ls.st true = .ok (x, l1.st) := her.symm
    simp only [] at h
    injection h with h
    injection h with h1 h2
    subst h2
    refine ⟨rfl, hk.ok hx, fun hh => .other x l1.st hx ?_⟩
    intro v hv
    subst hv
    rw [← h1] at hh
    exact hh
  | error p =>
    obtain ⟨err, l1⟩ := p
    rw [hm] at h her
    have hx : decodeDop f tdop ls.st true = .error (err, l1.st) := her.symm
    simp only [] at h
    by_cases hc : err = Err.decode ∨ err = Err.mismatch
    · simp only [hc, decide_true, if_true] at h
      injection h with h
      injection h with h1 h2
      subst h2
      exact ⟨rfl, hk.error hx, fun _ => .raised err l1.st hx hc⟩
    · simp only [hc, decide_false, Bool.false_eq_true, if_false] at h
      cases h

theorem decodeUntilMarkerL_eq (f : Nat) (tv : IVal) (tdop item : Dop) : decodeUntilMarkerL tv tdop item (f + 1) = (do
    let s ← getD
    if s.cursorByte = s.msg.length then pure []
    else
      let hit ← probeOfL f tv tdop
      modD fun s' => { s' with cursorByte := s.cursorByte }
      if hit then pure []
      else do
        let x ← decodeDopL f item
        let s' ← getD
        if s'.cursorByte ≤ s.cursorByte then raise .decode
        else do
          let rest ← decodeUntilMarkerL tv tdop item f
          pure (x :: rest)) := rfl

theorem cov_untilMarker (f : Nat) (tv : IVal) (tdop item : Dop) (ihd : ∀ d, Cov f (.dop d) (decodeDopL f d))
    (ihm : Cov f (.untilMarker tv tdop item) (decodeUntilMarkerL tv tdop item f)) :
    Cov (f + 1) (.untilMarker tv tdop item) (decodeUntilMarkerL tv tdop item (f + 1)) := by
  intro ls e he
  rw [decodeUntilMarkerL_eq] at he
  have h1 := mem_getD_bind he
  by_cases hne : ls.st.cursorByte = ls.st.msg.length
  · rw [if_pos hne] at h1; exact .inl h1
  · rw [if_neg hne] at h1
    have tagged : ∀ e : LEntry, (e ∈ ls.log ∨ e.probe = true) → e ∈ ls.log ∨ SiteReq (f + 1) (.untilMarker tv tdop item) ls e :=
      fun e h => h.imp id fun ht => ⟨fun _ => ht, .inl ht⟩
    rcases mem_bind_split h1 with ⟨err, ls1, hrun, h2⟩ | ⟨hit, ls1, hrun, h2⟩
    · exact tagged e (probe_entries f tv tdop (ihd tdop) ls e (by rw [hrun]; exact h2))
    · have hold : ∀ e ∈ ls1.log, e ∈ ls.log ∨ SiteReq (f + 1) (.untilMarker tv tdop item) ls e := fun e he =>
        tagged e (probe_entries f tv tdop (ihd tdop) ls e (by rw [hrun]; exact he))
      obtain ⟨hp1, hm1, hmiss⟩ := probe_ok f tv tdop ls ls1 hit hrun
      have h3 := mem_modD_bind h2
      cases hit with
      | true =>
        simp only [if_true] at h3
        exact hold e h3
      | false =>
        have hprobe := hmiss rfl
        simp only [Bool.false_eq_true, if_false] at h3
        have hhead : ∀ e : LEntry, SiteReq f (.dop item) { ls1 with st := { ls1.st with cursorByte := ls.st.cursorByte } } e →
            SiteReq (f + 1) (.untilMarker tv tdop item) ls e := fun e h =>
          h.lift hp1 hm1 fun dr bl hr => .markHead f tv tdop item ls.st ls1.st dr bl hne hprobe hr
        rcases mem_bind_split h3 with ⟨err, ls2, hrun2, h4⟩ | ⟨x, ls2, hrun2, h4⟩
        · rcases (ihd item).of_error hrun2 h4 with h | h
          · exact hold e h
          · exact .inr (hhead e h)
        · obtain ⟨hx2, hp2, hm2⟩ := subDop f item hrun2
          have hmid : ∀ e ∈ ls2.log, e ∈ ls.log ∨ SiteReq (f + 1) (.untilMarker tv tdop item) ls e := by
            intro e he
            rcases (ihd item).of_ok hrun2 he with h | h
            · exact hold e h
            · exact .inr (hhead e h)
          have h5 := mem_getD_bind h4
          by_cases hadv : ls2.st.cursorByte ≤ ls.st.cursorByte
          · rw [if_pos hadv] at h5; exact hmid e h5
          · rw [if_neg hadv] at h5
            have h6 := mem_bind_nolog (m := decodeUntilMarkerL tv tdop item f) (fun _ => nolog_pure _) h5
            rcases ihm ls2 e h6 with h | h
            · exact hmid e h
            · exact .inr (h.lift (hp2.trans hp1) (hm2.trans hm1) fun dr bl hr =>
                .markTail f tv tdop item ls.st ls1.st ls2.st dr x bl hne hprobe hx2 (by omega) hr)

/-! ### all sites -/

/-- **The ghost log against `Reads`, strict mode, all sites.**  Every entry a strict run of a decoding function adds to the log is
    tagged `probe`, or is an object of W19's `Reads` for that site from the start state with exactly these bytes, or lies inside
    the message (MIN-MAX body); inside a probe every entry is tagged. -/
theorem cov_decode_all (fuel : Nat) :
    (∀ d, Cov fuel (.dop d) (decodeDopL fuel d)) ∧
    (∀ item sz n, Cov fuel (.staticItems item sz n) (decodeStaticItemsL item sz fuel n)) ∧
    (∀ item n, Cov fuel (.nItems item n) (decodeNItemsL item fuel n)) ∧
    (∀ item, Cov fuel (.toEnd item) (decodeToEndL item fuel)) ∧
    (∀ tv td item, Cov fuel (.untilMarker tv td item) (decodeUntilMarkerL tv td item fuel)) ∧
    (∀ p, Cov fuel (.param p) (decodeParamL fuel p)) ∧
    (∀ ps, Cov fuel (.params ps) (decodeParamsL fuel ps)) ∧
    (∀ ps, Cov fuel (.composite ps) (decodeCompositeL fuel ps)) := by
  induction fuel with
  | zero =>
    refine ⟨?_, ?_, ?_, ?_, ?_, ?_, ?_, ?_⟩ <;> intros <;> intro ls e he
    · unfold decodeDopL at he; exact .inl he
    · unfold decodeStaticItemsL at he; exact .inl he
    · unfold decodeNItemsL at he; exact .inl he
    · unfold decodeToEndL at he; exact .inl he
    · unfold decodeUntilMarkerL at he; exact .inl he
    · unfold decodeParamL at he; exact .inl he
    · unfold decodeParamsL at he; exact .inl he
    · unfold decodeCompositeL at he; exact .inl he
  | succ f ih =>
    obtain ⟨ihDop, ihStatic, ihN, ihEnd, ihMark, ihParam, ihParams, ihComp⟩ := ih
    refine ⟨?_, ?_, ?_, ?_, ?_, ?_, ?_, ?_⟩
    · intro d
      cases d with
      | simple dct phys cm => exact cov_dop_simple f dct phys cm
      | struct bs ps => exact cov_dop_struct f bs ps (ihComp ps)
      | staticField count size item => exact cov_dop_staticField f count size item (ihStatic item size count)
      | dynLenField off cbp cbit cdop item => exact cov_dop_dynLenField f off cbp cbit cdop item (ihDop cdop) (ihN item)
      | endMarkerField tv tdop item => exact cov_dop_endMarkerField f tv tdop item (ihMark tv tdop item)
      | eopField mn mx item => exact cov_dop_eopField f mn mx item (ihEnd item)
      | mux bp sbp sbit sd cs dflt => exact cov_dop_mux f bp sbp sbit sd cs dflt ihParam
      | unsupported => intro ls e he; unfold decodeDopL at he; exact .inl he
      | dtc dct phys cm dtcs => exact cov_dop_dtc f dct phys cm dtcs
    · intro item sz n
      cases n with
      | zero => exact cov_static_zero (f + 1) item sz
      | succ n => exact cov_static_succ f item sz n (ihDop item) (ihStatic item sz n)
    · intro item n
      cases n with
      | zero => exact cov_n_zero (f + 1) item
      | succ n => exact cov_n_succ f item n (ihDop item) (ihN item n)
    · intro item
      exact cov_toEnd f item (ihDop item) (ihEnd item)
    · intro tv td item
      exact cov_untilMarker f tv td item ihDop (ihMark tv td item)
    · intro p
      obtain ⟨name, bp, bit, kind⟩ := p
      exact cov_param f name bp bit kind ihDop
    · intro ps
      cases ps with
      | nil => exact cov_params_nil (f + 1)
      | cons p rest => exact cov_params_cons f p rest (ihParam p) (ihParams rest)
    · intro ps
      exact cov_composite f ps (ihParams ps)

end OdxVerif.Codec
