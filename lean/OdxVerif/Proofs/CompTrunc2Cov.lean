import OdxVerif.Proofs.CompTrunc2Flag
import OdxVerif.Proofs.CompTruncAll
/-! C05, nested tier, second part (task W26): the ghost log against W19's relation `Reads`, above the leaves, strict mode.
    `Cov f site m`: every entry a strict run of `m` (returned or raised) adds to the log is tagged `probe`, or is an object of
    `Reads true f site` from the start state with exactly these bytes, or lies inside the message (the body of a MIN-MAX object);
    and inside a probe every entry is tagged.  One step lemma per decoding function (the induction hypotheses are premises).
    Core Lean only. -/
namespace OdxVerif.Codec
open OdxVerif.OdxM OdxVerif.Bits

def SiteReq (f : Nat) (site : Site) (ls : LState) (e : LEntry) : Prop :=
  (ls.probe = true → e.probe = true) ∧
  (e.probe = true ∨ (∃ dr bl, Reads true f site ls.st dr bl ∧ e.start = dr.cursorByte ∧ e.stop = dr.readEnd bl) ∨
    e.stop ≤ ls.st.msg.length)

def Cov (f : Nat) (site : Site) {α : Type} (m : LogM α) : Prop :=
  ∀ ls, ∀ e ∈ resLog (m ls true), e ∈ ls.log ∨ SiteReq f site ls e

theorem Cov.of_ok {f : Nat} {site : Site} {α : Type} {m : LogM α} (h : Cov f site m) {ls ls1 : LState} {a : α}
    (hrun : m ls true = .ok (a, ls1)) {e : LEntry} (he : e ∈ ls1.log) : e ∈ ls.log ∨ SiteReq f site ls e := by
  have := h ls e; rw [hrun] at this; exact this he
theorem Cov.of_error {f : Nat} {site : Site} {α : Type} {m : LogM α} (h : Cov f site m) {ls ls1 : LState} {err : Err}
    (hrun : m ls true = .error (err, ls1)) {e : LEntry} (he : e ∈ ls1.log) : e ∈ ls.log ∨ SiteReq f site ls e := by
  have := h ls e; rw [hrun] at this; exact this he

/-- a request of a sub-site, started in a state with the same ghost fields and the same message, is a request of the site -/
theorem SiteReq.lift {f f' : Nat} {site site' : Site} {ls ls' : LState} {e : LEntry} (h : SiteReq f' site' ls' e)
    (hp : ls'.probe = ls.probe) (hm : ls'.st.msg = ls.st.msg)
    (rule : ∀ dr bl, Reads true f' site' ls'.st dr bl → Reads true f site ls.st dr bl) : SiteReq f site ls e := by
  refine ⟨fun h1 => h.1 (hp.trans h1), ?_⟩
  rcases h.2 with h2 | ⟨dr, bl, hr, h3, h4⟩ | h2
  · exact .inl h2
  · exact .inr (.inl ⟨dr, bl, rule dr bl hr, h3, h4⟩)
  · exact .inr (.inr (hm ▸ h2))

/-- what a returning sub-run tells about the model's run and the ghost fields -/
theorem sub_ok {α : Type} {ml : LogM α} {m : DecM α} (he : Erases ml m) (hf : KeepsFlag ml) (hk : Keeps m)
    {ls ls1 : LState} {a : α} (h : ml ls true = .ok (a, ls1)) :
    m ls.st true = .ok (a, ls1.st) ∧ ls1.probe = ls.probe ∧ ls1.st.msg = ls.st.msg := by
  unfold Erases at he
  have h1 := he ls true
  rw [h] at h1
  have h2 : m ls.st true = .ok (a, ls1.st) := h1.symm
  unfold KeepsFlag at hf
  exact ⟨h2, hf ls true a ls1 h, hk.ok h2⟩

theorem subDop (f : Nat) (d : Dop) {ls ls1 : LState} {a : PVal} (h : decodeDopL f d ls true = .ok (a, ls1)) :
    decodeDop f d ls.st true = .ok (a, ls1.st) ∧ ls1.probe = ls.probe ∧ ls1.st.msg = ls.st.msg :=
  sub_ok ((erases_decode_all f).1 d) ((flag_decode_all f).1 d) ((keeps_decode_all f).1 d) h
theorem subParam (f : Nat) (p : Param) {ls ls1 : LState} {a : PVal} (h : decodeParamL f p ls true = .ok (a, ls1)) :
    decodeParam f p ls.st true = .ok (a, ls1.st) ∧ ls1.probe = ls.probe ∧ ls1.st.msg = ls.st.msg :=
  sub_ok ((erases_decode_all f).2.2.2.2.2.1 p) ((flag_decode_all f).2.2.2.2.2.1 p) ((keeps_decode_all f).2.2.2.2.2.1 p) h

/-! ### parameter lists, composites -/

theorem cov_params_nil (f : Nat) : Cov f (.params []) (decodeParamsL f []) := by
  intro ls e he
  cases f <;> exact .inl he

theorem cov_params_cons (f : Nat) (p : Param) (rest : List Param) (ihp : Cov f (.param p) (decodeParamL f p))
    (ihr : Cov f (.params rest) (decodeParamsL f rest)) : Cov (f + 1) (.params (p :: rest)) (decodeParamsL (f + 1) (p :: rest)) := by
  intro ls e he
  simp only [decodeParamsL, bind, run_bind] at he
  split at he
  · rename_i v ls1 hrun
    obtain ⟨hx, hp1, hm1⟩ := subParam f p hrun
    have hfirst : ∀ e ∈ ls1.log, e ∈ ls.log ∨ SiteReq (f + 1) (.params (p :: rest)) ls e := fun e he =>
      (ihp.of_ok hrun he).imp id fun h => h.lift rfl rfl fun dr bl hr => .paramsHead f p rest ls.st dr bl hr
    have hsecond : ∀ ls2 : LState, (e ∈ ls2.log → e ∈ ls1.log ∨ SiteReq f (.params rest) ls1 e) → e ∈ ls2.log →
        e ∈ ls.log ∨ SiteReq (f + 1) (.params (p :: rest)) ls e := by
      intro ls2 h2 he2
      rcases h2 he2 with h | h
      · exact hfirst e h
      · exact .inr (h.lift hp1 hm1 fun dr bl hr => .paramsTail f p rest ls.st ls1.st dr v bl hx hr)
    split at he
    · rename_i r ls2 hrun2
      exact hsecond ls2 (fun h => ihr.of_ok hrun2 h) he
    · rename_i x hrun2
      obtain ⟨err, ls2⟩ := x
      exact hsecond ls2 (fun h => ihr.of_error hrun2 h) he
  · rename_i x hrun
    obtain ⟨err, ls1⟩ := x
    exact (ihp.of_error hrun he).imp id fun h => h.lift rfl rfl fun dr bl hr => .paramsHead f p rest ls.st dr bl hr

theorem cov_composite (f : Nat) (ps : List Param) (ih : Cov f (.params ps) (decodeParamsL f ps)) :
    Cov (f + 1) (.composite ps) (decodeCompositeL (f + 1) ps) := by
  intro ls e he
  simp only [decodeCompositeL, bind, run_bind, run_getD, run_modD] at he
  split at he
  · rename_i v ls1 hrun
    exact (ih.of_ok hrun he).imp id fun h => h.lift rfl rfl fun dr bl hr => .composite f ps ls.st dr bl hr
  · rename_i x hrun
    obtain ⟨err, ls1⟩ := x
    exact (ih.of_error hrun he).imp id fun h => h.lift rfl rfl fun dr bl hr => .composite f ps ls.st dr bl hr

/-! ### item loops -/

theorem cov_static_zero (f : Nat) (item : Dop) (sz : Nat) : Cov f (.staticItems item sz 0) (decodeStaticItemsL item sz f 0) := by
  intro ls e he
  cases f <;> exact .inl he

theorem cov_static_succ (f : Nat) (item : Dop) (sz n : Nat) (ihd : Cov f (.dop item) (decodeDopL f item))
    (ihr : Cov f (.staticItems item sz n) (decodeStaticItemsL item sz f n)) :
    Cov (f + 1) (.staticItems item sz (n + 1)) (decodeStaticItemsL item sz (f + 1) (n + 1)) := by
  intro ls e he
  simp only [decodeStaticItemsL, bind, run_bind, run_getD, run_modD] at he
  split at he
  · rename_i v ls1 hrun
    obtain ⟨hx, hp1, hm1⟩ := subDop f item hrun
    have hfirst : ∀ e ∈ ls1.log, e ∈ ls.log ∨ SiteReq (f + 1) (.staticItems item sz (n + 1)) ls e := fun e he =>
      (ihd.of_ok hrun he).imp id fun h => h.lift rfl rfl fun dr bl hr => .staticHead f item sz n ls.st dr bl hr
    have hsecond : ∀ ls2 : LState, (e ∈ ls2.log → e ∈ ls1.log ∨
          SiteReq f (.staticItems item sz n) { ls1 with st := { ls1.st with cursorByte := ls.st.cursorByte + sz } } e) → e ∈ ls2.log →
        e ∈ ls.log ∨ SiteReq (f + 1) (.staticItems item sz (n + 1)) ls e := by
      intro ls2 h2 he2
      rcases h2 he2 with h | h
      · exact hfirst e h
      · exact .inr (h.lift hp1 hm1 fun dr bl hr => .staticTail f item sz n ls.st ls1.st dr v bl hx hr)
    split at he
    · rename_i r ls2 hrun2
      exact hsecond ls2 (fun h => ihr.of_ok hrun2 h) he
    · rename_i x hrun2
      obtain ⟨err, ls2⟩ := x
      exact hsecond ls2 (fun h => ihr.of_error hrun2 h) he
  · rename_i x hrun
    obtain ⟨err, ls1⟩ := x
    exact (ihd.of_error hrun he).imp id fun h => h.lift rfl rfl fun dr bl hr => .staticHead f item sz n ls.st dr bl hr

theorem cov_n_zero (f : Nat) (item : Dop) : Cov f (.nItems item 0) (decodeNItemsL item f 0) := by
  intro ls e he
  cases f <;> exact .inl he

theorem cov_n_succ (f : Nat) (item : Dop) (n : Nat) (ihd : Cov f (.dop item) (decodeDopL f item))
    (ihr : Cov f (.nItems item n) (decodeNItemsL item f n)) :
    Cov (f + 1) (.nItems item (n + 1)) (decodeNItemsL item (f + 1) (n + 1)) := by
  intro ls e he
  simp only [decodeNItemsL, bind, run_bind, run_getD] at he
  split at he
  · rename_i v ls1 hrun
    obtain ⟨hx, hp1, hm1⟩ := subDop f item hrun
    have hfirst : ∀ e ∈ ls1.log, e ∈ ls.log ∨ SiteReq (f + 1) (.nItems item (n + 1)) ls e := fun e he =>
      (ihd.of_ok hrun he).imp id fun h => h.lift rfl rfl fun dr bl hr => .nHead f item n ls.st dr bl hr
    try simp only [run_ite] at he
    split at he
    · exact hfirst e he
    · rename_i hadv
      have hsecond : ∀ ls2 : LState, (e ∈ ls2.log → e ∈ ls1.log ∨ SiteReq f (.nItems item n) ls1 e) → e ∈ ls2.log →
          e ∈ ls.log ∨ SiteReq (f + 1) (.nItems item (n + 1)) ls e := by
        intro ls2 h2 he2
        rcases h2 he2 with h | h
        · exact hfirst e h
        · exact .inr (h.lift hp1 hm1 fun dr bl hr => .nTail f item n ls.st ls1.st dr v bl hx (by omega) hr)
      try simp only [run_bind] at he
      split at he
      · rename_i r ls2 hrun2
        exact hsecond ls2 (fun h => ihr.of_ok hrun2 h) he
      · rename_i x hrun2
        obtain ⟨err, ls2⟩ := x
        exact hsecond ls2 (fun h => ihr.of_error hrun2 h) he
  · rename_i x hrun
    obtain ⟨err, ls1⟩ := x
    exact (ihd.of_error hrun he).imp id fun h => h.lift rfl rfl fun dr bl hr => .nHead f item n ls.st dr bl hr

theorem cov_toEnd (f : Nat) (item : Dop) (ihd : Cov f (.dop item) (decodeDopL f item))
    (ihr : Cov f (.toEnd item) (decodeToEndL item f)) : Cov (f + 1) (.toEnd item) (decodeToEndL item (f + 1)) := by
  intro ls e he
  simp only [decodeToEndL, bind, run_bind, run_getD, run_ite] at he
  split at he
  · rename_i hlt
    try simp only [run_bind, run_getD] at he
    split at he
    · rename_i v ls1 hrun
      obtain ⟨hx, hp1, hm1⟩ := subDop f item hrun
      have hfirst : ∀ e ∈ ls1.log, e ∈ ls.log ∨ SiteReq (f + 1) (.toEnd item) ls e := fun e he =>
        (ihd.of_ok hrun he).imp id fun h => h.lift rfl rfl fun dr bl hr => .endHead f item ls.st dr bl hlt hr
      try simp only [run_ite] at he
      split at he
      · exact hfirst e he
      · rename_i hadv
        have hsecond : ∀ ls2 : LState, (e ∈ ls2.log → e ∈ ls1.log ∨ SiteReq f (.toEnd item) ls1 e) → e ∈ ls2.log →
            e ∈ ls.log ∨ SiteReq (f + 1) (.toEnd item) ls e := by
          intro ls2 h2 he2
          rcases h2 he2 with h | h
          · exact hfirst e h
          · exact .inr (h.lift hp1 hm1 fun dr bl hr => .endTail f item ls.st ls1.st dr v bl hlt hx (by omega) hr)
        try simp only [run_bind] at he
        split at he
        · rename_i r ls2 hrun2
          exact hsecond ls2 (fun h => ihr.of_ok hrun2 h) he
        · rename_i x hrun2
          obtain ⟨err, ls2⟩ := x
          exact hsecond ls2 (fun h => ihr.of_error hrun2 h) he
    · rename_i x hrun
      obtain ⟨err, ls1⟩ := x
      exact (ihd.of_error hrun he).imp id fun h => h.lift rfl rfl fun dr bl hr => .endHead f item ls.st dr bl hlt hr
  · exact .inl he

end OdxVerif.Codec
