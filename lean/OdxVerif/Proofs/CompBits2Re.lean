import OdxVerif.Proofs.CompBits2Msg
/-! Re-encoding for the round-6 constructors (task W17, part B): a PDU whose bits are exactly the layout of a fully supplied
    `Desc2` is reproduced by the pure encoder, without overlap warning (`descs2_reencode_pure`); for such a description the
    dictionary handed to the encoder is the dictionary the decoder returns, up to the MATCHING-REQUEST-PARAMs (no value is
    supplied for them: `Descs2.supplied_eq_decoded` excludes them). -/
namespace OdxVerif.Codec
open OdxVerif.Bits OdxVerif.OdxM

mutual
/-- every parameter's value is supplied — the shape of a decoded value tree; no MATCHING-REQUEST-PARAM -/
def Desc2.full : Desc2 → Prop
  | .value _ _ => True
  | .valueDefault _ _ sup => sup.isSome = true
  | .const _ _ b => b = true
  | .physConst _ _ b => b = true
  | .minmaxMid _ => True
  | .minmaxFull _ => True
  | .minmaxLast _ => True
  | .leading _ => True
  | .matching _ _ _ _ _ => False
  | .struct _ _ _ kids => Descs2.full kids
  | .staticField _ _ _ _ _ items => Descss2.full items
  | .dynLenField _ _ _ _ _ items => Descss2.full items
  | .eopField _ _ _ _ _ _ items => Descss2.full items
  | .mux _ _ _ kids => Descs2.full kids
  | .endMarkerEop _ _ _ _ _ items => Descss2.full items
  | .endMarkerMid _ _ _ _ _ items => Descss2.full items
def Descs2.full : List Desc2 → Prop
  | [] => True
  | d :: ds => d.full ∧ Descs2.full ds
def Descss2.full : List (List Desc2) → Prop
  | [] => True
  | k :: ks => Descs2.full k ∧ Descss2.full ks
end

theorem DComp.structO_sup (bso : Option Nat) (gs : List Comp) : (DComp.structO bso gs).sup = .dict (Comps.values gs) := by
  cases bso <;> rfl

mutual
theorem Desc2.sup_eq_val : (d : Desc2) → d.full → d.mc.c.sup = some d.mc.c.pair.val
  | .value o v, _ => rfl
  | .valueDefault o dv sup, h => by
    simp only [Desc2.full] at h
    cases sup with
    | none => cases h
    | some v => rfl
  | .const o v b, h => by
    simp only [Desc2.full] at h
    subst h; rfl
  | .physConst o v b, h => by
    simp only [Desc2.full] at h
    subst h; rfl
  | .minmaxMid _, _ => rfl
  | .minmaxFull _, _ => rfl
  | .minmaxLast _, _ => rfl
  | .leading _, _ => rfl
  | .matching _ _ _ _ _, h => by simp only [Desc2.full] at h
  | .struct name bp bso kids, h => by
    simp only [Desc2.full] at h
    have ih := Descs2.values_eq_val kids h
    show some (DComp.structO bso (Descs2.comps kids)).sup = some (DComp.structO bso (Descs2.comps kids)).pair.val
    rw [DComp.structO_sup, DComp.structO_val, ih]
  | .staticField name bp n bso shape items, h => by
    simp only [Desc2.full] at h
    have ih := Descss2.sups_eq_vals bso items h
    show some (PVal.list (DComps.sups (itemsO bso (Descss2.mcss items)))) =
      some (DComp.staticField n (.struct bso shape) (itemsO bso (Descss2.mcss items))).pair.val
    rw [DComp.staticField_val, ih]
  | .dynLenField name bp l bso shape items, h => by
    simp only [Desc2.full] at h
    have ih := Descss2.sups_eq_vals bso items h
    show some (PVal.list (DComps.sups (itemsO bso (Descss2.mcss items)))) =
      some (DComp.dynLenField l (.struct bso shape) (itemsO bso (Descss2.mcss items))).pair.val
    rw [DComp.dynLenField_val, ih]
  | .eopField name bp mn mx bso shape items, h => by
    simp only [Desc2.full] at h
    have ih := Descss2.sups_eq_vals bso items h
    show some (PVal.list (DComps.sups (itemsO bso (Descss2.mcss items)))) =
      some (DComp.eopField mn mx (.struct bso shape) (itemsO bso (Descss2.mcss items))).pair.val
    rw [DComp.eopField_val, ih]
  | .mux name bp m kids, h => by
    simp only [Desc2.full] at h
    have ih := Descs2.values_eq_val kids h
    show some (PVal.pair m.caseName (PVal.dict (Comps.values (Descs2.comps kids)))) =
      some (PVal.pair m.caseName (PVal.dict (Comps.pair (Descs2.comps kids)).val))
    rw [ih]
  | .endMarkerEop name bp l bso shape items, h => by
    simp only [Desc2.full] at h
    have ih := Descss2.sups_eq_vals bso items h
    show some (PVal.list (DComps.sups (itemsO bso (Descss2.mcss items)))) =
      some (DComp.endMarkerEop l (.struct bso shape) (itemsO bso (Descss2.mcss items))).pair.val
    rw [DComp.endMarkerEop_val, ih]
  | .endMarkerMid name bp l bso shape items, h => by
    simp only [Desc2.full] at h
    have ih := Descss2.sups_eq_vals bso items h
    show some (PVal.list (DComps.sups (itemsO bso (Descss2.mcss items)))) =
      some (DComp.endMarkerMid l (.struct bso shape) (itemsO bso (Descss2.mcss items))).pair.val
    rw [DComp.endMarkerMid_val, ih]
theorem Descs2.values_eq_val : (ds : List Desc2) → Descs2.full ds →
    Comps.values (Descs2.comps ds) = (Comps.pair (Descs2.comps ds)).val
  | [], _ => rfl
  | d :: ds, h => by
    simp only [Descs2.full] at h
    have h1 := Desc2.sup_eq_val d h.1
    have h2 := Descs2.values_eq_val ds h.2
    show Comps.values (d.mc.c :: Descs2.comps ds) = (Comps.pair (d.mc.c :: Descs2.comps ds)).val
    simp only [Comps.values, Comps.pair_val_cons, h1, h2]
theorem Descss2.sups_eq_vals (bso : Option Nat) : (items : List (List Desc2)) → Descss2.full items →
    DComps.sups (itemsO bso (Descss2.mcss items)) = DComps.vals (itemsO bso (Descss2.mcss items))
  | [], _ => rfl
  | k :: ks, h => by
    simp only [Descss2.full] at h
    have h1 := Descs2.values_eq_val k h.1
    have h2 := Descss2.sups_eq_vals bso ks h.2
    show (DComp.structO bso (Descs2.comps k)).sup :: DComps.sups (itemsO bso (Descss2.mcss ks)) =
      (DComp.structO bso (Descs2.comps k)).pair.val :: DComps.vals (itemsO bso (Descss2.mcss ks))
    rw [h2, DComp.structO_sup, DComp.structO_val, h1]
end

/-- for a fully supplied description (no MATCHING-REQUEST-PARAM), what is handed to `encode` is what `decode` returns -/
theorem Descs2.supplied_eq_decoded (ds : List Desc2) (h : Descs2.full ds) : Descs2.supplied ds = Descs2.decoded ds :=
  Descs2.values_eq_val ds h

theorem descs2_pure_allBytes (trig : Option Bytes) (ds : List Desc2) (hwf : Descs2.wfTop trig ds) :
    AllBytes ((Comps.pair (Descs2.comps ds)).enc {}).msg :=
  (MComps.good _ (Descs2.okAllTop trig ds hwf)).allBytes {} (by intro b hb; cases hb)

/-- **re-encoding, pure level**: if every entry of the layout reads in `pdu` as its prescribed pattern, the entries are
    pairwise disjoint, claim every bit of `pdu`, and nothing the encoder touches lies beyond `pdu`, then the pure encoder
    produces `pdu`, without overlap warning -/
theorem descs2_reencode_pure (trig : Option Bytes) (ds : List Desc2) (hwf : Descs2.wfTop trig ds) (pdu : Bytes) (hall : AllBytes pdu)
    (hbits : ∀ e ∈ Descs2.layout ds, ∀ j, j < e.bl → getBit pdu (absBit e.pos e.k e.hl (j + e.bp)) = e.raw.testBit j)
    (hdisj : LDisj ((Descs2.layout ds).map Ent2.geo)) (hcover : ∀ a, a < 8 * pdu.length → ∃ e ∈ Descs2.layout ds, e.claims a)
    (hext : Descs2.extent ds ≤ pdu.length) :
    ((Comps.pair (Descs2.comps ds)).enc {}).msg = pdu ∧ ((Comps.pair (Descs2.comps ds)).enc {}).warn = 0 := by
  have hw := descs2_pure_nowarn_of trig ds hwf hdisj
  refine ⟨?_, hw⟩
  have hlen := descs2_pure_length trig ds hwf
  have hF := Descs2.footTop trig ds hwf
  have hge : pdu.length ≤ Descs2.extent ds := by
    cases hlt : decide (pdu.length ≤ Descs2.extent ds) with
    | true => exact of_decide_eq_true hlt
    | false =>
      exfalso
      have hlt' := of_decide_eq_false hlt
      obtain ⟨e, he, hc⟩ := hcover (8 * Descs2.extent ds) (by omega)
      obtain ⟨hewf, hle⟩ := hF.within 0 0 e.geo (List.mem_map.mpr ⟨e, he, rfl⟩)
      have := (Ent.claims_bytes e.geo hewf _ hc).2
      have hle' : e.geo.pos + e.geo.k ≤ Descs2.extent ds := hle
      omega
  apply eq_of_getBit _ _ (descs2_pure_allBytes trig ds hwf) hall (by omega)
  intro a
  by_cases hcl : ∃ e ∈ Descs2.layout ds, e.claims a
  · obtain ⟨e, he, j, hj, rfl⟩ := hcl
    have := descs2_pure_inside trig ds hwf hdisj e he j hj
    rw [← hbits e he j hj] at this
    exact this
  · rw [descs2_pure_outside trig ds hwf a (fun e he hc => hcl ⟨e, he, hc⟩)]
    have hnot : ¬ a < 8 * pdu.length := fun h => hcl (hcover a h)
    unfold getBit
    rw [List.getD_eq_getElem?_getD, List.getElem?_eq_none (by omega)]
    simp

end OdxVerif.Codec
