import OdxVerif.Proofs.CompDescribed
import OdxVerif.Proofs.DynLeafBase
/-! Compositional components, extension W11 (2): **STRUCTURE with BYTE-SIZE** as a closure lemma.
    `BasicStructure.encode_into_pdu`: after the content, if the cursor is less than BYTE-SIZE bytes behind the structure's first
    byte, the message is extended with zero bytes up to `first + BYTE-SIZE`, the bytes from the cursor up to there are marked
    as used (WITHOUT an overlap check and without touching the message: `bsPad`, not `padEnc`), and the cursor jumps there.
    `decode_from_pdu`: DecodeError if the cursor is more than BYTE-SIZE bytes behind the first byte, else it jumps to
    `first + BYTE-SIZE`.  The encoder has no such check, hence the hypothesis `size ≤ BYTE-SIZE` (see the finding in
    `design_notes/C01.md`).  Core Lean only. -/
namespace OdxVerif.Codec
open OdxVerif.Bits OdxVerif.OdxM

/-! ### data objects that can only be encoded while `is_end_of_pdu` is cleared -/

/-- `DComp.Ok` with the encoder refinement restricted: if `mid`, only from states with `is_end_of_pdu` cleared -/
structure DComp.OkM (c : DComp) (mid : Bool) : Prop where
  good : Good c.pair
  sup_ne_none : c.sup ≠ PVal.none
  originFree : OriginFree c.pair
  dec_originFree : ∀ (d : DecState) (o : Nat),
    c.pair.dec { d with origin := o } = ((c.pair.dec d).1, { (c.pair.dec d).2 with origin := o })
  fits_originFree : ∀ (d : DecState) (o : Nat), c.pair.fits { d with origin := o } = c.pair.fits d
  encode_eq : ∀ (fuel : Nat), c.need ≤ fuel → ∀ (s : EncState), s.cursorBit = 0 → (c.eopOnly = true → s.isEndOfPdu = true) →
    (mid = true → s.isEndOfPdu = false) →
    ∃ s', encodeDop fuel c.dop c.sup s true = .ok ((), s') ∧ SameCore s' (c.pair.enc s) ∧ s'.cursorBit = 0
  enc_cursor : ∀ (s : EncState), (c.pair.enc s).cursorByte = s.cursorByte + c.size
  dec_cursorBit : ∀ (d : DecState), d.cursorBit = 0 → (c.pair.dec d).2.cursorBit = 0
  dec_msg : ∀ (d : DecState), (c.pair.dec d).2.msg = d.msg
  dec_origin : ∀ (d : DecState), (c.pair.dec d).2.origin = d.origin
  decode_eq : ∀ (fuel : Nat), c.need ≤ fuel → ∀ (d : DecState), d.cursorBit = 0 → c.pair.fits d → c.decPre d →
    decodeDop fuel c.dop d true = .ok ((c.pair.dec d).1, (c.pair.dec d).2)

theorem DComp.Ok.toM {c : DComp} (h : c.Ok) (mid : Bool) : c.OkM mid :=
  { good := h.good, sup_ne_none := h.sup_ne_none, originFree := h.originFree, dec_originFree := h.dec_originFree,
    fits_originFree := h.fits_originFree, encode_eq := fun fuel hf s hcb he _ => h.encode_eq fuel hf s hcb he,
    enc_cursor := h.enc_cursor, dec_cursorBit := h.dec_cursorBit, dec_msg := h.dec_msg, dec_origin := h.dec_origin,
    decode_eq := h.decode_eq }


theorem DComp.OkM.toOk {c : DComp} (h : c.OkM false) : c.Ok :=
  { good := h.good, sup_ne_none := h.sup_ne_none, originFree := h.originFree, dec_originFree := h.dec_originFree,
    fits_originFree := h.fits_originFree, encode_eq := fun fuel hf s hcb he => h.encode_eq fuel hf s hcb he (fun hm => by cases hm),
    enc_cursor := h.enc_cursor, dec_cursorBit := h.dec_cursorBit, dec_msg := h.dec_msg, dec_origin := h.dec_origin,
    decode_eq := h.decode_eq }


/-- the padding step of a BYTE-SIZE structure whose first byte is `origPos` — literally the model's state update -/
def bsPad (origPos bs : Nat) (s : EncState) : EncState :=
  { s with msg := s.msg ++ List.replicate (origPos + bs - s.msg.length) 0,
           used := (s.used ++ List.replicate (origPos + bs - s.msg.length) 0).take (origPos + (s.cursorByte - origPos)) ++
                     List.replicate (bs - (s.cursorByte - origPos)) 255 ++
                     (s.used ++ List.replicate (origPos + bs - s.msg.length) 0).drop (origPos + bs),
           cursorByte := origPos + bs }

theorem bsPad_sameCore (p bs : Nat) (s t : EncState) (h : SameCore s t) : SameCore (bsPad p bs s) (bsPad p bs t) := by
  obtain ⟨h1, h2, h3, h4, h5⟩ := h
  simp only [SameCore, bsPad, h1, h2, h3, h4, h5, and_self]

theorem bsPad_allBytes (p bs : Nat) (s : EncState) (h : AllBytes s.msg) : AllBytes (bsPad p bs s).msg := by
  intro b hb
  simp only [bsPad, List.mem_append] at hb
  rcases hb with hb | hb
  · exact h b hb
  · exact allBytes_replicate_zero _ b hb

theorem bsPad_length (p bs : Nat) (s : EncState) : (bsPad p bs s).msg.length = max s.msg.length (p + bs) := by
  simp only [bsPad, List.length_append, List.length_replicate]
  omega

/-- **Frame** for the BYTE-SIZE padding: every claimed bit keeps its value and stays claimed (there is no overlap check) -/
theorem bsPad_frame (p bs : Nat) (s : EncState) (h1 : p ≤ s.cursorByte) (h2 : s.cursorByte < p + bs) (a : Nat)
    (hu : getBit s.used a = true) :
    getBit (bsPad p bs s).msg a = getBit s.msg a ∧ getBit (bsPad p bs s).used a = true := by
  have hlt : a / 8 < s.used.length := by
    cases hlt : decide (a / 8 < s.used.length) with
    | true => exact of_decide_eq_true hlt
    | false =>
      have := of_decide_eq_false hlt
      unfold getBit at hu
      rw [List.getD_eq_getElem?_getD, List.getElem?_eq_none (by omega)] at hu
      simp at hu
  constructor
  · unfold getBit
    simp only [bsPad]
    rw [getD_append_zeros]
  · have hc : p + (s.cursorByte - p) = s.cursorByte := by omega
    have hn : bs - (s.cursorByte - p) = p + bs - s.cursorByte := by omega
    have he : p + bs = s.cursorByte + (List.replicate (p + bs - s.cursorByte) 255).length := by
      rw [List.length_replicate]; omega
    simp only [bsPad, hc, hn]
    by_cases hin : s.cursorByte ≤ a / 8 ∧ a / 8 < p + bs
    · -- one of the padding bytes: claimed afresh
      have := getD_splice_inside (s.used ++ List.replicate (p + bs - s.msg.length) 0) (List.replicate (p + bs - s.cursorByte) 255)
        s.cursorByte (a / 8 - s.cursorByte) (by simp only [List.length_append]; omega) (by rw [List.length_replicate]; omega)
      rw [← he, show s.cursorByte + (a / 8 - s.cursorByte) = a / 8 by omega] at this
      unfold getBit
      rw [this]
      have hm : a % 8 < 8 := Nat.mod_lt _ (by decide)
      have : (List.replicate (p + bs - s.cursorByte) 255).getD (a / 8 - s.cursorByte) 0 = 255 := by
        rw [List.getD_eq_getElem?_getD, List.getElem?_eq_getElem (by rw [List.length_replicate]; omega), List.getElem_replicate]
        rfl
      rw [this]
      generalize a % 8 = j at hm
      revert j; decide
    · have := getD_splice_outside (s.used ++ List.replicate (p + bs - s.msg.length) 0) (List.replicate (p + bs - s.cursorByte) 255)
        s.cursorByte (a / 8)
        (by
          rw [List.length_replicate]
          by_cases hl : a / 8 < s.cursorByte
          · exact Or.inl ⟨hl, by simp only [List.length_append]; omega⟩
          · exact Or.inr ⟨by omega, by simp only [List.length_append]; omega⟩)
      rw [← he] at this
      unfold getBit at hu ⊢
      rw [this, getD_append_zeros]
      exact hu

/-- a pair whose object is padded to `bs` bytes from the cursor it is started at (STRUCTURE with BYTE-SIZE); the decoder
    insists that the content ended within `bs` bytes (`fits`) and jumps behind the padding -/
def Pair.sized {α : Type} (bs : Nat) (c : Pair α) : Pair α where
  enc := fun s => if (c.enc s).cursorByte - s.cursorByte < bs then bsPad s.cursorByte bs (c.enc s) else c.enc s
  dec := fun d => ((c.dec d).1, { (c.dec d).2 with cursorByte := d.cursorByte + bs })
  val := c.val
  fits := fun d => c.fits d ∧ ¬ ((c.dec d).2.cursorByte - d.cursorByte > bs)

/-- `hsz`: the content ends at most `bs` bytes behind its first byte, and not before it -/
theorem Good.sized {α : Type} {c : Pair α} (hc : Good c) (bs : Nat)
    (hsz : ∀ s, s.cursorByte ≤ (c.enc s).cursorByte ∧ (c.enc s).cursorByte ≤ s.cursorByte + bs) : Good (c.sized bs) where
  warn_mono := fun s => by
    simp only [Pair.sized]; split
    · exact hc.warn_mono s
    · exact hc.warn_mono s
  frame := fun s hw a hu => by
    have hw' : (c.enc s).warn = s.warn := by
      simp only [Pair.sized] at hw; split at hw <;> exact hw
    obtain ⟨m1, u1⟩ := hc.frame s hw' a hu
    simp only [Pair.sized]
    split
    · rename_i hlt
      obtain ⟨m2, u2⟩ := bsPad_frame s.cursorByte bs (c.enc s) (hsz s).1 (by omega) a u1
      exact ⟨by rw [m2, m1], u2⟩
    · exact ⟨m1, u1⟩
  allBytes := fun s h => by
    simp only [Pair.sized]; split
    · exact bsPad_allBytes _ _ _ (hc.allBytes s h)
    · exact hc.allBytes s h
  len_mono := fun s => by
    have := hc.len_mono s
    simp only [Pair.sized]; split
    · rw [bsPad_length]; omega
    · exact this
  origin := fun s => by
    simp only [Pair.sized]; split
    · exact hc.origin s
    · exact hc.origin s
  rt := by
    intro s d hall hw horig hcur hdall hlen hagree
    have hw' : (c.enc s).warn = s.warn := by
      simp only [Pair.sized] at hw; split at hw <;> exact hw
    have hlen' : (c.enc s).msg.length ≤ d.msg.length := by
      simp only [Pair.sized] at hlen; split at hlen
      · rw [bsPad_length] at hlen; omega
      · exact hlen
    have hagree' : ∀ x, getBit (c.enc s).used x = true → getBit d.msg x = getBit (c.enc s).msg x := by
      intro x hx
      simp only [Pair.sized] at hagree
      split at hagree
      · rename_i hlt
        obtain ⟨m2, u2⟩ := bsPad_frame s.cursorByte bs (c.enc s) (hsz s).1 (by omega) x hx
        rw [hagree x u2, m2]
      · exact hagree x hx
    obtain ⟨v1, c1, o1, g1, f1⟩ := hc.rt s d hall hw' horig hcur hdall hlen' hagree'
    have hb := hsz s
    refine ⟨v1, ?_, o1, g1, f1, ?_⟩
    · simp only [Pair.sized]
      split
      · show d.cursorByte + bs = s.cursorByte + bs
        rw [hcur]
      · show d.cursorByte + bs = (c.enc s).cursorByte
        omega
    · show ¬ ((c.dec d).2.cursorByte - d.cursorByte > bs)
      rw [c1, hcur]
      omega
  core := by
    intro s t h
    have hct := hc.core s t h
    have h4 := h.2.2.2.1
    simp only [Pair.sized, h4, hct.2.2.2.1]
    split
    · exact bsPad_sameCore _ _ _ _ hct
    · exact hct

/-- the STRUCTURE `c` (a structure component without BYTE-SIZE over the parameters `ps`) with BYTE-SIZE `bs` -/
def DComp.withByteSize (bs : Nat) (ps : List Param) (c : DComp) : DComp where
  dop := .struct (some bs) ps
  pair := c.pair.sized bs
  sup := c.sup
  need := c.need
  size := bs
  eopOnly := c.eopOnly
  decPre := c.decPre

/-- **closure under BYTE-SIZE**: a structure component whose encoding ends within BYTE-SIZE bytes is a component again when
    the BYTE-SIZE is declared; it then occupies exactly BYTE-SIZE bytes -/
theorem DComp.withByteSize_okM (bs : Nat) (ps : List Param) (c : DComp) (mid : Bool) (hc : c.OkM mid)
    (hdop : c.dop = .struct none ps) (hneed : 1 ≤ c.need) (hsize : c.size ≤ bs) : (DComp.withByteSize bs ps c).OkM mid where
  good := hc.good.sized bs (fun s => by have := hc.enc_cursor s; omega)
  sup_ne_none := hc.sup_ne_none
  originFree := by
    intro s o
    have h := hc.originFree s o
    show (if (c.pair.enc { s with origin := o }).cursorByte - s.cursorByte < bs then bsPad s.cursorByte bs (c.pair.enc { s with origin := o })
      else c.pair.enc { s with origin := o }) = _
    rw [h]
    show (if (c.pair.enc s).cursorByte - s.cursorByte < bs then _ else _) = _
    simp only [Pair.sized, DComp.withByteSize]
    split <;> rfl
  dec_originFree := by
    intro d o
    have h := hc.dec_originFree d o
    show ((c.pair.dec { d with origin := o }).1, { (c.pair.dec { d with origin := o }).2 with cursorByte := d.cursorByte + bs }) = _
    rw [h]
    rfl
  fits_originFree := by
    intro d o
    have h := hc.fits_originFree d o
    have h2 := hc.dec_originFree d o
    show (c.pair.fits { d with origin := o } ∧ ¬ ((c.pair.dec { d with origin := o }).2.cursorByte - d.cursorByte > bs)) = _
    rw [h, h2]
    rfl
  encode_eq := by
    intro fuel hf s hcb heop hmid
    obtain ⟨f, rfl⟩ : ∃ f, fuel = f + 1 := ⟨fuel - 1, by simp only [DComp.withByteSize] at hf; omega⟩
    obtain ⟨s1, hrun, hcore, hcb1⟩ := hc.encode_eq (f + 1) hf s hcb heop hmid
    rw [hdop] at hrun
    have hrun' : encodeComposite f ps c.sup s true = .ok ((), s1) := by
      have h := hrun
      simp only [encodeDop, bind, pure, run_bind, run_getS, run_pure] at h
      generalize encodeComposite f ps c.sup s true = r at h ⊢
      cases r with
      | error e => simp at h
      | ok q => cases q; simpa using h
    have hcur1 : s1.cursorByte = s.cursorByte + c.size := by rw [hcore.2.2.2.1, hc.enc_cursor]
    have hcurp : (c.pair.enc s).cursorByte = s.cursorByte + c.size := hc.enc_cursor s
    by_cases hlt : c.size < bs
    · refine ⟨bsPad s.cursorByte bs s1, ?_, ?_, hcb1⟩
      · have hact : s1.cursorByte - s.cursorByte < bs := by omega
        have hngt : ¬ (s1.cursorByte - s.cursorByte > bs) := by omega     -- the encoder's BYTE-SIZE check (fix W16/C) passes
        simp only [DComp.withByteSize, encodeDop, bind, pure, run_bind, run_getS, run_pure, hrun', run_ite, hngt, if_false, hact, if_true,
          run_setS, bsPad]
      · have hact : (c.pair.enc s).cursorByte - s.cursorByte < bs := by omega
        show SameCore _ (if (c.pair.enc s).cursorByte - s.cursorByte < bs then bsPad s.cursorByte bs (c.pair.enc s) else c.pair.enc s)
        rw [if_pos hact]
        exact bsPad_sameCore _ _ _ _ hcore
    · refine ⟨s1, ?_, ?_, hcb1⟩
      · have hact : ¬ (s1.cursorByte - s.cursorByte < bs) := by omega
        have hngt : ¬ (s1.cursorByte - s.cursorByte > bs) := by omega
        simp only [DComp.withByteSize, encodeDop, bind, pure, run_bind, run_getS, run_pure, hrun', run_ite, hngt, hact, if_false]
      · have hact : ¬ ((c.pair.enc s).cursorByte - s.cursorByte < bs) := by omega
        show SameCore _ (if (c.pair.enc s).cursorByte - s.cursorByte < bs then bsPad s.cursorByte bs (c.pair.enc s) else c.pair.enc s)
        rw [if_neg hact]
        exact hcore
  enc_cursor := by
    intro s
    have := hc.enc_cursor s
    show (if (c.pair.enc s).cursorByte - s.cursorByte < bs then bsPad s.cursorByte bs (c.pair.enc s) else c.pair.enc s).cursorByte = _
    split
    · rfl
    · show (c.pair.enc s).cursorByte = s.cursorByte + bs
      omega
  dec_cursorBit := fun d h => hc.dec_cursorBit d h
  dec_msg := fun d => hc.dec_msg d
  dec_origin := fun d => hc.dec_origin d
  decode_eq := by
    intro fuel hf d hcb hfit hpre
    obtain ⟨f, rfl⟩ : ∃ f, fuel = f + 1 := ⟨fuel - 1, by simp only [DComp.withByteSize] at hf; omega⟩
    have hfit' : c.pair.fits d ∧ ¬ ((c.pair.dec d).2.cursorByte - d.cursorByte > bs) := hfit
    have hrun := hc.decode_eq (f + 1) hf d hcb hfit'.1 hpre
    rw [hdop] at hrun
    have hrun' : decodeComposite f ps d true = .ok ((c.pair.dec d).1, (c.pair.dec d).2) := by
      have h := hrun
      simp only [decodeDop, bind, pure, run_bind, run_getS, run_pure] at h
      generalize decodeComposite f ps d true = r at h ⊢
      cases r with
      | error e => simp at h
      | ok q => cases q; simpa using h
    simp only [DComp.withByteSize, decodeDop, bind, pure, run_bind, run_getS, run_pure, hrun', run_ite, hfit'.2, if_false,
      run_modifyS]
    rfl

theorem DComp.withByteSize_ok (bs : Nat) (ps : List Param) (c : DComp) (hc : c.Ok) (hdop : c.dop = .struct none ps)
    (hneed : 1 ≤ c.need) (hsize : c.size ≤ bs) : (DComp.withByteSize bs ps c).Ok :=
  (DComp.withByteSize_okM bs ps c false (hc.toM false) hdop hneed hsize).toOk

theorem DComp.withByteSize_endOk (bs : Nat) (ps : List Param) (c : DComp) (hc : c.EndOk) (hno : c.eopOnly = false) :
    (DComp.withByteSize bs ps c).EndOk where
  of_end := fun d _ => hc.trivial hno d
  trivial := fun _ d => hc.trivial hno d

/-- STRUCTURE with BYTE-SIZE over the components `gs` -/
def DComp.structBS (bs : Nat) (gs : List Comp) : DComp := DComp.withByteSize bs (Comps.toParams gs) (DComp.struct gs)

theorem DComp.structBS_val (bs : Nat) (gs : List Comp) : (DComp.structBS bs gs).pair.val = .dict (Comps.pair gs).val := rfl

theorem DComp.structBS_ok (bs : Nat) (gs : List Comp) (hok : Comps.okAll gs) (hn : Comps.namesOk gs) (hlast : Comps.eopLast gs)
    (hsize : Comps.cur gs 0 0 ≤ bs) : (DComp.structBS bs gs).Ok :=
  DComp.withByteSize_ok bs _ _ (DComp.struct_ok gs hok hn hlast) rfl (by simp [DComp.struct]) hsize

theorem DComp.structBS_endOk (bs : Nat) (gs : List Comp) (hok : Comps.okAll gs) (hend : Comps.endOkAll gs)
    (hno : Comps.anyEop gs = false) : (DComp.structBS bs gs).EndOk :=
  DComp.withByteSize_endOk bs _ _ (DComp.struct_endOk gs hok hend (Comps.eopLast_of_noEop gs hno)) hno

end OdxVerif.Codec
