import OdxVerif.Proofs.TextRT
/-! UTF-16 (`A_UNICODE2STRING`), both byte orders: `utf16Dec` inverts `utf16Enc1` on every list of code points the encoder
    accepts (surrogate pairs above U+FFFF), and every byte string the decoder accepts is the encoding of what it returns.
    Core Lean only. -/
namespace OdxVerif.Text
open OdxVerif.Bits

/-- one encoded code point in front of `rest` is decoded to that code point; its bytes are bytes -/
theorem utf16Enc1_spec (be : Bool) (c : Nat) (bs : Bytes) (h : utf16Enc1 be c = some bs) :
    AllBytes bs ∧ 1 ≤ bs.length ∧
      ∀ fuel rest, utf16Dec be (fuel + 1) (bs ++ rest) = (utf16Dec be fuel rest).map (c :: ·) := by
  unfold utf16Enc1 at h
  split at h
  · rename_i h1
    split at h
    · cases h
    · rename_i h2
      injection h with h; subst h
      simp only [isSurrogate, Bool.and_eq_true, decide_eq_true_eq, not_and, Nat.not_le] at h2
      cases be
      · refine ⟨by intro b hb; simp [u16] at hb; omega, by simp [u16], ?_⟩
        intro fuel rest
        have e : c / 256 * 256 + c % 256 = c := by omega
        have a1 : ¬ (0xD800 ≤ c ∧ c < 0xDC00) := by omega
        have a2 : ¬ (0xDC00 ≤ c ∧ c < 0xE000) := by omega
        simp only [u16, Bool.false_eq_true, if_false, List.cons_append, List.nil_append, utf16Dec, e, a1, a2]
      · refine ⟨by intro b hb; simp [u16] at hb; omega, by simp [u16], ?_⟩
        intro fuel rest
        have e : c / 256 * 256 + c % 256 = c := by omega
        have a1 : ¬ (0xD800 ≤ c ∧ c < 0xDC00) := by omega
        have a2 : ¬ (0xDC00 ≤ c ∧ c < 0xE000) := by omega
        simp only [u16, if_true, List.cons_append, List.nil_append, utf16Dec, e, a1, a2, if_false]
  · rename_i h1
    split at h
    · rename_i h2
      injection h with h; subst h
      generalize hhi : 0xD800 + (c - 0x10000) / 1024 = hi
      generalize hlo : 0xDC00 + (c - 0x10000) % 1024 = lo
      have b1 : 0xD800 ≤ hi ∧ hi < 0xDC00 := by omega
      have b2 : 0xDC00 ≤ lo ∧ lo < 0xE000 := by omega
      have e1 : hi / 256 * 256 + hi % 256 = hi := Nat.div_add_mod' hi 256
      have e2 : lo / 256 * 256 + lo % 256 = lo := Nat.div_add_mod' lo 256
      have e3 : 0x10000 + (hi - 0xD800) * 1024 + (lo - 0xDC00) = c := by omega
      cases be
      · have hl : u16 false hi ++ u16 false lo = [hi % 256, hi / 256, lo % 256, lo / 256] := rfl
        rw [hl]
        refine ⟨?_, by simp, ?_⟩
        · intro b hb
          simp only [List.mem_cons, List.mem_nil_iff, or_false] at hb
          rcases hb with rfl | rfl | rfl | rfl <;> omega
        intro fuel rest
        simp only [Bool.false_eq_true, if_false, List.cons_append, List.nil_append, utf16Dec, e1, e2, e3, b1, b2,
          and_self, if_true]
      · have hl : u16 true hi ++ u16 true lo = [hi / 256, hi % 256, lo / 256, lo % 256] := rfl
        rw [hl]
        refine ⟨?_, by simp, ?_⟩
        · intro b hb
          simp only [List.mem_cons, List.mem_nil_iff, or_false] at hb
          rcases hb with rfl | rfl | rfl | rfl <;> omega
        intro fuel rest
        simp only [if_true, List.cons_append, List.nil_append, utf16Dec, e1, e2, e3, b1, b2, and_self]
    · cases h

theorem utf16Dec_nil (be : Bool) (fuel : Nat) : utf16Dec be fuel [] = some [] := by
  cases fuel <;> simp [utf16Dec]

theorem utf16Dec_mapM (be : Bool) (cps : List Nat) : ∀ (bss : List Bytes), cps.mapM (utf16Enc1 be) = some bss →
    AllBytes bss.flatten ∧ ∀ fuel, bss.flatten.length ≤ fuel → utf16Dec be fuel bss.flatten = some cps := by
  induction cps with
  | nil =>
    intro bss h
    simp at h; subst h
    exact ⟨by intro b hb; simp at hb, fun fuel _ => utf16Dec_nil be fuel⟩
  | cons c cs ih =>
    intro bss h
    obtain ⟨b, bs', h1, h2, rfl⟩ := mapM_cons_some h
    obtain ⟨hall, hlen, hdec⟩ := utf16Enc1_spec be c b h1
    obtain ⟨ihall, ihdec⟩ := ih bs' h2
    refine ⟨?_, ?_⟩
    · intro x hx
      simp only [List.flatten_cons, List.mem_append] at hx
      rcases hx with hx | hx
      · exact hall x hx
      · exact ihall x hx
    · intro fuel hf
      simp only [List.flatten_cons, List.length_append] at hf ⊢
      obtain ⟨f, rfl⟩ : ∃ f, fuel = f + 1 := ⟨fuel - 1, by omega⟩
      rw [hdec f, ihdec f (by omega)]
      rfl

def utf16 (be : Bool) : Codec := if be then .utf16be else .utf16le

theorem encode_utf16 (be : Bool) (cps : List Nat) :
    encode (utf16 be) cps = (cps.mapM (utf16Enc1 be)).map List.flatten := by
  cases be <;> rfl

theorem decode_utf16 (be : Bool) (bs : Bytes) : decode (utf16 be) bs = utf16Dec be bs.length bs := by
  cases be <;> rfl

/-- **UTF-16 round trip, encode then decode** (either byte order): for every list of code points the encoder accepts
    (Unicode scalar values) the decoder returns exactly that list; the encoding consists of bytes -/
theorem utf16_decode_encode (be : Bool) (cps : List Nat) (bs : Bytes) (h : encode (utf16 be) cps = some bs) :
    AllBytes bs ∧ decode (utf16 be) bs = some cps := by
  rw [encode_utf16] at h
  rw [decode_utf16]
  cases hm : cps.mapM (utf16Enc1 be) with
  | none => simp [hm] at h
  | some bss =>
    simp [hm] at h; subst h
    obtain ⟨h1, h2⟩ := utf16Dec_mapM be cps bss hm
    exact ⟨h1, h2 _ (Nat.le_refl _)⟩

/-- one step of the decoder: the bytes it consumes are the encoding of the code point it produces -/
theorem utf16Dec_step (be : Bool) (fuel x : Nat) (rest : Bytes) (cps : List Nat) (hall : AllBytes (x :: rest))
    (h : utf16Dec be (fuel + 1) (x :: rest) = some cps) :
    ∃ c cps' pre rest', x :: rest = pre ++ rest' ∧ utf16Enc1 be c = some pre ∧ utf16Dec be fuel rest' = some cps' ∧
      cps = c :: cps' := by
  cases rest with
  | nil => simp [utf16Dec] at h
  | cons y rest =>
    have hx : x < 256 := hall x (by simp)
    have hy : y < 256 := hall y (by simp)
    simp only [utf16Dec] at h
    generalize hw : (if be = true then x * 256 + y else y * 256 + x) = w at h
    have hw16 : w < 65536 := by cases be <;> simp at hw <;> omega
    have hu : u16 be w = [x, y] := by
      cases be <;> simp at hw <;> simp [u16] <;> omega
    split at h
    · rename_i h1
      cases rest with
      | nil => cases h
      | cons x2 r =>
        cases r with
        | nil => cases h
        | cons y2 r =>
          have hx2 : x2 < 256 := hall x2 (by simp)
          have hy2 : y2 < 256 := hall y2 (by simp)
          simp only [] at h
          generalize hw2 : (if be = true then x2 * 256 + y2 else y2 * 256 + x2) = w2 at h
          have hu2 : u16 be w2 = [x2, y2] := by
            cases be <;> simp at hw2 <;> simp [u16] <;> omega
          split at h
          · rename_i h2
            obtain ⟨cps', h3, rfl⟩ := map_cons_eq_some h
            refine ⟨_, cps', [x, y, x2, y2], r, rfl, ?_, h3, rfl⟩
            unfold utf16Enc1
            have c1 : ¬ (0x10000 + (w - 0xD800) * 1024 + (w2 - 0xDC00) < 0x10000) := by omega
            have c2 : 0x10000 + (w - 0xD800) * 1024 + (w2 - 0xDC00) < 0x110000 := by omega
            have c3 : 0xD800 + (0x10000 + (w - 0xD800) * 1024 + (w2 - 0xDC00) - 0x10000) / 1024 = w := by omega
            have c4 : 0xDC00 + (0x10000 + (w - 0xD800) * 1024 + (w2 - 0xDC00) - 0x10000) % 1024 = w2 := by omega
            simp only [c1, c2, c3, c4, if_true, if_false, hu, hu2, List.cons_append, List.nil_append]
          · cases h
    · rename_i h1
      split at h
      · cases h
      · rename_i h2
        obtain ⟨cps', h3, rfl⟩ := map_cons_eq_some h
        refine ⟨w, cps', [x, y], rest, rfl, ?_, h3, rfl⟩
        unfold utf16Enc1
        have c1 : w < 0x10000 := hw16
        have c2 : isSurrogate w = false := by simp [isSurrogate]; omega
        simp only [c1, c2, if_true, hu, Bool.false_eq_true, if_false]

theorem utf16Enc_dec (be : Bool) (fuel : Nat) : ∀ (bs : Bytes) (cps : List Nat), AllBytes bs → utf16Dec be fuel bs = some cps →
    (cps.mapM (utf16Enc1 be)).map List.flatten = some bs := by
  induction fuel with
  | zero =>
    intro bs cps _ h
    cases bs with
    | nil => simp [utf16Dec] at h; subst h; rfl
    | cons b r => simp [utf16Dec] at h
  | succ fuel ih =>
    intro bs cps hall h
    cases bs with
    | nil => simp [utf16Dec] at h; subst h; rfl
    | cons b0 rest =>
      obtain ⟨c, cps', pre, rest', e1, e2, e3, rfl⟩ := utf16Dec_step be fuel b0 rest cps hall h
      have hall' : AllBytes rest' := by
        intro z hz
        exact hall z (by rw [e1]; exact List.mem_append_right _ hz)
      have := ih rest' cps' hall' e3
      cases hm : cps'.mapM (utf16Enc1 be) with
      | none => simp [hm] at this
      | some bss =>
        simp [hm] at this
        rw [List.mapM_cons, e2, hm, e1, ← this]
        rfl

/-- **UTF-16 round trip, decode then encode**: every string of bytes the decoder accepts is the encoding of the code
    points it returns (no unpaired surrogates) -/
theorem utf16_encode_decode (be : Bool) (bs : Bytes) (cps : List Nat) (hall : AllBytes bs)
    (h : decode (utf16 be) bs = some cps) : encode (utf16 be) cps = some bs := by
  rw [decode_utf16] at h
  rw [encode_utf16]
  exact utf16Enc_dec be bs.length bs cps hall h

theorem utf16be_decode_encode (cps : List Nat) (bs : Bytes) (h : encode .utf16be cps = some bs) :
    AllBytes bs ∧ decode .utf16be bs = some cps := utf16_decode_encode true cps bs h
theorem utf16be_encode_decode (bs : Bytes) (cps : List Nat) (hall : AllBytes bs) (h : decode .utf16be bs = some cps) :
    encode .utf16be cps = some bs := utf16_encode_decode true bs cps hall h
theorem utf16le_decode_encode (cps : List Nat) (bs : Bytes) (h : encode .utf16le cps = some bs) :
    AllBytes bs ∧ decode .utf16le bs = some cps := utf16_decode_encode false cps bs h
theorem utf16le_encode_decode (bs : Bytes) (cps : List Nat) (hall : AllBytes bs) (h : decode .utf16le bs = some cps) :
    encode .utf16le cps = some bs := utf16_encode_decode false bs cps hall h

end OdxVerif.Text
