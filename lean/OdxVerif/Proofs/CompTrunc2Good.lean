import OdxVerif.Proofs.CompTrunc2Erase
/-! C05, nested tier, second part (task W26): the invariant of the ghost log.
    `LState.Inv`: every logged request that was not made inside an end-marker probe lies inside the message.
    `LGood m`: started in a state with `Inv`, `m` keeps the message and the probe flag, returns in a state with `Inv`, and if it
    raises from a state without `Inv` then what it raises is `DecodeError` (and we are not inside a probe).
    `lgood_decode_all`: every decoding function of the instrumented decoder is `LGood` — all descriptions, all states, both
    modes, by induction on the fuel.  Core Lean only. -/
namespace OdxVerif.Codec
open OdxVerif.OdxM OdxVerif.Bits

/-- every request logged outside a probe lies inside the message -/
def LState.Inv (ls : LState) : Prop := ∀ e ∈ ls.log, e.probe = false → e.stop ≤ ls.st.msg.length

theorem LState.Inv.of_eq {ls ls' : LState} (h : ls.Inv) (hl : ls'.log = ls.log) (hm : ls'.st.msg = ls.st.msg) : ls'.Inv := by
  intro e he hp
  rw [hl] at he; rw [hm]; exact h e he hp

def LGood {α : Type} (m : LogM α) : Prop := ∀ ls b, ls.Inv →
  match m ls b with
  | .ok (_, ls') => ls'.Inv ∧ ls'.probe = ls.probe ∧ ls'.st.msg = ls.st.msg
  | .error (e, ls') => ls'.st.msg = ls.st.msg ∧ (ls'.Inv ∨ (e = .decode ∧ ls.probe = false))

theorem lgood_pure {α} (a : α) : LGood (Pure.pure a : LogM α) := fun _ _ h => ⟨h, rfl, rfl⟩
theorem lgood_pure' {α} (a : α) : LGood (OdxM.pure a : LogM α) := fun _ _ h => ⟨h, rfl, rfl⟩
theorem lgood_raise {α} (e : Err) : LGood (raise e : LogM α) := fun _ _ h => ⟨rfl, .inl h⟩
theorem lgood_odxraise (e : Err) : LGood (odxraise e : LogM Unit) := by
  intro ls b h; cases b
  · exact ⟨h, rfl, rfl⟩
  · exact ⟨rfl, .inl h⟩
theorem lgood_odxassert (c : Bool) : LGood (odxassert c : LogM Unit) := by
  unfold odxassert; split
  · exact lgood_pure' ()
  · exact lgood_odxraise _

/-- a model computation that keeps the message, lifted -/
theorem lgood_liftD {α} (m : DecM α) (hk : Keeps m) : LGood (liftD m) := by
  intro ls b h
  unfold liftD
  cases hm : m ls.st b with
  | ok p =>
    obtain ⟨a, s⟩ := p
    have := hk.ok hm
    exact ⟨h.of_eq rfl this, rfl, this⟩
  | error p =>
    obtain ⟨e, s⟩ := p
    have := hk.error hm
    exact ⟨this, .inl (h.of_eq rfl this)⟩
theorem lgood_getD : LGood getD := lgood_liftD _ keeps_getS
theorem lgood_modD (f : DecState → DecState) (hf : ∀ s, (f s).msg = s.msg) : LGood (modD f) := lgood_liftD _ (keeps_modifyS f hf)

theorem lgood_bind' {α β} (m : LogM α) (f : α → LogM β) (hm : LGood m) (hf : ∀ a, LGood (f a)) : LGood (OdxM.bind m f) := by
  intro ls b h
  unfold OdxM.bind
  have h1 := hm ls b h
  cases hms : m ls b with
  | error x => obtain ⟨e0, l0⟩ := x; rw [hms] at h1; exact h1
  | ok p =>
    obtain ⟨a, l1⟩ := p
    rw [hms] at h1
    obtain ⟨i1, p1, m1⟩ := h1
    have h2 := hf a l1 b i1
    simp only []
    cases hfs : f a l1 b with
    | ok q =>
      obtain ⟨c, l2⟩ := q
      rw [hfs] at h2
      exact ⟨h2.1, h2.2.1.trans p1, h2.2.2.trans m1⟩
    | error x =>
      obtain ⟨e0, l2⟩ := x
      rw [hfs] at h2
      refine ⟨h2.1.trans m1, ?_⟩
      rcases h2.2 with hi | ⟨he, hp⟩
      · exact .inl hi
      · exact .inr ⟨he, p1 ▸ hp⟩
theorem lgood_bind {α β} (m : LogM α) (f : α → LogM β) (hm : LGood m) (hf : ∀ a, LGood (f a)) : LGood (m >>= f) :=
  lgood_bind' m f hm hf
theorem lgood_ite {α} (c : Prop) [Decidable c] (a b : LogM α) (ha : LGood a) (hb : LGood b) : LGood (if c then a else b) := by
  split <;> assumption

/-- the probe: whatever is requested inside is tagged, so the handler starts from a state with `Inv` -/
theorem lgood_probeL {α} (m : LogM α) (handles : Err → Bool) (h : Err → LogM α) (hm : LGood m) (hh : ∀ e, LGood (h e)) :
    LGood (probeL m handles h) := by
  intro ls b hi
  unfold probeL
  have h1 := hm { ls with probe := true } b (hi.of_eq rfl rfl)
  cases hms : m { ls with probe := true } b with
  | ok p =>
    obtain ⟨a, l1⟩ := p
    rw [hms] at h1
    exact ⟨h1.1.of_eq rfl rfl, rfl, h1.2.2⟩
  | error x =>
    obtain ⟨e0, l0⟩ := x
    rw [hms] at h1
    obtain ⟨m0, hor⟩ := h1
    have i0 : l0.Inv := by
      rcases hor with hi0 | ⟨_, hp⟩
      · exact hi0
      · cases hp
    simp only []
    by_cases hc : handles e0 = true
    · rw [if_pos hc]
      have h2 := hh e0 { l0 with probe := ls.probe } b (i0.of_eq rfl rfl)
      cases hhs : h e0 { l0 with probe := ls.probe } b with
      | ok q =>
        obtain ⟨c, l2⟩ := q
        rw [hhs] at h2
        exact ⟨h2.1, h2.2.1, h2.2.2.trans m0⟩
      | error y =>
        obtain ⟨e1, l2⟩ := y
        rw [hhs] at h2
        exact ⟨h2.1.trans m0, h2.2⟩
    · rw [if_neg hc]
      exact ⟨m0, .inl i0⟩

/-- `extractCore`: the requested bytes lie inside the message, or `DecodeError` (both modes) -/
theorem extractCore_fits (bl : Nat) (bt : BaseType) (enc : Option Enc) (hl : Bool) (s : DecState) (b : Bool) :
    s.readEnd bl ≤ s.msg.length ∨ ∃ s', extractCore bl bt enc hl s b = .error (.decode, s') := by
  by_cases h : s.msg.length < s.readEnd bl
  · right
    unfold DecState.readEnd at h
    unfold extractCore
    simp only [bind, run_bind, run_getS, run_ite]
    by_cases hi : (bt = .int32 ∨ bt = .uint32) ∧ bl > 64
    · simp only [hi, and_self, if_true]; exact ⟨_, rfl⟩
    · have : s.cursorByte + (bl + s.cursorBit + 7) / 8 > s.msg.length := h
      simp only [hi, if_false, this, if_true]; exact ⟨_, rfl⟩
  · left; omega

/-- the logging wrapper of `extractCore` -/
theorem lgood_extractCoreL (bl : Nat) (bt : BaseType) (enc : Option Enc) (hl : Bool) : LGood (extractCoreL bl bt enc hl) := by
  intro ls b hi
  have hrun : extractCoreL bl bt enc hl ls b =
      liftD (extractCore bl bt enc hl) { ls with log := ⟨ls.st.cursorByte, ls.st.readEnd bl, ls.probe⟩ :: ls.log } b := rfl
  rw [hrun]
  unfold liftD
  simp only []
  have hk := keeps_extractCore bl bt enc hl
  rcases extractCore_fits bl bt enc hl ls.st b with hfit | ⟨s', hs'⟩
  · -- the request lies inside: the new entry satisfies the invariant
    have inv' : ∀ s'' : DecState, s''.msg = ls.st.msg →
        LState.Inv { st := s'', log := ⟨ls.st.cursorByte, ls.st.readEnd bl, ls.probe⟩ :: ls.log, probe := ls.probe } := by
      intro s'' hm e he hp
      simp only [List.mem_cons] at he
      show e.stop ≤ s''.msg.length
      rw [hm]
      rcases he with rfl | he
      · exact hfit
      · exact hi e he hp
    cases hm : extractCore bl bt enc hl ls.st b with
    | ok p =>
      obtain ⟨a, s⟩ := p
      exact ⟨inv' s (hk.ok hm), rfl, hk.ok hm⟩
    | error p =>
      obtain ⟨e, s⟩ := p
      exact ⟨hk.error hm, .inl (inv' s (hk.error hm))⟩
  · rw [hs']
    refine ⟨hk.error hs', ?_⟩
    cases hp : ls.probe with
    | false => exact .inr ⟨rfl, rfl⟩
    | true =>
      left
      intro e he hpe
      simp only [List.mem_cons] at he
      show e.stop ≤ s'.msg.length
      rw [hk.error hs']
      rcases he with rfl | he
      · cases hpe
      · exact hi e he hpe

attribute [irreducible] LGood

macro "lgood_step" : tactic =>
  `(tactic| first
    | exact lgood_pure _ | exact lgood_pure' _ | exact lgood_raise _ | exact lgood_odxraise _ | exact lgood_odxassert _
    | exact lgood_getD | exact lgood_modD _ (fun _ => rfl)
    | assumption
    | apply lgood_bind | apply lgood_bind' | apply lgood_ite
    | intro _)
macro "lgood1" : tactic => `(tactic| first
    | lgood_step | split | dsimp only
    | (simp only [Nat.succ_eq_add_one, Nat.add_right_cancel_iff] at *; subst_vars))

theorem lgood_extractAtomicL (bl : Nat) (bt : BaseType) (enc : Option Enc) (hl : Bool) : LGood (extractAtomicL bl bt enc hl) := by
  unfold extractAtomicL
  repeat (first | exact lgood_extractCoreL _ _ _ _ | lgood1)

theorem lgood_unapplyMask (m : Nat) (c : Bool) (v : IVal) : LGood (unapplyMask m c v : LogM IVal) := by
  unfold unapplyMask
  cases v <;> simp only [] <;> repeat lgood1

macro "lgood2" : tactic => `(tactic| first
    | exact lgood_extractAtomicL _ _ _ _ | exact lgood_unapplyMask _ _ _ | lgood1)

theorem lgood_decodeDctL (dct : Dct) : LGood (decodeDctL dct) := by
  unfold decodeDctL
  cases dct with
  | std bt enc hl bl mask c => cases mask <;> simp only [] <;> repeat lgood2
  | minmax bt enc hl mn mx t => simp only []; repeat lgood2
  | leading bt enc hl bl => simp only []; repeat lgood2
  | paramLen bt enc hl key => simp only []; repeat lgood2

theorem lgood_methodI2P (arith : Err) (m : Compu.Method) (i : Compu.Val) :
    LGood (methodI2P arith m i : LogM (Option Compu.Val)) := by
  unfold methodI2P
  cases m <;> simp only [] <;> repeat lgood1

theorem lgood_dopI2P (m : Compu.Method) (v : IVal) : LGood (dopI2P m v : LogM (Option IVal)) := by
  unfold dopI2P
  repeat (first | exact lgood_methodI2P _ _ _ | lgood1)

macro "lgood3" : tactic => `(tactic| first
    | exact lgood_decodeDctL _ | exact lgood_dopI2P _ _ | exact lgood_methodI2P _ _ _ | lgood2)

set_option maxHeartbeats 1600000 in
/-- **The invariant of the log**, for every decoding function of the instrumented decoder, by induction on the fuel -/
theorem lgood_decode_all (fuel : Nat) :
    (∀ d, LGood (decodeDopL fuel d)) ∧
    (∀ item sz n, LGood (decodeStaticItemsL item sz fuel n)) ∧
    (∀ item n, LGood (decodeNItemsL item fuel n)) ∧
    (∀ item, LGood (decodeToEndL item fuel)) ∧
    (∀ tv td item, LGood (decodeUntilMarkerL tv td item fuel)) ∧
    (∀ p, LGood (decodeParamL fuel p)) ∧
    (∀ ps, LGood (decodeParamsL fuel ps)) ∧
    (∀ ps, LGood (decodeCompositeL fuel ps)) := by
  induction fuel with
  | zero =>
    refine ⟨?_, ?_, ?_, ?_, ?_, ?_, ?_, ?_⟩ <;> intros
    · unfold decodeDopL; exact lgood_raise _
    · unfold decodeStaticItemsL; exact lgood_raise _
    · unfold decodeNItemsL; exact lgood_raise _
    · unfold decodeToEndL; exact lgood_raise _
    · unfold decodeUntilMarkerL; exact lgood_raise _
    · unfold decodeParamL; exact lgood_raise _
    · unfold decodeParamsL; exact lgood_raise _
    · unfold decodeCompositeL; exact lgood_raise _
  | succ fuel ih =>
    obtain ⟨ihDop, ihStatic, ihN, ihEnd, ihMark, ihParam, ihParams, ihComp⟩ := ih
    refine ⟨?_, ?_, ?_, ?_, ?_, ?_, ?_, ?_⟩
    · intro d
      cases d <;> unfold decodeDopL <;>
        repeat (first
          | exact ihDop _ | exact ihStatic _ _ _ | exact ihN _ _ | exact ihEnd _ | exact ihMark _ _ _ | exact ihComp _
          | exact ihParam _ | lgood3)
    · intro item sz n
      unfold decodeStaticItemsL
      repeat (first | exact ihDop _ | exact ihStatic _ _ _ | lgood3)
    · intro item n
      unfold decodeNItemsL
      repeat (first | exact ihDop _ | exact ihN _ _ | lgood3)
    · intro item
      unfold decodeToEndL
      repeat (first | exact ihDop _ | exact ihEnd _ | lgood3)
    · intro tv td item
      unfold decodeUntilMarkerL
      repeat (first
        | exact ihDop _ | exact ihMark _ _ _
        | (apply lgood_probeL)
        | lgood3)
    · intro p
      cases p with
      | mk name bytePos bitPos kind =>
        unfold decodeParamL
        cases kind <;>
        repeat (first | exact ihDop _ | lgood3)
    · intro ps
      unfold decodeParamsL
      repeat (first | exact ihParam _ | exact ihParams _ | lgood3)
    · intro ps
      unfold decodeCompositeL
      repeat (first | exact ihParams _ | lgood3)

end OdxVerif.Codec
