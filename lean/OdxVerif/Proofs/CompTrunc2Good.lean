import OdxVerif.Proofs.CompTrunc2Erase
/-! C05, nested tier, second part (task W26): the invariant of the ghost log.
    `LState.Inv`: every logged request that was not made inside an end-marker probe lies inside the message.
    `Good m`: started in a state with `Inv`, `m` keeps the message and the probe flag, returns in a state with `Inv`, and if it
    raises from a state without `Inv` then what it raises is `DecodeError` (and we are not inside a probe).
    `good_decode_all`: every decoding function of the instrumented decoder is `Good` — all descriptions, all states, both
    modes, by induction on the fuel.  Core Lean only. -/
namespace OdxVerif.Codec
open OdxVerif.OdxM OdxVerif.Bits

/-- every request logged outside a probe lies inside the message -/
def LState.Inv (ls : LState) : Prop := ∀ e ∈ ls.log, e.probe = false → e.stop ≤ ls.st.msg.length

theorem LState.Inv.of_eq {ls ls' : LState} (h : ls.Inv) (hl : ls'.log = ls.log) (hm : ls'.st.msg = ls.st.msg) : ls'.Inv := by
  intro e he hp
  rw [hl] at he; rw [hm]; exact h e he hp

def Good {α : Type} (m : LogM α) : Prop := ∀ ls b, ls.Inv →
  match m ls b with
  | .ok (_, ls') => ls'.Inv ∧ ls'.probe = ls.probe ∧ ls'.st.msg = ls.st.msg
  | .error (e, ls') => ls'.st.msg = ls.st.msg ∧ (ls'.Inv ∨ (e = .decode ∧ ls.probe = false))

theorem good_pure {α} (a : α) : Good (Pure.pure a : LogM α) := fun _ _ h => ⟨h, rfl, rfl⟩
theorem good_pure' {α} (a : α) : Good (OdxM.pure a : LogM α) := fun _ _ h => ⟨h, rfl, rfl⟩
theorem good_raise {α} (e : Err) : Good (raise e : LogM α) := fun _ _ h => ⟨rfl, .inl h⟩
theorem good_odxraise (e : Err) : Good (odxraise e : LogM Unit) := by
  intro ls b h; cases b
  · exact ⟨h, rfl, rfl⟩
  · exact ⟨rfl, .inl h⟩
theorem good_odxassert (c : Bool) : Good (odxassert c : LogM Unit) := by
  unfold odxassert; split
  · exact good_pure' ()
  · exact good_odxraise _

/-- a model computation that keeps the message, lifted -/
theorem good_liftD {α} (m : DecM α) (hk : Keeps m) : Good (liftD m) := by
  intro ls b h
  unfold liftD
  cases hm : m ls.st b with
  | ok p =>
    obtain ⟨a, s⟩ := p
    have := hk.ok hm
    exact ⟨h.of_eq rfl this, rfl, this⟩
  | error p =>
    obtain ⟨e, s⟩ := p
    have := hk.error hm
    exact ⟨this, .inl (h.of_eq rfl this)⟩
theorem good_getD : Good getD := good_liftD _ keeps_getS
theorem good_modD (f : DecState → DecState) (hf : ∀ s, (f s).msg = s.msg) : Good (modD f) := good_liftD _ (keeps_modifyS f hf)

theorem good_bind' {α β} (m : LogM α) (f : α → LogM β) (hm : Good m) (hf : ∀ a, Good (f a)) : Good (OdxM.bind m f) := by
  intro ls b h
  unfold OdxM.bind
  have h1 := hm ls b h
  cases hms : m ls b with
  | error x => obtain ⟨e0, l0⟩ := x; rw [hms] at h1; exact h1
  | ok p =>
    obtain ⟨a, l1⟩ := p
    rw [hms] at h1
    obtain ⟨i1, p1, m1⟩ := h1
    have h2 := hf a l1 b i1
    simp only []
    cases hfs : f a l1 b with
    | ok q =>
      obtain ⟨c, l2⟩ := q
      rw [hfs] at h2
      exact ⟨h2.1, h2.2.1.trans p1, h2.2.2.trans m1⟩
    | error x =>
      obtain ⟨e0, l2⟩ := x
      rw [hfs] at h2
      refine ⟨h2.1.trans m1, ?_⟩
      rcases h2.2 with hi | ⟨he, hp⟩
      · exact .inl hi
      · exact .inr ⟨he, p1 ▸ hp⟩
theorem good_bind {α β} (m : LogM α) (f : α → LogM β) (hm : Good m) (hf : ∀ a, Good (f a)) : Good (m >>= f) :=
  good_bind' m f hm hf
theorem good_ite {α} (c : Prop) [Decidable c] (a b : LogM α) (ha : Good a) (hb : Good b) : Good (if c then a else b) := by
  split <;> assumption

/-- the probe: whatever is requested inside is tagged, so the handler starts from a state with `Inv` -/
theorem good_probeL {α} (m : LogM α) (handles : Err → Bool) (h : Err → LogM α) (hm : Good m) (hh : ∀ e, Good (h e)) :
    Good (probeL m handles h) := by
  intro ls b hi
  unfold probeL
  have h1 := hm { ls with probe := true } b (hi.of_eq rfl rfl)
  cases hms : m { ls with probe := true } b with
  | ok p =>
    obtain ⟨a, l1⟩ := p
    rw [hms] at h1
    exact ⟨h1.1.of_eq rfl rfl, rfl, h1.2.2⟩
  | error x =>
    obtain ⟨e0, l0⟩ := x
    rw [hms] at h1
    obtain ⟨m0, hor⟩ := h1
    have i0 : l0.Inv := by
      rcases hor with hi0 | ⟨_, hp⟩
      · exact hi0
      · cases hp
    simp only []
    by_cases hc : handles e0 = true
    · rw [if_pos hc]
      have h2 := hh e0 { l0 with probe := ls.probe } b (i0.of_eq rfl rfl)
      cases hhs : h e0 { l0 with probe := ls.probe } b with
      | ok q =>
        obtain ⟨c, l2⟩ := q
        rw [hhs] at h2
        exact ⟨h2.1, h2.2.1, h2.2.2.trans m0⟩
      | error y =>
        obtain ⟨e1, l2⟩ := y
        rw [hhs] at h2
        exact ⟨h2.1.trans m0, h2.2⟩
    · rw [if_neg hc]
      exact ⟨m0, .inl i0⟩

/-- `extractCore`: the requested bytes lie inside the message, or `DecodeError` (both modes) -/
theorem extractCore_fits (bl : Nat) (bt : BaseType) (enc : Option Enc) (hl : Bool) (s : DecState) (b : Bool) :
    s.readEnd bl ≤ s.msg.length ∨ ∃ s', extractCore bl bt enc hl s b = .error (.decode, s') := by
  by_cases h : s.msg.length < s.readEnd bl
  · right
    unfold DecState.readEnd at h
    unfold extractCore
    simp only [bind, run_bind, run_getS, run_ite]
    by_cases hi : (bt = .int32 ∨ bt = .uint32) ∧ bl > 64
    · simp only [hi, and_self, if_true]; exact ⟨_, rfl⟩
    · have : s.cursorByte + (bl + s.cursorBit + 7) / 8 > s.msg.length := h
      simp only [hi, if_false, this, if_true]; exact ⟨_, rfl⟩
  · left; omega

/-- the logging wrapper of `extractCore` -/
theorem good_extractCoreL (bl : Nat) (bt : BaseType) (enc : Option Enc) (hl : Bool) : Good (extractCoreL bl bt enc hl) := by
  intro ls b hi
  have hrun : extractCoreL bl bt enc hl ls b =
      liftD (extractCore bl bt enc hl) { ls with log := ⟨ls.st.cursorByte, ls.st.readEnd bl, ls.probe⟩ :: ls.log } b := rfl
  rw [hrun]
  unfold liftD
  simp only []
  have hk := keeps_extractCore bl bt enc hl
  rcases extractCore_fits bl bt enc hl ls.st b with hfit | ⟨s', hs'⟩
  · -- the request lies inside: the new entry satisfies the invariant
    have inv' : ∀ s'' : DecState, s''.msg = ls.st.msg →
        LState.Inv { st := s'', log := ⟨ls.st.cursorByte, ls.st.readEnd bl, ls.probe⟩ :: ls.log, probe := ls.probe } := by
      intro s'' hm e he hp
      simp only [List.mem_cons] at he
      show e.stop ≤ s''.msg.length
      rw [hm]
      rcases he with rfl | he
      · exact hfit
      · exact hi e he hp
    cases hm : extractCore bl bt enc hl ls.st b with
    | ok p =>
      obtain ⟨a, s⟩ := p
      exact ⟨inv' s (hk.ok hm), rfl, hk.ok hm⟩
    | error p =>
      obtain ⟨e, s⟩ := p
      exact ⟨hk.error hm, .inl (inv' s (hk.error hm))⟩
  · rw [hs']
    refine ⟨hk.error hs', ?_⟩
    cases hp : ls.probe with
    | false => exact .inr ⟨rfl, rfl⟩
    | true =>
      left
      intro e he hpe
      simp only [List.mem_cons] at he
      show e.stop ≤ s'.msg.length
      rw [hk.error hs']
      rcases he with rfl | he
      · cases hpe
      · exact hi e he hpe

attribute [irreducible] Good

macro "good_step" : tactic =>
  `(tactic| first
    | exact good_pure _ | exact good_pure' _ | exact good_raise _ | exact good_odxraise _ | exact good_odxassert _
    | exact good_getD | exact good_modD _ (fun _ => rfl)
    | assumption
    | apply good_bind | apply good_bind' | apply good_ite
    | intro _)
macro "good1" : tactic => `(tactic| first
    | good_step | split | dsimp only
    | (simp only [Nat.succ_eq_add_one, Nat.add_right_cancel_iff] at *; subst_vars))

theorem good_extractAtomicL (bl : Nat) (bt : BaseType) (enc : Option Enc) (hl : Bool) : Good (extractAtomicL bl bt enc hl) := by
  unfold extractAtomicL
  repeat (first | exact good_extractCoreL _ _ _ _ | good1)

theorem good_unapplyMask (m : Nat) (c : Bool) (v : IVal) : Good (unapplyMask m c v : LogM IVal) := by
  unfold unapplyMask
  cases v <;> simp only [] <;> repeat good1

macro "good2" : tactic => `(tactic| first
    | exact good_extractAtomicL _ _ _ _ | exact good_unapplyMask _ _ _ | good1)

theorem good_decodeDctL (dct : Dct) : Good (decodeDctL dct) := by
  unfold decodeDctL
  cases dct with
  | std bt enc hl bl mask c => cases mask <;> simp only [] <;> repeat good2
  | minmax bt enc hl mn mx t => simp only []; repeat good2
  | leading bt enc hl bl => simp only []; repeat good2
  | paramLen bt enc hl key => simp only []; repeat good2

theorem good_methodI2P (arith : Err) (m : Compu.Method) (i : Compu.Val) :
    Good (methodI2P arith m i : LogM (Option Compu.Val)) := by
  unfold methodI2P
  cases m <;> simp only [] <;> repeat good1

theorem good_dopI2P (m : Compu.Method) (v : IVal) : Good (dopI2P m v : LogM (Option IVal)) := by
  unfold dopI2P
  repeat (first | exact good_methodI2P _ _ _ | good1)

macro "good3" : tactic => `(tactic| first
    | exact good_decodeDctL _ | exact good_dopI2P _ _ | exact good_methodI2P _ _ _ | good2)

set_option maxHeartbeats 1600000 in
/-- **The invariant of the log**, for every decoding function of the instrumented decoder, by induction on the fuel -/
theorem good_decode_all (fuel : Nat) :
    (∀ d, Good (decodeDopL fuel d)) ∧
    (∀ item sz n, Good (decodeStaticItemsL item sz fuel n)) ∧
    (∀ item n, Good (decodeNItemsL item fuel n)) ∧
    (∀ item, Good (decodeToEndL item fuel)) ∧
    (∀ tv td item, Good (decodeUntilMarkerL tv td item fuel)) ∧
    (∀ p, Good (decodeParamL fuel p)) ∧
    (∀ ps, Good (decodeParamsL fuel ps)) ∧
    (∀ ps, Good (decodeCompositeL fuel ps)) := by
  induction fuel with
  | zero =>
    refine ⟨?_, ?_, ?_, ?_, ?_, ?_, ?_, ?_⟩ <;> intros
    · unfold decodeDopL; exact good_raise _
    · unfold decodeStaticItemsL; exact good_raise _
    · unfold decodeNItemsL; exact good_raise _
    · unfold decodeToEndL; exact good_raise _
    · unfold decodeUntilMarkerL; exact good_raise _
    · unfold decodeParamL; exact good_raise _
    · unfold decodeParamsL; exact good_raise _
    · unfold decodeCompositeL; exact good_raise _
  | succ fuel ih =>
    obtain ⟨ihDop, ihStatic, ihN, ihEnd, ihMark, ihParam, ihParams, ihComp⟩ := ih
    refine ⟨?_, ?_, ?_, ?_, ?_, ?_, ?_, ?_⟩
    · intro d
      cases d <;> unfold decodeDopL <;>
        repeat (first
          | exact ihDop _ | exact ihStatic _ _ _ | exact ihN _ _ | exact ihEnd _ | exact ihMark _ _ _ | exact ihComp _
          | exact ihParam _ | good3)
    · intro item sz n
      unfold decodeStaticItemsL
      repeat (first | exact ihDop _ | exact ihStatic _ _ _ | good3)
    · intro item n
      unfold decodeNItemsL
      repeat (first | exact ihDop _ | exact ihN _ _ | good3)
    · intro item
      unfold decodeToEndL
      repeat (first | exact ihDop _ | exact ihEnd _ | good3)
    · intro tv td item
      unfold decodeUntilMarkerL
      repeat (first
        | exact ihDop _ | exact ihMark _ _ _
        | (apply good_probeL)
        | good3)
    · intro p
      cases p with
      | mk name bytePos bitPos kind =>
        unfold decodeParamL
        cases kind <;>
        repeat (first | exact ihDop _ | good3)
    · intro ps
      unfold decodeParamsL
      repeat (first | exact ihParam _ | exact ihParams _ | good3)
    · intro ps
      unfold decodeCompositeL
      repeat (first | exact ihParams _ | good3)

end OdxVerif.Codec
