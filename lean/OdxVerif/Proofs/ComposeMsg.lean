import OdxVerif.Proofs.Compose
/-! Tier 2 (nested structures) at the API level of the model: the monadic `encodeParam`/`decodeParam` on `Tree`
    descriptions equal the pure encoder/decoder pairs of `Proofs/Compose.lean`; hence `tree_roundtrip_msg`. -/
namespace OdxVerif.Codec
open OdxVerif.Bits OdxVerif.OdxM

mutual
def Tree.toParam : Tree → Param
  | .int o _ => o.toParam
  | .const o v => o.toConstParam v
  | .struct n bp kids => .mk n bp none (.value (.struct none (Trees.toParams kids)) none)
def Trees.toParams : List Tree → List Param
  | [] => []
  | t :: ts => t.toParam :: Trees.toParams ts
end

mutual
/-- fuel the model needs for a parameter -/
def Tree.need : Tree → Nat
  | .int _ _ => 2
  | .const _ _ => 2
  | .struct _ _ kids => Trees.need kids + 4
def Trees.need : List Tree → Nat
  | [] => 1
  | t :: ts => t.need + Trees.need ts + 1
end

theorem Trees.toParams_length (ts : List Tree) : (Trees.toParams ts).length = ts.length := by
  induction ts with
  | nil => rfl
  | cons t ts ih => simp [Trees.toParams, ih]

/-- every parameter of this tier is a VALUE parameter: the key pass does nothing -/
theorem encodeKeyValues_trees (ts : List Tree) (extra : Nat) (s : EncState) (st : Bool) :
    encodeKeyValues (ts.length + 1 + extra) (Trees.toParams ts) s st = .ok ((), s) := by
  induction ts with
  | nil =>
    have : 0 + 1 + extra = extra + 1 := by omega
    simp only [List.length_nil, Trees.toParams, this, encodeKeyValues]
    simp [pure, run_pure]
  | cons t rest ih =>
    have : (t :: rest).length + 1 + extra = (rest.length + 1 + extra) + 1 := by simp; omega
    rw [this]
    cases t with
    | int o v => simp only [Trees.toParams, Tree.toParam, Obj.toParam, encodeKeyValues]; exact ih
    | const o v => simp only [Trees.toParams, Tree.toParam, Obj.toConstParam, encodeKeyValues]; exact ih
    | struct n bp kids => simp only [Trees.toParams, Tree.toParam, encodeKeyValues]; exact ih


mutual
/-- sibling parameters have pairwise distinct short names, at every level -/
def Tree.namesOk : Tree → Prop
  | .int _ _ => True
  | .const _ _ => True
  | .struct _ _ kids => Trees.namesOk kids
def Trees.namesOk : List Tree → Prop
  | [] => True
  | t :: ts => t.namesOk ∧ (∀ u ∈ ts, u.name ≠ t.name) ∧ Trees.namesOk ts
end

theorem Trees.pair_val_cons (t : Tree) (ts : List Tree) :
    (Trees.pair (t :: ts)).val = (t.name, t.pair.val) :: (Trees.pair ts).val := rfl

theorem Trees.pair_val_nil : (Trees.pair []).val = [] := rfl

theorem Tree.toParam_name (t : Tree) : t.toParam.name = t.name := by
  cases t <;> rfl

/-- looking a sibling up by name in the value dictionary of the structure -/
theorem lookup_pair_val (ts : List Tree) (h : Trees.namesOk ts) :
    ∀ t ∈ ts, lookup t.name (Trees.pair ts).val = some t.pair.val := by
  induction ts with
  | nil => intro t ht; cases ht
  | cons u us ih =>
    intro t ht
    simp only [Trees.namesOk] at h
    rw [Trees.pair_val_cons]
    cases ht with
    | head => simp [lookup]
    | tail _ hmem =>
      have hne : t.name ≠ u.name := h.2.1 t hmem
      simp only [lookup, hne, if_false]
      exact ih h.2.2 t hmem

theorem Tree.val_ne_none (t : Tree) : t.pair.val ≠ PVal.none := by
  cases t <;> simp [Tree.pair, Pair.map, Pair.ofObj]

theorem lookupV_pair_val (ts : List Tree) (h : Trees.namesOk ts) (t : Tree) (ht : t ∈ ts) :
    lookupV t.name (Trees.pair ts).val = some t.pair.val := by
  have := lookup_pair_val ts h t ht
  unfold lookupV
  rw [this]
  cases hv : t.pair.val <;> simp_all [Tree.val_ne_none]

/-- the value dictionary names only parameters of the structure -/
theorem known_pair_val (ts : List Tree) :
    (Trees.pair ts).val.any (fun kv => !((Trees.toParams ts).any fun p => p.name == kv.1)) = false := by
  have key : ∀ (all : List Param) (us : List Tree), (∀ u ∈ us, all.any (fun p => p.name == u.name) = true) →
      (Trees.pair us).val.any (fun kv => !(all.any fun p => p.name == kv.1)) = false := by
    intro all us
    induction us with
    | nil => intro _; rfl
    | cons u us ih =>
      intro h
      rw [Trees.pair_val_cons]
      simp only [List.any_cons, h u (List.mem_cons_self ..), Bool.not_true, Bool.false_or]
      exact ih (fun x hx => h x (List.mem_cons_of_mem _ hx))
  apply key
  intro u hu
  induction ts with
  | nil => cases hu
  | cons t ts ih =>
    simp only [Trees.toParams, List.any_cons]
    cases hu with
    | head => simp [Tree.toParam_name]
    | tail _ hm => simp [ih hm]


theorem SameCore.trans {a b c : EncState} (h1 : SameCore a b) (h2 : SameCore b c) : SameCore a c :=
  ⟨h1.1.trans h2.1, h1.2.1.trans h2.2.1, h1.2.2.1.trans h2.2.2.1, h1.2.2.2.1.trans h2.2.2.2.1, h1.2.2.2.2.trans h2.2.2.2.2⟩

theorem Trees.need_ge (ts : List Tree) : ts.length + 1 ≤ Trees.need ts := by
  induction ts with
  | nil => simp [Trees.need]
  | cons t ts ih => simp only [Trees.need, List.length_cons]; omega

theorem Tree.toParam_kind (t : Tree) :
    (∃ bp bitp dop, t.toParam = .mk t.name bp bitp (.value dop none)) ∨
    (∃ bp bitp dct v, t.toParam = .mk t.name bp bitp (.codedConst dct v)) := by
  cases t with
  | int o v => exact Or.inl ⟨_, _, _, rfl⟩
  | const o v => exact Or.inr ⟨_, _, _, _, rfl⟩
  | struct n bp kids => exact Or.inl ⟨_, _, _, rfl⟩

theorem lookup_isSome_of_lookupV {name : String} {values : List (String × PVal)} {pv : PVal}
    (h : lookupV name values = some pv) : (lookup name values).isNone = false := by
  unfold lookupV at h
  cases hl : lookup name values with
  | none => rw [hl] at h; cases h
  | some x => rfl

/-- one step of the first encoding loop for a VALUE parameter whose value is supplied -/
theorem encodeParams_cons_value (eop : Bool) (values : List (String × PVal)) (f : Nat) (name : String)
    (bp bitp : Option Nat) (dop : Dop) (dflt : Option PVal) (rest : List Param) (s : EncState) (pv : PVal)
    (hl : lookupV name values = some pv) :
    encodeParams eop values (f + 1) (.mk name bp bitp (.value dop dflt) :: rest) s true =
      (match encodeParam f (.mk name bp bitp (.value dop dflt)) (some pv)
          (if rest.isEmpty then { s with isEndOfPdu := eop } else s) true with
       | .ok (_, s1) => encodeParams eop values f rest s1 true
       | .error e => .error e) := by
  have hsome := lookup_isSome_of_lookupV hl
  simp only [encodeParams, bind, hl, hsome, Bool.and_false, Bool.false_eq_true, if_false]
  by_cases hre : rest.isEmpty = true
  · simp only [hre, if_true, run_bind, run_modifyS]
    generalize encodeParam f _ _ _ true = r
    cases r with
    | error e => rfl
    | ok p => cases p; rfl
  · have hre' : rest.isEmpty = false := by simpa using hre
    simp only [hre', Bool.false_eq_true, if_false, run_bind]
    generalize encodeParam f _ _ _ true = r
    cases r with
    | error e => rfl
    | ok p => cases p; rfl

/-- one step of the first encoding loop for a CODED-CONST parameter (never "required") -/
theorem encodeParams_cons_const (eop : Bool) (values : List (String × PVal)) (f : Nat) (name : String)
    (bp bitp : Option Nat) (dct : Dct) (v : IVal) (rest : List Param) (s : EncState) :
    encodeParams eop values (f + 1) (.mk name bp bitp (.codedConst dct v) :: rest) s true =
      (match encodeParam f (.mk name bp bitp (.codedConst dct v)) (lookupV name values)
          (if rest.isEmpty then { s with isEndOfPdu := eop } else s) true with
       | .ok (_, s1) => encodeParams eop values f rest s1 true
       | .error e => .error e) := by
  simp only [encodeParams, bind, Bool.false_and, Bool.false_eq_true, if_false]
  by_cases hre : rest.isEmpty = true
  · simp only [hre, if_true, run_bind, run_modifyS, pure, run_pure]
    generalize encodeParam f _ _ _ true = r
    cases r with
    | error e => rfl
    | ok p => cases p; rfl
  · have hre' : rest.isEmpty = false := by simpa using hre
    simp only [hre', Bool.false_eq_true, if_false, run_bind, pure, run_pure]
    generalize encodeParam f _ _ _ true = r
    cases r with
    | error e => rfl
    | ok p => cases p; rfl

mutual
/-- the model's `encodeParam` on a tier-2 parameter = the pure encoder, up to `is_end_of_pdu`/`cursor_bit` -/
theorem Tree.encode_eq : (t : Tree) → t.okAll → t.namesOk → ∀ (fuel : Nat), t.need ≤ fuel → ∀ (s : EncState),
    ∃ s', encodeParam fuel t.toParam (some t.pair.val) s true = .ok ((), s') ∧ SameCore s' (t.pair.enc s)
  | .int o v, hok, _, fuel, hf, s => by
    simp only [Tree.okAll] at hok
    simp only [Tree.need] at hf
    obtain ⟨f, rfl⟩ : ∃ f, fuel = f + 2 := ⟨fuel - 2, by omega⟩
    refine ⟨encStep o v s, ?_, SameCore.refl _⟩
    simp only [Tree.toParam, Tree.pair, Pair.map, Pair.ofObj]
    exact encodeParam_obj o hok.1 v hok.2 f s
  | .const o v, hok, _, fuel, hf, s => by
    simp only [Tree.okAll] at hok
    simp only [Tree.need] at hf
    obtain ⟨f, rfl⟩ : ∃ f, fuel = f + 1 := ⟨fuel - 1, by omega⟩
    refine ⟨encStep o v s, ?_, SameCore.refl _⟩
    simp only [Tree.toParam, Tree.pair, Pair.map, Pair.ofObj]
    exact encodeParam_const_obj o hok.1 v hok.2 _ (Or.inr rfl) f s
  | .struct n bp kids, hok, hn, fuel, hf, s => by
    simp only [Tree.okAll] at hok
    simp only [Tree.namesOk] at hn
    simp only [Tree.need] at hf
    obtain ⟨f, rfl⟩ : ∃ f, fuel = f + 1 + 1 + 1 := ⟨fuel - 3, by omega⟩
    have hf' : Trees.need kids ≤ f := by omega
    -- the state the content is encoded from
    let sIn : EncState := { s with cursorByte := posOf bp s.origin s.cursorByte, cursorBit := 0,
                                   origin := posOf bp s.origin s.cursorByte, isEndOfPdu := false }
    obtain ⟨sp, hrun, hcore⟩ := Trees.encode_eq kids hok hn (Trees.pair kids).val
      (fun t ht => lookupV_pair_val kids hn t ht) f hf' s.isEndOfPdu sIn
    obtain ⟨e, rfl⟩ : ∃ e, f = kids.length + 1 + e := ⟨f - (kids.length + 1), by have := Trees.need_ge kids; omega⟩
    have hkeys := encodeKeyValues_trees kids e { sp with isEndOfPdu := false } true
    have hg := Trees.good kids hok
    refine ⟨{ sp with isEndOfPdu := false, origin := s.origin, cursorBit := 0 }, ?_, ?_⟩
    · have hval : (Pair.atPos bp (Trees.pair kids).inOrigin).val = (Trees.pair kids).val := rfl
      have hrun' : encodeParams s.isEndOfPdu (Trees.pair kids).val (kids.length + 1 + e) (Trees.toParams kids)
          { s with cursorByte := posOf bp s.origin s.cursorByte, cursorBit := 0,
                   origin := posOf bp s.origin s.cursorByte, isEndOfPdu := false } true = .ok ((), sp) := hrun
      cases bp <;>
      · simp only [posOf] at hrun'
        simp only [Tree.toParam, Tree.pair, Pair.map, encodeParam, encodeDop, encodeComposite, bind, pure, run_bind,
          run_getS, run_modifyS, run_pure, run_ite, hval, known_pair_val, Bool.false_eq_true, if_false, ne_eq,
          not_true_eq_false, Option.getD_none]
        rw [hrun']
        simp only []
        rw [hkeys]
    · -- SameCore with the pure encoder (content relative to the structure's own first byte, origin restored)
      have hin : SameCore sIn { s with cursorByte := posOf bp s.origin s.cursorByte,
                                       origin := posOf bp s.origin s.cursorByte } := ⟨rfl, rfl, rfl, rfl, rfl⟩
      have h2 := hcore.trans (hg.core _ _ hin)
      exact ⟨h2.1, h2.2.1, h2.2.2.1, h2.2.2.2.1, rfl⟩
theorem Trees.encode_eq : (ts : List Tree) → Trees.okAll ts → Trees.namesOk ts → ∀ (values : List (String × PVal)),
    (∀ t ∈ ts, lookupV t.name values = some t.pair.val) → ∀ (fuel : Nat), Trees.need ts ≤ fuel → ∀ (eop : Bool) (s : EncState),
    ∃ s', encodeParams eop values fuel (Trees.toParams ts) s true = .ok ((), s') ∧ SameCore s' ((Trees.pair ts).enc s)
  | [], _, _, values, _, fuel, hf, eop, s => by
    simp only [Trees.need] at hf
    obtain ⟨f, rfl⟩ : ∃ f, fuel = f + 1 := ⟨fuel - 1, by omega⟩
    exact ⟨s, by simp [Trees.toParams, encodeParams, pure, run_pure], SameCore.refl _⟩
  | t :: ts, hok, hn, values, hlook, fuel, hf, eop, s => by
    simp only [Trees.okAll] at hok
    simp only [Trees.namesOk] at hn
    simp only [Trees.need] at hf
    obtain ⟨f, rfl⟩ : ∃ f, fuel = f + 1 := ⟨fuel - 1, by omega⟩
    have hl := hlook t (List.mem_cons_self ..)
    let sm : EncState := if ts.isEmpty then { s with isEndOfPdu := eop } else s
    have hsm : SameCore sm s := by
      show SameCore (if ts.isEmpty then { s with isEndOfPdu := eop } else s) s
      split
      · exact ⟨rfl, rfl, rfl, rfl, rfl⟩
      · exact SameCore.refl s
    obtain ⟨s1, hstep, hc1⟩ := Tree.encode_eq t hok.1 hn.1 f (by omega) sm
    obtain ⟨s2, hrest, hc2⟩ := Trees.encode_eq ts hok.2 hn.2.2 values
      (fun u hu => hlook u (List.mem_cons_of_mem _ hu)) f (by omega) eop s1
    have hgt := Tree.good t hok.1
    have hgts := Trees.good ts hok.2
    refine ⟨s2, ?_, ?_⟩
    · have hemp : (Trees.toParams ts).isEmpty = ts.isEmpty := by cases ts <;> rfl
      have hstep' : encodeParam f t.toParam (some t.pair.val) (if ts.isEmpty then { s with isEndOfPdu := eop } else s) true
          = .ok ((), s1) := hstep
      simp only [Trees.toParams]
      rcases Tree.toParam_kind t with ⟨bp, bitp, dop, htp⟩ | ⟨bp, bitp, dct, v, htp⟩
      · rw [htp, encodeParams_cons_value eop values f t.name bp bitp dop none _ s _ hl, ← htp, hemp, hstep']
        exact hrest
      · rw [htp, encodeParams_cons_const eop values f t.name bp bitp dct v _ s, ← htp, hemp, hl, hstep']
        exact hrest
    · -- the pure encoder of the list is the composition
      simp only [Trees.pair, Pair.map, Pair.seq]
      exact hc2.trans (hgts.core _ _ (hc1.trans (hgt.core _ _ hsm)))
end


mutual
theorem Tree.dec_cursorBit : (t : Tree) → ∀ (d : DecState), d.cursorBit = 0 → (t.pair.dec d).2.cursorBit = 0
  | .int o v, d, _ => rfl
  | .const o v, d, _ => rfl
  | .struct n bp kids, d, h => by
    simp only [Tree.pair, Pair.map, Pair.atPos, Pair.inOrigin]
    exact Trees.dec_cursorBit kids _ h
theorem Trees.dec_cursorBit : (ts : List Tree) → ∀ (d : DecState), d.cursorBit = 0 → ((Trees.pair ts).dec d).2.cursorBit = 0
  | [], d, h => h
  | t :: ts, d, h => by
    simp only [Trees.pair, Pair.map, Pair.seq]
    exact Trees.dec_cursorBit ts _ (Tree.dec_cursorBit t d h)
end

mutual
/-- the model's `decodeParam` on a tier-2 parameter = the pure decoder -/
theorem Tree.decode_eq : (t : Tree) → t.okAll → ∀ (fuel : Nat), t.need ≤ fuel → ∀ (d : DecState), d.cursorBit = 0 →
    t.pair.fits d → decodeParam fuel t.toParam d true = .ok ((t.pair.dec d).1, (t.pair.dec d).2)
  | .int o v, hok, fuel, hf, d, _, hfit => by
    simp only [Tree.okAll] at hok
    simp only [Tree.need] at hf
    obtain ⟨f, rfl⟩ : ∃ f, fuel = f + 2 := ⟨fuel - 2, by omega⟩
    simp only [Tree.toParam, Tree.pair, Pair.map, Pair.ofObj]
    exact decodeParam_obj o hok.1 f d hfit.1 hfit.2
  | .const o v, hok, fuel, hf, d, _, hfit => by
    simp only [Tree.okAll] at hok
    simp only [Tree.need] at hf
    obtain ⟨f, rfl⟩ : ∃ f, fuel = f + 1 := ⟨fuel - 1, by omega⟩
    simp only [Tree.toParam, Tree.pair, Pair.map, Pair.ofObj]
    exact decodeParam_const_obj o hok.1 v f d hfit.1 hfit.2
  | .struct n bp kids, hok, fuel, hf, d, hcb, hfit => by
    simp only [Tree.okAll] at hok
    simp only [Tree.need] at hf
    obtain ⟨f, rfl⟩ : ∃ f, fuel = f + 1 + 1 + 1 := ⟨fuel - 3, by omega⟩
    have hf' : Trees.need kids ≤ f := by omega
    have hfit' : (Trees.pair kids).fits { d with cursorByte := posOf bp d.origin d.cursorByte,
                                                  origin := posOf bp d.origin d.cursorByte } := hfit
    have hrun := Trees.decode_eq kids hok f hf' { d with cursorByte := posOf bp d.origin d.cursorByte,
                                                         origin := posOf bp d.origin d.cursorByte } hcb hfit'
    have hcb' := Trees.dec_cursorBit kids { d with cursorByte := posOf bp d.origin d.cursorByte,
                                                   origin := posOf bp d.origin d.cursorByte } hcb
    cases bp <;>
    · simp only [posOf] at hrun hcb'
      simp only [Tree.toParam, Tree.pair, Pair.map, Pair.atPos, Pair.inOrigin, posOf, decodeParam, decodeDop, decodeComposite,
        bind, pure, run_bind, run_getS, run_modifyS, run_pure, Option.getD_none]
      simp only [hcb] at hrun hcb' ⊢
      rw [hrun]
      simp only [hcb']
theorem Trees.decode_eq : (ts : List Tree) → Trees.okAll ts → ∀ (fuel : Nat), Trees.need ts ≤ fuel → ∀ (d : DecState),
    d.cursorBit = 0 → (Trees.pair ts).fits d →
    decodeParams fuel (Trees.toParams ts) d true = .ok (((Trees.pair ts).dec d).1, ((Trees.pair ts).dec d).2)
  | [], _, fuel, hf, d, _, _ => by
    simp only [Trees.need] at hf
    obtain ⟨f, rfl⟩ : ∃ f, fuel = f + 1 := ⟨fuel - 1, by omega⟩
    simp [Trees.toParams, decodeParams, pure, run_pure, Trees.pair, Pair.nil]
  | t :: ts, hok, fuel, hf, d, hcb, hfit => by
    simp only [Trees.okAll] at hok
    simp only [Trees.need] at hf
    obtain ⟨f, rfl⟩ : ∃ f, fuel = f + 1 := ⟨fuel - 1, by omega⟩
    have hfit' : t.pair.fits d ∧ (Trees.pair ts).fits (t.pair.dec d).2 := hfit
    have h1 := Tree.decode_eq t hok.1 f (by omega) d hcb hfit'.1
    have h2 := Trees.decode_eq ts hok.2 f (by omega) (t.pair.dec d).2 (Tree.dec_cursorBit t d hcb) hfit'.2
    simp only [Trees.toParams, decodeParams, bind, run_bind, h1, h2, pure, run_pure, Tree.toParam_name]
    rfl
end


/-- `Request.encode` on a tier-2 description = the pure encoder from the empty message -/
theorem encodeMessage_tree (ts : List Tree) (hneed : Trees.need ts + 2 ≤ modelFuel) (hok : Trees.okAll ts)
    (hn : Trees.namesOk ts) (trig : Option Bytes) :
    ∃ s0 : EncState, s0.msg = [] ∧ s0.used = [] ∧ s0.warn = 0 ∧ s0.cursorByte = 0 ∧ s0.origin = 0 ∧
      encodeMessage none (Trees.toParams ts) (.dict (Trees.pair ts).val) trig true =
        .ok (((Trees.pair ts).enc s0).msg, ((Trees.pair ts).enc s0).warn) := by
  let s0 : EncState := { trig := trig, isEndOfPdu := false }
  refine ⟨s0, rfl, rfl, rfl, rfl, rfl, ?_⟩
  obtain ⟨f, hf⟩ : ∃ f, modelFuel = f + 1 + 1 := ⟨modelFuel - 2, by unfold modelFuel; omega⟩
  have hf' : Trees.need ts ≤ f := by omega
  obtain ⟨sp, hrun, hcore⟩ := Trees.encode_eq ts hok hn (Trees.pair ts).val
    (fun t ht => lookupV_pair_val ts hn t ht) f hf' true s0
  obtain ⟨e, rfl⟩ : ∃ e, f = ts.length + 1 + e := ⟨f - (ts.length + 1), by have := Trees.need_ge ts; omega⟩
  have hkeys := encodeKeyValues_trees ts e { sp with isEndOfPdu := false } true
  have hrun' : encodeParams true (Trees.pair ts).val (ts.length + 1 + e) (Trees.toParams ts)
      { trig := trig, isEndOfPdu := false } true = .ok ((), sp) := hrun
  unfold encodeMessage
  rw [hf]
  simp only [encodeDop, encodeComposite, bind, pure, run_bind, run_getS, run_modifyS, run_pure, run_ite, known_pair_val,
    Bool.false_eq_true, if_false, ne_eq, not_true_eq_false]
  rw [hrun']
  simp only []
  rw [hkeys]
  simp only [hcore.1, hcore.2.2.1]

/-- `Request.decode` on a tier-2 description = the pure decoder from cursor 0 -/
theorem decodeMessage_tree (ts : List Tree) (hneed : Trees.need ts + 2 ≤ modelFuel) (hok : Trees.okAll ts) (msg : Bytes)
    (hfit : (Trees.pair ts).fits { msg := msg }) :
    decodeMessage none (Trees.toParams ts) msg true =
      .ok (.dict ((Trees.pair ts).dec { msg := msg }).1, ((Trees.pair ts).dec { msg := msg }).2.cursorByte) := by
  obtain ⟨f, hf⟩ : ∃ f, modelFuel = f + 1 + 1 := ⟨modelFuel - 2, by unfold modelFuel; omega⟩
  have hf' : Trees.need ts ≤ f := by omega
  have hdec := Trees.decode_eq ts hok f hf' { msg := msg } rfl hfit
  have hdec' : decodeParams f (Trees.toParams ts) { msg := msg, origin := 0, cursorByte := 0 } true = _ := hdec
  unfold decodeMessage
  rw [hf]
  simp only [decodeDop, decodeComposite, bind, pure, run_bind, run_getS, run_modifyS, run_pure]
  rw [hdec']

/-- **C01, nested-structure tier, at the API level of the model**: requests/responses/structures built from
    `A_INT32` VALUE parameters and arbitrarily nested STRUCTURE parameters (each explicitly or implicitly
    positioned relative to its enclosing structure). If `encode` reports no overlap, `decode` of the PDU
    returns the encoded value tree. -/
theorem tree_roundtrip_msg (ts : List Tree) (hneed : Trees.need ts + 2 ≤ modelFuel) (hok : Trees.okAll ts)
    (hn : Trees.namesOk ts) (trig : Option Bytes) (pdu : Bytes)
    (henc : encodeMessage none (Trees.toParams ts) (.dict (Trees.pair ts).val) trig true = .ok (pdu, 0)) :
    ∃ cursor, decodeMessage none (Trees.toParams ts) pdu true = .ok (.dict (Trees.pair ts).val, cursor) := by
  obtain ⟨s0, hm, _, hw, hc, ho, hrun⟩ := encodeMessage_tree ts hneed hok hn trig
  rw [hrun] at henc
  simp only [Except.ok.injEq, Prod.mk.injEq] at henc
  obtain ⟨hpdu, hwarn⟩ := henc
  have hg := Trees.good ts hok
  have hall : AllBytes s0.msg := by rw [hm]; intro b hb; cases hb
  obtain ⟨hv, _, _, _, hfit⟩ := hg.rt s0 { msg := pdu } hall (by rw [hwarn, hw]) (by simp [ho]) (by simp [hc])
    (by rw [← hpdu]; exact hg.allBytes s0 hall) (by rw [hpdu]; exact Nat.le_refl _) (by intro a _; rw [hpdu])
  refine ⟨((Trees.pair ts).dec { msg := pdu }).2.cursorByte, ?_⟩
  rw [decodeMessage_tree ts hneed hok pdu hfit, hv]

end OdxVerif.Codec
