import OdxVerif.Proofs.CompCompuLeaf
/-! Compositional components, extension W21: the three compu leaf kinds — LINEAR (integer physical type), TEXTTABLE and
    DTC-DOP (IDENTICAL compu method) — discharge the conversion hypothesis `ConvOk` of `CompCompuLeaf.lean` from *decidable*
    hypotheses stated in the exact-rational compu model of property C07 (`Method.validP / p2i / validI / i2p`), and hence
    are components (`LinLeaf.comp_ok`, `TTLeaf.comp_ok`, `DtcLeaf.comp_ok`). -/
namespace OdxVerif.Codec
open OdxVerif.Bits OdxVerif.OdxM OdxVerif.Compu

/-! ### LINEAR -/

/-- a LINEAR leaf: object of the internal value, physical type, description, its segment, physical value `z`, internal `i` -/
structure LinLeaf where
  o : Obj
  phys : BaseType
  d : LinDesc
  s : LinSeg
  z : Int
  i : Int

def LinLeaf.dop (l : LinLeaf) : Dop := .simple l.o.dct l.phys (.linear l.d)

/-- decidable: the object can hold `i`; the method object is `s`; `z` is a valid physical value whose internal image is the
    valid internal value `i`, whose physical image is `z` again; both inside the exactness guard of `Model/CodecCompu.lean` -/
def LinLeaf.ok (l : LinLeaf) : Prop :=
  l.o.ok ∧ l.o.inRange (.int l.i) ∧ linMethod? l.d l.o.bt l.phys = some (.linear l.s) ∧ l.s.denom ≠ 0 ∧
  (Method.linear l.s).validP (.int l.z) = .ok true ∧ exactP l.s l.z = true ∧
  (Method.linear l.s).p2i (.int l.z) = .ok (.int l.i) ∧ (Method.linear l.s).validI (.int l.i) = .ok true ∧
  exactI l.s l.i = true ∧ (Method.linear l.s).i2p (.int l.i) = .ok (.int l.z)

theorem LinLeaf.convOk (l : LinLeaf) (h : l.ok) : ConvOk l.dop l.o.dct (.atom (.int l.z)) (.atom (.int l.z)) (.int l.i) where
  enc := by
    obtain ⟨_, _, hm, _, hvp, hexP, hp2i, hvi, _, _⟩ := h
    intro f es
    unfold LinLeaf.dop encodeDop
    simp only [CCompu.method?, Obj.dct_baseType, hm, bind, run_bind, dopP2I_linear_int l.s l.z l.i hvp hexP hp2i hvi]
  dec := by
    obtain ⟨_, _, hm, hd, _, _, _, hvi, hexI, hi2p⟩ := h
    intro f ds ds' hdec
    unfold LinLeaf.dop decodeDop
    simp only [CCompu.method?, Obj.dct_baseType, hm, bind, run_bind, hdec, dopI2P_linear_int l.s l.i l.z hd hvi hexI hi2p, pure,
      run_pure]
  sup_ne_none := by simp

/-- the VALUE parameter -/
def LinLeaf.comp (l : LinLeaf) : Comp := Comp.ofConvLeaf l.o l.dop (.atom (.int l.z)) (.atom (.int l.z)) (.int l.i)
/-- the PHYS-CONST parameter with constant `z` -/
def LinLeaf.constComp (l : LinLeaf) (supplied : Bool) : Comp :=
  Comp.ofConvPhysConst l.o l.dop (.atom (.int l.z)) (.atom (.int l.z)) (.int l.i) supplied

theorem LinLeaf.comp_ok (l : LinLeaf) (h : l.ok) : l.comp.Ok := Comp.ofConvLeaf_ok _ _ _ _ _ h.1 h.2.1 (l.convOk h)
theorem LinLeaf.comp_endOk (l : LinLeaf) : l.comp.EndOk := Comp.ofConvLeaf_endOk _ _ _ _ _
theorem LinLeaf.constComp_ok (l : LinLeaf) (h : l.ok) (b : Bool) : (l.constComp b).Ok :=
  Comp.ofConvPhysConst_ok _ _ _ _ _ b h.1 h.2.1 (l.convOk h) (pvalEq_atom_self _) (pvalEq_atom_self _)
theorem LinLeaf.constComp_endOk (l : LinLeaf) (b : Bool) : (l.constComp b).EndOk := Comp.ofConvPhysConst_endOk _ _ _ _ _ b

/-! ### TEXTTABLE -/

/-- strict `methodP2I` of a TEXTTABLE answers what the C07 model answers (converse of `methodP2I_strict`) -/
theorem methodP2I_textTable_of_p2i {σ : Type} (ity pty : DType) (scales : List Scale) (pdef idef : Option Val) (p r : Val) (st : σ)
    (h : (Method.textTable ity pty scales pdef idef).p2i p = .ok r) :
    (methodP2I (.textTable ity pty scales pdef idef) p : OdxM σ Val) st true = .ok (r, st) := by
  rw [methodP2I_textTable]
  rw [p2i_textTable] at h
  cases hh : textHits scales p with
  | nil =>
    simp only [hh] at h ⊢
    cases idef with
    | none => cases h
    | some d =>
      simp only [Except.ok.injEq] at h
      subst h
      simp [pure, run_pure]
  | cons sc rest =>
    cases rest with
    | nil =>
      simp only [hh] at h ⊢
      simp [h, pure, run_pure]
    | cons _ _ => simp [hh] at h

/-- strict `methodI2P` of a TEXTTABLE answers what the C07 model answers (converse of `methodI2P_strict`) -/
theorem methodI2P_textTable_of_i2p {σ : Type} (arith : Err) (ity pty : DType) (scales : List Scale) (pdef idef : Option Val)
    (i r : Val) (st : σ) (h : (Method.textTable ity pty scales pdef idef).i2p i = .ok r) :
    (methodI2P arith (.textTable ity pty scales pdef idef) i : OdxM σ (Option Val)) st true = .ok (some r, st) := by
  simp only [methodI2P]
  simp only [Method.i2p, bind, Except.bind] at h
  cases hf : filterR (fun sc : Scale => sc.applies i) scales with
  | error e => simp [hf] at h
  | ok app =>
    simp only [hf] at h ⊢
    match app, h with
    | [], h =>
      cases pdef with
      | none => simp [throw, throwThe, MonadExceptOf.throw] at h
      | some d =>
        simp [pure, Except.pure] at h
        subst h
        simp [pure, run_pure]
    | [sc], h =>
      cases hc : sc.const with
      | none => simp [hc, throw, throwThe, MonadExceptOf.throw] at h
      | some c =>
        simp [hc, pure, Except.pure] at h
        subst h
        simp [pure, run_pure, hc]
    | _ :: _ :: _, h => simp [throw, throwThe, MonadExceptOf.throw] at h

/-- a TEXTTABLE leaf: object of the internal value, physical (string) type, the scales as described, the method object built
    from them, the text (code points / string) and the internal value (codec value / compu-model value) -/
structure TTLeaf where
  o : Obj
  phys : BaseType
  scs : List TScale
  ity : DType
  pty : DType
  scales : List Scale
  pdef : Option Val
  idef : Option Val
  text : List Nat
  txt : String
  i : IVal
  iv : Val

def TTLeaf.method (l : TTLeaf) : Method := .textTable l.ity l.pty l.scales l.pdef l.idef
def TTLeaf.dop (l : TTLeaf) : Dop := .simple l.o.dct l.phys (.texttable l.scs)

/-- decidable: the object can hold `i`; the method object; the text is a valid physical value, its internal image (a
    COMPU-DEFAULT-VALUE's inverse, or the COMPU-INVERSE-VALUE / lower limit of the **one** scale with this text) is the valid
    internal value `i`, and the **one** scale `i` lies in carries this text (or none does and the default is this text) -/
def TTLeaf.ok (l : TTLeaf) : Prop :=
  l.o.ok ∧ l.o.inRange l.i ∧ ttMethod? l.scs l.o.bt l.phys = some l.method ∧
  strOfCps? l.text = some l.txt ∧ l.txt.toList.map Char.toNat = l.text ∧ toVal? l.i = some l.iv ∧ ofVal? l.iv false = some l.i ∧
  l.method.validP (.str l.txt) = .ok true ∧ l.method.p2i (.str l.txt) = .ok l.iv ∧ l.method.validI l.iv = .ok true ∧
  l.method.i2p l.iv = .ok (.str l.txt)

theorem TTLeaf.convOk (l : TTLeaf) (h : l.ok) : ConvOk l.dop l.o.dct (.atom (.str l.text)) (.atom (.str l.text)) l.i where
  enc := by
    obtain ⟨_, _, hm, hs, _, _, hof, hvp, hp2i, hvi, _⟩ := h
    intro f es
    have hconv : (dopP2I l.method (.str l.text) : EncM IVal) es true = .ok (l.i, es) := by
      have hmp := methodP2I_textTable_of_p2i l.ity l.pty l.scales l.pdef l.idef (.str l.txt) l.iv es hp2i
      unfold TTLeaf.method at hvp hvi
      simp only [dopP2I, toVal?, hs, Option.map_some, TTLeaf.method, hvp, bind, run_bind, hmp, hvi, pure, run_pure, hof]
    unfold TTLeaf.dop encodeDop
    simp only [CCompu.method?, Obj.dct_baseType, hm, bind, run_bind, hconv]
  dec := by
    obtain ⟨_, _, hm, _, hback, htv, _, _, _, hvi, hi2p⟩ := h
    intro f ds ds' hdec
    have hconv : (dopI2P l.method l.i : DecM (Option IVal)) ds' true = .ok (some (.str l.text), ds') := by
      have hmp := methodI2P_textTable_of_i2p .decode l.ity l.pty l.scales l.pdef l.idef l.iv (.str l.txt) ds' hi2p
      unfold TTLeaf.method at hvi
      simp only [dopI2P, htv, TTLeaf.method, hvi, bind, run_bind, hmp, ofVal?, hback, pure, run_pure]
    unfold TTLeaf.dop decodeDop
    simp only [CCompu.method?, Obj.dct_baseType, hm, bind, run_bind, hdec, hconv, pure, run_pure]
  sup_ne_none := by simp

def TTLeaf.comp (l : TTLeaf) : Comp := Comp.ofConvLeaf l.o l.dop (.atom (.str l.text)) (.atom (.str l.text)) l.i
def TTLeaf.constComp (l : TTLeaf) (supplied : Bool) : Comp :=
  Comp.ofConvPhysConst l.o l.dop (.atom (.str l.text)) (.atom (.str l.text)) l.i supplied

theorem TTLeaf.comp_ok (l : TTLeaf) (h : l.ok) : l.comp.Ok := Comp.ofConvLeaf_ok _ _ _ _ _ h.1 h.2.1 (l.convOk h)
theorem TTLeaf.comp_endOk (l : TTLeaf) : l.comp.EndOk := Comp.ofConvLeaf_endOk _ _ _ _ _
theorem TTLeaf.constComp_ok (l : TTLeaf) (h : l.ok) (b : Bool) : (l.constComp b).Ok :=
  Comp.ofConvPhysConst_ok _ _ _ _ _ b h.1 h.2.1 (l.convOk h) (pvalEq_atom_self _) (pvalEq_atom_self _)
theorem TTLeaf.constComp_endOk (l : TTLeaf) (b : Bool) : (l.constComp b).EndOk := Comp.ofConvPhysConst_endOk _ _ _ _ _ b

/-! ### DTC-DOP (IDENTICAL compu method) -/

/-- a DTC-DOP leaf: object of the coded trouble code, physical type, the DTCs `(trouble code, short name)`, the trouble code,
    the types of the IDENTICAL method -/
structure DtcLeaf where
  o : Obj
  phys : BaseType
  dtcs : List (Int × String)
  code : Int
  ity : DType
  pty : DType

def DtcLeaf.dop (l : DtcLeaf) : Dop := .dtc l.o.dct l.phys .identical l.dtcs

/-- decidable: the object can hold the code; the types exist; the code is **known, once** in the DTC list -/
def DtcLeaf.ok (l : DtcLeaf) : Prop :=
  l.o.ok ∧ l.o.inRange (.int l.code) ∧ dtype? l.o.bt = some l.ity ∧ dtype? l.phys = some l.pty ∧
  typeOk l.ity (.int l.code) = true ∧ (l.dtcs.filter fun d => d.1 == l.code).length = 1

/-- what `DtcDop.convert_to_numerical_trouble_code` accepts for the code: the DTC object, the number, or the short name of
    exactly one DTC that has this code -/
def DtcLeaf.supOk (l : DtcLeaf) : PVal → Prop
  | .dtc c => c = l.code
  | .atom (.int c) => c = l.code
  | .atom (.str cps) => ∃ d, (l.dtcs.filter fun d => d.2.toList.map Char.toNat == cps) = [d] ∧ d.1 = l.code
  | _ => False

theorem DtcLeaf.known (l : DtcLeaf) (h : l.ok) : (l.dtcs.any fun d => d.1 == l.code) = true := by
  have h1 := h.2.2.2.2.2
  cases hf : l.dtcs.filter fun d => d.1 == l.code with
  | nil => rw [hf] at h1; cases h1
  | cons d ds =>
    have hmem : d ∈ l.dtcs.filter fun d => d.1 == l.code := by rw [hf]; exact List.mem_cons_self ..
    rw [List.mem_filter] at hmem
    exact List.any_eq_true.mpr ⟨d, hmem.1, hmem.2⟩

theorem DtcLeaf.convOk (l : DtcLeaf) (h : l.ok) (sup : PVal) (hs : l.supOk sup) :
    ConvOk l.dop l.o.dct sup (.dtc l.code) (.int l.code) where
  enc := by
    have hk := l.known h
    obtain ⟨_, _, hi, hp, _, _⟩ := h
    intro f es
    have hm : CCompu.identical.method? l.o.dct.baseType l.phys = some (.identical l.ity l.pty) := by
      simp [CCompu.method?, Obj.dct_baseType, hi, hp]
    unfold DtcLeaf.dop encodeDop
    match sup, hs with
    | .dtc c, hs =>
      have hs' : c = l.code := hs
      subst hs'
      simp [hm, methodP2I, bind, run_bind, pure, run_pure, hk]
    | .atom (.int c), hs =>
      have hs' : c = l.code := hs
      subst hs'
      simp [hm, methodP2I, bind, run_bind, pure, run_pure, hk]
    | .atom (.str cps), hs =>
      obtain ⟨d, hd, hc⟩ := hs
      simp [hm, methodP2I, bind, run_bind, pure, run_pure, hk, hd, hc]
  dec := by
    obtain ⟨_, _, hi, hp, hty, hone⟩ := h
    intro f ds ds' hdec
    have hm : CCompu.identical.method? l.o.dct.baseType l.phys = some (.identical l.ity l.pty) := by
      simp [CCompu.method?, Obj.dct_baseType, hi, hp]
    unfold DtcLeaf.dop decodeDop
    simp [hm, hdec, toVal?, Method.validI, hty, methodI2P, bind, run_bind, pure, run_pure, hone, odxassert]
  sup_ne_none := by
    intro e
    subst e
    exact hs

/-- the VALUE parameter; `sup` = what is supplied for it, the decoder returns the DTC object -/
def DtcLeaf.comp (l : DtcLeaf) (sup : PVal) : Comp := Comp.ofConvLeaf l.o l.dop sup (.dtc l.code) (.int l.code)

theorem DtcLeaf.comp_ok (l : DtcLeaf) (h : l.ok) (sup : PVal) (hs : l.supOk sup) : (l.comp sup).Ok :=
  Comp.ofConvLeaf_ok _ _ _ _ _ h.1 h.2.1 (l.convOk h sup hs)
theorem DtcLeaf.comp_endOk (l : DtcLeaf) (sup : PVal) : (l.comp sup).EndOk := Comp.ofConvLeaf_endOk _ _ _ _ _

/-- the PHYS-CONST parameter whose constant is the DTC object -/
def DtcLeaf.constComp (l : DtcLeaf) (supplied : Bool) : Comp :=
  Comp.ofConvPhysConst l.o l.dop (.dtc l.code) (.dtc l.code) (.int l.code) supplied

theorem DtcLeaf.constComp_ok (l : DtcLeaf) (h : l.ok) (b : Bool) : (l.constComp b).Ok :=
  Comp.ofConvPhysConst_ok _ _ _ _ _ b h.1 h.2.1 (l.convOk h (.dtc l.code) rfl) (by simp [pvalEq]) (by simp [pvalEq])
theorem DtcLeaf.constComp_endOk (l : DtcLeaf) (b : Bool) : (l.constComp b).EndOk := Comp.ofConvPhysConst_endOk _ _ _ _ _ b

/-! ### VALUE parameters with a PHYSICAL-DEFAULT-VALUE over the three kinds (`omitted`: the default is encoded — it must then be
    the leaf's value) -/

def LinLeaf.defaultComp (l : LinLeaf) (dv : Int) (omitted : Bool) : Comp :=
  Comp.ofConvDefault l.o l.dop (.atom (.int dv)) omitted (.atom (.int l.z)) (.atom (.int l.z)) (.int l.i)
theorem LinLeaf.defaultComp_ok (l : LinLeaf) (h : l.ok) (dv : Int) (om : Bool) (hom : om = true → l.z = dv) :
    (l.defaultComp dv om).Ok :=
  Comp.ofConvDefault_ok _ _ _ _ _ _ _ h.1 h.2.1 (l.convOk h) (fun e => by rw [hom e])
theorem LinLeaf.defaultComp_endOk (l : LinLeaf) (dv : Int) (om : Bool) : (l.defaultComp dv om).EndOk :=
  Comp.ofConvDefault_endOk _ _ _ _ _ _ _

def TTLeaf.defaultComp (l : TTLeaf) (dv : List Nat) (omitted : Bool) : Comp :=
  Comp.ofConvDefault l.o l.dop (.atom (.str dv)) omitted (.atom (.str l.text)) (.atom (.str l.text)) l.i
theorem TTLeaf.defaultComp_ok (l : TTLeaf) (h : l.ok) (dv : List Nat) (om : Bool) (hom : om = true → l.text = dv) :
    (l.defaultComp dv om).Ok :=
  Comp.ofConvDefault_ok _ _ _ _ _ _ _ h.1 h.2.1 (l.convOk h) (fun e => by rw [hom e])
theorem TTLeaf.defaultComp_endOk (l : TTLeaf) (dv : List Nat) (om : Bool) : (l.defaultComp dv om).EndOk :=
  Comp.ofConvDefault_endOk _ _ _ _ _ _ _

def DtcLeaf.defaultComp (l : DtcLeaf) (dv : PVal) (omitted : Bool) (sup : PVal) : Comp :=
  Comp.ofConvDefault l.o l.dop dv omitted sup (.dtc l.code) (.int l.code)
theorem DtcLeaf.defaultComp_ok (l : DtcLeaf) (h : l.ok) (dv : PVal) (om : Bool) (sup : PVal) (hs : l.supOk sup)
    (hom : om = true → sup = dv) : (l.defaultComp dv om sup).Ok :=
  Comp.ofConvDefault_ok _ _ _ _ _ _ _ h.1 h.2.1 (l.convOk h sup hs) hom
theorem DtcLeaf.defaultComp_endOk (l : DtcLeaf) (dv : PVal) (om : Bool) (sup : PVal) : (l.defaultComp dv om sup).EndOk :=
  Comp.ofConvDefault_endOk _ _ _ _ _ _ _

end OdxVerif.Codec
