import OdxVerif.Proofs.ComposeMsg
import OdxVerif.Proofs.MuxDefault
/-! Multiplexer tier: requests/responses whose top-level parameters are tier-2 parameters (`Tree`) or MULTIPLEXERs
    whose selected case carries a tier-2 structure. A multiplexer is "a structure with two members" — the switch
    key (an integer object at the key's byte/bit position) and the content (the structure of the selected case at the
    multiplexer's BYTE-POSITION) — plus the decoder's case look-up, which finds the selected case again because the
    key read back is the one that was written. -/
namespace OdxVerif.Codec
open OdxVerif.Bits OdxVerif.OdxM

/-- decoder precondition strengthened by a condition on the decoded value (which the round trip establishes) -/
def Pair.guard {α : Type} (c : Pair α) (g : α → Prop) : Pair α :=
  { c with fits := fun d => c.fits d ∧ g (c.dec d).1 }

theorem Good.guard {α : Type} {c : Pair α} (hc : Good c) (g : α → Prop) (hg : g c.val) : Good (c.guard g) where
  warn_mono := hc.warn_mono
  frame := hc.frame
  allBytes := hc.allBytes
  len_mono := hc.len_mono
  origin := hc.origin
  rt := by
    intro s d hall hw horig hcur hdall hlen hagree
    obtain ⟨v, c1, o1, g1, f1⟩ := hc.rt s d hall hw horig hcur hdall hlen hagree
    exact ⟨v, c1, o1, g1, f1, by show g (c.dec d).1; rw [v]; exact hg⟩
  core := hc.core

/-- a MULTIPLEXER-valued VALUE parameter with its selected case (a regular CASE or the DEFAULT-CASE) -/
structure MuxLeaf where
  name : String
  bytePos : Option Nat          -- BYTE-POSITION of the parameter
  muxBp : Nat                   -- BYTE-POSITION of the multiplexer (where the case structure starts)
  swBp : Nat                    -- BYTE-POSITION of the switch key
  key : Obj                     -- the switch key's object (its `name`/`bytePos` fields are ignored)
  cases : List MuxCaseD         -- all CASEs, in declaration order (those not selected are arbitrary)
  dflt : Option (String × Option Dop)
  caseName : String             -- short name of the selected case / of the DEFAULT-CASE
  lo : Int                      -- the switch key the encoder writes for it
  kids : List Tree              -- the structure of the selected case

def MuxLeaf.keyObj (m : MuxLeaf) : Obj := { m.key with name := "", bytePos := some m.swBp }

/-- the structure of the selected case as the model sees it -/
def MuxLeaf.sdop (m : MuxLeaf) : Dop := .struct none (Trees.toParams m.kids)

def MuxLeaf.dop (m : MuxLeaf) : Dop :=
  .mux m.muxBp m.swBp m.key.bitPos (.simple (.std m.keyObj.bt m.key.enc m.key.hl m.key.bl none false) m.keyObj.bt .identical)
    m.cases m.dflt

def MuxLeaf.toParam (m : MuxLeaf) : Param :=
  .mk m.name m.bytePos none (.value m.dop none)

/-- how the encoder gets from the case name to the switch key and the structure -/
def MuxLeaf.encSel (m : MuxLeaf) : Prop :=
  (∃ c, caseOfName m.caseName m.cases = some c ∧ c.lower = m.lo ∧ c.struct = some m.sdop) ∨
  (caseOfName m.caseName m.cases = none ∧ m.dflt = some (m.caseName, some m.sdop) ∧ m.lo = defaultCaseKey m.cases)

/-- how the decoder gets from the switch key back to the case -/
def MuxLeaf.decSel (m : MuxLeaf) : Prop :=
  (∃ c, caseOfKey m.lo m.cases = some c ∧ c.name = m.caseName ∧ c.struct = some m.sdop) ∨
  (caseOfKey m.lo m.cases = none ∧ m.dflt = some (m.caseName, some m.sdop))

/-- switch key object ok and able to hold the key; encoder and decoder select the same case -/
def MuxLeaf.ok (m : MuxLeaf) : Prop :=
  m.keyObj.ok ∧ m.keyObj.isInt ∧ m.keyObj.inRange (.int m.lo) ∧ m.encSel ∧ m.decSel ∧ Trees.okAll m.kids ∧ Trees.namesOk m.kids

/-- pure encoder/decoder: key, then the content at the multiplexer's byte position, all relative to the parameter's
    first byte -/
def MuxLeaf.pair (m : MuxLeaf) : Pair PVal :=
  (((((Pair.ofObj m.keyObj (.int m.lo)).guard (· = IVal.int m.lo)).seq
      ((Trees.pair m.kids).inOrigin.atPos (some m.muxBp))).map
        (fun p => PVal.pair m.caseName (PVal.dict p.2))).inOrigin).atPos m.bytePos

theorem MuxLeaf.good (m : MuxLeaf) (h : m.ok) : Good m.pair := by
  obtain ⟨hk, _, hr, _, _, hkids, _⟩ := h
  have h1 : Good ((Pair.ofObj m.keyObj (.int m.lo)).guard (· = IVal.int m.lo)) :=
    (Good.ofObj m.keyObj hk (.int m.lo) hr).guard _ rfl
  exact (((h1.seq (((Trees.good m.kids hkids).inOrigin).atPos (some m.muxBp))).map
    (fun p => PVal.pair m.caseName (PVal.dict p.2))).inOrigin).atPos m.bytePos

theorem caseOfName_append (n : String) (a : List MuxCaseD) (c : MuxCaseD) (b : List MuxCaseD) (h : caseOfName n a = none)
    (hc : c.name = n) : caseOfName n (a ++ c :: b) = some c := by
  induction a with
  | nil => simp [caseOfName, hc]
  | cons x xs ih =>
    simp only [caseOfName] at h
    split at h
    · cases h
    · rename_i hx
      simp only [List.cons_append, caseOfName, hx, if_false]
      exact ih h

theorem caseOfKey_append (k : Int) (a : List MuxCaseD) (c : MuxCaseD) (b : List MuxCaseD) (h : caseOfKey k a = none)
    (hc : c.lower ≤ k ∧ k ≤ c.upper) : caseOfKey k (a ++ c :: b) = some c := by
  induction a with
  | nil => simp [caseOfKey, hc]
  | cons x xs ih =>
    simp only [caseOfKey] at h
    split at h
    · cases h
    · rename_i hx
      simp only [List.cons_append, caseOfKey, hx, if_false]
      exact ih h

theorem MuxLeaf.pair_val (m : MuxLeaf) : m.pair.val = PVal.pair m.caseName (PVal.dict (Trees.pair m.kids).val) := rfl

/-- the structure of the selected case, as a tier-2 parameter at the multiplexer's BYTE-POSITION -/
def MuxLeaf.content (m : MuxLeaf) : Tree := .struct "" (some m.muxBp) m.kids

/-- one unfolding of `encodeParam` for a VALUE parameter whose value is supplied -/
theorem encodeParam_value_step (f : Nat) (name : String) (bp bitp : Option Nat) (dop : Dop) (dflt : Option PVal) (pv : PVal)
    (s : EncState) :
    encodeParam (f + 1) (.mk name bp bitp (.value dop dflt)) (some pv) s true =
      (match encodeDop f dop pv { s with cursorByte := posOf bp s.origin s.cursorByte, cursorBit := bitp.getD 0 } true with
       | .ok (_, s') => .ok ((), { s' with cursorBit := 0 })
       | .error e => .error e) := by
  cases bp <;>
  · simp only [encodeParam, posOf, bind, run_bind, run_modifyS]
    generalize encodeDop f dop pv _ true = r
    cases r with
    | error e => rfl
    | ok p => cases p; rfl

/-- one unfolding of the multiplexer encoder for a value `(case name, content)`: the name selects a regular case with
    a structure (switch key = its lower limit) or the DEFAULT-CASE with a structure (switch key = `defaultCaseKey`) -/
theorem encodeDop_mux_step (f : Nat) (bp sbp : Nat) (sbit : Option Nat) (sd : Dop) (cases : List MuxCaseD)
    (dflt : Option (String × Option Dop)) (name : String) (v : PVal) (s : EncState) (hcb : s.cursorBit = 0)
    (key : Int) (d : Dop)
    (hsel : (∃ c, caseOfName name cases = some c ∧ c.lower = key ∧ c.struct = some d) ∨
            (caseOfName name cases = none ∧ dflt = some (name, some d) ∧ key = defaultCaseKey cases)) :
    encodeDop (f + 1) (.mux bp sbp sbit sd cases dflt) (.pair name v) s true =
      (match encodeParam f (.mk "" (some sbp) sbit (.value sd none)) (some (.atom (.int key)))
          { s with origin := s.cursorByte } true with
       | .ok (_, s1) =>
         (match encodeParam f (.mk "" (some bp) none (.value d none)) (some v) s1 true with
          | .ok (_, s2) => .ok ((), { s2 with origin := s.origin })
          | .error e => .error e)
       | .error e => .error e) := by
  rcases hsel with ⟨c, hc, hlow, hst⟩ | ⟨hc, hd, hkey⟩
  · subst hlow
    simp only [encodeDop, bind, pure, run_bind, run_getS, run_modifyS, run_pure, run_ite, hcb, hc, hst, ne_eq,
      not_true_eq_false, if_false]
    generalize encodeParam f (.mk "" (some sbp) sbit (.value sd none)) _ _ true = r1
    cases r1 with
    | error e => rfl
    | ok p =>
      obtain ⟨u, s1⟩ := p
      simp only []
      generalize encodeParam f (.mk "" (some bp) none (.value d none)) _ _ true = r2
      cases r2 with
      | error e => rfl
      | ok q => cases q; rfl
  · subst hkey
    simp only [encodeDop, bind, pure, run_bind, run_getS, run_modifyS, run_pure, run_ite, hcb, hc, hd, ne_eq,
      not_true_eq_false, if_false, if_true]
    generalize encodeParam f (.mk "" (some sbp) sbit (.value sd none)) _ _ true = r1
    cases r1 with
    | error e => rfl
    | ok p =>
      obtain ⟨u, s1⟩ := p
      simp only []
      generalize encodeParam f (.mk "" (some bp) none (.value d none)) _ _ true = r2
      cases r2 with
      | error e => rfl
      | ok q => cases q; rfl

theorem MuxLeaf.encode_eq (m : MuxLeaf) (hok : m.ok) (fuel : Nat)
    (hf : Trees.need m.kids + 6 ≤ fuel) (s : EncState) :
    ∃ s', encodeParam fuel m.toParam (some m.pair.val) s true = .ok ((), s') ∧ SameCore s' (m.pair.enc s) := by
  obtain ⟨hk, hki, hr, hesel, hdsel, hkids, hnames⟩ := hok
  obtain ⟨f, rfl⟩ : ∃ f, fuel = f + 2 + 1 + 1 := ⟨fuel - 4, by omega⟩
  -- the state in which the multiplexer starts, and the one its members are laid out in
  let s1 : EncState := { s with cursorByte := posOf m.bytePos s.origin s.cursorByte, cursorBit := 0 }
  let s2 : EncState := { s1 with origin := s1.cursorByte }
  have hkey : encodeParam (f + 2) (.mk "" (some m.swBp) m.key.bitPos
      (.value (.simple (.std m.keyObj.bt m.key.enc m.key.hl m.key.bl none false) m.keyObj.bt .identical) none))
      (some (.atom (.int m.lo))) s2 true = .ok ((), encStep m.keyObj (.int m.lo) s2) :=
    encodeParam_obj m.keyObj hk (.int m.lo) hr f s2
  obtain ⟨s3, hrun3, hcore3⟩ := Tree.encode_eq m.content (by simpa [MuxLeaf.content, Tree.okAll] using hkids)
    (by simpa [MuxLeaf.content, Tree.namesOk] using hnames) (f + 2)
    (by simp only [MuxLeaf.content, Tree.need]; omega) (encStep m.keyObj (.int m.lo) s2)
  have hrun3' : encodeParam (f + 2) (.mk "" (some m.muxBp) none (.value m.sdop none))
      (some (.dict (Trees.pair m.kids).val)) (encStep m.keyObj (.int m.lo) s2) true = .ok ((), s3) := hrun3
  refine ⟨{ s3 with origin := s.origin, cursorBit := 0 }, ?_, ?_⟩
  · rw [MuxLeaf.pair_val]
    unfold MuxLeaf.toParam
    rw [encodeParam_value_step]
    simp only [Option.getD_none]
    unfold MuxLeaf.dop
    rw [encodeDop_mux_step (f + 2) _ _ _ _ _ _ _ _ _ rfl m.lo m.sdop hesel]
    rw [hkey]
    simp only []
    rw [hrun3']
  · have hcoreIn : SameCore s2 { s with cursorByte := posOf m.bytePos s.origin s.cursorByte,
                                        origin := posOf m.bytePos s.origin s.cursorByte } := ⟨rfl, rfl, rfl, rfl, rfl⟩
    have hgk : Good (Pair.ofObj m.keyObj (.int m.lo)) := Good.ofObj m.keyObj hk (.int m.lo) hr
    have hgc : Good m.content.pair := Tree.good m.content (by simpa [MuxLeaf.content, Tree.okAll] using hkids)
    have h2 := hcore3.trans (hgc.core _ _ (hgk.core _ _ hcoreIn))
    exact ⟨h2.1, h2.2.1, h2.2.2.1, h2.2.2.2.1, rfl⟩


/-- one unfolding of `decodeParam` for a VALUE parameter -/
theorem decodeParam_value_step (f : Nat) (name : String) (bp bitp : Option Nat) (dop : Dop) (dflt : Option PVal) (d : DecState) :
    decodeParam (f + 1) (.mk name bp bitp (.value dop dflt)) d true =
      (match decodeDop f dop { d with cursorByte := posOf bp d.origin d.cursorByte, cursorBit := bitp.getD 0 } true with
       | .ok (v, d') => .ok (v, { d' with cursorBit := 0 })
       | .error e => .error e) := by
  cases bp <;>
  · simp only [decodeParam, posOf, bind, pure, run_bind, run_modifyS, run_pure]
    generalize decodeDop f dop _ true = r
    cases r with
    | error e => rfl
    | ok p => cases p; rfl

/-- one unfolding of the multiplexer decoder when the switch key read is `key` and selects a case (regular or default)
    called `name` with structure `st` -/
theorem decodeDop_mux_step (f : Nat) (bp sbp : Nat) (sbit : Option Nat) (sd : Dop) (cases : List MuxCaseD)
    (dflt : Option (String × Option Dop)) (d : DecState) (key : Int) (d1 : DecState)
    (hkey : decodeParam f (.mk "" (some sbp) sbit (.value sd none)) { d with origin := d.cursorByte } true =
      .ok (.atom (.int key), d1))
    (name : String) (st : Dop)
    (hsel : (∃ c, caseOfKey key cases = some c ∧ c.name = name ∧ c.struct = some st) ∨
            (caseOfKey key cases = none ∧ dflt = some (name, some st))) :
    decodeDop (f + 1) (.mux bp sbp sbit sd cases dflt) d true =
      (match decodeParam f (.mk "" (some bp) none (.value st none)) { d1 with cursorByte := d.cursorByte + bp } true with
       | .ok (v, d2) => .ok (.pair name v, { d2 with origin := d.origin })
       | .error e => .error e) := by
  rcases hsel with ⟨c, hc, hn, hst⟩ | ⟨hc, hd⟩
  · subst hn
    simp only [decodeDop, bind, pure, run_bind, run_getS, run_modifyS, run_pure, hkey, hc, hst]
    generalize decodeParam f (.mk "" (some bp) none (.value st none)) _ true = r
    cases r with
    | error e => rfl
    | ok p => cases p; rfl
  · simp only [decodeDop, bind, pure, run_bind, run_getS, run_modifyS, run_pure, hkey, hc, hd]
    generalize decodeParam f (.mk "" (some bp) none (.value st none)) _ true = r
    cases r with
    | error e => rfl
    | ok p => cases p; rfl

/-- a parameter with an explicit BYTE-POSITION does not care where the cursor was -/
theorem decodeParam_explicit_cursor (f : Nat) (n : String) (b : Nat) (bit : Option Nat) (k : PKind) (d : DecState) (c : Nat) :
    decodeParam (f + 1) (.mk n (some b) bit k) { d with cursorByte := c } true =
      decodeParam (f + 1) (.mk n (some b) bit k) d true := by
  simp only [decodeParam, bind, run_bind, run_modifyS]

theorem MuxLeaf.decode_eq (m : MuxLeaf) (hok : m.ok) (fuel : Nat)
    (hf : Trees.need m.kids + 6 ≤ fuel) (d : DecState) (hcb : d.cursorBit = 0) (hfit : m.pair.fits d) :
    decodeParam fuel m.toParam d true = .ok ((m.pair.dec d).1, (m.pair.dec d).2) := by
  obtain ⟨hk, hki, hr, hesel, hdsel, hkids, hnames⟩ := hok
  obtain ⟨f, rfl⟩ : ∃ f, fuel = f + 2 + 1 + 1 := ⟨fuel - 4, by omega⟩
  let d1 : DecState := { d with cursorByte := posOf m.bytePos d.origin d.cursorByte, cursorBit := 0 }
  let d2 : DecState := { d1 with origin := d1.cursorByte }
  have hd2 : d2 = { d with cursorByte := posOf m.bytePos d.origin d.cursorByte, origin := posOf m.bytePos d.origin d.cursorByte } := by
    show ({ d with cursorByte := posOf m.bytePos d.origin d.cursorByte, cursorBit := 0,
                   origin := posOf m.bytePos d.origin d.cursorByte } : DecState) = _
    rw [← hcb]
  -- what `fits` says
  have hfit' : (m.keyObj.fitsIn d2 ∧ (decStep m.keyObj d2).1 = IVal.int m.lo) ∧
      m.content.pair.fits (decStep m.keyObj d2).2 := by
    rw [hd2]; exact hfit
  obtain ⟨⟨hkfit, hkval⟩, hcfit⟩ := hfit'
  have hkey : decodeParam (f + 2) (.mk "" (some m.swBp) m.key.bitPos
      (.value (.simple (.std m.keyObj.bt m.key.enc m.key.hl m.key.bl none false) m.keyObj.bt .identical) none)) d2 true =
      .ok (.atom (.int m.lo), (decStep m.keyObj d2).2) := by
    have := decodeParam_obj m.keyObj hk f d2 hkfit.1 hkfit.2
    rw [hkval] at this
    exact this
  have hcont := Tree.decode_eq m.content (by simpa [MuxLeaf.content, Tree.okAll] using hkids) (f + 2)
    (by simp only [MuxLeaf.content, Tree.need]; omega) (decStep m.keyObj d2).2 rfl hcfit
  have hcont' : decodeParam (f + 2) (.mk "" (some m.muxBp) none (.value m.sdop none))
      (decStep m.keyObj d2).2 true = .ok ((m.content.pair.dec (decStep m.keyObj d2).2).1, (m.content.pair.dec (decStep m.keyObj d2).2).2) := hcont
  unfold MuxLeaf.toParam
  rw [decodeParam_value_step]
  simp only [Option.getD_none]
  unfold MuxLeaf.dop
  rw [decodeDop_mux_step (f + 2) _ _ _ _ _ _ _ m.lo _ hkey m.caseName m.sdop hdsel]
  rw [decodeParam_explicit_cursor, hcont']
  have hcb3 : (m.content.pair.dec (decStep m.keyObj d2).2).2.cursorBit = 0 := Tree.dec_cursorBit m.content _ rfl
  simp only []
  rw [hd2] at hcb3 ⊢
  have hpure : m.pair.dec d =
      (PVal.pair m.caseName (m.content.pair.dec (decStep m.keyObj
          { d with cursorByte := posOf m.bytePos d.origin d.cursorByte, origin := posOf m.bytePos d.origin d.cursorByte }).2).1,
       { (m.content.pair.dec (decStep m.keyObj
          { d with cursorByte := posOf m.bytePos d.origin d.cursorByte, origin := posOf m.bytePos d.origin d.cursorByte }).2).2
         with origin := d.origin }) := rfl
  rw [hpure]
  simp only [Except.ok.injEq, Prod.mk.injEq, true_and]
  rw [← hcb3]

/-! ### the two ways of selecting a case -/

/-- a regular CASE `caseName` with limits `lo..up`, declared between the cases `before` and `after`, selected by name -/
theorem MuxLeaf.sel_of_case (m : MuxLeaf) (before after : List MuxCaseD) (up : Int)
    (hcases : m.cases = before ++ .mk m.caseName m.lo up (some m.sdop) :: after) (hlu : m.lo ≤ up)
    (hbk : caseOfKey m.lo before = none) (hbn : caseOfName m.caseName before = none) : m.encSel ∧ m.decSel := by
  constructor
  · left
    exact ⟨_, by rw [hcases]; exact caseOfName_append _ _ _ _ hbn rfl, rfl, rfl⟩
  · left
    exact ⟨_, by rw [hcases]; exact caseOfKey_append _ _ _ _ hbk ⟨Int.le_refl _, hlu⟩, rfl, rfl⟩

/-- the DEFAULT-CASE, selected by its name: whatever the cases are (any order, overlapping or not), the switch key the
    encoder computes is claimed by none of them, so the decoder falls through to the DEFAULT-CASE -/
theorem MuxLeaf.sel_of_default (m : MuxLeaf) (hd : m.dflt = some (m.caseName, some m.sdop))
    (hname : caseOfName m.caseName m.cases = none) (hkey : m.lo = defaultCaseKey m.cases) : m.encSel ∧ m.decSel := by
  constructor
  · right; exact ⟨hname, hd, hkey⟩
  · right; exact ⟨by rw [hkey]; exact caseOfKey_default m.cases, hd⟩

/-! ### requests / responses made of tier-2 parameters and multiplexers -/

inductive Item where
  | tree (t : Tree)
  | mux (m : MuxLeaf)

def Item.name : Item → String
  | .tree t => t.name
  | .mux m => m.name
def Item.toParam : Item → Param
  | .tree t => t.toParam
  | .mux m => m.toParam
def Item.pair : Item → Pair PVal
  | .tree t => t.pair
  | .mux m => m.pair
def Item.ok : Item → Prop
  | .tree t => t.okAll ∧ t.namesOk
  | .mux m => m.ok
def Item.need : Item → Nat
  | .tree t => t.need
  | .mux m => Trees.need m.kids + 6

theorem Item.good (i : Item) (h : i.ok) : Good i.pair := by
  cases i with
  | tree t => exact Tree.good t h.1
  | mux m => exact MuxLeaf.good m h

theorem Item.toParam_name (i : Item) : i.toParam.name = i.name := by
  cases i with
  | tree t => exact Tree.toParam_name t
  | mux m => rfl

theorem Item.val_ne_none (i : Item) : i.pair.val ≠ PVal.none := by
  cases i with
  | tree t => exact Tree.val_ne_none t
  | mux m => simp [Item.pair, MuxLeaf.pair_val]

theorem Item.toParam_kind (i : Item) :
    (∃ bp bitp dop, i.toParam = .mk i.name bp bitp (.value dop none)) ∨
    (∃ bp bitp dct v, i.toParam = .mk i.name bp bitp (.codedConst dct v)) := by
  cases i with
  | tree t => exact Tree.toParam_kind t
  | mux m => exact Or.inl ⟨_, _, _, rfl⟩

theorem Item.encode_eq (i : Item) (h : i.ok) (fuel : Nat) (hf : i.need ≤ fuel) (s : EncState) :
    ∃ s', encodeParam fuel i.toParam (some i.pair.val) s true = .ok ((), s') ∧ SameCore s' (i.pair.enc s) := by
  cases i with
  | tree t => exact Tree.encode_eq t h.1 h.2 fuel hf s
  | mux m => exact MuxLeaf.encode_eq m h fuel hf s

theorem MuxLeaf.dec_cursorBit (m : MuxLeaf) (d : DecState) (h : d.cursorBit = 0) : (m.pair.dec d).2.cursorBit = 0 := by
  show ((m.content.pair.dec (decStep m.keyObj
    { d with cursorByte := posOf m.bytePos d.origin d.cursorByte, origin := posOf m.bytePos d.origin d.cursorByte }).2).2).cursorBit = 0
  exact Tree.dec_cursorBit m.content _ rfl

theorem Item.dec_cursorBit (i : Item) (d : DecState) (h : d.cursorBit = 0) : (i.pair.dec d).2.cursorBit = 0 := by
  cases i with
  | tree t => exact Tree.dec_cursorBit t d h
  | mux m => exact MuxLeaf.dec_cursorBit m d h

theorem Item.decode_eq (i : Item) (h : i.ok) (fuel : Nat) (hf : i.need ≤ fuel) (d : DecState) (hcb : d.cursorBit = 0)
    (hfit : i.pair.fits d) : decodeParam fuel i.toParam d true = .ok ((i.pair.dec d).1, (i.pair.dec d).2) := by
  cases i with
  | tree t => exact Tree.decode_eq t h.1 fuel hf d hcb hfit
  | mux m => exact MuxLeaf.decode_eq m h fuel hf d hcb hfit

def Items.toParams (is : List Item) : List Param := is.map Item.toParam

def Items.pair : List Item → Pair (List (String × PVal))
  | [] => Pair.nil []
  | i :: is => ((Item.pair i).seq (Items.pair is)).map (fun p => (i.name, p.1) :: p.2)

def Items.okAll : List Item → Prop
  | [] => True
  | i :: is => i.ok ∧ Items.okAll is

/-- the top-level short names are pairwise distinct -/
def Items.namesOk : List Item → Prop
  | [] => True
  | i :: is => (∀ u ∈ is, u.name ≠ i.name) ∧ Items.namesOk is

def Items.need : List Item → Nat
  | [] => 1
  | i :: is => i.need + Items.need is + 1

theorem Items.good : (is : List Item) → Items.okAll is → Good (Items.pair is)
  | [], _ => Good.nil _
  | i :: is, h => ((Item.good i h.1).seq (Items.good is h.2)).map _

theorem Items.need_ge (is : List Item) : is.length + 1 ≤ Items.need is := by
  induction is with
  | nil => simp [Items.need]
  | cons i is ih => simp only [Items.need, List.length_cons]; omega

theorem Items.pair_val_cons (i : Item) (is : List Item) :
    (Items.pair (i :: is)).val = (i.name, i.pair.val) :: (Items.pair is).val := rfl

theorem Items.lookupV_pair_val (is : List Item) (h : Items.namesOk is) (i : Item) (hi : i ∈ is) :
    lookupV i.name (Items.pair is).val = some i.pair.val := by
  have hl : lookup i.name (Items.pair is).val = some i.pair.val := by
    induction is with
    | nil => cases hi
    | cons u us ih =>
      simp only [Items.namesOk] at h
      rw [Items.pair_val_cons]
      cases hi with
      | head => simp [lookup]
      | tail _ hmem =>
        have hne : i.name ≠ u.name := h.1 i hmem
        simp only [lookup, hne, if_false]
        exact ih h.2 hmem
  unfold lookupV
  rw [hl]
  cases hv : i.pair.val <;> simp_all [Item.val_ne_none]

theorem Items.known_pair_val (is : List Item) :
    (Items.pair is).val.any (fun kv => !((Items.toParams is).any fun p => p.name == kv.1)) = false := by
  have key : ∀ (all : List Param) (us : List Item), (∀ u ∈ us, all.any (fun p => p.name == u.name) = true) →
      (Items.pair us).val.any (fun kv => !(all.any fun p => p.name == kv.1)) = false := by
    intro all us
    induction us with
    | nil => intro _; rfl
    | cons u us ih =>
      intro h
      rw [Items.pair_val_cons]
      simp only [List.any_cons, h u (List.mem_cons_self ..), Bool.not_true, Bool.false_or]
      exact ih (fun x hx => h x (List.mem_cons_of_mem _ hx))
  apply key
  intro u hu
  induction is with
  | nil => cases hu
  | cons t ts ih =>
    simp only [Items.toParams, List.map_cons, List.any_cons]
    cases hu with
    | head => simp [Item.toParam_name]
    | tail _ hm =>
      have := ih hm
      simp only [Items.toParams] at this
      simp [this]

theorem encodeKeyValues_items (is : List Item) (extra : Nat) (s : EncState) (st : Bool) :
    encodeKeyValues (is.length + 1 + extra) (Items.toParams is) s st = .ok ((), s) := by
  induction is with
  | nil =>
    have : 0 + 1 + extra = extra + 1 := by omega
    simp only [List.length_nil, Items.toParams, List.map_nil, this, encodeKeyValues]
    simp [pure, run_pure]
  | cons i rest ih =>
    have : (i :: rest).length + 1 + extra = (rest.length + 1 + extra) + 1 := by simp; omega
    rw [this]
    simp only [Items.toParams, List.map_cons]
    rcases Item.toParam_kind i with ⟨bp, bitp, dop, htp⟩ | ⟨bp, bitp, dct, v, htp⟩ <;>
    · rw [htp]; simp only [encodeKeyValues]; exact ih

theorem Items.encode_eq : (is : List Item) → Items.okAll is → ∀ (values : List (String × PVal)),
    (∀ i ∈ is, lookupV i.name values = some i.pair.val) → ∀ (fuel : Nat), Items.need is ≤ fuel → ∀ (eop : Bool) (s : EncState),
    ∃ s', encodeParams eop values fuel (Items.toParams is) s true = .ok ((), s') ∧ SameCore s' ((Items.pair is).enc s)
  | [], _, values, _, fuel, hf, eop, s => by
    simp only [Items.need] at hf
    obtain ⟨f, rfl⟩ : ∃ f, fuel = f + 1 := ⟨fuel - 1, by omega⟩
    exact ⟨s, by simp [Items.toParams, encodeParams, pure, run_pure], SameCore.refl _⟩
  | i :: is, hok, values, hlook, fuel, hf, eop, s => by
    simp only [Items.okAll] at hok
    simp only [Items.need] at hf
    obtain ⟨f, rfl⟩ : ∃ f, fuel = f + 1 := ⟨fuel - 1, by omega⟩
    have hl := hlook i (List.mem_cons_self ..)
    let sm : EncState := if is.isEmpty then { s with isEndOfPdu := eop } else s
    have hsm : SameCore sm s := by
      show SameCore (if is.isEmpty then { s with isEndOfPdu := eop } else s) s
      split
      · exact ⟨rfl, rfl, rfl, rfl, rfl⟩
      · exact SameCore.refl s
    obtain ⟨s1, hstep, hc1⟩ := Item.encode_eq i hok.1 f (by omega) sm
    obtain ⟨s2, hrest, hc2⟩ := Items.encode_eq is hok.2 values
      (fun u hu => hlook u (List.mem_cons_of_mem _ hu)) f (by omega) eop s1
    have hgt := Item.good i hok.1
    have hgts := Items.good is hok.2
    refine ⟨s2, ?_, ?_⟩
    · have hemp : (Items.toParams is).isEmpty = is.isEmpty := by cases is <;> rfl
      have hstep' : encodeParam f i.toParam (some i.pair.val) (if is.isEmpty then { s with isEndOfPdu := eop } else s) true
          = .ok ((), s1) := hstep
      simp only [Items.toParams, List.map_cons]
      rcases Item.toParam_kind i with ⟨bp, bitp, dop, htp⟩ | ⟨bp, bitp, dct, v, htp⟩
      · rw [htp, encodeParams_cons_value eop values f i.name bp bitp dop none _ s _ hl, ← htp]
        have hemp' : (List.map Item.toParam is).isEmpty = is.isEmpty := hemp
        rw [hemp', hstep']
        exact hrest
      · rw [htp, encodeParams_cons_const eop values f i.name bp bitp dct v _ s, ← htp]
        have hemp' : (List.map Item.toParam is).isEmpty = is.isEmpty := hemp
        rw [hemp', hl, hstep']
        exact hrest
    · simp only [Items.pair, Pair.map, Pair.seq]
      exact hc2.trans (hgts.core _ _ (hc1.trans (hgt.core _ _ hsm)))

theorem Items.dec_cursorBit : (is : List Item) → ∀ (d : DecState), d.cursorBit = 0 → ((Items.pair is).dec d).2.cursorBit = 0
  | [], d, h => h
  | i :: is, d, h => by
    simp only [Items.pair, Pair.map, Pair.seq]
    exact Items.dec_cursorBit is _ (Item.dec_cursorBit i d h)

theorem Items.decode_eq : (is : List Item) → Items.okAll is → ∀ (fuel : Nat), Items.need is ≤ fuel → ∀ (d : DecState),
    d.cursorBit = 0 → (Items.pair is).fits d →
    decodeParams fuel (Items.toParams is) d true = .ok (((Items.pair is).dec d).1, ((Items.pair is).dec d).2)
  | [], _, fuel, hf, d, _, _ => by
    simp only [Items.need] at hf
    obtain ⟨f, rfl⟩ : ∃ f, fuel = f + 1 := ⟨fuel - 1, by omega⟩
    simp [Items.toParams, decodeParams, pure, run_pure, Items.pair, Pair.nil]
  | i :: is, hok, fuel, hf, d, hcb, hfit => by
    simp only [Items.okAll] at hok
    simp only [Items.need] at hf
    obtain ⟨f, rfl⟩ : ∃ f, fuel = f + 1 := ⟨fuel - 1, by omega⟩
    have hfit' : i.pair.fits d ∧ (Items.pair is).fits (i.pair.dec d).2 := hfit
    have h1 := Item.decode_eq i hok.1 f (by omega) d hcb hfit'.1
    have h2 := Items.decode_eq is hok.2 f (by omega) (i.pair.dec d).2 (Item.dec_cursorBit i d hcb) hfit'.2
    have h2' : decodeParams f (List.map Item.toParam is) (i.pair.dec d).2 true = _ := h2
    simp only [Items.toParams, List.map_cons, decodeParams, bind, run_bind, h1, h2', pure, run_pure, Item.toParam_name]
    rfl

/-- `Request.encode` on a description with multiplexers = the pure encoder from the empty message -/
theorem encodeMessage_items (is : List Item) (hneed : Items.need is + 2 ≤ modelFuel) (hok : Items.okAll is)
    (hn : Items.namesOk is) (trig : Option Bytes) :
    ∃ s0 : EncState, s0.msg = [] ∧ s0.used = [] ∧ s0.warn = 0 ∧ s0.cursorByte = 0 ∧ s0.origin = 0 ∧
      encodeMessage none (Items.toParams is) (.dict (Items.pair is).val) trig true =
        .ok (((Items.pair is).enc s0).msg, ((Items.pair is).enc s0).warn) := by
  let s0 : EncState := { trig := trig, isEndOfPdu := false }
  refine ⟨s0, rfl, rfl, rfl, rfl, rfl, ?_⟩
  obtain ⟨f, hf⟩ : ∃ f, modelFuel = f + 1 + 1 := ⟨modelFuel - 2, by unfold modelFuel; omega⟩
  have hf' : Items.need is ≤ f := by omega
  obtain ⟨sp, hrun, hcore⟩ := Items.encode_eq is hok (Items.pair is).val
    (fun i hi => Items.lookupV_pair_val is hn i hi) f hf' true s0
  obtain ⟨e, rfl⟩ : ∃ e, f = is.length + 1 + e := ⟨f - (is.length + 1), by have := Items.need_ge is; omega⟩
  have hkeys := encodeKeyValues_items is e { sp with isEndOfPdu := false } true
  have hrun' : encodeParams true (Items.pair is).val (is.length + 1 + e) (Items.toParams is)
      { trig := trig, isEndOfPdu := false } true = .ok ((), sp) := hrun
  unfold encodeMessage
  rw [hf]
  simp only [encodeDop, encodeComposite, bind, pure, run_bind, run_getS, run_modifyS, run_pure, run_ite, Items.known_pair_val,
    Bool.false_eq_true, if_false, ne_eq, not_true_eq_false]
  rw [hrun']
  simp only []
  rw [hkeys]
  simp only [hcore.1, hcore.2.2.1]

theorem decodeMessage_items (is : List Item) (hneed : Items.need is + 2 ≤ modelFuel) (hok : Items.okAll is) (msg : Bytes)
    (hfit : (Items.pair is).fits { msg := msg }) :
    decodeMessage none (Items.toParams is) msg true =
      .ok (.dict ((Items.pair is).dec { msg := msg }).1, ((Items.pair is).dec { msg := msg }).2.cursorByte) := by
  obtain ⟨f, hf⟩ : ∃ f, modelFuel = f + 1 + 1 := ⟨modelFuel - 2, by unfold modelFuel; omega⟩
  have hf' : Items.need is ≤ f := by omega
  have hdec := Items.decode_eq is hok f hf' { msg := msg } rfl hfit
  have hdec' : decodeParams f (Items.toParams is) { msg := msg, origin := 0, cursorByte := 0 } true = _ := hdec
  unfold decodeMessage
  rw [hf]
  simp only [decodeDop, decodeComposite, bind, pure, run_bind, run_getS, run_modifyS, run_pure]
  rw [hdec']

/-- **C01, multiplexer tier, at the API level of the model.** -/
theorem items_roundtrip_msg (is : List Item) (hneed : Items.need is + 2 ≤ modelFuel) (hok : Items.okAll is)
    (hn : Items.namesOk is) (trig : Option Bytes) (pdu : Bytes)
    (henc : encodeMessage none (Items.toParams is) (.dict (Items.pair is).val) trig true = .ok (pdu, 0)) :
    ∃ cursor, decodeMessage none (Items.toParams is) pdu true = .ok (.dict (Items.pair is).val, cursor) := by
  obtain ⟨s0, hm, _, hw, hc, ho, hrun⟩ := encodeMessage_items is hneed hok hn trig
  rw [hrun] at henc
  simp only [Except.ok.injEq, Prod.mk.injEq] at henc
  obtain ⟨hpdu, hwarn⟩ := henc
  have hg := Items.good is hok
  have hall : AllBytes s0.msg := by rw [hm]; intro b hb; cases hb
  obtain ⟨hv, _, _, _, hfit⟩ := hg.rt s0 { msg := pdu } hall (by rw [hwarn, hw]) (by simp [ho]) (by simp [hc])
    (by rw [← hpdu]; exact hg.allBytes s0 hall) (by rw [hpdu]; exact Nat.le_refl _) (by intro a _; rw [hpdu])
  refine ⟨((Items.pair is).dec { msg := pdu }).2.cursorByte, ?_⟩
  rw [decodeMessage_items is hneed hok pdu hfit, hv]

end OdxVerif.Codec
