import OdxVerif.Proofs.CompReject3MinMax
import OdxVerif.Proofs.CompReject2DynMM
/-! Compositional tier, rejection side, fourth part (task W31, C04): **terminated MIN-MAX-LENGTH-TYPE leaves over the string base
    types** (`A_ASCIISTRING` = ISO-8859-1, `A_UTF8STRING`, `A_UNICODE2STRING`) in a position that is not the end of the PDU, as a
    value-free description `PDesc.ofMinMaxMidStr` — the string counterpart of `PDesc.ofMinMaxMidBytes` (W30), built from the
    end-of-PDU string version `PDesc.ofMinMaxLastStr` (W18).
    Accepted (`MMStrShape.rawOf`, exactly the last-position condition: the encoder's checks precede the look at the flag): a string the
    DOP's codec can encode into MIN-LENGTH … MAX-LENGTH bytes without a termination sequence at an aligned position ≥ MIN-LENGTH.
    Component: without terminator iff the encoding has exactly MAX-LENGTH bytes.
    Shape conditions (`MMStrShape.okMid`, decidable): string base type, TERMINATION ≠ END-OF-PDU, MIN-LENGTH ≥ 1 and — for the
    two-byte terminator of A_UNICODE2STRING — an even MAX-LENGTH (with an odd MAX-LENGTH a value of MAX-LENGTH − 1 bytes is written
    with a terminator that ends beyond MAX-LENGTH: the decoder then stops at MAX-LENGTH, see `MMLeaf.okMid`).
    The UTF-16 encodings have even length (`Text.utf16_encode_even`), which is what the encoder's `odxassert` on the alignment needs.
    Core Lean only. -/
namespace OdxVerif.Codec
open OdxVerif.Bits OdxVerif.OdxM

theorem Text.u16_length (be : Bool) (w : Nat) : (Text.u16 be w).length = 2 := by
  unfold Text.u16; split <;> rfl

theorem Text.utf16Enc1_even (be : Bool) (c : Nat) (bs : Bytes) (h : Text.utf16Enc1 be c = some bs) : bs.length % 2 = 0 := by
  unfold Text.utf16Enc1 at h
  split at h
  · split at h
    · cases h
    · cases h; rw [Text.u16_length]
  · split at h
    · cases h
      simp only [List.length_append, Text.u16_length]
    · cases h

theorem Text.utf16_mapM_even (be : Bool) (cps : List Nat) : ∀ (bss : List Bytes), cps.mapM (Text.utf16Enc1 be) = some bss →
    bss.flatten.length % 2 = 0 := by
  induction cps with
  | nil =>
    intro bss h
    simp at h; subst h
    rfl
  | cons c cs ih =>
    intro bss h
    obtain ⟨b, bs', h1, h2, rfl⟩ := Text.mapM_cons_some h
    have := Text.utf16Enc1_even be c b h1
    have := ih bs' h2
    simp only [List.flatten_cons, List.length_append]
    omega

/-- the UTF-16 encodings (either byte order) have an even number of bytes -/
theorem Text.utf16_encode_even (be : Bool) (cps : List Nat) (bs : Bytes) (h : Text.encode (Text.utf16 be) cps = some bs) :
    bs.length % 2 = 0 := by
  rw [Text.encode_utf16] at h
  cases hm : cps.mapM (Text.utf16Enc1 be) with
  | none => simp [hm] at h
  | some bss =>
    simp [hm] at h; subst h
    exact Text.utf16_mapM_even be cps bss hm

/-- MAX-LENGTH is even (or absent) -/
def MMStrShape.evenMax (sh : MMStrShape) : Bool :=
  match sh.maxLen with
  | some mx => mx % 2 == 0
  | none => true

def MMStrShape.okMid (sh : MMStrShape) : Prop :=
  sh.ok ∧ sh.term ≠ .eop ∧ 1 ≤ sh.minLen ∧ (sh.bt = .unicode2 → sh.evenMax = true)

instance (sh : MMStrShape) : Decidable sh.okMid := by unfold MMStrShape.okMid MMStrShape.ok; exact inferInstance

theorem MMStrShape.evenMax_spec (sh : MMStrShape) (h : sh.evenMax = true) (mx : Nat) (hmx : sh.maxLen = some mx) : mx % 2 = 0 := by
  simp only [MMStrShape.evenMax, hmx, beq_iff_eq] at h
  exact h

/-- the component of an accepted string: without terminator iff its encoding has exactly MAX-LENGTH bytes -/
def MMStrShape.midComp (sh : MMStrShape) (cps : List Nat) (r : Bytes) : Comp :=
  if some r.length = sh.maxLen then Comp.ofMinMaxFull (sh.leaf cps r) else Comp.ofMinMaxMid (sh.leaf cps r)

def PDesc.ofMinMaxMidStr (sh : MMStrShape) : PDesc where
  param := (sh.leaf [] []).toParam
  fill := fun pv => match pv with
    | some (.atom (.str cps)) => (sh.rawOf cps).map (fun r => sh.midComp cps r)
    | _ => none
  complete := fun pv => pv.getD .none
  typed := fun _ => true
  need := fun _ => 2
  mayEop := false
  minAdv := sh.minLen

/-- the length of the termination sequence: two bytes for A_UNICODE2STRING, one otherwise -/
theorem MMStrShape.tseq_length (sh : MMStrShape) (h : sh.term ≠ .eop) (cps : List Nat) (r : Bytes) :
    (sh.leaf cps r).tseq.length = if sh.bt = .unicode2 then 2 else 1 := by
  cases ht : sh.term with
  | eop => exact absurd ht h
  | zero => simp only [MMLeaf.tseq, MMStrShape.leaf, termSeq, ht]; split <;> rfl
  | hexff => simp only [MMLeaf.tseq, MMStrShape.leaf, termSeq, ht]; split <;> rfl

/-- the encoding of an accepted A_UNICODE2STRING value has an even length -/
theorem MMStrShape.raw_even (sh : MMStrShape) (hu : sh.bt = .unicode2) (cps : List Nat) (r : Bytes) (hr : sh.rawOf cps = some r) :
    r.length % 2 = 0 := by
  unfold MMStrShape.rawOf at hr
  cases h1 : Text.encode sh.codec cps with
  | none => simp [h1] at hr
  | some r1 =>
    simp only [h1] at hr
    split at hr
    · cases hr
      have hc : sh.codec = Text.utf16 sh.hl := by
        simp only [MMStrShape.codec, LeadStrShape.codec, MMStrShape.lead, hu, Text.utf16]
      rw [hc] at h1
      exact Text.utf16_encode_even sh.hl cps r h1
    · cases hr

theorem MMStrShape.leaf_okMid (sh : MMStrShape) (h : sh.okMid) (cps : List Nat) (r : Bytes) (hr : sh.rawOf cps = some r)
    (hne : some r.length ≠ sh.maxLen) : (sh.leaf cps r).okMid := by
  have hb := sh.leaf_ok h.1 cps r hr
  have ht := sh.tseq_length h.2.1 cps r
  have hmin : sh.minLen ≤ r.length := hb.2.1
  have h1 := h.2.2.1
  refine ⟨hb, h.2.1, ?_, ?_, ?_⟩
  · intro hnil
    have : r = [] := hnil
    subst this
    simp at hmin
    omega
  · rw [ht]
    show r.length % _ = 0
    by_cases hu : sh.bt = .unicode2
    · rw [if_pos hu]; exact sh.raw_even hu cps r hr
    · rw [if_neg hu]; exact Nat.mod_one _
  · intro mx hmx
    have hmx' : sh.maxLen = some mx := hmx
    have h2 : r.length ≤ mx := hb.2.2.1 mx hmx
    have h3 : r.length ≠ mx := by
      intro he; apply hne; rw [hmx', he]
    rw [ht]
    show r.length + _ ≤ mx
    by_cases hu : sh.bt = .unicode2
    · rw [if_pos hu]
      have := sh.raw_even hu cps r hr
      have := sh.evenMax_spec (h.2.2.2 hu) mx hmx'
      omega
    · rw [if_neg hu]; omega

theorem MMStrShape.leaf_okFull (sh : MMStrShape) (h : sh.okMid) (cps : List Nat) (r : Bytes) (hr : sh.rawOf cps = some r)
    (he : some r.length = sh.maxLen) : (sh.leaf cps r).okFull :=
  ⟨sh.leaf_ok h.1 cps r hr, h.2.1, he.symm⟩

/-- **the closure lemma of the terminated string leaf** -/
theorem PDesc.ofMinMaxMidStr_okWM (sh : MMStrShape) (hsh : sh.okMid) : (PDesc.ofMinMaxMidStr sh).OkWM true where
  notKey := rfl
  acc := by
    intro pv g _ hf
    have key : ∃ cps r, pv = some (.atom (.str cps)) ∧ sh.rawOf cps = some r ∧ g = sh.midComp cps r := by
      cases pv with
      | none => simp [PDesc.ofMinMaxMidStr] at hf
      | some x =>
        cases x with
        | atom v =>
          cases v with
          | str cps =>
            simp only [PDesc.ofMinMaxMidStr] at hf
            cases hr : sh.rawOf cps with
            | none => rw [hr] at hf; cases hf
            | some r => rw [hr] at hf; exact ⟨cps, r, rfl, hr, (Option.some.inj hf).symm⟩
          | _ => simp [PDesc.ofMinMaxMidStr] at hf
        | _ => simp [PDesc.ofMinMaxMidStr] at hf
    obtain ⟨cps, r, rfl, hr, rfl⟩ := key
    have hmin : sh.minLen ≤ r.length := (sh.leaf_ok hsh.1 cps r hr).2.1
    by_cases he : some r.length = sh.maxLen
    · have hl := sh.leaf_okFull hsh cps r hr he
      simp only [MMStrShape.midComp, if_pos he]
      exact {
        ok := fun P => (Comp.ofMinMaxFull_ok _ hl).toM true P
        endOk := Comp.ofMinMaxFull_endOk _
        param := rfl
        sup := rfl
        need := Nat.le_refl _
        eop := fun h => by cases h
        adv := fun org c => by
          show sh.minLen ≤ posOf sh.bytePos org c + r.length
          omega
        val := rfl }
    · have hl := sh.leaf_okMid hsh cps r hr he
      simp only [MMStrShape.midComp, if_neg he]
      exact {
        ok := fun P => Comp.ofMinMaxMid_ok _ hl P
        endOk := Comp.ofMinMaxMid_endOk _
        param := rfl
        sup := rfl
        need := Nat.le_refl _
        eop := fun h => by cases h
        adv := fun org c => by
          show sh.minLen ≤ posOf sh.bytePos org c + r.length + (sh.leaf cps r).tseq.length
          omega
        val := rfl }
  rej := by
    intro pv hne _ hf fuel hfu s _ _
    obtain ⟨f, rfl⟩ : ∃ f, fuel = f + 2 := ⟨fuel - 2, by simp only [PDesc.ofMinMaxMidStr] at hfu; omega⟩
    have hnt : ∀ v : IVal, (∀ cps, v ≠ .str cps) → typeAdmits sh.bt v = false := by
      intro v hv
      rcases hsh.1 with hb | hb | hb <;> rw [hb] <;> cases v <;> first | rfl | exact absurd rfl (hv _)
    cases pv with
    | none =>
      refine ⟨.encode, ?_, ?_, RejErr.encode _⟩
      rotate_left
      · simp [PDesc.ofMinMaxMidStr, MMStrShape.leaf, MMLeaf.toParam, encodeParam, bind, run_bind, run_modifyS, odxraise]
        rfl
    | some x =>
      cases x with
      | none => exact absurd rfl hne
      | atom v =>
        cases v with
        | str cps =>
          have hr : sh.rawOf cps = none := by
            cases hr : sh.rawOf cps with
            | none => rfl
            | some r => simp [PDesc.ofMinMaxMidStr, hr] at hf
          obtain ⟨s', hrun⟩ := encodeParam_minmaxStr_rej sh hsh.1 cps hr f s
          exact ⟨.encode, s', hrun, RejErr.encode _⟩
        | int i =>
          have := hnt (.int i) (fun _ h => by cases h)
          refine ⟨.encode, ?_, ?_, RejErr.encode _⟩
          rotate_left
          · simp [PDesc.ofMinMaxMidStr, MMStrShape.leaf, MMLeaf.toParam, encodeParam, encodeDop, this, bind, run_bind, run_modifyS,
              run_raise]
            rfl
        | bytes b =>
          have := hnt (.bytes b) (fun _ h => by cases h)
          refine ⟨.encode, ?_, ?_, RejErr.encode _⟩
          rotate_left
          · simp [PDesc.ofMinMaxMidStr, MMStrShape.leaf, MMLeaf.toParam, encodeParam, encodeDop, this, bind, run_bind, run_modifyS,
              run_raise]
            rfl
        | flt x =>
          have := hnt (.flt x) (fun _ h => by cases h)
          refine ⟨.encode, ?_, ?_, RejErr.encode _⟩
          rotate_left
          · simp [PDesc.ofMinMaxMidStr, MMStrShape.leaf, MMLeaf.toParam, encodeParam, encodeDop, this, bind, run_bind, run_modifyS,
              run_raise]
            rfl
      | list _ | dict _ | pair _ _ | keyed _ _ | nokey _ | dtc _ =>
        refine ⟨.encode, ?_, ?_, RejErr.encode _⟩
        rotate_left
        · simp [PDesc.ofMinMaxMidStr, MMStrShape.leaf, MMLeaf.toParam, encodeParam, encodeDop, bind, run_bind, run_modifyS, run_raise]
          rfl

/-- the terminated string leaf as a flagged description -/
def MDesc.ofMinMaxMidStr (sh : MMStrShape) : MDesc := { p := PDesc.ofMinMaxMidStr sh, mid := true }

/-- a terminated MIN-MAX-LENGTH leaf: over A_BYTEFIELD (W30) or over a string base type (W31) -/
def PDesc.IsMidLeaf (p : PDesc) : Prop :=
  (∃ sh : MMShape, sh.okMid ∧ p = PDesc.ofMinMaxMidBytes sh) ∨ (∃ sh : MMStrShape, sh.okMid ∧ p = PDesc.ofMinMaxMidStr sh)

theorem PDesc.IsMidLeaf.okWM {p : PDesc} (h : p.IsMidLeaf) : p.OkWM true := by
  rcases h with ⟨sh, hsh, rfl⟩ | ⟨sh, hsh, rfl⟩
  · exact PDesc.ofMinMaxMidBytes_okWM sh hsh
  · exact PDesc.ofMinMaxMidStr_okWM sh hsh

/-- **`DescribedP2c`**: `DescribedP2b`, and structures whose parameters are such descriptions or terminated MIN-MAX-LENGTH leaves
    over A_BYTEFIELD or a string base type (none of the latter in last position) -/
inductive DescribedP2c : PDesc → Prop
  | base (p : PDesc) : DescribedP2b p → DescribedP2c p
  | structM (name : String) (bp : Option Nat) (ms : List MDesc) :
      (∀ m ∈ ms, m.mid = false → DescribedP2c m.p) →
      (∀ m ∈ ms, m.mid = true → m.p.IsMidLeaf) →
      PDescs.namesOk (MDescs.ps ms) → PDescs.eopLast (MDescs.ps ms) → MDescs.lastMid ms = false →
      DescribedP2c (PDesc.ofValue name bp (DDesc.struct (MDescs.ps ms)))

theorem MDescs.okWM_of2c (ms : List MDesc) (hp : ∀ m ∈ ms, m.mid = false → m.p.OkW)
    (hm : ∀ m ∈ ms, m.mid = true → m.p.IsMidLeaf) : ∀ m ∈ ms, m.p.OkWM m.mid := by
  intro m hmem
  cases hmid : m.mid with
  | false => exact (hp m hmem hmid).toM false
  | true => exact (hm m hmem hmid).okWM

/-- **soundness of `DescribedP2c`** -/
theorem DescribedP2c.okW {p : PDesc} (h : DescribedP2c p) : p.OkW := by
  induction h with
  | base p hp => exact hp.okW
  | structM name bp ms _ hm hn hl hmid ih =>
    exact PDesc.ofValue_okW name bp _ (DDesc.structM_okW ms (MDescs.okWM_of2c ms ih hm) hn hl hmid)

/-- the message level: the request's parameters are `DescribedP2c` descriptions or terminated leaves (not last) -/
theorem encodeMessage_nested2c_cases (ms : List MDesc) (hd : ∀ m ∈ ms, m.mid = false → DescribedP2c m.p)
    (hm : ∀ m ∈ ms, m.mid = true → m.p.IsMidLeaf)
    (hn : PDescs.namesOk (MDescs.ps ms)) (hl : PDescs.eopLast (MDescs.ps ms)) (hmid : MDescs.lastMid ms = false)
    (pv : PVal) (hwf : pv.wfAtoms = true) (trig : Option Bytes) (hneed : (DDesc.struct (MDescs.ps ms)).need pv ≤ modelFuel) :
    ((DDesc.struct (MDescs.ps ms)).fill pv = none ∧
      ∃ e, encodeMessage none (PDescs.toParams (MDescs.ps ms)) pv trig true = .error e ∧
        RejErr e ((DDesc.struct (MDescs.ps ms)).typed pv)) ∨
    (∃ c, (DDesc.struct (MDescs.ps ms)).fill pv = some c ∧ c.Fills (DDesc.struct (MDescs.ps ms)) pv ∧
      ∃ pdu w, encodeMessage none (PDescs.toParams (MDescs.ps ms)) pv trig true = .ok (pdu, w) ∧
        (w = 0 → (c.eopOnly = true → c.size = pdu.length) →
          ∃ cursor, decodeMessage none (PDescs.toParams (MDescs.ps ms)) pdu true =
            .ok ((DDesc.struct (MDescs.ps ms)).complete pv, cursor))) :=
  encodeMessage_structW_cases (MDescs.ps ms)
    (DDesc.structM_okW ms (MDescs.okWM_of2c ms (fun m hmem h => (hd m hmem h).okW) hm) hn hl hmid) pv hwf trig hneed

end OdxVerif.Codec
