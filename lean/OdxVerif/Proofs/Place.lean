import OdxVerif.Proofs.Bits
import OdxVerif.Model.Atomic
/-! Bit-level meaning of a masked write (`placeBytes`) and the number-level round trip. Core Lean only. -/
namespace OdxVerif.Codec
open OdxVerif.Bits

theorem mergeBytes_length (o n m : Bytes) :
    (mergeBytes o n m).length = min o.length (min n.length m.length) := by
  induction o generalizing n m with
  | nil => simp [mergeBytes]
  | cons a as ih =>
    cases n with
    | nil => simp [mergeBytes]
    | cons b bs =>
      cases m with
      | nil => simp [mergeBytes]
      | cons c cs => simp [mergeBytes, ih]; try omega

theorem getD_mergeBytes (o n m : Bytes) (i : Nat) (h1 : i < o.length) (h2 : i < n.length) (h3 : i < m.length) :
    (mergeBytes o n m).getD i 0 =
      (((o.getD i 0 ||| m.getD i 0) ^^^ m.getD i 0) ||| (n.getD i 0 &&& m.getD i 0)) := by
  induction o generalizing n m i with
  | nil => simp at h1
  | cons a as ih =>
    cases n with
    | nil => simp at h2
    | cons b bs =>
      cases m with
      | nil => simp at h3
      | cons c cs =>
        cases i with
        | zero => simp [mergeBytes]
        | succ i =>
          simp only [mergeBytes, List.getD_cons_succ]
          exact ih bs cs i (by simpa using h1) (by simpa using h2) (by simpa using h3)

theorem allBytes_mergeBytes (o n m : Bytes) (ho : AllBytes o) (hm : AllBytes m) :
    AllBytes (mergeBytes o n m) := by
  induction o generalizing n m with
  | nil => intro b hb; simp [mergeBytes] at hb
  | cons a as ih =>
    cases n with
    | nil => intro b hb; simp [mergeBytes] at hb
    | cons b bs =>
      cases m with
      | nil => intro x hx; simp [mergeBytes] at hx
      | cons c cs =>
        intro x hx
        simp only [mergeBytes, List.mem_cons] at hx
        rcases hx with rfl | hx
        · have ha : a < 2 ^ 8 := ho a (List.mem_cons_self ..)
          have hc : c < 2 ^ 8 := hm c (List.mem_cons_self ..)
          exact Nat.or_lt_two_pow (Nat.xor_lt_two_pow (Nat.or_lt_two_pow ha hc) hc) (Nat.and_lt_two_pow _ hc)
        · exact ih bs cs (fun y hy => ho y (List.mem_cons_of_mem _ hy))
            (fun y hy => hm y (List.mem_cons_of_mem _ hy)) x hx

theorem allBytes_padTo (bs : Bytes) (n : Nat) (h : AllBytes bs) : AllBytes (padTo bs n) := by
  intro b hb
  unfold padTo at hb
  rcases List.mem_append.mp hb with hb | hb
  · exact h b hb
  · simp at hb; omega

theorem padTo_length (bs : Bytes) (n : Nat) : (padTo bs n).length = max bs.length n := by
  simp [padTo]; omega

theorem getD_padTo (bs : Bytes) (n i : Nat) : (padTo bs n).getD i 0 = bs.getD i 0 := by
  unfold padTo
  simp only [List.getD_eq_getElem?_getD]
  by_cases hi : i < bs.length
  · rw [List.getElem?_append_left hi]
  · rw [List.getElem?_append_right (by omega)]
    have : bs[i]? = none := List.getElem?_eq_none (by omega)
    rw [this]
    by_cases h2 : i - bs.length < n - bs.length
    · simp [h2]
    · simp [h2]

theorem placeBytes_length (msg : Bytes) (pos : Nat) (new mask : Bytes) (hm : new.length ≤ mask.length) :
    (placeBytes msg pos new mask).length = max msg.length (pos + new.length) := by
  unfold placeBytes
  simp only [List.length_append, List.length_take, List.length_drop, mergeBytes_length, padTo_length]
  omega

theorem allBytes_placeBytes (msg : Bytes) (pos : Nat) (new mask : Bytes)
    (h : AllBytes msg) (hm : AllBytes mask) : AllBytes (placeBytes msg pos new mask) := by
  unfold placeBytes
  have hp := allBytes_padTo msg (pos + new.length) h
  intro b hb
  rcases List.mem_append.mp hb with hb | hb
  · rcases List.mem_append.mp hb with hb | hb
    · exact hp b (List.mem_of_mem_take hb)
    · exact allBytes_mergeBytes _ _ _ (allBytes_take_drop _ hp _ _) hm b hb
  · exact hp b (List.mem_of_mem_drop hb)

/-- byte `i` after a masked write -/
theorem getD_placeBytes (msg : Bytes) (pos : Nat) (new mask : Bytes) (hm : new.length = mask.length) (i : Nat) :
    (placeBytes msg pos new mask).getD i 0 =
      if pos ≤ i ∧ i < pos + new.length then
        (((msg.getD i 0 ||| mask.getD (i - pos) 0) ^^^ mask.getD (i - pos) 0) |||
          (new.getD (i - pos) 0 &&& mask.getD (i - pos) 0))
      else msg.getD i 0 := by
  unfold placeBytes
  have hpl := padTo_length msg (pos + new.length)
  have hmid : (mergeBytes ((padTo msg (pos + new.length)).drop pos |>.take new.length) new mask).length = new.length := by
    rw [mergeBytes_length]; simp [padTo_length]; omega
  simp only [List.getD_eq_getElem?_getD]
  by_cases h1 : i < pos
  · have : ¬ (pos ≤ i ∧ i < pos + new.length) := by omega
    rw [if_neg this, List.append_assoc, List.getElem?_append_left (by simp [padTo_length]; omega)]
    rw [List.getElem?_take, if_pos h1]
    have := getD_padTo msg (pos + new.length) i
    simpa [List.getD_eq_getElem?_getD] using this
  · by_cases h2 : i < pos + new.length
    · have hin : pos ≤ i ∧ i < pos + new.length := ⟨by omega, h2⟩
      rw [if_pos hin]
      have hlt : (List.take pos (padTo msg (pos + new.length))).length = pos := by simp [padTo_length]; omega
      rw [List.getElem?_append_left (by simp [hlt, hmid]; omega),
        List.getElem?_append_right (by rw [hlt]; omega), hlt]
      have hg := getD_mergeBytes ((padTo msg (pos + new.length)).drop pos |>.take new.length) new mask (i - pos)
        (by simp [padTo_length]; omega) (by omega) (by omega)
      simp only [List.getD_eq_getElem?_getD] at hg
      rw [hg]
      have hold : ((padTo msg (pos + new.length)).drop pos |>.take new.length)[i - pos]?.getD 0 = msg[i]?.getD 0 := by
        have := getD_take_drop (padTo msg (pos + new.length)) pos new.length (i - pos) (by omega)
          (by rw [padTo_length]; omega)
        simp only [List.getD_eq_getElem?_getD] at this
        rw [this, show pos + (i - pos) = i by omega]
        have := getD_padTo msg (pos + new.length) i
        simpa [List.getD_eq_getElem?_getD] using this
      rw [hold]
    · have : ¬ (pos ≤ i ∧ i < pos + new.length) := by omega
      rw [if_neg this]
      have hlt : (List.take pos (padTo msg (pos + new.length)) ++
          mergeBytes (List.take new.length (List.drop pos (padTo msg (pos + new.length)))) new mask).length = pos + new.length := by
        simp [hmid, padTo_length]; omega
      rw [List.getElem?_append_right (by rw [hlt]; omega), hlt, List.getElem?_drop]
      rw [show pos + new.length + (i - (pos + new.length)) = i by omega]
      have := getD_padTo msg (pos + new.length) i
      simpa [List.getD_eq_getElem?_getD] using this

theorem ord_getD (hl : Bool) (bs : Bytes) (t : Nat) (k : Nat) (hk : bs.length = k) (ht : t / 8 < k) :
    (ord hl bs).getD (if hl then k - 1 - t / 8 else t / 8) 0 = bs.getD (k - 1 - t / 8) 0 := by
  unfold ord
  cases hl with
  | true => simp
  | false =>
    simp only [Bool.false_eq_true, if_false]
    rw [getD_reverse _ _ (by omega), hk]

/-- **Bit-level meaning of a numeric masked write.** Writing the `k`-byte numbers `C` (value bits) and
    `M` (mask) at byte `pos` in byte order `hl`: bit `t` of the object's `k` bytes becomes `C`'s bit where
    the mask is set and keeps its old value elsewhere. -/
theorem getBit_place_inside (msg : Bytes) (pos k : Nat) (hl : Bool) (C M t : Nat) (ht : t < 8 * k) :
    getBit (placeBytes msg pos (ord hl (toBytesBE k C)) (ord hl (toBytesBE k M))) (absBit pos k hl t) =
      if M.testBit t then C.testBit t else getBit msg (absBit pos k hl t) := by
  have hq : t / 8 < k := by omega
  have hnl : (ord hl (toBytesBE k C)).length = k := by rw [ord_length, toBytesBE_length]
  have hml : (ord hl (toBytesBE k M)).length = k := by rw [ord_length, toBytesBE_length]
  unfold getBit
  have hidx : absBit pos k hl t / 8 = pos + (if hl then k - 1 - t / 8 else t / 8) := by unfold absBit; omega
  have hbit : absBit pos k hl t % 8 = t % 8 := by unfold absBit; omega
  rw [hidx, hbit, getD_placeBytes _ _ _ _ (by rw [hnl, hml])]
  have hoff : (if hl then k - 1 - t / 8 else t / 8) < k := by split <;> omega
  have hin : pos ≤ pos + (if hl then k - 1 - t / 8 else t / 8) ∧
      pos + (if hl then k - 1 - t / 8 else t / 8) < pos + (ord hl (toBytesBE k C)).length := by
    rw [hnl]; omega
  rw [if_pos hin, Nat.add_sub_cancel_left]
  rw [ord_getD hl _ t k (toBytesBE_length k C) hq, ord_getD hl _ t k (toBytesBE_length k M) hq]
  have hk1 : k - 1 - t / 8 < k := by omega
  have h0 : k - 1 - (k - 1 - t / 8) = t / 8 := by omega
  rw [getD_toBytesBE, getD_toBytesBE]
  simp only [hk1, if_true, h0]
  simp only [Nat.testBit_or, Nat.testBit_xor, Nat.testBit_and]
  rw [testBit_byte_of C _ _ (Nat.mod_lt _ (by decide)), testBit_byte_of M _ _ (Nat.mod_lt _ (by decide))]
  have : 8 * (t / 8) + t % 8 = t := by omega
  rw [this]
  cases M.testBit t <;> simp

/-- bytes outside the object are untouched (frame property, byte granularity) -/
theorem getD_place_outside (msg : Bytes) (pos : Nat) (new mask : Bytes) (hm : new.length = mask.length) (i : Nat)
    (h : i < pos ∨ pos + new.length ≤ i) : (placeBytes msg pos new mask).getD i 0 = msg.getD i 0 := by
  rw [getD_placeBytes _ _ _ _ hm]
  have : ¬ (pos ≤ i ∧ i < pos + new.length) := by omega
  rw [if_neg this]

/-- **Number-level round trip.** After writing `raw < 2^bl` at bit position `bp` (mask = the object's
    own `bl` bits) into *any* message, reading the same `k = ⌈(bl+bp)/8⌉` bytes back in the same byte
    order and taking bits `bp … bp+bl-1` yields `raw`. Every bit length, bit position, byte order. -/
theorem read_place_roundtrip (msg : Bytes) (hmsg : AllBytes msg) (pos bl bp raw : Nat) (hl : Bool)
    (hraw : raw < 2 ^ bl) :
    let k := (bl + bp + 7) / 8
    readNum (placeBytes msg pos (ord hl (toBytesBE k (raw * 2 ^ bp))) (ord hl (toBytesBE k ((2 ^ bl - 1) * 2 ^ bp))))
        pos k hl / 2 ^ bp % 2 ^ bl = raw := by
  intro k
  apply Nat.eq_of_testBit_eq
  intro j
  rw [Nat.testBit_mod_two_pow, Nat.testBit_div_two_pow]
  by_cases hj : j < bl
  · have hall : AllBytes (placeBytes msg pos (ord hl (toBytesBE k (raw * 2 ^ bp))) (ord hl (toBytesBE k ((2 ^ bl - 1) * 2 ^ bp)))) :=
      allBytes_placeBytes _ _ _ _ hmsg (allBytes_ord _ _ (toBytesBE_allBytes _ _))
    have hlen : pos + k ≤ (placeBytes msg pos (ord hl (toBytesBE k (raw * 2 ^ bp))) (ord hl (toBytesBE k ((2 ^ bl - 1) * 2 ^ bp)))).length := by
      rw [placeBytes_length _ _ _ _ (by simp [ord_length, toBytesBE_length]), ord_length, toBytesBE_length]
      omega
    have ht : j + bp < 8 * k := by omega
    rw [testBit_readNum _ hall _ _ _ _ hlen, getBit_place_inside _ _ _ _ _ _ _ ht]
    rw [Nat.testBit_mul_two_pow, Nat.testBit_mul_two_pow, Nat.testBit_two_pow_sub_one]
    simp [hj, ht]
  · have : raw < 2 ^ j := Nat.lt_of_lt_of_le hraw (Nat.pow_le_pow_right (by decide) (by omega))
    simp [hj, Nat.testBit_lt_two_pow this]

end OdxVerif.Codec
