import OdxVerif.Proofs.FlatBits
/-! Flat tier, C03: re-encoding the values decoded from a canonical, fully described PDU reproduces the PDU;
    static disjointness of the description implies that no overlap warning is ever issued. -/
namespace OdxVerif.Codec
open OdxVerif.Bits OdxVerif.OdxM

/-- inside the object's bytes, the mask byte has bit `a % 8` set exactly when the object claims bit `a` -/
theorem mask_bit_iff (o : Obj) (pos a : Nat) (hin : pos ≤ a / 8 ∧ a / 8 < pos + o.k) :
    ((ord o.hl (toBytesBE o.k o.mask)).getD (a / 8 - pos) 0).testBit (a % 8) = true ↔ o.claims pos a := by
  let i := a / 8 - pos
  let t := 8 * (if o.hl then o.k - 1 - i else i) + a % 8
  have hi : i < o.k := by omega
  have ht : t < 8 * o.k := by
    show 8 * (if o.hl then o.k - 1 - i else i) + a % 8 < 8 * o.k
    split <;> omega
  have ha : a = absBit pos o.k o.hl t := by
    unfold absBit
    show a = 8 * (pos + (if o.hl then o.k - 1 - (8 * (if o.hl then o.k - 1 - i else i) + a % 8) / 8
      else (8 * (if o.hl then o.k - 1 - i else i) + a % 8) / 8)) + (8 * (if o.hl then o.k - 1 - i else i) + a % 8) % 8
    cases o.hl <;> simp <;> omega
  have hq : t / 8 < o.k := by omega
  have hidx : a / 8 - pos = (if o.hl then o.k - 1 - t / 8 else t / 8) := by
    show a / 8 - pos = (if o.hl then o.k - 1 - (8 * (if o.hl then o.k - 1 - i else i) + a % 8) / 8
      else (8 * (if o.hl then o.k - 1 - i else i) + a % 8) / 8)
    cases o.hl <;> simp <;> omega
  have hbit : a % 8 = t % 8 := by
    show a % 8 = (8 * (if o.hl then o.k - 1 - i else i) + a % 8) % 8
    omega
  rw [hidx, hbit, ord_getD o.hl _ t o.k (toBytesBE_length _ _) hq, getD_toBytesBE]
  have hk1 : o.k - 1 - t / 8 < o.k := by omega
  have h0 : o.k - 1 - (o.k - 1 - t / 8) = t / 8 := by omega
  simp only [hk1, if_true, h0]
  rw [testBit_byte_of _ _ _ (Nat.mod_lt _ (by decide))]
  have : 8 * (t / 8) + t % 8 = t := by omega
  rw [this]
  unfold Obj.mask
  rw [Nat.testBit_mul_two_pow, Nat.testBit_two_pow_sub_one]
  constructor
  · intro h
    simp only [Bool.and_eq_true, decide_eq_true_eq] at h
    exact ⟨t - o.bp, h.2, by rw [ha]; congr 1; omega⟩
  · intro ⟨j, hj, hja⟩
    -- absBit is injective on t < 8k for fixed pos, k, hl
    have hj8 : j + o.bp < 8 * o.k := by unfold Obj.k; omega
    have : t = j + o.bp := by
      rw [ha] at hja
      unfold absBit at hja
      cases hh : o.hl <;> simp only [hh, if_true, if_false, Bool.false_eq_true] at hja <;> omega
    simp only [Bool.and_eq_true, decide_eq_true_eq]
    omega

/-- used bits after a step: what was used before, or the object's own bits -/
theorem encStep_used_iff (o : Obj) (v : IVal) (s : EncState) (a : Nat) :
    getBit (encStep o v s).used a = true ↔ getBit s.used a = true ∨ o.claims (o.pos s.origin s.cursorByte) a := by
  have hml : (ord o.hl (toBytesBE o.k o.mask)).length = o.k := by rw [ord_length, toBytesBE_length]
  have hused : (encStep o v s).used = placeUsed (s.used ++ List.replicate ((padTo s.msg (o.pos s.origin s.cursorByte + o.k)).length - s.msg.length) 0)
      (o.pos s.origin s.cursorByte) o.k (ord o.hl (toBytesBE o.k o.mask)) := rfl
  unfold getBit
  rw [hused, getD_placeUsed _ _ _ _ hml, getD_append_zeros]
  by_cases hin : o.pos s.origin s.cursorByte ≤ a / 8 ∧ a / 8 < o.pos s.origin s.cursorByte + o.k
  · rw [if_pos hin, Nat.testBit_or, Bool.or_eq_true, mask_bit_iff o _ a hin]
  · rw [if_neg hin]
    constructor
    · exact Or.inl
    · intro h
      rcases h with h | ⟨j, hj, hja⟩
      · exact h
      · exfalso
        apply hin
        have hj8 : j + o.bp < 8 * o.k := by unfold Obj.k; omega
        rw [hja]; unfold absBit
        cases o.hl <;> simp <;> omega

end OdxVerif.Codec

namespace OdxVerif.Codec
open OdxVerif.Bits OdxVerif.OdxM

theorem overlapCount_eq_zero_of (us ms : Bytes) (h : ∀ i, i < us.length → i < ms.length → us.getD i 0 &&& ms.getD i 0 = 0) :
    overlapCount us ms = 0 := by
  induction us generalizing ms with
  | nil => cases ms <;> rfl
  | cons u us ih =>
    cases ms with
    | nil => rfl
    | cons m ms =>
      have h0 := h 0 (by simp) (by simp)
      simp only [List.getD_cons_zero] at h0
      simp only [overlapCount, h0, ne_eq, not_true_eq_false, if_false, Nat.zero_add]
      exact ih ms (fun i h1 h2 => by
        have := h (i + 1) (by simpa using h1) (by simpa using h2)
        simpa using this)

/-- no used bit is claimed by the object ⇒ its emplacement raises no overlap warning -/
theorem encStep_nowarn (o : Obj) (v : IVal) (s : EncState)
    (h : ∀ a, o.claims (o.pos s.origin s.cursorByte) a → getBit s.used a = false) :
    (encStep o v s).warn = s.warn := by
  have hml : (ord o.hl (toBytesBE o.k o.mask)).length = o.k := by rw [ord_length, toBytesBE_length]
  have hw : (encStep o v s).warn = s.warn + overlapCount (((s.used ++ List.replicate ((padTo s.msg (o.pos s.origin s.cursorByte + o.k)).length - s.msg.length) 0).drop
      (o.pos s.origin s.cursorByte)).take o.k) (ord o.hl (toBytesBE o.k o.mask)) := rfl
  rw [hw, overlapCount_eq_zero_of]
  · rfl
  intro i hi1 hi2
  rw [hml] at hi2
  rw [getD_take_drop' _ _ _ _ hi2, getD_append_zeros]
  apply Nat.eq_of_testBit_eq
  intro j
  rw [Nat.testBit_and, Nat.zero_testBit]
  by_cases hj : j < 8
  · -- bit j of byte pos+i is absolute bit a
    let a := 8 * (o.pos s.origin s.cursorByte + i) + j
    have ha8 : a / 8 = o.pos s.origin s.cursorByte + i := by show (8 * (o.pos s.origin s.cursorByte + i) + j) / 8 = _; omega
    have haj : a % 8 = j := by show (8 * (o.pos s.origin s.cursorByte + i) + j) % 8 = _; omega
    have hin : o.pos s.origin s.cursorByte ≤ a / 8 ∧ a / 8 < o.pos s.origin s.cursorByte + o.k := by omega
    have hmb := mask_bit_iff o (o.pos s.origin s.cursorByte) a hin
    rw [ha8, Nat.add_sub_cancel_left, haj] at hmb
    cases hm : ((ord o.hl (toBytesBE o.k o.mask)).getD i 0).testBit j with
    | false => simp
    | true =>
      have := h a (hmb.mp hm)
      unfold getBit at this
      rw [ha8, haj] at this
      simp [this, ← List.getD_eq_getElem?_getD]
  · -- mask bytes are < 256
    have hmlt : (ord o.hl (toBytesBE o.k o.mask)).getD i 0 < 256 := by
      have hall := allBytes_ord o.hl _ (toBytesBE_allBytes o.k o.mask)
      have : i < (ord o.hl (toBytesBE o.k o.mask)).length := by rw [hml]; exact hi2
      rw [List.getD_eq_getElem?_getD, List.getElem?_eq_getElem this]
      exact hall _ (List.getElem_mem this)
    have : ((ord o.hl (toBytesBE o.k o.mask)).getD i 0).testBit j = false :=
      Nat.testBit_lt_two_pow (Nat.lt_of_lt_of_le hmlt (by
        rw [show (256:Nat) = 2 ^ 8 from rfl]; exact Nat.pow_le_pow_right (by decide) (by omega)))
    simp [this, ← List.getD_eq_getElem?_getD]

end OdxVerif.Codec

namespace OdxVerif.Codec
open OdxVerif.Bits OdxVerif.OdxM

/-- static (value-independent) disjointness: no two objects of the description claim the same bit -/
def PairDisj (origin : Nat) : List Obj → Nat → Prop
  | [], _ => True
  | o :: rest, c =>
    (∀ pre o' post, rest = pre ++ o' :: post → ∀ a,
        ¬ (o.claims (o.pos origin c) a ∧ o'.claims (o'.pos origin (cursorAfter origin pre (o.pos origin c + o.k))) a)) ∧
    PairDisj origin rest (o.pos origin c + o.k)

/-- no remaining object claims a bit that is already used -/
def Free (s : EncState) (os : List Obj) : Prop :=
  ∀ pre o post, os = pre ++ o :: post → ∀ a,
    o.claims (o.pos s.origin (cursorAfter s.origin pre s.cursorByte)) a → getBit s.used a = false

/-- **Overlap warning ⇐ static overlap** (contrapositive): a description whose objects are pairwise disjoint
    encodes every value assignment without an overlap warning -/
theorem encAll_nowarn (ovs : List (Obj × IVal)) :
    ∀ (s : EncState), PairDisj s.origin (ovs.map (·.1)) s.cursorByte → Free s (ovs.map (·.1)) →
      (encAll ovs s).warn = s.warn := by
  induction ovs with
  | nil => intro s _ _; rfl
  | cons ov rest ih =>
    intro s hpd hfree
    obtain ⟨o, v⟩ := ov
    simp only [List.map_cons, PairDisj] at hpd
    have h0 : (encStep o v s).warn = s.warn :=
      encStep_nowarn o v s (fun a ha => hfree [] o (rest.map (·.1)) rfl a (by simpa [cursorAfter] using ha))
    simp only [encAll]
    rw [ih (encStep o v s) (by rw [encStep_origin, encStep_cursor]; exact hpd.2) ?_, h0]
    -- the remaining objects are still free
    intro pre o' post heq a ha
    rw [encStep_origin, encStep_cursor] at ha
    cases hu : getBit (encStep o v s).used a with
    | false => rfl
    | true =>
      exfalso
      rcases (encStep_used_iff o v s a).mp hu with h1 | h1
      · have := hfree (o :: pre) o' post (by simp only [List.map_cons, heq]; rfl) a (by simpa [cursorAfter] using ha)
        rw [this] at h1; cases h1
      · exact hpd.1 pre o' post heq a ⟨h1, ha⟩

end OdxVerif.Codec

namespace OdxVerif.Codec
open OdxVerif.Bits OdxVerif.OdxM

/-- the raw bit pattern the decoder reads for the object at `(origin, cursor)` -/
def Obj.rawAt (o : Obj) (msg : Bytes) (origin c : Nat) : Nat :=
  readNum msg (o.pos origin c) o.k o.hl / 2 ^ o.bp % 2 ^ o.bl

/-- the values the decoder returns for a flat description -/
def decVals (origin : Nat) (msg : Bytes) : List Obj → Nat → List IVal
  | [], _ => []
  | o :: rest, c => o.ofRaw (o.rawAt msg origin c) :: decVals origin msg rest (o.pos origin c + o.k)

theorem decVals_length (origin : Nat) (msg : Bytes) (os : List Obj) (c : Nat) : (decVals origin msg os c).length = os.length := by
  induction os generalizing c with
  | nil => rfl
  | cons o rest ih => simp [decVals, ih]

theorem decAll_vals (os : List Obj) (d : DecState) :
    (decAll os d).1 = decVals d.origin d.msg os d.cursorByte := by
  induction os generalizing d with
  | nil => rfl
  | cons o rest ih =>
    simp only [decAll, decVals]
    rw [ih]
    rfl

/-- every raw pattern read is canonical (no negative zero) -/
def Canon (origin : Nat) (msg : Bytes) : List Obj → Nat → Prop
  | [], _ => True
  | o :: rest, c => o.canon (o.rawAt msg origin c) ∧ Canon origin msg rest (o.pos origin c + o.k)

/-- every object lies inside the message -/
def Fits (origin : Nat) (msg : Bytes) : List Obj → Nat → Prop
  | [], _ => True
  | o :: rest, c => o.pos origin c + o.k ≤ msg.length ∧ Fits origin msg rest (o.pos origin c + o.k)

theorem eq_of_getBit (a b : Bytes) (ha : AllBytes a) (hb : AllBytes b) (hlen : a.length = b.length)
    (h : ∀ i, getBit a i = getBit b i) : a = b := by
  apply List.ext_getElem hlen
  intro n h1 h2
  apply Nat.eq_of_testBit_eq
  intro j
  by_cases hj : j < 8
  · have := h (8 * n + j)
    unfold getBit at this
    have e1 : (8 * n + j) / 8 = n := by omega
    have e2 : (8 * n + j) % 8 = j := by omega
    rw [e1, e2, List.getD_eq_getElem?_getD, List.getD_eq_getElem?_getD, List.getElem?_eq_getElem h1,
      List.getElem?_eq_getElem h2] at this
    simpa using this
  · have l1 : a[n] < 2 ^ j := Nat.lt_of_lt_of_le (ha _ (List.getElem_mem h1))
      (by rw [show (256:Nat) = 2 ^ 8 from rfl]; exact Nat.pow_le_pow_right (by decide) (by omega))
    have l2 : b[n] < 2 ^ j := Nat.lt_of_lt_of_le (hb _ (List.getElem_mem h2))
      (by rw [show (256:Nat) = 2 ^ 8 from rfl]; exact Nat.pow_le_pow_right (by decide) (by omega))
    rw [Nat.testBit_lt_two_pow l1, Nat.testBit_lt_two_pow l2]

/-- length of the encoder's message: the old length or the byte behind the furthest object -/
theorem encAll_length_le (ovs : List (Obj × IVal)) :
    ∀ (s : EncState) (n : Nat), s.msg.length ≤ n → Fits s.origin (List.replicate n 0) (ovs.map (·.1)) s.cursorByte →
      (encAll ovs s).msg.length ≤ n := by
  induction ovs with
  | nil => intro s n h _; exact h
  | cons ov rest ih =>
    intro s n h hfit
    obtain ⟨o, v⟩ := ov
    simp only [List.map_cons, Fits, List.length_replicate] at hfit
    simp only [encAll]
    exact ih (encStep o v s) n (by rw [encStep_length]; omega)
      (by rw [encStep_origin, encStep_cursor]; exact hfit.2)

theorem Fits_length_only (origin : Nat) (m1 m2 : Bytes) (h : m1.length = m2.length) (os : List Obj) (c : Nat) :
    Fits origin m1 os c ↔ Fits origin m2 os c := by
  induction os generalizing c with
  | nil => exact Iff.rfl
  | cons o rest ih => simp only [Fits, h, ih]

end OdxVerif.Codec

namespace OdxVerif.Codec
open OdxVerif.Bits OdxVerif.OdxM

/-- the description paired with the values decoded from `msg` -/
def reenc (origin : Nat) (msg : Bytes) : List Obj → Nat → List (Obj × IVal)
  | [], _ => []
  | o :: rest, c => (o, o.ofRaw (o.rawAt msg origin c)) :: reenc origin msg rest (o.pos origin c + o.k)

theorem reenc_fst (origin : Nat) (msg : Bytes) (os : List Obj) (c : Nat) : (reenc origin msg os c).map (·.1) = os := by
  induction os generalizing c with
  | nil => rfl
  | cons o rest ih => simp [reenc, ih]

/-- some object of the description claims bit `a` -/
def ClaimedBy (origin : Nat) : List Obj → Nat → Nat → Prop
  | [], _, _ => False
  | o :: rest, c, a => o.claims (o.pos origin c) a ∨ ClaimedBy origin rest (o.pos origin c + o.k) a

/-- on every claimed bit the two messages agree, and every object lies inside `final` -/
def AgreeOn (origin : Nat) (pdu final : Bytes) : List Obj → Nat → Prop
  | [], _ => True
  | o :: rest, c =>
    (∀ j, j < o.bl → getBit final (absBit (o.pos origin c) o.k o.hl (j + o.bp)) = getBit pdu (absBit (o.pos origin c) o.k o.hl (j + o.bp))) ∧
    o.pos origin c + o.k ≤ final.length ∧ AgreeOn origin pdu final rest (o.pos origin c + o.k)

theorem agree_of_claimed (origin : Nat) (pdu final : Bytes) (os : List Obj) (c a : Nat)
    (h : AgreeOn origin pdu final os c) (hc : ClaimedBy origin os c a) :
    getBit final a = getBit pdu a ∧ a / 8 < final.length := by
  induction os generalizing c with
  | nil => cases hc
  | cons o rest ih =>
    simp only [AgreeOn] at h
    simp only [ClaimedBy] at hc
    rcases hc with ⟨j, hj, hja⟩ | hc
    · refine ⟨by rw [hja]; exact h.1 j hj, ?_⟩
      have hj8 : j + o.bp < 8 * o.k := by unfold Obj.k; omega
      rw [hja]; unfold absBit
      cases o.hl <;> simp <;> omega
    · exact ih _ h.2.2 hc

/-- re-encoding the decoded values reproduces every claimed bit of the PDU -/
theorem reenc_agree (pdu : Bytes) (hall : AllBytes pdu) (os : List Obj) :
    ∀ (c : Nat) (s : EncState), (∀ o ∈ os, o.ok) → AllBytes s.msg → s.cursorByte = c →
      Fits s.origin pdu os c → Canon s.origin pdu os c →
      (encAll (reenc s.origin pdu os c) s).warn = s.warn →
      AgreeOn s.origin pdu (encAll (reenc s.origin pdu os c) s).msg os c := by
  induction os with
  | nil => intro c s _ _ _ _ _ _; trivial
  | cons o rest ih =>
    intro c s hok hsall hc hfit hcanon hw
    subst hc
    simp only [Fits] at hfit
    simp only [Canon] at hcanon
    have ho := hok o (List.mem_cons_self ..)
    simp only [reenc, encAll] at hw ⊢
    have h1 := encStep_warn_ge o (o.ofRaw (o.rawAt pdu s.origin s.cursorByte)) s
    have h2 := encAll_warn_ge (reenc s.origin pdu rest (o.pos s.origin s.cursorByte + o.k))
      (encStep o (o.ofRaw (o.rawAt pdu s.origin s.cursorByte)) s)
    have hrest : (encAll (reenc s.origin pdu rest (o.pos s.origin s.cursorByte + o.k))
        (encStep o (o.ofRaw (o.rawAt pdu s.origin s.cursorByte)) s)).warn
        = (encStep o (o.ofRaw (o.rawAt pdu s.origin s.cursorByte)) s).warn := by omega
    have hraw := (o.canon_spec ho _ hcanon.1).2
    refine ⟨?_, ?_, ?_⟩
    · intro j hj
      rw [encAll_frame _ _ hrest _ (encStep_own_used o _ s j hj), encStep_own_bits o _ s j hj, hraw]
      -- bit j of the raw pattern read from the PDU is the PDU's bit at that position
      unfold Obj.rawAt
      rw [Nat.testBit_mod_two_pow, Nat.testBit_div_two_pow, testBit_readNum _ hall _ _ _ _ hfit.1]
      have hj8 : j + o.bp < 8 * o.k := by unfold Obj.k; omega
      simp [hj, hj8]
    · refine Nat.le_trans ?_ (encAll_length_ge _ _)
      rw [encStep_length]; omega
    · have := ih (o.pos s.origin s.cursorByte + o.k) (encStep o (o.ofRaw (o.rawAt pdu s.origin s.cursorByte)) s)
        (fun x hx => hok x (List.mem_cons_of_mem _ hx)) (encStep_allBytes o _ s hsall) (by rw [encStep_cursor])
        (by rw [encStep_origin]; exact hfit.2) (by rw [encStep_origin]; exact hcanon.2)
        (by rw [encStep_origin]; exact hrest)
      rw [encStep_origin] at this
      exact this

end OdxVerif.Codec

namespace OdxVerif.Codec
open OdxVerif.Bits OdxVerif.OdxM

theorem free_of_empty (s : EncState) (h : s.used = []) (os : List Obj) : Free s os := by
  intro pre o post _ a _
  unfold getBit; rw [h]; simp

/-- **Re-encoding a decoded PDU (flat tier, pure level).** If the description's objects are pairwise disjoint,
    all lie inside the PDU, every bit of the PDU is claimed by some object and every raw pattern is canonical,
    then encoding the values the decoder returns — from a fresh message — reproduces the PDU byte for byte,
    without an overlap warning. -/
theorem reencode_flat (os : List Obj) (pdu : Bytes) (hok : ∀ o ∈ os, o.ok) (hall : AllBytes pdu)
    (hdisj : PairDisj 0 os 0) (hfit : Fits 0 pdu os 0) (hcanon : Canon 0 pdu os 0)
    (hdesc : ∀ a, a < 8 * pdu.length → ClaimedBy 0 os 0 a)
    (s0 : EncState) (hm : s0.msg = []) (hu : s0.used = []) (hc : s0.cursorByte = 0) (ho : s0.origin = 0) :
    (encAll (reenc 0 pdu os 0) s0).msg = pdu ∧ (encAll (reenc 0 pdu os 0) s0).warn = s0.warn := by
  have hw : (encAll (reenc 0 pdu os 0) s0).warn = s0.warn :=
    encAll_nowarn (reenc 0 pdu os 0) s0 (by rw [reenc_fst, ho, hc]; exact hdisj) (by rw [reenc_fst]; exact free_of_empty s0 hu os)
  refine ⟨?_, hw⟩
  have hs0all : AllBytes s0.msg := by rw [hm]; intro b hb; cases hb
  have hag := reenc_agree pdu hall os 0 s0 hok hs0all hc (by rw [ho]; exact hfit) (by rw [ho]; exact hcanon)
    (by rw [ho]; exact hw)
  rw [ho] at hag
  have hfall := encAll_allBytes (reenc 0 pdu os 0) s0 hs0all
  -- lengths
  have hle : (encAll (reenc 0 pdu os 0) s0).msg.length ≤ pdu.length :=
    encAll_length_le (reenc 0 pdu os 0) s0 pdu.length (by rw [hm]; simp)
      (by rw [reenc_fst, ho, hc]; exact (Fits_length_only 0 _ pdu (by simp) os 0).mpr hfit)
  have hge : pdu.length ≤ (encAll (reenc 0 pdu os 0) s0).msg.length := by
    cases hlt : decide (pdu.length ≤ (encAll (reenc 0 pdu os 0) s0).msg.length) with
    | true => exact of_decide_eq_true hlt
    | false =>
      have hlt' := of_decide_eq_false hlt
      have hcl := hdesc (8 * (encAll (reenc 0 pdu os 0) s0).msg.length) (by omega)
      have := (agree_of_claimed 0 pdu _ os 0 _ hag hcl).2
      omega
  apply eq_of_getBit _ _ hfall hall (by omega)
  intro a
  by_cases ha : a < 8 * pdu.length
  · exact (agree_of_claimed 0 pdu _ os 0 a hag (hdesc a ha)).1
  · unfold getBit
    have e1 : (encAll (reenc 0 pdu os 0) s0).msg.getD (a / 8) 0 = 0 := by
      rw [List.getD_eq_getElem?_getD, List.getElem?_eq_none (by omega)]; rfl
    have e2 : pdu.getD (a / 8) 0 = 0 := by
      rw [List.getD_eq_getElem?_getD, List.getElem?_eq_none (by omega)]; rfl
    rw [e1, e2]

end OdxVerif.Codec
