import OdxVerif.Proofs.CompReject
/-! Compositional tier, rejection side, second part (task W18, C04): **all nine leaf kinds for VALUE leaves**.
    `Obj.Rejects` (W14) quantifies over every `IVal` of the model; two of the model's atoms are wider than what Python can
    supply: `IVal.bytes` is a list of naturals (a `bytes` object has bytes < 256) and `IVal.flt` is a natural (an IEEE-754
    binary64 pattern is < 2^64).  On such ill-formed atoms the model's encoder is not meaningful (`.bytes [0, 256]` for a 16-bit
    byte field is emplaced, `.flt (2^64)` ends in bitstruct's `foreign` error), so the rejection statements carry the input
    hypothesis `PVal.wfAtoms` (decidable; a condition on the INPUT, every Python value satisfies it).
    This file: the hypothesis, and one rejection lemma per kind (`Obj.rejectsW`):
    * float64 / float32: an `int` is `unmodelled` (`float(int)`; `typed = false`), a binary64 pattern that is not exactly a
      normal binary32 number / zero / infinity is `unmodelled` for float32 (rounding is outside the model; `typed = false`),
      anything else `EncodeError`;
    * byte fields: wrong length → `EncodeError`;
    * ISO-8859-1 / UTF-8 / UCS-2 strings: a code point the codec cannot encode, or a wrong encoded length → `EncodeError`;
    * BCD: negative → plain `OdxError`, BCD form wider than the bit length → `EncodeError`.
    Core Lean only. -/
namespace OdxVerif.Codec
open OdxVerif.Bits OdxVerif.OdxM

/-- an atom Python can supply: the bytes of a `bytes` object are < 256, a `float` is a binary64 pattern -/
def IVal.wf : IVal → Bool
  | .bytes b => b.all (fun x => decide (x < 256))
  | .flt b => decide (b < 2 ^ 64)
  | _ => true

mutual
/-- every atom of the value tree is one Python can supply -/
def PVal.wfAtoms : PVal → Bool
  | .atom v => v.wf
  | .dict kvs => PVal.wfDict kvs
  | .list xs => PVal.wfList xs
  | .none => true
  | .pair _ v => v.wfAtoms
  | .keyed _ v => v.wfAtoms
  | .nokey v => v.wfAtoms
  | .dtc _ => true
def PVal.wfList : List PVal → Bool
  | [] => true
  | x :: xs => x.wfAtoms && PVal.wfList xs
def PVal.wfDict : List (String × PVal) → Bool
  | [] => true
  | (_, x) :: xs => x.wfAtoms && PVal.wfDict xs
end

def wfOpt : Option PVal → Bool
  | some v => v.wfAtoms
  | none => true

theorem PVal.wfList_mem : ∀ (xs : List PVal), PVal.wfList xs = true → ∀ x ∈ xs, x.wfAtoms = true
  | [], _, x, hx => by cases hx
  | y :: ys, h, x, hx => by
    simp only [PVal.wfList, Bool.and_eq_true] at h
    cases hx with
    | head => exact h.1
    | tail _ hm => exact PVal.wfList_mem ys h.2 x hm

theorem PVal.wfDict_lookup : ∀ (kvs : List (String × PVal)), PVal.wfDict kvs = true → ∀ (n : String) (x : PVal),
    lookup n kvs = some x → x.wfAtoms = true
  | [], _, n, x, h => by simp [lookup] at h
  | (k, y) :: rest, hw, n, x, h => by
    simp only [PVal.wfDict, Bool.and_eq_true] at hw
    simp only [lookup] at h
    by_cases hk : n = k
    · simp only [hk, if_true, Option.some.injEq] at h
      rw [← h]; exact hw.1
    · simp only [hk, if_false] at h
      exact PVal.wfDict_lookup rest hw.2 n x h

theorem wfOpt_lookupV (kvs : List (String × PVal)) (hw : PVal.wfDict kvs = true) (n : String) : wfOpt (lookupV n kvs) = true := by
  unfold lookupV
  cases h : lookup n kvs with
  | none => rfl
  | some x =>
    have := PVal.wfDict_lookup kvs hw n x h
    cases x <;> first | rfl | exact this

/-- what the model does not follow at a leaf: `float(int)` for the float kinds, rounding to binary32 -/
def Obj.typedLeaf (o : Obj) : Option PVal → Bool
  | some (.atom (.int _)) => !(o.kind == .float64 || o.kind == .float32)
  | some (.atom (.flt b)) => !(o.kind == .float32) || (Text.f64to32? b).isSome
  | _ => true

/-- the relativised `Obj.Rejects`: a supplied value (whose atoms Python can supply) that is not an in-range atom of the kind
    is rejected with a library error, or with `unmodelled` where `typed` says so -/
def Obj.RejectsW (o : Obj) (typed : Option PVal → Bool) : Prop :=
  ∀ (pv : Option PVal), pv ≠ some PVal.none → wfOpt pv = true → (∀ v, pv = some (.atom v) → o.accepts v = false) →
    ∀ (fuel : Nat) (s : EncState),
    ∃ e s', encodeParam (fuel + 2) o.toParam pv s true = .error (e, s') ∧ RejErr e (typed pv)

theorem Obj.Rejects.toW {o : Obj} {typed : Option PVal → Bool} (h : o.Rejects typed) : o.RejectsW typed :=
  fun pv hne _ hbad fuel s => h pv hne hbad fuel s

theorem Obj.typedLeaf_int (o : Obj) (hint : o.isInt) (pv : Option PVal) : o.typedLeaf pv = true := by
  unfold Obj.isInt at hint
  unfold Obj.typedLeaf
  rcases hint with h | h <;> (split <;> simp [h])

theorem latin1_encode_none (cps : List Nat) (h : cps.all (fun x => decide (x < 256)) = false) : Text.encode .latin1 cps = none := by
  have key : cps.mapM (fun c => if c < 256 then some [c] else none) = none := by
    induction cps with
    | nil => simp at h
    | cons c cs ih =>
      simp only [List.all_cons, Bool.and_eq_false_iff, decide_eq_false_iff_not] at h
      by_cases hc : c < 256
      · rcases h with h | h
        · exact absurd hc h
        · simp [List.mapM_cons, hc, ih h]
      · simp [List.mapM_cons, hc]
  simp only [Text.encode, key, Option.map_none]

theorem latin1_encode_all (cps : List Nat) (h : cps.all (fun x => decide (x < 256)) = true) : Text.encode .latin1 cps = some cps :=
  latin1_encode cps (fun b hb => by simpa using List.all_eq_true.mp h b hb)

/-- the reduction of the parameter's encoder to `emplace_atomic_value` when the latter fails (for every state) -/
theorem encodeParam_obj_atom_fail (o : Obj) (v : IVal) (hadm : typeAdmits o.bt v = true) (e : Err)
    (hrej : ∀ s : EncState, emplaceAtomic v o.bl o.bt o.enc o.hl none s true = .error (e, s)) (fuel : Nat) (s : EncState) :
    ∃ s', encodeParam (fuel + 2) o.toParam (some (.atom v)) s true = .error (e, s') := by
  refine ⟨?_, ?_⟩
  rotate_left
  · simp [Obj.toParam, encodeParam, encodeDop, encodeDct, hadm, bind, run_bind, run_modifyS, hrej]
    rfl

/-- **one rejection lemma for all nine kinds** -/
theorem Obj.rejectsW (o : Obj) (ho : o.ok) : o.RejectsW o.typedLeaf := by
  by_cases hint : o.isInt
  · intro pv hne _ hbad fuel s
    obtain ⟨e, s', hrun, he⟩ := o.rejects_of_int ho hint pv hne hbad fuel s
    refine ⟨e, s', hrun, ?_⟩
    rw [o.typedLeaf_int hint]
    exact he
  intro pv hne hwf hbad fuel s
  obtain ⟨hk, hbl, hsz⟩ := ho
  have hi1 : o.kind ≠ .int32 := fun h => hint (Or.inl h)
  have hi2 : o.kind ≠ .uint32 := fun h => hint (Or.inr h)
  cases pv with
  | none =>
    refine ⟨.encode, ?_, ?_, RejErr.encode _⟩
    rotate_left
    · simp [Obj.toParam, encodeParam, bind, run_bind, run_modifyS, odxraise]
      rfl
  | some x =>
    cases x with
    | none => exact absurd rfl hne
    | list xs =>
      refine ⟨.encode, ?_, ?_, RejErr.encode _⟩
      rotate_left
      · simp [Obj.toParam, encodeParam, encodeDop, bind, run_bind, run_modifyS, run_raise]
        rfl
    | dict xs =>
      refine ⟨.encode, ?_, ?_, RejErr.encode _⟩
      rotate_left
      · simp [Obj.toParam, encodeParam, encodeDop, bind, run_bind, run_modifyS, run_raise]
        rfl
    | pair n x =>
      refine ⟨.encode, ?_, ?_, RejErr.encode _⟩
      rotate_left
      · simp [Obj.toParam, encodeParam, encodeDop, bind, run_bind, run_modifyS, run_raise]
        rfl
    | keyed k x =>
      refine ⟨.encode, ?_, ?_, RejErr.encode _⟩
      rotate_left
      · simp [Obj.toParam, encodeParam, encodeDop, bind, run_bind, run_modifyS, run_raise]
        rfl
    | nokey x =>
      refine ⟨.encode, ?_, ?_, RejErr.encode _⟩
      rotate_left
      · simp [Obj.toParam, encodeParam, encodeDop, bind, run_bind, run_modifyS, run_raise]
        rfl
    | dtc c =>
      refine ⟨.encode, ?_, ?_, RejErr.encode _⟩
      rotate_left
      · simp [Obj.toParam, encodeParam, encodeDop, bind, run_bind, run_modifyS, run_raise]
        rfl
    | atom a =>
      have hacc : o.accepts a = false := hbad a rfl
      have hwa : a.wf = true := hwf
      unfold Obj.accepts at hacc
      unfold Obj.encOk at hk
      unfold Obj.sizeOk at hsz
      cases hkind : o.kind <;> simp only [hkind, ne_eq, not_true_eq_false, reduceCtorEq, not_false_eq_true] at hi1 hi2 <;>
        cases a <;> simp only [hkind] at hacc hk hsz
      -- float64, int: float(int)
      case float64.int i =>
        rcases hk with he | he <;>
        · obtain ⟨s', hrun⟩ := encodeParam_obj_atom_fail o (.int i) (by simp [Obj.bt, hkind, typeAdmits]) .unmodelled
            (fun s => by simp [emplaceAtomic, Obj.bt, hkind, he, hsz, odxassert, bind, pure, run_bind, run_ite, run_pure, run_raise]) fuel s
          exact ⟨.unmodelled, s', hrun, Or.inr ⟨rfl, by simp [Obj.typedLeaf, hkind]⟩⟩
      case float32.int i =>
        rcases hk with he | he <;>
        · obtain ⟨s', hrun⟩ := encodeParam_obj_atom_fail o (.int i) (by simp [Obj.bt, hkind, typeAdmits]) .unmodelled
            (fun s => by simp [emplaceAtomic, Obj.bt, hkind, he, hsz, odxassert, bind, pure, run_bind, run_ite, run_pure, run_raise]) fuel s
          exact ⟨.unmodelled, s', hrun, Or.inr ⟨rfl, by simp [Obj.typedLeaf, hkind]⟩⟩
      -- float64, float: an ill-formed pattern only
      case float64.flt b =>
        simp only [IVal.wf, decide_eq_true_eq] at hwa
        rw [hsz] at hacc
        simp [hwa] at hacc
      -- float32, float: not exactly representable
      case float32.flt b =>
        simp only [IVal.wf, decide_eq_true_eq] at hwa
        have hnone : Text.f64to32? b = none := by
          cases h : Text.f64to32? b with
          | none => rfl
          | some r => simp [hwa, h] at hacc
        rcases hk with he | he <;>
        · obtain ⟨s', hrun⟩ := encodeParam_obj_atom_fail o (.flt b) (by simp [Obj.bt, hkind, typeAdmits]) .unmodelled
            (fun s => by simp [emplaceAtomic, Obj.bt, hkind, he, hsz, hnone, odxassert, bind, pure, run_bind, run_ite, run_pure, run_raise])
            fuel s
          exact ⟨.unmodelled, s', hrun, Or.inr ⟨rfl, by simp [Obj.typedLeaf, hkind, hnone]⟩⟩
      -- byte field: wrong length
      case bytes.bytes b =>
        have hall : b.all (fun x => decide (x < 256)) = true := hwa
        simp only [hall, Bool.and_true, decide_eq_false_iff_not] at hacc
        rcases hk with he | he <;>
        · obtain ⟨s', hrun⟩ := encodeParam_obj_atom_fail o (.bytes b) (by simp [Obj.bt, hkind, typeAdmits]) .encode
            (fun s => by
              by_cases h1 : o.bl < 8 * b.length
              · simp [emplaceAtomic, fitBytes, Obj.bt, hkind, he, h1, odxassert, bind, pure, run_bind, run_ite, run_pure, odxraise]
              · have h2 : 8 * b.length < o.bl := by omega
                simp [emplaceAtomic, fitBytes, Obj.bt, hkind, he, h1, h2, odxassert, bind, pure, run_bind, run_ite, run_pure, odxraise])
            fuel s
          exact ⟨.encode, s', hrun, RejErr.encode _⟩
      -- ISO-8859-1
      case ascii.str cps =>
        obtain ⟨_, hhl⟩ := hsz
        rcases hk with he | he <;>
        · obtain ⟨s', hrun⟩ := encodeParam_obj_atom_fail o (.str cps) (by simp [Obj.bt, hkind, typeAdmits]) .encode
            (fun s => by
              cases hall : cps.all (fun x => decide (x < 256)) with
              | false =>
                have hn := latin1_encode_none cps hall
                simp [emplaceAtomic, stringCodec, Obj.bt, hkind, he, hn, bind, pure, run_bind, run_ite, run_pure, odxraise]
              | true =>
                have hn := latin1_encode_all cps hall
                simp only [hall, Bool.and_true, decide_eq_false_iff_not] at hacc
                by_cases h1 : o.bl < 8 * cps.length
                · simp [emplaceAtomic, stringCodec, fitBytes, Obj.bt, hkind, he, hn, h1, bind, pure, run_bind, run_ite, run_pure, odxraise]
                · have h2 : 8 * cps.length < o.bl := by omega
                  simp [emplaceAtomic, stringCodec, fitBytes, Obj.bt, hkind, he, hn, h1, h2, bind, pure, run_bind, run_ite, run_pure,
                    odxraise])
            fuel s
          exact ⟨.encode, s', hrun, RejErr.encode _⟩
      -- UTF-8
      case utf8.str cps =>
        obtain ⟨_, hhl⟩ := hsz
        rcases hk with he | he <;>
        · obtain ⟨s', hrun⟩ := encodeParam_obj_atom_fail o (.str cps) (by simp [Obj.bt, hkind, typeAdmits]) .encode
            (fun s => by
              cases hn : Text.encode .utf8 cps with
              | none =>
                simp [emplaceAtomic, stringCodec, Obj.bt, hkind, he, hn, bind, pure, run_bind, run_ite, run_pure, odxraise]
              | some bs =>
                simp only [hn, decide_eq_false_iff_not] at hacc
                by_cases h1 : o.bl < 8 * bs.length
                · simp [emplaceAtomic, stringCodec, fitBytes, Obj.bt, hkind, he, hn, h1, bind, pure, run_bind, run_ite, run_pure, odxraise]
                · have h2 : 8 * bs.length < o.bl := by omega
                  simp [emplaceAtomic, stringCodec, fitBytes, Obj.bt, hkind, he, hn, h1, h2, bind, pure, run_bind, run_ite, run_pure,
                    odxraise])
            fuel s
          exact ⟨.encode, s', hrun, RejErr.encode _⟩
      -- UCS-2
      case unicode2.str cps =>
        obtain ⟨_, hhl⟩ := hsz
        rcases hk with he | he <;>
        · obtain ⟨s', hrun⟩ := encodeParam_obj_atom_fail o (.str cps) (by simp [Obj.bt, hkind, typeAdmits]) .encode
            (fun s => by
              cases hn : Text.encode .utf16be cps with
              | none =>
                simp [emplaceAtomic, stringCodec, Obj.bt, hkind, he, hhl, hn, bind, pure, run_bind, run_ite, run_pure, odxraise]
              | some bs =>
                simp only [hn, decide_eq_false_iff_not] at hacc
                by_cases h1 : o.bl < 8 * bs.length
                · simp [emplaceAtomic, stringCodec, fitBytes, Obj.bt, hkind, he, hhl, hn, h1, bind, pure, run_bind, run_ite, run_pure,
                    odxraise]
                · have h2 : 8 * bs.length < o.bl := by omega
                  simp [emplaceAtomic, stringCodec, fitBytes, Obj.bt, hkind, he, hhl, hn, h1, h2, bind, pure, run_bind, run_ite,
                    run_pure, odxraise])
            fuel s
          exact ⟨.encode, s', hrun, RejErr.encode _⟩
      -- BCD
      case bcd.int i =>
        have h64 : ¬ (64 < o.bl) := by omega
        by_cases hneg : i < 0
        · obtain ⟨s', hrun⟩ := encodeParam_obj_atom_fail o (.int i) (by simp [Obj.bt, hkind, typeAdmits]) .odx
            (fun s => by
              simp [emplaceAtomic, rawOfUInt32, Obj.bt, hkind, h64, hneg, bind, pure, run_bind, run_ite, run_pure, run_raise, odxraise])
            fuel s
          exact ⟨.odx, s', hrun, RejErr.odx _⟩
        · have h0 : 0 ≤ i := by omega
          have hnat : i.natAbs = i.toNat := by omega
          simp only [h0, decide_true, Bool.true_and, decide_eq_false_iff_not] at hacc
          unfold Obj.bcdShift at hacc
          obtain ⟨s', hrun⟩ := encodeParam_obj_atom_fail o (.int i) (by simp [Obj.bt, hkind, typeAdmits]) .encode
            (fun s => by
              rcases hk with he | he
              · simp only [he, if_true] at hacc
                have hbit : o.bl < bitLength (bcdEnc 4 i.toNat i.toNat) := by
                  apply Nat.lt_of_not_le
                  intro hle
                  exact hacc ((bitLength_le_iff _ _).mp hle)
                simp [emplaceAtomic, rawOfUInt32, Obj.bt, hkind, h64, hneg, hnat, he, hbit, bind, pure, run_bind, run_ite, run_pure,
                  run_raise, odxraise]
              · simp only [he, Option.some.injEq, reduceCtorEq, if_false] at hacc
                have hbit : o.bl < bitLength (bcdEnc 8 i.toNat i.toNat) := by
                  apply Nat.lt_of_not_le
                  intro hle
                  exact hacc ((bitLength_le_iff _ _).mp hle)
                simp [emplaceAtomic, rawOfUInt32, Obj.bt, hkind, h64, hneg, hnat, he, hbit, bind, pure, run_bind, run_ite, run_pure,
                  run_raise, odxraise])
            fuel s
          exact ⟨.encode, s', hrun, RejErr.encode _⟩
      -- every other atom: wrong Python type
      all_goals
        refine ⟨.encode, ?_, ?_, RejErr.encode _⟩
        rotate_left
        · simp [Obj.toParam, Obj.bt, hkind, encodeParam, encodeDop, typeAdmits, bind, run_bind, run_modifyS, run_raise]
          rfl

end OdxVerif.Codec
