import OdxVerif.Model.Decode
/-! The terminator search of MIN-MAX-LENGTH-TYPE decoding (`findTerm`, the model of the `bytes.find` loop of
    `MinMaxLengthType.decode_from_pdu`): specification for all messages. Core Lean only. -/
namespace OdxVerif.Codec
open OdxVerif.Bits

/-- what makes position `p` a terminator for an object that starts at `orig`: the sequence is there and it is aligned
    relative to the start of the object -/
def TermAt (msg seq : Bytes) (orig p : Nat) : Prop :=
  (msg.drop p).take seq.length = seq ∧ (p - orig) % seq.length = 0

instance (msg seq : Bytes) (orig p : Nat) : Decidable (TermAt msg seq orig p) := by unfold TermAt; exact inferInstance

/-- **Specification of the terminator search, for every message**: with enough fuel (`stop < p + fuel`; the model runs it
    with `len(msg) + 1`), the result is the *first* position `r ≥ p` with `r + |seq| ≤ stop` at which the sequence occurs
    aligned — none before it —, and `none` exactly when there is no such position. -/
theorem findTerm_spec (msg seq : Bytes) (orig stop : Nat) : ∀ (fuel p : Nat), stop < p + fuel →
    match findTerm msg seq orig stop fuel p with
    | some r => p ≤ r ∧ r + seq.length ≤ stop ∧ TermAt msg seq orig r ∧ ∀ q, p ≤ q → q < r → ¬ TermAt msg seq orig q
    | none => ∀ q, p ≤ q → q + seq.length ≤ stop → ¬ TermAt msg seq orig q := by
  intro fuel
  induction fuel with
  | zero =>
    intro p hf
    simp only [findTerm]
    intro q hq hs
    omega
  | succ f ih =>
    intro p hf
    simp only [findTerm]
    by_cases h1 : p + seq.length > stop
    · rw [if_pos h1]
      intro q hq hs
      omega
    · rw [if_neg h1]
      by_cases h2 : (msg.drop p).take seq.length = seq ∧ (p - orig) % seq.length = 0
      · rw [if_pos h2]
        exact ⟨Nat.le_refl _, by omega, h2, fun q h3 h4 => by omega⟩
      · rw [if_neg h2]
        have := ih (p + 1) (by omega)
        cases hr : findTerm msg seq orig stop f (p + 1) with
        | none =>
          rw [hr] at this
          intro q hq hs
          by_cases hqp : q = p
          · subst hqp; exact h2
          · exact this q (by omega) hs
        | some r =>
          rw [hr] at this
          obtain ⟨a, b, c, d⟩ := this
          refine ⟨by omega, b, c, ?_⟩
          intro q hq hlt
          by_cases hqp : q = p
          · subst hqp; exact h2
          · exact d q (by omega) hlt

/-- the search finds a given aligned occurrence when there is none before it -/
theorem findTerm_eq_some (msg seq : Bytes) (orig stop fuel p p0 : Nat) (hf : stop < p + fuel) (hp : p ≤ p0)
    (hs : p0 + seq.length ≤ stop) (hit : TermAt msg seq orig p0)
    (hno : ∀ q, p ≤ q → q < p0 → ¬ TermAt msg seq orig q) : findTerm msg seq orig stop fuel p = some p0 := by
  have := findTerm_spec msg seq orig stop fuel p hf
  cases hr : findTerm msg seq orig stop fuel p with
  | none =>
    rw [hr] at this
    exact absurd hit (this p0 hp hs)
  | some r =>
    rw [hr] at this
    obtain ⟨a, b, c, d⟩ := this
    congr 1
    by_cases h1 : r < p0
    · exact absurd c (hno r a h1)
    · by_cases h2 : p0 < r
      · exact absurd hit (d p0 hp h2)
      · omega

/-- … and nothing when there is no aligned occurrence that ends before `stop` -/
theorem findTerm_eq_none (msg seq : Bytes) (orig stop fuel p : Nat)
    (hno : ∀ q, p ≤ q → q + seq.length ≤ stop → ¬ TermAt msg seq orig q) : findTerm msg seq orig stop fuel p = none := by
  induction fuel generalizing p with
  | zero => rfl
  | succ f ih =>
    simp only [findTerm]
    by_cases h1 : p + seq.length > stop
    · rw [if_pos h1]
    · have h2 : ¬ ((msg.drop p).take seq.length = seq ∧ (p - orig) % seq.length = 0) := hno p (Nat.le_refl _) (by omega)
      rw [if_neg h1, if_neg h2]
      exact ih (p + 1) (fun q hq hs => hno q (by omega) hs)

end OdxVerif.Codec
