import OdxVerif.Proofs.CompCompuKinds
/-! Compositional components, extension W23 (compu leaves, second batch).

    **Which compu categories can be leaves at all.**  The codec model's `CCompu` (`Model/Codec.lean`) has four constructors:
    `identical`, `linear`, `texttable` and `other`.  SCALE-LINEAR, TAB-INTP, RAT-FUNC, SCALE-RAT-FUNC and COMPU-CODE all map to
    `other`, for which `encodeDop` / `decodeDop` answer `unmodelled` in every state (`encodeDop_other`, `decodeDop_other`
    below) — the exact-rational model of property C07 (`Model/Compu.lean`, `C07_roundtrip_*`) knows them, the composite codec
    model does not follow them.  So they CANNOT become `Described3` leaves without a model change (forbidden here); what the
    C07 theorems say about them is about `CompuMethod.convert_*` only.  Likewise a LINEAR method over a *real internal* type
    (A_FLOAT32/64 coded type) is outside `exactDesc` (`linMethod?_float_internal`): `unmodelled`.

    What the model does carry beyond W21, and what this file turns into leaves:
    * **LINEAR with a real PHYSICAL type** (A_FLOAT32 / A_FLOAT64 physical, integer internal): `LinFLeaf`.  Floats are binary64
      bit patterns in the model (`IVal.flt b`); the exactness guard: the supplied pattern is a finite number other than `-0.0`
      (`toVal?`), `exactP` / `exactI` (every intermediate of the Python expression is `a/2^k`, `|a| < 2^52`, `k ≤ 60`), and the
      exact result `q = (offset + factor·i)/denom` is a *normal* binary64 number or zero (`ratToF64? q`), the zero carrying the
      sign of the denominator (`negZeroOf`).  The supplied value may also be a Python `int` (a float type admits it); the
      decoder returns the float.
    * **DTC-DOP with a LINEAR method** (part C of the task): `DtcLinLeaf`. -/
namespace OdxVerif.Codec
open OdxVerif.Bits OdxVerif.OdxM OdxVerif.Compu

/-! ### the categories the codec model does not follow -/

/-- SCALE-LINEAR / TAB-INTP / RAT-FUNC / SCALE-RAT-FUNC / COMPU-CODE (`CCompu.other`): the encoder of the codec model is
    `unmodelled`, whatever the value, state and mode -/
theorem encodeDop_other (f : Nat) (dct : Dct) (phys : BaseType) (pv : PVal) (s : EncState) (st : Bool) :
    encodeDop (f + 1) (.simple dct phys .other) pv s st = .error (.unmodelled, s) := by
  simp [encodeDop, run_raise]

/-- … and the decoder too, as soon as the diag-coded type has extracted a value -/
theorem decodeDop_other (f : Nat) (dct : Dct) (phys : BaseType) (d d' : DecState) (st : Bool) (v : IVal)
    (h : decodeDct dct d st = .ok (v, d')) : decodeDop (f + 1) (.simple dct phys .other) d st = .error (.unmodelled, d') := by
  simp [decodeDop, bind, run_bind, h, run_raise]

/-- hence no `ConvOk` fact exists for such a DOP: it cannot be a leaf of the nested tier -/
theorem not_convOk_other (dct : Dct) (phys : BaseType) (sup val : PVal) (i : IVal) (es : EncState) (es' : EncState)
    (hrun : encodeDct dct i es true = .ok ((), es')) : ¬ ConvOk (.simple dct phys .other) dct sup val i := by
  intro h
  have := h.enc 0 es
  rw [encodeDop_other, hrun] at this
  cases this

/-- a LINEAR method whose *internal* type is real is outside the exactness guard of the model (`exactDesc` wants an integer
    internal type): no method object, i.e. `unmodelled` -/
theorem linMethod?_float_internal (d : LinDesc) (ity pty : BaseType) (h : ity = .float32 ∨ ity = .float64) :
    linMethod? d ity pty = none := by
  cases hm : linMethod? d ity pty with
  | none => rfl
  | some m =>
    obtain ⟨s, i, p, _, hi, _, hmk, _, _, hex⟩ := linMethod_spec hm
    obtain ⟨hity, _⟩ := mkLinSeg_spec hmk
    have hint : s.ity.isInt = true := by
      simp only [exactDesc, Bool.and_eq_true] at hex
      exact hex.1.1.2
    rw [hity] at hint
    rcases h with rfl | rfl <;> simp [dtype?] at hi <;> subst hi <;> simp [DType.isInt] at hint

/-! ### IDENTICAL with a physical type that differs from the coded type

    W21 and the earlier tiers type an object leaf by the DOP `.simple o.dct o.bt .identical` (physical type = coded type).
    `IdenticalCompuMethod.compu_method_from_et` admits a different physical type **only among the three string types**
    (A_ASCIISTRING / A_UTF8STRING / A_UNICODE2STRING — e.g. a coded A_ASCIISTRING shown as A_UNICODE2STRING); any other mismatch is an
    `odxassert` failure at load time in strict mode (clause `loadable`; the model's `CCompu.method?` does not repeat that check, it
    describes the DOP object however it was built).  `DataObjectProperty.encode_into_pdu`: `is_valid_physical_value` checks the value
    against the PHYSICAL type (`typeAdmits phys`), the conversion is the identity, the diag-coded type then checks it against the coded
    type (`Obj.inRange`); decoding returns the internal value unchanged. -/

def BaseType.isStr : BaseType → Bool
  | .ascii | .utf8 | .unicode2 => true
  | _ => false

structure IdLeaf where
  o : Obj
  phys : BaseType
  v : IVal

def IdLeaf.dop (l : IdLeaf) : Dop := .simple l.o.dct l.phys .identical

/-- what the loader accepts for IDENTICAL -/
def IdLeaf.loadable (l : IdLeaf) : Prop := l.phys = l.o.bt ∨ (l.o.bt.isStr = true ∧ l.phys.isStr = true)

/-- the object can hold `v`, the physical type admits it, the loader accepts the pair of types -/
def IdLeaf.ok (l : IdLeaf) : Prop := l.o.ok ∧ l.o.inRange l.v ∧ typeAdmits l.phys l.v = true ∧ l.loadable

theorem IdLeaf.convOk (l : IdLeaf) (h : l.ok) : ConvOk l.dop l.o.dct (.atom l.v) (.atom l.v) l.v where
  enc := by
    intro f es
    unfold IdLeaf.dop encodeDop
    simp [h.2.2.1]
  dec := by
    intro f ds ds' hdec
    unfold IdLeaf.dop decodeDop
    simp [bind, run_bind, hdec, pure, run_pure]
  sup_ne_none := by simp

def IdLeaf.comp (l : IdLeaf) : Comp := Comp.ofConvLeaf l.o l.dop (.atom l.v) (.atom l.v) l.v
theorem IdLeaf.comp_ok (l : IdLeaf) (h : l.ok) : l.comp.Ok := Comp.ofConvLeaf_ok _ _ _ _ _ h.1 h.2.1 (l.convOk h)
theorem IdLeaf.comp_endOk (l : IdLeaf) : l.comp.EndOk := Comp.ofConvLeaf_endOk _ _ _ _ _
def IdLeaf.constComp (l : IdLeaf) (supplied : Bool) : Comp := Comp.ofConvPhysConst l.o l.dop (.atom l.v) (.atom l.v) l.v supplied
theorem IdLeaf.constComp_ok (l : IdLeaf) (h : l.ok) (b : Bool) : (l.constComp b).Ok :=
  Comp.ofConvPhysConst_ok _ _ _ _ _ b h.1 h.2.1 (l.convOk h) (pvalEq_atom_self _) (pvalEq_atom_self _)
theorem IdLeaf.constComp_endOk (l : IdLeaf) (b : Bool) : (l.constComp b).EndOk := Comp.ofConvPhysConst_endOk _ _ _ _ _ b
def IdLeaf.defaultComp (l : IdLeaf) (dv : IVal) (omitted : Bool) : Comp :=
  Comp.ofConvDefault l.o l.dop (.atom dv) omitted (.atom l.v) (.atom l.v) l.v
theorem IdLeaf.defaultComp_ok (l : IdLeaf) (h : l.ok) (dv : IVal) (om : Bool) (hom : om = true → l.v = dv) :
    (l.defaultComp dv om).Ok :=
  Comp.ofConvDefault_ok _ _ _ _ _ _ _ h.1 h.2.1 (l.convOk h) (fun e => by rw [hom e])
theorem IdLeaf.defaultComp_endOk (l : IdLeaf) (dv : IVal) (om : Bool) : (l.defaultComp dv om).EndOk :=
  Comp.ofConvDefault_endOk _ _ _ _ _ _ _

/-- the hypothesis `typeAdmits` is sharp: a value the physical type does not admit is an EncodeError (strict and lenient) -/
theorem IdLeaf.encode_not_admitted (o : Obj) (phys : BaseType) (v : IVal) (h : typeAdmits phys v = false) (f : Nat)
    (es : EncState) (st : Bool) : encodeDop (f + 1) (.simple o.dct phys .identical) (.atom v) es st = .error (.encode, es) := by
  unfold encodeDop
  simp [h, run_raise]

/-! ### LINEAR with a real physical type -/

/-- encoding side, any numeric physical value (`int` or finite `float`) inside the guard -/
theorem dopP2I_linear_num {σ : Type} (s : LinSeg) (v : IVal) (p : Val) (y : Rat) (i : Int)
    (hv : toVal? v = some p) (hy : p.num? = some y)
    (hvp : (Method.linear s).validP p = .ok true) (hex : exactP s y = true)
    (hconv : (Method.linear s).p2i p = .ok (.int i)) (hvi : (Method.linear s).validI (.int i) = .ok true)
    (st : σ) (strict : Bool) :
    (dopP2I (.linear s) v : OdxM σ IVal) st strict = .ok (.int i, st) := by
  have hpa : s.physApplies p = .ok true := hvp
  have hcv : s.convP2I p = .ok (.int i) := by
    simpa [Method.p2i, hpa, bind, Except.bind] using hconv
  have hia : s.intApplies (.int i) = .ok true := hvi
  cases v with
  | bytes b => simp [toVal?] at hv
  | int z =>
    simp [dopP2I, hv, Method.validP, Method.validI, hpa, hia, methodP2I, hy, hex, hcv, ofVal?, bind, run_bind, run_pure, pure]
  | flt b =>
    simp [dopP2I, hv, Method.validP, Method.validI, hpa, hia, methodP2I, hy, hex, hcv, ofVal?, bind, run_bind, run_pure, pure]
  | str c =>
    simp [dopP2I, hv, Method.validP, Method.validI, hpa, hia, methodP2I, hy, hex, hcv, ofVal?, bind, run_bind, run_pure, pure]

/-- decoding side: a valid integer internal value inside the guard whose exact image `q` is a representable real -/
theorem dopI2P_linear_flt {σ : Type} (s : LinSeg) (i : Int) (q : Rat) (b : Nat) (hd : s.denom ≠ 0)
    (hvi : (Method.linear s).validI (.int i) = .ok true) (hex : exactI s i = true)
    (hconv : (Method.linear s).i2p (.int i) = .ok (.flt q)) (hb : ratToF64? q (decide (s.denom < 0)) = some b)
    (st : σ) (strict : Bool) :
    (dopI2P (.linear s) (.int i) : OdxM σ (Option IVal)) st strict = .ok (some (.flt b), st) := by
  have hia : s.intApplies (.int i) = .ok true := hvi
  have hcv : s.convI2P (.int i) = .ok (.flt q) := by
    simpa [Method.i2p, hia, bind, Except.bind] using hconv
  simp [dopI2P, toVal?, Method.validI, hia, methodI2P, Val.num?, hd, hex, hcv, ofVal?, negZeroOf, hb, bind, run_bind, run_pure,
    pure]

/-- a LINEAR leaf with a real physical type: object of the internal value, physical type (A_FLOAT32 / A_FLOAT64), description,
    its segment; supplied value `sup` (`.flt bits` or `.int z`) = the number `p` = the rational `y`; internal value `i`; its
    exact image `q`, as a binary64 pattern `b` — the value the decoder returns -/
structure LinFLeaf where
  o : Obj
  phys : BaseType
  d : LinDesc
  s : LinSeg
  sup : IVal
  p : Val
  y : Rat
  i : Int
  q : Rat
  b : Nat

def LinFLeaf.dop (l : LinFLeaf) : Dop := .simple l.o.dct l.phys (.linear l.d)

/-- decidable.  The exactness guard for floats is the conjunction of `toVal? sup = some p` (finite, not `-0.0`), `exactP`,
    `exactI` and `ratToF64? q … = some b` (the exact image is a normal binary64 number or zero) -/
def LinFLeaf.ok (l : LinFLeaf) : Prop :=
  l.o.ok ∧ l.o.inRange (.int l.i) ∧ linMethod? l.d l.o.bt l.phys = some (.linear l.s) ∧ l.s.denom ≠ 0 ∧
  toVal? l.sup = some l.p ∧ l.p.num? = some l.y ∧
  (Method.linear l.s).validP l.p = .ok true ∧ exactP l.s l.y = true ∧
  (Method.linear l.s).p2i l.p = .ok (.int l.i) ∧ (Method.linear l.s).validI (.int l.i) = .ok true ∧
  exactI l.s l.i = true ∧ (Method.linear l.s).i2p (.int l.i) = .ok (.flt l.q) ∧
  ratToF64? l.q (decide (l.s.denom < 0)) = some l.b

theorem LinFLeaf.convOk (l : LinFLeaf) (h : l.ok) : ConvOk l.dop l.o.dct (.atom l.sup) (.atom (.flt l.b)) (.int l.i) where
  enc := by
    obtain ⟨_, _, hm, _, hv, hy, hvp, hexP, hp2i, hvi, _, _, _⟩ := h
    intro f es
    have hconv := dopP2I_linear_num l.s l.sup l.p l.y l.i hv hy hvp hexP hp2i hvi es true
    unfold LinFLeaf.dop encodeDop
    simp only [CCompu.method?, Obj.dct_baseType, hm, bind, run_bind, hconv]
  dec := by
    obtain ⟨_, _, hm, hd, _, _, _, _, _, hvi, hexI, hi2p, hb⟩ := h
    intro f ds ds' hdec
    unfold LinFLeaf.dop decodeDop
    simp only [CCompu.method?, Obj.dct_baseType, hm, bind, run_bind, hdec, dopI2P_linear_flt l.s l.i l.q l.b hd hvi hexI hi2p hb,
      pure, run_pure]
  sup_ne_none := by simp

/-- the VALUE parameter: supplied `sup`, decoded the float `b` -/
def LinFLeaf.comp (l : LinFLeaf) : Comp := Comp.ofConvLeaf l.o l.dop (.atom l.sup) (.atom (.flt l.b)) (.int l.i)
theorem LinFLeaf.comp_ok (l : LinFLeaf) (h : l.ok) : l.comp.Ok := Comp.ofConvLeaf_ok _ _ _ _ _ h.1 h.2.1 (l.convOk h)
theorem LinFLeaf.comp_endOk (l : LinFLeaf) : l.comp.EndOk := Comp.ofConvLeaf_endOk _ _ _ _ _
theorem LinFLeaf.comp_val (l : LinFLeaf) : l.comp.pair.val = .atom (.flt l.b) := rfl

/-- the PHYS-CONST parameter whose constant is the float `sup`; the decoder compares what it decodes (`b`) with the constant
    bit for bit, hence `sup = .flt b` -/
def LinFLeaf.constComp (l : LinFLeaf) (supplied : Bool) : Comp :=
  Comp.ofConvPhysConst l.o l.dop (.atom l.sup) (.atom (.flt l.b)) (.int l.i) supplied
theorem LinFLeaf.constComp_ok (l : LinFLeaf) (h : l.ok) (hsame : l.sup = .flt l.b) (b : Bool) : (l.constComp b).Ok :=
  Comp.ofConvPhysConst_ok _ _ _ _ _ b h.1 h.2.1 (l.convOk h) (pvalEq_atom_self _) (by rw [hsame]; exact pvalEq_atom_self _)
theorem LinFLeaf.constComp_endOk (l : LinFLeaf) (b : Bool) : (l.constComp b).EndOk := Comp.ofConvPhysConst_endOk _ _ _ _ _ b

/-- VALUE with PHYSICAL-DEFAULT-VALUE -/
def LinFLeaf.defaultComp (l : LinFLeaf) (dv : IVal) (omitted : Bool) : Comp :=
  Comp.ofConvDefault l.o l.dop (.atom dv) omitted (.atom l.sup) (.atom (.flt l.b)) (.int l.i)
theorem LinFLeaf.defaultComp_ok (l : LinFLeaf) (h : l.ok) (dv : IVal) (om : Bool) (hom : om = true → l.sup = dv) :
    (l.defaultComp dv om).Ok :=
  Comp.ofConvDefault_ok _ _ _ _ _ _ _ h.1 h.2.1 (l.convOk h) (fun e => by rw [hom e])
theorem LinFLeaf.defaultComp_endOk (l : LinFLeaf) (dv : IVal) (om : Bool) : (l.defaultComp dv om).EndOk :=
  Comp.ofConvDefault_endOk _ _ _ _ _ _ _

/-! ### DTC-DOP with a LINEAR compu method (trouble code = linear image of the coded value)

    `DtcDop.encode_into_pdu`: `convert_to_numerical_trouble_code`, then `int(compu_method.convert_physical_to_internal(tc))`
    — **no** `is_valid_physical_value`, **no** `is_valid_internal_value` —, then the look-up "is the (physical) trouble code one
    of the `trouble_code`s of the DTCs", then the diag-coded type.  `decode_from_pdu`: diag-coded type,
    `is_valid_internal_value`, `convert_internal_to_physical`, the result must be an `int` with exactly one DTC.
    History: before the fix `c03-dtc-dop-encoder-compares-coded-value` the encoder looked the CODED value up among the
    (physical) trouble codes; the round trip then needed a clause `known_internal` (`dtcs.any (·.1 == i)`) in `ok`, which the
    proof forced and `DtcLinLeaf.encode_unknown_internal` showed to be sharp.  That was a defect of odxtools (C03: the encoder
    refused DTCs its own decoder returns); after the repair the clause is gone — encoder and decoder look up the same
    (physical) code `z` — and `DtcLinLeaf.encode_described` states that every described DTC is accepted. -/

structure DtcLinLeaf where
  o : Obj
  phys : BaseType
  d : LinDesc
  s : LinSeg
  dtcs : List (Int × String)
  z : Int            -- the trouble code (physical)
  i : Int            -- the coded value (internal)

def DtcLinLeaf.dop (l : DtcLinLeaf) : Dop := .dtc l.o.dct l.phys (.linear l.d) l.dtcs

/-- decidable -/
def DtcLinLeaf.ok (l : DtcLinLeaf) : Prop :=
  l.o.ok ∧ l.o.inRange (.int l.i) ∧ linMethod? l.d l.o.bt l.phys = some (.linear l.s) ∧ l.s.denom ≠ 0 ∧
  l.s.physApplies (.int l.z) = .ok true ∧ exactP l.s l.z = true ∧ (Method.linear l.s).p2i (.int l.z) = .ok (.int l.i) ∧
  (Method.linear l.s).validI (.int l.i) = .ok true ∧ exactI l.s l.i = true ∧
  (Method.linear l.s).i2p (.int l.i) = .ok (.int l.z) ∧
  (l.dtcs.filter fun d => d.1 == l.z).length = 1           -- what encoder AND decoder look up (the trouble code), exactly once

/-- what `convert_to_numerical_trouble_code` accepts for the trouble code `z` -/
def DtcLinLeaf.supOk (l : DtcLinLeaf) : PVal → Prop
  | .dtc c => c = l.z
  | .atom (.int c) => c = l.z
  | .atom (.str cps) => ∃ d, (l.dtcs.filter fun d => d.2.toList.map Char.toNat == cps) = [d] ∧ d.1 = l.z
  | _ => False

/-- the trouble code is known (what the repaired encoder looks up) -/
theorem DtcLinLeaf.known (l : DtcLinLeaf) (h : l.ok) : (l.dtcs.any fun d => d.1 == l.z) = true := by
  have h1 := h.2.2.2.2.2.2.2.2.2.2
  cases hf : l.dtcs.filter fun d => d.1 == l.z with
  | nil => rw [hf] at h1; cases h1
  | cons d ds =>
    have hmem : d ∈ l.dtcs.filter fun d => d.1 == l.z := by rw [hf]; exact List.mem_cons_self ..
    rw [List.mem_filter] at hmem
    exact List.any_eq_true.mpr ⟨d, hmem.1, hmem.2⟩

theorem dtcP2I_linear_int {σ : Type} (s : LinSeg) (z i : Int) (hpa : s.physApplies (.int z) = .ok true)
    (hex : exactP s z = true) (hconv : (Method.linear s).p2i (.int z) = .ok (.int i)) (st : σ) (strict : Bool) :
    (methodP2I (.linear s) (.int z) : OdxM σ Val) st strict = .ok (.int i, st) := by
  have hcv : s.convP2I (.int z) = .ok (.int i) := by
    simpa [Method.p2i, hpa, bind, Except.bind] using hconv
  simp [methodP2I, hpa, Val.num?, hex, hcv, run_pure, pure]

theorem dtcI2P_linear_int {σ : Type} (arith : Err) (s : LinSeg) (i z : Int) (hd : s.denom ≠ 0)
    (hia : s.intApplies (.int i) = .ok true) (hex : exactI s i = true)
    (hconv : (Method.linear s).i2p (.int i) = .ok (.int z)) (st : σ) (strict : Bool) :
    (methodI2P arith (.linear s) (.int i) : OdxM σ (Option Val)) st strict = .ok (some (.int z), st) := by
  have hcv : s.convI2P (.int i) = .ok (.int z) := by
    simpa [Method.i2p, hia, bind, Except.bind] using hconv
  simp [methodI2P, hia, Val.num?, hd, hex, hcv, run_pure, pure]

theorem DtcLinLeaf.convOk (l : DtcLinLeaf) (h : l.ok) (sup : PVal) (hs : l.supOk sup) :
    ConvOk l.dop l.o.dct sup (.dtc l.z) (.int l.i) where
  enc := by
    have hk := l.known h
    obtain ⟨_, _, hm, _, hpa, hexP, hp2i, _, _, _, _⟩ := h
    intro f es
    have hm' : (CCompu.linear l.d).method? l.o.dct.baseType l.phys = some (.linear l.s) := by
      simp [CCompu.method?, Obj.dct_baseType, hm]
    have hconv := fun (e : EncState) => dtcP2I_linear_int l.s l.z l.i hpa hexP hp2i e true
    unfold DtcLinLeaf.dop encodeDop
    match sup, hs with
    | .dtc c, hs =>
      have hs' : c = l.z := hs
      subst hs'
      simp [hm', hconv, bind, run_bind, pure, run_pure, hk]
    | .atom (.int c), hs =>
      have hs' : c = l.z := hs
      subst hs'
      simp [hm', hconv, bind, run_bind, pure, run_pure, hk]
    | .atom (.str cps), hs =>
      obtain ⟨d, hd, hc⟩ := hs
      simp [hm', hconv, bind, run_bind, pure, run_pure, hk, hd, hc]
  dec := by
    obtain ⟨_, _, hm, hd, _, _, _, hvi, hexI, hi2p, hone⟩ := h
    intro f ds ds' hdec
    have hm' : (CCompu.linear l.d).method? l.o.dct.baseType l.phys = some (.linear l.s) := by
      simp [CCompu.method?, Obj.dct_baseType, hm]
    have hia : l.s.intApplies (.int l.i) = .ok true := hvi
    have hconv := fun (e : DecState) => dtcI2P_linear_int .decode l.s l.i l.z hd hia hexI hi2p e true
    unfold DtcLinLeaf.dop decodeDop
    simp [hm', hdec, toVal?, Method.validI, hia, hconv, bind, run_bind, pure, run_pure, hone, odxassert]
  sup_ne_none := by
    intro e
    subst e
    exact hs

/-- the VALUE parameter; the decoder returns the DTC object of the trouble code `z` -/
def DtcLinLeaf.comp (l : DtcLinLeaf) (sup : PVal) : Comp := Comp.ofConvLeaf l.o l.dop sup (.dtc l.z) (.int l.i)
theorem DtcLinLeaf.comp_ok (l : DtcLinLeaf) (h : l.ok) (sup : PVal) (hs : l.supOk sup) : (l.comp sup).Ok :=
  Comp.ofConvLeaf_ok _ _ _ _ _ h.1 h.2.1 (l.convOk h sup hs)
theorem DtcLinLeaf.comp_endOk (l : DtcLinLeaf) (sup : PVal) : (l.comp sup).EndOk := Comp.ofConvLeaf_endOk _ _ _ _ _

/-- the PHYS-CONST parameter whose constant is the DTC object -/
def DtcLinLeaf.constComp (l : DtcLinLeaf) (supplied : Bool) : Comp :=
  Comp.ofConvPhysConst l.o l.dop (.dtc l.z) (.dtc l.z) (.int l.i) supplied
theorem DtcLinLeaf.constComp_ok (l : DtcLinLeaf) (h : l.ok) (b : Bool) : (l.constComp b).Ok :=
  Comp.ofConvPhysConst_ok _ _ _ _ _ b h.1 h.2.1 (l.convOk h (.dtc l.z) rfl) (by simp [pvalEq]) (by simp [pvalEq])
theorem DtcLinLeaf.constComp_endOk (l : DtcLinLeaf) (b : Bool) : (l.constComp b).EndOk := Comp.ofConvPhysConst_endOk _ _ _ _ _ b

/-- **the repaired encoder accepts every described DTC** (replaces `DtcLinLeaf.encode_unknown_internal`, which held for the
    unrepaired encoder and is false now): for a LINEAR DTC-DOP, if the trouble code `z` is the trouble code of some DTC of
    the list and is the exact image of the coded value `i` (inside the guard of the LINEAR method), strict
    `DtcDop.encode_into_pdu` of the trouble code (given as DTC object or as number) does exactly what the diag-coded type
    does with `i` — no "Unknown diagnostic trouble code", whatever ELSE the DTC list contains (in particular `i` need not be
    a trouble code). -/
theorem DtcLinLeaf.encode_described (l : DtcLinLeaf) (hm : linMethod? l.d l.o.bt l.phys = some (.linear l.s))
    (hpa : l.s.physApplies (.int l.z) = .ok true) (hexP : exactP l.s l.z = true)
    (hp2i : (Method.linear l.s).p2i (.int l.z) = .ok (.int l.i)) (hk : (l.dtcs.any fun d => d.1 == l.z) = true)
    (f : Nat) (es : EncState) :
    encodeDop (f + 1) l.dop (.dtc l.z) es true = encodeDct l.o.dct (.int l.i) es true ∧
    encodeDop (f + 1) l.dop (.atom (.int l.z)) es true = encodeDct l.o.dct (.int l.i) es true := by
  have hm' : (CCompu.linear l.d).method? l.o.dct.baseType l.phys = some (.linear l.s) := by
    simp [CCompu.method?, Obj.dct_baseType, hm]
  have hconv := fun (e : EncState) => dtcP2I_linear_int l.s l.z l.i hpa hexP hp2i e true
  unfold DtcLinLeaf.dop encodeDop
  constructor <;> simp [hm', hconv, bind, run_bind, pure, run_pure, hk]

/-- conversely the look-up is still there: a trouble code that no DTC of the list has is refused in strict mode
    (EncodeError "Unknown diagnostic trouble code"), also when its coded value happens to be the trouble code of a DTC -/
theorem DtcLinLeaf.encode_unknown (l : DtcLinLeaf) (hm : linMethod? l.d l.o.bt l.phys = some (.linear l.s))
    (hpa : l.s.physApplies (.int l.z) = .ok true) (hexP : exactP l.s l.z = true)
    (hp2i : (Method.linear l.s).p2i (.int l.z) = .ok (.int l.i)) (hk : (l.dtcs.any fun d => d.1 == l.z) = false)
    (f : Nat) (es : EncState) : encodeDop (f + 1) l.dop (.atom (.int l.z)) es true = .error (.encode, es) := by
  have hm' : (CCompu.linear l.d).method? l.o.dct.baseType l.phys = some (.linear l.s) := by
    simp [CCompu.method?, Obj.dct_baseType, hm]
  have hconv := fun (e : EncState) => dtcP2I_linear_int l.s l.z l.i hpa hexP hp2i e true
  unfold DtcLinLeaf.dop encodeDop
  simp [hm', hconv, bind, run_bind, pure, run_pure, hk, run_odxraise_strict]

end OdxVerif.Codec
