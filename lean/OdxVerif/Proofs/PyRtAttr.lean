import Lean.Meta.Tactic.Simp.RegisterCommand
/-! simp set `py_rt`: the lemmas of `Proofs/PyRt.lean` that normalise the run-time primitives of the Python → Lean
    translator (an attribute has to be declared in a file of its own). -/

/-- normalisation of the Python run-time primitives (`OdxVerif.Py.*`) -/
register_simp_attr py_rt
