import OdxVerif.Spec.Visible
/-! Lemmas for C09, part 1: the insertion-ordered dictionary, the stable sort, and the merge loop of
    `_compute_available_objects` seen from a single short name. Core Lean only. -/
namespace OdxVerif.Inherit
open OdxVerif.Gen (LayerKind)

/-! ## the insertion-ordered dictionary -/

theorem dictGet_name {d : Dict} {n : Name} {e : Entry} (h : dictGet d n = some e) : e.obj.name = n := by
  have := List.find?_some h
  simpa using this

theorem dictGet_dictSet (d : Dict) (e : Entry) (n : Name) :
    dictGet (dictSet d e) n = if e.obj.name = n then some e else dictGet d n := by
  induction d with
  | nil => simp [dictSet, dictGet, List.find?]
  | cons x xs ih =>
    simp only [dictSet]
    split
    · rename_i hx
      by_cases hn : e.obj.name = n
      · simp [dictGet, List.find?, hn]
      · have : ¬ x.obj.name = n := by rw [hx]; exact hn
        simp [dictGet, List.find?, hn, this]
    · rename_i hx
      by_cases hxn : x.obj.name = n
      · have : ¬ e.obj.name = n := by intro h; exact hx (hxn.trans h.symm)
        simp [dictGet, List.find?, hxn, this]
      · have := ih
        simp only [dictGet] at this ⊢
        simp [List.find?, hxn, this]

/-- keys of a dictionary -/
def keys (d : Dict) : List Name := d.map (·.obj.name)

theorem keys_dictSet_mem (d : Dict) (e : Entry) (k : Name) :
    k ∈ keys (dictSet d e) ↔ k ∈ keys d ∨ k = e.obj.name := by
  induction d with
  | nil => simp [dictSet, keys]
  | cons x xs ih =>
    simp only [dictSet]
    split
    · rename_i hx
      simp only [keys, List.map_cons, List.mem_cons]
      grind
    · simp only [keys, List.map_cons, List.mem_cons] at ih ⊢
      grind

theorem keys_dictSet_nodup (d : Dict) (e : Entry) (h : (keys d).Nodup) : (keys (dictSet d e)).Nodup := by
  induction d with
  | nil => simp [dictSet, keys]
  | cons x xs ih =>
    simp only [dictSet]
    split
    · rename_i hx
      simp only [keys, List.map_cons, List.nodup_cons] at h ⊢
      rw [← hx]; exact h
    · rename_i hx
      simp only [keys, List.map_cons, List.nodup_cons] at h ⊢
      refine ⟨?_, ih h.2⟩
      intro hm
      have := (keys_dictSet_mem xs e x.obj.name).1 hm
      rcases this with h1 | h1
      · exact h.1 h1
      · exact hx h1

/-! ## the stable descending sort -/

theorem insertDesc_perm (x : ParentRes) (ys : List ParentRes) : (insertDesc x ys).Perm (x :: ys) := by
  induction ys with
  | nil => simp [insertDesc]
  | cons y ys ih =>
    simp only [insertDesc]
    split
    · exact (List.Perm.cons y ih).trans (List.Perm.swap x y ys)
    · exact List.Perm.refl _

theorem sortDesc_perm (xs : List ParentRes) : (sortDesc xs).Perm xs := by
  induction xs with
  | nil => simp [sortDesc]
  | cons x xs ih => exact (insertDesc_perm x _).trans (List.Perm.cons x ih)

theorem insertDesc_sorted (x : ParentRes) (ys : List ParentRes)
    (h : ys.Pairwise fun a b => b.prio ≤ a.prio) : (insertDesc x ys).Pairwise fun a b => b.prio ≤ a.prio := by
  induction ys with
  | nil => simp [insertDesc]
  | cons y ys ih =>
    simp only [insertDesc]
    have hy := List.pairwise_cons.1 h
    split
    · rename_i hlt
      refine List.pairwise_cons.2 ⟨?_, ih hy.2⟩
      intro z hz
      have := (insertDesc_perm x ys).mem_iff.1 hz
      rcases List.mem_cons.1 this with rfl | hz'
      · omega
      · exact hy.1 z hz'
    · rename_i hge
      refine List.pairwise_cons.2 ⟨?_, h⟩
      intro z hz
      rcases List.mem_cons.1 hz with rfl | hz'
      · omega
      · have := hy.1 z hz'; omega

theorem sortDesc_sorted (xs : List ParentRes) : (sortDesc xs).Pairwise fun a b => b.prio ≤ a.prio := by
  induction xs with
  | nil => simp [sortDesc]
  | cons x xs ih => exact insertDesc_sorted x _ ih


/-! ## the merge, seen from one short name -/

/-- what the dictionary holds for one name -/
abbrev Slot := Option Entry

/-- `mergeObj` as seen from the short name of the merged object -/
def stepSlot (isLocal : Bool) (slot : Slot) (newPrio : Nat) (offer : Option Obj) : Except Err Slot :=
  match offer with
  | none => .ok slot
  | some o =>
    match slot with
    | none => .ok (some ⟨o, newPrio⟩)
    | some e =>
      if newPrio < e.prio then .ok slot
      else if e.prio < newPrio then .ok (some ⟨o, newPrio⟩)
      else if isLocal then .ok slot
      else if o = e.obj then .ok slot
      else .error .odx

theorem mergeObj_ok {ln : List Name} {p : Nat} {d d1 : Dict} {o : Obj}
    (h : mergeObj ln p d o = .ok d1) :
    stepSlot (ln.contains o.name) (dictGet d o.name) p (some o) = .ok (dictGet d1 o.name)
    ∧ ∀ n, n ≠ o.name → dictGet d1 n = dictGet d n := by
  unfold mergeObj at h
  unfold stepSlot
  cases hg : dictGet d o.name with
  | none =>
    simp only [hg] at h
    cases h
    simp only [dictGet_dictSet]
    refine ⟨by simp, fun n hn => ?_⟩
    simp [Ne.symm hn]
  | some e =>
    simp only [hg] at h ⊢
    split at h
    · cases h; rename_i h1; simp [h1, hg]
    · split at h
      · cases h; rename_i h1 h2
        simp only [h1, h2, if_false, if_true, dictGet_dictSet]
        refine ⟨by simp, fun n hn => ?_⟩
        simp [Ne.symm hn]
      · split at h
        · cases h; rename_i h1 h2 h3; rw [if_neg h1, if_neg h2, if_pos h3, hg]; simp
        · split at h
          · cases h; rename_i h1 h2 h3 h4; rw [if_neg h1, if_neg h2, if_neg h3, if_pos h4, hg]; simp
          · cases h

theorem mergeObj_err {ln : List Name} {p : Nat} {d : Dict} {o : Obj} {e : Err}
    (h : mergeObj ln p d o = .error e) :
    stepSlot (ln.contains o.name) (dictGet d o.name) p (some o) = .error e := by
  unfold mergeObj at h
  unfold stepSlot
  cases hg : dictGet d o.name with
  | none => simp only [hg] at h; cases h
  | some e' =>
    simp only [hg] at h ⊢
    split at h
    · cases h
    · split at h
      · cases h
      · split at h
        · cases h
        · split at h
          · cases h
          · rename_i h1 h2 h3 h4
            cases e
            rw [if_neg h1, if_neg h2, if_neg h3, if_neg h4]


theorem stepSlot_none (b : Bool) (s : Slot) (p : Nat) : stepSlot b s p none = .ok s := rfl

theorem find_none_of_not_mem (os : List Obj) (n : Name) (h : n ∉ os.map (·.name)) :
    os.find? (fun o => o.name = n) = none := by
  simp only [List.find?_eq_none, decide_eq_true_eq]
  intro x hx hn
  exact h (List.mem_map.2 ⟨x, hx, hn⟩)

theorem find_of_mem_nodup : ∀ (os : List Obj) (o : Obj), (os.map (·.name)).Nodup → o ∈ os →
    os.find? (fun x => x.name = o.name) = some o := by
  intro os
  induction os with
  | nil => intro o _ h; cases h
  | cons x xs ih =>
    intro o hnd ho
    simp only [List.map_cons, List.nodup_cons] at hnd
    rcases List.mem_cons.1 ho with rfl | ho
    · simp
    · have hne : ¬ x.name = o.name := fun he => hnd.1 (he ▸ List.mem_map.2 ⟨o, ho, rfl⟩)
      simp only [List.find?_cons, hne, decide_false]
      exact ih o hnd.2 ho

theorem foldObjs_ok {ln : List Name} {p : Nat} : ∀ (os : List Obj) (d d' : Dict),
    (os.map (·.name)).Nodup → os.foldlM (mergeObj ln p) d = .ok d' →
    ∀ n, stepSlot (ln.contains n) (dictGet d n) p (os.find? fun o => o.name = n) = .ok (dictGet d' n) := by
  intro os
  induction os with
  | nil => intro d d' _ h n; simp only [List.foldlM_nil] at h; cases h; rfl
  | cons o os ih =>
    intro d d' hnd h n
    rw [List.foldlM_cons] at h
    simp only [List.map_cons, List.nodup_cons] at hnd
    cases hm : mergeObj ln p d o with
    | error e => rw [hm] at h; cases h
    | ok d1 =>
      rw [hm] at h
      have h' : os.foldlM (mergeObj ln p) d1 = .ok d' := h
      have ⟨hs, hother⟩ := mergeObj_ok hm
      by_cases hn : o.name = n
      · subst hn
        have hrest := ih d1 d' hnd.2 h' o.name
        rw [find_none_of_not_mem os o.name hnd.1, stepSlot_none] at hrest
        have hrest' : dictGet d1 o.name = dictGet d' o.name := Except.ok.inj hrest
        simp only [List.find?_cons, decide_true]
        rw [← hrest']; exact hs
      · have hrest := ih d1 d' hnd.2 h' n
        rw [hother n (Ne.symm hn)] at hrest
        simp only [List.find?_cons, hn, decide_false]
        exact hrest

theorem foldObjs_err {ln : List Name} {p : Nat} {e : Err} : ∀ (os : List Obj) (d : Dict),
    (os.map (·.name)).Nodup → os.foldlM (mergeObj ln p) d = .error e →
    ∃ n, stepSlot (ln.contains n) (dictGet d n) p (os.find? fun o => o.name = n) = .error e := by
  intro os
  induction os with
  | nil => intro d _ h; simp only [List.foldlM_nil] at h; cases h
  | cons o os ih =>
    intro d hnd h
    rw [List.foldlM_cons] at h
    simp only [List.map_cons, List.nodup_cons] at hnd
    cases hm : mergeObj ln p d o with
    | error e' =>
      rw [hm] at h
      have : e' = e := by cases h; rfl
      subst this
      exact ⟨o.name, by simp only [List.find?_cons, decide_true]; exact mergeObj_err hm⟩
    | ok d1 =>
      rw [hm] at h
      have h' : os.foldlM (mergeObj ln p) d1 = .error e := h
      have ⟨_, hother⟩ := mergeObj_ok hm
      obtain ⟨n, hn⟩ := ih d1 hnd.2 h'
      refine ⟨n, ?_⟩
      by_cases hon : o.name = n
      · subst hon
        rw [find_none_of_not_mem os o.name hnd.1, stepSlot_none] at hn
        cases hn
      · rw [hother n (Ne.symm hon)] at hn
        simp only [List.find?_cons, hon, decide_false]
        exact hn


/-- what one parent offers for the name `n` -/
def offerOf (r : ParentRes) (n : Name) : Option Obj :=
  if r.excl.contains n then none else r.objs.find? fun o => o.name = n

theorem find_filter_excl (objs : List Obj) (excl : List Name) (n : Name) :
    (objs.filter fun x => !excl.contains x.name).find? (fun o => o.name = n)
      = if excl.contains n then none else objs.find? fun o => o.name = n := by
  induction objs with
  | nil => simp
  | cons o os ih =>
    simp only [List.filter_cons]
    by_cases hn : o.name = n
    · subst hn
      by_cases hx : excl.contains o.name = true
      · simp only [hx, Bool.not_true, Bool.false_eq_true, if_false, if_true] at ih ⊢
        exact ih
      · simp only [hx, Bool.not_false, if_true, List.find?_cons, decide_true]
        simp
    · split
      · simp only [List.find?_cons, hn, decide_false]; exact ih
      · simp only [List.find?_cons, hn, decide_false]; exact ih

theorem filter_names_nodup (objs : List Obj) (q : Obj → Bool) (h : (objs.map (·.name)).Nodup) :
    ((objs.filter q).map (·.name)).Nodup :=
  List.Nodup.sublist ((List.filter_sublist (l := objs) (p := q)).map _) h

theorem mergeParent_ok {ln : List Name} {d d' : Dict} {r : ParentRes}
    (hnd : (r.objs.map (·.name)).Nodup) (h : mergeParent ln d r = .ok d') (n : Name) :
    stepSlot (ln.contains n) (dictGet d n) r.prio (offerOf r n) = .ok (dictGet d' n) := by
  have := foldObjs_ok _ d d' (filter_names_nodup r.objs _ hnd) h n
  rw [find_filter_excl] at this
  exact this

theorem mergeParent_err {ln : List Name} {d : Dict} {r : ParentRes} {e : Err}
    (hnd : (r.objs.map (·.name)).Nodup) (h : mergeParent ln d r = .error e) :
    ∃ n, stepSlot (ln.contains n) (dictGet d n) r.prio (offerOf r n) = .error e := by
  obtain ⟨n, hn⟩ := foldObjs_err _ d (filter_names_nodup r.objs _ hnd) h
  rw [find_filter_excl] at hn
  exact ⟨n, hn⟩

/-- the whole parent loop as seen from one name -/
def slotFold (isLocal : Bool) (s : Slot) (xs : List (LayerKind × Option Obj)) : Except Err Slot :=
  xs.foldlM (fun s x => stepSlot isLocal s x.1.prio x.2) s

theorem mergeAll_ok {ln : List Name} : ∀ (rs : List ParentRes) (d d' : Dict),
    (∀ r ∈ rs, (r.objs.map (·.name)).Nodup) → rs.foldlM (mergeParent ln) d = .ok d' →
    ∀ n, slotFold (ln.contains n) (dictGet d n) (rs.map fun r => (r.kind, offerOf r n)) = .ok (dictGet d' n) := by
  intro rs
  induction rs with
  | nil => intro d d' _ h n; simp only [List.foldlM_nil] at h; cases h; rfl
  | cons r rs ih =>
    intro d d' hnd h n
    rw [List.foldlM_cons] at h
    cases hm : mergeParent ln d r with
    | error e => rw [hm] at h; cases h
    | ok d1 =>
      rw [hm] at h
      have h' : rs.foldlM (mergeParent ln) d1 = .ok d' := h
      have h1 : stepSlot (ln.contains n) (dictGet d n) r.kind.prio (offerOf r n) = .ok (dictGet d1 n) :=
        mergeParent_ok (hnd r (List.mem_cons_self ..)) hm n
      have h2 := ih d1 d' (fun r hr => hnd r (List.mem_cons_of_mem _ hr)) h' n
      simp only [slotFold, List.map_cons, List.foldlM_cons, h1] at h2 ⊢
      exact h2

theorem mergeAll_err {ln : List Name} {e : Err} : ∀ (rs : List ParentRes) (d : Dict),
    (∀ r ∈ rs, (r.objs.map (·.name)).Nodup) → rs.foldlM (mergeParent ln) d = .error e →
    ∃ n, slotFold (ln.contains n) (dictGet d n) (rs.map fun r => (r.kind, offerOf r n)) = .error e := by
  intro rs
  induction rs with
  | nil => intro d _ h; simp only [List.foldlM_nil] at h; cases h
  | cons r rs ih =>
    intro d hnd h
    rw [List.foldlM_cons] at h
    cases hm : mergeParent ln d r with
    | error e' =>
      rw [hm] at h
      have : e' = e := by cases h; rfl
      subst this
      obtain ⟨n, hn⟩ := mergeParent_err (hnd r (List.mem_cons_self ..)) hm
      have hn : stepSlot (ln.contains n) (dictGet d n) r.kind.prio (offerOf r n) = .error e' := hn
      refine ⟨n, ?_⟩
      simp only [slotFold, List.map_cons, List.foldlM_cons, hn]
      rfl
    | ok d1 =>
      rw [hm] at h
      have h' : rs.foldlM (mergeParent ln) d1 = .error e := h
      obtain ⟨n, hn⟩ := ih d1 (fun r hr => hnd r (List.mem_cons_of_mem _ hr)) h'
      have h1 : stepSlot (ln.contains n) (dictGet d n) r.kind.prio (offerOf r n) = .ok (dictGet d1 n) :=
        mergeParent_ok (hnd r (List.mem_cons_self ..)) hm n
      refine ⟨n, ?_⟩
      simp only [slotFold, List.map_cons, List.foldlM_cons, h1] at hn ⊢
      exact hn


/-! ## the per-name loop over parents sorted by descending priority -/

/-- priority of an offer under the table of the implementation -/
abbrev Offer.prio (a : Offer) : Nat := a.kind.prio

/-- the specification's selection, ranked by the table of the implementation -/
abbrev topOffersI (os : List Offer) : List Offer := topOffers LayerKind.prio os
abbrev clashI (os : List Offer) : Bool := clash LayerKind.prio os


/-- the offers actually made, as `Offer`s -/
def realOffers (xs : List (LayerKind × Option Obj)) : List Offer :=
  xs.filterMap fun x => x.2.map fun o => ⟨x.1, o⟩

theorem slotFold_cons (b : Bool) (s : Slot) (x : LayerKind × Option Obj) (xs : List (LayerKind × Option Obj)) :
    slotFold b s (x :: xs) = (stepSlot b s x.1.prio x.2 >>= fun s' => slotFold b s' xs) := by
  simp [slotFold, List.foldlM_cons]

theorem slotFold_some (b : Bool) (e : Entry) : ∀ (xs : List (LayerKind × Option Obj)), (∀ x ∈ xs, x.1.prio ≤ e.prio) →
    (∀ s, slotFold b (some e) xs = .ok s →
        s = some e ∧ (b = true ∨ ∀ z ∈ realOffers xs, z.prio = e.prio → z.obj = e.obj))
    ∧ (∀ err, slotFold b (some e) xs = .error err →
        b = false ∧ ∃ z ∈ realOffers xs, z.prio = e.prio ∧ z.obj ≠ e.obj) := by
  intro xs
  induction xs with
  | nil =>
    intro _
    refine ⟨fun s h => ?_, fun err h => ?_⟩
    · simp only [slotFold, List.foldlM_nil] at h
      cases h
      exact ⟨rfl, Or.inr (by simp [realOffers])⟩
    · simp only [slotFold, List.foldlM_nil] at h
      cases h
  | cons x xs ih =>
    intro hle
    have hx := hle x (List.mem_cons_self ..)
    have ih' := ih (fun y hy => hle y (List.mem_cons_of_mem _ hy))
    obtain ⟨q, off⟩ := x
    cases off with
    | none =>
      have hstep : stepSlot b (some e) q.prio none = .ok (some e) := rfl
      have hro : realOffers ((q, none) :: xs) = realOffers xs := by simp [realOffers]
      rw [hro]
      refine ⟨fun s h => ?_, fun err h => ?_⟩
      · rw [slotFold_cons] at h; simp only [hstep] at h; exact ih'.1 s h
      · rw [slotFold_cons] at h; simp only [hstep] at h; exact ih'.2 err h
    | some o =>
      have hro : realOffers ((q, some o) :: xs) = ⟨q, o⟩ :: realOffers xs := by simp [realOffers]
      rw [hro]
      simp only at hx
      by_cases h1 : q.prio < e.prio
      · have hstep : stepSlot b (some e) q.prio (some o) = .ok (some e) := by simp [stepSlot, h1]
        refine ⟨fun s h => ?_, fun err h => ?_⟩
        · rw [slotFold_cons] at h; simp only [hstep] at h
          obtain ⟨hs, hc⟩ := ih'.1 s h
          refine ⟨hs, hc.imp id fun hc z hz hp => ?_⟩
          rcases List.mem_cons.1 hz with rfl | hz
          · simp only [Offer.prio] at hp; omega
          · exact hc z hz hp
        · rw [slotFold_cons] at h; simp only [hstep] at h
          obtain ⟨hb, z, hz, hp⟩ := ih'.2 err h
          exact ⟨hb, z, List.mem_cons_of_mem _ hz, hp⟩
      · have h2 : ¬ e.prio < q.prio := by omega
        have hq : q.prio = e.prio := by omega
        by_cases h3 : b = true
        · have hstep : stepSlot b (some e) q.prio (some o) = .ok (some e) := by simp [stepSlot, h1, h2, h3]
          refine ⟨fun s h => ?_, fun err h => ?_⟩
          · rw [slotFold_cons] at h; simp only [hstep] at h
            exact ⟨(ih'.1 s h).1, Or.inl h3⟩
          · rw [slotFold_cons] at h; simp only [hstep] at h
            have := (ih'.2 err h).1
            rw [h3] at this; cases this
        · by_cases h4 : o = e.obj
          · have hstep : stepSlot b (some e) q.prio (some o) = .ok (some e) := by simp [stepSlot, h1, h2, h4]
            refine ⟨fun s h => ?_, fun err h => ?_⟩
            · rw [slotFold_cons] at h; simp only [hstep] at h
              obtain ⟨hs, hc⟩ := ih'.1 s h
              refine ⟨hs, hc.imp id fun hc z hz hp => ?_⟩
              rcases List.mem_cons.1 hz with rfl | hz
              · exact h4
              · exact hc z hz hp
            · rw [slotFold_cons] at h; simp only [hstep] at h
              obtain ⟨hb, z, hz, hp⟩ := ih'.2 err h
              exact ⟨hb, z, List.mem_cons_of_mem _ hz, hp⟩
          · have hstep : stepSlot b (some e) q.prio (some o) = .error .odx := by
              simp [stepSlot, h1, h2, h3, h4]
            refine ⟨fun s h => ?_, fun err _ => ?_⟩
            · rw [slotFold_cons] at h; simp only [hstep] at h; cases h
            · refine ⟨by simpa using h3, ⟨q, o⟩, List.mem_cons_self .., hq, h4⟩


theorem slotFold_none (b : Bool) : ∀ (xs : List (LayerKind × Option Obj)), xs.Pairwise (fun a c => c.1.prio ≤ a.1.prio) →
    (∀ s, slotFold b none xs = .ok s →
        s = (realOffers xs).head?.map (fun z => ⟨z.obj, z.prio⟩)
        ∧ (b = true ∨ ∀ y, (realOffers xs).head? = some y →
              ∀ z ∈ realOffers xs, z.prio = y.prio → z.obj = y.obj))
    ∧ (∀ err, slotFold b none xs = .error err →
        b = false ∧ ∃ y z, (realOffers xs).head? = some y ∧ z ∈ realOffers xs
              ∧ z.prio = y.prio ∧ z.obj ≠ y.obj) := by
  intro xs
  induction xs with
  | nil =>
    intro _
    refine ⟨fun s h => ?_, fun err h => ?_⟩
    · simp only [slotFold, List.foldlM_nil] at h
      cases h
      exact ⟨rfl, Or.inr (by simp [realOffers])⟩
    · simp only [slotFold, List.foldlM_nil] at h
      cases h
  | cons x xs ih =>
    intro hs
    have hpw := List.pairwise_cons.1 hs
    obtain ⟨q, off⟩ := x
    cases off with
    | none =>
      have hstep : stepSlot b none q.prio none = .ok none := rfl
      have hro : realOffers ((q, none) :: xs) = realOffers xs := by simp [realOffers]
      rw [hro]
      refine ⟨fun s h => ?_, fun err h => ?_⟩
      · rw [slotFold_cons] at h; simp only [hstep] at h; exact (ih hpw.2).1 s h
      · rw [slotFold_cons] at h; simp only [hstep] at h; exact (ih hpw.2).2 err h
    | some o =>
      have hstep : stepSlot b none q.prio (some o) = .ok (some ⟨o, q.prio⟩) := rfl
      have hro : realOffers ((q, some o) :: xs) = ⟨q, o⟩ :: realOffers xs := by simp [realOffers]
      rw [hro]
      have hsome := slotFold_some b ⟨o, q.prio⟩ xs (fun x hx => hpw.1 x hx)
      refine ⟨fun s h => ?_, fun err h => ?_⟩
      · rw [slotFold_cons] at h; simp only [hstep] at h
        obtain ⟨hs', hc⟩ := hsome.1 s h
        refine ⟨by simpa using hs', hc.imp id fun hc y hy z hz hp => ?_⟩
        simp only [List.head?_cons, Option.some.injEq] at hy
        subst hy
        rcases List.mem_cons.1 hz with rfl | hz
        · rfl
        · exact hc z hz hp
      · rw [slotFold_cons] at h; simp only [hstep] at h
        obtain ⟨hb, z, hz, hp⟩ := hsome.2 err h
        exact ⟨hb, ⟨q, o⟩, z, rfl, List.mem_cons_of_mem _ hz, hp⟩

/-! ## offers in declaration order versus offers sorted by priority -/

theorem mem_topOffers (os : List Offer) (a : Offer) :
    a ∈ topOffersI os ↔ a ∈ os ∧ ∀ b ∈ os, b.prio ≤ a.prio := by
  simp [topOffers]

theorem clash_iff (os : List Offer) :
    clashI os = true ↔ ∃ a b, a ∈ topOffersI os ∧ b ∈ topOffersI os ∧ a.obj ≠ b.obj := by
  simp only [clash, List.any_eq_true, decide_eq_true_eq]
  constructor
  · rintro ⟨a, ha, b, hb, h⟩; exact ⟨a, b, ha, hb, h⟩
  · rintro ⟨a, b, ha, hb, h⟩; exact ⟨a, ha, b, hb, h⟩

theorem top_of_sorted {os ys : List Offer} (hp : os.Perm ys)
    (hs : ys.Pairwise fun a c => c.prio ≤ a.prio) {y : Offer} (hy : ys.head? = some y) (a : Offer) :
    a ∈ topOffersI os ↔ a ∈ ys ∧ a.prio = y.prio := by
  cases ys with
  | nil => cases hy
  | cons y' t =>
    simp only [List.head?_cons, Option.some.injEq] at hy
    subst hy
    have hpw := List.pairwise_cons.1 hs
    have hle : ∀ b ∈ y' :: t, b.prio ≤ y'.prio := by
      intro b hb
      rcases List.mem_cons.1 hb with rfl | hb
      · exact Nat.le_refl _
      · exact hpw.1 b hb
    rw [mem_topOffers]
    constructor
    · rintro ⟨hao, hmax⟩
      have hay := hp.mem_iff.1 hao
      have h1 := hmax y' (hp.mem_iff.2 (List.mem_cons_self ..))
      have h2 := hle a hay
      exact ⟨hay, by omega⟩
    · rintro ⟨hay, hpr⟩
      refine ⟨hp.mem_iff.2 hay, fun b hb => ?_⟩
      have := hle b (hp.mem_iff.1 hb)
      omega

/-- no offers at all -/
theorem top_nil {os : List Offer} (hp : os.Perm []) : (topOffersI os).head? = none ∧ clashI os = false := by
  have : os = [] := List.Perm.eq_nil hp
  subst this
  simp [topOffers, clash]

theorem clash_of_sorted {os ys : List Offer} (hp : os.Perm ys)
    (hs : ys.Pairwise fun a c => c.prio ≤ a.prio) {y : Offer} (hy : ys.head? = some y) :
    clashI os = true ↔ ∃ z ∈ ys, z.prio = y.prio ∧ z.obj ≠ y.obj := by
  have hyin : y ∈ ys := by
    cases ys with
    | nil => cases hy
    | cons y' t => simp only [List.head?_cons, Option.some.injEq] at hy; subst hy; exact List.mem_cons_self ..
  rw [clash_iff]
  constructor
  · rintro ⟨a, b, ha, hb, hne⟩
    have ha' := (top_of_sorted hp hs hy a).1 ha
    have hb' := (top_of_sorted hp hs hy b).1 hb
    by_cases h : a.obj = y.obj
    · exact ⟨b, hb'.1, hb'.2, fun h' => hne (h.trans h'.symm)⟩
    · exact ⟨a, ha'.1, ha'.2, h⟩
  · rintro ⟨z, hz, hpz, hne⟩
    exact ⟨z, y, (top_of_sorted hp hs hy z).2 ⟨hz, hpz⟩, (top_of_sorted hp hs hy y).2 ⟨hyin, rfl⟩, hne⟩

theorem best_of_sorted {os ys : List Offer} (hp : os.Perm ys)
    (hs : ys.Pairwise fun a c => c.prio ≤ a.prio) {y : Offer} (hy : ys.head? = some y)
    (hno : ∀ z ∈ ys, z.prio = y.prio → z.obj = y.obj) :
    ((topOffersI os).head?).map (·.obj) = some y.obj := by
  have hyin : y ∈ ys := by
    cases ys with
    | nil => cases hy
    | cons y' t => simp only [List.head?_cons, Option.some.injEq] at hy; subst hy; exact List.mem_cons_self ..
  have hytop : y ∈ topOffersI os := (top_of_sorted hp hs hy y).2 ⟨hyin, rfl⟩
  cases htop : topOffersI os with
  | nil => rw [htop] at hytop; cases hytop
  | cons a t =>
    have ha : a ∈ topOffersI os := by rw [htop]; exact List.mem_cons_self ..
    have ha' := (top_of_sorted hp hs hy a).1 ha
    simp only [List.head?_cons, Option.map_some, Option.some.injEq]
    exact hno a ha'.1 ha'.2


theorem mem_realOffers {xs : List (LayerKind × Option Obj)} {z : Offer} (h : z ∈ realOffers xs) :
    ∃ x ∈ xs, x.1 = z.kind := by
  simp only [realOffers, List.mem_filterMap, Option.map_eq_some_iff] at h
  obtain ⟨x, hx, o, _, rfl⟩ := h
  exact ⟨x, hx, rfl⟩

theorem realOffers_sorted : ∀ (xs : List (LayerKind × Option Obj)), xs.Pairwise (fun a c => c.1.prio ≤ a.1.prio) →
    (realOffers xs).Pairwise fun a c => c.prio ≤ a.prio := by
  intro xs
  induction xs with
  | nil => intro _; simp [realOffers]
  | cons x xs ih =>
    intro h
    have hpw := List.pairwise_cons.1 h
    obtain ⟨q, off⟩ := x
    cases off with
    | none =>
      have hro : realOffers ((q, none) :: xs) = realOffers xs := by simp [realOffers]
      rw [hro]; exact ih hpw.2
    | some o =>
      have hro : realOffers ((q, some o) :: xs) = ⟨q, o⟩ :: realOffers xs := by simp [realOffers]
      rw [hro]
      refine List.pairwise_cons.2 ⟨fun z hz => ?_, ih hpw.2⟩
      obtain ⟨x, hx, hxz⟩ := mem_realOffers hz
      have := hpw.1 x hx
      simp only [Offer.prio, ← hxz] at this ⊢
      exact this

/-- the offers for `n`, parents in the given order -/
def offersFrom (rs : List ParentRes) (n : Name) : List Offer :=
  realOffers (rs.map fun r => (r.kind, offerOf r n))

theorem offersFrom_perm (rs : List ParentRes) (n : Name) :
    (offersFrom rs n).Perm (offersFrom (sortDesc rs) n) := by
  unfold offersFrom realOffers
  exact (((sortDesc_perm rs).map _).filterMap _).symm

theorem offersFrom_sorted (rs : List ParentRes) (n : Name) :
    (offersFrom (sortDesc rs) n).Pairwise fun a c => c.prio ≤ a.prio := by
  unfold offersFrom
  apply realOffers_sorted
  rw [List.pairwise_map]
  exact sortDesc_sorted rs

theorem offersFrom_cons (r : ParentRes) (rs : List ParentRes) (n : Name) :
    offersFrom (r :: rs) n =
      (match offerOf r n with | some o => [⟨r.kind, o⟩] | none => []) ++ offersFrom rs n := by
  unfold offersFrom realOffers
  cases h : offerOf r n <;> simp [h]

/-! ## local objects override -/

theorem contains_names (locals : List Obj) (n : Name) :
    (locals.map (·.name)).contains n = (localObj locals n).isSome := by
  induction locals with
  | nil => simp [localObj]
  | cons o os ih =>
    by_cases h : o.name = n
    · simp [localObj, h]
    · have h' : ¬ n = o.name := fun h' => h h'.symm
      simp only [localObj] at ih
      simp only [List.map_cons, List.contains_cons, localObj, List.find?_cons, h, decide_false]
      rw [ih]
      simp [h']

theorem dictGet_locals (p : Nat) : ∀ (locals : List Obj) (d : Dict) (n : Name), (locals.map (·.name)).Nodup →
    dictGet (locals.foldl (fun d o => dictSet d ⟨o, p⟩) d) n =
      match localObj locals n with
      | some o => some ⟨o, p⟩
      | none => dictGet d n := by
  intro locals
  induction locals with
  | nil => intro d n _; simp [localObj]
  | cons o os ih =>
    intro d n hnd
    simp only [List.map_cons, List.nodup_cons] at hnd
    simp only [List.foldl_cons]
    rw [ih _ n hnd.2]
    by_cases h : o.name = n
    · subst h
      have : localObj os o.name = none := find_none_of_not_mem os o.name hnd.1
      rw [this]
      simp [localObj, dictGet_dictSet]
    · simp only [localObj, List.find?_cons, h, decide_false]
      cases List.find? (fun o => decide (o.name = n)) os <;> simp [dictGet_dictSet, h]

theorem keys_locals_nodup (p : Nat) : ∀ (locals : List Obj) (d : Dict), (keys d).Nodup →
    (keys (locals.foldl (fun d o => dictSet d ⟨o, p⟩) d)).Nodup := by
  intro locals
  induction locals with
  | nil => intro d h; exact h
  | cons o os ih => intro d h; exact ih _ (keys_dictSet_nodup d _ h)

theorem find_map_obj (d : Dict) (n : Name) :
    (d.map (·.obj)).find? (fun o => o.name = n) = (dictGet d n).map (·.obj) := by
  induction d with
  | nil => simp [dictGet]
  | cons e es ih =>
    by_cases h : e.obj.name = n
    · simp [dictGet, h]
    · simp only [dictGet] at ih
      simp [dictGet, h, ih]

/-! ## the dictionary keys stay distinct -/

theorem mergeObj_keys {ln : List Name} {p : Nat} {d d1 : Dict} {o : Obj}
    (h : mergeObj ln p d o = .ok d1) (hk : (keys d).Nodup) : (keys d1).Nodup := by
  unfold mergeObj at h
  split at h
  · cases h; exact keys_dictSet_nodup d _ hk
  · split at h
    · cases h; exact hk
    · split at h
      · cases h; exact keys_dictSet_nodup d _ hk
      · split at h
        · cases h; exact hk
        · split at h
          · cases h; exact hk
          · cases h

theorem foldObjs_keys {ln : List Name} {p : Nat} : ∀ (os : List Obj) (d d' : Dict),
    os.foldlM (mergeObj ln p) d = .ok d' → (keys d).Nodup → (keys d').Nodup := by
  intro os
  induction os with
  | nil => intro d d' h hk; simp only [List.foldlM_nil] at h; cases h; exact hk
  | cons o os ih =>
    intro d d' h hk
    rw [List.foldlM_cons] at h
    cases hm : mergeObj ln p d o with
    | error e => rw [hm] at h; cases h
    | ok d1 => rw [hm] at h; exact ih d1 d' h (mergeObj_keys hm hk)

theorem mergeAll_keys {ln : List Name} : ∀ (rs : List ParentRes) (d d' : Dict),
    rs.foldlM (mergeParent ln) d = .ok d' → (keys d).Nodup → (keys d').Nodup := by
  intro rs
  induction rs with
  | nil => intro d d' h hk; simp only [List.foldlM_nil] at h; cases h; exact hk
  | cons r rs ih =>
    intro d d' h hk
    rw [List.foldlM_cons] at h
    cases hm : mergeParent ln d r with
    | error e => rw [hm] at h; cases h
    | ok d1 => rw [hm] at h; exact ih d1 d' h (foldObjs_keys _ d d1 hm hk)

end OdxVerif.Inherit
